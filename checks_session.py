"""Session-level checks: C02 (delivery), C03 (metadata order), C11 (framing), C13 (rotation)."""
import random
import hashlib
import struct
import sys
import os

sys.path.insert(0, os.path.join(os.path.dirname(os.path.abspath(__file__)), 'tools'))
import binlog_gen as G
from checklib import *
from checks_reader import parse_kv, finish_proof, cases_count, report_corr

TAG_SOURCE, TAG_WP, TAG_CS = G.TAG_SOURCE, G.TAG_WP, G.TAG_CS


def gen_session_script(rng, rotations=True):
    cs = (rng.randrange(1000), rng.choice([1, 1000, 10 ** 9]), rng.randrange(10 ** 18), rng.choice([0, 3600]), b'UT'.hex())
    ops = []
    writers = {}          # w -> next seq
    nsrc = 0
    nops = rng.choice([6, 15, 40, 90])
    next_w = 1
    for _ in range(nops):
        k = rng.randrange(100)
        live = [w for w in writers if writers[w] is not None]
        if k < 8 or not live:
            cap = rng.choice([8, 24, 30, 48, 64, 100, 128, 1024])
            ops.append('cw %d %d %d %s' % (next_w, cap, rng.choice([0, next_w, 77]), G.rand_bytes(rng, 4, b'abw').hex() or '-'))
            writers[next_w] = 0
            next_w += 1
        elif k < 16 or nsrc == 0:
            ops.append('src %d %s %s %s %d %s %s' % (rng.choice(G.SEVERITIES), G.rand_bytes(rng, 3, b'cat').hex() or '-',
                       G.rand_bytes(rng, 4, b'fn_').hex() or '-', b'f.cpp'.hex(), rng.randrange(200), b'm {}'.hex(), b'I'.hex()))
            nsrc += 1
        elif k < 62:
            w = rng.choice(live)
            extra = rng.choice([0, 0, 1, 5, 20, 60, 200])
            args = struct.pack('<II', w, writers[w]) + bytes(rng.randrange(256) for _ in range(extra))
            writers[w] += 1
            ops.append('log %d %d %d %s' % (w, rng.randrange(1, nsrc + 1), rng.randrange(1000), args.hex()))
        elif k < 80:
            ops.append('consume')
        elif k < 84:
            w = rng.choice(live)
            ops.append('dw %d' % w)
            writers[w] = None
        elif k < 88:
            w = rng.choice(live)
            ops.append(rng.choice(['sid %d %d' % (w, rng.randrange(100)), 'sname %d %s' % (w, G.rand_bytes(rng, 3, b'xyz').hex() or '-')]))
        elif k < 92:
            ops.append('cs %d %d %d %d %s' % (rng.randrange(1000), 10 ** 9, rng.randrange(10 ** 18), 0, b'Z'.hex()))
        elif rotations:
            ops.append('rotate')
            if rng.random() < 0.3:
                ops.append('rotate')
        else:
            ops.append('consume')
    ops.append('consume')
    return 'session %d %d %d %d %s | ' % cs + ' | '.join(ops)


def parse_entries(b):
    """bytes -> list of payloads, or None if not whole entries"""
    out, pos = [], 0
    while pos < len(b):
        if pos + 4 > len(b):
            return None
        sz = int.from_bytes(b[pos:pos + 4], 'little')
        if pos + 4 + sz > len(b):
            return None
        out.append(b[pos + 4:pos + 4 + sz])
        pos += 4 + sz
    return out


def tag_of(p):
    return int.from_bytes(p[:8], 'little') if len(p) >= 8 else None


def analyse(line, out):
    """replays the script against the implementation's output; returns dict property -> failure text"""
    fails = {}
    ops = [o.strip() for o in line.split('|')][1:]
    segs = out.split(';')
    if len(segs) != len(ops):
        return {'ALL': 'output has %d segments for %d ops' % (len(segs), len(ops))}
    accepted = {}         # writer -> list of (seq) accepted
    delivered = {}        # writer -> list of seq
    outputs = [[]]        # per output: list of payloads
    total = 0
    pending_since_consume = {}
    for op, seg in zip(ops, segs):
        t = op.split(' ')
        if seg in ('disabled', 'bad-op') or seg.startswith('exception'):
            if seg != 'disabled':
                fails['ALL'] = 'harness reported %s for %s' % (seg, op)
            continue
        if t[0] == 'log':
            if parse_kv(seg).get('ok') == '1':
                args = bytes.fromhex(t[4])
                w, seq = struct.unpack('<II', args[:8])
                accepted.setdefault(w, []).append(seq)
        elif t[0] in ('consume', 'rotate'):
            kv = parse_kv(seg)
            writes = [bytes.fromhex(x) for x in kv.get('writes', '').split(',')] if kv.get('writes') is not None else []
            if kv.get('writes', '') == '':
                writes = [] if ',' not in seg.split('writes=')[1].split(' ')[0] else writes
            if t[0] == 'rotate':
                outputs.append([])
            # C11: whole entries per write, byte counts
            nbytes = 0
            run_left = 0
            run_writer = None
            for wr in writes:
                nbytes += len(wr)
                es = parse_entries(wr)
                if es is None:
                    fails['C11'] = 'a write call does not carry whole entries: %s' % wr.hex()[:80]
                    continue
                for p in es:
                    outputs[-1].append(p)
                    tg = tag_of(p)
                    if tg == TAG_WP:
                        if run_left != 0:
                            fails['C11'] = 'writer description before the previous batch ended'
                        wid = int.from_bytes(p[8:16], 'little')
                        nlen = int.from_bytes(p[16:20], 'little')
                        run_left = int.from_bytes(p[20 + nlen:28 + nlen], 'little')
                        run_writer = None
                    elif tg is not None and tg < (1 << 63):
                        if run_left < 4 + len(p):
                            fails['C11'] = 'event outside the batch announced by its writer description'
                        run_left -= 4 + len(p)
                        w, seq = struct.unpack('<II', p[16:24])
                        if run_writer is None:
                            run_writer = w
                        elif run_writer != w:
                            fails['C11'] = 'a batch mixes events of two writers'
                        delivered.setdefault(w, []).append(seq)
            if run_left != 0:
                fails['C11'] = 'batch size of a writer description does not match the run of events (%d left)' % run_left
            total += nbytes
            if int(kv.get('bytes', '-1')) != nbytes or int(kv.get('total', '-1')) != total:
                fails['C11'] = 'reported byte counts (%s, %s) differ from bytes written (%d, %d)' % (kv.get('bytes'), kv.get('total'), nbytes, total)
            if t[0] == 'consume':
                # C02: everything accepted so far has been delivered, in order, exactly once
                for w, seqs in accepted.items():
                    if delivered.get(w, []) != seqs:
                        fails['C02'] = 'writer %d: accepted %s but delivered %s after a consume' % (w, seqs[-5:], delivered.get(w, [])[-5:])
    # C03 / C13 per output
    for oi, o in enumerate(outputs):
        defined = set()
        seen_cs = False
        src_count = {}
        for p in o:
            tg = tag_of(p)
            if tg == TAG_CS:
                seen_cs = True
            elif tg == TAG_SOURCE:
                sid = int.from_bytes(p[8:16], 'little')
                src_count[sid] = src_count.get(sid, 0) + 1
                defined.add(sid)
            elif tg is not None and tg < (1 << 63):
                key = 'C03' if oi == 0 else 'C13'
                if tg not in defined:
                    fails[key] = 'output %d: event with source id %d before its source entry' % (oi, tg)
                if not seen_cs:
                    fails[key] = 'output %d: event before any clock sync' % oi
        if any(c > 1 for c in src_count.values()):
            fails['C03'] = 'output %d: a source entry written twice' % oi
    return fails


SESSION_RULE = ('operation scripts on the real Session/SessionWriter (sequential): 1..n writers with queue capacities from 8 bytes '
                '(smaller than one event) to 1 KiB, first-time and repeated log statements with 8..208 byte arguments, renames, '
                'destroy right after logging, clock-sync changes, consume calls and rotations (incl. twice in a row, before any '
                'consume); every write call with its boundaries and every ConsumeResult compared with the L1 model whose queues are '
                'the C01 queue model; non-trivial = script with a channel replacement or a two-piece batch or a rotation; distinct by script')


def session_check(ctx, module, theorems, prop, rotations=True, extra=None):
    ok = proof_step(ctx, module, theorems, extra_targets=extra)
    exe = build_harness('session_harness', link_repo=False)
    rng = random.Random(ctx.seed * 1000003 + 2)
    n = cases_count(ctx, 1500, 30000)
    lines = [gen_session_script(rng, rotations) for _ in range(n)]
    impl, model, mism = diff_streams(ctx, 'session_ops', exe, lines)
    prop_fail, nontrivial = set(), set()
    for i, l in enumerate(lines):
        if i >= len(impl):
            break
        fails = analyse(l, impl[i])
        what = fails.get(prop) or fails.get('ALL')
        if what:
            prop_fail.add(i)
            ctx.violation('%s-%s' % (prop.lower(), hashlib.sha256(l.encode()).hexdigest()[:10]), '%s: %s' % (prop, what),
                          {'kind': 'script', 'input_line': l, 'impl': impl[i]})
        if 'rotate' in l or 'polled=2' in impl[i] or 'polled=3' in impl[i]:
            nontrivial.add(l)
    report_corr(ctx, 'session_ops', lines, impl, model, mism, prop_fail)
    finish_proof(ctx, ok, bool(prop_fail))
    ctx.coverage.update({'evaluations': len(lines), 'distinct_nontrivial': len(nontrivial),
                         'traces_validated_against_impl': len(lines) - len(mism), 'rule': SESSION_RULE})
    ctx.samples = [lines[0][:400]]
    return ctx.finish()


C11_THEOREMS = ['BinlogVerif.C11.c11_whole_entries', 'BinlogVerif.C11.c11_writer_prop', 'BinlogVerif.C11.c11_byte_counts',
                'BinlogVerif.C11.c11_byte_counts_reconsume', 'BinlogVerif.C11.c11_consume_stream',
                'BinlogVerif.C01.c01_pieces_whole_commits']
C02_THEOREMS = []
C03_THEOREMS = ['BinlogVerif.C03.c03_source_before_event', 'BinlogVerif.C03.c03_ids_distinct', 'BinlogVerif.C03.c03_each_source_once',
                'BinlogVerif.Sess.metaInv_exec']
C13_THEOREMS = ['BinlogVerif.C13.c13_self_contained', 'BinlogVerif.C13.c13_rotation_writes_metadata']


def check_c11(ctx): return session_check(ctx, 'BinlogVerif.Props.C11', C11_THEOREMS, 'C11', extra=['BinlogVerif.Props.C01'])
def check_c02(ctx): return session_check(ctx, 'BinlogVerif.Props.C02', C02_THEOREMS, 'C02')
def check_c03(ctx): return session_check(ctx, 'BinlogVerif.Props.C03', C03_THEOREMS, 'C03')
def check_c13(ctx): return session_check(ctx, 'BinlogVerif.Props.C13', C13_THEOREMS, 'C13')


CHECKS = {'C11': check_c11, 'C02': check_c02, 'C03': check_c03, 'C13': check_c13}
