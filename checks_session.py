"""Session-level checks: C02 (delivery), C03 (metadata order), C11 (framing), C13 (rotation)."""
import random
import hashlib
import struct
import sys
import os

sys.path.insert(0, os.path.join(os.path.dirname(os.path.abspath(__file__)), 'tools'))
import binlog_gen as G
from checklib import *
from checks_reader import parse_kv, finish_proof, cases_count, report_corr

TAG_SOURCE, TAG_WP, TAG_CS = G.TAG_SOURCE, G.TAG_WP, G.TAG_CS


def gen_session_script(rng, rotations=True, allocfail=False):
    cs = (rng.randrange(1000), rng.choice([1, 1000, 10 ** 9]), rng.randrange(10 ** 18), rng.choice([0, 3600]), b'UT'.hex())
    ops = []
    writers = {}          # w -> next seq
    nsrc = 0
    nops = rng.choice([6, 15, 40, 90])
    next_w = 1
    for _ in range(nops):
        k = rng.randrange(100)
        live = [w for w in writers if writers[w] is not None]
        if k < 8 or not live:
            cap = rng.choice([8, 24, 30, 48, 64, 100, 128, 1024])
            ops.append('cw %d %d %d %s' % (next_w, cap, rng.choice([0, next_w, 77]), G.rand_bytes(rng, 4, b'abw').hex() or '-'))
            writers[next_w] = 0
            next_w += 1
        elif k < 16 or (nsrc == 0 and k < 62):
            ops.append('src %d %s %s %s %d %s %s' % (rng.choice(G.SEVERITIES), G.rand_bytes(rng, 3, b'cat').hex() or '-',
                       G.rand_bytes(rng, 4, b'fn_').hex() or '-', b'f.cpp'.hex(), rng.randrange(200), b'm {}'.hex(), b'I'.hex()))
            nsrc += 1
        elif k < 62:
            w = rng.choice(live)
            extra = rng.choice([0, 0, 1, 5, 20, 60, 200])
            args = struct.pack('<II', w, writers[w]) + bytes(rng.randrange(256) for _ in range(extra))
            writers[w] += 1
            # 6%: `logf` - the same addEvent while array allocation fails (a channel replacement, if needed, fails: ok=0)
            opname = 'logf' if allocfail and rng.random() < 0.06 else 'log'
            if opname == 'logf' and rng.random() < 0.7:
                args += bytes(rng.randrange(256) for _ in range(rng.choice([64, 128, 300, 1100])))
            ops.append('%s %d %d %d %s' % (opname, w, rng.randrange(1, nsrc + 1), rng.randrange(1000), args.hex()))
        elif k < 80:
            ops.append('consume')
        elif k < 84:
            w = rng.choice(live)
            ops.append('dw %d' % w)
            writers[w] = None
        elif k < 88:
            w = rng.choice(live)
            ops.append(rng.choice(['sid %d %d' % (w, rng.randrange(100)), 'sname %d %s' % (w, G.rand_bytes(rng, 3, b'xyz').hex() or '-')]))
        elif k < 92:
            ops.append('cs %d %d %d %d %s' % (rng.randrange(1000), 10 ** 9, rng.randrange(10 ** 18), 0, b'Z'.hex()))
        elif rotations:
            ops.append('rotate')
            if rng.random() < 0.3:
                ops.append('rotate')
        else:
            ops.append('consume')
    ops.append('consume')
    return 'session %d %d %d %d %s | ' % cs + ' | '.join(ops)


def parse_entries(b):
    """bytes -> list of payloads, or None if not whole entries"""
    out, pos = [], 0
    while pos < len(b):
        if pos + 4 > len(b):
            return None
        sz = int.from_bytes(b[pos:pos + 4], 'little')
        if pos + 4 + sz > len(b):
            return None
        out.append(b[pos + 4:pos + 4 + sz])
        pos += 4 + sz
    return out


def tag_of(p):
    return int.from_bytes(p[:8], 'little') if len(p) >= 8 else None


def analyse(line, out):
    """replays the script against the implementation's output; returns dict property -> failure text"""
    fails = {}
    ops = [o.strip() for o in line.split('|')][1:]
    segs = out.split(';')
    if len(segs) != len(ops):
        return {'ALL': 'output has %d segments for %d ops' % (len(segs), len(ops))}
    ident = {}            # writer -> set of (id, name) it ever had
    cur = {}              # writer -> current (id, name)
    accepted = {}         # writer -> list of (seq) accepted
    delivered = {}        # writer -> list of seq
    outputs = [[]]        # per output: list of payloads
    total = 0
    pending_since_consume = {}
    for op, seg in zip(ops, segs):
        t = op.split(' ')
        if seg in ('disabled', 'bad-op') or seg.startswith('exception'):
            if seg != 'disabled':
                fails['ALL'] = 'harness reported %s for %s' % (seg, op)
            continue
        if t[0] == 'cw' and seg == 'cw':
            cur[int(t[1])] = (int(t[3]), bytes.fromhex(t[4]) if t[4] != '-' else b'')
            ident.setdefault(int(t[1]), set()).add(cur[int(t[1])])
        elif t[0] == 'sid' and seg == 'sid':
            cur[int(t[1])] = (int(t[2]), cur.get(int(t[1]), (0, b''))[1])
            ident.setdefault(int(t[1]), set()).add(cur[int(t[1])])
        elif t[0] == 'sname' and seg == 'sname':
            cur[int(t[1])] = (cur.get(int(t[1]), (0, b''))[0], bytes.fromhex(t[2]) if t[2] != '-' else b'')
            ident.setdefault(int(t[1]), set()).add(cur[int(t[1])])
        if t[0] in ('log', 'logf'):
            if parse_kv(seg).get('ok') == '1':
                args = bytes.fromhex(t[4])
                w, seq = struct.unpack('<II', args[:8])
                accepted.setdefault(w, []).append(seq)
        elif t[0] in ('consume', 'rotate'):
            kv = parse_kv(seg)
            writes = [bytes.fromhex(x) for x in kv.get('writes', '').split(',')] if kv.get('writes') is not None else []
            if kv.get('writes', '') == '':
                writes = [] if ',' not in seg.split('writes=')[1].split(' ')[0] else writes
            if t[0] == 'rotate':
                outputs.append([])
            # C11: whole entries per write, byte counts
            nbytes = 0
            run_left = 0
            run_writer = None
            for wr in writes:
                nbytes += len(wr)
                es = parse_entries(wr)
                if es is None:
                    fails['C11'] = 'a write call does not carry whole entries: %s' % wr.hex()[:80]
                    continue
                for p in es:
                    outputs[-1].append(p)
                    tg = tag_of(p)
                    if tg == TAG_WP:
                        if run_left != 0:
                            fails['C11'] = 'writer description before the previous batch ended'
                        wid = int.from_bytes(p[8:16], 'little')
                        nlen = int.from_bytes(p[16:20], 'little')
                        wname = p[20:20 + nlen]
                        run_left = int.from_bytes(p[20 + nlen:28 + nlen], 'little')
                        run_writer = None
                    elif tg is not None and tg < (1 << 63):
                        if run_left < 4 + len(p):
                            fails['C11'] = 'event outside the batch announced by its writer description'
                        run_left -= 4 + len(p)
                        w, seq = struct.unpack('<II', p[16:24])
                        if run_writer is None:
                            run_writer = w
                            if w in ident and (wid, wname) not in ident[w]:
                                fails['C11'] = 'the writer description in front of the events of writer %d names (id=%d, name=%r), which that writer never was (it was %s)' % (
                                    w, wid, wname, sorted(ident[w])[:3])
                        elif run_writer != w:
                            fails['C11'] = 'a batch mixes events of two writers'
                        delivered.setdefault(w, []).append(seq)
            if run_left != 0:
                fails['C11'] = 'batch size of a writer description does not match the run of events (%d left)' % run_left
            total += nbytes
            if int(kv.get('bytes', '-1')) != nbytes or int(kv.get('total', '-1')) != total:
                fails['C11'] = 'reported byte counts (%s, %s) differ from bytes written (%d, %d)' % (kv.get('bytes'), kv.get('total'), nbytes, total)
            if t[0] == 'consume':
                # C02: everything accepted so far has been delivered, in order, exactly once
                for w, seqs in accepted.items():
                    if delivered.get(w, []) != seqs:
                        fails['C02'] = 'writer %d: accepted %s but delivered %s after a consume' % (w, seqs[-5:], delivered.get(w, [])[-5:])
    # C03 / C13 per output
    for oi, o in enumerate(outputs):
        defined = set()
        seen_cs = False
        src_count = {}
        for p in o:
            tg = tag_of(p)
            if tg == TAG_CS:
                seen_cs = True
            elif tg == TAG_SOURCE:
                sid = int.from_bytes(p[8:16], 'little')
                src_count[sid] = src_count.get(sid, 0) + 1
                defined.add(sid)
            elif tg is not None and tg < (1 << 63):
                key = 'C03' if oi == 0 else 'C13'
                if tg not in defined:
                    fails[key] = 'output %d: event with source id %d before its source entry' % (oi, tg)
                    # C03 speaks about every output ("each source is written once per output"): also its violation
                    fails['C03'] = fails[key]
                if not seen_cs:
                    fails[key] = 'output %d: event before any clock sync' % oi
        if any(c > 1 for c in src_count.values()):
            fails['C03'] = 'output %d: a source entry written twice' % oi
    return fails


SESSION_RULE = ('operation scripts on the real Session/SessionWriter (sequential): 1..n writers with queue capacities from 8 bytes '
                '(smaller than one event) to 1 KiB, first-time and repeated log statements with 8..208 byte arguments, renames, '
                'destroy right after logging, clock-sync changes, consume calls and rotations (incl. twice in a row, before any '
                'consume); every write call with its boundaries and every ConsumeResult compared with the L1 model whose queues are '
                'the C01 queue model; non-trivial = script with a channel replacement or a two-piece batch or a rotation; distinct by script')


def gen_inject_script(rng):
    """a session script in which the ops that FOLLOW a consume/rotate/registration are injected into it: the harness runs them
    at the first mutex unlock inside that op (see harness/session_harness.cpp).  Returns (sequential line, injected line,
    permutation mapping positions of the injected line to positions of the sequential line)"""
    base = gen_session_script(rng, rotations=True)
    head, ops = base.split(' | ')[0], base.split(' | ')[1:]
    # where can we inject: after a host op, a run of ops that do not themselves need the harness' bookkeeping
    live, nsrc, hosts = set(), 0, []
    state = []
    for i, o in enumerate(ops):
        t = o.split(' ')
        state.append((set(live), nsrc))
        if t[0] == 'cw': live.add(int(t[1]))
        elif t[0] == 'dw': live.discard(int(t[1]))
        elif t[0] == 'src': nsrc += 1
        if t[0] in ('consume', 'rotate', 'src', 'cs') and i + 1 < len(ops):
            hosts.append(i)
    if not hosts:
        return None
    rot = [i for i in hosts if ops[i].startswith('rotate')]
    if rot and rng.random() < 0.3:
        h = rng.choice(rot)
    else:
        h = rng.choice([i for i in hosts if ops[i].startswith('consume')] or hosts)
    live_h, nsrc_h = state[h + 1] if h + 1 < len(state) else (live, nsrc)
    inj = []
    if live_h and rng.random() < 0.7:
        # a log statement executed for the first time by a thread that was waiting for the mutex: registration + event
        w = rng.choice(sorted(live_h))
        inj.append('src %d %s %s %s %d %s %s' % (rng.choice(G.SEVERITIES), b'inj'.hex(), b'fn'.hex(), b'f.cpp'.hex(), rng.randrange(200), b'm {}'.hex(), b'I'.hex()))
        inj.append('log %d %d %d %s' % (w, nsrc_h + 1, rng.randrange(1000), struct.pack('<II', w, 100000 + rng.randrange(1000)).hex()))
        if rng.random() < 0.4 and len(live_h) > 1:
            w2 = rng.choice(sorted(live_h - {w}))
            inj.append('log %d %d %d %s' % (w2, nsrc_h + 1, rng.randrange(1000), struct.pack('<II', w2, 100000 + rng.randrange(1000)).hex()))
    if ops[h].startswith('rotate') and rng.random() < 0.7:
        # a burst of first-time log statements of waiting threads: the metadata buffers grow (and move) right after the unlock
        for j in range(rng.choice([1, 3, 20, 70])):
            inj.append('src %d %s %s %s %d %s %s' % (rng.choice(G.SEVERITIES), b'burst'.hex(), (b'fn%d' % j).hex(), b'some/long/path/to/file.cpp'.hex(), j, b'm {}'.hex(), b'I'.hex()))
        if rng.random() < 0.5:
            inj.append('cs %d %d %d %d %s' % (rng.randrange(1000), 10 ** 9, rng.randrange(10 ** 18), 0, b'ZONE'.hex()))
    tail = ops[h + 1:]
    k = 0
    if not inj:
        while k < len(tail) and k < 3 and tail[k].split(' ')[0] in ('src', 'log', 'cw', 'dw', 'sname', 'sid'):
            k += 1
        if k == 0:
            return None
        inj, tail = tail[:k], tail[k:]
    seq_ops = ops[:h] + [ops[h]] + inj + tail
    inj_ops = ops[:h] + ['@' + x for x in inj] + [ops[h]] + tail
    n = len(inj)
    perm = list(range(h)) + [h + 1 + j for j in range(n)] + [h] + list(range(h + 1 + n, len(seq_ops)))
    return head + ' | ' + ' | '.join(seq_ops), head + ' | ' + ' | '.join(inj_ops), perm


def gen_write_inject_script(rng):
    """a session script in which a `log` of a writer is executed WHILE consume is inside the write call that carries that
    writer's queue data (harness: `%` prefix): the event is committed after the channel was polled and before it is released,
    so the run must equal the sequential one `consume; log`.  Only logs that take no lock are injected: known source, a writer
    whose queue can hold everything the script ever logs through it (no replacement).
    Returns (sequential line, injected line, permutation) like gen_inject_script."""
    base = gen_session_script(rng, rotations=True)
    head, ops = base.split(' | ')[0], base.split(' | ')[1:]
    caps, total, live, nsrc = {}, {}, set(), 0
    state = []
    since = set()         # writers that logged since the last consume
    for i, o in enumerate(ops):
        t = o.split(' ')
        state.append((set(live), nsrc, set(since)))
        if t[0] == 'cw':
            live.add(int(t[1])); caps[int(t[1])] = int(t[2])
        elif t[0] == 'dw':
            live.discard(int(t[1]))
        elif t[0] == 'src':
            nsrc += 1
        elif t[0] == 'log':
            total[int(t[1])] = total.get(int(t[1]), 0) + 20 + len(t[4]) // 2
            since.add(int(t[1]))
        elif t[0] == 'consume':
            since = set()
    hosts = []
    for i, o in enumerate(ops):
        if o == 'consume':
            lv, ns, sn = state[i]
            # writers alive after the consume too (the injected log follows it in the sequential order)
            ws = [w for w in lv if w in sn and ns > 0 and total.get(w, 0) + 3 * 40 < caps[w]]
            if ws:
                hosts.append((i, ws, ns))
    if not hosts:
        return None
    h, ws, ns = rng.choice(hosts)
    w = rng.choice(ws)
    inj = []
    for j in range(rng.choice([1, 1, 2, 3])):
        inj.append('log %d %d %d %s' % (w, rng.randrange(1, ns + 1), rng.randrange(1000),
                                        (struct.pack('<II', w, 200000 + rng.randrange(1000) * 4 + j) + bytes(rng.randrange(256) for _ in range(rng.choice([0, 4, 12])))).hex()))
    tail = ops[h + 1:]
    seq_ops = ops[:h] + [ops[h]] + inj + tail
    inj_ops = ops[:h] + ['%' + x for x in inj] + [ops[h]] + tail
    n = len(inj)
    perm = list(range(h)) + [h + 1 + j for j in range(n)] + [h] + list(range(h + 1 + n, len(seq_ops)))
    return head + ' | ' + ' | '.join(seq_ops), head + ' | ' + ' | '.join(inj_ops), perm


def inject_stream(ctx, prop):
    """operations that wait for the session mutex run at the first unlock inside consume/rotate/registration: equal to the
    sequential run as long as the mutex is held for the whole body"""
    exe = build_harness('session_harness', link_repo=False)
    rng = random.Random(ctx.seed * 1000003 + 303)
    n = cases_count(ctx, 600, 12000)
    cases = []
    n_write = 0
    while len(cases) < n:
        c = gen_write_inject_script(rng) if len(cases) % 3 == 2 else gen_inject_script(rng)
        if c:
            cases.append(c)
            n_write += 1 if '%log' in c[1] else 0
    rc, impl_raw, err = run_lines(exe, [c[1] for c in cases])
    rc2, model, err2 = run_model_lines([c[0] for c in cases])
    fails, mism = 0, 0
    if rc != 0 and len(impl_raw) < len(cases):
        # the real code died (sanitizer report, assertion, crash) on this schedule: that is a failing input
        i = len(impl_raw)
        fails += 1
        ctx.violation('%s-inject-crash-%s' % (prop.lower(), hashlib.sha256(cases[i][1].encode()).hexdigest()[:10]),
                      '%s: the real Session crashed (sanitizer report / assertion) with operations of other threads interleaved into consume / reconsumeMetadata' % prop,
                      {'kind': 'schedule', 'input_line': cases[i][1], 'stderr_tail': err[-2500:],
                       'how_to_read': 'ops marked @ run at the first mutex unlock inside the next unmarked op; ops marked % run while the next '
                                      'unmarked op (a consume) is inside the write call carrying the queue data of that writer (harness/session_harness.cpp)'})
    for i, (seq_line, inj_line, perm) in enumerate(cases):
        if i >= len(impl_raw):
            break
        segs = impl_raw[i].split(';')
        if len(segs) != len(perm):
            continue
        out = [None] * len(perm)
        for pos, seg in enumerate(segs):
            out[perm[pos]] = seg
        impl = ';'.join(out)
        f = analyse(seq_line, impl)
        what = f.get(prop) or f.get('ALL')
        if what:
            fails += 1
            if fails <= 3:
                ctx.violation('%s-inject-%s' % (prop.lower(), hashlib.sha256(inj_line.encode()).hexdigest()[:10]),
                              '%s: with operations of other threads interleaved (at a mutex unlock inside the operation, or while consume is inside a write call): %s' % (prop, what),
                              {'kind': 'schedule', 'input_line': inj_line, 'impl': impl_raw[i],
                               'how_to_read': 'ops marked @ run at the first mutex unlock inside the next unmarked op; ops marked % run while the next '
                                              'unmarked op (a consume) is inside the write call carrying the queue data of that writer (harness/session_harness.cpp)'})
        elif i < len(model) and impl != model[i]:
            mism += 1
            if mism <= 3:
                ctx.violation('corr-session_inject-%d' % i, 'correspondence session_inject broke: with waiting operations let in at the first unlock, the real code differs from the model in which the operation is one atomic step',
                              {'kind': 'correspondence', 'stream': 'session_inject', 'input_line': inj_line, 'sequential_line': seq_line, 'impl': impl, 'model': model[i],
                               'broken': 'correspondence stream session_inject / atomicity of the locked Session methods (Generated.lockedMethods_match)'}, found_input=False)
    ctx.streams['session_inject'] = {'cases': len(cases), 'cases_log_during_data_write': n_write, 'property_failures': fails, 'mismatches': mism, 'impl_rc': rc, 'model_rc': rc2}
    return fails


def gen_reuse_script(rng):
    """writers that come and go: a writer logs and is consumed, is destroyed, a consume removes its channel, a NEW writer with
    the same queue capacity (so that the allocator may hand out the same block) logs from an already registered statement"""
    cs = (rng.randrange(1000), 10 ** 9, rng.randrange(10 ** 18), 0, b'UT'.hex())
    ops = ['src 128 %s %s %s 1 %s %s' % (b'c'.hex(), b'fn'.hex(), b'f.cpp'.hex(), b'm {}'.hex(), b'I'.hex())]
    w, seqs = 0, {}
    cap = rng.choice([64, 128, 1024])
    for round_ in range(rng.choice([2, 3, 5])):
        w += 1
        named = rng.random() < 0.6
        ops.append('cw %d %d %d %s' % (w, cap, (100 + w) if named else 0, (b'wk%d' % w).hex() if named else '-'))
        for _ in range(rng.choice([1, 2])):
            ops.append('log %d 1 %d %s' % (w, rng.randrange(1000), struct.pack('<II', w, seqs.get(w, 0)).hex()))
            seqs[w] = seqs.get(w, 0) + 1
        if rng.random() < 0.8:
            ops.append('consume')
        if rng.random() < 0.3:
            ops.append(rng.choice(['sid %d %d' % (w, 200 + w), 'sname %d %s' % (w, b'ren'.hex())]))
        ops.append('dw %d' % w)
        ops.append('consume')
    ops.append('consume')
    return 'session %d %d %d %d %s | ' % cs + ' | '.join(ops)


def reuse_stream(ctx, prop):
    """the same harness with ASan's quarantine switched off, so that freed blocks are handed out again at once: identities
    kept beyond the life of a channel (addresses used as keys) show"""
    exe = build_harness('session_harness', link_repo=False)
    rng = random.Random(ctx.seed * 1000003 + 77)
    n = cases_count(ctx, 300, 6000)
    lines = [gen_reuse_script(rng) for _ in range(n)]
    env = {'ASAN_OPTIONS': 'detect_leaks=0:abort_on_error=0:quarantine_size_mb=0:thread_local_quarantine_size_kb=0'}
    rc, impl, err = run_lines(exe, lines, env=env, stall=90, timeout=3600)
    rc2, model, err2 = run_model_lines(lines)
    fails, mism = 0, 0
    for i, l in enumerate(lines):
        if i >= len(impl):
            break
        f = analyse(l, impl[i])
        what = f.get(prop) or f.get('ALL')
        if what:
            fails += 1
            if fails <= 3:
                ctx.violation('%s-reuse-%s' % (prop.lower(), hashlib.sha256(l.encode()).hexdigest()[:10]), '%s: %s' % (prop, what),
                              {'kind': 'script', 'input_line': l, 'impl': impl[i], 'note': 'run with ASAN_OPTIONS quarantine_size_mb=0 (freed blocks are reused at once)'})
        elif i < len(model) and impl[i] != model[i]:
            mism += 1
            if mism <= 2:
                ctx.violation('corr-session_reuse-%d' % i, 'correspondence session_reuse broke: model and implementation disagree on case %d' % i,
                              {'kind': 'correspondence', 'stream': 'session_reuse', 'input_line': l, 'impl': impl[i], 'model': model[i],
                               'broken': 'correspondence stream session_reuse (model of Props.%s no longer matches the code)' % ctx.pid}, found_input=False)
    if rc != 0 and len(impl) < len(lines):
        fails += 1
        ctx.violation('%s-reuse-crash' % prop.lower(), '%s: the real Session crashed on a script of writers that come and go' % prop,
                      {'kind': 'script', 'input_line': lines[len(impl)], 'stderr_tail': err[-2000:]})
    ctx.streams['session_reuse'] = {'cases': n, 'property_failures': fails, 'mismatches': mism}
    return fails


def session_check(ctx, module, theorems, prop, rotations=True, extra=None):
    ok = proof_step(ctx, module, theorems, extra_targets=extra)
    exe = build_harness('session_harness', link_repo=False)
    rng = random.Random(ctx.seed * 1000003 + 2)
    n = cases_count(ctx, 1500, 30000)
    lines = [gen_session_script(rng, rotations, allocfail=True) for _ in range(n)]
    impl, model, mism = diff_streams(ctx, 'session_ops', exe, lines)
    prop_fail, nontrivial = set(), set()
    for i, l in enumerate(lines):
        if i >= len(impl):
            break
        fails = {} if impl[i].startswith('<harness died') else analyse(l, impl[i])
        what = fails.get(prop) or fails.get('ALL')
        if what:
            prop_fail.add(i)
            ctx.violation('%s-%s' % (prop.lower(), hashlib.sha256(l.encode()).hexdigest()[:10]), '%s: %s' % (prop, what),
                          {'kind': 'script', 'input_line': l, 'impl': impl[i]})
        if 'rotate' in l or 'polled=2' in impl[i] or 'polled=3' in impl[i]:
            nontrivial.add(l)
    report_corr(ctx, 'session_ops', lines, impl, model, mism, prop_fail)
    ctx.streams['session_ops'].update({'logf_ops': sum(l.count('| logf ') for l in lines),
                                       'failed_channel_replacements': sum(o.count(' af=1') for o in impl)})
    if inject_stream(ctx, prop):
        prop_fail.add('inject')
    if getattr(ctx, 'extra_finder', None) and ctx.extra_finder(ctx):
        prop_fail.add('race')
    if reuse_stream(ctx, prop):
        prop_fail.add('reuse')
    finish_proof(ctx, ok, bool(prop_fail))
    ctx.coverage.update({'evaluations': len(lines), 'distinct_nontrivial': len(nontrivial),
                         'traces_validated_against_impl': len(lines) - len(mism), 'rule': SESSION_RULE +
                         '; plus scripts in which the operations of threads waiting for the session mutex (first-time log statements: registration + '
                         'event, renames, writer creation/destruction) are run at the first mutex unlock inside consume / reconsumeMetadata / '
                         'addEventSource / setClockSync, and scripts in which a writer logs while consume is inside the write call that '
                         'carries that writer\'s data (after its poll, before its release) (stream session_inject)'})
    ctx.samples = [lines[0][:400]]
    return ctx.finish()


C11_THEOREMS = ['BinlogVerif.C11.c11_whole_entries', 'BinlogVerif.C11.c11_writer_prop', 'BinlogVerif.C11.c11_byte_counts',
                'BinlogVerif.C11.c11_byte_counts_reconsume', 'BinlogVerif.C11.c11_consume_stream',
                'BinlogVerif.C01.c01_pieces_whole_commits', 'BinlogVerif.Generated.lockedMethods_match', 'BinlogVerif.Generated.session_structure']
C02_THEOREMS = ['BinlogVerif.C02.c02_exactly_once_in_order', 'BinlogVerif.C02.c02_accepted_is_what_was_logged',
                'BinlogVerif.C02.c02_delivered_prefix', 'BinlogVerif.C02.c02_delivered_by_next_consume',
                'BinlogVerif.C02.c02_loss_without_sync', 'BinlogVerif.Generated.session_structure',
                'BinlogVerif.Generated.lockedMethods_match']
C03_THEOREMS = ['BinlogVerif.C03.c03_source_before_event', 'BinlogVerif.C03.c03_ids_distinct', 'BinlogVerif.C03.c03_each_source_once',
                'BinlogVerif.Sess.metaInv_exec', 'BinlogVerif.Generated.lockedMethods_match', 'BinlogVerif.Generated.session_structure']
C13_THEOREMS = ['BinlogVerif.C13.c13_self_contained', 'BinlogVerif.C13.c13_rotation_writes_metadata',
                'BinlogVerif.C13.c13_partition', 'BinlogVerif.C13.c13_no_loss_no_dup',
                'BinlogVerif.Generated.lockedMethods_match', 'BinlogVerif.Generated.session_structure']


def check_c11(ctx): return session_check(ctx, 'BinlogVerif.Props.C11', C11_THEOREMS, 'C11', extra=['BinlogVerif.Props.C01', 'BinlogVerif.Generated.Session'])
def gen_ra_script(rng):
    """threads: each writer is its own logical thread (id = writer number), thread 0 registers sources, thread 7 consumes
    with a random staleness policy; the last consume is sequentially consistent and happens after everything"""
    base = gen_session_script(rng, rotations=False)
    ops = [o.strip() for o in base.split('|')]
    head, ops = ops[0], ops[1:]
    out = []
    for o in ops:
        t = o.split(' ')
        if t[0] in ('cw', 'log', 'dw', 'sid', 'sname'):
            out.append('T%s %s' % (t[1], o))
        elif t[0] == 'consume':
            out.append('T7 consume idx=%s,use=%s,seed=%d' % (rng.choice(['old', 'new', 'rnd', 'rnd']), rng.choice(['new', 'new', 'old', 'rnd']), rng.randrange(1 << 30)))
        else:
            out.append('T0 ' + o)
    # make "destroy right after logging, then a stale consume" frequent
    if rng.random() < 0.7:
        out.append('T6 cw 60 %d 0 -' % rng.choice([40, 64, 200]))
        out.append('T0 src 128 - - - 1 - -')
        for q in range(rng.choice([1, 2, 3])):
            out.append('T6 log 60 1 5 %s' % (bytes([60, 0, 0, 0, q, 0, 0, 0]).hex()))
        out.append('T6 dw 60')
        out.append('T7 consume idx=%s,use=new,seed=%d' % (rng.choice(['old', 'rnd']), rng.randrange(1 << 30)))
    out.append('T7 consume')
    return head + ' | ' + ' | '.join(out)


def merge_pieces(seg):
    """canonical form of a consume segment for the release/acquire stream: the two pieces of a wrapped batch are merged"""
    if not seg.startswith('consume'):
        return seg
    kv = parse_kv(seg)
    ws = kv.get('writes', '').split(',')
    merged = []
    for w in ws:
        b = bytes.fromhex(w) if w else b''
        is_ev = len(b) >= 12 and int.from_bytes(b[4:12], 'little') < (1 << 63)
        if merged and is_ev and merged[-1][1]:
            merged[-1] = (merged[-1][0] + w, True)
        else:
            merged.append((w, is_ev))
    return 'consume writes=%s bytes=%s total=%s polled=%s removed=%s' % (','.join(m[0] for m in merged), kv.get('bytes'), kv.get('total'), kv.get('polled'), kv.get('removed'))


def ra_stream(ctx, n):
    """real Session/SessionWriter over the release/acquire shim, with stale reads; compared with the L1 model driven by the
    observations the real consume made (hook); monitored for loss/duplication/reordering"""
    exe = build_harness('session_ra_harness', link_repo=False)
    rng = random.Random(ctx.seed * 1000003 + 202)
    lines = [gen_ra_script(rng) for _ in range(n)]
    rc, impl, err = run_lines(exe, lines)
    # second pass: the model, fed with what each real consume observed
    mlines = []
    for l, o in zip(lines, impl):
        ops = [x.strip() for x in l.split('|')]
        segs = o.split(';')
        out = [ops[0]]
        for op, seg in zip(ops[1:], segs):
            t = op.split(' ')
            if t[0].startswith('T'):
                t = t[1:]
            if t[0] == 'consume':
                out.append('consume polls=' + parse_kv(seg).get('polls', ''))
            else:
                out.append(' '.join(t))
        mlines.append(' | '.join(out))
    rc2, model, err2 = run_model_lines(mlines)
    mism, stale, fails = [], 0, []
    for i, l in enumerate(lines):
        if i >= len(impl) or i >= len(model):
            mism.append(i); continue
        a = ';'.join(merge_pieces(x) for x in impl[i].split(';'))
        b = ';'.join(merge_pieces(x.split(' LOST=')[0]) for x in model[i].split(';'))
        if a != b:
            mism.append(i)
        if ('polls=' in impl[i]) and any(('idx=old' in x or 'idx=rnd' in x) for x in l.split('|')):
            stale += 1
        plain = ' | '.join(' '.join(x.strip().split(' ')[1:]) if x.strip().startswith('T') else x.strip() for x in l.split('|'))
        plain = ' | '.join('consume' if x.strip().startswith('consume') else x.strip() for x in plain.split('|'))
        f = analyse_final(plain, impl[i])
        if f:
            fails.append((i, f))
    ctx.streams['session_ra'] = {'cases': n, 'impl_rc': rc, 'model_rc': rc2, 'mismatches': len(mism), 'scripts_with_stale_policy': stale,
                                 'impl_stderr_tail': err[-500:] if rc else ''}
    return lines, impl, model, mism, fails


def analyse_final(line, out):
    """C02 on the implementation under stale reads: after the last (sequentially consistent, happens-after) consume every accepted
    event has been delivered exactly once, in order per writer"""
    ops = [o.strip() for o in line.split('|')][1:]
    segs = out.split(';')
    if len(segs) != len(ops):
        return 'output has %d segments for %d ops' % (len(segs), len(ops))
    accepted, delivered = {}, {}
    for op, seg in zip(ops, segs):
        t = op.split(' ')
        if t[0] == 'log' and parse_kv(seg).get('ok') == '1':
            w, seq = struct.unpack('<II', bytes.fromhex(t[4])[:8])
            accepted.setdefault(w, []).append(seq)
        elif t[0] == 'consume':
            for wr in parse_kv(seg).get('writes', '').split(','):
                es = parse_entries(bytes.fromhex(wr)) if wr else []
                for p in es or []:
                    tg = tag_of(p)
                    if tg is not None and tg < (1 << 63) and len(p) >= 24:
                        w, seq = struct.unpack('<II', p[16:24])
                        delivered.setdefault(w, []).append(seq)
    for w, seqs in accepted.items():
        if delivered.get(w, []) != seqs:
            return 'writer %d: accepted %s, delivered %s after the final consume' % (w, seqs, delivered.get(w, []))
    return None


def check_c02(ctx):
    ok = proof_step(ctx, 'BinlogVerif.Generated.Session', C02_THEOREMS)
    exe = build_harness('session_harness', link_repo=False)
    rng = random.Random(ctx.seed * 1000003 + 2)
    n = cases_count(ctx, 1000, 20000)
    lines = [gen_session_script(rng, False, allocfail=True) for _ in range(n)]
    impl, model, mism = diff_streams(ctx, 'session_ops', exe, lines)
    ctx.streams['session_ops'].update({'logf_ops': sum(l.count('| logf ') for l in lines),
                                       'failed_channel_replacements': sum(o.count(' af=1') for o in impl)})
    prop_fail, nontrivial = set(), set()
    for i, l in enumerate(lines):
        if i >= len(impl):
            break
        fails = {} if impl[i].startswith('<harness died') else analyse(l, impl[i])
        what = fails.get('C02') or fails.get('ALL')
        if what:
            prop_fail.add(i)
            ctx.violation('c02-%s' % hashlib.sha256(l.encode()).hexdigest()[:10], 'C02: %s' % what, {'kind': 'script', 'input_line': l, 'impl': impl[i]})
        if 'polled=2' in impl[i] or 'polled=3' in impl[i]:
            nontrivial.add(l)
    report_corr(ctx, 'session_ops', lines, impl, model, mism, prop_fail)
    # release/acquire stream
    rlines, rimpl, rmodel, rmism, rfails = ra_stream(ctx, cases_count(ctx, 1500, 30000))
    for i, f in rfails[:3]:
        prop_fail.add(('ra', i))
        key = 'destroyed-writer-stale-index' if ' dw 60' in rlines[i] and 'writer 60' in f else 'ra-%s' % hashlib.sha256(rlines[i].encode()).hexdigest()[:10]
        ctx.violation(key, 'C02 (release/acquire execution of the real code): ' + f,
                      {'kind': 'schedule', 'input_line': rlines[i], 'impl': rimpl[i],
                       'how_to_read': 'T<k> = logical thread; consume idx=old|rnd = the acquire load of a queue write index may read a stale message; use= the same for shared_ptr::use_count()',
                       'replay': 'echo "<input_line>" | build/bin/session_ra_harness-*'})
    for i in rmism[:3]:
        if ('ra', i) not in prop_fail:
            ctx.violation('corr-session_ra-%d' % i, 'correspondence session_ra broke: model and implementation disagree on case %d' % i,
                          {'kind': 'correspondence', 'stream': 'session_ra', 'input_line': rlines[i], 'impl': rimpl[i] if i < len(rimpl) else None,
                           'model': rmodel[i] if i < len(rmodel) else None, 'broken': 'correspondence stream session_ra / Props.C02'}, found_input=False)
    for l in rlines:
        nontrivial.add(l)
    finish_proof(ctx, ok, bool(prop_fail))
    ctx.coverage.update({'evaluations': len(lines) + len(rlines), 'distinct_nontrivial': len(nontrivial),
                         'traces_validated_against_impl': len(lines) - len(mism) + len(rlines) - len(rmism),
                         'rule': SESSION_RULE + '; plus the same scripts on the real headers over a release/acquire shim (logical threads, loads may '
                                 'read stale messages by a random per-consume policy, frequent destroy-right-after-log), the L1 model being driven '
                                 'by what each real channel poll observed'})
    ctx.samples = [lines[0][:300], rlines[0][:400]]
    ctx.assumptions.append('C++11 release/acquire as the view-based operational semantics (RC11 without load buffering); interleaving at the granularity of API calls plus arbitrary reads-from')
    return ctx.finish()
def race_stream(ctx, label='C03'):
    """C03 with real threads on the real macros (harness/race_harness.cpp): while consume is inside a write call, producer
    threads execute log statements - several of them the SAME statement for the first time; each thread is started when the
    previous one has finished or blocks on the session mutex.  Monitor: in what consume wrote, every event is preceded by
    the event source with its id and by a clock sync.  A failing-schedule finder; the claim is the theorem."""
    from concurrent.futures import ThreadPoolExecutor
    exe = build_harness('race_harness', link_repo=False)
    rng = random.Random(ctx.seed * 1000003 + 33)
    n = cases_count(ctx, 48, 600)
    lines = []
    for i in range(n):
        nth = rng.choice([2, 2, 3, 4])
        s0 = rng.randrange(6)
        sites = [s0 if rng.random() < 0.75 else rng.randrange(6) for _ in range(nth)]
        pre = [rng.randrange(6) for _ in range(rng.choice([0, 0, 1, 2]))]
        pre = [x for x in pre if x != s0]
        hook = rng.choice([0, 0, 1, 10]) if pre else 0
        lines.append('race %d %d %s %s' % (hook, nth, ' '.join(map(str, sites)), ' '.join(map(str, pre))))
    def one(l):
        rc, out, err = run_lines(exe, [l], timeout=120)
        return out[0] if out else '<died: %s>' % ' '.join(err[-300:].split())
    with ThreadPoolExecutor(max_workers=8) as ex:
        outs = list(ex.map(one, lines))
    fails, hooked = 0, 0
    for l, o in zip(lines, outs):
        kv = parse_kv(o)
        what = None
        if o.startswith('<died'):
            what = 'the real code crashed under the schedule: ' + o[:300]
        else:
            hooked += 1 if kv.get('hooked') == '1' else 0
            seq = [x for x in (kv.get('zero', '') + ',' + kv.get('first', '') + ',' + kv.get('second', '')).split(',') if x]
            defined, cs = set(), False
            for x in seq:
                if x == 'C':
                    cs = True
                elif x[0] == 'S':
                    if x[1:] in defined:
                        what = 'two event sources are written under the same id %s (entries: %s)' % (x[1:], ','.join(seq)[:300])
                        break
                    defined.add(x[1:])
                elif x[0] == 'E':
                    if x[1:] not in defined:
                        what = 'an event with source id %s is written before the event source with that id (entries: %s)' % (x[1:], ','.join(seq)[:300])
                        break
                    if not cs:
                        what = 'an event is written before any clock sync'
                        break
            # every statement is enabled (minimum severity trace) and executed once: exactly one event each
            t = l.split()
            nstmts = int(t[2]) + max(0, len(t) - 3 - int(t[2]))
            nev = sum(1 for x in seq if x[0] == 'E')
            if what is None and nev != nstmts:
                what = '%d statements at or above the minimum severity were executed, %d events were written (entries: %s)' % (nstmts, nev, ','.join(seq)[:300])
        if what:
            fails += 1
            if fails <= 3:
                ctx.violation('%s-race-%s' % (label.lower(), hashlib.sha256(l.encode()).hexdigest()[:10]),
                              label + ': with threads executing log statements (the same statement for the first time) while consume runs: ' + what,
                              {'kind': 'schedule', 'input_line': l, 'impl': o,
                               'how_to_read': 'race <write call of consume at which the threads start> <n threads> <site per thread> [statements executed before]; '
                                              'each thread starts when the previous one finished or blocks on the session mutex (harness/race_harness.cpp)'})
    ctx.streams['race'] = {'cases': len(lines), 'hooked': hooked, 'property_failures': fails}
    return fails


def check_c03(ctx):
    ctx.extra_finder = race_stream
    return session_check(ctx, 'BinlogVerif.Props.C03', C03_THEOREMS, 'C03', extra=['BinlogVerif.Generated.Session'])
def check_c13(ctx): return session_check(ctx, 'BinlogVerif.Props.C13', C13_THEOREMS, 'C13', extra=['BinlogVerif.Generated.Session'])


CHECKS = {'C11': check_c11, 'C02': check_c02, 'C03': check_c03, 'C13': check_c13}


# ------------------------------------------------------------------------------------------
# C19
# ------------------------------------------------------------------------------------------
C19_THEOREMS = ['BinlogVerif.C19.c19_disabled', 'BinlogVerif.C19.c19_enabled', 'BinlogVerif.C19.c19_takes_effect',
                'BinlogVerif.C19.c19_history', 'BinlogVerif.C19.c19_families', 'BinlogVerif.Generated.macros_match',
                'BinlogVerif.Generated.macros_category', 'BinlogVerif.Generated.session_structure']


def check_c19(ctx):
    import json as _json
    from concurrent.futures import ThreadPoolExecutor
    ok = proof_step(ctx, 'BinlogVerif.Generated.Macros', C19_THEOREMS, extra_targets=['BinlogVerif.Generated.Session'])
    exe = build_harness('macro_harness', link_repo=False)
    sites = _json.load(open(os.path.join(VERIF, 'harness', 'macro_sites.json')))
    rng = random.Random(ctx.seed * 1000003 + 19)
    n = cases_count(ctx, 300, 6000)
    lines = []
    for _ in range(n):
        toks = ['macro']
        for _ in range(rng.choice([5, 20, 60])):
            if rng.random() < 0.2:
                toks += ['min', str(rng.randrange(2)), str(rng.choice([32, 64, 128, 256, 512, 1024, 32768, 0, 33]))]
            elif rng.random() < 0.03:
                toks += ['reseat']
            else:
                toks += ['stmt', str(rng.randrange(48))]
        lines.append(' '.join(toks))
    # the call sites are statics of the process: one process per script
    def one(l):
        rc, out, err = run_lines(exe, [l], timeout=60)
        return out[0] if out else '<died: %s>' % err[-200:]
    with ThreadPoolExecutor(max_workers=16) as ex:
        impl = list(ex.map(one, lines))
    rc, model, err = run_model_lines(lines)
    mism, prop_fail, nontrivial = [], set(), set()
    for i, l in enumerate(lines):
        b = model[i] if i < len(model) else '<none>'
        # property monitor on the implementation: python replay of the documented semantics
        toks = l.split(' ')[1:]
        mins = {0: 32, 1: 32}
        reseated = False
        seen = set()
        segs = impl[i].split(';')
        j, k = 0, 0
        bad = None
        while j < len(toks) and k < len(segs):
            if toks[j] == 'min':
                mins[int(toks[j + 1])] = int(toks[j + 2]); j += 3
            elif toks[j] == 'reseat':
                reseated = True; j += 1
            else:
                st = dict(sites[int(toks[j + 1])]); j += 2
                if reseated:
                    st['session'] = 1      # the basic families log through the thread's default writer, now of session 1
                kv = parse_kv(segs[k])
                enabled = st['severity'] >= mins[st['session']]
                want = (1, 0 if st['site'] in seen else 1, st['nargs'] * (1 if st['site'] in seen else 2)) if enabled else (0, 0, 0)
                if enabled:
                    seen.add(st['site'])
                got = (int(kv.get('events', -1)), int(kv.get('sources', -1)), int(kv.get('evals', -1)))
                if got != want and bad is None:
                    bad = 'statement %s (severity %d, minimum %d): events/sources/argument evaluations %s, expected %s' % (
                        st['macro'], st['severity'], mins[st['session']], got, want)
            k += 1
        if bad:
            prop_fail.add(i)
            ctx.violation('c19-' + hashlib.sha256(l.encode()).hexdigest()[:10], 'C19: ' + bad, {'kind': 'history', 'input_line': l, 'impl': impl[i]})
        elif impl[i] != b:
            mism.append(i)
            ctx.violation('corr-macro-%d' % i, 'correspondence macro broke: model and implementation disagree on case %d' % i,
                          {'kind': 'correspondence', 'stream': 'macro', 'input_line': l, 'impl': impl[i], 'model': b,
                           'broken': 'correspondence stream macro / Props.C19'}, found_input=False)
        if 'events=0' in impl[i] and 'events=1' in impl[i]:
            nontrivial.add(l)
    ctx.streams['macro'] = {'cases': n, 'mismatches': len(mism)}
    # the same macros executed by several real threads at once, some for the first time, while a consumer holds the session
    # mutex (harness/race_harness.cpp): every statement is enabled, each must produce exactly one event that follows its source
    if race_stream(ctx, 'C19'):
        prop_fail.add('race')
    finish_proof(ctx, ok, bool(prop_fail))
    ctx.coverage.update({'evaluations': n, 'distinct_nontrivial': len(nontrivial), 'traces_validated_against_impl': n - len(mism),
                         'rule': 'histories of setMinSeverity (on the default session and on an explicit session; values incl. no_logs, 0, '
                                 'non-enumerator), of re-seating the thread\'s default writer onto the explicit session, '
                                 'and log statements over 48 call sites = 24 macros x {0, 2 effectful arguments}; after each '
                                 'statement both sessions are consumed and events, sources and argument evaluations are counted; '
                                 'non-trivial = history with both enabled and disabled statements; distinct by history; plus the real-thread '
                                 'stream of C03 (several threads execute enabled statements, some for the first time, while a consumer '
                                 'holds the session mutex): one event per statement, each after its source'})
    ctx.samples = [lines[0][:300]]
    return ctx.finish()


CHECKS['C19'] = check_c19


# ------------------------------------------------------------------------------------------
# C10
# ------------------------------------------------------------------------------------------
C10_THEOREMS = ['BinlogVerif.C10.c10_lockset_race_free', 'BinlogVerif.C10.c10_table_obeys', 'BinlogVerif.C10.c10_table_sound',
                'BinlogVerif.Generated.session_disciplined', 'BinlogVerif.Generated.lockedMethods_match',
                'BinlogVerif.Generated.session_structure', 'BinlogVerif.C01.c01_race_free',
                'BinlogVerif.Generated.queueOrders_sufficient', 'BinlogVerif.Generated.code_race_free',
                'BinlogVerif.Generated.queueAccesses_match', 'BinlogVerif.Generated.queuePlainAccesses_match']


def build_tsan():
    src = os.path.join(VERIF, 'harness', 'tsan_scenarios.cpp')
    hh = file_hash([src] + repo_sources())
    exe = os.path.join(BUILD, 'bin', 'tsan_scenarios-O0-%s' % hh)   # -O0: at -O1 gcc sinks or removes plain loads before TSan instruments them
    if os.path.exists(exe):
        return exe
    os.makedirs(os.path.dirname(exe), exist_ok=True)
    rc, out = sh(['g++', '-std=c++17', '-O0', '-g', '-fsanitize=thread', '-Wno-tsan', '-D' + HOOK_GUARD, '-I' + os.path.join(REPO, 'include'), src,
                  '-o', exe + '.tmp', '-lpthread'])
    if rc != 0:
        raise BuildError('tsan scenarios do not build:\n' + out[-3000:])
    os.replace(exe + '.tmp', exe)
    return exe


def check_c10(ctx):
    from concurrent.futures import ThreadPoolExecutor
    ok = proof_step(ctx, 'BinlogVerif.Generated.Locks', C10_THEOREMS,
                    extra_targets=['BinlogVerif.Generated.Session', 'BinlogVerif.Generated.Orders'])
    exe = build_tsan()
    nruns = cases_count(ctx, 24, 400) if ok else 200
    seeds = [ctx.seed * 1000 + i for i in range(nruns)]

    def one(sd):
        e = dict(os.environ); e['TSAN_OPTIONS'] = 'halt_on_error=0 report_signal_unsafe=0'
        # every third run: one writer and a consumer in lock step over many laps of a small queue (lap mode)
        args = [exe, str(sd), '1', '4000', 'lap'] if sd % 3 == 2 else [exe, str(sd), str(2 + sd % 5), str(800 + 400 * (sd % 4))]
        p = subprocess.run(args, stdout=subprocess.PIPE, stderr=subprocess.PIPE, env=e, timeout=600)
        return sd, p.returncode, p.stdout.decode()[-200:], p.stderr.decode()
    import subprocess
    with ThreadPoolExecutor(max_workers=8) as ex:
        res = list(ex.map(one, seeds))
    prop_fail = set()
    logged = 0
    for sd, rc, out, err in res:
        if 'logged=' in out:
            logged += int(out.split('logged=')[1].split()[0])
        if 'WARNING: ThreadSanitizer' in err or rc != 0:
            prop_fail.add(sd)
            first = err.split('WARNING: ThreadSanitizer')[1][:1800] if 'WARNING: ThreadSanitizer' in err else err[-1500:]
            ctx.violation('tsan-%d' % sd, 'C10: ThreadSanitizer reports a data race in documented-concurrent use of one session (seed %d)' % sd,
                          {'kind': 'schedule', 'seed': sd, 'cmd': ('%s %d 1 4000 lap' % (exe, sd)) if sd % 3 == 2 else '%s %d %d %d' % (exe, sd, 2 + sd % 5, 800 + 400 * (sd % 4)), 'tsan_report': first})
            if len(prop_fail) >= 3:
                break
    ctx.streams['tsan_scenarios'] = {'runs': len(res), 'events_logged': logged, 'reports': len(prop_fail)}
    # operations of other threads let in at every mutex unlock inside consume / reconsumeMetadata / registration (the real
    # Session under AddressSanitizer): an access to a buffer another thread has meanwhile freed or moved is a data race
    if inject_stream(ctx, 'C10'):
        prop_fail.add('inject')
    finish_proof(ctx, ok, bool(prop_fail))
    ctx.coverage.update({'evaluations': len(res), 'distinct_nontrivial': len(res), 'traces_validated_against_impl': len(res) - len(prop_fail),
                         'rule': 'ThreadSanitizer runs of the real, unmodified headers: 2..6 writer threads (log with small queues forcing channel '
                                 'replacement, rename, move, destroy+create), a consumer thread and an administrator thread (setClockSync, '
                                 'setMinSeverity, addEventSource, reconsumeMetadata), randomised by seed; every third run is one writer and a consumer in lock step (relaxed phase counter) over thousands of laps of a 60..200 byte queue with the consumer lagging at random; TSan is the failing-input finder, the '
                                 'claim is the lockset theorem instantiated with the access table extracted from the sources, plus C01 for the queue'})
    ctx.samples = ['%s <seed> <writers> <iterations>' % os.path.basename(exe)]
    ctx.assumptions.append('mutex sections are atomic steps (standard DRF argument); constructors/destructors run while the object is not shared; '
                           'std::shared_ptr reference counting and std::mutex are race free (libstdc++)')
    return ctx.finish()


CHECKS['C10'] = check_c10
