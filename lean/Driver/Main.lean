import BinlogVerif.Reader.Proto
import BinlogVerif.Mser.Proto
import BinlogVerif.Conc.Proto
open BinlogVerif BinlogVerif.Proto

def hexArg (s : String) : Option Bytes := if s == "-" then some [] else Bytes.ofHex s

def handle (line : String) : String :=
  match line.trimAscii.toString.splitOn " " with
  | ["readall", h] => match hexArg h with | some b => cmdReadAll b | none => "bad-op"
  | ["resume", hs] => match parseHexList hs with | some bs => cmdResume bs | none => "bad-op"
  | ["filter", p, hs] =>
    match parsePred p, parseHexList hs with
    | some p, some bs => cmdFilter p bs
    | _, _ => "bad-op"
  | "segmap" :: ops => cmdSegMap ops
  | ["time", f, c, k] =>
    match hexArg f, parseClockSync c, k.toNat? with
    | some f, some c, some k => cmdTime f c k
    | _, _, _ => "bad-op"
  | "timeseq" :: f :: items =>
    match hexArg f, items.mapM (fun it => match it.splitOn "/" with
        | [c, k] => match parseClockSync c, k.toNat? with
          | some c, some k => some (c, k)
          | _, _ => none
        | _ => none) with
    | some f, some xs => cmdTimeSeq f xs
    | _, _ => "bad-op"
  | ["recover", h] => match hexArg h with | some b => cmdRecover b | none => "bad-op"
  | ["textout", f, d, hs] =>
    match hexArg f, hexArg d, parseHexList hs with
    | some f, some d, some cs => cmdTextOut f d cs
    | _, _, _ => "bad-op"
  | ["bread", s, f, d, h] =>
    match hexArg f, hexArg d, hexArg h with
    | some f, some d, some h => cmdBread (s == "1") f d h
    | _, _, _ => "bad-op"
  | "macro" :: toks => BinlogVerif.ConcProto.cmdMacro toks
  | "session" :: toks => BinlogVerif.ConcProto.cmdSession toks
  | "qexplore" :: toks => BinlogVerif.ConcProto.cmdQExplore toks
  | "queue" :: toks => BinlogVerif.ConcProto.cmdQueue toks
  | "mser" :: toks => BinlogVerif.Mser.Proto.cmdMser toks
  | ["tagvisit", t, b] =>
    match hexArg t, hexArg b with
    | some t, some b => BinlogVerif.Mser.Proto.cmdTagVisit t b
    | _, _ => "bad-op"
  | "mserinto" :: toks => BinlogVerif.Mser.Proto.cmdMserInto toks
  | ["print", s, h] => match hexArg h with | some b => cmdPrint (s == "1") b | none => "bad-op"
  | _ => "bad-op"

partial def loop (h : IO.FS.Stream) (out : IO.FS.Stream) : IO Unit := do
  let line ← h.getLine
  if line.isEmpty then return ()
  out.putStrLn (handle line)
  loop h out

def main : IO Unit := do
  let stdin ← IO.getStdin
  let stdout ← IO.getStdout
  loop stdin stdout
