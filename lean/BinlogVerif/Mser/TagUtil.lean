import BinlogVerif.Base.Bytes
/-
  Model of include/mserialize/detail/tag_util.hpp and Singular.hpp on ARBITRARY byte strings
  (a `string_view` is a `Bytes`; `remove_prefix`/`remove_suffix` clamp, `find` may fail).
-/
namespace BinlogVerif.Tag
open BinlogVerif

def cLBrack : UInt8 := 91   -- [
def cLParen : UInt8 := 40   -- (
def cRParen : UInt8 := 41   -- )
def cLt : UInt8 := 60       -- <
def cGt : UInt8 := 62       -- >
def cLBrace : UInt8 := 123  -- {
def cRBrace : UInt8 := 125  -- }
def cSlash : UInt8 := 47    -- /
def cBackslash : UInt8 := 92
def cBacktick : UInt8 := 96 -- `
def cQuote : UInt8 := 39    -- '
def cZero : UInt8 := 48     -- 0

/-- `remove_prefix(n)` (clamping) -/
def removePrefix (s : Bytes) (n : Nat) : Bytes := s.drop n
/-- `remove_suffix(n)` (clamping) -/
def removeSuffix (s : Bytes) (n : Nat) : Bytes := s.take (s.length - n)

/-- scan of `size_between_balanced` from index `i` over the remaining bytes `rest`:
    returns the resulting `i` -/
def balancedGo (openC closeC : UInt8) : Bytes → Nat → Nat → Nat
  | [], _, i => i
  | c :: rest, cnt, i =>
    if c = openC then balancedGo openC closeC rest (cnt + 1) (i + 1)
    else if c = closeC then
      if cnt - 1 = 0 then i + 1 else balancedGo openC closeC rest (cnt - 1) (i + 1)
    else balancedGo openC closeC rest cnt (i + 1)

/-- `size_between_balanced(s, open, close)`: `s[0]` is assumed to be `open`; result ≤ max 1 |s| -/
def sizeBetweenBalanced (s : Bytes) (openC closeC : UInt8) : Nat :=
  balancedGo openC closeC (s.drop 1) 1 1

/-- `find_pos(s, c)`: index of the first `c`, or `|s|` -/
def findPos : Bytes → UInt8 → Nat
  | [], _ => 0
  | x :: xs, c => if x = c then 0 else 1 + findPos xs c

/-- `remove_prefix_before(s, c)`: returns (prefix before c, s from c on) -/
def removePrefixBefore (s : Bytes) (c : UInt8) : Bytes × Bytes :=
  let p := findPos s c
  (s.take p, s.drop p)

def countLeading (c : UInt8) : Bytes → Nat
  | [] => 0
  | x :: xs => if x = c then 1 + countLeading c xs else 0

/-- `tag_first_size(tags)` -/
def tagFirstSize (tags : Bytes) : Nat :=
  let n := countLeading cLBrack tags
  let rest := tags.drop n
  match rest with
  | [] => n
  | c :: _ =>
    if c = cLParen then n + sizeBetweenBalanced rest cLParen cRParen
    else if c = cLt then n + sizeBetweenBalanced rest cLt cGt
    else if c = cLBrace then n + sizeBetweenBalanced rest cLBrace cRBrace
    else if c = cSlash then n + sizeBetweenBalanced rest cSlash cBackslash
    else n + 1

/-- `tag_pop(tags)`: (first tag, remaining tags) -/
def tagPop (tags : Bytes) : Bytes × Bytes :=
  let n := tagFirstSize tags
  (tags.take n, tags.drop n)

/-- `tag_pop_label(tags)`: drops the backtick, returns (label, rest after the closing quote) -/
def tagPopLabel (tags : Bytes) : Bytes × Bytes :=
  let t := tags.drop 1
  let n := findPos t cQuote
  (t.take n, t.drop (n + 1))

/-- `string_view::find(needle)` from position 0: `none` = npos -/
def findSub (hay needle : Bytes) : Option Nat :=
  if needle.isEmpty then some 0 else
  let rec go : Bytes → Nat → Option Nat
    | [], _ => none
    | h@(_ :: t), i => if needle.isPrefixOf h then some i else go t (i + 1)
  go hay 0

/-- `resolve_recursive_tag(full_tag, intro)`; the loop runs at most `|full_tag| + 1` times -/
def resolveRecursiveTag (fullTag intro : Bytes) : Bytes :=
  if intro.isEmpty then [] else
  let rec go : Nat → Bytes → Bytes
    | 0, _ => []
    | fuel + 1, ft =>
      if ft.isEmpty then [] else
      let ft := match findSub ft intro with
        | some p => ft.drop p
        | none => []                      -- remove_prefix(npos) clamps
      let ft := ft.drop intro.length
      match ft with
      | [] => []
      | c :: _ =>
        if c = cRBrace then []
        else if c = cBacktick then
          let size := sizeBetweenBalanced ft cLBrace cRBrace
          ft.take (size - 1)
        else go fuel ft
  go (fullTag.length + 1) fullTag

/-! ### singular -/

/-- `singular_impl`; `maxRec` is the C++ `max_recursion` (throws at 0).  The tuple and struct
    loops consume at least one byte per iteration, so `tag.length + 1` iterations suffice. -/
def singularImpl (fullTag : Bytes) : Nat → Bytes → Outcome Bool
  | 0, _ => .error .recursion
  | maxRec + 1, tag =>
    match tag with
    | [] => .ok true
    | c :: _ =>
      if c = cLParen then
        -- singular_tuple (full_tag, tag, max_recursion - 1)
        let inner := removeSuffix (tag.drop 1) 1
        let rec tupLoop : Nat → Bytes → Outcome Bool
          | 0, _ => .ok true
          | f + 1, t =>
            let (e, rest) := tagPop t
            if e.isEmpty then .ok true else
            match singularImpl fullTag maxRec e with
            | .ok true => tupLoop f rest
            | r => r
        tupLoop (inner.length + 1) inner
      else if c = cLBrace then
        let t := removeSuffix tag 1
        let (intro, t) := removePrefixBefore t cBacktick
        if t.isEmpty then
          let r := resolveRecursiveTag fullTag intro
          let (_, r') := tagPopLabel r
          .ok r'.isEmpty
        else
          let rec fieldLoop : Nat → Bytes → Outcome Bool
            | 0, _ => .ok true
            | f + 1, t =>
              if t.isEmpty then .ok true else
              let (_, t1) := tagPopLabel t
              let (ft, t2) := tagPop t1
              match singularImpl fullTag maxRec ft with
              | .ok true => fieldLoop f t2
              | r => r
          fieldLoop (t.length + 1) t
      else .ok false

/-- `mserialize::singular(full_tag, tag, max_recursion)` -/
def singular (fullTag tag : Bytes) (maxRec : Nat) : Outcome Bool := singularImpl fullTag maxRec tag

end BinlogVerif.Tag
