import BinlogVerif.Mser.Ty
/-
  Deserialisation INTO a destination (include/mserialize/detail/Deserializer.hpp).

  `decode` (Mser/Ty.lean) is deserialisation by tag into the freely growing value domain.  A C++
  destination can in addition be of FIXED size at some of its sequence nodes (`std::array<T,N>`,
  `T[N]`, any range without `resize`): `BuiltinDeserializer<Sequence>::resize(std::false_type, …)`
  compares the encoded element count with the size of the destination and throws
  `std::runtime_error("Serialized sequence size = X != Y = target size")` BEFORE any element is read.
  `Dst` is `Ty` with that annotation; `Dst.ty` forgets it (the tag of `std::array<T,N>` is `[t`).
-/
namespace BinlogVerif.Mser
open BinlogVerif BinlogVerif.Visit

inductive Dst where
  | arith (c : UInt8)
  | seq (fixed : Option Nat) (elem : Dst)               -- `some n`: a destination of exactly n elements
  | tup (elems : List Dst)
  | var (alts : List Dst)
  | null
  | enum (under : UInt8) (name : Bytes) (enumerators : List (Bytes × Bytes))
  | struct (name : Bytes) (fields : List (Bytes × Dst))
deriving Repr, Inhabited

mutual
def Dst.ty : Dst → Ty
  | .arith c => .arith c
  | .seq _ e => .seq e.ty
  | .tup es => .tup (Dst.tys es)
  | .var alts => .var (Dst.tys alts)
  | .null => .null
  | .enum u n es => .enum u n es
  | .struct n fs => .struct n (Dst.tyFields fs)
def Dst.tys : List Dst → List Ty
  | [] => []
  | d :: ds => d.ty :: Dst.tys ds
def Dst.tyFields : List (Bytes × Dst) → List (Bytes × Ty)
  | [] => []
  | (n, d) :: fs => (n, d.ty) :: Dst.tyFields fs
end

/- a value fits a destination: at every fixed-size node the number of elements is the size of
   the destination (checked only where the value actually goes: the selected alternative) -/
mutual
def fits : Dst → Val → Bool
  | .seq fixed e, .seq vs => (match fixed with | some n => decide (vs.length = n) | none => true) && fitsAll e vs
  | .tup es, .tup vs => fitsList es vs
  | .var alts, .alt i v => fitsNth alts i v
  | .struct _ fs, .tup vs => fitsFields fs vs
  | _, _ => true
def fitsAll : Dst → List Val → Bool
  | _, [] => true
  | e, v :: vs => fits e v && fitsAll e vs
def fitsList : List Dst → List Val → Bool
  | d :: ds, v :: vs => fits d v && fitsList ds vs
  | _, _ => true
def fitsFields : List (Bytes × Dst) → List Val → Bool
  | (_, d) :: fs, v :: vs => fits d v && fitsFields fs vs
  | _, _ => true
def fitsNth : List Dst → Nat → Val → Bool
  | [], _, _ => true
  | d :: _, 0, v => fits d v
  | _ :: ds, i + 1, v => fitsNth ds i v
end

mutual
def decodeInto : Dst → Bytes → Outcome (Val × Bytes)
  | .arith c, r => match arithSize c with
    | none => .error .invalidTag
    | some sz => match readU sz r with
      | .ok (raw, rest) => .ok (.num raw, rest)
      | .error e => .error e
  | .seq fixed e, r => match readU 4 r with
    | .error err => .error err
    | .ok (n, rest) =>
      if (match fixed with | some m => decide (n = m) | none => true) then
        match decodeIntoN e n rest with
        | .ok (vs, rest') => .ok (.seq vs, rest')
        | .error err => .error err
      else .error .sizeMismatch
  | .tup es, r => match decodeIntoList es r with
    | .ok (vs, rest) => .ok (.tup vs, rest)
    | .error e => .error e
  | .var alts, r => match readU 1 r with
    | .error e => .error e
    | .ok (i, rest) => match decodeIntoNth alts i rest with
      | .ok (v, rest') => .ok (.alt i v, rest')
      | .error e => .error e
  | .null, r => .ok (.nul, r)
  | .enum u _ _, r => match arithSize u with
    | none => .error .invalidTag
    | some sz => match readU sz r with
      | .ok (raw, rest) => .ok (.num raw, rest)
      | .error e => .error e
  | .struct _ fs, r => match decodeIntoFields fs r with
    | .ok (vs, rest) => .ok (.tup vs, rest)
    | .error e => .error e
def decodeIntoN : Dst → Nat → Bytes → Outcome (List Val × Bytes)
  | _, 0, r => .ok ([], r)
  | e, n + 1, r => match decodeInto e r with
    | .error err => .error err
    | .ok (v, rest) => match decodeIntoN e n rest with
      | .ok (vs, rest') => .ok (v :: vs, rest')
      | .error err => .error err
def decodeIntoList : List Dst → Bytes → Outcome (List Val × Bytes)
  | [], r => .ok ([], r)
  | t :: ts, r => match decodeInto t r with
    | .error e => .error e
    | .ok (v, rest) => match decodeIntoList ts rest with
      | .ok (vs, rest') => .ok (v :: vs, rest')
      | .error e => .error e
def decodeIntoFields : List (Bytes × Dst) → Bytes → Outcome (List Val × Bytes)
  | [], r => .ok ([], r)
  | (_, t) :: fs, r => match decodeInto t r with
    | .error e => .error e
    | .ok (v, rest) => match decodeIntoFields fs rest with
      | .ok (vs, rest') => .ok (v :: vs, rest')
      | .error e => .error e
def decodeIntoNth : List Dst → Nat → Bytes → Outcome (Val × Bytes)
  | [], _, _ => .error .invalidTag
  | t :: _, 0, r => decodeInto t r
  | _ :: ts, i + 1, r => decodeIntoNth ts i r
end

end BinlogVerif.Mser
