import BinlogVerif.Mser.Ty
import BinlogVerif.Reader.Pretty
/-
  Specification side of visitation and rendering, written directly over `Ty`/`Val` from the
  documentation (doc/Mserialize.md "Visiting serialized values", doc/UserGuide.md renderings),
  independent of the tag-string parsing and of the visitor state machine.
-/
namespace BinlogVerif.Mser
open BinlogVerif BinlogVerif.Tag BinlogVerif.Visit

/- `singularTy`: a type whose objects have a single value and are serialised as 0 bytes: tuples
   and structs of such types (what `mserialize::singular` recognises) -/
mutual
def singularTy : Ty → Bool
  | .tup es => singularTys es
  | .struct _ fs => singularFields fs
  | _ => false
def singularTys : List Ty → Bool
  | [] => true
  | t :: ts => singularTy t && singularTys ts
def singularFields : List (Bytes × Ty) → Bool
  | [] => true
  | (_, t) :: fs => singularTy t && singularFields fs
end

/-- enumerator name for a hex value: the first enumerator with that value, `[]` if none -/
def lookupEnumerator (hexv : Bytes) : List (Bytes × Bytes) → Bytes
  | [] => []
  | (h, n) :: rest => if h = hexv then n else lookupEnumerator hexv rest

/- `events t v`: the callbacks a visitor must receive for value `v` of type `t` -/
mutual
def events : Ty → Val → List Ev
  | .arith c, .num raw => [.arith c raw]
  | .seq e, .seq vs =>
    let body :=
      if vs.length > repeatThreshold && singularTy e then
        match vs with
        | v :: _ => [Ev.repeatBegin vs.length (tag e)] ++ events e v ++ [Ev.repeatEnd vs.length (tag e)]
        | [] => []
      else eventsAll e vs
    [Ev.seqBegin vs.length (tag e)] ++ body ++ [Ev.seqEnd]
  | .tup es, .tup vs => [Ev.tupBegin (tagList es)] ++ eventsList es vs ++ [Ev.tupEnd]
  | .var alts, .alt i v => eventsNth alts i i v
  | .null, .nul => [Ev.null]
  | .enum u name ens, .num raw =>
    let hexv := integerToHex u raw
    [Ev.enum name (lookupEnumerator hexv ens) u hexv]
  | .struct name fs, .tup vs => [Ev.structBegin name (tagFields fs)] ++ eventsFields fs vs ++ [Ev.structEnd]
  | _, _ => []
def eventsAll : Ty → List Val → List Ev
  | _, [] => []
  | e, v :: vs => events e v ++ eventsAll e vs
def eventsList : List Ty → List Val → List Ev
  | t :: ts, v :: vs => events t v ++ eventsList ts vs
  | _, _ => []
def eventsFields : List (Bytes × Ty) → List Val → List Ev
  | (n, t) :: fs, v :: vs => [Ev.fieldBegin n (tag t)] ++ events t v ++ [Ev.fieldEnd] ++ eventsFields fs vs
  | _, _ => []
/-- `disc` is the discriminator byte, `i` counts down to the selected alternative -/
def eventsNth : List Ty → Nat → Nat → Val → List Ev
  | [], _, _, _ => []
  | t :: _, disc, 0, v => [Ev.varBegin disc (tag t)] ++ events t v ++ [Ev.varEnd]
  | _ :: ts, disc, i + 1, v => eventsNth ts disc i v
end

/-! ### documented rendering -/

def joinComma : List Bytes → Bytes
  | [] => []
  | [x] => x
  | x :: xs => x ++ [44, 32] ++ joinComma xs

def isCharTy : Ty → Bool
  | .arith c => c = 99
  | _ => false

mutual
def render : Ty → Val → Bytes
  | .arith c, .num raw => Pretty.arithText c raw
  | .seq e, .seq vs =>
    if isCharTy e then vs.map (fun v => match v with | .num raw => UInt8.ofNat raw | _ => 0)
    else if vs.length > repeatThreshold && singularTy e then
      match vs with
      | v :: _ => [91] ++ render e v ++ Pretty.strBytes " ... <repeats " ++ Pretty.natDec vs.length
                    ++ Pretty.strBytes " times>" ++ [93]
      | [] => [91, 93]
    else [91] ++ joinComma (renderAll e vs) ++ [93]
  | .tup es, .tup vs => [40] ++ joinComma (renderList es vs) ++ [41]
  | .var alts, .alt i v => renderNth alts i v
  | .null, .nul => Pretty.strBytes "{null}"
  | .enum u _ ens, .num raw =>
    let hexv := integerToHex u raw
    let n := lookupEnumerator hexv ens
    if n.isEmpty then Pretty.strBytes "0x" ++ hexv else n
  | .struct name fs, .tup vs =>
    let nm := (removePrefixBefore name cLt).1
    if fs.isEmpty then nm
    else nm ++ [123, 32] ++ joinComma (renderFields fs vs) ++ [32, 125]
  | _, _ => []
def renderAll : Ty → List Val → List Bytes
  | _, [] => []
  | e, v :: vs => render e v :: renderAll e vs
def renderList : List Ty → List Val → List Bytes
  | t :: ts, v :: vs => render t v :: renderList ts vs
  | _, _ => []
def renderFields : List (Bytes × Ty) → List Val → List Bytes
  | (n, t) :: fs, v :: vs => ((if n.isEmpty then [] else n ++ [58, 32]) ++ render t v) :: renderFields fs vs
  | _, _ => []
def renderNth : List Ty → Nat → Val → Bytes
  | [], _, _ => []
  | t :: _, 0, v => render t v
  | _ :: ts, i + 1, v => renderNth ts i v
end

/-! ### documented rendering with the pretty printer: the types binlog adapts itself are printed specially
    (UserGuide: addresses as `0x` + hex, durations as count + unit, paths / directory entries / error codes as their
    string; time points through the date format — not covered here, they need the clock sync).  Everything else as `render`. -/

def charsOf (vs : List Val) : Bytes := vs.map (fun v => match v with | .num raw => UInt8.ofNat raw | _ => 0)

def durationSuffix (name : Bytes) : Option Bytes :=
  if Pretty.startsWith name (Pretty.strBytes "std::chrono::duration<Rep,") then
    if Pretty.endsWith name (Pretty.strBytes "std::nano>") then some (Pretty.strBytes "ns")
    else if Pretty.endsWith name (Pretty.strBytes "std::micro>") then some (Pretty.strBytes "us")
    else if Pretty.endsWith name (Pretty.strBytes "std::milli>") then some (Pretty.strBytes "ms")
    else if Pretty.endsWith name (Pretty.strBytes "std::ratio<1>>") then some (Pretty.strBytes "s")
    else if Pretty.endsWith name (Pretty.strBytes "std::ratio<60>>") then some (Pretty.strBytes "m")
    else if Pretty.endsWith name (Pretty.strBytes "std::ratio<3600>>") then some (Pretty.strBytes "h")
    else none
  else none

/-- the special renderings, stated on the source-level value -/
def specialStruct (name : Bytes) (fs : List (Bytes × Ty)) (vs : List Val) : Option Bytes :=
  match fs, vs with
  | [(f, .arith c)], [.num raw] =>
    if name = Pretty.strBytes "binlog::address" ∧ f = Pretty.strBytes "value" ∧ c = 76 then
      some (Pretty.strBytes "0x" ++ hexDigitsUpper raw)
    else match durationSuffix name with
      | some suf =>
        if f = Pretty.strBytes "count" ∧ c = 108 then some (Pretty.intDec (Pretty.toSigned 64 raw) ++ suf)
        else if f = Pretty.strBytes "count" ∧ c = 105 then some (Pretty.intDec (Pretty.toSigned 32 raw) ++ suf)
        else none
      | none => none
  | [(f, .seq (.arith 99))], [.seq cs] =>
    if (name = Pretty.strBytes "std::filesystem::path" ∧ f = Pretty.strBytes "str")
        ∨ (name = Pretty.strBytes "std::error_code" ∧ f = Pretty.strBytes "message") then some (charsOf cs)
    else none
  | [(f, .struct pn [(g, .seq (.arith 99))])], [.tup [.seq cs]] =>
    if name = Pretty.strBytes "std::filesystem::directory_entry" ∧ f = Pretty.strBytes "path"
        ∧ pn = Pretty.strBytes "std::filesystem::path" ∧ g = Pretty.strBytes "str" then some (charsOf cs)
    else none
  | _, _ => none

mutual
def renderPP : Ty → Val → Bytes
  | .arith c, .num raw => Pretty.arithText c raw
  | .seq e, .seq vs =>
    if isCharTy e then charsOf vs
    else if vs.length > repeatThreshold && singularTy e then
      match vs with
      | v :: _ => [91] ++ renderPP e v ++ Pretty.strBytes " ... <repeats " ++ Pretty.natDec vs.length
                    ++ Pretty.strBytes " times>" ++ [93]
      | [] => [91, 93]
    else [91] ++ joinComma (renderPPAll e vs) ++ [93]
  | .tup es, .tup vs => [40] ++ joinComma (renderPPList es vs) ++ [41]
  | .var alts, .alt i v => renderPPNth alts i v
  | .null, .nul => Pretty.strBytes "{null}"
  | .enum u _ ens, .num raw =>
    let hexv := integerToHex u raw
    let n := lookupEnumerator hexv ens
    if n.isEmpty then Pretty.strBytes "0x" ++ hexv else n
  | .struct name fs, .tup vs =>
    match specialStruct name fs vs with
    | some b => b
    | none =>
      let nm := (removePrefixBefore name cLt).1
      if fs.isEmpty then nm
      else nm ++ [123, 32] ++ joinComma (renderPPFields fs vs) ++ [32, 125]
  | _, _ => []
def renderPPAll : Ty → List Val → List Bytes
  | _, [] => []
  | e, v :: vs => renderPP e v :: renderPPAll e vs
def renderPPList : List Ty → List Val → List Bytes
  | t :: ts, v :: vs => renderPP t v :: renderPPList ts vs
  | _, _ => []
def renderPPFields : List (Bytes × Ty) → List Val → List Bytes
  | (n, t) :: fs, v :: vs => ((if n.isEmpty then [] else n ++ [58, 32]) ++ renderPP t v) :: renderPPFields fs vs
  | _, _ => []
def renderPPNth : List Ty → Nat → Val → Bytes
  | [], _, _ => []
  | t :: _, 0, v => renderPP t v
  | _ :: ts, i + 1, v => renderPPNth ts i v
end

end BinlogVerif.Mser
