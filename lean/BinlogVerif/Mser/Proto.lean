import BinlogVerif.Mser.Spec
import BinlogVerif.Mser.Dest
/-
  Line-protocol glue for the mserialize family (C04–C07): parse a type and a value from tokens,
  print tag, size, bytes, visitor callbacks (through the tag-string `visit` model with the
  recording visitor), the text of the `ToStringVisitor` model and the documented rendering.
  Nothing here is used by a theorem.
-/
namespace BinlogVerif.Mser.Proto
open BinlogVerif BinlogVerif.Mser BinlogVerif.Visit

def hexB (s : String) : Option Bytes := if s == "" then some [] else Bytes.ofHex s

partial def parseTy : List String → Option (Ty × List String)
  | [] => none
  | tok :: rest =>
    let c := tok.front
    let body := (tok.drop 1).toString
    if c == 'A' then
      match body.toList with
      | [ch] => some (.arith (UInt8.ofNat ch.toNat), rest)
      | _ => none
    else if c == 'Q' then do
      let (e, rest) ← parseTy rest
      pure (.seq e, rest)
    else if c == 'T' || c == 'V' then do
      let n ← body.toNat?
      let rec many : Nat → List String → List Ty → Option (List Ty × List String)
        | 0, r, acc => some (acc.reverse, r)
        | k + 1, r, acc => do
          let (t, r) ← parseTy r
          many k r (t :: acc)
      let (ts, rest) ← many n rest []
      pure (if c == 'T' then .tup ts else .var ts, rest)
    else if c == 'N' then some (.null, rest)
    else if c == 'E' then
      match body.splitOn ":" with
      | [u, name, k] => do
        let uch ← u.toList.head?
        let name ← hexB name
        let k ← k.toNat?
        let rec ens : Nat → List String → List (Bytes × Bytes) → Option (List (Bytes × Bytes) × List String)
          | 0, r, acc => some (acc.reverse, r)
          | j + 1, r, acc =>
            match r with
            | [] => none
            | t :: r' =>
              match t.splitOn ":" with
              | [h, n] => do
                let h ← hexB h
                let n ← hexB n
                ens j r' ((h, n) :: acc)
              | _ => none
        let (es, rest) ← ens k rest []
        pure (.enum (UInt8.ofNat uch.toNat) name es, rest)
      | _ => none
    else if c == 'S' then
      match body.splitOn ":" with
      | [name, k] => do
        let name ← hexB name
        let k ← k.toNat?
        let rec fields : Nat → List String → List (Bytes × Ty) → Option (List (Bytes × Ty) × List String)
          | 0, r, acc => some (acc.reverse, r)
          | j + 1, r, acc =>
            match r with
            | [] => none
            | t :: r' =>
              if t.front == 'F' then do
                let fname ← hexB (t.drop 1).toString
                let (ty, r'') ← parseTy r'
                fields j r'' ((fname, ty) :: acc)
              else none
        let (fs, rest) ← fields k rest []
        pure (.struct name fs, rest)
      | _ => none
    else none

partial def parseVal : List String → Option (Val × List String)
  | [] => none
  | tok :: rest =>
    let c := tok.front
    let body := (tok.drop 1).toString
    if c == 'n' then do
      let n ← body.toNat?
      pure (.num n, rest)
    else if c == 'q' || c == 't' then do
      let n ← body.toNat?
      let rec many : Nat → List String → List Val → Option (List Val × List String)
        | 0, r, acc => some (acc.reverse, r)
        | k + 1, r, acc => do
          let (v, r) ← parseVal r
          many k r (v :: acc)
      let (vs, rest) ← many n rest []
      pure (if c == 'q' then .seq vs else .tup vs, rest)
    else if c == 'a' then do
      let i ← body.toNat?
      let (v, rest) ← parseVal rest
      pure (.alt i v, rest)
    else if c == 'z' then some (.nul, rest)
    else none

def chr (c : UInt8) : String := String.singleton (Char.ofNat c.toNat)

def showEv : Ev → String
  | .arith c raw =>
    let n := match arithSize c with | some 16 => 10 | some k => k | none => 0
    s!"a{chr c}:{(le n raw).toHex}"
  | .seqBegin n t => s!"sb{n}:{t.toHex}"
  | .seqEnd => "se"
  | .tupBegin t => s!"tb:{t.toHex}"
  | .tupEnd => "te"
  | .varBegin d t => s!"vb{d}:{t.toHex}"
  | .varEnd => "ve"
  | .null => "nl"
  | .structBegin n t => s!"stb:{n.toHex}:{t.toHex}"
  | .structEnd => "ste"
  | .fieldBegin n t => s!"fb:{n.toHex}:{t.toHex}"
  | .fieldEnd => "fe"
  | .enum n e u v => s!"en:{n.toHex}:{e.toHex}:{chr u}:{v.toHex}"
  | .repeatBegin n t => s!"rb{n}:{t.toHex}"
  | .repeatEnd n t => s!"re{n}:{t.toHex}"

def showEvs (es : List Ev) : String := ",".intercalate (es.map showEv)

/-- `mser <type tokens> | <value tokens>` -/
def cmdMser (toks : List String) : String :=
  let tyToks := toks.takeWhile (· != "|")
  let valToks := (toks.dropWhile (· != "|")).drop 1
  match parseTy tyToks, parseVal valToks with
  | some (t, []), some (v, []) =>
    if !hasTy t v then "ill-typed" else
    let tg := tag t
    let bytes := encode t v
    let visited := match visit recorder tg [] bytes with
      | .ok (evs, rest) => s!"events={showEvs evs} visitrest={rest.length}"
      | .error e => s!"events=ERR:{e.code} visitrest=0"
    let text := match visit (Pretty.toStringVisitor none) tg {} bytes with
      | .ok (ts, _) => ts.out.toHex
      | .error e => s!"ERR:{e.code}"
    let rt := match decode t bytes with
      | .ok (v', rest) => s!"{(encode t v').toHex}/{rest.length}"
      | .error e => s!"ERR:{e.code}"
    s!"tag={tg.toHex} size={size t v} bytes={bytes.toHex} {visited} text={text} specevents={showEvs (events t v)} render={(render t v).toHex} renderpp={(renderPP t v).toHex} rt={rt}"
  | _, _ => "bad-op"

/-- destination tokens: the type tokens, with `R<n>` for a sequence node of fixed size n -/
partial def parseDst : List String → Option (Dst × List String)
  | [] => none
  | tok :: rest =>
    let c := tok.front
    let body := (tok.drop 1).toString
    if c == 'A' then
      match body.toList with
      | [ch] => some (.arith (UInt8.ofNat ch.toNat), rest)
      | _ => none
    else if c == 'Q' then do
      let (e, rest) ← parseDst rest
      pure (.seq none e, rest)
    else if c == 'R' then do
      let n ← body.toNat?
      let (e, rest) ← parseDst rest
      pure (.seq (some n) e, rest)
    else if c == 'T' || c == 'V' then do
      let n ← body.toNat?
      let rec many : Nat → List String → List Dst → Option (List Dst × List String)
        | 0, r, acc => some (acc.reverse, r)
        | k + 1, r, acc => do
          let (t, r) ← parseDst r
          many k r (t :: acc)
      let (ts, rest) ← many n rest []
      pure (if c == 'T' then .tup ts else .var ts, rest)
    else if c == 'N' then some (.null, rest)
    else if c == 'E' then
      match parseTy (tok :: rest) with
      | some (.enum u n es, rest') => some (.enum u n es, rest')
      | _ => none
    else if c == 'S' then
      match body.splitOn ":" with
      | [name, k] => do
        let name ← hexB name
        let k ← k.toNat?
        let rec fields : Nat → List String → List (Bytes × Dst) → Option (List (Bytes × Dst) × List String)
          | 0, r, acc => some (acc.reverse, r)
          | j + 1, r, acc =>
            match r with
            | [] => none
            | t :: r' =>
              if t.front == 'F' then do
                let fname ← hexB (t.drop 1).toString
                let (ty, r'') ← parseDst r'
                fields j r'' ((fname, ty) :: acc)
              else none
        let (fs, rest) ← fields k rest []
        pure (.struct name fs, rest)
      | _ => none
    else none

/-- `mserinto <destination tokens> | <value tokens> | <trailing bytes hex>`: deserialise the encoding of the value, followed
    by the trailing bytes, into the destination -/
def cmdMserInto (toks : List String) : String :=
  let dToks := toks.takeWhile (· != "|")
  let r1 := (toks.dropWhile (· != "|")).drop 1
  let vToks := r1.takeWhile (· != "|")
  let tr := (r1.dropWhile (· != "|")).drop 1
  match parseDst dToks, parseVal vToks, tr with
  | some (d, []), some (v, []), [t] =>
    match hexB (if t == "-" then "" else t) with
    | none => "bad-op"
    | some trailing =>
      if !hasTy d.ty v then "ill-typed" else
      let res := match decodeInto d (encode d.ty v ++ trailing) with
        | .ok (v', rest) => s!"{(encode d.ty v').toHex}/{rest.length}"
        | .error e => s!"ERR:{e.code}"
      s!"tag={(tag d.ty).toHex} fits={if fits d v then 1 else 0} fx={res}"
  | _, _, _ => "bad-op"

/-- `tagvisit <full tag hex> <bytes hex>`: the recording visitor and `singular` on an arbitrary tag -/
def cmdTagVisit (tag bytes : Bytes) : String :=
  let (evs, rest, err) := match visit recorder tag [] bytes with
    | .ok (evs, rest) => (showEvs evs, rest.length, "-")
    | .error e => ("?", 0, e.code)
  let sing := match Tag.singular tag tag 2048 with
    | .ok b => if b then "1" else "0"
    | .error e => e.code
  s!"events={evs} rest={rest} err={err} singular={sing}"

end BinlogVerif.Mser.Proto
