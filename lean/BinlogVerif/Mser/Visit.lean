import BinlogVerif.Mser.TagUtil
/-
  Model of include/mserialize/detail/Visit.hpp: `visit_impl` over ARBITRARY tag strings and
  ARBITRARY input bytes, for an arbitrary visitor (a handler that sees every callback together
  with the remaining input and may consume input and ask to skip, as `ToStringVisitor` does).
-/
namespace BinlogVerif.Visit
open BinlogVerif BinlogVerif.Tag

/-- size in bytes of an arithmetic tag character (x86-64 Linux), `none` = invalid tag -/
def arithSize (c : UInt8) : Option Nat :=
  if c = 121 then some 1        -- y bool
  else if c = 99 then some 1    -- c char
  else if c = 98 then some 1    -- b int8
  else if c = 115 then some 2   -- s int16
  else if c = 105 then some 4   -- i int32
  else if c = 108 then some 8   -- l int64
  else if c = 66 then some 1    -- B uint8
  else if c = 83 then some 2    -- S uint16
  else if c = 73 then some 4    -- I uint32
  else if c = 76 then some 8    -- L uint64
  else if c = 102 then some 4   -- f float
  else if c = 100 then some 8   -- d double
  else if c = 68 then some 16   -- D long double
  else none

/-- is the arithmetic tag a signed integer (`b s i l`, and `c`: char is signed on x86-64) -/
def arithSigned (c : UInt8) : Bool := c = 98 || c = 115 || c = 105 || c = 108 || c = 99

def arithIsIntegral (c : UInt8) : Bool :=
  c = 121 || c = 99 || c = 98 || c = 115 || c = 105 || c = 108 || c = 66 || c = 83 || c = 73 || c = 76

/-- the callbacks of `mserialize::Visitor` -/
inductive Ev where
  | arith (tag : UInt8) (raw : Nat)            -- visit(T): the leaf's type (by tag char) and bit pattern
  | seqBegin (size : Nat) (elemTag : Bytes)
  | seqEnd
  | tupBegin (tag : Bytes)
  | tupEnd
  | varBegin (disc : Nat) (optTag : Bytes)
  | varEnd
  | null
  | structBegin (name tag : Bytes)
  | structEnd
  | fieldBegin (name tag : Bytes)
  | fieldEnd
  | enum (name enumerator : Bytes) (under : UInt8) (value : Bytes)
  | repeatBegin (size : Nat) (tag : Bytes)
  | repeatEnd (size : Nat) (tag : Bytes)
deriving Repr, DecidableEq, Inhabited

/-- A visitor: state `σ`, and a handler receiving the callback and the remaining input; returns the
    new state, whether to skip (meaningful for the four `…Begin` callbacks that take the stream),
    and the remaining input (a visitor may consume input itself). -/
structure Visitor (σ : Type) where
  handle : σ → Ev → Bytes → Outcome (σ × Bool × Bytes)

/-- the recording visitor: never skips, never touches the input -/
def recorder : Visitor (List Ev) := ⟨fun acc ev input => .ok (acc ++ [ev], false, input)⟩

/-- hex digits (uppercase, no leading zeros, `-` for negatives) of an integer: `write_integer_as_hex` -/
def hexDigitsUpper (n : Nat) : Bytes :=
  let rec go : Nat → Nat → Bytes → Bytes
    | 0, _, acc => acc
    | fuel + 1, n, acc =>
      if n = 0 then acc else
      let d := n % 16
      let ch : UInt8 := if d < 10 then UInt8.ofNat (48 + d) else UInt8.ofNat (55 + d)
      go fuel (n / 16) (ch :: acc)
  if n = 0 then [48] else go 17 n []

/-- `IntegerToHex::visit` + `value()` for a raw value of arithmetic tag `c` -/
def integerToHex (c : UInt8) (raw : Nat) : Bytes :=
  if !arithIsIntegral c then [] else
  if c = 121 then [UInt8.ofNat (48 + raw % 256)]   -- bool: `v ? '1' : '0'`; a byte other than 0/1 is an invalid bool (UB): gcc -O1 emits '0' + v
  else
    match arithSize c with
    | none => []
    | some sz =>
      let bits := 8 * sz
      if arithSigned c && raw ≥ 2 ^ (bits - 1) then 45 :: hexDigitsUpper (2 ^ bits - raw)
      else hexDigitsUpper raw

/-- repeat an `Outcome` state transformer `n` times (the `while (size--)` loop) -/
def loopN {α} (f : α → Outcome α) : Nat → α → Outcome α
  | 0, a => .ok a
  | n + 1, a => match f a with
    | .ok a' => loopN f n a'
    | .error e => .error e

/-- the C++ `repeat threshold` of `visit_sequence` (`size > 32 && singular(...)`) -/
def repeatThreshold : Nat := 32

/-- `visit_arithmetic(tag, visitor, istream)` -/
def visitArith {σ} (v : Visitor σ) (c : UInt8) (st : σ) (input : Bytes) : Outcome (σ × Bytes) :=
  match arithSize c with
  | none => .error .invalidTag
  | some sz =>
    match readU sz input with
    | .error e => .error e
    | .ok (raw, rest) =>
      match v.handle st (.arith c raw) rest with
      | .ok (st', _, rest') => .ok (st', rest')
      | .error e => .error e

/-- `visit_impl(full_tag, tag, visitor, istream, max_recursion)`.
    `maxRec` is the C++ counter: the function throws when it is 0; nested calls get `maxRec - 1`. -/
def visitImpl {σ} (v : Visitor σ) (fullTag : Bytes) : Nat → Bytes → σ → Bytes → Outcome (σ × Bytes)
  | 0, _, _, _ => .error .recursion
  | maxRec + 1, tag, st, input =>
    match tag with
    | [] => .ok (st, input)
    | c :: _ =>
      if c = cLBrack then
        -- visit_sequence(full_tag, tag, visitor, istream, max_recursion - 1)
        let t := tag.drop 1
        match readU 4 input with
        | .error e => .error e
        | .ok (size, input) =>
          let (elemTag, _) := tagPop t
          match v.handle st (.seqBegin size elemTag) input with
          | .error e => .error e
          | .ok (st, skip, input) =>
            if skip then .ok (st, input) else
            let body : Outcome (σ × Bytes) :=
              if size > repeatThreshold then
                match singular fullTag elemTag maxRec with
                | .error e => .error e
                | .ok true =>
                  match v.handle st (.repeatBegin size elemTag) input with
                  | .error e => .error e
                  | .ok (st, _, input) =>
                    match visitImpl v fullTag maxRec elemTag st input with
                    | .error e => .error e
                    | .ok (st, input) =>
                      match v.handle st (.repeatEnd size elemTag) input with
                      | .error e => .error e
                      | .ok (st, _, input) => .ok (st, input)
                | .ok false =>
                  loopN (fun (p : σ × Bytes) => visitImpl v fullTag maxRec elemTag p.1 p.2) size (st, input)
              else
                loopN (fun (p : σ × Bytes) => visitImpl v fullTag maxRec elemTag p.1 p.2) size (st, input)
            match body with
            | .error e => .error e
            | .ok (st, input) =>
              match v.handle st .seqEnd input with
              | .error e => .error e
              | .ok (st, _, input) => .ok (st, input)
      else if c = cLParen then
        let t := removeSuffix (tag.drop 1) 1
        match v.handle st (.tupBegin t) input with
        | .error e => .error e
        | .ok (st, skip, input) =>
          if skip then .ok (st, input) else
          let rec tupLoop : Nat → Bytes → σ → Bytes → Outcome (σ × Bytes)
            | 0, _, st, input => .ok (st, input)
            | f + 1, t, st, input =>
              let (e, rest) := tagPop t
              if e.isEmpty then .ok (st, input) else
              match visitImpl v fullTag maxRec e st input with
              | .error err => .error err
              | .ok (st, input) => tupLoop f rest st input
          match tupLoop (t.length + 1) t st input with
          | .error e => .error e
          | .ok (st, input) =>
            match v.handle st .tupEnd input with
            | .error e => .error e
            | .ok (st, _, input) => .ok (st, input)
      else if c = cLt then
        let t := removeSuffix (tag.drop 1) 1
        match readU 1 input with
        | .error e => .error e
        | .ok (disc, input) =>
          let t := (List.range disc).foldl (fun t _ => (tagPop t).2) t
          let (optTag, _) := tagPop t
          match v.handle st (.varBegin disc optTag) input with
          | .error e => .error e
          | .ok (st, skip, input) =>
            if skip then .ok (st, input) else
            let inner : Outcome (σ × Bytes) :=
              if optTag = [cZero] then
                match v.handle st .null input with
                | .error e => .error e
                | .ok (st, _, input) => .ok (st, input)
              else visitImpl v fullTag maxRec optTag st input
            match inner with
            | .error e => .error e
            | .ok (st, input) =>
              match v.handle st .varEnd input with
              | .error e => .error e
              | .ok (st, _, input) => .ok (st, input)
      else if c = cLBrace then
        let t := removeSuffix tag 1
        let (intro, t) := removePrefixBefore t cBacktick
        let t := if t.isEmpty then resolveRecursiveTag fullTag intro else t
        let name := intro.drop 1
        match v.handle st (.structBegin name t) input with
        | .error e => .error e
        | .ok (st, skip, input) =>
          if skip then .ok (st, input) else
          let rec fieldLoop : Nat → Bytes → σ → Bytes → Outcome (σ × Bytes)
            | 0, _, st, input => .ok (st, input)
            | f + 1, t, st, input =>
              if t.isEmpty then .ok (st, input) else
              let (fname, t1) := tagPopLabel t
              let (ftag, t2) := tagPop t1
              match v.handle st (.fieldBegin fname ftag) input with
              | .error e => .error e
              | .ok (st, _, input) =>
                match visitImpl v fullTag maxRec ftag st input with
                | .error e => .error e
                | .ok (st, input) =>
                  match v.handle st .fieldEnd input with
                  | .error e => .error e
                  | .ok (st, _, input) => fieldLoop f t2 st input
          match fieldLoop (t.length + 1) t st input with
          | .error e => .error e
          | .ok (st, input) =>
            match v.handle st .structEnd input with
            | .error e => .error e
            | .ok (st, _, input) => .ok (st, input)
      else if c = cSlash then
        -- visit_enum(tag, visitor, istream)
        let t := removeSuffix (tag.drop 1) 1
        match t with
        | [] => .error .invalidTag
        | under :: _ =>
          match arithSize under with
          | none => .error .invalidTag
          | some sz =>
            match readU sz input with
            | .error e => .error e
            | .ok (raw, input) =>
              let hexv := integerToHex under raw
              let t := t.drop 2
              let (name, t) := removePrefixBefore t cQuote
              let dvalue := [cQuote] ++ hexv ++ [cBacktick]
              let enumerator : Bytes :=
                match findSub t dvalue with
                | some pos => (tagPopLabel (t.drop (pos + dvalue.length - 1))).1
                | none => []
              match v.handle st (.enum name enumerator under hexv) input with
              | .error e => .error e
              | .ok (st, _, input) => .ok (st, input)
      else visitArith v c st input

/-- `mserialize::visit(tag, visitor, istream)` -/
def visit {σ} (v : Visitor σ) (tag : Bytes) (st : σ) (input : Bytes) : Outcome (σ × Bytes) :=
  visitImpl v tag 2048 tag st input

end BinlogVerif.Visit
