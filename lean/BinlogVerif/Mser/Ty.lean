import BinlogVerif.Mser.Visit
/-
  The type universe of mserialize at the level that determines tag, wire format and visitation:
  arithmetic leaves (13 kinds), sequences, tuples, variants (optional/pointers are `<0t>`),
  adapted enums and adapted structs.  Which C++ container/pointer/struct realises a `Ty` is
  invisible here: all of them must produce THIS tag and THIS encoding — that is what the
  correspondence harness checks on generated C++ types.
-/
namespace BinlogVerif.Mser
open BinlogVerif BinlogVerif.Tag BinlogVerif.Visit

inductive Ty where
  | arith (c : UInt8)                                   -- one of y c b s i l B S I L f d D
  | seq (elem : Ty)
  | tup (elems : List Ty)
  | var (alts : List Ty)                                -- discriminator byte + the alternative
  | null                                                -- tag `0`: the empty alternative of a variant
  | enum (under : UInt8) (name : Bytes) (enumerators : List (Bytes × Bytes))   -- (hex value, name)
  | struct (name : Bytes) (fields : List (Bytes × Ty))
deriving Repr, Inhabited

inductive Val where
  | num (raw : Nat)                                     -- arithmetic / enum: the object bytes as a number
  | seq (vs : List Val)
  | tup (vs : List Val)                                 -- tuple and struct members
  | alt (i : Nat) (v : Val)                             -- selected alternative
  | nul                                                 -- value of the `null` alternative
deriving Repr, Inhabited

/-! ### tag -/
mutual
def tag : Ty → Bytes
  | .arith c => [c]
  | .seq e => cLBrack :: tag e
  | .tup es => cLParen :: tagList es ++ [cRParen]
  | .var alts => cLt :: tagList alts ++ [cGt]
  | .null => [cZero]
  | .enum u name ens => [cSlash, u, cBacktick] ++ name ++ [cQuote] ++ tagEnums ens ++ [cBackslash]
  | .struct name fs => cLBrace :: name ++ tagFields fs ++ [cRBrace]
def tagList : List Ty → Bytes
  | [] => []
  | t :: ts => tag t ++ tagList ts
def tagFields : List (Bytes × Ty) → Bytes
  | [] => []
  | (n, t) :: fs => [cBacktick] ++ n ++ [cQuote] ++ tag t ++ tagFields fs
def tagEnums : List (Bytes × Bytes) → Bytes
  | [] => []
  | (h, n) :: es => h ++ [cBacktick] ++ n ++ [cQuote] ++ tagEnums es
end

/-! ### typing of values -/
mutual
def hasTy : Ty → Val → Bool
  | .arith c, .num raw => match arithSize c with
    | some sz => decide (raw < 256 ^ sz)
    | none => false
  | .seq e, .seq vs => hasTyAll e vs && decide (vs.length < 2 ^ 32)
  | .tup es, .tup vs => hasTyList es vs
  | .var alts, .alt i v => decide (i < 256) && hasTyNth alts i v
  | .null, .nul => true
  | .enum u _ _, .num raw => match arithSize u with
    | some sz => decide (raw < 256 ^ sz)
    | none => false
  | .struct _ fs, .tup vs => hasTyFields fs vs
  | _, _ => false
def hasTyAll : Ty → List Val → Bool
  | _, [] => true
  | e, v :: vs => hasTy e v && hasTyAll e vs
def hasTyList : List Ty → List Val → Bool
  | [], [] => true
  | t :: ts, v :: vs => hasTy t v && hasTyList ts vs
  | _, _ => false
def hasTyFields : List (Bytes × Ty) → List Val → Bool
  | [], [] => true
  | (_, t) :: fs, v :: vs => hasTy t v && hasTyFields fs vs
  | _, _ => false
def hasTyNth : List Ty → Nat → Val → Bool
  | [], _, _ => false
  | t :: _, 0, v => hasTy t v
  | _ :: ts, i + 1, v => hasTyNth ts i v
end

/-! ### the documented encoding -/
mutual
def encode : Ty → Val → Bytes
  | .arith c, .num raw => le ((arithSize c).getD 0) raw
  | .seq e, .seq vs => le 4 vs.length ++ encodeAll e vs
  | .tup es, .tup vs => encodeList es vs
  | .var alts, .alt i v => le 1 i ++ encodeNth alts i v
  | .null, .nul => []
  | .enum u _ _, .num raw => le ((arithSize u).getD 0) raw
  | .struct _ fs, .tup vs => encodeFields fs vs
  | _, _ => []
def encodeAll : Ty → List Val → Bytes
  | _, [] => []
  | e, v :: vs => encode e v ++ encodeAll e vs
def encodeList : List Ty → List Val → Bytes
  | t :: ts, v :: vs => encode t v ++ encodeList ts vs
  | _, _ => []
def encodeFields : List (Bytes × Ty) → List Val → Bytes
  | (_, t) :: fs, v :: vs => encode t v ++ encodeFields fs vs
  | _, _ => []
def encodeNth : List Ty → Nat → Val → Bytes
  | [], _, _ => []
  | t :: _, 0, v => encode t v
  | _ :: ts, i + 1, v => encodeNth ts i v
end

/-! ### `serialized_size`, computed the way the code computes it: a sequence of arithmetic
    elements is `count * sizeof(elem)` without looking at the elements, everything else is summed -/
mutual
def size : Ty → Val → Nat
  | .arith c, .num _ => (arithSize c).getD 0
  | .seq (.arith c) , .seq vs => 4 + vs.length * (arithSize c).getD 0
  | .seq e, .seq vs => 4 + sizeAll e vs
  | .tup es, .tup vs => sizeList es vs
  | .var alts, .alt i v => 1 + sizeNth alts i v
  | .null, .nul => 0
  | .enum u _ _, .num _ => (arithSize u).getD 0
  | .struct _ fs, .tup vs => sizeFields fs vs
  | _, _ => 0
def sizeAll : Ty → List Val → Nat
  | _, [] => 0
  | e, v :: vs => size e v + sizeAll e vs
def sizeList : List Ty → List Val → Nat
  | t :: ts, v :: vs => size t v + sizeList ts vs
  | _, _ => 0
def sizeFields : List (Bytes × Ty) → List Val → Nat
  | (_, t) :: fs, v :: vs => size t v + sizeFields fs vs
  | _, _ => 0
def sizeNth : List Ty → Nat → Val → Nat
  | [], _, _ => 0
  | t :: _, 0, v => size t v
  | _ :: ts, i + 1, v => sizeNth ts i v
end

/-! ### deserialisation (by tag): the inverse of `encode`, reading only through checked ranges -/
mutual
def decode : Ty → Bytes → Outcome (Val × Bytes)
  | .arith c, r => match arithSize c with
    | none => .error .invalidTag
    | some sz => match readU sz r with
      | .ok (raw, rest) => .ok (.num raw, rest)
      | .error e => .error e
  | .seq e, r => match readU 4 r with
    | .error err => .error err
    | .ok (n, rest) => match decodeN e n rest with
      | .ok (vs, rest') => .ok (.seq vs, rest')
      | .error err => .error err
  | .tup es, r => match decodeList es r with
    | .ok (vs, rest) => .ok (.tup vs, rest)
    | .error e => .error e
  | .var alts, r => match readU 1 r with
    | .error e => .error e
    | .ok (i, rest) => match decodeNth alts i rest with
      | .ok (v, rest') => .ok (.alt i v, rest')
      | .error e => .error e
  | .null, r => .ok (.nul, r)
  | .enum u _ _, r => match arithSize u with
    | none => .error .invalidTag
    | some sz => match readU sz r with
      | .ok (raw, rest) => .ok (.num raw, rest)
      | .error e => .error e
  | .struct _ fs, r => match decodeFields fs r with
    | .ok (vs, rest) => .ok (.tup vs, rest)
    | .error e => .error e
def decodeN : Ty → Nat → Bytes → Outcome (List Val × Bytes)
  | _, 0, r => .ok ([], r)
  | e, n + 1, r => match decode e r with
    | .error err => .error err
    | .ok (v, rest) => match decodeN e n rest with
      | .ok (vs, rest') => .ok (v :: vs, rest')
      | .error err => .error err
def decodeList : List Ty → Bytes → Outcome (List Val × Bytes)
  | [], r => .ok ([], r)
  | t :: ts, r => match decode t r with
    | .error e => .error e
    | .ok (v, rest) => match decodeList ts rest with
      | .ok (vs, rest') => .ok (v :: vs, rest')
      | .error e => .error e
def decodeFields : List (Bytes × Ty) → Bytes → Outcome (List Val × Bytes)
  | [], r => .ok ([], r)
  | (_, t) :: fs, r => match decode t r with
    | .error e => .error e
    | .ok (v, rest) => match decodeFields fs rest with
      | .ok (vs, rest') => .ok (v :: vs, rest')
      | .error e => .error e
def decodeNth : List Ty → Nat → Bytes → Outcome (Val × Bytes)
  | [], _, _ => .error .invalidTag
  | t :: _, 0, r => decode t r
  | _ :: ts, i + 1, r => decodeNth ts i r
end

end BinlogVerif.Mser
