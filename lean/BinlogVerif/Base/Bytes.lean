/-
  Bytes, little-endian fixed-width integers, and the outcome type shared by all models.

  A buffer is `List UInt8` in statements and proofs.  Fixed-width values are little-endian
  (pinned platform: x86-64 Linux; the format is documented as host-endian).
-/
namespace BinlogVerif

abbrev Bytes := List UInt8

/-- `n` little-endian bytes of `v` (the low `8*n` bits). -/
def le : (n : Nat) → (v : Nat) → Bytes
  | 0, _ => []
  | n+1, v => UInt8.ofNat (v % 256) :: le n (v / 256)

/-- value of a little-endian byte string -/
def unle : Bytes → Nat
  | [] => 0
  | b :: bs => b.toNat + 256 * unle bs

@[simp] theorem le_length (n v : Nat) : (le n v).length = n := by
  induction n generalizing v with
  | zero => rfl
  | succ n ih => simp [le, ih]

theorem unle_le (n v : Nat) : unle (le n v) = v % 256 ^ n := by
  induction n generalizing v with
  | zero => simp [le, unle, Nat.mod_one]
  | succ n ih =>
    simp only [le, unle, ih]
    have h : (UInt8.ofNat (v % 256)).toNat = v % 256 := by
      simp
    rw [h, Nat.pow_succ, Nat.mul_comm (256 ^ n) 256, Nat.mod_mul]

theorem unle_le_of_lt (n v : Nat) (h : v < 256 ^ n) : unle (le n v) = v := by
  rw [unle_le, Nat.mod_eq_of_lt h]

theorem unle_lt (bs : Bytes) : unle bs < 256 ^ bs.length := by
  induction bs with
  | nil => simp [unle]
  | cons b bs ih =>
    simp only [unle, List.length_cons, Nat.pow_succ]
    have hb : b.toNat < 256 := b.toNat_lt
    omega

theorem le_unle (bs : Bytes) : le bs.length (unle bs) = bs := by
  induction bs with
  | nil => rfl
  | cons b bs ih =>
    simp only [List.length_cons, le, unle]
    have hb : b.toNat < 256 := b.toNat_lt
    have h1 : (b.toNat + 256 * unle bs) % 256 = b.toNat := by omega
    have h2 : (b.toNat + 256 * unle bs) / 256 = unle bs := by omega
    rw [h1, h2, ih]
    simp

/-- Error kinds.  `trap` is what must never happen (out-of-bounds access, failed assert);
    everything else is a C++ exception thrown on purpose. -/
inductive Err where
  | overflow            -- binlog::Range overflow (std::runtime_error)
  | invalidSource       -- Event has invalid source id
  | truncSize           -- IstreamEntryStream: not enough bytes for the size field
  | truncPayload        -- IstreamEntryStream: payload truncated
  | recursion           -- recursion limit exceeded
  | invalidTag          -- invalid arithmetic / enum tag
  | sizeMismatch        -- sequence size mismatch on a non-resizable destination
  | trap (what : String)
deriving Repr, DecidableEq, Inhabited

def Err.isTrap : Err → Bool
  | .trap _ => true
  | _ => false

def Err.code : Err → String
  | .overflow => "overflow"
  | .invalidSource => "invalid-source"
  | .truncSize => "trunc-size"
  | .truncPayload => "trunc-payload"
  | .recursion => "recursion"
  | .invalidTag => "invalid-tag"
  | .sizeMismatch => "size-mismatch"
  | .trap w => "TRAP:" ++ w

abbrev Outcome (α : Type) := Except Err α

/-- `binlog::Range::read`/`view`: take `n` bytes or throw `Range overflow`. -/
def takeN (n : Nat) (r : Bytes) : Outcome (Bytes × Bytes) :=
  if n ≤ r.length then .ok (r.take n, r.drop n) else .error .overflow

/-- read an unsigned `n`-byte little-endian integer -/
def readU (n : Nat) (r : Bytes) : Outcome (Nat × Bytes) :=
  match takeN n r with
  | .ok (b, rest) => .ok (unle b, rest)
  | .error e => .error e

theorem takeN_append (n : Nat) (a b : Bytes) (h : a.length = n) :
    takeN n (a ++ b) = .ok (a, b) := by
  simp [takeN, ← h]

theorem readU_le_append (n v : Nat) (rest : Bytes) (h : v < 256 ^ n) :
    readU n (le n v ++ rest) = .ok (v, rest) := by
  simp [readU, takeN_append n (le n v) rest (le_length n v), unle_le_of_lt n v h]

theorem readU_short (n : Nat) (r : Bytes) (h : r.length < n) : readU n r = .error .overflow := by
  have : ¬ n ≤ r.length := by omega
  simp [readU, takeN, this]

theorem le_append_isEmpty (n v : Nat) (rest : Bytes) (hn : 0 < n) : (le n v ++ rest).isEmpty = false := by
  cases hle : le n v with
  | nil => have := le_length n v; rw [hle] at this; simp at this; omega
  | cons a b => simp

def hexDigit (n : Nat) : Char :=
  if n < 10 then Char.ofNat (48 + n) else Char.ofNat (87 + n)

def Bytes.toHex (b : Bytes) : String :=
  String.ofList (b.flatMap fun x => [hexDigit (x.toNat / 16), hexDigit (x.toNat % 16)])

def hexVal (c : Char) : Option Nat :=
  if '0' ≤ c ∧ c ≤ '9' then some (c.toNat - 48)
  else if 'a' ≤ c ∧ c ≤ 'f' then some (c.toNat - 87)
  else if 'A' ≤ c ∧ c ≤ 'F' then some (c.toNat - 55)
  else none

def Bytes.ofHex (s : String) : Option Bytes :=
  let rec go : List Char → Option Bytes
    | [] => some []
    | [_] => none
    | a :: b :: rest => do
      let x ← hexVal a
      let y ← hexVal b
      let r ← go rest
      pure (UInt8.ofNat (16 * x + y) :: r)
  go s.toList

end BinlogVerif
