import BinlogVerif.Reader.Recovery
/-
  Lemmas for C08: what the (stable) sort of `brecovery` does to buffers of one session.
-/
namespace BinlogVerif.Image
open BinlogVerif BinlogVerif.Recovery

theorem bufLe_trans (a b c : Recovered) (h1 : bufLe a b = true) (h2 : bufLe b c = true) : bufLe a c = true := by
  unfold bufLe at *
  by_cases e1 : a.session = b.session <;> by_cases e2 : b.session = c.session <;>
    by_cases e3 : a.session = c.session <;> simp_all <;> omega

theorem bufLe_total (a b : Recovered) : (bufLe a b || bufLe b a) = true := by
  unfold bufLe
  by_cases e1 : a.session = b.session
  · have e2 : b.session = a.session := e1.symm
    simp only [e1, if_true]
    simp only [Bool.or_eq_true, decide_eq_true_eq]
    omega
  · have e2 : ¬ b.session = a.session := fun h => e1 h.symm
    simp only [e1, e2, if_false, Bool.or_eq_true, decide_eq_true_eq]
    omega

def isMeta (b : Recovered) : Bool := b.type == .metadata
def isData (b : Recovered) : Bool := b.type == .data

theorem bufLe_same (a b : Recovered) (h : a.session = b.session) :
    bufLe a b = (isMeta a || isData b) := by
  unfold bufLe isMeta isData
  rw [if_pos h]
  cases ha : a.type <;> cases hb : b.type <;> simp [typeRank]

theorem isData_eq_not_isMeta (b : Recovered) : isData b = !isMeta b := by
  unfold isMeta isData
  cases b.type <;> rfl

/-- **The sort on buffers of one session is the stable partition**: metadata buffers first, then
    data buffers, each group in the order found. -/
theorem mergeSort_one_session (l : List Recovered) (sess : Nat) (h : ∀ b ∈ l, b.session = sess) :
    l.mergeSort bufLe = l.filter isMeta ++ l.filter isData := by
  induction l with
  | nil => simp
  | cons a l ih =>
    have ih := ih (fun b hb => h b (by simp [hb]))
    obtain ⟨l1, l2, e1, e2, hl1⟩ := List.mergeSort_cons (le := bufLe) bufLe_trans bufLe_total a l
    have hpw := List.pairwise_mergeSort (le := bufLe) bufLe_trans bufLe_total (a :: l)
    rw [e1, List.pairwise_append] at hpw
    have hl2 : ∀ b ∈ l2, bufLe a b = true := (List.pairwise_cons.mp hpw.2.1).1
    have hmem : ∀ b, b ∈ l1 ∨ b ∈ l2 → b ∈ l := by
      intro b hb
      have : b ∈ l.mergeSort bufLe := by rw [e2]; exact List.mem_append.mpr hb
      exact List.mem_mergeSort.mp this
    have hsa : a.session = sess := h a (by simp)
    have hs : ∀ b, b ∈ l1 ∨ b ∈ l2 → a.session = b.session := fun b hb => by
      rw [hsa, h b (by simp [hmem b hb])]
    -- elements of l1 are metadata and `a` is data; elements of l2 are data or `a` is metadata
    have h1 : ∀ b ∈ l1, isMeta a = false ∧ isMeta b = true := by
      intro b hb
      have := hl1 b hb
      rw [bufLe_same a b (hs b (.inl hb)), isData_eq_not_isMeta] at this
      cases hA : isMeta a <;> cases hB : isMeta b <;> simp_all
    have h2 : ∀ b ∈ l2, isMeta a = true ∨ isMeta b = false := by
      intro b hb
      have := hl2 b hb
      rw [bufLe_same a b (hs b (.inr hb)), isData_eq_not_isMeta] at this
      cases hA : isMeta a <;> cases hB : isMeta b <;> simp_all
    rw [e1]
    rw [e2] at ih
    cases hA : isMeta a with
    | true =>
      have hnil : l1 = [] := by
        cases l1 with
        | nil => rfl
        | cons b _ => have := (h1 b (by simp)).1; rw [hA] at this; cases this
      subst hnil
      have hD : isData a = false := by rw [isData_eq_not_isMeta, hA]; rfl
      simp only [List.nil_append] at ih ⊢
      rw [List.filter_cons, List.filter_cons, hA, hD, ih]
      simp
    | false =>
      have hD : isData a = true := by rw [isData_eq_not_isMeta, hA]; rfl
      have h2' : ∀ b ∈ l2, isMeta b = false := fun b hb => by
        cases h2 b hb with
        | inl h => rw [hA] at h; cases h
        | inr h => exact h
      have h1' : ∀ b ∈ l1, isMeta b = true := fun b hb => (h1 b hb).2
      have f1 : (l1 ++ l2).filter isMeta = l1 := by
        have a1 : l1.filter isMeta = l1 := List.filter_eq_self.mpr h1'
        have a2 : l2.filter isMeta = [] := List.filter_eq_nil_iff.mpr (fun b hb => by simp [h2' b hb])
        rw [List.filter_append, a1, a2]
        simp
      have f2 : (l1 ++ l2).filter isData = l2 := by
        have a1 : l1.filter isData = [] :=
          List.filter_eq_nil_iff.mpr (fun b hb => by rw [isData_eq_not_isMeta, h1' b hb]; simp)
        have a2 : l2.filter isData = l2 :=
          List.filter_eq_self.mpr (fun b hb => by rw [isData_eq_not_isMeta, h2' b hb]; rfl)
        rw [List.filter_append, a1, a2]
        rfl
      have g1 : l.filter isMeta = l1 := by
        have := congrArg (List.filter isMeta) ih
        rw [f1, List.filter_append, List.filter_filter, List.filter_filter] at this
        rw [this]
        have : ∀ b : Recovered, (isMeta b && isData b) = false := fun b => by
          rw [isData_eq_not_isMeta]; cases isMeta b <;> rfl
        simp [this]
      have g2 : l.filter isData = l2 := by
        have := congrArg (List.filter isData) ih
        rw [f2, List.filter_append, List.filter_filter, List.filter_filter] at this
        rw [this]
        have : ∀ b : Recovered, (isData b && isMeta b) = false := fun b => by
          rw [isData_eq_not_isMeta]; cases isMeta b <;> rfl
        simp [this]
      rw [List.filter_cons, List.filter_cons, hA, hD, g1, g2]
      simp

end BinlogVerif.Image
