import BinlogVerif.Lemmas.ImageScan
import BinlogVerif.Lemmas.ImageSort
/-
  Lemmas for C08: the payloads an image holds, and the output of `recover` in terms of them.
-/
namespace BinlogVerif.Image
open BinlogVerif BinlogVerif.Recovery

/-- payloads counted by the size field of a metadata block that carries the magic -/
def Piece.metaPayloads : Piece → List Bytes
  | .metaOn _ es _ => es
  | _ => []

/-- payloads of the committed, unreleased entries of a queue that carries the magic -/
def Piece.chanPayloads : Piece → List Bytes
  | .chan _ c => if c.magicOn then c.pending else []
  | _ => []

def metaPayloads (img : List (Bytes × Piece)) : List Bytes := img.flatMap (·.2.metaPayloads)
def chanPayloads (img : List (Bytes × Piece)) : List Bytes := img.flatMap (·.2.chanPayloads)

theorem frames_append (a b : List Bytes) : frames (a ++ b) = frames a ++ frames b := by
  simp [frames]

theorem frames_nil : frames [] = [] := rfl

theorem meta_buffers (img : List (Bytes × Piece)) :
    (((expected img).filter isMeta).map (·.buffer)).flatten = frames (metaPayloads img) := by
  induction img with
  | nil => rfl
  | cons x rest ih =>
    obtain ⟨f, p⟩ := x
    have hm : metaPayloads ((f, p) :: rest) = p.metaPayloads ++ metaPayloads rest := by simp [metaPayloads]
    rw [hm, frames_append, ← ih]
    simp only [expected, List.filterMap_cons]
    cases p with
    | metaOn s es extra => simp [Piece.recovered, Piece.metaPayloads, isMeta]
    | chan s c =>
      by_cases hc : c.magicOn = true <;> simp [Piece.recovered, Piece.metaPayloads, isMeta, hc, frames_nil]
    | off bs => simp [Piece.recovered, Piece.metaPayloads, frames_nil]

theorem chan_buffers (img : List (Bytes × Piece)) :
    (((expected img).filter isData).map (·.buffer)).flatten = frames (chanPayloads img) := by
  induction img with
  | nil => rfl
  | cons x rest ih =>
    obtain ⟨f, p⟩ := x
    have hm : chanPayloads ((f, p) :: rest) = p.chanPayloads ++ chanPayloads rest := by simp [chanPayloads]
    rw [hm, frames_append, ← ih]
    simp only [expected, List.filterMap_cons]
    cases p with
    | metaOn s es extra => simp [Piece.recovered, Piece.chanPayloads, isData, frames_nil]
    | chan s c =>
      by_cases hc : c.magicOn = true <;> simp [Piece.recovered, Piece.chanPayloads, isData, hc, frames_nil]
    | off bs => simp [Piece.recovered, Piece.chanPayloads, frames_nil]

/-- every buffer to be found is the framing of payloads the image holds, all of legal size -/
theorem expected_payloads (img : List (Bytes × Piece)) (t : Bytes) (h : ImageOk img t) :
    ∀ b ∈ expected img, ∃ ps, b.buffer = frames ps ∧ (∀ p ∈ ps, PayloadOk p) ∧
      ∀ p ∈ ps, p ∈ metaPayloads img ∨ p ∈ chanPayloads img := by
  induction img with
  | nil => intro b hb; simp [expected] at hb
  | cons x rest ih =>
    obtain ⟨f, p⟩ := x
    have h' : NoMagicIn f (p.bytes ++ flat rest t) ∧ p.Ok (flat rest t) ∧ ImageOk rest t := h
    obtain ⟨_, h2, h3⟩ := h'
    have hm : metaPayloads ((f, p) :: rest) = p.metaPayloads ++ metaPayloads rest := by simp [metaPayloads]
    have hc : chanPayloads ((f, p) :: rest) = p.chanPayloads ++ chanPayloads rest := by simp [chanPayloads]
    intro b hb
    simp only [expected, List.filterMap_cons] at hb
    have htail : b ∈ expected rest → ∃ ps, b.buffer = frames ps ∧ (∀ p ∈ ps, PayloadOk p) ∧
        ∀ q ∈ ps, q ∈ metaPayloads ((f, p) :: rest) ∨ q ∈ chanPayloads ((f, p) :: rest) := by
      intro hb
      obtain ⟨ps, e, o, m⟩ := ih h3 b hb
      refine ⟨ps, e, o, fun q hq => ?_⟩
      rw [hm, hc]
      cases m q hq with
      | inl h => exact .inl (List.mem_append_right _ h)
      | inr h => exact .inr (List.mem_append_right _ h)
    cases p with
    | metaOn s es extra =>
      simp only [Piece.recovered, List.mem_cons] at hb
      cases hb with
      | inr hb => exact htail hb
      | inl hb =>
        subst hb
        exact ⟨es, rfl, h2.2.2.1, fun q hq => .inl (by rw [hm]; exact List.mem_append_left _ hq)⟩
    | chan s c =>
      by_cases hmg : c.magicOn = true
      · simp only [Piece.recovered, hmg, if_true, List.mem_cons] at hb
        cases hb with
        | inr hb => exact htail hb
        | inl hb =>
          subst hb
          simp only [Piece.Ok, hmg, if_true] at h2
          refine ⟨c.pending, rfl, h2.2.2.2.2.2.2.2, fun q hq => .inr ?_⟩
          rw [hc]
          exact List.mem_append_left _ (by simp [Piece.chanPayloads, hmg, hq])
      · simp only [Piece.recovered, hmg] at hb
        exact htail hb
    | off bs => exact htail hb

end BinlogVerif.Image
