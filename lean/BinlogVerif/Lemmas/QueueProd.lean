import BinlogVerif.Lemmas.QueueInv
/-
  Preservation of the invariant by the producer operations.
-/
namespace BinlogVerif.Q

theorem inv_pEnd_nowrap (o : Orders) (ho : o.Sufficient) (s s' : St) (h : Inv s) (hw : s.wrapP = false)
    (e : step o s Op.pEnd = some s') : Inv s' := by
  obtain ⟨ho1, -, -, -⟩ := ho
  simp only [step, ho1, hw, if_true, Option.some.injEq, Bool.false_eq_true, if_false] at e
  subst e
  have C := h.c2 hw
  have hst : s.start = s.pW := by simp [St.start, hw]
  constructor <;> dsimp only [St.start] <;> (try simp only [Bool.false_eq_true, if_false])
  case a1p => simp only [List.length_append, List.length_singleton]; om [h.a1p]
  case a1c => exact h.a1c
  case a2p => exact h.a2p
  case a2c => simp only [List.length_append, List.length_singleton]; om [h.a2c]
  case a3p => exact h.a3p
  case a3c => exact h.a3c
  case a4 =>
    intro i mi hi
    rcases getElem?_append_singleton_some _ _ _ _ hi with ⟨hil, hi'⟩ | ⟨hil, rfl⟩
    · exact h.a4 i mi hi'
    · dsimp only; om [h.a1p]
  case a5 => exact h.a5
  case a7d => exact h.a7d
  case a7w => exact h.a7w
  case a7r => exact h.a7r
  case a7e => exact h.a7e
  case a7p => om [h.a7e, C]
  case a8 => exact h.a8
  case a9 => exact h.a9
  case a10 =>
    intro i mi hi
    rcases getElem?_append_singleton_some _ _ _ _ hi with ⟨hil, hi'⟩ | ⟨hil, rfl⟩
    · exact h.a10 i mi hi'
    · dsimp only; om [h.a7e, C]
  case p1 => exact h.p1
  case p2 => exact h.p2
  case p3 => gr [h.geo, C]
  case p4 => exact h.p4
  case p5 => exact h.p5
  case p6 =>
    intro i mi hc hi
    rcases getElem?_append_singleton_some _ _ _ _ hi with ⟨hil, hi'⟩ | ⟨hil, rfl⟩
    · gr [h.p6 i mi hc hi', C]
    · gr [h.geo, C]
  case p7 =>
    intro i i' mi mi' hc hii hi hi2
    rcases getElem?_append_singleton_some _ _ _ _ hi with ⟨hil, hi'⟩ | ⟨hil, rfl⟩
    · rcases getElem?_append_singleton_some _ _ _ _ hi2 with ⟨hi2l, hi2'⟩ | ⟨hi2l, rfl⟩
      · exact h.p7 i i' mi mi' hc hii hi' hi2'
      · gr [h.p6 i mi hc hi', C]
    · rcases getElem?_append_singleton_some _ _ _ _ hi2 with ⟨hi2l, hi2'⟩ | ⟨hi2l, rfl⟩
      · omega
      · gr []
  case b1 => exact h.b1
  case b2 => om [C]
  case b3 => exact h.b3
  case b4 => exact h.b4
  case b5 =>
    intro i mi hc hi hl
    rcases getElem?_append_singleton_some _ _ _ _ hi with ⟨hil, hi'⟩ | ⟨hil, rfl⟩
    · exact h.b5 i mi hc hi' hl
    · dsimp only at hl; omega
  case c1 => intro hf; cases hf
  case c2 => intro _; om [C]
  case d1 => exact h.d1
  case d2 => om [h.d2]
  case d3 =>
    intro i mi hc hi hl
    rcases getElem?_append_singleton_some _ _ _ _ hi with ⟨hil, hi'⟩ | ⟨hil, rfl⟩
    · exact h.d3 i mi hc hi' hl
    · om [h.d2, h.a1p]
  case d4 => exact h.d4
  case d5 => exact h.d5
  case f1 => intro x j mj hp hj hlt; gr [h.f1 x j mj hp hj hlt, C]
  case f1' => exact h.f1'
  case f2 =>
    intro x i mi hc hi hb
    rcases getElem?_append_singleton_some _ _ _ _ hi with ⟨hil, hi'⟩ | ⟨hil, rfl⟩
    · exact h.f2 x i mi hc hi' hb
    · dsimp only at hb; gr [h.f2h x, h.f3 x, h.a1p, C, hst]
  case f2h => intro x hb; gr [h.f2h x, h.f3 x, C, hst]
  case f3 => intro x h1 h2; omega
  case f4lo => exact h.f4lo
  case f4hi => intro x hx; gr [h.f4hi x, h.f3 x, C, hst]
  case g1h => exact h.g1h
  case g1c => exact h.g1c
  case g2a => exact h.g2a
  case g2b => exact h.g2b
  case g2c => exact h.g2c
  case g2d => exact h.g2d
  case g3 =>
    intro i mi hc hi
    rcases getElem?_append_singleton_some _ _ _ _ hi with ⟨hil, hi'⟩ | ⟨hil, rfl⟩
    · exact h.g3 i mi hc hi'
    · dsimp only; gr [h.g2a]
  case g4 =>
    intro i mi hi
    rcases getElem?_append_singleton_some _ _ _ _ hi with ⟨hil, hi'⟩ | ⟨hil, rfl⟩
    · rw [List.take_append_of_le_length (by om [h.g5])]; exact h.g4 i mi hi'
    · dsimp only
      refine ⟨h.g1h, ?_⟩
      rw [List.take_of_length_le (by simp only [List.length_append, List.length_singleton]; om [h.g5])]
      rw [List.flatten_append, h.g4h, h.g6b, hst]
      simp only [List.flatten_cons, List.flatten_nil, List.append_nil]
      rw [range'_one_append _ _ (by om [h.g1h])]
      congr 1; om [h.g1h, C]
  case g4h =>
    rw [List.flatten_append, h.g4h, h.g6b, hst]
    simp only [List.flatten_cons, List.flatten_nil, List.append_nil]
    rw [range'_one_append _ _ (by om [h.g1h])]
    congr 1; om [h.g1h, C]
  case g5 => simp only [List.length_append, List.length_singleton]; om [h.g5]
  case g6a =>
    have := h.g6a; have := h.g6b; have hl : s.pending.length = s.wp - s.pW := by rw [h.g6b, hst]; simp
    simp only [List.length_nil]; om [C]
  case g6b => simp
  case g7 => exact h.g7
  case g8 =>
    intro d
    obtain ⟨c, hcl, hc⟩ := h.g8 d
    exact ⟨c, by simp only [List.length_append, List.length_singleton]; omega, by rw [List.take_append_of_le_length hcl]; exact hc⟩
  case g9 => exact h.g9
  case g10 =>
    obtain ⟨c, hcl, hc⟩ := h.g10
    exact ⟨c, by simp only [List.length_append, List.length_singleton]; omega, by rw [List.take_append_of_le_length hcl]; exact hc⟩
  case g11 =>
    obtain ⟨c, hcl, hc⟩ := h.g11
    exact ⟨c, by simp only [List.length_append, List.length_singleton]; omega, by rw [List.take_append_of_le_length hcl]; exact hc⟩
  case g12 =>
    intro p
    obtain ⟨c, hcl, hc⟩ := h.g12 p
    exact ⟨c, by simp only [List.length_append, List.length_singleton]; omega, by rw [List.take_append_of_le_length hcl]; exact hc⟩
  case g13 => exact h.g13
  case g14 => exact h.g14
  case nr => exact h.nr

theorem inv_pEnd_wrap (o : Orders) (ho : o.Sufficient) (s s' : St) (h : Inv s) (hw : s.wrapP = true)
    (e : step o s Op.pEnd = some s') : Inv s' := by
  obtain ⟨ho1, -, -, -⟩ := ho
  simp only [step, ho1, hw, if_true, Option.some.injEq] at e
  subst e
  have C := h.c1 hw
  have hst : s.start = 0 := by simp [St.start, hw]
  constructor <;> dsimp only [St.start] <;> (try simp only [Bool.false_eq_true, if_false])
  case a1p => simp only [List.length_append, List.length_singleton]; om [h.a1p]
  case a1c => exact h.a1c
  case a2p => exact h.a2p
  case a2c => simp only [List.length_append, List.length_singleton]; om [h.a2c]
  case a3p => exact h.a3p
  case a3c => exact h.a3c
  case a4 =>
    intro i mi hi
    rcases getElem?_append_singleton_some _ _ _ _ hi with ⟨hil, hi'⟩ | ⟨hil, rfl⟩
    · exact h.a4 i mi hi'
    · dsimp only; om [h.a1p]
  case a5 => exact h.a5
  case a7d => exact h.a7d
  case a7w => exact h.a7w
  case a7r => exact h.a7r
  case a7e => exact h.a7e
  case a7p => om [h.a7e, C]
  case a8 => exact h.a8
  case a9 => exact h.a9
  case a10 =>
    intro i mi hi
    rcases getElem?_append_singleton_some _ _ _ _ hi with ⟨hil, hi'⟩ | ⟨hil, rfl⟩
    · exact h.a10 i mi hi'
    · dsimp only; om [h.a7e, C]
  case p1 => exact h.p1
  case p2 => exact h.p2
  case p3 => gr [h.cfg, C]
  case p4 => exact h.p4
  case p5 => exact h.p5
  case p6 =>
    intro i mi hc hi
    rcases getElem?_append_singleton_some _ _ _ _ hi with ⟨hil, hi'⟩ | ⟨hil, rfl⟩
    · gr [h.p6 i mi hc hi', C, h.cfg]
    · gr [h.cfg, C]
  case p7 =>
    intro i i' mi mi' hc hii hi hi2
    rcases getElem?_append_singleton_some _ _ _ _ hi with ⟨hil, hi'⟩ | ⟨hil, rfl⟩
    · rcases getElem?_append_singleton_some _ _ _ _ hi2 with ⟨hi2l, hi2'⟩ | ⟨hi2l, rfl⟩
      · exact h.p7 i i' mi mi' hc hii hi' hi2'
      · gr [h.p6 i mi hc hi', C]
    · rcases getElem?_append_singleton_some _ _ _ _ hi2 with ⟨hi2l, hi2'⟩ | ⟨hi2l, rfl⟩
      · omega
      · gr []
  case b1 => om [C]
  case b2 => intro _; om [C]
  case b3 => gr [h.cfg, C]
  case b4 => gr [h.cfg, C]
  case b5 =>
    intro i mi hc hi hl
    rcases getElem?_append_singleton_some _ _ _ _ hi with ⟨hil, hi'⟩ | ⟨hil, rfl⟩
    · gr [h.p6 i mi hc hi', C]
    · dsimp only at hl; omega
  case c1 => intro hf; cases hf
  case c2 => intro _; om [C]
  case d1 => intro _; om [C, h.a7p]
  case d2 => om [h.d2]
  case d3 =>
    intro i mi hc hi hl
    rcases getElem?_append_singleton_some _ _ _ _ hi with ⟨hil, hi'⟩ | ⟨hil, rfl⟩
    · gr [h.p6 i mi hc hi', h.cfg, C]
    · om [h.d2, h.a1p]
  case d4 => intro j mj hp hj hlt; gr [h.p4 j mj hp hj, h.cfg, C]
  case d5 => exact h.d5
  case f1 => intro x j mj hp hj hlt; gr [h.f1 x j mj hp hj hlt, h.p4 j mj hp hj, h.cfg, C]
  case f1' => exact h.f1'
  case f2 =>
    intro x i mi hc hi hb
    rcases getElem?_append_singleton_some _ _ _ _ hi with ⟨hil, hi'⟩ | ⟨hil, rfl⟩
    · exact h.f2 x i mi hc hi' hb
    · dsimp only at hb; gr [h.f2h x, h.f3 x, h.a1p, C, hst, h.cfg]
  case f2h => intro x hb; gr [h.f2h x, h.f3 x, C, hst, h.cfg]
  case f3 => intro x h1 h2; omega
  case f4lo => intro x h1 h2 h3; gr [h.f4hi x, h.g2a, C, h.cfg]
  case f4hi => intro x hx; gr [h.f3 x, C, hst, h.cfg]
  case g1h => om [h.g1h]
  case g1c => exact h.g1c
  case g2a => intro hx; om [h.cfg, C]
  case g2b => intro _; gr [h.g2a, h.cfg, C]
  case g2c => intro hx; om [h.cfg, C]
  case g2d => exact h.g2d
  case g3 =>
    intro i mi hc hi
    rcases getElem?_append_singleton_some _ _ _ _ hi with ⟨hil, hi'⟩ | ⟨hil, rfl⟩
    · gr [h.g3 i mi hc hi', h.p6 i mi hc hi', h.cfg, C]
    · dsimp only; gr [h.cfg, C]
  case g4 =>
    intro i mi hi
    rcases getElem?_append_singleton_some _ _ _ _ hi with ⟨hil, hi'⟩ | ⟨hil, rfl⟩
    · rw [List.take_append_of_le_length (by om [h.g5])]; exact h.g4 i mi hi'
    · dsimp only
      refine ⟨by om [h.g1h], ?_⟩
      rw [List.take_of_length_le (by simp only [List.length_append, List.length_singleton]; om [h.g5])]
      rw [List.flatten_append, h.g4h, h.g6b, hst]
      simp only [List.flatten_cons, List.flatten_nil, List.append_nil]
      rw [range'_one_append _ _ (by om [h.g1h])]
      congr 1; om [h.g1h, C]
  case g4h =>
    rw [List.flatten_append, h.g4h, h.g6b, hst]
    simp only [List.flatten_cons, List.flatten_nil, List.append_nil]
    rw [range'_one_append _ _ (by om [h.g1h])]
    congr 1; om [h.g1h, C]
  case g5 => simp only [List.length_append, List.length_singleton]; om [h.g5]
  case g6a =>
    have := h.g6a; have := h.g6b; have hl : s.pending.length = s.wp - 0 := by rw [h.g6b, hst]; simp
    simp only [List.length_nil]; om [C]
  case g6b => simp
  case g7 => exact h.g7
  case g8 =>
    intro d
    obtain ⟨c, hcl, hc⟩ := h.g8 d
    exact ⟨c, by simp only [List.length_append, List.length_singleton]; omega, by rw [List.take_append_of_le_length hcl]; exact hc⟩
  case g9 => exact h.g9
  case g10 =>
    obtain ⟨c, hcl, hc⟩ := h.g10
    exact ⟨c, by simp only [List.length_append, List.length_singleton]; omega, by rw [List.take_append_of_le_length hcl]; exact hc⟩
  case g11 =>
    refine ⟨s.commits.length, by simp only [List.length_append, List.length_singleton]; omega, ?_⟩
    rw [List.take_append_of_le_length (Nat.le_refl _), List.take_length, h.g4h]
  case g12 =>
    intro p
    obtain ⟨c, hcl, hc⟩ := h.g12 p
    exact ⟨c, by simp only [List.length_append, List.length_singleton]; omega, by rw [List.take_append_of_le_length hcl]; exact hc⟩
  case g13 => exact h.g13
  case g14 => exact h.g14
  case nr => exact h.nr

theorem inv_pEnd (o : Orders) (ho : o.Sufficient) (s s' : St) (h : Inv s)
    (e : step o s Op.pEnd = some s') : Inv s' := by
  cases hw : s.wrapP
  · exact inv_pEnd_nowrap o ho s s' h hw e
  · exact inv_pEnd_wrap o ho s s' h hw e


theorem inv_pBegin1 (s : St) (h : Inv s) (j : Nat) (m : Msg)
    (hp : s.pRidx ≤ j) (hj : s.rHist[j]? = some m) (hpe : s.pending = []) (ps : Nat) (hps : j ≤ ps)
    (hlt : s.pW < m.val) :
    Inv { s with pRidx := j, pSees := ps, kLap := m.lap, kVal := m.val, wrapP := false,
                 wp := s.pW, we := m.val - 1 } := by
  have M := h.p4 j m hp hj
  constructor <;> dsimp only [St.start] <;> (try simp only [Bool.false_eq_true, if_false])
  case a1p => exact h.a1p
  case a1c => exact h.a1c
  case a2p => exact getElem?_lt_length _ _ _ hj
  case a2c => exact h.a2c
  case a3p => exact hps
  case a3c => exact h.a3c
  case a4 => exact h.a4
  case a5 => exact h.a5
  case a7d => exact h.a7d
  case a7w => exact h.a7w
  case a7r => exact h.a7r
  case a7e => om [h.a8 j m hj]
  case a7p => exact h.a7p
  case a8 => exact h.a8
  case a9 => exact h.a9
  case a10 => exact h.a10
  case p1 => exact M.2
  case p2 => exact h.p2
  case p3 => exact h.p3
  case p4 => intro j' mj' hp' hj'; exact ⟨h.p5 j j' m mj' hp hp' hj hj', (h.p4 j' mj' (by omega) hj').2⟩
  case p5 => intro j1 j2 m1 m2 h1 h12 hj1 hj2; exact h.p5 j1 j2 m1 m2 (by omega) h12 hj1 hj2
  case p6 => exact h.p6
  case p7 => exact h.p7
  case b1 => gr [M, h.geo]
  case b2 => intro _; exact hlt
  case b3 => exact h.b3
  case b4 => exact h.b4
  case b5 => exact h.b5
  case c1 => intro hf; cases hf
  case c2 => intro _; om [hlt]
  case d1 => intro hx; gr [h.d1, M, h.geo]
  case d2 => exact h.d2
  case d3 => exact h.d3
  case d4 => intro j' mj' hp' hj' hlt'; exact h.d4 j' mj' (by omega) hj' hlt'
  case d5 => exact h.d5
  case f1 => intro x j' mj' hp' hj' hl; exact h.f1 x j' mj' (by omega) hj' hl
  case f1' => exact h.f1'
  case f2 => exact h.f2
  case f2h => exact h.f2h
  case f3 => intro x h1 h2; omega
  case f4lo => exact h.f4lo
  case f4hi => exact h.f4hi
  case g1h => exact h.g1h
  case g1c => exact h.g1c
  case g2a => exact h.g2a
  case g2b => exact h.g2b
  case g2c => exact h.g2c
  case g2d => exact h.g2d
  case g3 => exact h.g3
  case g4 => exact h.g4
  case g4h => exact h.g4h
  case g5 => exact h.g5
  case g6a => exact h.g6a
  case g6b => rw [hpe]; simp
  case g7 => exact h.g7
  case g8 => exact h.g8
  case g9 => exact h.g9
  case g10 => exact h.g10
  case g11 => exact h.g11
  case g12 => exact h.g12
  case g13 => exact h.g13
  case g14 => exact h.g14
  case nr => exact h.nr

theorem inv_pBegin2 (s : St) (h : Inv s) (j : Nat) (m : Msg)
    (hp : s.pRidx ≤ j) (hj : s.rHist[j]? = some m) (hpe : s.pending = []) (ps : Nat) (hps : j ≤ ps)
    (hge : ¬ s.pW < m.val) :
    Inv { s with pRidx := j, pSees := ps, kLap := m.lap, kVal := m.val, wrapP := false,
                 wp := s.pW, we := s.cap } := by
  have M := h.p4 j m hp hj
  have hlap : m.lap = s.hl := by gr [M, h.geo, hge]
  constructor <;> dsimp only [St.start] <;> (try simp only [Bool.false_eq_true, if_false])
  case a1p => exact h.a1p
  case a1c => exact h.a1c
  case a2p => exact getElem?_lt_length _ _ _ hj
  case a2c => exact h.a2c
  case a3p => exact hps
  case a3c => exact h.a3c
  case a4 => exact h.a4
  case a5 => exact h.a5
  case a7d => exact h.a7d
  case a7w => exact h.a7w
  case a7r => exact h.a7r
  case a7e => exact Nat.le_refl _
  case a7p => exact h.a7p
  case a8 => exact h.a8
  case a9 => exact h.a9
  case a10 => exact h.a10
  case p1 => exact M.2
  case p2 => exact h.p2
  case p3 => exact h.p3
  case p4 => intro j' mj' hp' hj'; exact ⟨h.p5 j j' m mj' hp hp' hj hj', (h.p4 j' mj' (by omega) hj').2⟩
  case p5 => intro j1 j2 m1 m2 h1 h12 hj1 hj2; exact h.p5 j1 j2 m1 m2 (by omega) h12 hj1 hj2
  case p6 => exact h.p6
  case p7 => exact h.p7
  case b1 => om [hlap]
  case b2 => intro _; omega
  case b3 => exact h.b3
  case b4 => exact h.b4
  case b5 => exact h.b5
  case c1 => intro hf; cases hf
  case c2 => intro _; om [h.a7p]
  case d1 => intro hx; omega
  case d2 => exact h.d2
  case d3 => exact h.d3
  case d4 => intro j' mj' hp' hj' hlt'; exact h.d4 j' mj' (by omega) hj' hlt'
  case d5 => exact h.d5
  case f1 => intro x j' mj' hp' hj' hl; exact h.f1 x j' mj' (by omega) hj' hl
  case f1' => exact h.f1'
  case f2 => exact h.f2
  case f2h => exact h.f2h
  case f3 => intro x h1 h2; omega
  case f4lo => exact h.f4lo
  case f4hi => exact h.f4hi
  case g1h => exact h.g1h
  case g1c => exact h.g1c
  case g2a => exact h.g2a
  case g2b => exact h.g2b
  case g2c => exact h.g2c
  case g2d => exact h.g2d
  case g3 => exact h.g3
  case g4 => exact h.g4
  case g4h => exact h.g4h
  case g5 => exact h.g5
  case g6a => exact h.g6a
  case g6b => rw [hpe]; simp
  case g7 => exact h.g7
  case g8 => exact h.g8
  case g9 => exact h.g9
  case g10 => exact h.g10
  case g11 => exact h.g11
  case g12 => exact h.g12
  case g13 => exact h.g13
  case g14 => exact h.g14
  case nr => exact h.nr

theorem inv_pBegin3 (s : St) (h : Inv s) (j : Nat) (m : Msg)
    (hp : s.pRidx ≤ j) (hj : s.rHist[j]? = some m) (hpe : s.pending = []) (ps : Nat) (hps : j ≤ ps)
    (hge : ¬ s.pW < m.val) (hbig : ¬ m.val + s.pW ≤ s.cap + 1) :
    Inv { s with pRidx := j, pSees := ps, kLap := m.lap, kVal := m.val, wrapP := true,
                 E := s.pW, eWEp := s.pEpoch, wp := 0, we := m.val - 1 } := by
  have M := h.p4 j m hp hj
  have hlap : m.lap = s.hl ∧ s.cLap = s.hl ∧ s.rdLap = s.hl := by gr [M, h.geo, hge]
  constructor <;> dsimp only [St.start] <;> (try simp only [if_true])
  case a1p => exact h.a1p
  case a1c => exact h.a1c
  case a2p => exact getElem?_lt_length _ _ _ hj
  case a2c => exact h.a2c
  case a3p => exact hps
  case a3c => exact h.a3c
  case a4 => exact h.a4
  case a5 => exact h.a5
  case a7d => exact h.a7d
  case a7w => exact h.a7w
  case a7r => exact h.a7r
  case a7e => om [hge, h.a7p]
  case a7p => exact h.a7p
  case a8 => exact h.a8
  case a9 => exact h.a9
  case a10 => exact h.a10
  case p1 => exact M.2
  case p2 => exact h.p2
  case p3 => exact h.p3
  case p4 => intro j' mj' hp' hj'; exact ⟨h.p5 j j' m mj' hp hp' hj hj', (h.p4 j' mj' (by omega) hj').2⟩
  case p5 => intro j1 j2 m1 m2 h1 h12 hj1 hj2; exact h.p5 j1 j2 m1 m2 (by omega) h12 hj1 hj2
  case p6 => exact h.p6
  case p7 => exact h.p7
  case b1 => om [hlap]
  case b2 => intro _; omega
  case b3 => intro _; omega
  case b4 => intro _; omega
  case b5 => intro i mi hc hi hl; gr [h.p6 i mi hc hi, hlap]
  case c1 => intro _; exact ⟨by omega, by om [hge, hbig, h.a7p], trivial, by omega⟩
  case c2 => intro hf; cases hf
  case d1 => intro _; omega
  case d2 => exact Nat.le_refl _
  case d3 => intro i mi hc hi hl; gr [h.p6 i mi hc hi, hlap]
  case d4 => intro j' mj' hp' hj' hlt'; exact h.d4 j' mj' (by omega) hj' hlt'
  case d5 => exact h.d5
  case f1 => intro x j' mj' hp' hj' hl; gr [h.f1 x j' mj' (by omega) hj' hl, h.p5 j j' m mj' hp hp' hj hj', (h.p4 j' mj' (by omega) hj').2, hlap]
  case f1' => exact h.f1'
  case f2 => intro x i mi hc hi hb; gr [h.f2 x i mi hc hi, h.p6 i mi hc hi, hlap]
  case f2h => intro x hb; gr [h.f2h x, hlap]
  case f3 => intro x h1 h2; omega
  case f4lo => intro x h1; omega
  case f4hi => exact h.f4hi
  case g1h => exact h.g1h
  case g1c => exact h.g1c
  case g2a => exact h.g2a
  case g2b => intro _; omega
  case g2c => exact h.g2c
  case g2d => exact h.g2d
  case g3 => exact h.g3
  case g4 => exact h.g4
  case g4h => exact h.g4h
  case g5 => exact h.g5
  case g6a => exact h.g6a
  case g6b => rw [hpe]; simp
  case g7 => exact h.g7
  case g8 => exact h.g8
  case g9 => exact h.g9
  case g10 => exact h.g10
  case g11 => exact h.g11
  case g12 => exact h.g12
  case g13 => exact h.g13
  case g14 => exact h.g14
  case nr => exact h.nr

theorem inv_pBegin (o : Orders) (ho : o.Sufficient) (s s' : St) (h : Inv s) (n j : Nat)
    (e : step o s (Op.pBegin n j) = some s') : Inv s' := by
  obtain ⟨-, -, -, ho4⟩ := ho
  simp only [step, ho4, if_true] at e
  split at e
  · simp only [Option.some.injEq] at e; subst e; exact h
  split at e
  · cases e
  rename_i hpe
  have hpe : s.pending = [] := by simpa using hpe
  split at e
  · cases e
  rename_i hp
  have hp : s.pRidx ≤ j := by omega
  split at e
  · cases e
  rename_i m hj
  have hps : j ≤ max s.pSees m.pub := by have := h.a5 j m hj; omega
  try dsimp only at e
  split at e
  · rename_i hlt
    simp only [Option.some.injEq] at e; subst e
    exact inv_pBegin1 s h j m hp hj hpe _ hps hlt
  rename_i hge
  split at e
  · simp only [Option.some.injEq] at e; subst e
    exact inv_pBegin2 s h j m hp hj hpe _ hps hge
  rename_i hbig
  have hnr : ¬ (s.eREp > max s.pSees m.pub) := by
    intro hgt
    have M := h.p4 j m hp hj
    have := h.d4 j m hp hj (by omega)
    gr [M, h.geo, hge]
  simp only [hnr, if_false, Option.some.injEq] at e; subst e
  exact inv_pBegin3 s h j m hp hj hpe _ hps hge hbig


theorem inv_pWrite (o : Orders) (s s' : St) (h : Inv s) (k : Nat)
    (e : step o s (Op.pWrite k) = some s') : Inv s' := by
  simp only [step] at e
  split at e
  · cases e
  rename_i hk
  have hnr : ∀ y, s.wp ≤ y → y < s.wp + k → s.rEp.getD y 0 ≤ s.pSees := by
    intro y h1 h2
    have := h.window_rEp y h1 (by omega)
    om [h.a3p]
  obtain ⟨d, w, e1, hdl, hwl, hdv, hwv⟩ := writeCells_spec k s s.wp hnr
  simp only [e1, Option.some.injEq] at e
  subst e
  clear e1 hnr
  constructor <;> dsimp only [St.start]
  case a1p => exact h.a1p
  case a1c => exact h.a1c
  case a2p => exact h.a2p
  case a2c => exact h.a2c
  case a3p => exact h.a3p
  case a3c => exact h.a3c
  case a4 => exact h.a4
  case a5 => exact h.a5
  case a7d => rw [hdl]; exact h.a7d
  case a7w => rw [hwl]; exact h.a7w
  case a7r => exact h.a7r
  case a7e => exact h.a7e
  case a7p => exact h.a7p
  case a8 => exact h.a8
  case a9 => exact h.a9
  case a10 => exact h.a10
  case p1 => exact h.p1
  case p2 => exact h.p2
  case p3 => exact h.p3
  case p4 => exact h.p4
  case p5 => exact h.p5
  case p6 => exact h.p6
  case p7 => exact h.p7
  case b1 => exact h.b1
  case b2 => exact h.b2
  case b3 => exact h.b3
  case b4 => exact h.b4
  case b5 => exact h.b5
  case c1 => intro hw; om [h.c1 hw]
  case c2 => intro hw; om [h.c2 hw]
  case d1 => exact h.d1
  case d2 => exact h.d2
  case d3 => exact h.d3
  case d4 => exact h.d4
  case d5 => exact h.d5
  case f1 => exact h.f1
  case f1' => exact h.f1'
  case f2 =>
    intro x i mi hc hi hb
    rw [hwv x]
    split
    · rename_i hx
      exfalso
      exact h.window x (by omega) (by omega) (by gr [h.p6 i mi hc hi, h.b5 i mi hc hi, h.geo, hb])
    · exact h.f2 x i mi hc hi hb
  case f2h =>
    intro x hb
    rw [hwv x]
    split
    · rename_i hx
      exfalso
      exact h.window x (by omega) (by omega) (by gr [h.geo, hb])
    · exact h.f2h x hb
  case f3 =>
    have hS : (if s.wrapP = true then 0 else s.pW) = s.start := rfl
    simp only [hS]
    intro x h1 h2
    rw [hwv x, hdv x]
    have hlen : s.pending.length = s.wp - s.start := by rw [h.g6b]; simp
    have hst : s.start ≤ s.wp := h.start_le
    by_cases hx : s.wp ≤ x
    · rw [if_pos (by om [h.a7w, h.a7e]), if_pos (by om [h.a7d, h.a7e])]
      exact ⟨rfl, by om [h.g6a]⟩
    · rw [if_neg (by omega), if_neg (by omega)]
      exact h.f3 x h1 (by omega)
  case f4lo =>
    intro x h1 h2 h3
    rw [hdv x]
    split
    · rename_i hx
      exfalso
      exact h.window x (by omega) (by omega) (by gr [h.geo])
    · exact h.f4lo x h1 h2 h3
  case f4hi =>
    intro x hx'
    rw [hdv x]
    split
    · rename_i hx
      exfalso
      exact h.window x (by omega) (by omega) (by gr [h.geo, hx'])
    · exact h.f4hi x hx'
  case g1h => exact h.g1h
  case g1c => exact h.g1c
  case g2a => exact h.g2a
  case g2b => exact h.g2b
  case g2c => exact h.g2c
  case g2d => exact h.g2d
  case g3 => exact h.g3
  case g4 => exact h.g4
  case g4h => exact h.g4h
  case g5 => exact h.g5
  case g6a => simp only [List.length_append, List.length_range']; om [h.g6a]
  case g6b =>
    have hS : (if s.wrapP = true then 0 else s.pW) = s.start := rfl
    simp only [hS]
    have hlen : s.pending.length = s.wp - s.start := by rw [h.g6b]; simp
    have hst : s.start ≤ s.wp := h.start_le
    have e2 : s.nextTok = s.hBase + s.pW + (s.wp - s.start) := by om [h.g6a]
    rw [e2]
    conv => lhs; rw [h.g6b]
    rw [range'_append_range']
    congr 1; omega
  case g7 => exact h.g7
  case g8 => exact h.g8
  case g9 => exact h.g9
  case g10 => exact h.g10
  case g11 => exact h.g11
  case g12 => exact h.g12
  case g13 => exact h.g13
  case g14 => exact h.g14
  case nr => exact h.nr


end BinlogVerif.Q
