import BinlogVerif.Lemmas.VisitRenderPP
import BinlogVerif.Lemmas.StrBytes
/-
  The structs `PrettyPrinter::printStruct` prints specially (binlog's own adapters), as far as their names are
  `NameOk` (no template-id names: durations are outside the universe of the C06/C07 proofs): `binlog::address`,
  `std::filesystem::path`, `std::filesystem::directory_entry`, `std::error_code`.  (`system_clock::time_point` needs the
  clock sync and is not covered.)

  * `specialShape n fs` — the struct is exactly one of those adapters;
  * `declines n tag` — a Bool mirror of `printStruct`'s tests: it declines the struct;
  * `specialOk t` — every struct of the type is one or the other: then the pretty printer's behaviour is determined
    by the type alone, and what it prints is `renderPP` (Mser/Spec.lean).
-/
namespace BinlogVerif.Mser
open BinlogVerif BinlogVerif.Tag BinlogVerif.Visit BinlogVerif.Pretty

def nAddress : Bytes := strBytes "binlog::address"
def nPath : Bytes := strBytes "std::filesystem::path"
def nDirent : Bytes := strBytes "std::filesystem::directory_entry"
def nErrorCode : Bytes := strBytes "std::error_code"
def nTimePoint : Bytes := strBytes "std::chrono::system_clock::time_point"

def specialShape (n : Bytes) (fs : List (Bytes × Ty)) : Bool :=
  match fs with
  | [(f, .arith c)] => n == nAddress && f == strBytes "value" && c == 76
  | [(f, .seq (.arith c))] => c == 99 && ((n == nPath && f == strBytes "str") || (n == nErrorCode && f == strBytes "message"))
  | [(f, .struct pn [(g, .seq (.arith c))])] => c == 99 && n == nDirent && f == strBytes "path" && pn == nPath && g == strBytes "str"
  | _ => false

/-- `printStruct` declines: none of its tests on (name, tag) succeeds -/
def declines (n tag : Bytes) : Bool :=
  !(n == nAddress && tag == strBytes "`value'L")
  && !(n == nTimePoint && tag == strBytes "`ns'l")
  && !((durationSuffix n).isSome && (tag == strBytes "`count'l" || tag == strBytes "`count'i"))
  && !((n == nPath && tag == strBytes "`str'[c")
       || (n == nDirent && tag == strBytes "`path'{std::filesystem::path`str'[c}")
       || (n == nErrorCode && tag == strBytes "`message'[c"))

mutual
def specialOk : Ty → Bool
  | .arith _ => true
  | .seq e => specialOk e
  | .tup es => specialOkList es
  | .var alts => specialOkList alts
  | .null => true
  | .enum _ _ _ => true
  | .struct n fs => specialShape n fs || (declines n (tagFields fs) && specialOkFields fs)
def specialOkList : List Ty → Bool
  | [] => true
  | t :: ts => specialOk t && specialOkList ts
def specialOkFields : List (Bytes × Ty) → Bool
  | [] => true
  | (_, t) :: fs => specialOk t && specialOkFields fs
end

theorem durationSuffix_eq (n : Bytes) :
    durationSuffix n =
      (if startsWith n (strBytes "std::chrono::duration<Rep,") then
        if endsWith n (strBytes "std::nano>") then some (strBytes "ns")
        else if endsWith n (strBytes "std::micro>") then some (strBytes "us")
        else if endsWith n (strBytes "std::milli>") then some (strBytes "ms")
        else if endsWith n (strBytes "std::ratio<1>>") then some (strBytes "s")
        else if endsWith n (strBytes "std::ratio<60>>") then some (strBytes "m")
        else if endsWith n (strBytes "std::ratio<3600>>") then some (strBytes "h")
        else none
      else none) := rfl

theorem printStruct_declines (p : TimePrinter) (n tag input : Bytes) (h : declines n tag = true) :
    printStruct p n tag input = .ok none := by
  simp only [declines, nAddress, nTimePoint, nPath, nDirent, nErrorCode, Bool.and_eq_true, Bool.not_eq_true',
    Bool.and_eq_false_iff, Bool.or_eq_false_iff, beq_eq_false_iff_ne, ne_eq,
    Option.isSome_eq_false_iff, Option.isNone_iff_eq_none] at h
  obtain ⟨⟨⟨h1, h2⟩, h3⟩, ⟨h4, h5⟩, h6⟩ := h
  have e1 : ¬ (n = strBytes "binlog::address" ∧ tag = strBytes "`value'L") := by
    intro ⟨a, b⟩; rcases h1 with h | h <;> exact h (by assumption)
  have e2 : ¬ (n = strBytes "std::chrono::system_clock::time_point" ∧ tag = strBytes "`ns'l") := by
    intro ⟨a, b⟩; rcases h2 with h | h <;> exact h (by assumption)
  have e4 : ¬ ((n = strBytes "std::filesystem::path" ∧ tag = strBytes "`str'[c")
      ∨ (n = strBytes "std::filesystem::directory_entry" ∧ tag = strBytes "`path'{std::filesystem::path`str'[c}")
      ∨ (n = strBytes "std::error_code" ∧ tag = strBytes "`message'[c")) := by
    rintro (⟨a, b⟩ | ⟨a, b⟩ | ⟨a, b⟩)
    · rcases h4 with h | h <;> exact h (by assumption)
    · rcases h5 with h | h <;> exact h (by assumption)
    · rcases h6 with h | h <;> exact h (by assumption)
  unfold printStruct
  rw [if_neg e1, if_neg e2]
  simp only [← durationSuffix_eq]
  rcases h3 with h | ⟨ha, hb⟩
  · simp only [h, if_neg e4]
  · cases hd : durationSuffix n with
    | none => simp only [if_neg e4]
    | some suf => simp only [if_neg ha, if_neg hb, if_neg e4]

theorem charsOf_eq (vs : List Val) : charsOf vs = vs.map charOf := by
  induction vs with
  | nil => rfl
  | cons v vs ih => cases v <;> simp [charsOf, charOf] at ih ⊢ <;> exact ih

theorem specialShape_cases (n : Bytes) (fs : List (Bytes × Ty)) (h : specialShape n fs = true) :
    (∃ f c, fs = [(f, .arith c)]) ∨ (∃ f c, fs = [(f, .seq (.arith c))]) ∨
    (∃ f pn g c, fs = [(f, .struct pn [(g, .seq (.arith c))])]) := by
  unfold specialShape at h
  split at h
  · exact Or.inl ⟨_, _, rfl⟩
  · exact Or.inr (Or.inl ⟨_, _, rfl⟩)
  · exact Or.inr (Or.inr ⟨_, _, _, _, rfl⟩)
  · cases h

/-- a special adapter struct: `printStruct` handles it and prints exactly what `specialStruct` (the documented
    rendering) says, consuming exactly the struct's bytes -/
theorem special_handled (p : TimePrinter) (n : Bytes) (fs : List (Bytes × Ty)) (vs : List Val) (rest : Bytes)
    (hs : specialShape n fs = true) (hv : hasTyFields fs vs = true) :
    ∃ b, specialStruct n fs vs = some b ∧
      printStruct p n (tagFields fs) (encodeFields fs vs ++ rest) = .ok (some (b, rest)) := by
  match fs with
  | [(f, .arith c)] =>
    match vs with
    | [.num raw] =>
      simp only [specialShape, Bool.and_eq_true, beq_iff_eq] at hs
      obtain ⟨⟨rfl, rfl⟩, rfl⟩ := hs
      simp only [hasTyFields, hasTy, Bool.and_true] at hv
      have hsz : arithSize 76 = some 8 := by decide
      rw [hsz] at hv
      simp only [decide_eq_true_eq] at hv
      have htag : tagFields [(strBytes "value", Ty.arith 76)] = strBytes "`value'L" := by
        simp only [tagFields, tag, strBytes_eq]; decide
      refine ⟨strBytes "0x" ++ hexDigitsUpper raw, ?_, ?_⟩
      · simp [specialStruct, nAddress]
      · rw [htag]
        unfold printStruct
        simp only [nAddress, and_self, if_true, encodeFields, encode, hsz, Option.getD_some, List.append_nil]
        rw [readU_le_append 8 raw rest hv]
    | [] | [.seq _] | [.tup _] | [.alt _ _] | [.nul] | _ :: _ :: _ => simp [hasTyFields, hasTy] at hv
  | [(f, .seq (.arith c))] =>
    match vs with
    | [.seq cs] =>
      simp only [specialShape, Bool.and_eq_true, beq_iff_eq, Bool.or_eq_true] at hs
      obtain ⟨rfl, hs⟩ := hs
      simp only [hasTyFields, hasTy, Bool.and_true, Bool.and_eq_true, decide_eq_true_eq] at hv
      have henc := encodeAll_char cs hv.1
      refine ⟨charsOf cs, ?_, ?_⟩
      · rcases hs with ⟨rfl, rfl⟩ | ⟨rfl, rfl⟩ <;> simp [specialStruct, nPath, nErrorCode]
      · have hlen : cs.length < 256 ^ 4 := by simpa using hv.2
        have e1 : encodeFields [(f, Ty.seq (Ty.arith 99))] [Val.seq cs] ++ rest
            = le 4 cs.length ++ (cs.map charOf ++ rest) := by
          simp only [encodeFields, encode, henc, List.append_nil, List.append_assoc]
        rw [e1]
        rcases hs with ⟨rfl, rfl⟩ | ⟨rfl, rfl⟩
        · have htag : tagFields [(strBytes "str", Ty.seq (Ty.arith 99))] = strBytes "`str'[c" := by
            simp only [tagFields, tag, strBytes_eq]; decide
          rw [htag]
          have d1 : ¬ (nPath = strBytes "binlog::address" ∧ strBytes "`str'[c" = strBytes "`value'L") := by
            simp only [nPath, strBytes_eq]; decide
          have d2 : ¬ (nPath = strBytes "std::chrono::system_clock::time_point" ∧ strBytes "`str'[c" = strBytes "`ns'l") := by
            simp only [nPath, strBytes_eq]; decide
          have d3 : durationSuffix nPath = none := by
            simp only [durationSuffix, startsWith, nPath, strBytes_eq]; decide
          unfold printStruct
          rw [if_neg d1, if_neg d2]
          simp only [← durationSuffix_eq, d3]
          simp only [nPath, and_self, true_or, if_true]
          rw [readU_le_append 4 cs.length _ hlen]
          simp only [takeN_append cs.length (cs.map charOf) rest (by simp), charsOf_eq]
        · have htag : tagFields [(strBytes "message", Ty.seq (Ty.arith 99))] = strBytes "`message'[c" := by
            simp only [tagFields, tag, strBytes_eq]; decide
          rw [htag]
          have d1 : ¬ (nErrorCode = strBytes "binlog::address" ∧ strBytes "`message'[c" = strBytes "`value'L") := by
            simp only [nErrorCode, strBytes_eq]; decide
          have d2 : ¬ (nErrorCode = strBytes "std::chrono::system_clock::time_point" ∧ strBytes "`message'[c" = strBytes "`ns'l") := by
            simp only [nErrorCode, strBytes_eq]; decide
          have d3 : durationSuffix nErrorCode = none := by
            simp only [durationSuffix, startsWith, nErrorCode, strBytes_eq]; decide
          unfold printStruct
          rw [if_neg d1, if_neg d2]
          simp only [← durationSuffix_eq, d3]
          simp only [nErrorCode, and_self, or_true, if_true]
          rw [readU_le_append 4 cs.length _ hlen]
          simp only [takeN_append cs.length (cs.map charOf) rest (by simp), charsOf_eq]
    | [] | [.num _] | [.tup _] | [.alt _ _] | [.nul] | _ :: _ :: _ => simp [hasTyFields, hasTy] at hv
  | [(f, .struct pn [(g, .seq (.arith c))])] =>
    match vs with
    | [.tup [.seq cs]] =>
      simp only [specialShape, Bool.and_eq_true, beq_iff_eq] at hs
      obtain ⟨⟨⟨⟨rfl, rfl⟩, rfl⟩, rfl⟩, rfl⟩ := hs
      simp only [hasTyFields, hasTy, Bool.and_true, Bool.and_eq_true, decide_eq_true_eq] at hv
      have henc := encodeAll_char cs hv.1
      have hlen : cs.length < 256 ^ 4 := by simpa using hv.2
      refine ⟨charsOf cs, by simp [specialStruct, nDirent, nPath], ?_⟩
      have e1 : encodeFields [(strBytes "path", Ty.struct nPath [(strBytes "str", Ty.seq (Ty.arith 99))])] [Val.tup [Val.seq cs]] ++ rest
          = le 4 cs.length ++ (cs.map charOf ++ rest) := by
        simp only [encodeFields, encode, henc, List.append_nil, List.append_assoc]
      rw [e1]
      have htag : tagFields [(strBytes "path", Ty.struct nPath [(strBytes "str", Ty.seq (Ty.arith 99))])]
          = strBytes "`path'{std::filesystem::path`str'[c}" := by
        simp only [tagFields, tag, nPath, strBytes_eq]; decide
      rw [htag]
      have d1 : ¬ (nDirent = strBytes "binlog::address" ∧ strBytes "`path'{std::filesystem::path`str'[c}" = strBytes "`value'L") := by
        simp only [nDirent, strBytes_eq]; decide
      have d2 : ¬ (nDirent = strBytes "std::chrono::system_clock::time_point" ∧ strBytes "`path'{std::filesystem::path`str'[c}" = strBytes "`ns'l") := by
        simp only [nDirent, strBytes_eq]; decide
      have d3 : durationSuffix nDirent = none := by
        simp only [durationSuffix, startsWith, nDirent, strBytes_eq]; decide
      unfold printStruct
      rw [if_neg d1, if_neg d2]
      simp only [← durationSuffix_eq, d3]
      simp only [nDirent, and_self, or_true, true_or, if_true]
      rw [readU_le_append 4 cs.length _ hlen]
      simp only [takeN_append cs.length (cs.map charOf) rest (by simp), charsOf_eq]
    | [] | [.num _] | [.seq _] | [.alt _ _] | [.nul] | _ :: _ :: _ => simp [hasTyFields, hasTy] at hv
    | [.tup []] | [.tup [.num _]] | [.tup [.tup _]] | [.tup [.alt _ _]] | [.tup [.nul]] | [.tup (_ :: _ :: _)] =>
      simp [hasTyFields, hasTy] at hv
  | [] | (_, .null) :: _ | (_, .tup _) :: _ | (_, .var _) :: _ | (_, .enum _ _ _) :: _ | _ :: _ :: _
  | [(_, .seq (.seq _))] | [(_, .seq (.tup _))] | [(_, .seq (.var _))] | [(_, .seq .null)] | [(_, .seq (.enum _ _ _))] | [(_, .seq (.struct _ _))]
  | [(_, .struct _ [])] | [(_, .struct _ (_ :: _ :: _))]
  | [(_, .struct _ [(_, .arith _)])] | [(_, .struct _ [(_, .tup _)])] | [(_, .struct _ [(_, .var _)])] | [(_, .struct _ [(_, .null)])]
  | [(_, .struct _ [(_, .enum _ _ _)])] | [(_, .struct _ [(_, .struct _ _)])]
  | [(_, .struct _ [(_, .seq (.seq _))])] | [(_, .struct _ [(_, .seq (.tup _))])] | [(_, .struct _ [(_, .seq (.var _))])]
  | [(_, .struct _ [(_, .seq .null)])] | [(_, .struct _ [(_, .seq (.enum _ _ _))])] | [(_, .struct _ [(_, .seq (.struct _ _))])] =>
    simp [specialShape] at hs

/-- a struct that is not one of the adapter shapes and that `printStruct` declines has no special rendering -/
theorem special_none (n : Bytes) (fs : List (Bytes × Ty)) (vs : List Val)
    (hs : specialShape n fs = false) (hd : declines n (tagFields fs) = true) : specialStruct n fs vs = none := by
  unfold specialStruct
  split
  · rename_i f c raw
    have hs' : ¬ (n = nAddress ∧ f = strBytes "value" ∧ c = 76) := by
      intro ⟨a, b, d⟩
      simp [specialShape, a, b, d] at hs
    have hA : ¬ (n = strBytes "binlog::address" ∧ f = strBytes "value" ∧ c = 76) := by simpa [nAddress] using hs'
    rw [if_neg hA]
    cases hdur : durationSuffix n with
    | none => rfl
    | some suf =>
      simp only
      have hd' := hd
      simp only [declines, hdur, Option.isSome_some, Bool.true_and, Bool.and_eq_true, Bool.not_eq_true',
        Bool.or_eq_false_iff, beq_eq_false_iff_ne, ne_eq] at hd'
      obtain ⟨⟨_, hl, hi⟩, _⟩ := hd'
      have t1 : ¬ (f = strBytes "count" ∧ c = 108) := by
        intro ⟨a, b⟩; subst a; subst b
        exact hl (by simp only [tagFields, tag, strBytes_eq]; decide)
      have t2 : ¬ (f = strBytes "count" ∧ c = 105) := by
        intro ⟨a, b⟩; subst a; subst b
        exact hi (by simp only [tagFields, tag, strBytes_eq]; decide)
      rw [if_neg t1, if_neg t2]
  · rename_i f cs
    have h : ¬ ((n = strBytes "std::filesystem::path" ∧ f = strBytes "str") ∨ (n = strBytes "std::error_code" ∧ f = strBytes "message")) := by
      intro h
      rcases h with ⟨a, b⟩ | ⟨a, b⟩ <;> simp [specialShape, nPath, nErrorCode, a, b] at hs
    rw [if_neg h]
  · rename_i f pn g cs
    have h : ¬ (n = strBytes "std::filesystem::directory_entry" ∧ f = strBytes "path" ∧ pn = strBytes "std::filesystem::path" ∧ g = strBytes "str") := by
      intro ⟨a, b, c, d⟩
      simp [specialShape, nDirent, nPath, a, b, c, d] at hs
    rw [if_neg h]
  · rfl

end BinlogVerif.Mser
