import BinlogVerif.Lemmas.ImageInert
/-
  Lemmas for C08 when the image also contains junk magic numbers behind which the tool ACCEPTS an
  empty buffer (`InertE`): the scan returns the expected buffers interleaved with empty ones, and
  the output of `recover` is unchanged (the stable sort commutes with dropping the empty buffers).
-/
namespace BinlogVerif.Image
open BinlogVerif BinlogVerif.Recovery

theorem inertE_drop {f rest : Bytes} (h : InertE f rest) (k : Nat) : InertE (f.drop k) rest := by
  induction k generalizing f with
  | zero => exact h
  | succ k ih =>
    cases f with
    | nil => exact h
    | cons b f => exact ih (f := f) h.2

def nonEmptyBuf (b : Recovered) : Bool := !b.buffer.isEmpty

theorem filter_nonEmpty_of_all_empty (J : List Recovered) (h : ∀ b ∈ J, b.buffer = []) :
    J.filter nonEmptyBuf = [] := by
  rw [List.filter_eq_nil_iff]
  intro b hb
  simp [nonEmptyBuf, h b hb]

/-- a region with rejected and accepted-but-empty junk in front of a described run -/
theorem exp_inertE_append (f rest : Bytes) (out : List Recovered) (hf : InertE f rest) (h : Exp rest out) :
    ∃ J, (∀ b ∈ J, b.buffer = []) ∧ Exp (f ++ rest) (J ++ out) := by
  obtain ⟨k, hk⟩ : ∃ k, f.length = k := ⟨_, rfl⟩
  induction k using Nat.strongRecOn generalizing f with
  | _ k ih =>
    cases f with
    | nil => exact ⟨[], by simp, h⟩
    | cons b f' =>
      obtain ⟨hat, hf'⟩ := hf
      have hlt : f'.length < k := by rw [← hk]; simp
      obtain ⟨J1, hJ1, hE1⟩ := ih f'.length hlt f' hf' rfl
      have hne : metadataMagic ≠ dataMagic := by decide
      -- the accepted-junk case, for either magic
      have hjump : ∀ n, 8 + n ≤ f'.length + 1 →
          ∃ J, (∀ b ∈ J, b.buffer = []) ∧ Exp (((b :: (f' ++ rest)).drop 8).drop n) (J ++ out) := by
        intro n hroom
        have hd : ((b :: (f' ++ rest)).drop 8).drop n = (b :: f').drop (8 + n) ++ rest := by
          rw [List.drop_drop, ← List.cons_append, List.drop_append_of_le_length (by simpa using hroom)]
        rw [hd]
        exact ih ((b :: f').drop (8 + n)).length (by rw [← hk]; simp; omega) _
          (inertE_drop (f := b :: f') ⟨hat, hf'⟩ _) rfl
      by_cases hm : (b :: (f' ++ rest)).take 8 = metadataMagic
      · cases hat.1 hm with
        | inl hnone =>
          exact ⟨J1, hJ1, Exp.step b _ _ ⟨fun _ => hnone, fun hd => absurd (hm.symm.trans hd) hne⟩ hE1⟩
        | inr hacc =>
          obtain ⟨bj, n, hb, hempty, hroom⟩ := hacc
          obtain ⟨J2, hJ2, hE2⟩ := hjump n hroom
          have hr : b :: (f' ++ rest) = metadataMagic ++ (b :: (f' ++ rest)).drop 8 := by
            rw [← hm]; exact (List.take_append_drop 8 _).symm
          refine ⟨bj :: J2, ?_, Exp.mblock _ _ bj n (J2 ++ out) hr hb hE2⟩
          intro x hx
          cases hx with
          | head => exact hempty
          | tail _ hx => exact hJ2 x hx
      · by_cases hd : (b :: (f' ++ rest)).take 8 = dataMagic
        · cases hat.2 hd with
          | inl hnone =>
            exact ⟨J1, hJ1, Exp.step b _ _ ⟨fun e => absurd e hm, fun _ => hnone⟩ hE1⟩
          | inr hacc =>
            obtain ⟨bj, n, hb, hempty, hroom⟩ := hacc
            obtain ⟨J2, hJ2, hE2⟩ := hjump n hroom
            have hr : b :: (f' ++ rest) = dataMagic ++ (b :: (f' ++ rest)).drop 8 := by
              rw [← hd]; exact (List.take_append_drop 8 _).symm
            refine ⟨bj :: J2, ?_, Exp.dblock _ _ bj n (J2 ++ out) hr hb hE2⟩
            intro x hx
            cases hx with
            | head => exact hempty
            | tail _ hx => exact hJ2 x hx
        · exact ⟨J1, hJ1, Exp.step b _ _ ⟨fun e => absurd e hm, fun e => absurd e hd⟩ hE1⟩

theorem exp_pieceE (p : Piece) (rest : Bytes) (out : List Recovered) (hp : p.OkE rest) (h : Exp rest out) :
    ∃ J, (∀ b ∈ J, b.buffer = []) ∧ Exp (p.bytes ++ rest) (p.recovered.toList ++ (J ++ out)) := by
  cases p with
  | metaOn s es extra =>
    obtain ⟨hs, hl, hok, hextra⟩ := hp
    obtain ⟨J, hJ, hE⟩ := exp_inertE_append _ _ _ hextra h
    refine ⟨J, hJ, Exp.mblock _ _ ⟨.metadata, s, frames es⟩ _ (J ++ out) (metaOn_bytes_append s es extra rest)
      (readMetadata_block s es _ hs hl hok) ?_⟩
    rw [drop_metaBody s _ _ _ rfl]
    exact hE
  | chan s c =>
    simp only [Piece.OkE] at hp
    by_cases hm : c.magicOn = true
    · rw [if_pos hm] at hp
      obtain ⟨hs, hcap, hlen, hw, he, hr, hread, hok⟩ := hp
      have hrec : (Piece.chan s c).recovered.toList = [⟨.data, s, frames c.pending⟩] := by
        simp [Piece.recovered, hm]
      rw [hrec]
      refine ⟨[], by simp, Exp.dblock _ _ ⟨.data, s, frames c.pending⟩ (48 + c.cap) ([] ++ out)
        (chanOn_bytes_append s c rest hm)
        (readData_block s c.w c.e c.cap c.ptr c.r c.buf rest c.pending hs hcap hlen hw he hr hread hok) ?_⟩
      have hd : List.drop (48 + c.cap) (le 8 s ++ (le 8 c.w ++ (le 8 c.e ++ (le 8 c.cap ++ (le 8 c.ptr ++ (le 8 c.r ++ (c.buf ++ rest)))))))
          = rest := by
        have l8 : ∀ v, (le 8 v).length = 8 := fun v => le_length 8 v
        rw [show 48 + c.cap = 8 + (8 + (8 + (8 + (8 + (8 + c.cap))))) by omega]
        repeat rw [drop_add_left _ _ 8 _ (l8 _)]
        exact List.drop_left' hlen
      rw [hd]
      exact h
    · rw [if_neg hm] at hp
      have hrec : (Piece.chan s c).recovered.toList = [] := by simp [Piece.recovered, hm]
      rw [hrec]
      exact exp_inertE_append _ _ _ hp h
  | off bs => exact exp_inertE_append _ _ _ hp h

/-- the run of the scan over an image with junk: the expected buffers, interleaved with empty ones -/
theorem exp_of_imageOkE (img : List (Bytes × Piece)) (t : Bytes) (h : ImageOkE img t) :
    ∃ out, Exp (flat img t) out ∧ out.filter nonEmptyBuf = (expected img).filter nonEmptyBuf := by
  induction img with
  | nil =>
    obtain ⟨J, hJ, hE⟩ := exp_inertE_append t [] [] h Exp.nil
    rw [List.append_nil] at hE
    exact ⟨J ++ [], hE, by simp [filter_nonEmpty_of_all_empty J hJ, expected]⟩
  | cons x rest ih =>
    obtain ⟨f, p⟩ := x
    have h' : InertE f (p.bytes ++ flat rest t) ∧ p.OkE (flat rest t) ∧ ImageOkE rest t := h
    obtain ⟨h1, h2, h3⟩ := h'
    obtain ⟨out, hE, hfil⟩ := ih h3
    obtain ⟨J2, hJ2, hE2⟩ := exp_pieceE p _ _ h2 hE
    obtain ⟨J1, hJ1, hE1⟩ := exp_inertE_append _ _ _ h1 hE2
    have e1 : flat ((f, p) :: rest) t = f ++ (p.bytes ++ flat rest t) := by simp [flat, List.append_assoc]
    have e2 : expected ((f, p) :: rest) = p.recovered.toList ++ expected rest := by
      simp only [expected, List.filterMap_cons]
      cases p.recovered <;> rfl
    refine ⟨J1 ++ (p.recovered.toList ++ (J2 ++ out)), by rw [e1]; exact hE1, ?_⟩
    rw [e2]
    simp only [List.filter_append, filter_nonEmpty_of_all_empty J1 hJ1, filter_nonEmpty_of_all_empty J2 hJ2, hfil,
      List.nil_append]

/-! ### the stable sort commutes with filtering -/

theorem split_by_pred {α} (q : α → Bool) (x1 x2 y1 y2 : List α) (h : x1 ++ x2 = y1 ++ y2)
    (hx1 : ∀ a ∈ x1, q a = true) (hx2 : ∀ a ∈ x2, q a = false)
    (hy1 : ∀ a ∈ y1, q a = true) (hy2 : ∀ a ∈ y2, q a = false) : x1 = y1 ∧ x2 = y2 := by
  have f1 : ∀ (u v : List α), (∀ a ∈ u, q a = true) → (∀ a ∈ v, q a = false) → (u ++ v).filter q = u := by
    intro u v hu hv
    rw [List.filter_append, List.filter_eq_self.mpr hu, List.filter_eq_nil_iff.mpr (fun a ha => by simp [hv a ha])]
    simp
  have f2 : ∀ (u v : List α), (∀ a ∈ u, q a = true) → (∀ a ∈ v, q a = false) →
      (u ++ v).filter (fun a => !q a) = v := by
    intro u v hu hv
    have a1 : u.filter (fun a => !q a) = [] := List.filter_eq_nil_iff.mpr (fun a ha => by simp [hu a ha])
    have a2 : v.filter (fun a => !q a) = v := List.filter_eq_self.mpr (fun a ha => by simp [hv a ha])
    rw [List.filter_append, a1, a2]
    rfl
  constructor
  · rw [← f1 x1 x2 hx1 hx2, h, f1 y1 y2 hy1 hy2]
  · rw [← f2 x1 x2 hx1 hx2, h, f2 y1 y2 hy1 hy2]

/-- **`mergeSort` is stable: it commutes with `filter`** (for a total, transitive order) -/
theorem mergeSort_filter {α} (le : α → α → Bool) (trans : ∀ a b c, le a b = true → le b c = true → le a c = true)
    (total : ∀ a b, (le a b || le b a) = true) (p : α → Bool) (l : List α) :
    (l.mergeSort le).filter p = (l.filter p).mergeSort le := by
  induction l with
  | nil => simp
  | cons a l ih =>
    obtain ⟨l1, l2, e1, e2, hl1⟩ := List.mergeSort_cons trans total a l
    by_cases hp : p a = true
    · have hpw := List.pairwise_mergeSort trans total (a :: l)
      rw [e1, List.pairwise_append] at hpw
      have hl2 : ∀ b ∈ l2, le a b = true := (List.pairwise_cons.mp hpw.2.1).1
      rw [List.filter_cons, if_pos hp]
      obtain ⟨m1, m2, g1, g2, hm1⟩ := List.mergeSort_cons trans total a (l.filter p)
      have hpw' := List.pairwise_mergeSort trans total (a :: l.filter p)
      rw [g1, List.pairwise_append] at hpw'
      have hm2 : ∀ b ∈ m2, le a b = true := (List.pairwise_cons.mp hpw'.2.1).1
      rw [e1, g1, List.filter_append, List.filter_cons, if_pos hp]
      rw [e2, List.filter_append, g2] at ih
      have := split_by_pred (fun b => !le a b) (l1.filter p) (l2.filter p) m1 m2 ih
        (fun b hb => hl1 b (List.mem_filter.mp hb).1)
        (fun b hb => by simp [hl2 b (List.mem_filter.mp hb).1])
        hm1 (fun b hb => by simp [hm2 b hb])
      rw [this.1, this.2]
    · rw [List.filter_cons, if_neg hp, e1, List.filter_append, List.filter_cons, if_neg hp, ← List.filter_append,
        ← e2, ih]

theorem flatten_map_filter_nonEmpty (l : List Recovered) :
    ((l.filter nonEmptyBuf).map (·.buffer)).flatten = (l.map (·.buffer)).flatten := by
  induction l with
  | nil => rfl
  | cons b l ih =>
    rw [List.filter_cons]
    cases hb : b.buffer with
    | nil => simp [nonEmptyBuf, hb, ih]
    | cons x xs => simp [nonEmptyBuf, hb, ih]

/-- the output of the sort-and-write step depends only on the non-empty buffers -/
theorem sorted_output_congr (l l' : List Recovered) (h : l.filter nonEmptyBuf = l'.filter nonEmptyBuf) :
    ((l.mergeSort bufLe).map (·.buffer)).flatten = ((l'.mergeSort bufLe).map (·.buffer)).flatten := by
  rw [← flatten_map_filter_nonEmpty (l.mergeSort bufLe), ← flatten_map_filter_nonEmpty (l'.mergeSort bufLe),
    mergeSort_filter bufLe bufLe_trans bufLe_total, mergeSort_filter bufLe bufLe_trans bufLe_total, h]

/-! ### a decision procedure for `InertE` (for concrete images) -/

def inertEAtB (r : Bytes) (room : Nat) : Bool :=
  (if r.take 8 = metadataMagic then
    (match readMetadata (r.drop 8) with
     | none => true
     | some (b, n) => b.buffer.isEmpty && decide (8 + n ≤ room)) else true) &&
  (if r.take 8 = dataMagic then
    (match readData (r.drop 8) with
     | .ok none => true
     | .ok (some (b, n)) => b.buffer.isEmpty && decide (8 + n ≤ room)
     | .error _ => false) else true)

def inertEB : Bytes → Bytes → Bool
  | [], _ => true
  | b :: f, rest => inertEAtB (b :: (f ++ rest)) (f.length + 1) && inertEB f rest

theorem inertEAt_of_B {r : Bytes} {room : Nat} (h : inertEAtB r room = true) : InertEAt r room := by
  unfold inertEAtB at h
  rw [Bool.and_eq_true] at h
  refine ⟨fun e => ?_, fun e => ?_⟩
  · have := h.1
    rw [if_pos e] at this
    split at this
    · exact .inl (by assumption)
    · rename_i b n hb
      rw [Bool.and_eq_true, decide_eq_true_eq] at this
      exact .inr ⟨b, n, hb, by simpa using this.1, this.2⟩
  · have := h.2
    rw [if_pos e] at this
    split at this
    · exact .inl (by assumption)
    · rename_i b n hb
      rw [Bool.and_eq_true, decide_eq_true_eq] at this
      exact .inr ⟨b, n, hb, by simpa using this.1, this.2⟩
    · cases this

theorem inertE_of_inertEB {f rest : Bytes} (h : inertEB f rest = true) : InertE f rest := by
  induction f with
  | nil => trivial
  | cons b f ih =>
    have h' : (inertEAtB (b :: (f ++ rest)) (f.length + 1) && inertEB f rest) = true := h
    rw [Bool.and_eq_true] at h'
    exact ⟨inertEAt_of_B h'.1, ih h'.2⟩

end BinlogVerif.Image
