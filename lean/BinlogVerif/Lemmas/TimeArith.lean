import BinlogVerif.Lemmas.TimeCivil
/-
  Machine-arithmetic lemmas for C17: `wrap64`/`wrap32` are the identity in range, truncating
  division by a positive literal, exactness of `clockToNs`, and the closed form of `brokenDown`.
-/
namespace BinlogVerif.Time

theorem wrap64_id (x : Int) (h0 : -9223372036854775808 ≤ x) (h1 : x < 9223372036854775808) :
    wrap64 x = x := by
  unfold wrap64; omega

theorem wrap64_range (x : Int) : -9223372036854775808 ≤ wrap64 x ∧ wrap64 x < 9223372036854775808 := by
  unfold wrap64; omega

theorem wrap32_id (x : Int) (h0 : -2147483648 ≤ x) (h1 : x < 2147483648) : wrap32 x = x := by
  unfold wrap32; omega

theorem wrap32_range (x : Int) : -2147483648 ≤ wrap32 x ∧ wrap32 x < 2147483648 := by
  unfold wrap32; omega

theorem toI32_range (n : Nat) : -2147483648 ≤ toI32 n ∧ toI32 n < 2147483648 := wrap32_range _

/-- C++ truncating division in terms of floor division -/
theorem tdiv_nonneg (a b : Int) (h : 0 ≤ a) : a.tdiv b = a / b := Int.tdiv_eq_ediv_of_nonneg h

theorem tdiv_neg (a b : Int) (h : a < 0) : a.tdiv b = -((-a) / b) := by
  have : a = -(-a) := by omega
  rw [this, Int.neg_tdiv, tdiv_nonneg (-a) b (by omega)]
  simp

theorem tmod_nonneg (a b : Int) (h : 0 ≤ a) : a.tmod b = a % b := Int.tmod_eq_emod_of_nonneg h

theorem tmod_neg (a b : Int) (h : a < 0) : a.tmod b = -((-a) % b) := by
  have : a = -(-a) := by omega
  rw [this, Int.neg_tmod, tmod_nonneg (-a) b (by omega)]
  simp

/-! ### clockToNs -/

/-- the split multiplication of `ticksToNanoseconds`/`clockToNsSinceEpoch` is exact -/
theorem muldiv_split (t f d : Nat) (hf : 0 < f) : (t / f) * d + (t % f) * d / f = t * d / f := by
  have h : t * d = f * ((t / f) * d) + (t % f) * d := by
    calc t * d = (f * (t / f) + t % f) * d := by rw [Nat.div_add_mod]
      _ = f * ((t / f) * d) + (t % f) * d := by rw [Nat.add_mul, Nat.mul_assoc]
  rw [h, Nat.mul_add_div hf]

/-- the unsigned part of `clockToNs`: no 64-bit wrap when the result fits in 63 bits -/
theorem ticks_to_ns (t f : Nat) (hf0 : 0 < f) (hf : f < 9200000000)
    (hQ : t * 1000000000 / f < 9223372036854775808) :
    ((t / f * 1000000000) % 18446744073709551616 +
      ((t % f * 1000000000) % 18446744073709551616) / f) % 18446744073709551616
      = t * 1000000000 / f := by
  have hs := muldiv_split t f 1000000000 hf0
  have hr : t % f < f := Nat.mod_lt _ hf0
  have h1 : t % f * 1000000000 < 18446744073709551616 := by omega
  have h2' : t / f * 1000000000 ≤ t * 1000000000 / f := by
    rw [← hs]; exact Nat.le_add_right _ _
  have h2 : t / f * 1000000000 < 18446744073709551616 :=
    Nat.lt_of_le_of_lt h2' (Nat.lt_trans hQ (by decide))
  rw [Nat.mod_eq_of_lt h1, Nat.mod_eq_of_lt h2, hs]
  exact Nat.mod_eq_of_lt (Nat.lt_trans hQ (by decide))

/-- `ticksToNanoseconds` is exact (floor) for a non-negative tick count whose result fits -/
theorem ticksToNs_nonneg (f t : Nat) (hf0 : 0 < f) (hf : f < 9200000000)
    (hQ : t * 1000000000 / f < 9223372036854775808) :
    ticksToNs f (t : Int) = ((t * 1000000000 / f : Nat) : Int) := by
  have hs := muldiv_split t f 1000000000 hf0
  have hr : t % f < f := Nat.mod_lt _ hf0
  have h2 : t / f * 1000000000 ≤ t * 1000000000 / f := by rw [← hs]; exact Nat.le_add_right _ _
  have h3 : t % f * 1000000000 / f ≤ t * 1000000000 / f := by rw [← hs]; exact Nat.le_add_left _ _
  have h4 : t / f ≤ t / f * 1000000000 := Nat.le_mul_of_pos_right _ (by decide)
  unfold ticksToNs
  simp only []
  rw [wrap64_id (f : Int) (by omega) (by omega)]
  have e1 : Int.tdiv (t : Int) (f : Int) = ((t / f : Nat) : Int) := rfl
  have e2 : Int.tmod (t : Int) (f : Int) = ((t % f : Nat) : Int) := rfl
  rw [e1, e2]
  generalize t / f = q at *
  generalize t % f = r at *
  rw [wrap64_id (q : Int) (by omega) (by omega)]
  have e3 : (q : Int) * 1000000000 = ((q * 1000000000 : Nat) : Int) := by omega
  have e4 : (r : Int) * 1000000000 = ((r * 1000000000 : Nat) : Int) := by omega
  rw [e3, e4, wrap64_id ((q * 1000000000 : Nat) : Int) (by omega) (by omega),
    wrap64_id ((r * 1000000000 : Nat) : Int) (by omega) (by omega)]
  have e5 : Int.tdiv ((r * 1000000000 : Nat) : Int) (f : Int) = ((r * 1000000000 / f : Nat) : Int) := rfl
  rw [e5, ← Int.natCast_add, hs]
  exact wrap64_id _ (by omega) (by omega)

theorem clockToNs_after (cs : ClockSync) (clock : Nat) (hle : cs.clockValue ≤ clock)
    (hc : clock < 18446744073709551616)
    (hf0 : 0 < cs.clockFrequency) (hf : cs.clockFrequency < 9200000000)
    (hQ : cs.nsSinceEpoch + (clock - cs.clockValue) * 1000000000 / cs.clockFrequency
            < 9223372036854775808) :
    clockToNs cs clock
      = ((cs.nsSinceEpoch + (clock - cs.clockValue) * 1000000000 / cs.clockFrequency : Nat) : Int) := by
  have ht : (clock - cs.clockValue) % 18446744073709551616 = clock - cs.clockValue :=
    Nat.mod_eq_of_lt (by omega)
  have hu := ticks_to_ns (clock - cs.clockValue) cs.clockFrequency hf0 hf (by omega)
  simp only [clockToNs, nsPerSec, ge_iff_le, hle, decide_true, if_true, ht, hu]
  generalize (clock - cs.clockValue) * 1000000000 / cs.clockFrequency = Q at hQ ⊢
  rw [wrap64_id (Q : Int) (by omega) (by omega), wrap64_id (cs.nsSinceEpoch : Int) (by omega) (by omega),
    wrap64_id _ (by omega) (by omega)]
  omega

theorem clockToNs_before (cs : ClockSync) (clock : Nat) (hlt : clock < cs.clockValue)
    (hcv : cs.clockValue < 18446744073709551616)
    (hf0 : 0 < cs.clockFrequency) (hf : cs.clockFrequency < 9200000000)
    (hS : cs.nsSinceEpoch < 9223372036854775808)
    (hQ : (cs.clockValue - clock) * 1000000000 / cs.clockFrequency < 9223372036854775808) :
    clockToNs cs clock
      = (cs.nsSinceEpoch : Int) - (((cs.clockValue - clock) * 1000000000 / cs.clockFrequency : Nat) : Int) := by
  have ht : (cs.clockValue - clock) % 18446744073709551616 = cs.clockValue - clock :=
    Nat.mod_eq_of_lt (by omega)
  have hu := ticks_to_ns (cs.clockValue - clock) cs.clockFrequency hf0 hf hQ
  have hnle : ¬ cs.clockValue ≤ clock := by omega
  simp only [clockToNs, nsPerSec, ge_iff_le, hnle, decide_false, if_false, ht, hu, Bool.false_eq_true]
  generalize (cs.clockValue - clock) * 1000000000 / cs.clockFrequency = Q at hQ ⊢
  rw [wrap64_id (Q : Int) (by omega) (by omega), wrap64_id (cs.nsSinceEpoch : Int) (by omega) (by omega),
    wrap64_id (-(Q : Int)) (by omega) (by omega), wrap64_id _ (by omega) (by omega)]
  omega

/-! ### brokenDown -/

/-- Closed form of `brokenDown`: floor division by 10⁹, `gmtime` of the quotient, remainder in
    `nsec`.  Holds for every `int64` value except the last 0.85 s above `INT64_MIN`, where
    `seconds * 10⁹` overflows after the decrement. -/
theorem brokenDown_eq (ns : Int) (h0 : -9223372036000000000 ≤ ns) (h1 : ns < 9223372036854775808) :
    brokenDown ns = { gmtime (ns / 1000000000) with nsec := ns % 1000000000 } := by
  unfold brokenDown
  have hs0 : (0 ≤ ns → ns.tdiv 1000000000 = ns / 1000000000) ∧
      (ns < 0 → ns.tdiv 1000000000 = -((-ns) / 1000000000)) :=
    ⟨tdiv_nonneg ns _, tdiv_neg ns _⟩
  generalize ns.tdiv 1000000000 = s0 at hs0
  have hw0 : wrap64 (s0 * 1000000000) = s0 * 1000000000 := wrap64_id _ (by omega) (by omega)
  have hw1 : wrap64 (s0 - 1) = s0 - 1 := wrap64_id _ (by omega) (by omega)
  simp only [hw0, hw1]
  have hs : (if s0 * 1000000000 > ns then s0 - 1 else s0) = ns / 1000000000 := by
    split <;> omega
  rw [hs]
  generalize hq : ns / 1000000000 = s
  have hw2 : wrap64 (s * 1000000000) = s * 1000000000 := wrap64_id _ (by omega) (by omega)
  have htt : (s * 1000000000).tdiv 1000000000 = s := Int.mul_tdiv_cancel _ (by decide)
  have hw3 : wrap64 (ns - s * 1000000000) = ns % 1000000000 := by
    rw [wrap64_id _ (by omega) (by omega)]; omega
  have hw4 : wrap32 (ns % 1000000000) = ns % 1000000000 := wrap32_id _ (by omega) (by omega)
  simp only [hw2, htt, hw3, hw4]

theorem gmtime_fields (tt : Int) :
    ValidDate (gmtime tt).year (gmtime tt).mon (gmtime tt).mday ∧
    (gmtime tt).hour < 24 ∧ (gmtime tt).min < 60 ∧ (gmtime tt).sec < 60 ∧
    ((daysFromCivil (gmtime tt).year (gmtime tt).mon (gmtime tt).mday * 24 + (gmtime tt).hour) * 60
        + (gmtime tt).min) * 60 + (gmtime tt).sec = tt := by
  obtain ⟨v, e⟩ := civil_spec (tt / 86400)
  simp only [gmtime]
  refine ⟨v, by omega, by omega, by omega, ?_⟩
  rw [e]
  omega

/-- the civil fields of any `brokenDown` are in range (the `gmtime` model is total) -/
theorem brokenDown_ranges (ns : Int) :
    ValidDate (brokenDown ns).year (brokenDown ns).mon (brokenDown ns).mday ∧
    (brokenDown ns).hour < 24 ∧ (brokenDown ns).min < 60 ∧ (brokenDown ns).sec < 60 := by
  unfold brokenDown
  simp only []
  generalize Int.tdiv (wrap64 _) 1000000000 = tt
  obtain ⟨a, b, c, d, _⟩ := gmtime_fields tt
  exact ⟨a, b, c, d⟩

/-- every `int64` nanosecond count lies in the years 1677..2262 -/
theorem brokenDown_year_range (ns : Int) (h0 : -9223372036000000000 ≤ ns)
    (h1 : ns < 9223372036854775808) :
    1677 ≤ (brokenDown ns).year ∧ (brokenDown ns).year ≤ 2262 := by
  rw [brokenDown_eq ns h0 h1]
  obtain ⟨v, _, _, _, e⟩ := gmtime_fields (ns / 1000000000)
  simp only
  generalize gmtime (ns / 1000000000) = g at *
  have hd := dayOfYear_lt g.year g.mon g.mday v
  have hs := daysBeforeYear_succ g.year
  have hd1 : 1 ≤ g.mday := v.2.2.1
  simp only [daysFromCivil] at e
  have lo : daysBeforeYear 1677 = 612147 := by decide
  have hi : daysBeforeYear 2263 = 826178 := by decide
  refine ⟨?_, ?_⟩
  · refine Int.not_lt.mp (fun hlt => ?_)
    have := daysBeforeYear_mono (g.year + 1) 1677 (by omega)
    split at hd <;> split at hs <;> omega
  · refine Int.not_lt.mp (fun hlt => ?_)
    have := daysBeforeYear_mono 2263 g.year (by omega)
    omega

theorem validDate_bounds (y : Int) (m d : Nat) (h : ValidDate y m d) :
    1 ≤ m ∧ m ≤ 12 ∧ 1 ≤ d ∧ d ≤ 31 := by
  obtain ⟨h1, h2, h3, h4⟩ := h
  refine ⟨h1, h2, h3, ?_⟩
  rcases month_cases m h1 h2 with e | e | e | e | e | e | e | e | e | e | e | e <;> subst e <;>
    simp only [daysInMonth] at h4 <;> (try split at h4) <;> omega

end BinlogVerif.Time
