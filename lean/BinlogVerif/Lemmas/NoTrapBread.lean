import BinlogVerif.Lemmas.NoTrapVisit
import BinlogVerif.Lemmas.TimePrint
import BinlogVerif.Reader.Bread
/-
  C09 support: the pretty printer (`ToStringVisitor`, `printStruct`, `printEvent*`) with the time
  model plugged in, the event stream and `bread`'s print loop never trap.
-/
namespace BinlogVerif

open BinlogVerif.Tag BinlogVerif.Visit

/-! ### time printers -/

/-- a `TimePrinter` none of whose three printers traps -/
def Pretty.TimePrinter.NoTrap (tp : Pretty.TimePrinter) : Prop :=
  (∀ ns, BinlogVerif.NoTrap (tp.timePoint ns)) ∧ (∀ c, BinlogVerif.NoTrap (tp.localTime c)) ∧
  (∀ c, BinlogVerif.NoTrap (tp.utcTime c))

theorem printTime_brokenDown_noTrap (dateFmt : Bytes) (ns tz : Int) (name : Bytes) :
    NoTrap (Time.printTime dateFmt (Time.brokenDown ns) tz name) :=
  NoTrap.of_total
    (Time.printTime_total _ (Time.brokenDown_twoDigit ns) tz name _ dateFmt (Nat.le_refl _))

theorem printLocal_noTrap (dateFmt : Bytes) (cs : ClockSync) (clock : Nat) :
    NoTrap (Time.printLocal dateFmt cs clock) := by
  unfold Time.printLocal
  no_trap_steps [exact printTime_brokenDown_noTrap _ _ _ _]

theorem printUTC_noTrap (dateFmt : Bytes) (cs : ClockSync) (clock : Nat) :
    NoTrap (Time.printUTC dateFmt cs clock) := by
  unfold Time.printUTC
  no_trap_steps [exact printTime_brokenDown_noTrap _ _ _ _]

/-- the time printers `bread` plugs into the pretty printer never trap, whatever the event format,
    the date format and the clock sync -/
theorem timePrinter_noTrap (fmt dateFmt : Bytes) (cs : ClockSync) :
    (Bread.timePrinter fmt dateFmt cs).NoTrap := by
  refine ⟨fun ns => ?_, fun c => ?_, fun c => ?_⟩
  · dsimp only [Bread.timePrinter]
    exact NoTrap.ite (fun _ => printTime_brokenDown_noTrap _ _ _ _)
      (fun _ => printTime_brokenDown_noTrap _ _ _ _)
  · dsimp only [Bread.timePrinter]
    exact printLocal_noTrap _ _ _
  · dsimp only [Bread.timePrinter]
    exact printUTC_noTrap _ _ _

/-! ### ToStringVisitor -/

theorem printStruct_noTrap (tp : Pretty.TimePrinter) (htp : tp.NoTrap) (name tag input : Bytes) :
    NoTrap (Pretty.printStruct tp name tag input) := by
  unfold Pretty.printStruct
  refine NoTrap.ite (fun _ => ?_) (fun _ => NoTrap.ite (fun _ => ?_) (fun _ => ?_))
  · no_trap_steps [exact readU_noTrap _ _]
  · no_trap_steps [exact readU_noTrap _ _, exact htp.1 _]
  · dsimp only
    generalize (if Pretty.startsWith name _ = true then _ else none : Option Bytes) = ds
    split
    · -- a duration: the special rendering is one checked read
      rename_i dur r heq
      cases ds with
      | none => cases heq
      | some suf =>
        dsimp only at heq
        split at heq
        · cases heq
          no_trap_steps [exact readU_noTrap _ _]
        · split at heq
          · cases heq
            no_trap_steps [exact readU_noTrap _ _]
          · cases heq
    · no_trap_steps [exact readU_noTrap _ _, exact takeN_noTrap _ _]

theorem toStringVisitor_noTrap (tp : Option Pretty.TimePrinter)
    (htp : ∀ t, tp = some t → t.NoTrap) : (Pretty.toStringVisitor tp).NoTrap := by
  intro st ev input
  unfold Pretty.toStringVisitor
  cases tp with
  | none => no_trap_steps [exact takeN_noTrap _ _]
  | some t =>
    have ht := htp t rfl
    no_trap_steps [exact takeN_noTrap _ _, exact printStruct_noTrap t ht _ _ _]

/-! ### PrettyPrinter -/

theorem printEventMessage_go_noTrap (tp : Option Pretty.TimePrinter)
    (htp : ∀ t, tp = some t → t.NoTrap) :
    ∀ fuel fmt tags args s, NoTrap (Pretty.printEventMessage.go tp fuel fmt tags args s) := by
  intro fuel
  induction fuel with
  | zero => intro fmt tags args s; unfold Pretty.printEventMessage.go; exact NoTrap.ok _
  | succ fuel ih =>
    intro fmt tags args s
    unfold Pretty.printEventMessage.go
    no_trap_steps [exact ih _ _ _ _, exact visit_noTrap _ (toStringVisitor_noTrap tp htp) _ _ _]

theorem printEventMessage_noTrap (tp : Option Pretty.TimePrinter)
    (htp : ∀ t, tp = some t → t.NoTrap) (ev : Event) :
    NoTrap (Pretty.printEventMessage tp ev) := by
  unfold Pretty.printEventMessage
  no_trap_steps [exact printEventMessage_go_noTrap tp htp _ _ _ _ _]

theorem printEventField_noTrap (tp : Pretty.TimePrinter) (htp : tp.NoTrap) (spec : UInt8)
    (ev : Event) (wp : WriterProp) : NoTrap (Pretty.printEventField tp spec ev wp) := by
  unfold Pretty.printEventField
  no_trap_steps [exact htp.2.1 _, exact htp.2.2 _,
    exact printEventMessage_noTrap (some tp) (fun t h => by cases h; exact htp) ev]

theorem printEvent_go_noTrap (tp : Pretty.TimePrinter) (htp : tp.NoTrap) (ev : Event)
    (wp : WriterProp) :
    ∀ n fmt, fmt.length ≤ n → ∀ acc, NoTrap (Pretty.printEvent.go tp ev wp fmt acc) := by
  intro n
  induction n with
  | zero =>
    intro fmt h acc
    have : fmt = [] := List.length_eq_zero_iff.mp (by omega)
    subst this
    unfold Pretty.printEvent.go
    exact NoTrap.ok _
  | succ n ih =>
    intro fmt h acc
    unfold Pretty.printEvent.go
    split
    · exact NoTrap.ok _
    · rename_i c rest
      simp only [List.length_cons] at h
      split
      · split
        · exact NoTrap.ok _
        · rename_i spec rest'
          have := ih rest' (by simp only [List.length_cons] at h; omega)
          no_trap_steps [exact this _, exact printEventField_noTrap tp htp _ _ _]
      · exact ih rest (by omega) _

theorem printEvent_noTrap (tp : Pretty.TimePrinter) (htp : tp.NoTrap) (fmt : Bytes) (ev : Event)
    (wp : WriterProp) : NoTrap (Pretty.printEvent tp fmt ev wp) :=
  printEvent_go_noTrap tp htp ev wp _ fmt (Nat.le_refl _) []

/-- the text of one event never traps: any event, any event format, any date format -/
theorem renderEvent_noTrap (fmt dateFmt : Bytes) (ev : Event) (wp : WriterProp) (cs : ClockSync) :
    NoTrap (Bread.renderEvent fmt dateFmt ev wp cs) :=
  printEvent_noTrap _ (timePrinter_noTrap fmt dateFmt cs) fmt ev wp

/-! ### event stream -/

theorem processEntryCore_noTrap (st : ReaderState) (payload : Bytes) :
    NoTrap (processEntryCore st payload) := by
  unfold processEntryCore
  no_trap_steps [exact readU_noTrap _ _, exact decSource_noTrap _, exact decWriterProp_noTrap _,
    exact decClockSync_noTrap _]

/-- every item of the list is an event or a non-trap error -/
def ItemsNoTrap (items : List Item) : Prop := ∀ e, Item.error e ∈ items → e.isTrap = false

theorem stepEntry_noTrap (st : ReaderState) (p : Bytes) (items : List Item) (st' : ReaderState)
    (h : stepEntry st p = some (items, st')) : ItemsNoTrap items := by
  intro e he
  unfold stepEntry processEntry at h
  have hc := (NoTrap.iff_isTrap _).mp (processEntryCore_noTrap st p)
  cases hp : processEntryCore st p with
  | error e' =>
    rw [hp] at h
    simp only [Option.some.injEq, Prod.mk.injEq] at h
    obtain ⟨rfl, _⟩ := h
    simp only [List.mem_singleton, Item.error.injEq] at he
    subst he
    exact hc _ hp
  | ok r =>
    obtain ⟨r, s⟩ := r
    rw [hp] at h
    cases r with
    | stop => simp at h
    | skip =>
      simp only [Option.some.injEq, Prod.mk.injEq] at h
      obtain ⟨rfl, _⟩ := h
      simp at he
    | event x =>
      simp only [Option.some.injEq, Prod.mk.injEq] at h
      obtain ⟨rfl, _⟩ := h
      simp at he

theorem readAll_noTrap : ∀ (ps : List Bytes) (st : ReaderState), ItemsNoTrap (readAll st ps) := by
  intro ps
  induction ps with
  | nil => intro st e he; simp [readAll] at he
  | cons p ps ih =>
    intro st e he
    unfold readAll at he
    cases hs : stepEntry st p with
    | none => rw [hs] at he; simp at he
    | some r =>
      obtain ⟨items, st'⟩ := r
      rw [hs] at he
      simp only [List.mem_append] at he
      cases he with
      | inl h => exact stepEntry_noTrap st p items st' hs e h
      | inr h => exact ih st' e h

theorem itemsOf_noTrap (file : Bytes) : ItemsNoTrap (Bread.itemsOf file) := by
  intro e he
  unfold Bread.itemsOf at he
  have hr := readAll_noTrap (splitEntries file).1 {} e
  revert he
  dsimp only
  split
  · exact hr
  · split
    · exact hr
    · intro he
      simp only [List.mem_append, List.mem_singleton, Item.error.injEq] at he
      cases he with
      | inl h => exact hr h
      | inr h => subst h; rfl
    · intro he
      simp only [List.mem_append, List.mem_singleton, Item.error.injEq] at he
      cases he with
      | inl h => exact hr h
      | inr h => subst h; rfl

/-! ### the print loop -/

theorem printUntilError_noTrap (fmt dateFmt : Bytes) :
    ∀ items, ItemsNoTrap items →
      ∀ e, (Bread.printUntilError fmt dateFmt items).2 = some e → e.isTrap = false := by
  intro items
  induction items with
  | nil => intro _ e he; simp [Bread.printUntilError] at he
  | cons it rest ih =>
    intro hit e he
    cases it with
    | error e' =>
      simp only [Bread.printUntilError, Option.some.injEq] at he
      subst he
      exact hit _ (by simp)
    | event ev wp cs =>
      unfold Bread.printUntilError at he
      have hr := (NoTrap.iff_isTrap _).mp (renderEvent_noTrap fmt dateFmt ev wp cs)
      cases hre : Bread.renderEvent fmt dateFmt ev wp cs with
      | error e' =>
        rw [hre] at he
        simp only [Option.some.injEq] at he
        subst he
        exact hr _ hre
      | ok text =>
        rw [hre] at he
        exact ih (fun e h => hit e (by simp [h])) e he

theorem run_error_eq (sorted : Bool) (fmt dateFmt file : Bytes) :
    (Bread.run sorted fmt dateFmt file).2 =
      (Bread.printUntilError fmt dateFmt (Bread.itemsOf file)).2 := rfl

end BinlogVerif
