import BinlogVerif.Mser.Dest
import BinlogVerif.Lemmas.Mser
/-
  Structural-induction lemmas about deserialisation into a destination (`decodeInto`):
  round trip for fitting values, size-mismatch for non-fitting ones (before any following byte is
  read as an element), agreement with `decode` without fixed-size nodes, truncation.
-/
namespace BinlogVerif.Mser
open BinlogVerif BinlogVerif.Visit

/-! ### destinations without fixed-size nodes -/
mutual
def noFixed : Dst → Bool
  | .arith _ => true
  | .seq fixed e => fixed.isNone && noFixed e
  | .tup es => noFixedList es
  | .var alts => noFixedList alts
  | .null => true
  | .enum _ _ _ => true
  | .struct _ fs => noFixedFields fs
def noFixedList : List Dst → Bool
  | [] => true
  | d :: ds => noFixed d && noFixedList ds
def noFixedFields : List (Bytes × Dst) → Bool
  | [] => true
  | (_, d) :: fs => noFixed d && noFixedFields fs
end

/-- the fixed-size test of a sequence node against an encoded element count -/
def sizeOk (fixed : Option Nat) (n : Nat) : Bool :=
  match fixed with
  | some m => decide (n = m)
  | none => true

/-- `fits` at a sequence node, with the fixed-size test kept as one condition -/
theorem fits_seq (fixed : Option Nat) (e : Dst) (vs : List Val) :
    fits (.seq fixed e) (.seq vs) = (sizeOk fixed vs.length && fitsAll e vs) := by
  cases fixed <;> simp only [fits, sizeOk]

/-- `decodeInto` at a sequence node, same -/
theorem decodeInto_seq (fixed : Option Nat) (e : Dst) (r : Bytes) :
    decodeInto (.seq fixed e) r =
      match readU 4 r with
      | .error err => .error err
      | .ok (n, rest) =>
        if sizeOk fixed n then
          match decodeIntoN e n rest with
          | .ok (vs, rest') => .ok (.seq vs, rest')
          | .error err => .error err
        else .error .sizeMismatch := by
  cases fixed <;> simp only [decodeInto, sizeOk] <;> rfl

/-! ### round trip of a fitting value -/
mutual
theorem decodeInto_encode (d : Dst) (v : Val) (rest : Bytes) (h : hasTy d.ty v = true)
    (hf : fits d v = true) :
    decodeInto d (encode d.ty v ++ rest) = .ok (v, rest) := by
  match d, v with
  | .arith c, .num raw =>
    simp only [Dst.ty, hasTy] at h
    cases hs : arithSize c with
    | none => simp [hs] at h
    | some sz =>
      simp only [hs, decide_eq_true_eq] at h
      simp only [decodeInto, Dst.ty, encode, hs, Option.getD_some]
      rw [readU_le_append sz raw rest h]
  | .seq fixed e, .seq vs =>
    simp only [Dst.ty, hasTy, Bool.and_eq_true, decide_eq_true_eq] at h
    simp only [fits_seq, Bool.and_eq_true] at hf
    simp only [decodeInto_seq, Dst.ty, encode, List.append_assoc]
    rw [readU_le_append 4 vs.length _ (by simpa using h.2)]
    simp only
    rw [if_pos hf.1, decodeIntoN_encodeAll e vs rest h.1 hf.2]
  | .tup es, .tup vs =>
    simp only [Dst.ty, hasTy] at h
    simp only [fits] at hf
    simp only [decodeInto, Dst.ty, encode]
    rw [decodeIntoList_encodeList es vs rest h hf]
  | .var alts, .alt i v =>
    simp only [Dst.ty, hasTy, Bool.and_eq_true, decide_eq_true_eq] at h
    simp only [fits] at hf
    simp only [decodeInto, Dst.ty, encode, List.append_assoc]
    rw [readU_le_append 1 i _ (by simpa using h.1)]
    simp only
    rw [decodeIntoNth_encodeNth alts i v rest h.2 hf]
  | .null, .nul => simp [decodeInto, Dst.ty, encode]
  | .enum u n es, .num raw =>
    simp only [Dst.ty, hasTy] at h
    cases hs : arithSize u with
    | none => simp [hs] at h
    | some sz =>
      simp only [hs, decide_eq_true_eq] at h
      simp only [decodeInto, Dst.ty, encode, hs, Option.getD_some]
      rw [readU_le_append sz raw rest h]
  | .struct n fs, .tup vs =>
    simp only [Dst.ty, hasTy] at h
    simp only [fits] at hf
    simp only [decodeInto, Dst.ty, encode]
    rw [decodeIntoFields_encodeFields fs vs rest h hf]
  | .arith _, .seq _ | .arith _, .tup _ | .arith _, .alt _ _ | .arith _, .nul => simp [Dst.ty, hasTy] at h
  | .seq _ _, .num _ | .seq _ _, .tup _ | .seq _ _, .alt _ _ | .seq _ _, .nul => simp [Dst.ty, hasTy] at h
  | .tup _, .num _ | .tup _, .seq _ | .tup _, .alt _ _ | .tup _, .nul => simp [Dst.ty, hasTy] at h
  | .var _, .num _ | .var _, .seq _ | .var _, .tup _ | .var _, .nul => simp [Dst.ty, hasTy] at h
  | .null, .num _ | .null, .seq _ | .null, .tup _ | .null, .alt _ _ => simp [Dst.ty, hasTy] at h
  | .enum _ _ _, .seq _ | .enum _ _ _, .tup _ | .enum _ _ _, .alt _ _ | .enum _ _ _, .nul => simp [Dst.ty, hasTy] at h
  | .struct _ _, .num _ | .struct _ _, .seq _ | .struct _ _, .alt _ _ | .struct _ _, .nul => simp [Dst.ty, hasTy] at h
theorem decodeIntoN_encodeAll (e : Dst) (vs : List Val) (rest : Bytes) (h : hasTyAll e.ty vs = true)
    (hf : fitsAll e vs = true) :
    decodeIntoN e vs.length (encodeAll e.ty vs ++ rest) = .ok (vs, rest) := by
  match vs with
  | [] => simp [decodeIntoN, encodeAll]
  | v :: vs =>
    simp only [hasTyAll, Bool.and_eq_true] at h
    simp only [fitsAll, Bool.and_eq_true] at hf
    simp only [List.length_cons, decodeIntoN, encodeAll, List.append_assoc]
    rw [decodeInto_encode e v _ h.1 hf.1]
    simp only
    rw [decodeIntoN_encodeAll e vs rest h.2 hf.2]
theorem decodeIntoList_encodeList (ds : List Dst) (vs : List Val) (rest : Bytes)
    (h : hasTyList (Dst.tys ds) vs = true) (hf : fitsList ds vs = true) :
    decodeIntoList ds (encodeList (Dst.tys ds) vs ++ rest) = .ok (vs, rest) := by
  match ds, vs with
  | [], [] => simp [decodeIntoList, Dst.tys, encodeList]
  | d :: ds, v :: vs =>
    simp only [Dst.tys, hasTyList, Bool.and_eq_true] at h
    simp only [fitsList, Bool.and_eq_true] at hf
    simp only [decodeIntoList, Dst.tys, encodeList, List.append_assoc]
    rw [decodeInto_encode d v _ h.1 hf.1]
    simp only
    rw [decodeIntoList_encodeList ds vs rest h.2 hf.2]
  | [], _ :: _ => simp [Dst.tys, hasTyList] at h
  | _ :: _, [] => simp [Dst.tys, hasTyList] at h
theorem decodeIntoFields_encodeFields (fs : List (Bytes × Dst)) (vs : List Val) (rest : Bytes)
    (h : hasTyFields (Dst.tyFields fs) vs = true) (hf : fitsFields fs vs = true) :
    decodeIntoFields fs (encodeFields (Dst.tyFields fs) vs ++ rest) = .ok (vs, rest) := by
  match fs, vs with
  | [], [] => simp [decodeIntoFields, Dst.tyFields, encodeFields]
  | (n, d) :: fs, v :: vs =>
    simp only [Dst.tyFields, hasTyFields, Bool.and_eq_true] at h
    simp only [fitsFields, Bool.and_eq_true] at hf
    simp only [decodeIntoFields, Dst.tyFields, encodeFields, List.append_assoc]
    rw [decodeInto_encode d v _ h.1 hf.1]
    simp only
    rw [decodeIntoFields_encodeFields fs vs rest h.2 hf.2]
  | [], _ :: _ => simp [Dst.tyFields, hasTyFields] at h
  | _ :: _, [] => simp [Dst.tyFields, hasTyFields] at h
theorem decodeIntoNth_encodeNth (alts : List Dst) (i : Nat) (v : Val) (rest : Bytes)
    (h : hasTyNth (Dst.tys alts) i v = true) (hf : fitsNth alts i v = true) :
    decodeIntoNth alts i (encodeNth (Dst.tys alts) i v ++ rest) = .ok (v, rest) := by
  match alts, i with
  | [], _ => simp [Dst.tys, hasTyNth] at h
  | d :: _, 0 =>
    simp only [Dst.tys, hasTyNth] at h; simp only [fitsNth] at hf
    simp only [decodeIntoNth, Dst.tys, encodeNth]; exact decodeInto_encode d v rest h hf
  | _ :: ds, i + 1 =>
    simp only [Dst.tys, hasTyNth] at h; simp only [fitsNth] at hf
    simp only [decodeIntoNth, Dst.tys, encodeNth]; exact decodeIntoNth_encodeNth ds i v rest h hf
end

/-! ### a value that does not fit: size mismatch, whatever follows -/
mutual
theorem decodeInto_mismatch (d : Dst) (v : Val) (rest : Bytes) (h : hasTy d.ty v = true)
    (hf : fits d v = false) :
    decodeInto d (encode d.ty v ++ rest) = .error .sizeMismatch := by
  match d, v with
  | .arith c, .num raw => simp [fits] at hf
  | .seq fixed e, .seq vs =>
    simp only [Dst.ty, hasTy, Bool.and_eq_true, decide_eq_true_eq] at h
    simp only [fits_seq] at hf
    simp only [decodeInto_seq, Dst.ty, encode, List.append_assoc]
    rw [readU_le_append 4 vs.length _ (by simpa using h.2)]
    simp only
    cases hc : sizeOk fixed vs.length with
    | false => rw [if_neg (by simp)]
    | true =>
      rw [hc, Bool.true_and] at hf
      rw [if_pos rfl, decodeIntoN_mismatch e vs rest h.1 hf]
  | .tup es, .tup vs =>
    simp only [Dst.ty, hasTy] at h
    simp only [fits] at hf
    simp only [decodeInto, Dst.ty, encode]
    rw [decodeIntoList_mismatch es vs rest h hf]
  | .var alts, .alt i v =>
    simp only [Dst.ty, hasTy, Bool.and_eq_true, decide_eq_true_eq] at h
    simp only [fits] at hf
    simp only [decodeInto, Dst.ty, encode, List.append_assoc]
    rw [readU_le_append 1 i _ (by simpa using h.1)]
    simp only
    rw [decodeIntoNth_mismatch alts i v rest h.2 hf]
  | .null, .nul => simp [fits] at hf
  | .enum u n es, .num raw => simp [fits] at hf
  | .struct n fs, .tup vs =>
    simp only [Dst.ty, hasTy] at h
    simp only [fits] at hf
    simp only [decodeInto, Dst.ty, encode]
    rw [decodeIntoFields_mismatch fs vs rest h hf]
  | .arith _, .seq _ | .arith _, .tup _ | .arith _, .alt _ _ | .arith _, .nul => simp [Dst.ty, hasTy] at h
  | .seq _ _, .num _ | .seq _ _, .tup _ | .seq _ _, .alt _ _ | .seq _ _, .nul => simp [Dst.ty, hasTy] at h
  | .tup _, .num _ | .tup _, .seq _ | .tup _, .alt _ _ | .tup _, .nul => simp [Dst.ty, hasTy] at h
  | .var _, .num _ | .var _, .seq _ | .var _, .tup _ | .var _, .nul => simp [Dst.ty, hasTy] at h
  | .null, .num _ | .null, .seq _ | .null, .tup _ | .null, .alt _ _ => simp [Dst.ty, hasTy] at h
  | .enum _ _ _, .seq _ | .enum _ _ _, .tup _ | .enum _ _ _, .alt _ _ | .enum _ _ _, .nul => simp [Dst.ty, hasTy] at h
  | .struct _ _, .num _ | .struct _ _, .seq _ | .struct _ _, .alt _ _ | .struct _ _, .nul => simp [Dst.ty, hasTy] at h
theorem decodeIntoN_mismatch (e : Dst) (vs : List Val) (rest : Bytes) (h : hasTyAll e.ty vs = true)
    (hf : fitsAll e vs = false) :
    decodeIntoN e vs.length (encodeAll e.ty vs ++ rest) = .error .sizeMismatch := by
  match vs with
  | [] => simp [fitsAll] at hf
  | v :: vs =>
    simp only [hasTyAll, Bool.and_eq_true] at h
    simp only [fitsAll] at hf
    simp only [List.length_cons, decodeIntoN, encodeAll, List.append_assoc]
    cases hv : fits e v with
    | false => rw [decodeInto_mismatch e v _ h.1 hv]
    | true =>
      rw [hv, Bool.true_and] at hf
      rw [decodeInto_encode e v _ h.1 hv]
      simp only
      rw [decodeIntoN_mismatch e vs rest h.2 hf]
theorem decodeIntoList_mismatch (ds : List Dst) (vs : List Val) (rest : Bytes)
    (h : hasTyList (Dst.tys ds) vs = true) (hf : fitsList ds vs = false) :
    decodeIntoList ds (encodeList (Dst.tys ds) vs ++ rest) = .error .sizeMismatch := by
  match ds, vs with
  | [], [] => simp [fitsList] at hf
  | d :: ds, v :: vs =>
    simp only [Dst.tys, hasTyList, Bool.and_eq_true] at h
    simp only [fitsList] at hf
    simp only [decodeIntoList, Dst.tys, encodeList, List.append_assoc]
    cases hv : fits d v with
    | false => rw [decodeInto_mismatch d v _ h.1 hv]
    | true =>
      rw [hv, Bool.true_and] at hf
      rw [decodeInto_encode d v _ h.1 hv]
      simp only
      rw [decodeIntoList_mismatch ds vs rest h.2 hf]
  | [], _ :: _ => simp [Dst.tys, hasTyList] at h
  | _ :: _, [] => simp [Dst.tys, hasTyList] at h
theorem decodeIntoFields_mismatch (fs : List (Bytes × Dst)) (vs : List Val) (rest : Bytes)
    (h : hasTyFields (Dst.tyFields fs) vs = true) (hf : fitsFields fs vs = false) :
    decodeIntoFields fs (encodeFields (Dst.tyFields fs) vs ++ rest) = .error .sizeMismatch := by
  match fs, vs with
  | [], [] => simp [fitsFields] at hf
  | (n, d) :: fs, v :: vs =>
    simp only [Dst.tyFields, hasTyFields, Bool.and_eq_true] at h
    simp only [fitsFields] at hf
    simp only [decodeIntoFields, Dst.tyFields, encodeFields, List.append_assoc]
    cases hv : fits d v with
    | false => rw [decodeInto_mismatch d v _ h.1 hv]
    | true =>
      rw [hv, Bool.true_and] at hf
      rw [decodeInto_encode d v _ h.1 hv]
      simp only
      rw [decodeIntoFields_mismatch fs vs rest h.2 hf]
  | [], _ :: _ => simp [Dst.tyFields, hasTyFields] at h
  | _ :: _, [] => simp [Dst.tyFields, hasTyFields] at h
theorem decodeIntoNth_mismatch (alts : List Dst) (i : Nat) (v : Val) (rest : Bytes)
    (h : hasTyNth (Dst.tys alts) i v = true) (hf : fitsNth alts i v = false) :
    decodeIntoNth alts i (encodeNth (Dst.tys alts) i v ++ rest) = .error .sizeMismatch := by
  match alts, i with
  | [], _ => simp [Dst.tys, hasTyNth] at h
  | d :: _, 0 =>
    simp only [Dst.tys, hasTyNth] at h; simp only [fitsNth] at hf
    simp only [decodeIntoNth, Dst.tys, encodeNth]; exact decodeInto_mismatch d v rest h hf
  | _ :: ds, i + 1 =>
    simp only [Dst.tys, hasTyNth] at h; simp only [fitsNth] at hf
    simp only [decodeIntoNth, Dst.tys, encodeNth]; exact decodeIntoNth_mismatch ds i v rest h hf
end

/-! ### without fixed-size nodes `decodeInto` is `decode` -/
theorem decodeIntoN_eq_of (e : Dst) (ih : ∀ r, decodeInto e r = decode e.ty r) (n : Nat) (r : Bytes) :
    decodeIntoN e n r = decodeN e.ty n r := by
  induction n generalizing r with
  | zero => simp [decodeIntoN, decodeN]
  | succ n ihn =>
    simp only [decodeIntoN, decodeN, ih]
    cases decode e.ty r with
    | error err => rfl
    | ok p => obtain ⟨v, rest⟩ := p; simp only [ihn]; rfl

mutual
theorem decodeInto_eq_decode (d : Dst) (hnf : noFixed d = true) (r : Bytes) :
    decodeInto d r = decode d.ty r := by
  match d with
  | .arith c => simp only [decodeInto, Dst.ty, decode]; rfl
  | .seq fixed e =>
    simp only [noFixed, Bool.and_eq_true, Option.isNone_iff_eq_none] at hnf
    obtain ⟨hfx, he⟩ := hnf
    subst hfx
    simp only [decodeInto_seq, sizeOk, Dst.ty, decode, if_true]
    cases readU 4 r with
    | error err => rfl
    | ok p =>
      obtain ⟨n, rest⟩ := p
      simp only
      rw [decodeIntoN_eq_of e (fun r => decodeInto_eq_decode e he r) n rest]
      rfl
  | .tup es =>
    simp only [noFixed] at hnf
    simp only [decodeInto, Dst.ty, decode, decodeIntoList_eq_decode es hnf r]; rfl
  | .var alts =>
    simp only [noFixed] at hnf
    simp only [decodeInto, Dst.ty, decode]
    cases readU 1 r with
    | error err => rfl
    | ok p =>
      obtain ⟨i, rest⟩ := p
      simp only
      rw [decodeIntoNth_eq_decode alts hnf i rest]
      rfl
  | .null => simp only [decodeInto, Dst.ty, decode]
  | .enum u n es => simp only [decodeInto, Dst.ty, decode]; rfl
  | .struct n fs =>
    simp only [noFixed] at hnf
    simp only [decodeInto, Dst.ty, decode, decodeIntoFields_eq_decode fs hnf r]; rfl
theorem decodeIntoList_eq_decode (ds : List Dst) (hnf : noFixedList ds = true) (r : Bytes) :
    decodeIntoList ds r = decodeList (Dst.tys ds) r := by
  match ds with
  | [] => simp only [decodeIntoList, Dst.tys, decodeList]
  | d :: ds =>
    simp only [noFixedList, Bool.and_eq_true] at hnf
    simp only [decodeIntoList, Dst.tys, decodeList, decodeInto_eq_decode d hnf.1 r]
    cases decode d.ty r with
    | error err => rfl
    | ok p =>
      obtain ⟨v, rest⟩ := p
      simp only
      rw [decodeIntoList_eq_decode ds hnf.2 rest]
      rfl
theorem decodeIntoFields_eq_decode (fs : List (Bytes × Dst)) (hnf : noFixedFields fs = true) (r : Bytes) :
    decodeIntoFields fs r = decodeFields (Dst.tyFields fs) r := by
  match fs with
  | [] => simp only [decodeIntoFields, Dst.tyFields, decodeFields]
  | (n, d) :: fs =>
    simp only [noFixedFields, Bool.and_eq_true] at hnf
    simp only [decodeIntoFields, Dst.tyFields, decodeFields, decodeInto_eq_decode d hnf.1 r]
    cases decode d.ty r with
    | error err => rfl
    | ok p =>
      obtain ⟨v, rest⟩ := p
      simp only
      rw [decodeIntoFields_eq_decode fs hnf.2 rest]
      rfl
theorem decodeIntoNth_eq_decode (alts : List Dst) (hnf : noFixedList alts = true) (i : Nat) (r : Bytes) :
    decodeIntoNth alts i r = decodeNth (Dst.tys alts) i r := by
  match alts, i with
  | [], _ => simp only [decodeIntoNth, Dst.tys, decodeNth]
  | d :: _, 0 =>
    simp only [noFixedList, Bool.and_eq_true] at hnf
    simp only [decodeIntoNth, Dst.tys, decodeNth]; exact decodeInto_eq_decode d hnf.1 r
  | _ :: ds, i + 1 =>
    simp only [noFixedList, Bool.and_eq_true] at hnf
    simp only [decodeIntoNth, Dst.tys, decodeNth]; exact decodeIntoNth_eq_decode ds hnf.2 i r
end

/-! ### truncation: an exception (overflow or size mismatch), never a value -/
/-- the two exceptions a truncated encoding can end in -/
def TruncErr {α : Type} (o : Outcome α) : Prop :=
  ∃ e, o = .error e ∧ (e = .overflow ∨ e = .sizeMismatch)

theorem TruncErr.overflow {α : Type} : TruncErr (.error .overflow : Outcome α) := ⟨_, rfl, .inl rfl⟩
theorem TruncErr.sizeMismatch {α : Type} : TruncErr (.error .sizeMismatch : Outcome α) := ⟨_, rfl, .inr rfl⟩

mutual
theorem decodeInto_trunc (d : Dst) (v : Val) (h : hasTy d.ty v = true) (n : Nat)
    (hn : n < (encode d.ty v).length) :
    TruncErr (decodeInto d ((encode d.ty v).take n)) := by
  match d, v with
  | .arith c, .num raw =>
    simp only [Dst.ty, hasTy] at h
    cases hs : arithSize c with
    | none => simp [hs] at h
    | some sz =>
      simp only [Dst.ty, encode, hs, Option.getD_some, le_length] at hn
      simp only [decodeInto, Dst.ty, encode, hs, Option.getD_some]
      rw [readU_short sz _ (by simp; omega)]
      exact TruncErr.overflow
  | .seq fixed e, .seq vs =>
    simp only [Dst.ty, hasTy, Bool.and_eq_true, decide_eq_true_eq] at h
    simp only [Dst.ty, encode, List.length_append, le_length] at hn
    simp only [decodeInto_seq, Dst.ty, encode]
    by_cases h4 : n < 4
    · rw [take_append_lt _ _ n (by simpa using h4)]
      rw [readU_short 4 _ (by simp; omega)]
      exact TruncErr.overflow
    · rw [take_append_ge _ _ n (by simp; omega)]
      rw [readU_le_append 4 vs.length _ (by simpa using h.2)]
      simp only [le_length]
      cases hc : sizeOk fixed vs.length with
      | false => rw [if_neg (by simp)]; exact TruncErr.sizeMismatch
      | true =>
        rw [if_pos rfl]
        obtain ⟨err, he, hor⟩ := decodeIntoN_trunc e vs h.1 (n - 4) (by omega)
        rw [he]; exact ⟨err, rfl, hor⟩
  | .tup es, .tup vs =>
    simp only [Dst.ty, hasTy] at h
    simp only [Dst.ty, encode] at hn
    simp only [decodeInto, Dst.ty, encode]
    obtain ⟨err, he, hor⟩ := decodeIntoList_trunc es vs h n hn
    rw [he]; exact ⟨err, rfl, hor⟩
  | .var alts, .alt i v =>
    simp only [Dst.ty, hasTy, Bool.and_eq_true, decide_eq_true_eq] at h
    simp only [Dst.ty, encode, List.length_append, le_length] at hn
    simp only [decodeInto, Dst.ty, encode]
    by_cases h1 : n < 1
    · rw [take_append_lt _ _ n (by simpa using h1)]
      rw [readU_short 1 _ (by simp; omega)]
      exact TruncErr.overflow
    · rw [take_append_ge _ _ n (by simp; omega)]
      rw [readU_le_append 1 i _ (by simpa using h.1)]
      simp only [le_length]
      obtain ⟨err, he, hor⟩ := decodeIntoNth_trunc alts i v h.2 (n - 1) (by omega)
      rw [he]; exact ⟨err, rfl, hor⟩
  | .null, .nul => simp [Dst.ty, encode] at hn
  | .enum u nm es, .num raw =>
    simp only [Dst.ty, hasTy] at h
    cases hs : arithSize u with
    | none => simp [hs] at h
    | some sz =>
      simp only [Dst.ty, encode, hs, Option.getD_some, le_length] at hn
      simp only [decodeInto, Dst.ty, encode, hs, Option.getD_some]
      rw [readU_short sz _ (by simp; omega)]
      exact TruncErr.overflow
  | .struct nm fs, .tup vs =>
    simp only [Dst.ty, hasTy] at h
    simp only [Dst.ty, encode] at hn
    simp only [decodeInto, Dst.ty, encode]
    obtain ⟨err, he, hor⟩ := decodeIntoFields_trunc fs vs h n hn
    rw [he]; exact ⟨err, rfl, hor⟩
  | .arith _, .seq _ | .arith _, .tup _ | .arith _, .alt _ _ | .arith _, .nul => simp [Dst.ty, hasTy] at h
  | .seq _ _, .num _ | .seq _ _, .tup _ | .seq _ _, .alt _ _ | .seq _ _, .nul => simp [Dst.ty, hasTy] at h
  | .tup _, .num _ | .tup _, .seq _ | .tup _, .alt _ _ | .tup _, .nul => simp [Dst.ty, hasTy] at h
  | .var _, .num _ | .var _, .seq _ | .var _, .tup _ | .var _, .nul => simp [Dst.ty, hasTy] at h
  | .null, .num _ | .null, .seq _ | .null, .tup _ | .null, .alt _ _ => simp [Dst.ty, hasTy] at h
  | .enum _ _ _, .seq _ | .enum _ _ _, .tup _ | .enum _ _ _, .alt _ _ | .enum _ _ _, .nul => simp [Dst.ty, hasTy] at h
  | .struct _ _, .num _ | .struct _ _, .seq _ | .struct _ _, .alt _ _ | .struct _ _, .nul => simp [Dst.ty, hasTy] at h
theorem decodeIntoN_trunc (e : Dst) (vs : List Val) (h : hasTyAll e.ty vs = true) (n : Nat)
    (hn : n < (encodeAll e.ty vs).length) :
    TruncErr (decodeIntoN e vs.length ((encodeAll e.ty vs).take n)) := by
  match vs with
  | [] => simp [encodeAll] at hn
  | v :: vs =>
    simp only [hasTyAll, Bool.and_eq_true] at h
    simp only [encodeAll, List.length_append] at hn
    simp only [List.length_cons, decodeIntoN, encodeAll]
    by_cases hlt : n < (encode e.ty v).length
    · rw [take_append_lt _ _ n hlt]
      obtain ⟨err, he, hor⟩ := decodeInto_trunc e v h.1 n hlt
      rw [he]; exact ⟨err, rfl, hor⟩
    · rw [take_append_ge _ _ n (by omega)]
      cases hv : fits e v with
      | false => rw [decodeInto_mismatch e v _ h.1 hv]; exact TruncErr.sizeMismatch
      | true =>
        rw [decodeInto_encode e v _ h.1 hv]
        simp only
        obtain ⟨err, he, hor⟩ := decodeIntoN_trunc e vs h.2 (n - (encode e.ty v).length) (by omega)
        rw [he]; exact ⟨err, rfl, hor⟩
theorem decodeIntoList_trunc (ds : List Dst) (vs : List Val) (h : hasTyList (Dst.tys ds) vs = true) (n : Nat)
    (hn : n < (encodeList (Dst.tys ds) vs).length) :
    TruncErr (decodeIntoList ds ((encodeList (Dst.tys ds) vs).take n)) := by
  match ds, vs with
  | [], [] => simp [Dst.tys, encodeList] at hn
  | d :: ds, v :: vs =>
    simp only [Dst.tys, hasTyList, Bool.and_eq_true] at h
    simp only [Dst.tys, encodeList, List.length_append] at hn
    simp only [decodeIntoList, Dst.tys, encodeList]
    by_cases hlt : n < (encode d.ty v).length
    · rw [take_append_lt _ _ n hlt]
      obtain ⟨err, he, hor⟩ := decodeInto_trunc d v h.1 n hlt
      rw [he]; exact ⟨err, rfl, hor⟩
    · rw [take_append_ge _ _ n (by omega)]
      cases hv : fits d v with
      | false => rw [decodeInto_mismatch d v _ h.1 hv]; exact TruncErr.sizeMismatch
      | true =>
        rw [decodeInto_encode d v _ h.1 hv]
        simp only
        obtain ⟨err, he, hor⟩ := decodeIntoList_trunc ds vs h.2 (n - (encode d.ty v).length) (by omega)
        rw [he]; exact ⟨err, rfl, hor⟩
  | [], _ :: _ => simp [Dst.tys, hasTyList] at h
  | _ :: _, [] => simp [Dst.tys, hasTyList] at h
theorem decodeIntoFields_trunc (fs : List (Bytes × Dst)) (vs : List Val)
    (h : hasTyFields (Dst.tyFields fs) vs = true) (n : Nat)
    (hn : n < (encodeFields (Dst.tyFields fs) vs).length) :
    TruncErr (decodeIntoFields fs ((encodeFields (Dst.tyFields fs) vs).take n)) := by
  match fs, vs with
  | [], [] => simp [Dst.tyFields, encodeFields] at hn
  | (nm, d) :: fs, v :: vs =>
    simp only [Dst.tyFields, hasTyFields, Bool.and_eq_true] at h
    simp only [Dst.tyFields, encodeFields, List.length_append] at hn
    simp only [decodeIntoFields, Dst.tyFields, encodeFields]
    by_cases hlt : n < (encode d.ty v).length
    · rw [take_append_lt _ _ n hlt]
      obtain ⟨err, he, hor⟩ := decodeInto_trunc d v h.1 n hlt
      rw [he]; exact ⟨err, rfl, hor⟩
    · rw [take_append_ge _ _ n (by omega)]
      cases hv : fits d v with
      | false => rw [decodeInto_mismatch d v _ h.1 hv]; exact TruncErr.sizeMismatch
      | true =>
        rw [decodeInto_encode d v _ h.1 hv]
        simp only
        obtain ⟨err, he, hor⟩ := decodeIntoFields_trunc fs vs h.2 (n - (encode d.ty v).length) (by omega)
        rw [he]; exact ⟨err, rfl, hor⟩
  | [], _ :: _ => simp [Dst.tyFields, hasTyFields] at h
  | _ :: _, [] => simp [Dst.tyFields, hasTyFields] at h
theorem decodeIntoNth_trunc (alts : List Dst) (i : Nat) (v : Val) (h : hasTyNth (Dst.tys alts) i v = true)
    (n : Nat) (hn : n < (encodeNth (Dst.tys alts) i v).length) :
    TruncErr (decodeIntoNth alts i ((encodeNth (Dst.tys alts) i v).take n)) := by
  match alts, i with
  | [], _ => simp [Dst.tys, hasTyNth] at h
  | d :: _, 0 =>
    simp only [Dst.tys, hasTyNth] at h; simp only [Dst.tys, encodeNth] at hn
    simp only [decodeIntoNth, Dst.tys, encodeNth]; exact decodeInto_trunc d v h n hn
  | _ :: ds, i + 1 =>
    simp only [Dst.tys, hasTyNth] at h; simp only [Dst.tys, encodeNth] at hn
    simp only [decodeIntoNth, Dst.tys, encodeNth]; exact decodeIntoNth_trunc ds i v h n hn
end

end BinlogVerif.Mser
