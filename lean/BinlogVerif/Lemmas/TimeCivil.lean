import BinlogVerif.Reader.Time
/-
  Civil calendar lemmas for C17: `civilFromDays` (the contract assumed for `gmtime_r`) is the
  inverse of the independent specification `daysFromCivil` on valid dates.
-/
namespace BinlogVerif.Time

/-- day of the 400-year era → (year of era, day of the March-based year) -/
theorem civil_stageA (doe c doc q d4 yy doy yoe : Int) (h0 : 0 ≤ doe) (h1 : doe < 146097)
    (hc : c = min (doe / 36524) 3) (hdoc : doc = doe - c * 36524)
    (hq : q = min (doc / 1461) 24) (hd4 : d4 = doc - q * 1461)
    (hyy : yy = min (d4 / 365) 3) (hdoy : doy = d4 - yy * 365) (hyoe : yoe = 100 * c + 4 * q + yy) :
    0 ≤ yoe ∧ yoe ≤ 399 ∧ 0 ≤ doy ∧ doy ≤ 365 ∧
    doe = 365 * yoe + yoe / 4 - yoe / 100 + doy ∧
    (doy = 365 → yoe % 4 = 3 ∧ (yoe % 100 ≠ 99 ∨ yoe = 399)) := by
  have c0 : 0 ≤ c ∧ c ≤ 3 := by omega
  have doc0 : 0 ≤ doc ∧ doc ≤ 36524 ∧ (c < 3 → doc ≤ 36523) := by omega
  have q0 : 0 ≤ q ∧ q ≤ 24 := by omega
  have d40 : 0 ≤ d4 ∧ d4 ≤ 1460 ∧ (c < 3 → q = 24 → d4 ≤ 1459) := by omega
  have yy0 : 0 ≤ yy ∧ yy ≤ 3 := by omega
  have doy0 : 0 ≤ doy ∧ doy ≤ 365 ∧ (yy < 3 → doy ≤ 364) := by omega
  have e4 : yoe / 4 = 25 * c + q := by omega
  have e100 : yoe / 100 = c := by omega
  refine ⟨by omega, by omega, by omega, by omega, by omega, ?_⟩
  intro h
  have : yy = 3 := by omega
  refine ⟨by omega, ?_⟩
  omega

theorem daysBeforeMonth_vals (y : Int) :
    daysBeforeMonth y 1 = 0 ∧ daysBeforeMonth y 2 = 31 ∧
    daysBeforeMonth y 3 = 59 + (if isLeap y then 1 else 0) ∧
    daysBeforeMonth y 4 = 90 + (if isLeap y then 1 else 0) ∧
    daysBeforeMonth y 5 = 120 + (if isLeap y then 1 else 0) ∧
    daysBeforeMonth y 6 = 151 + (if isLeap y then 1 else 0) ∧
    daysBeforeMonth y 7 = 181 + (if isLeap y then 1 else 0) ∧
    daysBeforeMonth y 8 = 212 + (if isLeap y then 1 else 0) ∧
    daysBeforeMonth y 9 = 243 + (if isLeap y then 1 else 0) ∧
    daysBeforeMonth y 10 = 273 + (if isLeap y then 1 else 0) ∧
    daysBeforeMonth y 11 = 304 + (if isLeap y then 1 else 0) ∧
    daysBeforeMonth y 12 = 334 + (if isLeap y then 1 else 0) := by
  simp only [daysBeforeMonth, daysInMonth]
  cases isLeap y <;> simp

theorem isLeap_iff (y : Int) : isLeap y = true ↔ (y % 4 = 0 ∧ (y % 100 ≠ 0 ∨ y % 400 = 0)) := by
  simp [isLeap]

theorem div_era (era k : Int) :
    (era * 400 + k) / 4 = era * 100 + k / 4 ∧ (era * 400 + k) / 100 = era * 4 + k / 100 ∧
    (era * 400 + k) / 400 = era + k / 400 ∧
    (era * 400 + k) % 4 = k % 4 ∧ (era * 400 + k) % 100 = k % 100 ∧
    (era * 400 + k) % 400 = k % 400 := by
  omega

/-- days before March 1st of year `400 era + yoe` -/
theorem daysBeforeYear_era (era yoe L : Int) (h0 : 0 ≤ yoe) (h1 : yoe ≤ 399)
    (hL : (yoe % 4 = 0 ∧ (yoe % 100 ≠ 0 ∨ yoe % 400 = 0)) → L = 1)
    (hL' : ¬ (yoe % 4 = 0 ∧ (yoe % 100 ≠ 0 ∨ yoe % 400 = 0)) → L = 0) :
    daysBeforeYear (era * 400 + yoe) + 59 + L
      = era * 146097 + (365 * yoe + yoe / 4 - yoe / 100) - 306 := by
  have e := div_era era (yoe - 1)
  have m : 365 * (yoe - 1) + (yoe - 1) / 4 - (yoe - 1) / 100 + (yoe - 1) / 400 + 59 + L
      = 365 * yoe + yoe / 4 - yoe / 100 - 306 := by omega
  simp only [daysBeforeYear]
  have r : era * 400 + yoe - 1 = era * 400 + (yoe - 1) := by omega
  rw [r, e.1, e.2.1, e.2.2.1]
  omega

theorem daysBeforeYear_era_succ (era yoe : Int) (h0 : 0 ≤ yoe) (h1 : yoe ≤ 399) :
    daysBeforeYear (era * 400 + yoe + 1) = era * 146097 + (365 * yoe + yoe / 4 - yoe / 100) := by
  have e := div_era era yoe
  simp only [daysBeforeYear]
  have r : era * 400 + yoe + 1 - 1 = era * 400 + yoe := by omega
  rw [r, e.1, e.2.1, e.2.2.1]
  omega

theorem leap_cases (y : Int) :
    (isLeap y = true ∧ (y % 4 = 0 ∧ (y % 100 ≠ 0 ∨ y % 400 = 0))) ∨
    (isLeap y = false ∧ ¬ (y % 4 = 0 ∧ (y % 100 ≠ 0 ∨ y % 400 = 0))) := by
  by_cases h : isLeap y = true
  · exact Or.inl ⟨h, (isLeap_iff y).1 h⟩
  · refine Or.inr ⟨by simpa using h, fun hp => h ((isLeap_iff y).2 hp)⟩

/-- **`civilFromDays` is a right inverse of `daysFromCivil` and yields valid dates.** -/
theorem civil_spec (z : Int) :
    ValidDate (civilFromDays z).1 (civilFromDays z).2.1 (civilFromDays z).2.2 ∧
    daysFromCivil (civilFromDays z).1 (civilFromDays z).2.1 (civilFromDays z).2.2 = z := by
  simp only [civilFromDays]
  generalize hera : (z + 719468) / 146097 = era
  generalize hdoe : (z + 719468) % 146097 = doe
  have hz : z + 719468 = era * 146097 + doe := by omega
  have hdoe0 : 0 ≤ doe ∧ doe < 146097 := by omega
  clear hera hdoe
  generalize hc : min (doe / 36524) 3 = c
  generalize hdoc : doe - c * 36524 = doc
  generalize hq : min (doc / 1461) 24 = q
  generalize hd4 : doc - q * 1461 = d4
  generalize hyy : min (d4 / 365) 3 = yy
  generalize hdoy : d4 - yy * 365 = doy
  generalize hyoe : 100 * c + 4 * q + yy = yoe
  obtain ⟨y0, y1, d0, d1, hdoeq, hleap⟩ :=
    civil_stageA doe c doc q d4 yy doy yoe hdoe0.1 hdoe0.2 hc.symm hdoc.symm hq.symm hd4.symm
      hyy.symm hdoy.symm hyoe.symm
  clear hc hdoc hq hd4 hyy hdoy hyoe
  generalize hmp : (5 * doy + 2) / 153 = mp
  have hmps : mp = 0 ∨ mp = 1 ∨ mp = 2 ∨ mp = 3 ∨ mp = 4 ∨ mp = 5 ∨ mp = 6 ∨ mp = 7 ∨ mp = 8 ∨
      mp = 9 ∨ mp = 10 ∨ mp = 11 := by omega
  rcases hmps with h | h | h | h | h | h | h | h | h | h | h | h <;> subst h
  case' inr.inr.inr.inr.inr.inr.inr.inr.inr.inr.inl | inr.inr.inr.inr.inr.inr.inr.inr.inr.inr.inr =>
    have hb := daysBeforeMonth_vals (era * 400 + yoe + 1)
    have hY := daysBeforeYear_era_succ era yoe y0 y1
    have e2 := div_era era (yoe + 1)
    have r : era * 400 + (yoe + 1) = era * 400 + yoe + 1 := by omega
    rw [r] at e2
    simp [ValidDate, daysFromCivil, daysInMonth]
    generalize daysBeforeYear (era * 400 + yoe + 1) = DY at hY ⊢
    rcases leap_cases (era * 400 + yoe + 1) with ⟨hl, hp⟩ | ⟨hl, hp⟩ <;>
      simp [hl] at hb ⊢ <;> omega
  all_goals
    have hb := daysBeforeMonth_vals (era * 400 + yoe)
    have e2 := div_era era yoe
    simp [ValidDate, daysFromCivil, daysInMonth]
    rcases leap_cases (era * 400 + yoe) with ⟨hl, hp⟩ | ⟨hl, hp⟩
    · have hY := daysBeforeYear_era era yoe 1 y0 y1 (by omega) (by omega)
      generalize daysBeforeYear (era * 400 + yoe) = DY at hY ⊢
      simp [hl] at hb ⊢
      omega
    · have hY := daysBeforeYear_era era yoe 0 y0 y1 (by omega) (by omega)
      generalize daysBeforeYear (era * 400 + yoe) = DY at hY ⊢
      simp [hl] at hb ⊢
      omega

/-! ### the other direction: `daysFromCivil` is injective on valid dates -/

theorem daysBeforeYear_succ (y : Int) :
    daysBeforeYear (y + 1) = daysBeforeYear y + 365 + (if isLeap y then 1 else 0) := by
  rcases leap_cases y with ⟨hl, hp⟩ | ⟨hl, hp⟩ <;> simp only [daysBeforeYear, hl] <;> simp <;> omega

theorem daysBeforeYear_mono (a b : Int) (h : a ≤ b) : daysBeforeYear a ≤ daysBeforeYear b := by
  simp only [daysBeforeYear]
  omega

theorem month_cases (m : Nat) (h1 : 1 ≤ m) (h2 : m ≤ 12) :
    m = 1 ∨ m = 2 ∨ m = 3 ∨ m = 4 ∨ m = 5 ∨ m = 6 ∨ m = 7 ∨ m = 8 ∨ m = 9 ∨ m = 10 ∨ m = 11 ∨
    m = 12 := by omega

/-- day of the year is within the year -/
theorem dayOfYear_lt (y : Int) (m d : Nat) (hv : ValidDate y m d) :
    daysBeforeMonth y m + d - 1 < 365 + (if isLeap y then 1 else 0) := by
  obtain ⟨h1, h2, h3, h4⟩ := hv
  have hb := daysBeforeMonth_vals y
  rcases month_cases m h1 h2 with h | h | h | h | h | h | h | h | h | h | h | h <;> subst h <;>
    rcases leap_cases y with ⟨hl, hp⟩ | ⟨hl, hp⟩ <;>
    simp [hl, daysInMonth] at hb h4 ⊢ <;> omega

theorem daysFromCivil_year_eq (y y' : Int) (m d m' d' : Nat) (hv : ValidDate y m d)
    (hv' : ValidDate y' m' d') (h : daysFromCivil y m d = daysFromCivil y' m' d') : y = y' := by
  have a := dayOfYear_lt y m d hv
  have a' := dayOfYear_lt y' m' d' hv'
  have s := daysBeforeYear_succ y
  have s' := daysBeforeYear_succ y'
  simp only [daysFromCivil] at h
  have hd : 1 ≤ d := hv.2.2.1
  have hd' : 1 ≤ d' := hv'.2.2.1
  rcases Int.lt_trichotomy y y' with lt | eq | gt
  · have := daysBeforeYear_mono (y + 1) y' (by omega)
    split at a <;> split at s <;> omega
  · exact eq
  · have := daysBeforeYear_mono (y' + 1) y (by omega)
    split at a' <;> split at s' <;> omega

theorem daysFromCivil_inj (y y' : Int) (m d m' d' : Nat) (hv : ValidDate y m d)
    (hv' : ValidDate y' m' d') (h : daysFromCivil y m d = daysFromCivil y' m' d') :
    y = y' ∧ m = m' ∧ d = d' := by
  have hy := daysFromCivil_year_eq y y' m d m' d' hv hv' h
  subst hy
  refine ⟨rfl, ?_⟩
  obtain ⟨h1, h2, h3, h4⟩ := hv
  obtain ⟨h1', h2', h3', h4'⟩ := hv'
  simp only [daysFromCivil] at h
  have hb := daysBeforeMonth_vals y
  rcases leap_cases y with ⟨hl, hp⟩ | ⟨hl, hp⟩ <;> simp only [hl] at hb <;> simp at hb <;>
  rcases month_cases m h1 h2 with e | e | e | e | e | e | e | e | e | e | e | e <;> subst e <;>
  rcases month_cases m' h1' h2' with e | e | e | e | e | e | e | e | e | e | e | e <;> subst e <;>
    simp [hl, daysInMonth] at h4 h4' <;> omega

/-- **`civilFromDays` is a left inverse of `daysFromCivil` on valid dates.** -/
theorem civilFromDays_daysFromCivil (y : Int) (m d : Nat) (hv : ValidDate y m d) :
    civilFromDays (daysFromCivil y m d) = (y, m, d) := by
  obtain ⟨v, e⟩ := civil_spec (daysFromCivil y m d)
  obtain ⟨a, b, c⟩ := daysFromCivil_inj _ _ _ _ _ _ v hv e
  exact Prod.ext a (Prod.ext b c)

end BinlogVerif.Time
