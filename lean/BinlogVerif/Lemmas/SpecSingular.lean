import BinlogVerif.Lemmas.TagDefs
/-
  All values of a singular type demand the same callbacks and have the same rendering: visiting ONE
  element of a long sequence of singular elements (the `repeat` branch of `visit_sequence`) is right
  for every element.
-/
namespace BinlogVerif.Mser
open BinlogVerif BinlogVerif.Tag BinlogVerif.Visit

mutual
theorem events_singular (t : Ty) (v v' : Val) (hs : singularTy t = true)
    (hv : hasTy t v = true) (hv' : hasTy t v' = true) : events t v = events t v' := by
  match t with
  | .tup es =>
    simp only [singularTy] at hs
    cases v <;> simp only [hasTy, Bool.false_eq_true] at hv
    cases v' <;> simp only [hasTy, Bool.false_eq_true] at hv'
    simp only [events, eventsList_singular es _ _ hs hv hv']
  | .struct n fs =>
    simp only [singularTy] at hs
    cases v <;> simp only [hasTy, Bool.false_eq_true] at hv
    cases v' <;> simp only [hasTy, Bool.false_eq_true] at hv'
    simp only [events, eventsFields_singular fs _ _ hs hv hv']
  | .arith _ | .seq _ | .var _ | .null | .enum _ _ _ => simp [singularTy] at hs
theorem eventsList_singular (es : List Ty) (vs vs' : List Val) (hs : singularTys es = true)
    (hv : hasTyList es vs = true) (hv' : hasTyList es vs' = true) : eventsList es vs = eventsList es vs' := by
  match es, vs, vs' with
  | [], [], [] => rfl
  | t :: ts, v :: vs, v' :: vs' =>
    simp only [singularTys, Bool.and_eq_true] at hs
    simp only [hasTyList, Bool.and_eq_true] at hv hv'
    simp only [eventsList, events_singular t v v' hs.1 hv.1 hv'.1, eventsList_singular ts vs vs' hs.2 hv.2 hv'.2]
  | [], _ :: _, _ => simp [hasTyList] at hv
  | [], [], _ :: _ => simp [hasTyList] at hv'
  | _ :: _, [], _ => simp [hasTyList] at hv
  | _ :: _, _ :: _, [] => simp [hasTyList] at hv'
theorem eventsFields_singular (fs : List (Bytes × Ty)) (vs vs' : List Val) (hs : singularFields fs = true)
    (hv : hasTyFields fs vs = true) (hv' : hasTyFields fs vs' = true) :
    eventsFields fs vs = eventsFields fs vs' := by
  match fs, vs, vs' with
  | [], [], [] => rfl
  | (n, t) :: fs, v :: vs, v' :: vs' =>
    simp only [singularFields, Bool.and_eq_true] at hs
    simp only [hasTyFields, Bool.and_eq_true] at hv hv'
    simp only [eventsFields, events_singular t v v' hs.1 hv.1 hv'.1,
      eventsFields_singular fs vs vs' hs.2 hv.2 hv'.2]
  | [], _ :: _, _ => simp [hasTyFields] at hv
  | [], [], _ :: _ => simp [hasTyFields] at hv'
  | _ :: _, [], _ => simp [hasTyFields] at hv
  | _ :: _, _ :: _, [] => simp [hasTyFields] at hv'
end

mutual
theorem render_singular (t : Ty) (v v' : Val) (hs : singularTy t = true)
    (hv : hasTy t v = true) (hv' : hasTy t v' = true) : render t v = render t v' := by
  match t with
  | .tup es =>
    simp only [singularTy] at hs
    cases v <;> simp only [hasTy, Bool.false_eq_true] at hv
    cases v' <;> simp only [hasTy, Bool.false_eq_true] at hv'
    simp only [render, renderList_singular es _ _ hs hv hv']
  | .struct n fs =>
    simp only [singularTy] at hs
    cases v <;> simp only [hasTy, Bool.false_eq_true] at hv
    cases v' <;> simp only [hasTy, Bool.false_eq_true] at hv'
    simp only [render, renderFields_singular fs _ _ hs hv hv']
  | .arith _ | .seq _ | .var _ | .null | .enum _ _ _ => simp [singularTy] at hs
theorem renderList_singular (es : List Ty) (vs vs' : List Val) (hs : singularTys es = true)
    (hv : hasTyList es vs = true) (hv' : hasTyList es vs' = true) : renderList es vs = renderList es vs' := by
  match es, vs, vs' with
  | [], [], [] => rfl
  | t :: ts, v :: vs, v' :: vs' =>
    simp only [singularTys, Bool.and_eq_true] at hs
    simp only [hasTyList, Bool.and_eq_true] at hv hv'
    simp only [renderList, render_singular t v v' hs.1 hv.1 hv'.1, renderList_singular ts vs vs' hs.2 hv.2 hv'.2]
  | [], _ :: _, _ => simp [hasTyList] at hv
  | [], [], _ :: _ => simp [hasTyList] at hv'
  | _ :: _, [], _ => simp [hasTyList] at hv
  | _ :: _, _ :: _, [] => simp [hasTyList] at hv'
theorem renderFields_singular (fs : List (Bytes × Ty)) (vs vs' : List Val) (hs : singularFields fs = true)
    (hv : hasTyFields fs vs = true) (hv' : hasTyFields fs vs' = true) :
    renderFields fs vs = renderFields fs vs' := by
  match fs, vs, vs' with
  | [], [], [] => rfl
  | (n, t) :: fs, v :: vs, v' :: vs' =>
    simp only [singularFields, Bool.and_eq_true] at hs
    simp only [hasTyFields, Bool.and_eq_true] at hv hv'
    simp only [renderFields, render_singular t v v' hs.1 hv.1 hv'.1,
      renderFields_singular fs vs vs' hs.2 hv.2 hv'.2]
  | [], _ :: _, _ => simp [hasTyFields] at hv
  | [], [], _ :: _ => simp [hasTyFields] at hv'
  | _ :: _, [], _ => simp [hasTyFields] at hv
  | _ :: _, _ :: _, [] => simp [hasTyFields] at hv'
end

end BinlogVerif.Mser
