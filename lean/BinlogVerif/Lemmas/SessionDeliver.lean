import BinlogVerif.Lemmas.SessionMeta
/-
  Delivery invariant of the session model (C02, C13): every accepted event of a writer is either
  delivered (in order) or still queued in one of the writer's channels; nothing is lost when the
  consumer's observation of "closed" synchronises with the writer's last commit (`SyncOnClose`).
-/
namespace BinlogVerif.Sess
open BinlogVerif

/-! ### definitions -/

/-- the events of writer `w` in a ghost log, in log order -/
def ofW (w : Nat) (l : List (Nat × Entry)) : List Entry := (l.filter (fun x => x.1 == w)).map (·.2)

/-- the events of writer `w` that are still queued: its channels in creation order, each oldest first -/
def pendingOf (w : Nat) (chs : List Chan) : List Entry := (chs.filter (fun c => c.owner == w)).flatMap (·.entries)

/-- the poll used when the oracle list is too short (`pollAll` uses `headD` with this value) -/
abbrev defaultPoll : Poll := ⟨false, 0, 0⟩

/-- Observing the closed state of a channel synchronises with the writer's last commit: a poll that
    sees "closed" on a closed channel sees all of its entries.  Positional: the poll used for the
    i-th channel is `polls[i]` (default `⟨false,0,0⟩`), exactly as `pollAll` does. -/
def SyncOnClose : List Chan → List Poll → Prop
  | [], _ => True
  | c :: cs, ps =>
    ((ps.headD ⟨false, 0, 0⟩).sawClosed = true → c.closed = true →
        c.entries.length ≤ pollN c (ps.headD ⟨false, 0, 0⟩)) ∧ SyncOnClose cs ps.tail

/-- the consume happens-after the last call of writer `w`: the poll of each of its channels
    sees all its commits (positional, as `SyncOnClose`) -/
def SeesAll (w : Nat) : List Chan → List Poll → Prop
  | [], _ => True
  | c :: cs, ps =>
    (c.owner = w → c.entries.length ≤ pollN c (ps.headD ⟨false, 0, 0⟩)) ∧ SeesAll w cs ps.tail

/-- the extra side condition of an operation: `SyncOnClose` for a consume -/
def SyncOk (s : Session) : Op → Prop
  | .consume polls => SyncOnClose s.channels polls
  | _ => True

/-- trace side condition: `OpOk` for every op and `SyncOnClose` for every consume, each in the
    state where the op runs -/
def SyncTrace : Session → List Op → Prop
  | _, [] => True
  | s, op :: ops => OpOk s op ∧ SyncOk s op ∧ ∀ s', step s op = some s' → SyncTrace s' ops

theorem SyncTrace.traceOk : ∀ {s : Session} {ops : List Op}, SyncTrace s ops → TraceOk s ops
  | _, [], _ => trivial
  | _, _ :: _, h => ⟨h.1, fun s' hs => (h.2.2 s' hs).traceOk⟩

/-- induction principle over executions under `SyncTrace` -/
theorem exec_induction_sync (P : Session → Prop) (s : Session) (ops : List Op) (s' : Session)
    (h0 : P s) (hok : SyncTrace s ops)
    (hstep : ∀ s op s1, P s → OpOk s op → SyncOk s op → step s op = some s1 → P s1)
    (hrun : exec s ops = some s') : P s' := by
  induction ops generalizing s with
  | nil => simp [exec] at hrun; subst hrun; exact h0
  | cons op ops ih =>
    simp only [exec] at hrun
    cases hs : step s op with
    | none => simp [hs] at hrun
    | some s1 =>
      simp only [hs] at hrun
      exact ih s1 (hstep s op s1 h0 hok.1 hok.2.1 hs) (hok.2.2 s1 hs) hrun

theorem exec_append (s : Session) (a b : List Op) :
    exec s (a ++ b) = (exec s a).bind (fun s1 => exec s1 b) := by
  induction a generalizing s with
  | nil => simp [exec]
  | cons op ops ih =>
    simp only [List.cons_append, exec]
    cases step s op with
    | none => simp
    | some s1 => simp [ih]

theorem syncTrace_append (s s1 : Session) (a b : List Op) (h : SyncTrace s (a ++ b))
    (hrun : exec s a = some s1) : SyncTrace s a ∧ SyncTrace s1 b := by
  induction a generalizing s with
  | nil => simp [exec] at hrun; subst hrun; exact ⟨trivial, h⟩
  | cons op ops ih =>
    simp only [exec] at hrun
    cases hs : step s op with
    | none => simp [hs] at hrun
    | some s2 =>
      simp only [hs] at hrun
      have h' := ih s2 (h.2.2 s2 hs) hrun
      refine ⟨⟨h.1, h.2.1, ?_⟩, h'.2⟩
      intro s3 hs3
      rw [hs] at hs3
      injection hs3 with hs3
      subst hs3
      exact h'.1

/-! ### `ofW` and `pendingOf` -/

@[simp] theorem ofW_nil (w : Nat) : ofW w [] = [] := rfl

theorem ofW_append (w : Nat) (a b : List (Nat × Entry)) : ofW w (a ++ b) = ofW w a ++ ofW w b := by
  simp [ofW]

theorem ofW_single (w w' : Nat) (e : Entry) : ofW w [(w', e)] = if w' = w then [e] else [] := by
  by_cases h : w' = w <;> simp [ofW, h]

theorem ofW_map_owner (w o : Nat) (l : List Entry) :
    ofW w (l.map (fun e => (o, e))) = if o = w then l else [] := by
  induction l with
  | nil => simp
  | cons e es ih =>
    have : (e :: es).map (fun e => (o, e)) = [(o, e)] ++ es.map (fun e => (o, e)) := rfl
    rw [this, ofW_append, ih, ofW_single]
    by_cases h : o = w <;> simp [h]

@[simp] theorem pendingOf_nil (w : Nat) : pendingOf w [] = [] := rfl

theorem pendingOf_cons (w : Nat) (c : Chan) (cs : List Chan) :
    pendingOf w (c :: cs) = (if c.owner = w then c.entries else []) ++ pendingOf w cs := by
  by_cases h : c.owner = w <;> simp [pendingOf, h]

theorem pendingOf_append (w : Nat) (a b : List Chan) : pendingOf w (a ++ b) = pendingOf w a ++ pendingOf w b := by
  simp [pendingOf]

theorem pendingOf_none (w : Nat) (L : List Chan) (h : ∀ c ∈ L, c.owner ≠ w) : pendingOf w L = [] := by
  induction L with
  | nil => rfl
  | cons c cs ih =>
    rw [pendingOf_cons, if_neg (h c (by simp)), ih (fun x hx => h x (by simp [hx]))]
    rfl

theorem pendingOf_map (w : Nat) (L : List Chan) (g : Chan → Chan)
    (hg : ∀ c, (g c).owner = c.owner ∧ (g c).entries = c.entries) : pendingOf w (L.map g) = pendingOf w L := by
  induction L with
  | nil => rfl
  | cons c cs ih => rw [List.map_cons, pendingOf_cons, pendingOf_cons, ih, (hg c).1, (hg c).2]

/-! ### every channel of a writer but its last one is sealed -/

def SealedButLast (w : Nat) : List Chan → Prop
  | [] => True
  | c :: cs => (c.owner = w → (∃ c' ∈ cs, c'.owner = w) → c.sealed = true) ∧ SealedButLast w cs

theorem sealedButLast_none (w : Nat) (L : List Chan) (h : ∀ c ∈ L, c.owner ≠ w) : SealedButLast w L := by
  induction L with
  | nil => trivial
  | cons c cs ih =>
    exact ⟨fun hc => absurd hc (h c (by simp)), ih (fun x hx => h x (by simp [hx]))⟩

theorem sealedButLast_append_none (w : Nat) (A B : List Chan) (h : ∀ c ∈ B, c.owner ≠ w) :
    SealedButLast w (A ++ B) ↔ SealedButLast w A := by
  induction A with
  | nil => simp [SealedButLast, sealedButLast_none w B h]
  | cons c cs ih =>
    simp only [List.cons_append, SealedButLast, ih]
    have : (∃ c' ∈ cs ++ B, c'.owner = w) ↔ (∃ c' ∈ cs, c'.owner = w) := by
      constructor
      · rintro ⟨c', hc', ho⟩
        simp only [List.mem_append] at hc'
        cases hc' with
        | inl h' => exact ⟨c', h', ho⟩
        | inr h' => exact absurd ho (h c' h')
      · rintro ⟨c', hc', ho⟩
        exact ⟨c', by simp [hc'], ho⟩
    rw [this]

theorem sealedButLast_append_has (w : Nat) (A B : List Chan) (h : ∃ c ∈ B, c.owner = w) :
    SealedButLast w (A ++ B) ↔ (∀ c ∈ A, c.owner = w → c.sealed = true) ∧ SealedButLast w B := by
  induction A with
  | nil => simp
  | cons c cs ih =>
    simp only [List.cons_append, SealedButLast, ih]
    have hex : ∃ c' ∈ cs ++ B, c'.owner = w := by
      obtain ⟨c', hc', ho⟩ := h
      exact ⟨c', by simp [hc'], ho⟩
    constructor
    · rintro ⟨h1, h2, h3⟩
      refine ⟨?_, h3⟩
      intro x hx ho
      simp only [List.mem_cons] at hx
      cases hx with
      | inl hx => subst hx; exact h1 ho hex
      | inr hx => exact h2 x hx ho
    · rintro ⟨h1, h2⟩
      exact ⟨fun ho _ => h1 c (by simp) ho, fun x hx ho => h1 x (by simp [hx]) ho, h2⟩

theorem sealedButLast_map (w : Nat) (L : List Chan) (g : Chan → Chan)
    (hg : ∀ c, (g c).owner = c.owner ∧ (c.sealed = true → (g c).sealed = true))
    (h : SealedButLast w L) : SealedButLast w (L.map g) := by
  induction L with
  | nil => trivial
  | cons c cs ih =>
    refine ⟨?_, ih h.2⟩
    intro ho hex
    rw [(hg c).1] at ho
    apply (hg c).2
    apply h.1 ho
    obtain ⟨c', hc', ho'⟩ := hex
    simp only [List.mem_map] at hc'
    obtain ⟨c0, hc0, rfl⟩ := hc'
    exact ⟨c0, hc0, by rw [← (hg c0).1]; exact ho'⟩

/-! ### `pollAll` -/

/-- the channels that remain after polling are channels that were polled, with the same identity -/
theorem pollAll_chans_sub (L : List Chan) (P : List Poll) :
    ∀ c' ∈ (pollAll L P).chans, ∃ c ∈ L, c'.owner = c.owner ∧ c'.cid = c.cid ∧
      c'.closed = c.closed ∧ c'.sealed = c.sealed := by
  induction L generalizing P with
  | nil => simp [pollAll]
  | cons c cs ih =>
    intro c' hc'
    simp only [pollAll] at hc'
    have hrest : c' ∈ (pollAll cs P.tail).chans → ∃ c0 ∈ c :: cs, c'.owner = c0.owner ∧ c'.cid = c0.cid ∧
        c'.closed = c0.closed ∧ c'.sealed = c0.sealed := by
      intro h
      obtain ⟨c0, h0, hm⟩ := ih P.tail c' h
      exact ⟨c0, by simp [h0], hm⟩
    split at hc'
    · exact hrest hc'
    · simp only [List.mem_cons] at hc'
      cases hc' with
      | inr h => exact hrest h
      | inl h =>
        subst h
        obtain ⟨h1, h2, h3, h4⟩ := pollChan_owner c (P.headD ⟨false, 0, 0⟩)
        exact ⟨c, by simp, h1, h4, h3, h2⟩

/-- the cids after polling are a sub-list of the cids before -/
theorem pollAll_cids_sublist (L : List Chan) (P : List Poll) :
    ((pollAll L P).chans.map (·.cid)).Sublist (L.map (·.cid)) := by
  induction L generalizing P with
  | nil => simp [pollAll]
  | cons c cs ih =>
    simp only [pollAll]
    split
    · exact List.Sublist.cons _ (ih P.tail)
    · simp only [List.map_cons, (pollChan_owner c _).2.2.2]
      exact List.Sublist.cons_cons _ (ih P.tail)

/-- **key lemma**: polling all channels, for one writer `w`: what is delivered for `w` followed by
    what remains queued for `w` is what was queued for `w`, and nothing is dropped -/
theorem pollAll_key (w : Nat) (L : List Chan) (P : List Poll)
    (hs : SealedButLast w L) (hsync : SyncOnClose L P) :
    ofW w (pollAll L P).delivered ++ pendingOf w (pollAll L P).chans = pendingOf w L ∧
    SealedButLast w (pollAll L P).chans := by
  induction L generalizing P with
  | nil => simp [pollAll, SealedButLast]
  | cons c cs ih =>
    obtain ⟨ih1, ih2⟩ := ih P.tail hs.2 hsync.2
    have hsy := hsync.1
    simp only [pollAll]
    generalize P.headD ⟨false, 0, 0⟩ = p at hsy ⊢
    obtain ⟨ho, hse, hcl, hcid⟩ := pollChan_owner c p
    rw [pollChan_removed, pollChan_batch, ofW_append, ofW_map_owner, pendingOf_cons]
    by_cases hrem : (p.sawClosed && c.closed) = true
    · -- the channel is removed: by `SyncOnClose` the batch is everything
      simp only [hrem, if_true]
      refine ⟨?_, ih2⟩
      simp only [Bool.and_eq_true] at hrem
      have hall := hsy hrem.1 hrem.2
      rw [List.take_of_length_le hall]
      rw [List.append_assoc, ih1]
    · simp only [hrem, Bool.false_eq_true, if_false]
      refine ⟨?_, ?_, ih2⟩
      · rw [pendingOf_cons, pollChan_entries, ho]
        by_cases hw : c.owner = w
        · simp only [hw, if_true]
          by_cases hex : ∃ c' ∈ cs, c'.owner = w
          · -- a later channel of `w` exists: `c` is sealed, the batch is everything
            have hsl := hs.1 hw hex
            have hn : pollN c p = c.entries.length := by simp [pollN, hsl]
            rw [hn, List.take_length, List.drop_length, List.nil_append, List.append_assoc, ih1]
          · -- `c` is the last channel of `w`: the tail contributes nothing for `w`
            have hnone : pendingOf w cs = [] :=
              pendingOf_none w cs (fun x hx hxo => hex ⟨x, hx, hxo⟩)
            rw [hnone] at ih1
            have h1 : ofW w (pollAll cs P.tail).delivered = [] := (List.append_eq_nil_iff.mp ih1).1
            have h2 : pendingOf w (pollAll cs P.tail).chans = [] := (List.append_eq_nil_iff.mp ih1).2
            rw [h1, h2, hnone]
            simp
        · simp only [hw, if_false, List.nil_append]
          exact ih1
      · intro hw hex
        rw [hse]
        rw [ho] at hw
        apply hs.1 hw
        obtain ⟨c', hc', ho'⟩ := hex
        obtain ⟨c0, hc0, h0, _⟩ := pollAll_chans_sub cs P.tail c' hc'
        exact ⟨c0, hc0, by rw [← h0]; exact ho'⟩

/-- nothing is dropped when closing synchronises -/
theorem pollAll_lost (L : List Chan) (P : List Poll) (hsync : SyncOnClose L P) : (pollAll L P).lost = [] := by
  induction L generalizing P with
  | nil => simp [pollAll]
  | cons c cs ih =>
    have hsy := hsync.1
    simp only [pollAll, ih P.tail hsync.2, List.append_nil]
    generalize P.headD ⟨false, 0, 0⟩ = p at hsy ⊢
    rw [pollChan_dropped]
    split
    · rename_i hrem
      simp only [Bool.and_eq_true] at hrem
      rw [List.drop_eq_nil_of_le (hsy hrem.1 hrem.2)]
      rfl
    · rfl

/-- a poll that sees everything of `w`'s channels leaves nothing of `w` queued -/
theorem pollAll_seesAll (w : Nat) (L : List Chan) (P : List Poll) (h : SeesAll w L P) :
    pendingOf w (pollAll L P).chans = [] := by
  induction L generalizing P with
  | nil => simp [pollAll]
  | cons c cs ih =>
    have h1 := h.1
    have ih' := ih P.tail h.2
    simp only [pollAll]
    generalize P.headD ⟨false, 0, 0⟩ = p at h1 ⊢
    split
    · exact ih'
    · rw [pendingOf_cons, ih', pollChan_entries, (pollChan_owner c p).1]
      by_cases hw : c.owner = w
      · simp [hw, List.drop_eq_nil_of_le (h1 hw)]
      · simp [hw]

end BinlogVerif.Sess

namespace BinlogVerif.Sess
open BinlogVerif

/-! ### outputs versus the delivered log (C13) -/

theorem emitAll_flat (s : Session) (ws : List Write) :
    (emitAll s ws).outputs.flatten.flatten = s.outputs.flatten.flatten ++ ws.flatten := by
  unfold emitAll
  cases hr : s.outputs.reverse with
  | nil => simp at hr; simp [hr]
  | cons cur older =>
    have : s.outputs = older.reverse ++ [cur] := by
      have := congrArg List.reverse hr
      simpa using this
    simp [this]

theorem emitAll_nextCid (s : Session) (ws : List Write) : (emitAll s ws).nextCid = s.nextCid := by
  unfold emitAll
  cases s.outputs.reverse <;> simp

theorem filter_isEvent_noEvents {l : List Entry} (h : noEvents l) : l.filter Entry.isEvent = [] := by
  rw [List.filter_eq_nil_iff]
  intro e he
  simp [h e he]

theorem filter_isEvent_all {l : List Entry} (h : ∀ e ∈ l, ∃ sid clock args, e = Entry.event sid clock args) :
    l.filter Entry.isEvent = l := by
  rw [List.filter_eq_self]
  intro e he
  obtain ⟨a, b, c, rfl⟩ := h e he
  rfl

/-- the events written while polling the channels are exactly the delivered events, in order -/
theorem pollAll_events (L : List Chan) (P : List Poll) (n : Nat) (h : ChanOk L n) :
    ((pollAll L P).writes.flatten).filter Entry.isEvent = (pollAll L P).delivered.map (·.2) := by
  induction L generalizing P with
  | nil => simp [pollAll]
  | cons c cs ih =>
    have ih' := ih P.tail (fun x hx => h x (by simp [hx]))
    simp only [pollAll, List.flatten_append, List.filter_append, List.map_append, ih']
    congr 1
    generalize P.headD ⟨false, 0, 0⟩ = p
    rw [pollChan_writes_flat, pollChan_batch]
    have hall : (c.entries.take (pollN c p)).filter Entry.isEvent = c.entries.take (pollN c p) := by
      apply filter_isEvent_all
      intro e he
      obtain ⟨a, b, d, he', _⟩ := h c (by simp) e (List.mem_of_mem_take he)
      exact ⟨a, b, d, he'⟩
    have hmap : (c.entries.take (pollN c p)).map ((fun x : Nat × Entry => x.2) ∘ fun e => (c.owner, e))
        = c.entries.take (pollN c p) := by
      simp [Function.comp_def]
    rw [List.map_map, hmap]
    split
    · rename_i he
      have : c.entries.take (pollN c p) = [] := by simpa using he
      simp [this]
    · simp [Entry.isEvent, hall]

/-- all outputs, concatenated, carry exactly the delivered events -/
def OutInv (s : Session) : Prop :=
  (s.outputs.flatten.flatten).filter Entry.isEvent = s.delivered.map (·.2)

/-- operations other than consume and rotate touch neither the outputs nor the delivery ghosts -/
theorem step_frame (s : Session) (op : Op) (s' : Session) (h : step s op = some s')
    (hc : ∀ polls, op ≠ .consume polls) (hr : op ≠ .rotate) :
    s'.outputs = s.outputs ∧ s'.delivered = s.delivered ∧ s'.lost = s.lost := by
  cases op with
  | createWriter w id name =>
    simp only [step] at h
    injection h with h
    subst h
    split <;> split <;> simp [updChan, setWriter, newChan]
  | setWriterId w id =>
    simp only [step, Option.map_eq_some_iff] at h
    obtain ⟨cid, _, rfl⟩ := h
    simp [updChan]
  | setWriterName w name =>
    simp only [step, Option.map_eq_some_iff] at h
    obtain ⟨cid, _, rfl⟩ := h
    simp [updChan]
  | addSource src =>
    simp only [step] at h
    injection h with h
    subst h
    simp
  | log w sid clock args fits =>
    simp only [step] at h
    cases hl : lookupWriter s w with
    | none => simp [hl] at h
    | some cid =>
      simp only [hl] at h
      split at h
      · injection h with h
        subst h
        simp [updChan]
      · split at h
        · cases h
        · injection h with h
          subst h
          simp [updChan, setWriter, newChan]
  | destroyWriter w =>
    simp only [step, Option.map_eq_some_iff] at h
    obtain ⟨cid, _, rfl⟩ := h
    simp [updChan, setWriter]
  | setClockSync cs =>
    simp only [step] at h
    injection h with h
    subst h
    simp
  | consume polls => exact absurd rfl (hc polls)
  | rotate => exact absurd rfl hr

theorem outInv_step (s : Session) (op : Op) (s' : Session) (hm : MetaInv s) (h : OutInv s)
    (hstep : step s op = some s') : OutInv s' := by
  cases op with
  | consume polls =>
    simp only [step] at hstep
    injection hstep with hstep
    subst hstep
    unfold OutInv consume
    obtain ⟨_, _, _, _, _, _, _, f8, _⟩ := emitAll_fields
      { s with consumeClockSync := false, sourcesConsumed := s.sources.length,
               channels := (pollAll s.channels polls).chans,
               totalConsumed := s.totalConsumed + ((if s.consumeClockSync then (writeBytes s.clockSyncs).length else 0)
                 + (writeBytes (s.sources.drop s.sourcesConsumed)).length + (pollAll s.channels polls).bytes),
               delivered := s.delivered ++ (pollAll s.channels polls).delivered,
               lost := s.lost ++ (pollAll s.channels polls).lost } (consumeWrites s polls)
    simp only at f8 ⊢
    rw [emitAll_flat, f8]
    simp only [List.filter_append, List.map_append]
    unfold OutInv at h
    rw [h]
    congr 1
    unfold consumeWrites
    have hcs : (if s.consumeClockSync then [s.clockSyncs] else []).flatten.filter Entry.isEvent = [] := by
      split
      · simp only [List.flatten_cons, List.flatten_nil, List.append_nil]
        exact filter_isEvent_noEvents (noEvents_of_css hm.css_are)
      · rfl
    have hsrc : (s.sources.drop s.sourcesConsumed).filter Entry.isEvent = [] :=
      filter_isEvent_noEvents (noEvents_of_sources (fun e he => hm.srcs_are e (List.mem_of_mem_drop he)))
    simp only [List.flatten_append, List.filter_append, hcs, List.flatten_cons, List.flatten_nil,
      List.append_nil, hsrc, List.nil_append]
    exact pollAll_events s.channels polls _ hm.chans
  | rotate =>
    simp only [step] at hstep
    injection hstep with hstep
    subst hstep
    unfold OutInv reconsumeMetadata
    obtain ⟨_, _, _, _, _, _, _, f8, _⟩ := emitAll_fields
      { s with outputs := s.outputs ++ [[]],
               totalConsumed := s.totalConsumed + ((writeBytes s.clockSyncs).length
                 + (writeBytes (s.sources.take s.sourcesConsumed)).length) }
      [s.clockSyncs, s.sources.take s.sourcesConsumed]
    simp only at f8 ⊢
    rw [emitAll_flat, f8]
    unfold OutInv at h
    have hcs : s.clockSyncs.filter Entry.isEvent = [] := filter_isEvent_noEvents (noEvents_of_css hm.css_are)
    have hsrc : (s.sources.take s.sourcesConsumed).filter Entry.isEvent = [] :=
      filter_isEvent_noEvents (noEvents_of_sources (fun e he => hm.srcs_are e (List.mem_of_mem_take he)))
    simp [List.filter_append, h, hcs, hsrc]
  | createWriter w id name =>
    obtain ⟨a, b, _⟩ := step_frame s _ s' hstep (fun _ => by simp) (by simp)
    unfold OutInv; rw [a, b]; exact h
  | setWriterId w id =>
    obtain ⟨a, b, _⟩ := step_frame s _ s' hstep (fun _ => by simp) (by simp)
    unfold OutInv; rw [a, b]; exact h
  | setWriterName w name =>
    obtain ⟨a, b, _⟩ := step_frame s _ s' hstep (fun _ => by simp) (by simp)
    unfold OutInv; rw [a, b]; exact h
  | addSource src =>
    obtain ⟨a, b, _⟩ := step_frame s _ s' hstep (fun _ => by simp) (by simp)
    unfold OutInv; rw [a, b]; exact h
  | log w sid clock args fits =>
    obtain ⟨a, b, _⟩ := step_frame s _ s' hstep (fun _ => by simp) (by simp)
    unfold OutInv; rw [a, b]; exact h
  | destroyWriter w =>
    obtain ⟨a, b, _⟩ := step_frame s _ s' hstep (fun _ => by simp) (by simp)
    unfold OutInv; rw [a, b]; exact h
  | setClockSync cs =>
    obtain ⟨a, b, _⟩ := step_frame s _ s' hstep (fun _ => by simp) (by simp)
    unfold OutInv; rw [a, b]; exact h

/-- in every reachable state the outputs carry exactly the delivered events -/
theorem outInv_exec (cs : ClockSync) (ops : List Op) (s : Session) (hok : TraceOk (init cs) ops)
    (hrun : exec (init cs) ops = some s) : OutInv s :=
  (exec_induction (fun s => MetaInv s ∧ OutInv s) (init cs) ops s
    ⟨metaInv_init cs, by simp [OutInv, init]⟩ hok
    (fun s op s1 h ho hs => ⟨metaInv_step s op s1 h.1 ho hs, outInv_step s op s1 h.1 h.2 hs⟩) hrun).2

end BinlogVerif.Sess

namespace BinlogVerif.Sess
open BinlogVerif

/-! ### writers and their current channel -/

def lookupIn (wc : List (Nat × Nat)) (w : Nat) : Option Nat := (wc.find? (·.1 == w)).map (·.2)

theorem lookupWriter_eq (s : Session) (w : Nat) : lookupWriter s w = lookupIn s.writerChan w := rfl

theorem lookupIn_del_same (wc : List (Nat × Nat)) (w : Nat) : lookupIn (wc.filter (·.1 != w)) w = none := by
  simp [lookupIn, List.find?_eq_none]

theorem lookupIn_del_other (wc : List (Nat × Nat)) (w w' : Nat) (hw : w' ≠ w) :
    lookupIn (wc.filter (·.1 != w)) w' = lookupIn wc w' := by
  unfold lookupIn
  rw [List.find?_filter]
  congr 1
  induction wc with
  | nil => rfl
  | cons x xs ih =>
    simp only [List.find?_cons, ih]
    by_cases h : x.1 = w'
    · have : x.1 ≠ w := fun e => hw (h ▸ e)
      simp [h, hw]
    · have hb : (x.1 == w') = false := by simp [h]
      simp [hb]

theorem lookupIn_append_none (a b : List (Nat × Nat)) (w : Nat) (h : lookupIn a w = none) :
    lookupIn (a ++ b) w = lookupIn b w := by
  unfold lookupIn at h ⊢
  simp only [Option.map_eq_none_iff] at h
  rw [List.find?_append, h]
  rfl

theorem lookupIn_append_some (a b : List (Nat × Nat)) (w : Nat) (h : lookupIn b w = none) :
    lookupIn (a ++ b) w = lookupIn a w := by
  unfold lookupIn at h ⊢
  simp only [Option.map_eq_none_iff] at h
  rw [List.find?_append, h]
  simp

theorem lookupIn_set_same (wc : List (Nat × Nat)) (w c : Nat) :
    lookupIn (wc.filter (·.1 != w) ++ [(w, c)]) w = some c := by
  rw [lookupIn_append_none _ _ _ (lookupIn_del_same wc w)]
  simp [lookupIn]

theorem lookupIn_set_other (wc : List (Nat × Nat)) (w w' c : Nat) (hw : w' ≠ w) :
    lookupIn (wc.filter (·.1 != w) ++ [(w, c)]) w' = lookupIn wc w' := by
  rw [lookupIn_append_some, lookupIn_del_other wc w w' hw]
  have : ¬ w = w' := fun e => hw e.symm
  simp [lookupIn, this]

/-- the body of `updChan` -/
def upd (cid : Nat) (f : Chan → Chan) (c : Chan) : Chan := if c.cid == cid then f c else c

theorem updChan_channels (s : Session) (cid : Nat) (f : Chan → Chan) :
    (updChan s cid f).channels = s.channels.map (upd cid f) := rfl

theorem upd_of_ne (cid : Nat) (f : Chan → Chan) (c : Chan) (h : c.cid ≠ cid) : upd cid f c = c := by
  simp [upd, h]

theorem upd_of_eq (cid : Nat) (f : Chan → Chan) (c : Chan) (h : c.cid = cid) : upd cid f c = f c := by
  simp [upd, h]

theorem map_upd_none (L : List Chan) (cid : Nat) (f : Chan → Chan) (h : ∀ x ∈ L, x.cid ≠ cid) :
    L.map (upd cid f) = L := by
  induction L with
  | nil => rfl
  | cons c cs ih =>
    rw [List.map_cons, upd_of_ne cid f c (h c (by simp)), ih (fun x hx => h x (by simp [hx]))]

theorem map_upd_decomp (pre post : List Chan) (c : Chan) (cid : Nat) (f : Chan → Chan)
    (h1 : ∀ x ∈ pre, x.cid ≠ cid) (h2 : ∀ x ∈ post, x.cid ≠ cid) (hc : c.cid = cid) :
    (pre ++ c :: post).map (upd cid f) = pre ++ f c :: post := by
  rw [List.map_append, List.map_cons, map_upd_none pre cid f h1, map_upd_none post cid f h2, upd_of_eq cid f c hc]

theorem nodup_decomp (pre post : List Chan) (c : Chan) (h : ((pre ++ c :: post).map (·.cid)).Nodup) :
    (∀ x ∈ pre, x.cid ≠ c.cid) ∧ (∀ x ∈ post, x.cid ≠ c.cid) := by
  rw [List.map_append, List.map_cons, List.nodup_append] at h
  obtain ⟨_, h2, h3⟩ := h
  constructor
  · intro x hx
    exact h3 x.cid (List.mem_map.mpr ⟨x, hx, rfl⟩) c.cid (by simp)
  · intro x hx he
    rw [List.nodup_cons] at h2
    exact h2.1 (List.mem_map.mpr ⟨x, hx, he⟩)

/-- `cid` names the current channel of `w`: it exists, is open, belongs to `w`, and is the last
    channel of `w` in creation order -/
def CurOf (L : List Chan) (w cid : Nat) : Prop :=
  ∃ pre c post, L = pre ++ c :: post ∧ c.cid = cid ∧ c.owner = w ∧ c.closed = false ∧ ∀ c' ∈ post, c'.owner ≠ w

theorem curOf_map (L : List Chan) (w cid : Nat) (g : Chan → Chan)
    (hg : ∀ c, (g c).owner = c.owner ∧ (g c).cid = c.cid)
    (hcl : ∀ c ∈ L, c.owner = w → (g c).closed = c.closed) (h : CurOf L w cid) : CurOf (L.map g) w cid := by
  obtain ⟨pre, c, post, rfl, h1, h2, h3, h4⟩ := h
  refine ⟨pre.map g, g c, post.map g, by simp, by rw [(hg c).2, h1], by rw [(hg c).1, h2],
    by rw [hcl c (by simp) h2, h3], ?_⟩
  intro c' hc'
  simp only [List.mem_map] at hc'
  obtain ⟨c0, hc0, rfl⟩ := hc'
  rw [(hg c0).1]
  exact h4 c0 hc0

theorem curOf_append_other (L : List Chan) (w cid : Nat) (n : Chan) (hn : n.owner ≠ w) (h : CurOf L w cid) :
    CurOf (L ++ [n]) w cid := by
  obtain ⟨pre, c, post, rfl, h1, h2, h3, h4⟩ := h
  refine ⟨pre, c, post ++ [n], by simp, h1, h2, h3, ?_⟩
  intro c' hc'
  simp only [List.mem_append, List.mem_singleton] at hc'
  cases hc' with
  | inl h' => exact h4 c' h'
  | inr h' => subst h'; exact hn

theorem curOf_append_new (L : List Chan) (n : Chan) (hn : n.closed = false) : CurOf (L ++ [n]) n.owner n.cid :=
  ⟨L, n, [], rfl, rfl, rfl, hn, by simp⟩

theorem curOf_cons (L : List Chan) (w cid : Nat) (a : Chan) (h : CurOf L w cid) : CurOf (a :: L) w cid := by
  obtain ⟨pre, c, post, rfl, h1, h2, h3, h4⟩ := h
  exact ⟨a :: pre, c, post, rfl, h1, h2, h3, h4⟩

/-- with unique cids, the channel named by `cid` is the only one with that cid -/
theorem curOf_owner_of_cid (L : List Chan) (w cid : Nat) (hn : (L.map (·.cid)).Nodup) (h : CurOf L w cid) :
    ∀ x ∈ L, x.cid = cid → x.owner = w := by
  obtain ⟨pre, c, post, rfl, h1, h2, h3, h4⟩ := h
  obtain ⟨d1, d2⟩ := nodup_decomp pre post c hn
  intro x hx hxc
  simp only [List.mem_append, List.mem_cons] at hx
  rcases hx with hx | hx | hx
  · exact absurd (hxc.trans h1.symm) (d1 x hx)
  · rw [hx]; exact h2
  · exact absurd (hxc.trans h1.symm) (d2 x hx)

/-- an open current channel survives polling and stays current -/
theorem curOf_pollAll (L : List Chan) (P : List Poll) (w cid : Nat) (h : CurOf L w cid) :
    CurOf (pollAll L P).chans w cid := by
  obtain ⟨pre, c, post, rfl, h1, h2, h3, h4⟩ := h
  induction pre generalizing P with
  | nil =>
    simp only [List.nil_append, pollAll]
    rw [pollChan_removed, h3]
    simp only [Bool.and_false, Bool.false_eq_true, if_false]
    obtain ⟨o1, o2, o3, o4⟩ := pollChan_owner c (P.headD ⟨false, 0, 0⟩)
    refine ⟨[], _, _, rfl, by rw [o4, h1], by rw [o1, h2], by rw [o3, h3], ?_⟩
    intro c' hc'
    obtain ⟨c0, hc0, ho, _⟩ := pollAll_chans_sub post P.tail c' hc'
    rw [ho]
    exact h4 c0 hc0
  | cons a pre ih =>
    simp only [List.cons_append, pollAll]
    split
    · exact ih P.tail
    · exact curOf_cons _ _ _ _ (ih P.tail)

/-! ### the delivery invariant -/

structure DInv (L : List Chan) (next : Nat) (wc : List (Nat × Nat)) (acc del lost : List (Nat × Entry)) : Prop where
  order : ∀ w, ofW w acc = ofW w del ++ pendingOf w L
  nolost : lost = []
  sealed : ∀ w, SealedButLast w L
  cids : (L.map (·.cid)).Nodup
  cid_lt : ∀ c ∈ L, c.cid < next
  cur : ∀ w cid, lookupIn wc w = some cid → CurOf L w cid

/-- the delivery invariant of a session state -/
def DelivInv (s : Session) : Prop :=
  DInv s.channels s.nextCid s.writerChan s.accepted s.delivered s.lost

theorem dinv_init (cs : ClockSync) : DelivInv (init cs) := by
  refine ⟨fun w => by simp [init], rfl, fun w => trivial, by simp [init], by simp [init], ?_⟩
  intro w cid h
  simp [init, lookupIn] at h

/-- changing channels in place (identity and owner kept, seals only added) -/
theorem dinv_map {L : List Chan} {next : Nat} {wc wc' : List (Nat × Nat)} {acc acc' del lost : List (Nat × Entry)}
    (g : Chan → Chan)
    (hg : ∀ c, (g c).owner = c.owner ∧ (g c).cid = c.cid ∧ (c.sealed = true → (g c).sealed = true))
    (h : DInv L next wc acc del lost)
    (horder : ∀ w, ofW w acc' = ofW w del ++ pendingOf w (L.map g))
    (hcur : ∀ w cid, lookupIn wc' w = some cid → CurOf (L.map g) w cid) :
    DInv (L.map g) next wc' acc' del lost := by
  have hcid : (L.map g).map (·.cid) = L.map (·.cid) := by
    rw [List.map_map]
    apply List.map_congr_left
    intro c _
    exact (hg c).2.1
  refine ⟨horder, h.nolost, fun w => sealedButLast_map w L g (fun c => ⟨(hg c).1, (hg c).2.2⟩) (h.sealed w),
    by rw [hcid]; exact h.cids, ?_, hcur⟩
  intro c hc
  simp only [List.mem_map] at hc
  obtain ⟨c0, hc0, rfl⟩ := hc
  rw [(hg c0).2.1]
  exact h.cid_lt c0 hc0

theorem upd_keeps (cid : Nat) (f : Chan → Chan) (P : Chan → Chan → Prop) (hrefl : ∀ c, P c c) (hf : ∀ c, P c (f c)) :
    ∀ c, P c (upd cid f c) := by
  intro c
  unfold upd
  split
  · exact hf c
  · exact hrefl c

/-- an in-place change that keeps everything but the writer description -/
theorem dinv_map_benign {L : List Chan} {next : Nat} {wc : List (Nat × Nat)} {acc del lost : List (Nat × Entry)}
    (g : Chan → Chan)
    (hg : ∀ c, (g c).owner = c.owner ∧ (g c).cid = c.cid ∧ (g c).sealed = c.sealed ∧ (g c).closed = c.closed ∧
      (g c).entries = c.entries)
    (h : DInv L next wc acc del lost) : DInv (L.map g) next wc acc del lost := by
  apply dinv_map g (fun c => ⟨(hg c).1, (hg c).2.1, fun hs => by rw [(hg c).2.2.1]; exact hs⟩) h
  · intro w
    rw [pendingOf_map w L g (fun c => ⟨(hg c).1, (hg c).2.2.2.2⟩)]
    exact h.order w
  · intro w cid hl
    exact curOf_map L w cid g (fun c => ⟨(hg c).1, (hg c).2.1⟩) (fun c _ _ => (hg c).2.2.2.1) (h.cur w cid hl)

theorem delivInv_updChan_wp (s : Session) (cid : Nat) (f : Chan → Chan)
    (hf : ∀ c, (f c).owner = c.owner ∧ (f c).cid = c.cid ∧ (f c).sealed = c.sealed ∧ (f c).closed = c.closed ∧
      (f c).entries = c.entries)
    (h : DelivInv s) : DelivInv (updChan s cid f) := by
  unfold DelivInv
  have := dinv_map_benign (upd cid f)
    (upd_keeps cid f (fun c c' => c'.owner = c.owner ∧ c'.cid = c.cid ∧ c'.sealed = c.sealed ∧ c'.closed = c.closed ∧
      c'.entries = c.entries) (fun c => ⟨rfl, rfl, rfl, rfl, rfl⟩) hf) h
  exact this

/-- a new, empty, open channel for `w` is appended and becomes current; all older channels of `w`
    are sealed (there are none when the writer is created) -/
theorem dinv_create {L : List Chan} {next : Nat} {wc : List (Nat × Nat)} {acc del lost : List (Nat × Entry)}
    (w : Nat) (wp : WriterProp) (h : DInv L next wc acc del lost)
    (hsealed : ∀ c ∈ L, c.owner = w → c.sealed = true) :
    DInv (L ++ [{ cid := next, owner := w, wp := wp, entries := [], closed := false, sealed := false }]) (next + 1)
      (wc.filter (·.1 != w) ++ [(w, next)]) acc del lost := by
  refine ⟨?_, h.nolost, ?_, ?_, ?_, ?_⟩
  · intro w'
    rw [pendingOf_append, h.order w']
    simp [pendingOf_cons]
  · intro w'
    by_cases hw : w' = w
    · subst hw
      rw [sealedButLast_append_has w' L _ ⟨{ cid := next, owner := w', wp := wp, entries := [], closed := false, sealed := false }, by simp, rfl⟩]
      exact ⟨hsealed, by simp [SealedButLast]⟩
    · rw [sealedButLast_append_none w' L _ (by simp; exact fun e => hw e.symm)]
      exact h.sealed w'
  · rw [List.map_append, List.nodup_append]
    refine ⟨h.cids, by simp, ?_⟩
    intro a ha b hb
    simp only [List.map_cons, List.map_nil, List.mem_singleton] at hb
    simp only [List.mem_map] at ha
    obtain ⟨c, hc, rfl⟩ := ha
    have := h.cid_lt c hc
    omega
  · intro c hc
    simp only [List.mem_append, List.mem_singleton] at hc
    cases hc with
    | inl hc => have := h.cid_lt c hc; omega
    | inr hc => subst hc; simp
  · intro w' cid hl
    by_cases hw : w' = w
    · subst hw
      rw [lookupIn_set_same] at hl
      injection hl with hl
      subst hl
      exact curOf_append_new L { cid := next, owner := w', wp := wp, entries := [], closed := false, sealed := false } rfl
    · rw [lookupIn_set_other wc w w' next hw] at hl
      exact curOf_append_other L w' cid _ (fun e => hw e.symm) (h.cur w' cid hl)

/-- appending an event to the current channel of `w` -/
theorem pendingOf_upd_append (L : List Chan) (w cid : Nat) (e : Entry) (hn : (L.map (·.cid)).Nodup)
    (hc : CurOf L w cid) (w' : Nat) :
    pendingOf w' (L.map (upd cid (fun c => { c with entries := c.entries ++ [e] }))) =
      pendingOf w' L ++ (if w = w' then [e] else []) := by
  obtain ⟨pre, c, post, rfl, h1, h2, h3, h4⟩ := hc
  obtain ⟨d1, d2⟩ := nodup_decomp pre post c hn
  rw [h1] at d1 d2
  rw [map_upd_decomp pre post c cid _ d1 d2 h1]
  simp only [pendingOf_append, pendingOf_cons, h2]
  by_cases hw : w = w'
  · subst hw
    simp [pendingOf_none w post h4]
  · simp [hw]

theorem dinv_log_fits {L : List Chan} {next : Nat} {wc : List (Nat × Nat)} {acc del lost : List (Nat × Entry)}
    (w cid : Nat) (e : Entry) (h : DInv L next wc acc del lost) (hl : lookupIn wc w = some cid) :
    DInv (L.map (upd cid (fun c => { c with entries := c.entries ++ [e] }))) next wc (acc ++ [(w, e)]) del lost := by
  have hk := upd_keeps cid (fun c => { c with entries := c.entries ++ [e] })
    (fun c c' => c'.owner = c.owner ∧ c'.cid = c.cid ∧ c'.sealed = c.sealed ∧ c'.closed = c.closed)
    (fun c => ⟨rfl, rfl, rfl, rfl⟩) (fun c => ⟨rfl, rfl, rfl, rfl⟩)
  apply dinv_map _ (fun c => ⟨(hk c).1, (hk c).2.1, fun hs => by rw [(hk c).2.2.1]; exact hs⟩) h
  · intro w'
    rw [pendingOf_upd_append L w cid e h.cids (h.cur w cid hl) w', ofW_append, ofW_single, h.order w',
      List.append_assoc]
  · intro w' cid' hl'
    exact curOf_map L w' cid' _ (fun c => ⟨(hk c).1, (hk c).2.1⟩) (fun c _ _ => (hk c).2.2.2) (h.cur w' cid' hl')

/-- the writer drops its reference to its current channel (destroy, or the first half of a
    replacement): the channel is closed, the writer has no current channel -/
theorem dinv_close {L : List Chan} {next : Nat} {wc : List (Nat × Nat)} {acc del lost : List (Nat × Entry)}
    (w cid : Nat) (f : Chan → Chan)
    (hf : ∀ c, (f c).owner = c.owner ∧ (f c).cid = c.cid ∧ (c.sealed = true → (f c).sealed = true) ∧
      (f c).entries = c.entries)
    (h : DInv L next wc acc del lost) (hl : lookupIn wc w = some cid) :
    DInv (L.map (upd cid f)) next (wc.filter (·.1 != w)) acc del lost := by
  have hk := upd_keeps cid f
    (fun c c' => c'.owner = c.owner ∧ c'.cid = c.cid ∧ (c.sealed = true → c'.sealed = true) ∧ c'.entries = c.entries)
    (fun c => ⟨rfl, rfl, id, rfl⟩) hf
  apply dinv_map _ (fun c => ⟨(hk c).1, (hk c).2.1, (hk c).2.2.1⟩) h
  · intro w'
    rw [pendingOf_map w' L _ (fun c => ⟨(hk c).1, (hk c).2.2.2⟩)]
    exact h.order w'
  · intro w' cid' hl'
    by_cases hw : w' = w
    · subst hw
      rw [lookupIn_del_same] at hl'
      cases hl'
    · rw [lookupIn_del_other wc w w' hw] at hl'
      apply curOf_map L w' cid' _ (fun c => ⟨(hk c).1, (hk c).2.1⟩) _ (h.cur w' cid' hl')
      intro c hc hco
      have hne : c.cid ≠ cid := by
        intro hcc
        have := curOf_owner_of_cid L w cid h.cids (h.cur w cid hl) c hc hcc
        exact hw (hco.symm.trans this)
      rw [upd_of_ne cid f c hne]

/-- after sealing the current channel of `w`, every channel of `w` is sealed -/
theorem all_sealed_after_seal {L : List Chan} {next : Nat} {wc : List (Nat × Nat)} {acc del lost : List (Nat × Entry)}
    (w cid : Nat) (f : Chan → Chan) (hf : ∀ c, (f c).owner = c.owner ∧ (f c).sealed = true)
    (h : DInv L next wc acc del lost) (hl : lookupIn wc w = some cid) :
    ∀ c ∈ L.map (upd cid f), c.owner = w → c.sealed = true := by
  obtain ⟨pre, c, post, rfl, h1, h2, h3, h4⟩ := h.cur w cid hl
  obtain ⟨d1, d2⟩ := nodup_decomp pre post c h.cids
  rw [h1] at d1 d2
  rw [map_upd_decomp pre post c cid _ d1 d2 h1]
  have hs := (sealedButLast_append_has w pre (c :: post) ⟨c, by simp, h2⟩).mp (h.sealed w)
  intro x hx hxo
  simp only [List.mem_append, List.mem_cons] at hx
  rcases hx with hx | hx | hx
  · exact hs.1 x hx hxo
  · rw [hx]; exact (hf c).2
  · exact absurd hxo (h4 x hx)

/-- polling all channels under `SyncOnClose` -/
theorem dinv_consume {L : List Chan} {next : Nat} {wc : List (Nat × Nat)} {acc del lost : List (Nat × Entry)}
    (P : List Poll) (h : DInv L next wc acc del lost) (hsync : SyncOnClose L P) :
    DInv (pollAll L P).chans next wc acc (del ++ (pollAll L P).delivered) (lost ++ (pollAll L P).lost) := by
  refine ⟨?_, by rw [h.nolost, pollAll_lost L P hsync]; rfl, fun w => (pollAll_key w L P (h.sealed w) hsync).2,
    List.Sublist.nodup (pollAll_cids_sublist L P) h.cids, ?_, fun w cid hl => curOf_pollAll L P w cid (h.cur w cid hl)⟩
  · intro w
    rw [ofW_append, List.append_assoc, (pollAll_key w L P (h.sealed w) hsync).1]
    exact h.order w
  · intro c hc
    obtain ⟨c0, hc0, _, hcid, _⟩ := pollAll_chans_sub L P c hc
    rw [hcid]
    exact h.cid_lt c0 hc0

end BinlogVerif.Sess

namespace BinlogVerif.Sess
open BinlogVerif

/-! ### every step preserves the delivery invariant -/

theorem delivInv_emitAll (s : Session) (ws : List Write) (h : DelivInv s) : DelivInv (emitAll s ws) := by
  obtain ⟨f1, _, _, _, _, _, f7, f8, f9, f10, _⟩ := emitAll_fields s ws
  unfold DelivInv
  rw [f1, f7, f8, f9, f10, emitAll_nextCid]
  exact h

theorem delivInv_step (s : Session) (op : Op) (s' : Session) (h : DelivInv s) (hok : OpOk s op)
    (hsync : SyncOk s op) (hstep : step s op = some s') : DelivInv s' := by
  cases op with
  | createWriter w id name =>
    simp only [step] at hstep
    injection hstep with hstep
    subst hstep
    have h1 : DelivInv (setWriter (newChan s w {}).1 w (some (newChan s w {}).2)) :=
      dinv_create w {} h (fun c hc ho => absurd ho (hok.2 c hc))
    split
    · split
      · exact delivInv_updChan_wp _ _ _ (fun _ => ⟨rfl, rfl, rfl, rfl, rfl⟩)
          (delivInv_updChan_wp _ _ _ (fun _ => ⟨rfl, rfl, rfl, rfl, rfl⟩) h1)
      · exact delivInv_updChan_wp _ _ _ (fun _ => ⟨rfl, rfl, rfl, rfl, rfl⟩) h1
    · split
      · exact delivInv_updChan_wp _ _ _ (fun _ => ⟨rfl, rfl, rfl, rfl, rfl⟩) h1
      · exact h1
  | setWriterId w id =>
    simp only [step, Option.map_eq_some_iff] at hstep
    obtain ⟨cid, _, rfl⟩ := hstep
    exact delivInv_updChan_wp _ _ _ (fun _ => ⟨rfl, rfl, rfl, rfl, rfl⟩) h
  | setWriterName w name =>
    simp only [step, Option.map_eq_some_iff] at hstep
    obtain ⟨cid, _, rfl⟩ := hstep
    exact delivInv_updChan_wp _ _ _ (fun _ => ⟨rfl, rfl, rfl, rfl, rfl⟩) h
  | addSource src =>
    simp only [step] at hstep
    injection hstep with hstep
    subst hstep
    exact h
  | log w sid clock args fits =>
    simp only [step] at hstep
    cases hl : lookupWriter s w with
    | none => simp [hl] at hstep
    | some cid =>
      simp only [hl] at hstep
      have hl' : lookupIn s.writerChan w = some cid := hl
      split at hstep
      · injection hstep with hstep
        subst hstep
        exact dinv_log_fits w cid (Entry.event sid clock args) h hl'
      · split at hstep
        · cases hstep
        · rename_i old _
          injection hstep with hstep
          subst hstep
          -- replaceChannel = drop the reference to the old channel (sealing it), create a new
          -- channel, append the event to it
          have hcidlt : cid < s.nextCid := by
            obtain ⟨pre, c, post, hL, h1, _⟩ := h.cur w cid hl'
            have := h.cid_lt c (by rw [hL]; simp)
            omega
          have h1 := dinv_close w cid (fun c => { c with closed := true, sealed := true })
            (fun _ => ⟨rfl, rfl, fun _ => rfl, rfl⟩) h hl'
          have hall := all_sealed_after_seal w cid (fun c => { c with closed := true, sealed := true })
            (fun _ => ⟨rfl, rfl⟩) h hl'
          have h2 := dinv_create w { id := old.wp.id, name := old.wp.name, batchSize := 0 } h1 hall
          have h3 := dinv_log_fits w s.nextCid (Entry.event sid clock args) h2 (lookupIn_set_same _ w s.nextCid)
          have hwc : (s.writerChan.filter (·.1 != w)).filter (·.1 != w) = s.writerChan.filter (·.1 != w) := by
            simp [List.filter_filter]
          rw [hwc] at h3
          unfold DelivInv
          simp only [updChan, setWriter, newChan]
          have hshape : ∀ n : Chan, n.cid = s.nextCid →
              (s.channels ++ [n]).map (upd cid (fun c => { c with closed := true, sealed := true }))
                = s.channels.map (upd cid (fun c => { c with closed := true, sealed := true })) ++ [n] := by
            intro n hn
            rw [List.map_append, List.map_cons, List.map_nil, upd_of_ne]
            omega
          unfold upd at hshape h3
          rw [hshape _ rfl]
          exact h3
  | destroyWriter w =>
    simp only [step, Option.map_eq_some_iff] at hstep
    obtain ⟨cid, hl, rfl⟩ := hstep
    exact dinv_close w cid (fun c => { c with closed := true }) (fun _ => ⟨rfl, rfl, id, rfl⟩) h hl
  | setClockSync cs =>
    simp only [step] at hstep
    injection hstep with hstep
    subst hstep
    exact h
  | consume polls =>
    simp only [step] at hstep
    injection hstep with hstep
    subst hstep
    unfold consume
    apply delivInv_emitAll
    exact dinv_consume polls h hsync
  | rotate =>
    simp only [step] at hstep
    injection hstep with hstep
    subst hstep
    unfold reconsumeMetadata
    apply delivInv_emitAll
    exact h

/-- the delivery invariant holds in every reachable state of a trace whose consumes synchronise
    on close -/
theorem delivInv_exec (cs : ClockSync) (ops : List Op) (s : Session) (hok : SyncTrace (init cs) ops)
    (hrun : exec (init cs) ops = some s) : DelivInv s :=
  exec_induction_sync DelivInv (init cs) ops s (dinv_init cs) hok
    (fun s op s1 h ho hsy hs => delivInv_step s op s1 h ho hsy hs) hrun

end BinlogVerif.Sess

namespace BinlogVerif.Sess
open BinlogVerif

/-! ### the `accepted` ghost log is exactly the sequence of successful log calls -/

/-- what a log call hands to the session: (writer, event) -/
def logCall : Op → List (Nat × Entry)
  | .log w sid clock args _ => [(w, Entry.event sid clock args)]
  | _ => []

def logCalls (ops : List Op) : List (Nat × Entry) := ops.flatMap logCall

theorem step_accepted (s : Session) (op : Op) (s' : Session) (h : step s op = some s') :
    s'.accepted = s.accepted ++ logCall op := by
  cases op with
  | createWriter w id name =>
    simp only [step] at h
    injection h with h
    subst h
    split <;> split <;> simp [updChan, setWriter, newChan, logCall]
  | setWriterId w id =>
    simp only [step, Option.map_eq_some_iff] at h
    obtain ⟨cid, _, rfl⟩ := h
    simp [updChan, logCall]
  | setWriterName w name =>
    simp only [step, Option.map_eq_some_iff] at h
    obtain ⟨cid, _, rfl⟩ := h
    simp [updChan, logCall]
  | addSource src =>
    simp only [step] at h
    injection h with h
    subst h
    simp [logCall]
  | log w sid clock args fits =>
    simp only [step] at h
    cases hl : lookupWriter s w with
    | none => simp [hl] at h
    | some cid =>
      simp only [hl] at h
      split at h
      · injection h with h
        subst h
        simp [updChan, logCall]
      · split at h
        · cases h
        · injection h with h
          subst h
          simp [updChan, setWriter, newChan, logCall]
  | destroyWriter w =>
    simp only [step, Option.map_eq_some_iff] at h
    obtain ⟨cid, _, rfl⟩ := h
    simp [updChan, setWriter, logCall]
  | setClockSync cs =>
    simp only [step] at h
    injection h with h
    subst h
    simp [logCall]
  | consume polls =>
    simp only [step] at h
    injection h with h
    subst h
    unfold consume
    simp only [(emitAll_fields _ _).2.2.2.2.2.2.1, logCall, List.append_nil]
  | rotate =>
    simp only [step] at h
    injection h with h
    subst h
    unfold reconsumeMetadata
    simp only [(emitAll_fields _ _).2.2.2.2.2.2.1, logCall, List.append_nil]

theorem exec_accepted (s : Session) (ops : List Op) (s' : Session) (h : exec s ops = some s') :
    s'.accepted = s.accepted ++ logCalls ops := by
  induction ops generalizing s with
  | nil => simp [exec] at h; subst h; simp [logCalls]
  | cons op ops ih =>
    simp only [exec] at h
    cases hs : step s op with
    | none => simp [hs] at h
    | some s1 =>
      simp only [hs] at h
      rw [ih s1 h, step_accepted s op s1 hs]
      simp [logCalls]

end BinlogVerif.Sess
