import BinlogVerif.Generated.SrcQueue
import BinlogVerif.Lemmas.SrcBridgeTactic
import BinlogVerif.Conc.Queue
/- Bridge lemmas (see SrcBridgeTactic.lean): model = source for the Queue functions. -/
namespace BinlogVerif.SrcBridge
open BinlogVerif BinlogVerif.CSem BinlogVerif.Generated

/-! ### the queue (QueueWriter.hpp, QueueReader.hpp) -/

/-- what `QueueWriter::maximizeWriteCapacity` does, as the model's `pBegin` step states it:
    the new window `[wp, we)` and the value of `dataEnd` -/
def modelMaximize (cap w r e : Nat) : Nat × Nat × Nat :=
  if w < r then (w, r - 1, e)
  else if r + w ≤ cap + 1 then (w, cap, e)
  else (0, r - 1, w)

def viewMax (o : Src.maximizeWriteCapacity.Out) := (o._writePos, o._writeEnd, o.dataEnd, o.ret, o.ok, o.throws, o.effects)
def viewMaxModel (m : Nat × Nat × Nat) : Int × Int × Int × Int × Bool × Bool × List (String × List Int) :=
  (m.1, m.2.1, m.2.2, ((m.2.1 - m.1 : Nat) : Int), true, false, [])

theorem maximizeWriteCapacity_bridge (cap w r e : Nat) (wp0 we0 : Int)
    (hc : cap < 9223372036854775808) (hw : w ≤ cap) (hr : r ≤ cap) :
    viewMax (Src.maximizeWriteCapacity w r cap e wp0 we0) = viewMaxModel (modelMaximize cap w r e) := by
  bridge_unfold [Src.maximizeWriteCapacity, modelMaximize]
  bridge_arith [viewMax, viewMaxModel]

/-- the window the model's `pBegin` step installs is `modelMaximize` -/
theorem step_pBegin_model (o : Q.Orders) (s : Q.St) (n j : Nat) (m : Q.Msg)
    (hload : ¬ n ≤ s.we - s.wp) (hp : s.pending = []) (hj : ¬ j < s.pRidx) (hm : s.rHist[j]? = some m) :
    ∃ s', Q.step o s (.pBegin n j) = some s' ∧ (s'.wp, s'.we, s'.E) = modelMaximize s.cap s.pW m.val s.E := by
  simp only [Q.step, hload, hp, hj, hm, if_false, ne_eq, not_true_eq_false, modelMaximize]
  by_cases h1 : s.pW < m.val
  · simp only [h1, if_true]; exact ⟨_, rfl, rfl⟩
  · simp only [h1, if_false]
    by_cases h2 : m.val + s.pW ≤ s.cap + 1
    · simp only [h2, if_true]; exact ⟨_, rfl, rfl⟩
    · simp only [h2, if_false]
      refine ⟨_, rfl, ?_⟩
      split <;> rfl

/-- …hence it is the one the source computes -/
theorem step_pBegin_src (o : Q.Orders) (s : Q.St) (n j : Nat) (m : Q.Msg)
    (hload : ¬ n ≤ s.we - s.wp) (hp : s.pending = []) (hj : ¬ j < s.pRidx) (hm : s.rHist[j]? = some m)
    (hc : s.cap < 9223372036854775808) (hw : s.pW ≤ s.cap) (hr : m.val ≤ s.cap) :
    ∃ s', Q.step o s (.pBegin n j) = some s' ∧
      viewMax (Src.maximizeWriteCapacity s.pW m.val s.cap s.E s.wp s.we) = viewMaxModel (s'.wp, s'.we, s'.E) := by
  obtain ⟨s', h1, h2⟩ := step_pBegin_model o s n j m hload hp hj hm
  exact ⟨s', h1, by rw [h2]; exact maximizeWriteCapacity_bridge _ _ _ _ _ _ hc hw hr⟩

/-- `beginWrite(size)`: no load when `size ≤ writeCapacity()`, otherwise the answer is
    `size ≤ maximizeWriteCapacity()` -/
def viewBeginWrite (o : Src.beginWrite.Out) := (o.ret, o.effects, o.ok, o.throws)
theorem beginWrite_bridge (size wp we : Nat) (mret : Int) (hwe : wp ≤ we) (h : we < 9223372036854775808) :
    viewBeginWrite (Src.beginWrite size wp we mret) =
      if size ≤ we - wp then (true, [], true, false)
      else (decide ((size : Int) ≤ mret), [("maximizeWriteCapacity", [])], true, false) := by
  bridge_unfold [Src.beginWrite]
  bridge_arith [viewBeginWrite]

/-- `writeBuffer(src, size)`: the assert is the model's guard `k ≤ we - wp`, the bytes go to
    `[wp, wp + size)`, the position advances by `size` -/
def viewWriteBuffer (o : Src.writeBuffer.Out) := (o.ok, o._writePos, o.ret, o.effects, o.throws)
theorem writeBuffer_bridge (size wp we : Nat) (hwe : wp ≤ we) :
    viewWriteBuffer (Src.writeBuffer size wp we) =
      (decide (size ≤ we - wp), ((wp + size : Nat) : Int), (wp : Int), [("memcpy", [(wp : Int), (size : Int)])], false) := by
  bridge_unfold [Src.writeBuffer]
  by_cases hs : size ≤ we - wp
  · have : (wp : Int) + size ≤ we := by omega
    simp [viewWriteBuffer, hs, this]
  · have : ¬ (wp : Int) + size ≤ we := by omega
    simp [viewWriteBuffer, hs, this]

/-- `endWrite()` stores the write position -/
theorem endWrite_bridge (wp : Nat) (h : wp < 18446744073709551616) :
    (Src.endWrite wp).writeIndex_store = some (wp : Int) := by
  bridge_unfold [Src.endWrite]
  congr 1; omega

/-- `endRead()` stores `_readEnd` -/
theorem endRead_bridge (re : Nat) : (Src.endRead re).readIndex_store = some (re : Int) := rfl

/-- the pieces `QueueReader::beginRead` returns, as the model's `cBegin` step reads them:
    `(offset₁, size₁, offset₂, size₂)` -/
def modelBeginRead (w r e : Nat) : Nat × Nat × Nat × Nat :=
  if r ≤ w then (r, w - r, 0, 0)
  else if r < e then (r, e - r, 0, w)
  else (0, w, 0, 0)

def viewBeginRead (o : Src.beginRead.Out) := (o._readEnd, o.buffer1, o.size1, o.buffer2, o.size2, o.ok, o.throws, o.effects)
def viewBeginReadModel (w : Nat) (m : Nat × Nat × Nat × Nat) : Int × Int × Int × Int × Int × Bool × Bool × List (String × List Int) :=
  (w, m.1, m.2.1, m.2.2.1, m.2.2.2, true, false, [])

theorem beginRead_bridge (w r e : Nat) (re0 b1 s1 b2 s2 : Int)
    (hw : w < 18446744073709551616) (hr : r < 18446744073709551616) (he : e < 18446744073709551616) :
    viewBeginRead (Src.beginRead w r e re0 b1 s1 b2 s2) = viewBeginReadModel w (modelBeginRead w r e) := by
  bridge_unfold [Src.beginRead, modelBeginRead]
  bridge_arith [viewBeginRead, viewBeginReadModel]

/-- `unreadWriteSize()` -/
theorem unreadWriteSize_bridge (w r e : Nat) (hw : w < 9223372036854775808) (hr : r ≤ e) (he : e < 9223372036854775808) :
    (Src.unreadWriteSize w r e).ret = if r ≤ w then ((w - r : Nat) : Int) else ((e - r + w : Nat) : Int) := by
  bridge_unfold [Src.unreadWriteSize]
  bridge_arith []


/-! ### accesses of the non-atomic `dataEnd`: what the source does, however it is written -/

/-- the consumer's `beginRead` reads `dataEnd` exactly on the wrapped path `w < r` (the condition of the model's `cBegin`) and
    never writes it -/
theorem beginRead_dataEnd (w r e : Nat) (re0 b1 s1 b2 s2 : Int) :
    (Src.beginRead w r e re0 b1 s1 b2 s2).dataEnd_read = decide (w < r) ∧
    (Src.beginRead w r e re0 b1 s1 b2 s2).dataEnd_written = false := by
  bridge_unfold [Src.beginRead]
  bridge_arith []

/-- the producer's `unreadWriteSize` reads `dataEnd` exactly on the wrapped path `w < r` -/
theorem unreadWriteSize_dataEnd (w r e : Nat) :
    (Src.unreadWriteSize w r e).dataEnd_read = decide (w < r) ∧ (Src.unreadWriteSize w r e).dataEnd_written = false := by
  bridge_unfold [Src.unreadWriteSize]
  bridge_arith []

/-- the producer's `maximizeWriteCapacity` never reads `dataEnd` and writes it exactly when it wraps: `r ≤ w` and the arena
    left of R is larger than the one right of W (the third branch of `modelMaximize`) -/
theorem maximizeWriteCapacity_dataEnd (cap w r e : Nat) (wp0 we0 : Int)
    (hc : cap < 9223372036854775808) (hw : w ≤ cap) :
    (Src.maximizeWriteCapacity w r cap e wp0 we0).dataEnd_read = false ∧
    (Src.maximizeWriteCapacity w r cap e wp0 we0).dataEnd_written = decide (r ≤ w ∧ cap + 1 < r + w) := by
  bridge_unfold [Src.maximizeWriteCapacity]
  bridge_arith []


end BinlogVerif.SrcBridge
