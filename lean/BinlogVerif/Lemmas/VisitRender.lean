import BinlogVerif.Lemmas.VisitRecorder
/-
  `ToStringVisitor` (without a pretty printer: `tp = none`) driven by `visit` over the encoding of a
  value prints `render t v`.  The invariant on the visitor state is `Rend`.
-/
namespace BinlogVerif.Mser
open BinlogVerif BinlogVerif.Tag BinlogVerif.Visit BinlogVerif.Pretty

/-- the `ToStringVisitor` with `_pp == nullptr` -/
abbrev tsv : Visitor Ts := toStringVisitor none

/-! ### the handlers -/

/-- state after `visitFieldBegin` -/
def fieldStart (s : Ts) (n : Bytes) : Ts :=
  { (if n.isEmpty then s.comma else (s.comma).write (n ++ [58, 32])) with state := .normal }
/-- state after `visitFieldEnd` -/
def setSeq (s : Ts) : Ts := { s with state := .seq }
/-- state after `visitStructBegin` of a struct without fields -/
def setFlag (s : Ts) (b : Bool) : Ts := { s with emptyStruct := b }

theorem h_arith (s : Ts) (c : UInt8) (raw : Nat) (input : Bytes) :
    tsv.handle s (.arith c raw) input = .ok ((s.comma).write (arithText c raw), false, input) := rfl
theorem h_seqBegin (s : Ts) (size : Nat) (et : Bytes) (input : Bytes) :
    tsv.handle s (.seqBegin size et) input =
      if et = [99] then
        match takeN size input with
        | .error e => .error e
        | .ok (b, rest) => .ok ((s.comma).write b, true, rest)
      else .ok ((((s.comma).write [91]).enterSeq), false, input) := rfl
theorem h_seqEnd (s : Ts) (input : Bytes) :
    tsv.handle s .seqEnd input = .ok ((s.write [93]).leaveSeq, false, input) := rfl
theorem h_tupBegin (s : Ts) (t : Bytes) (input : Bytes) :
    tsv.handle s (.tupBegin t) input = .ok (((s.comma).write [40]).enterSeq, false, input) := rfl
theorem h_tupEnd (s : Ts) (input : Bytes) :
    tsv.handle s .tupEnd input = .ok ((s.write [41]).leaveSeq, false, input) := rfl
theorem h_varBegin (s : Ts) (d : Nat) (t : Bytes) (input : Bytes) :
    tsv.handle s (.varBegin d t) input = .ok (s, false, input) := rfl
theorem h_varEnd (s : Ts) (input : Bytes) : tsv.handle s .varEnd input = .ok (s, false, input) := rfl
theorem h_null (s : Ts) (input : Bytes) :
    tsv.handle s .null input = .ok ((s.comma).write (strBytes "{null}"), false, input) := rfl
theorem h_enum (s : Ts) (n en : Bytes) (u : UInt8) (value : Bytes) (input : Bytes) :
    tsv.handle s (.enum n en u value) input =
      if en.isEmpty then .ok ((s.comma).write (strBytes "0x" ++ value), false, input)
      else .ok ((s.comma).write en, false, input) := rfl
theorem h_structBegin (s : Ts) (n t : Bytes) (input : Bytes) :
    tsv.handle s (.structBegin n t) input =
      if t.isEmpty then
        .ok (setFlag ((s.comma).write (removePrefixBefore n cLt).1) true, false, input)
      else .ok ((((s.comma).write (removePrefixBefore n cLt).1).write [123, 32]).enterSeq, false, input) := rfl
theorem h_structEnd (s : Ts) (input : Bytes) :
    tsv.handle s .structEnd input =
      if s.emptyStruct then .ok (setFlag s false, false, input)
      else .ok ((s.write [32, 125]).leaveSeq, false, input) := rfl
theorem h_fieldBegin (s : Ts) (n t : Bytes) (input : Bytes) :
    tsv.handle s (.fieldBegin n t) input = .ok (fieldStart s n, false, input) := rfl
theorem h_fieldEnd (s : Ts) (input : Bytes) :
    tsv.handle s .fieldEnd input = .ok (setSeq s, false, input) := rfl
theorem h_repeatBegin (s : Ts) (n : Nat) (t : Bytes) (input : Bytes) :
    tsv.handle s (.repeatBegin n t) input = .ok (s, false, input) := rfl
theorem h_repeatEnd (s : Ts) (n : Nat) (t : Bytes) (input : Bytes) :
    tsv.handle s (.repeatEnd n t) input =
      if n > 1 then
        .ok (s.write (strBytes " ... <repeats " ++ natDec n ++ strBytes " times>"), false, input)
      else .ok (s, false, input) := rfl

/-! ### the state machine -/

/-- what `comma` prints in a state -/
def sepOf : TsState → Bytes
  | .seq => [44, 32]
  | _ => []

/-- the state after `comma` -/
def afterSt : TsState → TsState
  | .normal => .normal
  | _ => .seq

@[simp] theorem comma_out (s : Ts) : s.comma.out = s.out ++ sepOf s.state := by
  cases h : s.state <;> simp [Ts.comma, h, sepOf, Ts.write]
@[simp] theorem comma_state (s : Ts) : s.comma.state = afterSt s.state := by
  cases h : s.state <;> simp [Ts.comma, h, afterSt, Ts.write]
@[simp] theorem comma_depth (s : Ts) : s.comma.seqDepth = s.seqDepth := by
  cases h : s.state <;> simp [Ts.comma, h, Ts.write]
@[simp] theorem comma_flag (s : Ts) : s.comma.emptyStruct = s.emptyStruct := by
  cases h : s.state <;> simp [Ts.comma, h, Ts.write]
@[simp] theorem write_out (s : Ts) (b : Bytes) : (s.write b).out = s.out ++ b := rfl
@[simp] theorem write_state (s : Ts) (b : Bytes) : (s.write b).state = s.state := rfl
@[simp] theorem write_depth (s : Ts) (b : Bytes) : (s.write b).seqDepth = s.seqDepth := rfl
@[simp] theorem write_flag (s : Ts) (b : Bytes) : (s.write b).emptyStruct = s.emptyStruct := rfl
@[simp] theorem enter_out (s : Ts) : s.enterSeq.out = s.out := rfl
@[simp] theorem enter_state (s : Ts) : s.enterSeq.state = .seqBegin := rfl
@[simp] theorem enter_depth (s : Ts) : s.enterSeq.seqDepth = s.seqDepth + 1 := rfl
@[simp] theorem enter_flag (s : Ts) : s.enterSeq.emptyStruct = s.emptyStruct := rfl
@[simp] theorem leave_out (s : Ts) : s.leaveSeq.out = s.out := rfl
@[simp] theorem leave_state (s : Ts) :
    s.leaveSeq.state = if s.seqDepth - 1 = 0 then .normal else .seq := rfl
@[simp] theorem leave_depth (s : Ts) : s.leaveSeq.seqDepth = s.seqDepth - 1 := rfl
@[simp] theorem leave_flag (s : Ts) : s.leaveSeq.emptyStruct = s.emptyStruct := rfl

@[simp] theorem setSeq_out (s : Ts) : (setSeq s).out = s.out := rfl
@[simp] theorem setSeq_state (s : Ts) : (setSeq s).state = .seq := rfl
@[simp] theorem setSeq_depth (s : Ts) : (setSeq s).seqDepth = s.seqDepth := rfl
@[simp] theorem setSeq_flag (s : Ts) : (setSeq s).emptyStruct = s.emptyStruct := rfl
@[simp] theorem setFlag_out (s : Ts) (b : Bool) : (setFlag s b).out = s.out := rfl
@[simp] theorem setFlag_state (s : Ts) (b : Bool) : (setFlag s b).state = s.state := rfl
@[simp] theorem setFlag_depth (s : Ts) (b : Bool) : (setFlag s b).seqDepth = s.seqDepth := rfl
@[simp] theorem setFlag_flag (s : Ts) (b : Bool) : (setFlag s b).emptyStruct = b := rfl
@[simp] theorem fieldStart_out (s : Ts) (n : Bytes) :
    (fieldStart s n).out = s.out ++ sepOf s.state ++ (if n.isEmpty then [] else n ++ [58, 32]) := by
  unfold fieldStart; split <;> simp
@[simp] theorem fieldStart_state (s : Ts) (n : Bytes) : (fieldStart s n).state = .normal := rfl
@[simp] theorem fieldStart_depth (s : Ts) (n : Bytes) : (fieldStart s n).seqDepth = s.seqDepth := by
  unfold fieldStart; split <;> simp
@[simp] theorem fieldStart_flag (s : Ts) (n : Bytes) : (fieldStart s n).emptyStruct = s.emptyStruct := by
  unfold fieldStart; split <;> simp

/-- `s'` is `s` after printing one value whose text is `text`:
    the separator demanded by the state, then the text; depth and flag restored; inside a bracket
    (state not `normal`, depth not 0) the state is `seq` afterwards ("a sibling was printed"), at
    top level it is `normal` again. -/
def Rend (s s' : Ts) (text : Bytes) : Prop :=
  s'.out = s.out ++ sepOf s.state ++ text ∧ s'.seqDepth = s.seqDepth ∧ s'.emptyStruct = false
    ∧ (s.state ≠ .normal → s.seqDepth ≠ 0 → s'.state = .seq)
    ∧ (s.state = .normal → s.seqDepth = 0 → s'.state = .normal)

theorem Rend.of_fields {s s' : Ts} {text : Bytes} (h1 : s'.out = s.out ++ sepOf s.state ++ text)
    (h2 : s'.seqDepth = s.seqDepth) (h3 : s'.emptyStruct = false) (h4 : s'.state = afterSt s.state) :
    Rend s s' text := by
  refine ⟨h1, h2, h3, ?_, ?_⟩
  · intro hn _; rw [h4]; cases hs : s.state <;> simp_all [afterSt]
  · intro hn _; rw [h4, hn]; rfl

theorem Rend.leaf (s : Ts) (text : Bytes) (hf : s.emptyStruct = false) :
    Rend s ((s.comma).write text) text :=
  Rend.of_fields (by simp) (by simp) (by simp [hf]) (by simp)

theorem Rend.bracket {s s2 : Ts} {op body cl : Bytes}
    (hout : s2.out = s.out ++ sepOf s.state ++ op ++ body) (hd : s2.seqDepth = s.seqDepth + 1)
    (hfl : s2.emptyStruct = false) :
    Rend s ((s2.write cl).leaveSeq) (op ++ body ++ cl) := by
  refine ⟨?_, ?_, ?_, ?_, ?_⟩
  · simp [hout, List.append_assoc]
  · simp [hd]
  · simp [hfl]
  · intro _ h0
    simp [hd, h0]
  · intro _ h0
    simp [hd, h0]

/-! ### joining -/

def joinSep : List Bytes → Bytes
  | [] => []
  | x :: xs => [44, 32] ++ x ++ joinSep xs

/-- text of a run of siblings starting in state `st` -/
def joinFrom (st : TsState) : List Bytes → Bytes
  | [] => []
  | x :: xs => sepOf st ++ x ++ joinSep xs

theorem joinComma_cons (x : Bytes) (xs : List Bytes) : joinComma (x :: xs) = x ++ joinSep xs := by
  induction xs generalizing x with
  | nil => simp [joinComma, joinSep]
  | cons y ys ih => rw [joinComma, ih y]; simp [joinSep, List.append_assoc]; exact fun h => nomatch h

theorem joinComma_eq (l : List Bytes) : joinComma l = joinFrom .seqBegin l := by
  cases l with
  | nil => simp [joinComma, joinFrom]
  | cons x xs => simp [joinComma_cons, joinFrom, sepOf]

theorem joinFrom_seq (l : List Bytes) : joinFrom .seq l = joinSep l := by
  cases l <;> simp [joinFrom, joinSep, sepOf]

/-! ### the specification side -/

theorem isCharTy_eq {e : Ty} (h : isCharTy e = true) : e = .arith 99 := by
  cases e <;> simp [isCharTy] at h
  subst h; rfl

theorem tag_eq_char (e : Ty) (h : TyOk e = true) : tag e = [99] ↔ isCharTy e = true := by
  cases e with
  | arith c => simp [tag_arith, isCharTy]
  | null => simp [TyOk] at h
  | seq e => simp [tag_seq, isCharTy, cLBrack]
  | tup es => simp [tag_tup, isCharTy, cLParen]
  | var es => simp [tag_var, isCharTy, cLt]
  | enum u n ens => simp [tag_enum, isCharTy, cSlash]
  | struct n fs => simp [tag_struct, isCharTy, cLBrace]

def charOf (v : Val) : UInt8 :=
  match v with
  | .num raw => UInt8.ofNat raw
  | _ => 0

theorem encodeAll_char (vs : List Val) (hv : hasTyAll (.arith 99) vs = true) :
    encodeAll (.arith 99) vs = vs.map charOf := by
  induction vs with
  | nil => simp [encodeAll]
  | cons v vs ih =>
    simp only [hasTyAll, Bool.and_eq_true] at hv
    rw [encodeAll, ih hv.2, List.map_cons]
    cases v with
    | num raw =>
      have hs : arithSize 99 = some 1 := by decide
      have hr := hv.1
      simp only [hasTy, hs, decide_eq_true_eq] at hr
      have : raw % 256 = raw := Nat.mod_eq_of_lt (by simpa using hr)
      simp [encode, hs, le, charOf, this]
    | _ => simp [hasTy] at hv

theorem render_seq_char (e : Ty) (vs : List Val) (hce : isCharTy e = true) :
    render (.seq e) (.seq vs) = vs.map charOf := by
  cases vs with
  | nil => simp [render, hce]
  | cons v vs => rw [render, if_pos hce]; rfl

theorem render_seq_rep (e : Ty) (v : Val) (vs : List Val) (hce : ¬ isCharTy e = true)
    (hc : (v :: vs).length > repeatThreshold ∧ singularTy e = true) :
    render (.seq e) (.seq (v :: vs)) = [91] ++ (render e v ++ (strBytes " ... <repeats " ++
      natDec (v :: vs).length ++ strBytes " times>")) ++ [93] := by
  have hc' : (decide ((v :: vs).length > repeatThreshold) && singularTy e) = true := by
    rw [Bool.and_eq_true, decide_eq_true_eq]; exact hc
  rw [render, if_neg hce, if_pos hc']
  simp only [List.append_assoc]

theorem render_seq_all (e : Ty) (vs : List Val) (hce : ¬ isCharTy e = true)
    (hc : ¬ (vs.length > repeatThreshold ∧ singularTy e = true)) :
    render (.seq e) (.seq vs) = [91] ++ joinComma (renderAll e vs) ++ [93] := by
  cases vs with
  | nil => simp [render, hce, repeatThreshold]
  | cons v vs =>
    have hc' : ¬ (decide ((v :: vs).length > repeatThreshold) && singularTy e) = true := by
      rw [Bool.and_eq_true, decide_eq_true_eq]; exact hc
    rw [render, if_neg hce, if_neg hc']

/-! ### the main induction -/

variable (full : Bytes)

mutual
theorem render_tag (t : Ty) (v : Val) (m : Nat) (s : Ts) (rest : Bytes)
    (h : TyOk t = true) (hv : hasTy t v = true) (hd : depth t < m)
    (he : ESNames full (emptyStructNames t)) (h0 : 0 ≤ s.seqDepth) (hf : s.emptyStruct = false) :
    ∃ s', visitImpl tsv full m (tag t) s (encode t v ++ rest) = .ok (s', rest) ∧ Rend s s' (render t v) := by
  obtain ⟨m, rfl⟩ : ∃ k, m = k + 1 := ⟨m - 1, by omega⟩
  match t, v with
  | .arith c, .num raw =>
    simp only [TyOk] at h
    simp only [hasTy] at hv
    rw [visitImpl_arith _ _ _ _ h]
    cases hs : arithSize c with
    | none => simp [hs] at h
    | some sz =>
      simp only [hs, decide_eq_true_eq] at hv
      simp only [visitArith, encode, hs, Option.getD_some, readU_le_append sz raw rest hv, h_arith, render]
      exact ⟨_, rfl, Rend.leaf _ _ hf⟩
  | .seq e, .seq vs =>
    simp only [TyOk] at h
    simp only [hasTy, Bool.and_eq_true, decide_eq_true_eq] at hv
    simp only [depth] at hd
    simp only [emptyStructNames] at he
    rw [visitImpl_seq _ _ _ _ h (by omega) he]
    simp only [encode, List.append_assoc, readU_le_append 4 vs.length _ (by simpa using hv.2), h_seqBegin]
    by_cases hch : tag e = [99]
    · have hce : isCharTy e = true := (tag_eq_char e h).1 hch
      have hee := isCharTy_eq hce
      subst hee
      have henc := encodeAll_char vs hv.1
      rw [if_pos hch, takeN_append vs.length (encodeAll (.arith 99) vs) rest (by rw [henc]; simp)]
      simp only [if_true, render_seq_char _ vs hce, henc]
      exact ⟨_, rfl, Rend.leaf _ _ hf⟩
    · have hce : ¬ isCharTy e = true := fun hc => hch ((tag_eq_char e h).2 hc)
      rw [if_neg hch]
      simp only [Bool.false_eq_true, if_false, seqBody]
      by_cases hc : vs.length > repeatThreshold ∧ singularTy e = true
      · rw [if_pos hc]
        match vs, hv, hc with
        | [], _, hc => simp [repeatThreshold] at hc
        | v0 :: vs', hv, hc =>
          simp only [hasTyAll, Bool.and_eq_true] at hv
          have hz : encodeAll e (v0 :: vs') = [] := encodeAll_singular e _ hc.2
          have hz0 : encode e v0 = [] := encode_singular e v0 hc.2
          obtain ⟨s2, e2, r2⟩ := render_tag e v0 m (((s.comma).write [91]).enterSeq) rest h hv.1.1 (by omega) he
            (by simp; omega) (by simp [hf])
          rw [hz0, List.nil_append] at e2
          have hgt : (v0 :: vs').length > 1 := by have := hc.1; simp only [repeatThreshold] at this; omega
          simp only [hz, List.nil_append, h_repeatBegin, e2, h_repeatEnd, if_pos hgt, h_seqEnd]
          refine ⟨_, rfl, ?_⟩
          rw [render_seq_rep e v0 vs' hce hc]
          obtain ⟨o2, d2, f2, _, _⟩ := r2
          exact Rend.bracket (by simp [o2, sepOf, List.append_assoc]) (by simp [d2]) (by simp [f2])
      · rw [if_neg hc]
        obtain ⟨s2, e2, o2, d2, f2, _⟩ := render_all e vs m (((s.comma).write [91]).enterSeq) rest h hv.1
          (by omega) he (by simp) (by simp; omega) (by simp [hf])
        rw [e2]
        simp only [h_seqEnd]
        refine ⟨_, rfl, ?_⟩
        rw [render_seq_all e vs hce hc, joinComma_eq]
        exact Rend.bracket (by simpa [List.append_assoc] using o2) (by simpa using d2) f2
  | .tup es, .tup vs =>
    simp only [TyOk] at h
    simp only [hasTy] at hv
    simp only [depth] at hd
    simp only [emptyStructNames] at he
    rw [visitImpl_tup]
    simp only [h_tupBegin, Bool.false_eq_true, if_false, encode]
    obtain ⟨s2, e2, o2, d2, f2, _⟩ := render_list es vs m ((tagList es).length + 1)
      (((s.comma).write [40]).enterSeq) rest
      (by have := length_le_tagList es; omega) h hv (by omega) he (by simp) (by simp; omega) (by simp [hf])
    rw [e2]
    simp only [h_tupEnd]
    refine ⟨_, rfl, ?_⟩
    rw [render, joinComma_eq]
    exact Rend.bracket (by simpa [List.append_assoc] using o2) (by simpa using d2) f2
  | .var alts, .alt i v =>
    simp only [TyOk, Bool.and_eq_true, decide_eq_true_eq] at h
    simp only [hasTy, Bool.and_eq_true, decide_eq_true_eq] at hv
    simp only [depth] at hd
    simp only [emptyStructNames] at he
    have hi := hasTyNth_lt alts i v hv.2
    rw [visitImpl_var _ _ _ _ (tyOkAlts_forall h.2)]
    simp only [encode, List.append_assoc, readU_le_append 1 i _ (by simpa using hv.1), h_varBegin, h_null,
      Bool.false_eq_true, if_false, optTag_nth alts i (tyOkAlts_forall h.2) hi]
    obtain ⟨s2, e2, r2⟩ := render_nth alts i v m s rest (tyOkAlts_forall h.2) hv.2 (by omega) he h0 hf
    rw [e2]
    simp only [h_varEnd, render]
    exact ⟨_, rfl, r2⟩
  | .enum u n ens, .num raw =>
    simp only [TyOk, Bool.and_eq_true] at h
    simp only [hasTy] at hv
    cases hs : arithSize u with
    | none => simp [hs] at hv
    | some sz =>
      simp only [hs, decide_eq_true_eq] at hv
      rw [visitImpl_enum _ _ _ _ _ _ sz hs h.1.1.2 h.1.2 (by simpa using h.2)]
      simp only [encode, hs, Option.getD_some, readU_le_append sz raw rest hv, h_enum, render]
      cases hemp : (lookupEnumerator (integerToHex u raw) ens).isEmpty <;>
        simp only [if_true, Bool.false_eq_true, if_false] <;>
        exact ⟨_, rfl, Rend.leaf _ _ hf⟩
  | .struct n fs, .tup vs =>
    simp only [TyOk, Bool.and_eq_true] at h
    simp only [hasTy] at hv
    simp only [depth] at hd
    simp only [emptyStructNames, ESNames.append_iff] at he
    rw [visitImpl_struct _ _ _ _ _ h.1 (fun e => he.1 n (by simp [e]))]
    simp only [h_structBegin, tagFields_eq_nil_iff, encode, render]
    cases fs with
    | nil =>
      cases vs with
      | nil =>
        simp only [List.isEmpty_nil, if_true, Bool.false_eq_true, if_false, fieldLoop_nil, encodeFields,
          List.nil_append, h_structEnd]
        exact ⟨_, rfl, Rend.of_fields (by simp) (by simp) rfl (by simp)⟩
      | cons _ _ => simp [hasTyFields] at hv
    | cons a fs =>
      simp only [List.isEmpty_cons, Bool.false_eq_true, if_false]
      obtain ⟨s2, e2, o2, d2, f2, _⟩ := render_fields (a :: fs) vs m ((tagFields (a :: fs)).length + 1)
        ((((s.comma).write (removePrefixBefore n cLt).1).write [123, 32]).enterSeq) rest
        (by have := length_le_tagFields (a :: fs); omega) h.2 hv (by left; omega) he.2
        (by simp) (by simp; omega) (by simp [hf])
      rw [e2]
      simp only [h_structEnd, f2, Bool.false_eq_true, if_false]
      refine ⟨_, rfl, ?_⟩
      rw [joinComma_eq]
      have := @Rend.bracket s s2 ((removePrefixBefore n cLt).1 ++ [123, 32]) _ [32, 125]
        (by simpa [List.append_assoc] using o2) (by simpa using d2) f2
      simpa [List.append_assoc] using this
  | .null, _ => simp [TyOk] at h
  | .arith _, .seq _ | .arith _, .tup _ | .arith _, .alt _ _ | .arith _, .nul => simp [hasTy] at hv
  | .seq _, .num _ | .seq _, .tup _ | .seq _, .alt _ _ | .seq _, .nul => simp [hasTy] at hv
  | .tup _, .num _ | .tup _, .seq _ | .tup _, .alt _ _ | .tup _, .nul => simp [hasTy] at hv
  | .var _, .num _ | .var _, .seq _ | .var _, .tup _ | .var _, .nul => simp [hasTy] at hv
  | .enum _ _ _, .seq _ | .enum _ _ _, .tup _ | .enum _ _ _, .alt _ _ | .enum _ _ _, .nul => simp [hasTy] at hv
  | .struct _ _, .num _ | .struct _ _, .seq _ | .struct _ _, .alt _ _ | .struct _ _, .nul => simp [hasTy] at hv
termination_by (m, 0)
theorem render_all (e : Ty) (vs : List Val) (m : Nat) (s : Ts) (rest : Bytes)
    (h : TyOk e = true) (hv : hasTyAll e vs = true) (hd : depth e < m)
    (he : ESNames full (emptyStructNames e))
    (hst : s.state ≠ .normal) (h1 : 1 ≤ s.seqDepth) (hf : s.emptyStruct = false) :
    ∃ s', loopN (fun (p : Ts × Bytes) => visitImpl tsv full m (tag e) p.1 p.2) vs.length
        (s, encodeAll e vs ++ rest) = .ok (s', rest)
      ∧ s'.out = s.out ++ joinFrom s.state (renderAll e vs) ∧ s'.seqDepth = s.seqDepth
      ∧ s'.emptyStruct = false ∧ s'.state ≠ .normal := by
  match vs with
  | [] => exact ⟨s, by simp [loopN, encodeAll], by simp [renderAll, joinFrom], rfl, hf, hst⟩
  | v :: vs =>
    simp only [hasTyAll, Bool.and_eq_true] at hv
    simp only [List.length_cons, loopN, encodeAll, List.append_assoc]
    obtain ⟨s1, e1, o1, d1, f1, st1, _⟩ := render_tag e v m s (encodeAll e vs ++ rest) h hv.1 hd he (by omega) hf
    have hs1 : s1.state = .seq := st1 hst (by omega)
    rw [e1]
    dsimp only
    obtain ⟨s2, e2, o2, d2, f2, st2⟩ := render_all e vs m s1 rest h hv.2 hd he (by simp [hs1]) (by omega) f1
    rw [e2]
    refine ⟨s2, rfl, ?_, by omega, f2, st2⟩
    rw [o2, o1, hs1, joinFrom_seq]
    simp [renderAll, joinFrom, List.append_assoc]
termination_by (m, vs.length + 1)
theorem render_list (es : List Ty) (vs : List Val) (m f : Nat) (s : Ts) (rest : Bytes)
    (hfu : es.length < f) (h : TyOkList es = true) (hv : hasTyList es vs = true)
    (hd : depthList es < m) (he : ESNames full (emptyStructNamesList es))
    (hst : s.state ≠ .normal) (h1 : 1 ≤ s.seqDepth) (hf : s.emptyStruct = false) :
    ∃ s', visitImpl.tupLoop tsv full m f (tagList es) s (encodeList es vs ++ rest) = .ok (s', rest)
      ∧ s'.out = s.out ++ joinFrom s.state (renderList es vs) ∧ s'.seqDepth = s.seqDepth
      ∧ s'.emptyStruct = false ∧ s'.state ≠ .normal := by
  obtain ⟨f, rfl⟩ : ∃ k, f = k + 1 := ⟨f - 1, by omega⟩
  match es, vs with
  | [], [] => exact ⟨s, by simp [tupLoop_nil, encodeList], by simp [renderList, joinFrom], rfl, hf, hst⟩
  | t :: ts, v :: vs =>
    simp only [TyOkList, Bool.and_eq_true] at h
    simp only [hasTyList, Bool.and_eq_true] at hv
    simp only [emptyStructNamesList, ESNames.append_iff] at he
    rw [depthList_cons] at hd
    simp only [List.length_cons] at hfu
    rw [tupLoop_cons _ _ _ _ _ _ (TyOkN.of_tyOk h.1)]
    simp only [encodeList, List.append_assoc]
    obtain ⟨s1, e1, o1, d1, f1, st1, _⟩ := render_tag t v m s (encodeList ts vs ++ rest) h.1 hv.1 (by omega) he.1
      (by omega) hf
    have hs1 : s1.state = .seq := st1 hst (by omega)
    rw [e1]
    dsimp only
    obtain ⟨s2, e2, o2, d2, f2, st2⟩ := render_list ts vs m f s1 rest (by omega) h.2 hv.2 (by omega) he.2
      (by simp [hs1]) (by omega) f1
    rw [e2]
    refine ⟨s2, rfl, ?_, by omega, f2, st2⟩
    rw [o2, o1, hs1, joinFrom_seq]
    simp [renderList, joinFrom, List.append_assoc]
  | [], _ :: _ => simp [hasTyList] at hv
  | _ :: _, [] => simp [hasTyList] at hv
termination_by (m, f)
theorem render_fields (fs : List (Bytes × Ty)) (vs : List Val) (m f : Nat) (s : Ts) (rest : Bytes)
    (hfu : fs.length < f) (h : TyOkFields fs = true) (hv : hasTyFields fs vs = true)
    (hd : depthFields fs < m ∨ fs = []) (he : ESNames full (emptyStructNamesFields fs))
    (hst : s.state ≠ .normal) (h1 : 1 ≤ s.seqDepth) (hf : s.emptyStruct = false) :
    ∃ s', visitImpl.fieldLoop tsv full m f (tagFields fs) s (encodeFields fs vs ++ rest) = .ok (s', rest)
      ∧ s'.out = s.out ++ joinFrom s.state (renderFields fs vs) ∧ s'.seqDepth = s.seqDepth
      ∧ s'.emptyStruct = false ∧ s'.state ≠ .normal := by
  obtain ⟨f, rfl⟩ : ∃ k, f = k + 1 := ⟨f - 1, by omega⟩
  match fs, vs with
  | [], [] => exact ⟨s, by simp [fieldLoop_nil, encodeFields], by simp [renderFields, joinFrom], rfl, hf, hst⟩
  | (n, t) :: fs, v :: vs =>
    simp only [TyOkFields, Bool.and_eq_true] at h
    simp only [hasTyFields, Bool.and_eq_true] at hv
    simp only [emptyStructNamesFields, ESNames.append_iff] at he
    have hd' : depth t < m ∧ (depthFields fs < m ∨ fs = []) := by
      rcases hd with hd | hd
      · rw [depthFields_cons] at hd; omega
      · cases hd
    simp only [List.length_cons] at hfu
    rw [fieldLoop_cons _ _ _ _ _ _ _ h.1.1 (TyOkN.of_tyOk h.1.2)]
    simp only [encodeFields, List.append_assoc, h_fieldBegin]
    obtain ⟨s1, e1, o1, d1, f1, _, _⟩ := render_tag t v m (fieldStart s n)
      (encodeFields fs vs ++ rest) h.1.2 hv.1 hd'.1 he.1 (by simp; omega) (by simp [hf])
    rw [e1]
    simp only [h_fieldEnd]
    obtain ⟨s2, e2, o2, d2, f2, st2⟩ := render_fields fs vs m f (setSeq s1) rest (by omega) h.2 hv.2
      hd'.2 he.2 (by simp) (by simp [d1]; omega) (by simp [f1])
    rw [e2]
    refine ⟨s2, rfl, ?_, ?_, f2, st2⟩
    · rw [o2, setSeq_state, joinFrom_seq, setSeq_out, o1]
      simp [renderFields, joinFrom, sepOf, List.append_assoc]
    · rw [d2]; simp [d1]
  | [], _ :: _ => simp [hasTyFields] at hv
  | _ :: _, [] => simp [hasTyFields] at hv
termination_by (m, f)
theorem render_nth (alts : List Ty) (i : Nat) (v : Val) (m : Nat) (s : Ts) (rest : Bytes)
    (h : ∀ t ∈ alts, TyOkN t = true) (hv : hasTyNth alts i v = true)
    (hd : depthList alts < m) (he : ESNames full (emptyStructNamesList alts))
    (h0 : 0 ≤ s.seqDepth) (hf : s.emptyStruct = false) :
    ∃ s', (if tag (nthTy alts i) = [cZero] then
          (.ok ((s.comma).write (strBytes "{null}"), encodeNth alts i v ++ rest) : Outcome _)
        else visitImpl tsv full m (tag (nthTy alts i)) s (encodeNth alts i v ++ rest)) = .ok (s', rest)
      ∧ Rend s s' (renderNth alts i v) := by
  match alts, i with
  | [], _ => simp [hasTyNth] at hv
  | t :: ts, 0 =>
    simp only [hasTyNth] at hv
    simp only [emptyStructNamesList, ESNames.append_iff] at he
    rw [depthList_cons] at hd
    simp only [nthTy, encodeNth, renderNth]
    have ht := h t (by simp)
    simp only [TyOkN, Bool.or_eq_true] at ht
    by_cases hn : isNull t = true
    · cases t <;> simp [isNull] at hn
      cases v <;> simp [hasTy] at hv
      simp only [tag_null, if_true, encode, List.nil_append, render]
      exact ⟨_, rfl, Rend.leaf _ _ hf⟩
    · have ht' : TyOk t = true := by rcases ht with ht | ht; exact absurd ht hn; exact ht
      rw [if_neg (tag_ne_zero t ht')]
      exact render_tag t v m s rest ht' hv (by omega) he.1 h0 hf
  | t :: ts, i + 1 =>
    simp only [hasTyNth] at hv
    simp only [emptyStructNamesList, ESNames.append_iff] at he
    rw [depthList_cons] at hd
    simp only [nthTy, encodeNth, renderNth]
    exact render_nth ts i v m s rest (fun x hx => h x (by simp [hx])) hv (by omega) he.2 h0 hf
termination_by (m, alts.length + 1)
end

end BinlogVerif.Mser
