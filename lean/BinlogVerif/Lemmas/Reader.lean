import BinlogVerif.Reader.EventStream
/-
  Helper lemmas about the reader model (never property statements).
-/
namespace BinlogVerif

/-! ### decoders ignore trailing bytes -/

theorem takeN_append_right {n : Nat} {r a b : Bytes} (x : Bytes) (h : takeN n r = .ok (a, b)) :
    takeN n (r ++ x) = .ok (a, b ++ x) := by
  unfold takeN at h ⊢
  split at h
  · rename_i hle
    have hle' : n ≤ (r ++ x).length := by simp; omega
    simp only [hle', if_true]
    injection h with h
    injection h with h1 h2
    subst h1; subst h2
    simp [List.take_append_of_le_length hle, List.drop_append_of_le_length hle]
  · cases h

theorem readU_append_right {n : Nat} {r b : Bytes} {v : Nat} (x : Bytes) (h : readU n r = .ok (v, b)) :
    readU n (r ++ x) = .ok (v, b ++ x) := by
  unfold readU at h ⊢
  match ht : takeN n r with
  | .ok (a, b') =>
    rw [ht] at h
    rw [takeN_append_right x ht]
    injection h with h
    injection h with h1 h2
    subst h1; subst h2
    rfl
  | .error e => rw [ht] at h; cases h

theorem readU_lt {n : Nat} {r b : Bytes} {v : Nat} (h : readU n r = .ok (v, b)) : v < 256 ^ n := by
  unfold readU at h
  match ht : takeN n r with
  | .ok (a, b') =>
    rw [ht] at h
    injection h with h
    injection h with h1 h2
    subst h1
    unfold takeN at ht
    split at ht
    · rename_i hle
      injection ht with ht
      injection ht with h1 h2
      subst h1
      have := unle_lt (List.take n r)
      simpa [List.length_take, Nat.min_eq_left hle] using this
    · cases ht
  | .error e => rw [ht] at h; cases h

theorem decStr_append_right {r s b : Bytes} (x : Bytes) (h : decStr r = .ok (s, b)) :
    decStr (r ++ x) = .ok (s, b ++ x) := by
  unfold decStr at h ⊢
  match h1 : readU 4 r with
  | .ok (n, r1) =>
    rw [h1] at h
    rw [readU_append_right x h1]
    simp only [bind, Except.bind] at h ⊢
    exact takeN_append_right x h
  | .error e => rw [h1] at h; cases h

/-- generic helper: peel one `bind` step whose first action is known to succeed -/
theorem bind_ok_elim {α β : Type} {m : Outcome α} {f : α → Outcome β} {b : β}
    (h : (m >>= f) = .ok b) : ∃ a, m = .ok a ∧ f a = .ok b := by
  cases m with
  | ok a => exact ⟨a, rfl, h⟩
  | error e => cases h

theorem decSource_append_right {r b : Bytes} {s : EventSource} (x : Bytes)
    (h : decSource r = .ok (s, b)) : decSource (r ++ x) = .ok (s, b ++ x) := by
  unfold decSource at h ⊢
  obtain ⟨⟨v1, r1⟩, e1, h⟩ := bind_ok_elim h
  obtain ⟨⟨v2, r2⟩, e2, h⟩ := bind_ok_elim h
  obtain ⟨⟨v3, r3⟩, e3, h⟩ := bind_ok_elim h
  obtain ⟨⟨v4, r4⟩, e4, h⟩ := bind_ok_elim h
  obtain ⟨⟨v5, r5⟩, e5, h⟩ := bind_ok_elim h
  obtain ⟨⟨v6, r6⟩, e6, h⟩ := bind_ok_elim h
  obtain ⟨⟨v7, r7⟩, e7, h⟩ := bind_ok_elim h
  obtain ⟨⟨v8, r8⟩, e8, h⟩ := bind_ok_elim h
  rw [readU_append_right x e1]; simp only [bind, Except.bind]
  rw [readU_append_right x e2]; simp only
  rw [decStr_append_right x e3]; simp only
  rw [decStr_append_right x e4]; simp only
  rw [decStr_append_right x e5]; simp only
  rw [readU_append_right x e6]; simp only
  rw [decStr_append_right x e7]; simp only
  rw [decStr_append_right x e8]; simp only
  simp only [pure, Except.pure] at h ⊢
  injection h with h
  injection h with h1 h2
  subst h1; subst h2
  rfl

theorem decWriterProp_append_right {r b : Bytes} {w : WriterProp} (x : Bytes)
    (h : decWriterProp r = .ok (w, b)) : decWriterProp (r ++ x) = .ok (w, b ++ x) := by
  unfold decWriterProp at h ⊢
  obtain ⟨⟨v1, r1⟩, e1, h⟩ := bind_ok_elim h
  obtain ⟨⟨v2, r2⟩, e2, h⟩ := bind_ok_elim h
  obtain ⟨⟨v3, r3⟩, e3, h⟩ := bind_ok_elim h
  rw [readU_append_right x e1]; simp only [bind, Except.bind]
  rw [decStr_append_right x e2]; simp only
  rw [readU_append_right x e3]; simp only
  simp only [pure, Except.pure] at h ⊢
  injection h with h
  injection h with h1 h2
  subst h1; subst h2
  rfl

theorem decClockSync_append_right {r b : Bytes} {c : ClockSync} (x : Bytes)
    (h : decClockSync r = .ok (c, b)) : decClockSync (r ++ x) = .ok (c, b ++ x) := by
  unfold decClockSync at h ⊢
  obtain ⟨⟨v1, r1⟩, e1, h⟩ := bind_ok_elim h
  obtain ⟨⟨v2, r2⟩, e2, h⟩ := bind_ok_elim h
  obtain ⟨⟨v3, r3⟩, e3, h⟩ := bind_ok_elim h
  obtain ⟨⟨v4, r4⟩, e4, h⟩ := bind_ok_elim h
  obtain ⟨⟨v5, r5⟩, e5, h⟩ := bind_ok_elim h
  rw [readU_append_right x e1]; simp only [bind, Except.bind]
  rw [readU_append_right x e2]; simp only
  rw [readU_append_right x e3]; simp only
  rw [readU_append_right x e4]; simp only
  rw [decStr_append_right x e5]; simp only
  simp only [pure, Except.pure] at h ⊢
  injection h with h
  injection h with h1 h2
  subst h1; subst h2
  rfl

theorem decSource_id_lt {r b : Bytes} {s : EventSource} (h : decSource r = .ok (s, b)) :
    s.id < 2^64 := by
  unfold decSource at h
  obtain ⟨⟨v1, r1⟩, e1, h⟩ := bind_ok_elim h
  obtain ⟨⟨v2, r2⟩, e2, h⟩ := bind_ok_elim h
  obtain ⟨⟨v3, r3⟩, e3, h⟩ := bind_ok_elim h
  obtain ⟨⟨v4, r4⟩, e4, h⟩ := bind_ok_elim h
  obtain ⟨⟨v5, r5⟩, e5, h⟩ := bind_ok_elim h
  obtain ⟨⟨v6, r6⟩, e6, h⟩ := bind_ok_elim h
  obtain ⟨⟨v7, r7⟩, e7, h⟩ := bind_ok_elim h
  obtain ⟨⟨v8, r8⟩, e8, h⟩ := bind_ok_elim h
  simp only [pure, Except.pure] at h
  injection h with h
  injection h with h1 h2
  subst h1
  have := readU_lt e1
  simpa using this

/-! ### state reached after a list of payloads -/

theorem readAll_append (st : ReaderState) (a b : List Bytes) (h : (runState st a).2 = false) :
    readAll st (a ++ b) = readAll st a ++ readAll (runState st a).1 b := by
  induction a generalizing st with
  | nil => simp [readAll, runState]
  | cons p ps ih =>
    simp only [List.cons_append, readAll, runState] at h ⊢
    cases hp : stepEntry st p with
    | none => rw [hp] at h; simp at h
    | some r =>
      obtain ⟨items, st'⟩ := r
      rw [hp] at h
      simp only at h ⊢
      rw [ih st' h, List.append_assoc]

theorem readAll_append_stopped (st : ReaderState) (a b : List Bytes) (h : (runState st a).2 = true) :
    readAll st (a ++ b) = readAll st a := by
  induction a generalizing st with
  | nil => simp [runState] at h
  | cons p ps ih =>
    simp only [List.cons_append, readAll, runState] at h ⊢
    cases hp : stepEntry st p with
    | none => rfl
    | some r =>
      obtain ⟨items, st'⟩ := r
      rw [hp] at h
      simp only at h ⊢
      rw [ih st' h]

theorem runState_append (st : ReaderState) (a b : List Bytes) (h : (runState st a).2 = false) :
    runState st (a ++ b) = runState (runState st a).1 b := by
  induction a generalizing st with
  | nil => simp [runState]
  | cons p ps ih =>
    simp only [List.cons_append, runState] at h ⊢
    cases hp : stepEntry st p with
    | none => rw [hp] at h; simp at h
    | some r => obtain ⟨items, st'⟩ := r; rw [hp] at h; exact ih st' h

/-- `processEntry` never changes the state when it reports an error. -/
theorem processEntry_error_state (st : ReaderState) (p : Bytes) (e : Err)
    (h : (processEntry st p).1 = .error e) : (processEntry st p).2 = st := by
  unfold processEntry at h ⊢
  cases hc : processEntryCore st p with
  | ok r => rw [hc] at h; cases h
  | error e' => rfl

end BinlogVerif
