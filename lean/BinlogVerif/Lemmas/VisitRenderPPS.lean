import BinlogVerif.Lemmas.SpecialStruct
/-
  `Lemmas/VisitRenderPP.lean` generalised: the `ToStringVisitor` WITH a pretty printer (as in `bread`), driven by `visit`
  over the encoding of a value, prints `renderPP t v` — the documented rendering in which binlog's own adapters
  (`binlog::address`, `std::filesystem::path`, `directory_entry`, `std::error_code`) are printed specially — for every
  type all of whose structs are either exactly such an adapter or declined by `printStruct` (`specialOk`).
-/
namespace BinlogVerif.Mser
open BinlogVerif BinlogVerif.Tag BinlogVerif.Visit BinlogVerif.Pretty

theorem hpS_structBegin (pp : TimePrinter) (s : Ts) (n t : Bytes) (input : Bytes) (hd : declines n t = true) :
    (tsvP (some pp)).handle s (.structBegin n t) input =
      if t.isEmpty then
        .ok (setFlag ((s.comma).write (removePrefixBefore n cLt).1) true, false, input)
      else .ok ((((s.comma).write (removePrefixBefore n cLt).1).write [123, 32]).enterSeq, false, input) := by
  simp only [tsvP, toStringVisitor, printStruct_declines pp n t input hd]
  rfl

theorem renderPP_seq_char (e : Ty) (vs : List Val) (hce : isCharTy e = true) :
    renderPP (.seq e) (.seq vs) = vs.map charOf := by
  cases vs with
  | nil => simp [renderPP, hce, charsOf]
  | cons v vs => rw [renderPP, if_pos hce, charsOf_eq]

theorem renderPP_seq_rep (e : Ty) (v : Val) (vs : List Val) (hce : ¬ isCharTy e = true)
    (hc : (v :: vs).length > repeatThreshold ∧ singularTy e = true) :
    renderPP (.seq e) (.seq (v :: vs)) = [91] ++ (renderPP e v ++ (strBytes " ... <repeats " ++
      natDec (v :: vs).length ++ strBytes " times>")) ++ [93] := by
  have hc' : (decide ((v :: vs).length > repeatThreshold) && singularTy e) = true := by
    rw [Bool.and_eq_true, decide_eq_true_eq]; exact hc
  rw [renderPP, if_neg hce, if_pos hc']
  simp only [List.append_assoc]

theorem renderPP_seq_all (e : Ty) (vs : List Val) (hce : ¬ isCharTy e = true)
    (hc : ¬ (vs.length > repeatThreshold ∧ singularTy e = true)) :
    renderPP (.seq e) (.seq vs) = [91] ++ joinComma (renderPPAll e vs) ++ [93] := by
  cases vs with
  | nil => simp [renderPP, hce, repeatThreshold]
  | cons v vs =>
    have hc' : ¬ (decide ((v :: vs).length > repeatThreshold) && singularTy e) = true := by
      rw [Bool.and_eq_true, decide_eq_true_eq]; exact hc
    rw [renderPP, if_neg hce, if_neg hc']

/-! ### the main induction -/

variable (full : Bytes) (pp : TimePrinter)

mutual
theorem renderS_tag (t : Ty) (v : Val) (m : Nat) (s : Ts) (rest : Bytes)
    (h : TyOk t = true) (hv : hasTy t v = true) (hd : depth t < m)
    (he : ESNames full (emptyStructNames t)) (hns : specialOk t = true) (h0 : 0 ≤ s.seqDepth) (hf : s.emptyStruct = false) :
    ∃ s', visitImpl (tsvP (some pp)) full m (tag t) s (encode t v ++ rest) = .ok (s', rest) ∧ Rend s s' (renderPP t v) := by
  obtain ⟨m, rfl⟩ : ∃ k, m = k + 1 := ⟨m - 1, by omega⟩
  match t, v with
  | .arith c, .num raw =>
    simp only [TyOk] at h
    simp only [hasTy] at hv
    rw [visitImpl_arith _ _ _ _ h]
    cases hs : arithSize c with
    | none => simp [hs] at h
    | some sz =>
      simp only [hs, decide_eq_true_eq] at hv
      simp only [visitArith, encode, hs, Option.getD_some, readU_le_append sz raw rest hv, hp_arith, renderPP]
      exact ⟨_, rfl, Rend.leaf _ _ hf⟩
  | .seq e, .seq vs =>
    simp only [TyOk] at h
    simp only [hasTy, Bool.and_eq_true, decide_eq_true_eq] at hv
    simp only [depth] at hd
    simp only [emptyStructNames] at he
    simp only [specialOk] at hns
    rw [visitImpl_seq _ _ _ _ h (by omega) he]
    simp only [encode, List.append_assoc, readU_le_append 4 vs.length _ (by simpa using hv.2), hp_seqBegin]
    by_cases hch : tag e = [99]
    · have hce : isCharTy e = true := (tag_eq_char e h).1 hch
      have hee := isCharTy_eq hce
      subst hee
      have henc := encodeAll_char vs hv.1
      rw [if_pos hch, takeN_append vs.length (encodeAll (.arith 99) vs) rest (by rw [henc]; simp)]
      simp only [if_true, renderPP_seq_char _ vs hce, henc]
      exact ⟨_, rfl, Rend.leaf _ _ hf⟩
    · have hce : ¬ isCharTy e = true := fun hc => hch ((tag_eq_char e h).2 hc)
      rw [if_neg hch]
      simp only [Bool.false_eq_true, if_false, seqBody]
      by_cases hc : vs.length > repeatThreshold ∧ singularTy e = true
      · rw [if_pos hc]
        match vs, hv, hc with
        | [], _, hc => simp [repeatThreshold] at hc
        | v0 :: vs', hv, hc =>
          simp only [hasTyAll, Bool.and_eq_true] at hv
          have hz : encodeAll e (v0 :: vs') = [] := encodeAll_singular e _ hc.2
          have hz0 : encode e v0 = [] := encode_singular e v0 hc.2
          obtain ⟨s2, e2, r2⟩ := renderS_tag e v0 m (((s.comma).write [91]).enterSeq) rest h hv.1.1 (by omega) he hns
            (by simp; omega) (by simp [hf])
          rw [hz0, List.nil_append] at e2
          have hgt : (v0 :: vs').length > 1 := by have := hc.1; simp only [repeatThreshold] at this; omega
          simp only [hz, List.nil_append, hp_repeatBegin, e2, hp_repeatEnd, if_pos hgt, hp_seqEnd]
          refine ⟨_, rfl, ?_⟩
          rw [renderPP_seq_rep e v0 vs' hce hc]
          obtain ⟨o2, d2, f2, _, _⟩ := r2
          exact Rend.bracket (by simp [o2, sepOf, List.append_assoc]) (by simp [d2]) (by simp [f2])
      · rw [if_neg hc]
        obtain ⟨s2, e2, o2, d2, f2, _⟩ := renderS_all e vs m (((s.comma).write [91]).enterSeq) rest h hv.1
          (by omega) he hns (by simp) (by simp; omega) (by simp [hf])
        rw [e2]
        simp only [hp_seqEnd]
        refine ⟨_, rfl, ?_⟩
        rw [renderPP_seq_all e vs hce hc, joinComma_eq]
        exact Rend.bracket (by simpa [List.append_assoc] using o2) (by simpa using d2) f2
  | .tup es, .tup vs =>
    simp only [TyOk] at h
    simp only [hasTy] at hv
    simp only [depth] at hd
    simp only [emptyStructNames] at he
    simp only [specialOk] at hns
    rw [visitImpl_tup]
    simp only [hp_tupBegin, Bool.false_eq_true, if_false, encode]
    obtain ⟨s2, e2, o2, d2, f2, _⟩ := renderS_list es vs m ((tagList es).length + 1)
      (((s.comma).write [40]).enterSeq) rest
      (by have := length_le_tagList es; omega) h hv (by omega) he hns (by simp) (by simp; omega) (by simp [hf])
    rw [e2]
    simp only [hp_tupEnd]
    refine ⟨_, rfl, ?_⟩
    rw [renderPP, joinComma_eq]
    exact Rend.bracket (by simpa [List.append_assoc] using o2) (by simpa using d2) f2
  | .var alts, .alt i v =>
    simp only [TyOk, Bool.and_eq_true, decide_eq_true_eq] at h
    simp only [hasTy, Bool.and_eq_true, decide_eq_true_eq] at hv
    simp only [depth] at hd
    simp only [emptyStructNames] at he
    simp only [specialOk] at hns
    have hi := hasTyNth_lt alts i v hv.2
    rw [visitImpl_var _ _ _ _ (tyOkAlts_forall h.2)]
    simp only [encode, List.append_assoc, readU_le_append 1 i _ (by simpa using hv.1), hp_varBegin, hp_null,
      Bool.false_eq_true, if_false, optTag_nth alts i (tyOkAlts_forall h.2) hi]
    obtain ⟨s2, e2, r2⟩ := renderS_nth alts i v m s rest (tyOkAlts_forall h.2) hv.2 (by omega) he hns h0 hf
    rw [e2]
    simp only [hp_varEnd, renderPP]
    exact ⟨_, rfl, r2⟩
  | .enum u n ens, .num raw =>
    simp only [TyOk, Bool.and_eq_true] at h
    simp only [hasTy] at hv
    cases hs : arithSize u with
    | none => simp [hs] at hv
    | some sz =>
      simp only [hs, decide_eq_true_eq] at hv
      rw [visitImpl_enum _ _ _ _ _ _ sz hs h.1.1.2 h.1.2 (by simpa using h.2)]
      simp only [encode, hs, Option.getD_some, readU_le_append sz raw rest hv, hp_enum, renderPP]
      cases hemp : (lookupEnumerator (integerToHex u raw) ens).isEmpty <;>
        simp only [if_true, Bool.false_eq_true, if_false] <;>
        exact ⟨_, rfl, Rend.leaf _ _ hf⟩
  | .struct n fs, .tup vs =>
    simp only [TyOk, Bool.and_eq_true] at h
    simp only [hasTy] at hv
    simp only [depth] at hd
    simp only [emptyStructNames, ESNames.append_iff] at he
    rw [visitImpl_struct _ _ _ _ _ h.1 (fun e => he.1 n (by simp [e]))]
    by_cases hsp : specialShape n fs = true
    · -- one of binlog's own adapters: the pretty printer prints it and skips the fields
      obtain ⟨b, hb, hps⟩ := special_handled pp n fs vs rest hsp hv
      have hh : (tsvP (some pp)).handle s (.structBegin n (tagFields fs)) (encode (.struct n fs) (.tup vs) ++ rest)
          = .ok ((s.comma).write b, true, rest) := by
        simp only [tsvP, toStringVisitor, encode, hps]
      rw [hh]
      simp only [if_true]
      refine ⟨_, rfl, ?_⟩
      have hr : renderPP (.struct n fs) (.tup vs) = b := by rw [renderPP, hb]
      rw [hr]
      exact Rend.leaf _ _ hf
    · have hsf : specialShape n fs = false := by simpa using hsp
      simp only [specialOk, hsf, Bool.false_or, Bool.and_eq_true] at hns
      have hnone := special_none n fs vs hsf hns.1
      have hr : renderPP (.struct n fs) (.tup vs) =
          (if fs.isEmpty then (removePrefixBefore n cLt).1
           else (removePrefixBefore n cLt).1 ++ [123, 32] ++ joinComma (renderPPFields fs vs) ++ [32, 125]) := by
        rw [renderPP, hnone]
      rw [hr]
      simp only [hpS_structBegin pp _ _ _ _ hns.1, tagFields_eq_nil_iff, encode]
      cases fs with
      | nil =>
        cases vs with
        | nil =>
          simp only [List.isEmpty_nil, if_true, Bool.false_eq_true, if_false, fieldLoop_nil, encodeFields,
            List.nil_append, hp_structEnd]
          exact ⟨_, rfl, Rend.of_fields (by simp) (by simp) rfl (by simp)⟩
        | cons _ _ => simp [hasTyFields] at hv
      | cons a fs =>
        simp only [List.isEmpty_cons, Bool.false_eq_true, if_false]
        obtain ⟨s2, e2, o2, d2, f2, _⟩ := renderS_fields (a :: fs) vs m ((tagFields (a :: fs)).length + 1)
          ((((s.comma).write (removePrefixBefore n cLt).1).write [123, 32]).enterSeq) rest
          (by have := length_le_tagFields (a :: fs); omega) h.2 hv (by left; omega) he.2 hns.2
          (by simp) (by simp; omega) (by simp [hf])
        rw [e2]
        simp only [hp_structEnd, f2, Bool.false_eq_true, if_false]
        refine ⟨_, rfl, ?_⟩
        rw [joinComma_eq]
        have := @Rend.bracket s s2 ((removePrefixBefore n cLt).1 ++ [123, 32]) _ [32, 125]
          (by simpa [List.append_assoc] using o2) (by simpa using d2) f2
        simpa [List.append_assoc] using this
  | .null, _ => simp [TyOk] at h
  | .arith _, .seq _ | .arith _, .tup _ | .arith _, .alt _ _ | .arith _, .nul => simp [hasTy] at hv
  | .seq _, .num _ | .seq _, .tup _ | .seq _, .alt _ _ | .seq _, .nul => simp [hasTy] at hv
  | .tup _, .num _ | .tup _, .seq _ | .tup _, .alt _ _ | .tup _, .nul => simp [hasTy] at hv
  | .var _, .num _ | .var _, .seq _ | .var _, .tup _ | .var _, .nul => simp [hasTy] at hv
  | .enum _ _ _, .seq _ | .enum _ _ _, .tup _ | .enum _ _ _, .alt _ _ | .enum _ _ _, .nul => simp [hasTy] at hv
  | .struct _ _, .num _ | .struct _ _, .seq _ | .struct _ _, .alt _ _ | .struct _ _, .nul => simp [hasTy] at hv
termination_by (m, 0)
theorem renderS_all (e : Ty) (vs : List Val) (m : Nat) (s : Ts) (rest : Bytes)
    (h : TyOk e = true) (hv : hasTyAll e vs = true) (hd : depth e < m)
    (he : ESNames full (emptyStructNames e)) (hns : specialOk e = true)
    (hst : s.state ≠ .normal) (h1 : 1 ≤ s.seqDepth) (hf : s.emptyStruct = false) :
    ∃ s', loopN (fun (p : Ts × Bytes) => visitImpl (tsvP (some pp)) full m (tag e) p.1 p.2) vs.length
        (s, encodeAll e vs ++ rest) = .ok (s', rest)
      ∧ s'.out = s.out ++ joinFrom s.state (renderPPAll e vs) ∧ s'.seqDepth = s.seqDepth
      ∧ s'.emptyStruct = false ∧ s'.state ≠ .normal := by
  match vs with
  | [] => exact ⟨s, by simp [loopN, encodeAll], by simp [renderPPAll, joinFrom], rfl, hf, hst⟩
  | v :: vs =>
    simp only [hasTyAll, Bool.and_eq_true] at hv
    simp only [List.length_cons, loopN, encodeAll, List.append_assoc]
    obtain ⟨s1, e1, o1, d1, f1, st1, _⟩ := renderS_tag e v m s (encodeAll e vs ++ rest) h hv.1 hd he hns (by omega) hf
    have hs1 : s1.state = .seq := st1 hst (by omega)
    rw [e1]
    dsimp only
    obtain ⟨s2, e2, o2, d2, f2, st2⟩ := renderS_all e vs m s1 rest h hv.2 hd he hns (by simp [hs1]) (by omega) f1
    rw [e2]
    refine ⟨s2, rfl, ?_, by omega, f2, st2⟩
    rw [o2, o1, hs1, joinFrom_seq]
    simp [renderPPAll, joinFrom, List.append_assoc]
termination_by (m, vs.length + 1)
theorem renderS_list (es : List Ty) (vs : List Val) (m f : Nat) (s : Ts) (rest : Bytes)
    (hfu : es.length < f) (h : TyOkList es = true) (hv : hasTyList es vs = true)
    (hd : depthList es < m) (he : ESNames full (emptyStructNamesList es)) (hns : specialOkList es = true)
    (hst : s.state ≠ .normal) (h1 : 1 ≤ s.seqDepth) (hf : s.emptyStruct = false) :
    ∃ s', visitImpl.tupLoop (tsvP (some pp)) full m f (tagList es) s (encodeList es vs ++ rest) = .ok (s', rest)
      ∧ s'.out = s.out ++ joinFrom s.state (renderPPList es vs) ∧ s'.seqDepth = s.seqDepth
      ∧ s'.emptyStruct = false ∧ s'.state ≠ .normal := by
  obtain ⟨f, rfl⟩ : ∃ k, f = k + 1 := ⟨f - 1, by omega⟩
  match es, vs with
  | [], [] => exact ⟨s, by simp [tupLoop_nil, encodeList], by simp [renderPPList, joinFrom], rfl, hf, hst⟩
  | t :: ts, v :: vs =>
    simp only [TyOkList, Bool.and_eq_true] at h
    simp only [hasTyList, Bool.and_eq_true] at hv
    simp only [emptyStructNamesList, ESNames.append_iff] at he
    simp only [specialOkList, Bool.and_eq_true] at hns
    rw [depthList_cons] at hd
    simp only [List.length_cons] at hfu
    rw [tupLoop_cons _ _ _ _ _ _ (TyOkN.of_tyOk h.1)]
    simp only [encodeList, List.append_assoc]
    obtain ⟨s1, e1, o1, d1, f1, st1, _⟩ := renderS_tag t v m s (encodeList ts vs ++ rest) h.1 hv.1 (by omega) he.1 hns.1
      (by omega) hf
    have hs1 : s1.state = .seq := st1 hst (by omega)
    rw [e1]
    dsimp only
    obtain ⟨s2, e2, o2, d2, f2, st2⟩ := renderS_list ts vs m f s1 rest (by omega) h.2 hv.2 (by omega) he.2 hns.2
      (by simp [hs1]) (by omega) f1
    rw [e2]
    refine ⟨s2, rfl, ?_, by omega, f2, st2⟩
    rw [o2, o1, hs1, joinFrom_seq]
    simp [renderPPList, joinFrom, List.append_assoc]
  | [], _ :: _ => simp [hasTyList] at hv
  | _ :: _, [] => simp [hasTyList] at hv
termination_by (m, f)
theorem renderS_fields (fs : List (Bytes × Ty)) (vs : List Val) (m f : Nat) (s : Ts) (rest : Bytes)
    (hfu : fs.length < f) (h : TyOkFields fs = true) (hv : hasTyFields fs vs = true)
    (hd : depthFields fs < m ∨ fs = []) (he : ESNames full (emptyStructNamesFields fs)) (hns : specialOkFields fs = true)
    (hst : s.state ≠ .normal) (h1 : 1 ≤ s.seqDepth) (hf : s.emptyStruct = false) :
    ∃ s', visitImpl.fieldLoop (tsvP (some pp)) full m f (tagFields fs) s (encodeFields fs vs ++ rest) = .ok (s', rest)
      ∧ s'.out = s.out ++ joinFrom s.state (renderPPFields fs vs) ∧ s'.seqDepth = s.seqDepth
      ∧ s'.emptyStruct = false ∧ s'.state ≠ .normal := by
  obtain ⟨f, rfl⟩ : ∃ k, f = k + 1 := ⟨f - 1, by omega⟩
  match fs, vs with
  | [], [] => exact ⟨s, by simp [fieldLoop_nil, encodeFields], by simp [renderPPFields, joinFrom], rfl, hf, hst⟩
  | (n, t) :: fs, v :: vs =>
    simp only [TyOkFields, Bool.and_eq_true] at h
    simp only [hasTyFields, Bool.and_eq_true] at hv
    simp only [emptyStructNamesFields, ESNames.append_iff] at he
    simp only [specialOkFields, Bool.and_eq_true] at hns
    have hd' : depth t < m ∧ (depthFields fs < m ∨ fs = []) := by
      rcases hd with hd | hd
      · rw [depthFields_cons] at hd; omega
      · cases hd
    simp only [List.length_cons] at hfu
    rw [fieldLoop_cons _ _ _ _ _ _ _ h.1.1 (TyOkN.of_tyOk h.1.2)]
    simp only [encodeFields, List.append_assoc, hp_fieldBegin]
    obtain ⟨s1, e1, o1, d1, f1, _, _⟩ := renderS_tag t v m (fieldStart s n)
      (encodeFields fs vs ++ rest) h.1.2 hv.1 hd'.1 he.1 hns.1 (by simp; omega) (by simp [hf])
    rw [e1]
    simp only [hp_fieldEnd]
    obtain ⟨s2, e2, o2, d2, f2, st2⟩ := renderS_fields fs vs m f (setSeq s1) rest (by omega) h.2 hv.2
      hd'.2 he.2 hns.2 (by simp) (by simp [d1]; omega) (by simp [f1])
    rw [e2]
    refine ⟨s2, rfl, ?_, ?_, f2, st2⟩
    · rw [o2, setSeq_state, joinFrom_seq, setSeq_out, o1]
      simp [renderPPFields, joinFrom, sepOf, List.append_assoc]
    · rw [d2]; simp [d1]
  | [], _ :: _ => simp [hasTyFields] at hv
  | _ :: _, [] => simp [hasTyFields] at hv
termination_by (m, f)
theorem renderS_nth (alts : List Ty) (i : Nat) (v : Val) (m : Nat) (s : Ts) (rest : Bytes)
    (h : ∀ t ∈ alts, TyOkN t = true) (hv : hasTyNth alts i v = true)
    (hd : depthList alts < m) (he : ESNames full (emptyStructNamesList alts)) (hns : specialOkList alts = true)
    (h0 : 0 ≤ s.seqDepth) (hf : s.emptyStruct = false) :
    ∃ s', (if tag (nthTy alts i) = [cZero] then
          (.ok ((s.comma).write (strBytes "{null}"), encodeNth alts i v ++ rest) : Outcome _)
        else visitImpl (tsvP (some pp)) full m (tag (nthTy alts i)) s (encodeNth alts i v ++ rest)) = .ok (s', rest)
      ∧ Rend s s' (renderPPNth alts i v) := by
  match alts, i with
  | [], _ => simp [hasTyNth] at hv
  | t :: ts, 0 =>
    simp only [hasTyNth] at hv
    simp only [emptyStructNamesList, ESNames.append_iff] at he
    simp only [specialOkList, Bool.and_eq_true] at hns
    rw [depthList_cons] at hd
    simp only [nthTy, encodeNth, renderPPNth]
    have ht := h t (by simp)
    simp only [TyOkN, Bool.or_eq_true] at ht
    by_cases hn : isNull t = true
    · cases t <;> simp [isNull] at hn
      cases v <;> simp [hasTy] at hv
      simp only [tag_null, if_true, encode, List.nil_append, renderPP]
      exact ⟨_, rfl, Rend.leaf _ _ hf⟩
    · have ht' : TyOk t = true := by rcases ht with ht | ht; exact absurd ht hn; exact ht
      rw [if_neg (tag_ne_zero t ht')]
      exact renderS_tag t v m s rest ht' hv (by omega) he.1 hns.1 h0 hf
  | t :: ts, i + 1 =>
    simp only [hasTyNth] at hv
    simp only [emptyStructNamesList, ESNames.append_iff] at he
    simp only [specialOkList, Bool.and_eq_true] at hns
    rw [depthList_cons] at hd
    simp only [nthTy, encodeNth, renderPPNth]
    exact renderS_nth ts i v m s rest (fun x hx => h x (by simp [hx])) hv (by omega) he.2 hns.2 h0 hf
termination_by (m, alts.length + 1)
end



end BinlogVerif.Mser
