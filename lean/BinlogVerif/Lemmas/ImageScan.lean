import BinlogVerif.Conc.Image
import BinlogVerif.Props.C20
/-
  Lemmas for C08: the recovery scan (`Recovery.scan`) over an image made of fillers and blocks.
-/
namespace BinlogVerif.Image
open BinlogVerif BinlogVerif.Recovery

theorem length_dropWhile_le {α} (p : α → Bool) (l : List α) : (l.dropWhile p).length ≤ l.length := by
  induction l with
  | nil => simp
  | cons a l ih =>
    rw [List.dropWhile_cons]
    split
    · simp; omega
    · simp

/-- fuel beyond the input length is irrelevant -/
theorem scan_fuel_stable (f1 f2 : Nat) (r : Bytes) (h1 : r.length < f1) (h2 : r.length < f2) :
    scan f1 r = scan f2 r := by
  induction f1 generalizing f2 r with
  | zero => omega
  | succ f1 ih =>
    cases f2 with
    | zero => omega
    | succ f2 =>
      unfold scan
      simp only
      have hdw := length_dropWhile_le (· != firstMagicByte) r
      split
      · rfl
      · rename_i x after heq
        rw [heq] at hdw
        simp only [List.length_cons] at hdw
        have e1 : ∀ l : Bytes, l.length ≤ after.length → scan f1 l = scan f2 l :=
          fun l hl => ih f2 l (by omega) (by omega)
        have hbody : (List.drop 7 after).length ≤ after.length := by simp
        have hbn : ∀ n, (List.drop n (List.drop 7 after)).length ≤ after.length := by intro n; simp only [List.length_drop]; omega
        rw [e1 after (Nat.le_refl _), e1 _ hbody]
        split
        · rfl
        · split
          · split
            · rw [e1 _ (hbn _)]
            · rfl
          · split
            · split
              · rfl
              · rw [e1 _ (hbn _)]
              · rfl
            · rfl

/-- the scan with the fuel `recover` gives it -/
def scanAll (r : Bytes) : Outcome (List Recovered) := scan (r.length + 1) r

theorem scan_eq_scanAll (fuel : Nat) (r : Bytes) (h : r.length < fuel) : scan fuel r = scanAll r :=
  scan_fuel_stable _ _ r h (Nat.lt_succ_self _)

theorem scanAll_unfold (r : Bytes) : scanAll r =
    match r.dropWhile (· != firstMagicByte) with
    | [] => .ok []
    | _ :: after =>
      if after.length < 7 then .ok [] else
      if firstMagicByte :: after.take 7 = metadataMagic then
        match readMetadata (after.drop 7) with
        | some (b, n) => (scanAll ((after.drop 7).drop n)).map (b :: ·)
        | none => scanAll (after.drop 7)
      else if firstMagicByte :: after.take 7 = dataMagic then
        match readData (after.drop 7) with
        | .error e => .error e
        | .ok (some (b, n)) => (scanAll ((after.drop 7).drop n)).map (b :: ·)
        | .ok none => scanAll (after.drop 7)
      else scanAll after := by
  show scan (r.length + 1) r = _
  unfold scan
  simp only
  have hdw := length_dropWhile_le (· != firstMagicByte) r
  cases heq : List.dropWhile (· != firstMagicByte) r with
  | nil => rfl
  | cons x after =>
    rw [heq] at hdw
    simp only [List.length_cons] at hdw
    have e1 : ∀ l : Bytes, l.length ≤ after.length → scan r.length l = scanAll l :=
      fun l hl => scan_eq_scanAll _ l (by omega)
    have hbody : (List.drop 7 after).length ≤ after.length := by simp
    have hbn : ∀ n, (List.drop n (List.drop 7 after)).length ≤ after.length := by
      intro n; simp only [List.length_drop]; omega
    simp only
    rw [e1 after (Nat.le_refl _), e1 _ hbody]
    split
    · rfl
    · split
      · cases readMetadata (List.drop 7 after) with
        | none => rfl
        | some bn => simp only [e1 _ (hbn _)]
      · split
        · cases readData (List.drop 7 after) with
          | error e => rfl
          | ok res =>
            cases res with
            | none => rfl
            | some bn => simp only [e1 _ (hbn _)]
        · rfl

theorem metadataMagic_eq : metadataMagic = [0xBC, 0xBD, 0x35, 0x6E, 0x72, 0x4F, 0x21, 0xFE] := by decide
theorem dataMagic_eq : dataMagic = [0xBC, 0xBC, 0x34, 0x6D, 0x71, 0x3F, 0x21, 0xFE] := by decide

theorem scanAll_short (r : Bytes) (h : r.length < 8) : scanAll r = .ok [] := by
  rw [scanAll_unfold]
  have hdw := length_dropWhile_le (· != firstMagicByte) r
  split
  · rfl
  · rename_i x after heq
    rw [heq] at hdw
    simp only [List.length_cons] at hdw
    rw [if_pos (by omega)]

theorem scanAll_cons_ne (b : UInt8) (r : Bytes) (hb : b ≠ firstMagicByte) : scanAll (b :: r) = scanAll r := by
  rw [scanAll_unfold (b :: r), scanAll_unfold r, List.dropWhile_cons]
  simp [hb]

/-- a first magic byte that does not start a magic number is passed over -/
theorem scanAll_bc_skip (r : Bytes) (h : ¬ StartsMagic (firstMagicByte :: r)) :
    scanAll (firstMagicByte :: r) = scanAll r := by
  rw [scanAll_unfold (firstMagicByte :: r)]
  have : List.dropWhile (· != firstMagicByte) (firstMagicByte :: r) = firstMagicByte :: r := by
    simp
  rw [this]
  simp only
  by_cases hl : r.length < 7
  · rw [if_pos hl, scanAll_short r (by omega)]
  · rw [if_neg hl]
    have h1 : ¬ firstMagicByte :: List.take 7 r = metadataMagic := fun e => h (.inl (by simpa using e))
    have h2 : ¬ firstMagicByte :: List.take 7 r = dataMagic := fun e => h (.inr (by simpa using e))
    rw [if_neg h1, if_neg h2]

theorem scanAll_skip (f rest : Bytes) (h : NoMagicIn f rest) : scanAll (f ++ rest) = scanAll rest := by
  induction f with
  | nil => rfl
  | cons b f ih =>
    have h' : ¬ StartsMagic (b :: (f ++ rest)) ∧ NoMagicIn f rest := h
    obtain ⟨h1, h2⟩ := h'
    by_cases hb : b = firstMagicByte
    · subst hb
      rw [List.cons_append, scanAll_bc_skip _ h1]
      exact ih h2
    · rw [List.cons_append, scanAll_cons_ne _ _ hb]
      exact ih h2

theorem noMagicIn_of_fillerOk (f rest : Bytes) (h : FillerOk f) : NoMagicIn f rest := by
  induction f with
  | nil => trivial
  | cons b f ih =>
    refine ⟨?_, ih (fun x hx => h x (by simp [hx]))⟩
    have hb := h b (by simp)
    intro hs
    cases hs with
    | inl hs => rw [metadataMagic_eq] at hs; simp at hs; exact hb hs.1
    | inr hs => rw [dataMagic_eq] at hs; simp at hs; exact hb hs.1

theorem scanAll_metaMagic (body : Bytes) : scanAll (metadataMagic ++ body) =
    match readMetadata body with
    | some (b, n) => (scanAll (body.drop n)).map (b :: ·)
    | none => scanAll body := by
  rw [scanAll_unfold, metadataMagic_eq]
  have hd : List.dropWhile (· != firstMagicByte) ([0xBC, 0xBD, 0x35, 0x6E, 0x72, 0x4F, 0x21, 0xFE] ++ body)
      = (0xBC : UInt8) :: ([0xBD, 0x35, 0x6E, 0x72, 0x4F, 0x21, 0xFE] ++ body) := by
    simp [firstMagicByte]
  rw [hd]
  simp only
  have h7 : ¬ ([0xBD, 0x35, 0x6E, 0x72, 0x4F, 0x21, 0xFE] ++ body : Bytes).length < 7 := by simp
  have ht : List.take 7 ([0xBD, 0x35, 0x6E, 0x72, 0x4F, 0x21, 0xFE] ++ body : Bytes) = [0xBD, 0x35, 0x6E, 0x72, 0x4F, 0x21, 0xFE] := by
    simp
  have hdr : List.drop 7 ([0xBD, 0x35, 0x6E, 0x72, 0x4F, 0x21, 0xFE] ++ body : Bytes) = body := by simp
  rw [if_neg h7, ht, hdr, if_pos (by decide)]

theorem scanAll_dataMagic (body : Bytes) : scanAll (dataMagic ++ body) =
    match readData body with
    | .error e => .error e
    | .ok (some (b, n)) => (scanAll (body.drop n)).map (b :: ·)
    | .ok none => scanAll body := by
  rw [scanAll_unfold, dataMagic_eq]
  have hd : List.dropWhile (· != firstMagicByte) ([0xBC, 0xBC, 0x34, 0x6D, 0x71, 0x3F, 0x21, 0xFE] ++ body)
      = (0xBC : UInt8) :: ([0xBC, 0x34, 0x6D, 0x71, 0x3F, 0x21, 0xFE] ++ body) := by
    simp [firstMagicByte]
  rw [hd]
  simp only
  have h7 : ¬ ([0xBC, 0x34, 0x6D, 0x71, 0x3F, 0x21, 0xFE] ++ body : Bytes).length < 7 := by simp
  have ht : List.take 7 ([0xBC, 0x34, 0x6D, 0x71, 0x3F, 0x21, 0xFE] ++ body : Bytes) = [0xBC, 0x34, 0x6D, 0x71, 0x3F, 0x21, 0xFE] := by
    simp
  have hdr : List.drop 7 ([0xBC, 0x34, 0x6D, 0x71, 0x3F, 0x21, 0xFE] ++ body : Bytes) = body := by simp
  rw [if_neg h7, ht, hdr, if_neg (by decide), if_pos (by decide)]

theorem checkEntryBuffer_frames (ps : List Bytes) (hok : ∀ p ∈ ps, PayloadOk p) :
    checkEntryBuffer (frames ps) = true := by
  unfold checkEntryBuffer
  rw [C12.splitEntries_frames ps hok]

/-- **block lemma (metadata).**  On the bytes behind the magic of a metadata block whose size field
    counts `es`, `readMetadata` returns exactly the framed `es` and consumes header + size bytes. -/
theorem readMetadata_block (session : Nat) (es : List Bytes) (tail : Bytes)
    (hs : session < 2 ^ 64) (hl : (frames es).length < 2 ^ 64) (hok : ∀ p ∈ es, PayloadOk p) :
    readMetadata (le 8 session ++ le 8 (frames es).length ++ (frames es ++ tail))
      = some (⟨.metadata, session, frames es⟩, 16 + (frames es).length) := by
  unfold readMetadata
  generalize hfr : frames es = fr at *
  have h1 : List.take 8 (le 8 session ++ le 8 fr.length ++ (fr ++ tail)) = le 8 session := by
    rw [List.append_assoc]; exact List.take_left' (le_length _ _)
  have h2 : List.take 8 (List.drop 8 (le 8 session ++ le 8 fr.length ++ (fr ++ tail))) = le 8 fr.length := by
    rw [List.append_assoc, List.drop_left' (le_length _ _)]; exact List.take_left' (le_length _ _)
  have h3 : List.drop 16 (le 8 session ++ le 8 fr.length ++ (fr ++ tail)) = fr ++ tail :=
    List.drop_left' (by simp)
  have h0 : ¬ (le 8 session ++ le 8 fr.length ++ (fr ++ tail)).length < 16 := by simp; omega
  simp only [h0, if_false, h1, h2, h3]
  rw [unle_le_of_lt 8 session (by simpa using hs), unle_le_of_lt 8 fr.length (by simpa using hl)]
  have h4 : ¬ fr.length > (fr ++ tail).length := by simp
  have h5 : List.take fr.length (fr ++ tail) = fr := List.take_left' rfl
  simp only [h4, if_false, h5]
  rw [← hfr, checkEntryBuffer_frames es hok]
  simp

theorem drop_metaBody (session n : Nat) (fr tail : Bytes) (hn : fr.length = n) :
    List.drop (16 + n) (le 8 session ++ le 8 n ++ (fr ++ tail)) = tail := by
  rw [← List.append_assoc]
  exact List.drop_left' (by simp; omega)
theorem drop_add_left {α} (a b : List α) (n k : Nat) (h : a.length = n) : (a ++ b).drop (n + k) = b.drop k := by
  rw [← List.drop_drop, List.drop_left' h]

theorem readData_block (session w e cap ptr rd : Nat) (buf tail : Bytes) (ps : List Bytes)
    (hs : session < 2 ^ 64) (hcap : cap < 2 ^ 64) (hlen : buf.length = cap) (hw : w ≤ cap) (he : e ≤ cap) (hr : rd ≤ cap)
    (hread : beginReadCopy buf w e rd = .ok (frames ps)) (hok : ∀ p ∈ ps, PayloadOk p) :
    readData (le 8 session ++ (le 8 w ++ (le 8 e ++ (le 8 cap ++ (le 8 ptr ++ (le 8 rd ++ (buf ++ tail)))))))
      = .ok (some (⟨.data, session, frames ps⟩, 48 + cap)) := by
  unfold readData
  have l8 : ∀ v, (le 8 v).length = 8 := fun v => le_length 8 v
  have h0 : ¬ (le 8 session ++ (le 8 w ++ (le 8 e ++ (le 8 cap ++ (le 8 ptr ++ (le 8 rd ++ (buf ++ tail))))))).length < 48 := by
    simp; omega
  have t0 : List.take 8 (le 8 session ++ (le 8 w ++ (le 8 e ++ (le 8 cap ++ (le 8 ptr ++ (le 8 rd ++ (buf ++ tail))))))) = le 8 session :=
    List.take_left' (l8 _)
  have d0 : List.drop 8 (le 8 session ++ (le 8 w ++ (le 8 e ++ (le 8 cap ++ (le 8 ptr ++ (le 8 rd ++ (buf ++ tail))))))) =
      le 8 w ++ (le 8 e ++ (le 8 cap ++ (le 8 ptr ++ (le 8 rd ++ (buf ++ tail))))) := List.drop_left' (l8 _)
  have d48 : List.drop 48 (le 8 session ++ (le 8 w ++ (le 8 e ++ (le 8 cap ++ (le 8 ptr ++ (le 8 rd ++ (buf ++ tail))))))) = buf ++ tail := by
    rw [show 48 = 8 + (8 + (8 + (8 + (8 + (8 + 0))))) by rfl]
    repeat rw [drop_add_left _ _ 8 _ (l8 _)]
    rfl
  simp only [h0, if_false, t0, d0, d48]
  have t1 : List.take 8 (le 8 w ++ (le 8 e ++ (le 8 cap ++ (le 8 ptr ++ (le 8 rd ++ (buf ++ tail)))))) = le 8 w := List.take_left' (l8 _)
  have t2 : List.take 8 (List.drop 8 (le 8 w ++ (le 8 e ++ (le 8 cap ++ (le 8 ptr ++ (le 8 rd ++ (buf ++ tail))))))) = le 8 e := by
    rw [List.drop_left' (l8 _)]; exact List.take_left' (l8 _)
  have t3 : List.take 8 (List.drop 16 (le 8 w ++ (le 8 e ++ (le 8 cap ++ (le 8 ptr ++ (le 8 rd ++ (buf ++ tail))))))) = le 8 cap := by
    rw [show 16 = 8 + (8 + 0) by rfl]
    repeat rw [drop_add_left _ _ 8 _ (l8 _)]
    exact List.take_left' (l8 _)
  have t4 : List.take 8 (List.drop 32 (le 8 w ++ (le 8 e ++ (le 8 cap ++ (le 8 ptr ++ (le 8 rd ++ (buf ++ tail))))))) = le 8 rd := by
    rw [show 32 = 8 + (8 + (8 + (8 + 0))) by rfl]
    repeat rw [drop_add_left _ _ 8 _ (l8 _)]
    exact List.take_left' (l8 _)
  simp only [t1, t2, t3, t4]
  have b64 : ∀ v, v ≤ cap → v < 256 ^ 8 := fun v hv => by
    have : cap < 256 ^ 8 := by simpa using hcap
    omega
  rw [unle_le_of_lt 8 session (by simpa using hs), unle_le_of_lt 8 w (b64 w hw), unle_le_of_lt 8 e (b64 e he),
    unle_le_of_lt 8 cap (b64 cap (Nat.le_refl _)), unle_le_of_lt 8 rd (b64 rd hr)]
  have c1 : ¬ (w > cap ∨ e > cap ∨ rd > cap) := by omega
  have c2 : ¬ cap > (buf ++ tail).length := by simp; omega
  have tb : List.take cap (buf ++ tail) = buf := List.take_left' hlen
  simp only [c1, c2, if_false, tb, hread, checkEntryBuffer_frames ps hok, if_true]

/-! ### the scan over an image -/

theorem metaOn_bytes_append (s : Nat) (es : List Bytes) (extra rest : Bytes) :
    (Piece.metaOn s es extra).bytes ++ rest =
      metadataMagic ++ (le 8 s ++ le 8 (frames es).length ++ (frames es ++ (extra ++ rest))) := by
  simp [Piece.bytes, metaBlock, List.append_assoc]

theorem chanOn_bytes_append (s : Nat) (c : ChanImage) (rest : Bytes) (h : c.magicOn = true) :
    (Piece.chan s c).bytes ++ rest =
      dataMagic ++ (le 8 s ++ (le 8 c.w ++ (le 8 c.e ++ (le 8 c.cap ++ (le 8 c.ptr ++ (le 8 c.r ++ (c.buf ++ rest))))))) := by
  simp [Piece.bytes, ChanImage.block, chanBlock, h, List.append_assoc]

theorem scanAll_piece (p : Piece) (rest : Bytes) (h : p.Ok rest) :
    scanAll (p.bytes ++ rest) = (scanAll rest).map (fun l => p.recovered.toList ++ l) := by
  have hid : ∀ x : Outcome (List Recovered), x = x.map (fun l => [] ++ l) := by
    intro x; cases x <;> rfl
  cases p with
  | metaOn s es extra =>
    obtain ⟨hs, hl, hok, hextra⟩ := h
    rw [metaOn_bytes_append, scanAll_metaMagic, readMetadata_block s es _ hs hl hok]
    simp only
    rw [drop_metaBody s _ _ _ rfl, scanAll_skip _ _ hextra]
    rfl
  | chan s c =>
    simp only [Piece.Ok] at h
    by_cases hm : c.magicOn = true
    · rw [if_pos hm] at h
      obtain ⟨hs, hcap, hlen, hw, he, hr, hread, hok⟩ := h
      rw [chanOn_bytes_append s c rest hm, scanAll_dataMagic,
        readData_block s c.w c.e c.cap c.ptr c.r c.buf rest c.pending hs hcap hlen hw he hr hread hok]
      simp only
      have hd : List.drop (48 + c.cap) (le 8 s ++ (le 8 c.w ++ (le 8 c.e ++ (le 8 c.cap ++ (le 8 c.ptr ++ (le 8 c.r ++ (c.buf ++ rest)))))))
          = rest := by
        have l8 : ∀ v, (le 8 v).length = 8 := fun v => le_length 8 v
        rw [show 48 + c.cap = 8 + (8 + (8 + (8 + (8 + (8 + c.cap))))) by omega]
        repeat rw [drop_add_left _ _ 8 _ (l8 _)]
        exact List.drop_left' hlen
      rw [hd]
      simp [Piece.recovered, hm]
    · rw [if_neg hm] at h
      rw [show (Piece.chan s c).bytes = c.block s from rfl, scanAll_skip _ _ h]
      simp only [Piece.recovered, hm]
      exact hid _
  | off bs =>
    rw [show (Piece.off bs).bytes = bs from rfl, scanAll_skip _ _ h]
    exact hid _

theorem scanAll_image (img : List (Bytes × Piece)) (t : Bytes) (h : ImageOk img t) :
    scanAll (flat img t) = .ok (expected img) := by
  induction img with
  | nil =>
    have h' : NoMagicIn t [] := h
    have := scanAll_skip t [] h'
    rw [List.append_nil] at this
    rw [show flat [] t = t from rfl, this]
    exact scanAll_short [] (by simp)
  | cons x rest ih =>
    obtain ⟨f, p⟩ := x
    have h' : NoMagicIn f (p.bytes ++ flat rest t) ∧ p.Ok (flat rest t) ∧ ImageOk rest t := h
    obtain ⟨h1, h2, h3⟩ := h'
    rw [show flat ((f, p) :: rest) t = f ++ (p.bytes ++ flat rest t) by simp [flat, List.append_assoc],
      scanAll_skip _ _ h1, scanAll_piece p _ h2, ih h3]
    simp only [expected, List.filterMap_cons]
    cases p.recovered <;> rfl

/-- the simple side conditions imply the finest ones -/
theorem Piece.ok_of_okF (p : Piece) (rest : Bytes) (h : p.OkF) : p.Ok rest := by
  cases p with
  | metaOn s es extra =>
    obtain ⟨a, b, c, d⟩ := h
    exact ⟨a, b, c, noMagicIn_of_fillerOk _ _ d⟩
  | chan s c =>
    simp only [Piece.OkF] at h
    simp only [Piece.Ok]
    by_cases hm : c.magicOn = true
    · rw [if_pos hm] at h ⊢; exact h
    · rw [if_neg hm] at h ⊢; exact noMagicIn_of_fillerOk _ _ h
  | off bs => exact noMagicIn_of_fillerOk _ _ h

theorem imageOk_of_okF (img : List (Bytes × Piece)) (t : Bytes) (h : ImageOkF img t) : ImageOk img t := by
  induction img with
  | nil => exact noMagicIn_of_fillerOk _ _ h.2
  | cons x rest ih =>
    obtain ⟨f, p⟩ := x
    have hx := h.1 (f, p) (by simp)
    exact ⟨noMagicIn_of_fillerOk _ _ hx.1, Piece.ok_of_okF p _ hx.2,
      ih ⟨fun y hy => h.1 y (by simp [hy]), h.2⟩⟩

end BinlogVerif.Image
