import BinlogVerif.Reader.Pretty
/-
  `strBytes` of a literal evaluates: `ByteArray.toList` (a well-founded loop the kernel does not unfold)
  is the list of the underlying array, which `decide` can compute.
-/
namespace BinlogVerif.Pretty
open BinlogVerif

theorem byteArray_size_eq (bs : ByteArray) : bs.size = bs.data.toList.length := by
  cases bs with | mk d => rfl

theorem byteArray_get!_eq (bs : ByteArray) (i : Nat) (h : i < bs.data.toList.length) :
    bs.get! i = bs.data.toList[i] := by
  cases bs with | mk d =>
  show d[i]! = _
  simp at h
  simp [getElem!_pos, h]

theorem byteArray_toList_loop (bs : ByteArray) (n i : Nat) (r : List UInt8) (hn : bs.size - i = n) :
    ByteArray.toList.loop bs i r = r.reverse ++ bs.data.toList.drop i := by
  induction n generalizing i r with
  | zero =>
    rw [ByteArray.toList.loop]
    have : ¬ i < bs.size := by omega
    rw [if_neg this]
    have : bs.data.toList.length ≤ i := by rw [← byteArray_size_eq]; omega
    rw [List.drop_of_length_le this]; simp
  | succ n ih =>
    rw [ByteArray.toList.loop]
    have hi : i < bs.size := by omega
    rw [if_pos hi, ih (i+1) _ (by omega)]
    have hlen : i < bs.data.toList.length := by rw [← byteArray_size_eq]; exact hi
    rw [List.drop_eq_getElem_cons hlen, byteArray_get!_eq bs i hlen]
    simp

theorem byteArray_toList_eq (bs : ByteArray) : bs.toList = bs.data.toList := by
  rw [ByteArray.toList, byteArray_toList_loop bs _ 0 [] rfl]; simp

/-- the form `decide` can evaluate on a literal -/
theorem strBytes_eq (s : String) : strBytes s = s.toByteArray.data.toList := by
  rw [strBytes, String.toUTF8, byteArray_toList_eq]

example : strBytes "ab" = [97, 98] := by rw [strBytes_eq]; decide

end BinlogVerif.Pretty
