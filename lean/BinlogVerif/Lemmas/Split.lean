import BinlogVerif.Reader.EventStream
/-
  Helper lemmas about `nextEntry` / `splitEntries` (entry streams on arbitrary bytes).
-/
namespace BinlogVerif

theorem nextEntry_ok_shape {a p rest : Bytes} (h : nextEntry a = some (.ok (p, rest))) :
    a = frame p ++ rest ∧ PayloadOk p := by
  unfold nextEntry at h
  by_cases hE : a.isEmpty = true
  · rw [if_pos hE] at h; cases h
  · rw [if_neg hE] at h
    by_cases h4 : a.length < 4
    · rw [if_pos h4] at h; cases h
    · rw [if_neg h4] at h
      by_cases hs : unle (a.take 4) ≤ (a.drop 4).length
      · simp only [] at h
        rw [if_pos hs] at h
        injection h with h
        injection h with h
        injection h with hp hr
        have hlen : p.length = unle (a.take 4) := by
          rw [← hp, List.length_take, Nat.min_eq_left hs]
        have h4len : (a.take 4).length = 4 := by rw [List.length_take]; omega
        refine ⟨?_, ?_⟩
        · unfold frame
          rw [hlen]
          have := le_unle (a.take 4)
          rw [h4len] at this
          rw [this, ← hp, ← hr, List.append_assoc, List.take_append_drop, List.take_append_drop]
        · unfold PayloadOk
          rw [hlen]
          have := unle_lt (a.take 4)
          rw [h4len] at this
          simpa using this
      · simp only [] at h
        rw [if_neg hs] at h; cases h

theorem nextEntry_ok_append {a p rest : Bytes} (b : Bytes) (h : nextEntry a = some (.ok (p, rest))) :
    nextEntry (a ++ b) = some (.ok (p, rest ++ b)) := by
  obtain ⟨ha, hp⟩ := nextEntry_ok_shape h
  rw [ha, List.append_assoc]
  exact nextEntry_frame p (rest ++ b) hp

theorem frame_length (p : Bytes) : (frame p).length = 4 + p.length := by simp [frame]

theorem drop_frame_append (p rest : Bytes) (c : Nat) :
    List.drop (4 + p.length + c) (frame p ++ rest) = List.drop c rest := by
  rw [List.drop_append, frame_length]
  have h1 : List.drop (4 + p.length + c) (frame p) = [] :=
    List.drop_of_length_le (by rw [frame_length]; omega)
  have h2 : 4 + p.length + c - (4 + p.length) = c := by omega
  rw [h1, h2, List.nil_append]

/-- fuel beyond the input length is irrelevant -/
theorem splitEntriesFuel_stable (f1 f2 : Nat) (r : Bytes) (h1 : r.length < f1) (h2 : r.length < f2) :
    splitEntriesFuel f1 r = splitEntriesFuel f2 r := by
  induction f1 generalizing f2 r with
  | zero => omega
  | succ f1 ih =>
    cases f2 with
    | zero => omega
    | succ f2 =>
      simp only [splitEntriesFuel]
      cases hn : nextEntry r with
      | none => rfl
      | some res =>
        cases res with
        | error t => rfl
        | ok pr =>
          obtain ⟨p, rest⟩ := pr
          obtain ⟨ha, _⟩ := nextEntry_ok_shape hn
          have hl : rest.length + 4 ≤ r.length := by
            rw [ha]; simp [frame_length]; omega
          simp only
          rw [ih f2 rest (by omega) (by omega)]

theorem splitEntries_unfold (r : Bytes) :
    splitEntries r = match nextEntry r with
      | none => ([], 0, .clean)
      | some (.error t) => ([], 0, t)
      | some (.ok (p, rest)) =>
        let (ps, n, t) := splitEntries rest
        (p :: ps, 4 + p.length + n, t) := by
  show splitEntriesFuel (r.length + 1) r = _
  rw [splitEntriesFuel]
  cases hn : nextEntry r with
  | none => rfl
  | some res =>
    cases res with
    | error t => rfl
    | ok pr =>
      obtain ⟨p, rest⟩ := pr
      obtain ⟨ha, _⟩ := nextEntry_ok_shape hn
      have hl : rest.length + 4 ≤ r.length := by
        rw [ha]; simp [frame_length]; omega
      simp only [splitEntries]
      rw [splitEntriesFuel_stable r.length (rest.length + 1) rest (by omega) (by omega)]

end BinlogVerif
