import BinlogVerif.Lemmas.TagDefs
/-
  A sufficient condition for `EmptyStructsOk`: `resolve_recursive_tag(full, "{" + n)` is empty
  whenever "{" + n + "`" does not occur in the full tag, i.e. the full tag contains no struct
  DEFINITION with at least one field that is named exactly `n` (the backtick ends the name).
-/
namespace BinlogVerif.Mser
open BinlogVerif BinlogVerif.Tag BinlogVerif.Visit

/-- soundness of `find`: a reported position is an occurrence -/
theorem findSub_go_some (needle hay : Bytes) (i p : Nat) (h : findSub.go needle hay i = some p) :
    ∃ pre post, hay = pre ++ needle ++ post ∧ p = i + pre.length := by
  induction hay generalizing i with
  | nil => simp [findSub.go] at h
  | cons x hay ih =>
    rw [findSub.go] at h
    split at h
    · rename_i hp
      simp only [Option.some.injEq] at h
      obtain ⟨post, hpost⟩ := List.isPrefixOf_iff_prefix.1 hp
      exact ⟨[], post, by simp [hpost], by simp [h]⟩
    · obtain ⟨pre, post, e, hp⟩ := ih (i + 1) h
      exact ⟨x :: pre, post, by simp [e], by simp [hp]; omega⟩

/-- completeness of `find`: an occurrence is found -/
theorem findSub_go_ne_none (needle pre post : Bytes) (i : Nat) (hn : needle ≠ []) :
    findSub.go needle (pre ++ needle ++ post) i ≠ none := by
  induction pre generalizing i with
  | nil =>
    cases needle with
    | nil => exact absurd rfl hn
    | cons a needle =>
      have : (a :: needle).isPrefixOf (a :: needle ++ post) = true :=
        List.isPrefixOf_iff_prefix.2 ⟨post, rfl⟩
      simp only [List.nil_append]
      rw [List.cons_append, findSub.go, ← List.cons_append, this]
      simp
  | cons x pre ih =>
    simp only [List.cons_append]
    rw [findSub.go]
    split
    · simp
    · have := ih (i + 1)
      simpa only [List.append_assoc] using this

theorem resolve_go_nil (full intro : Bytes) (hi : intro ≠ [])
    (hno : findSub full (intro ++ [cBacktick]) = none) (fuel : Nat) (ft pre : Bytes)
    (hft : full = pre ++ ft) : resolveRecursiveTag.go intro fuel ft = [] := by
  induction fuel generalizing ft pre with
  | zero => simp [resolveRecursiveTag.go]
  | succ fuel ih =>
    rw [resolveRecursiveTag.go]
    split
    · rfl
    · cases hfs : findSub ft intro with
      | none => simp
      | some p =>
        have hi' : intro.isEmpty = false := by cases intro <;> simp_all
        simp only [findSub, hi', Bool.false_eq_true, if_false] at hfs
        obtain ⟨pre', post, e, hp⟩ := findSub_go_some intro ft 0 p hfs
        have hdrop : List.drop intro.length (List.drop p ft) = post := by
          subst e
          simp only [Nat.zero_add] at hp
          subst hp
          simp [List.append_assoc]
        simp only [hdrop]
        cases post with
        | nil => rfl
        | cons c post' =>
          simp only
          split
          · rfl
          · split
            · rename_i hc
              subst hc
              exfalso
              have hocc : full = (pre ++ pre') ++ (intro ++ [cBacktick]) ++ post' := by
                rw [hft, e]; simp [List.append_assoc]
              have hne : intro ++ [cBacktick] ≠ [] := by simp
              have hemp : (intro ++ [cBacktick]).isEmpty = false := by cases intro <;> simp
              have := findSub_go_ne_none (intro ++ [cBacktick]) (pre ++ pre') post' 0 hne
              rw [← hocc] at this
              simp only [findSub, hemp, Bool.false_eq_true, if_false] at hno
              exact this hno
            · exact ih (c :: post') (pre ++ pre' ++ intro) (by rw [hft, e]; simp [List.append_assoc])

/-- if `{n`` ` `` (an adapted struct DEFINITION named exactly `n` with at least one field) does not
    occur in the full tag, an empty struct `{n}` resolves to no fields -/
theorem resolve_nil_of_no_def (full n : Bytes)
    (hno : findSub full (cLBrace :: n ++ [cBacktick]) = none) :
    resolveRecursiveTag full (cLBrace :: n) = [] := by
  simp only [resolveRecursiveTag, List.isEmpty_cons, Bool.false_eq_true, if_false]
  exact resolve_go_nil full (cLBrace :: n) (by simp) hno _ full [] rfl

/-- decidable sufficient condition for `EmptyStructsOk` -/
def noStructDef (full : Bytes) (n : Bytes) : Bool :=
  (findSub full (cLBrace :: n ++ [cBacktick])).isNone

theorem emptyStructsOk_of_noStructDef (full : Bytes) (t : Ty)
    (h : (emptyStructNames t).all (noStructDef full) = true) : EmptyStructsOk full t := by
  intro n hn
  have := List.all_eq_true.1 h n hn
  simp only [noStructDef, Option.isNone_iff_eq_none] at this
  exact resolve_nil_of_no_def full n this

end BinlogVerif.Mser
