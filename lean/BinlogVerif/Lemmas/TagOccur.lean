import BinlogVerif.Lemmas.TagSingular
import BinlogVerif.Lemmas.TagResolve
/-
  Every `{` in the tag of a `TyOk` type starts a struct: it is followed by the (plain) struct name and
  then by a backtick (a struct with fields) or by `}` (a zero-field struct).  Hence a sufficient
  condition for `EmptyStructsOk (tag tTop) t` at the level of types: no zero-field struct of `t` has the
  name of a struct WITH fields occurring in `tTop`.
-/
namespace BinlogVerif.Mser
open BinlogVerif BinlogVerif.Tag BinlogVerif.Visit

/- names of the structs with at least one field -/
mutual
def defNames : Ty → List Bytes
  | .seq e => defNames e
  | .tup es => defNamesList es
  | .var alts => defNamesList alts
  | .struct name fs => (if fs.isEmpty then [] else [name]) ++ defNamesFields fs
  | _ => []
def defNamesList : List Ty → List Bytes
  | [] => []
  | t :: ts => defNames t ++ defNamesList ts
def defNamesFields : List (Bytes × Ty) → List Bytes
  | [] => []
  | (_, t) :: fs => defNames t ++ defNamesFields fs
end

/-! ### list splitting -/

theorem split_at {α} {A B pre suf : List α} {x : α} (h : A ++ B = pre ++ x :: suf) :
    (∃ suf', A = pre ++ x :: suf' ∧ suf = suf' ++ B) ∨ (∃ pre', pre = A ++ pre' ∧ B = pre' ++ x :: suf) := by
  rcases List.append_eq_append_iff.1 h with ⟨a', h1, h2⟩ | ⟨c', h1, h2⟩
  · exact .inr ⟨a', h1, h2⟩
  · cases c' with
    | nil =>
      simp only [List.append_nil, List.nil_append] at h1 h2
      exact .inr ⟨[], by simp [h1], by simp [h2]⟩
    | cons y c' =>
      simp only [List.cons_append, List.cons.injEq] at h2
      obtain ⟨rfl, rfl⟩ := h2
      exact .inl ⟨c', h1, rfl⟩

theorem split_left {α} {A B pre suf : List α} {x : α} (hx : x ∉ B) (h : A ++ B = pre ++ x :: suf) :
    ∃ suf', A = pre ++ x :: suf' ∧ suf = suf' ++ B := by
  rcases split_at h with r | ⟨pre', _, h2⟩
  · exact r
  · exact absurd (by rw [h2]; simp) hx

theorem split_right {α} {A B pre suf : List α} {x : α} (hx : x ∉ A) (h : A ++ B = pre ++ x :: suf) :
    ∃ pre', pre = A ++ pre' ∧ B = pre' ++ x :: suf := by
  rcases split_at h with ⟨suf', h1, _⟩ | r
  · exact absurd (by rw [h1]; simp) hx
  · exact r

/-- what follows a `{` -/
def AfterBrace (names : List Bytes) (suf : Bytes) : Prop :=
  ∃ name r, Plain name ∧ ((name ∈ names ∧ suf = name ++ cBacktick :: r) ∨ suf = name ++ cRBrace :: r)

theorem AfterBrace.mono {names names' : List Bytes} {suf : Bytes} (h : AfterBrace names suf)
    (hsub : ∀ n ∈ names, n ∈ names') (x : Bytes) : AfterBrace names' (suf ++ x) := by
  obtain ⟨name, r, hp, h | h⟩ := h
  · exact ⟨name, r ++ x, hp, .inl ⟨hsub _ h.1, by rw [h.2]; simp⟩⟩
  · exact ⟨name, r ++ x, hp, .inr (by rw [h]; simp)⟩

theorem AfterBrace.mono' {names names' : List Bytes} {suf : Bytes} (h : AfterBrace names suf)
    (hsub : ∀ n ∈ names, n ∈ names') : AfterBrace names' suf := by
  have := h.mono hsub []
  rwa [List.append_nil] at this

theorem tagEnums_no_brace (ens : List (Bytes × Bytes)) (h : EnumsOk ens = true) : cLBrace ∉ tagEnums ens := by
  induction ens with
  | nil => simp [tagEnums_nil]
  | cons a ens ih =>
    obtain ⟨hx, n⟩ := a
    simp only [EnumsOk, Bool.and_eq_true] at h
    rw [tagEnums_cons]
    have h1 := (Plain.of_hexOk h.1.1).not_mem.2.2.1
    have h2 := (Plain.of_nameOk h.1.2).not_mem.2.2.1
    have h3 := ih h.2
    simp only [List.mem_append, List.mem_cons, not_or]
    exact ⟨h1, by decide, h2, by decide, h3⟩

mutual
theorem brace_tag (t : Ty) (h : TyOkN t = true) (pre suf : Bytes) (e : tag t = pre ++ cLBrace :: suf) :
    AfterBrace (defNames t) suf := by
  match t with
  | .arith c =>
    simp only [TyOkN, isNull, TyOk, Bool.false_or] at h
    have hc := (charOk_ne (arith_charOk h).1).2.2.2.2.1
    rw [tag_arith] at e
    have : cLBrace ∈ [c] := by rw [e]; simp
    simp at this
    exact absurd this.symm hc
  | .null =>
    rw [tag_null] at e
    have : cLBrace ∈ [cZero] := by rw [e]; simp
    exact absurd this (by decide)
  | .seq x =>
    simp only [TyOkN, isNull, TyOk, Bool.false_or] at h
    rw [tag_seq] at e
    obtain ⟨pre', _, h2⟩ := split_right (A := [cLBrack]) (by decide) e
    simp only [defNames]
    exact brace_tag x (TyOkN.of_tyOk h) pre' suf h2
  | .tup es =>
    simp only [TyOkN, isNull, TyOk, Bool.false_or] at h
    rw [tag_tup] at e
    obtain ⟨pre', _, h2⟩ := split_right (A := [cLParen]) (by decide) e
    obtain ⟨suf', h3, h4⟩ := split_left (by decide) h2
    simp only [defNames]
    rw [h4]
    exact (brace_list es (fun t ht => TyOkN.of_tyOk (tyOkList_forall h t ht)) pre' suf' h3).mono (fun _ h => h) _
  | .var es =>
    simp only [TyOkN, isNull, TyOk, Bool.false_or, Bool.and_eq_true] at h
    rw [tag_var] at e
    obtain ⟨pre', _, h2⟩ := split_right (A := [cLt]) (by decide) e
    obtain ⟨suf', h3, h4⟩ := split_left (by decide) h2
    simp only [defNames]
    rw [h4]
    exact (brace_list es (tyOkAlts_forall h.2) pre' suf' h3).mono (fun _ h => h) _
  | .enum u n ens =>
    simp only [TyOkN, isNull, TyOk, Bool.false_or, Bool.and_eq_true] at h
    replace h := h.1
    exfalso
    have hmem : cLBrace ∈ tag (.enum u n ens) := by rw [e]; simp
    rw [tag_enum] at hmem
    have hu := (charOk_ne (arith_charOk h.1.1).1).2.2.2.2.1
    have hn := (Plain.of_nameOk h.1.2).not_mem.2.2.1
    have he := tagEnums_no_brace ens h.2
    simp only [List.mem_cons, List.mem_append, List.not_mem_nil, or_false] at hmem
    rcases hmem with h1 | (h1 | h1 | h1 | h1 | h1) | h1
    · exact absurd h1 (by decide)
    · exact hu h1.symm
    · exact absurd h1 (by decide)
    · exact hn h1
    · exact absurd h1 (by decide)
    · exact he h1
    · exact absurd h1 (by decide)
  | .struct n fs =>
    simp only [TyOkN, isNull, TyOk, Bool.false_or, Bool.and_eq_true] at h
    rw [tag_struct] at e
    have hpn := Plain.of_nameOk h.1
    cases pre with
    | nil =>
      simp only [List.nil_append, List.cons.injEq, true_and] at e
      rw [← e]
      cases fs with
      | nil =>
        exact ⟨n, [], hpn, .inr (by simp [tagFields_nil])⟩
      | cons a fs =>
        obtain ⟨fn, ft⟩ := a
        refine ⟨n, fn ++ cQuote :: (tag ft ++ tagFields fs) ++ [cRBrace], hpn, .inl ⟨by simp [defNames], ?_⟩⟩
        rw [tagFields_cons]
        simp only [List.append_assoc, List.cons_append]
    | cons p pre =>
      simp only [List.cons_append, List.cons.injEq] at e
      obtain ⟨suf', h3, h4⟩ := split_left (by decide) e.2
      obtain ⟨pre', _, h5⟩ := split_right hpn.not_mem.2.2.1 h3
      rw [h4]
      exact (brace_fields fs h.2 pre' suf' h5).mono (fun x hx => by simp [defNames, hx]) _
theorem brace_list (ts : List Ty) (h : ∀ t ∈ ts, TyOkN t = true) (pre suf : Bytes)
    (e : tagList ts = pre ++ cLBrace :: suf) : AfterBrace (defNamesList ts) suf := by
  match ts with
  | [] =>
    rw [tagList_nil] at e
    have : cLBrace ∈ ([] : Bytes) := by rw [e]; simp
    cases this
  | t :: ts =>
    rw [tagList_cons] at e
    simp only [defNamesList]
    rcases split_at e with ⟨suf', h1, h2⟩ | ⟨pre', _, h2⟩
    · rw [h2]
      exact (brace_tag t (h t (by simp)) pre suf' h1).mono (fun x hx => by simp [hx]) _
    · exact (brace_list ts (fun x hx => h x (by simp [hx])) pre' suf h2).mono' (fun x hx => by simp [hx])
theorem brace_fields (fs : List (Bytes × Ty)) (h : TyOkFields fs = true) (pre suf : Bytes)
    (e : tagFields fs = pre ++ cLBrace :: suf) : AfterBrace (defNamesFields fs) suf := by
  match fs with
  | [] =>
    rw [tagFields_nil] at e
    have : cLBrace ∈ ([] : Bytes) := by rw [e]; simp
    cases this
  | (n, t) :: fs =>
    simp only [TyOkFields, Bool.and_eq_true] at h
    rw [tagFields_cons] at e
    simp only [defNamesFields]
    have hpn := Plain.of_nameOk h.1.1
    have e' : (cBacktick :: (n ++ [cQuote])) ++ (tag t ++ tagFields fs) = pre ++ cLBrace :: suf := by
      rw [← e]; simp
    have hno : cLBrace ∉ cBacktick :: (n ++ [cQuote]) := by
      simp only [List.mem_cons, List.mem_append, List.not_mem_nil, or_false, not_or]
      exact ⟨by decide, hpn.not_mem.2.2.1, by decide⟩
    obtain ⟨pre', _, h2⟩ := split_right hno e'
    rcases split_at h2 with ⟨suf', h3, h4⟩ | ⟨pre'', _, h4⟩
    · rw [h4]
      exact (brace_tag t (TyOkN.of_tyOk h.1.2) pre' suf' h3).mono (fun x hx => by simp [hx]) _
    · exact (brace_fields fs h.2 pre'' suf h4).mono' (fun x hx => by simp [hx])
end

/-! ### names of zero-field structs are plain -/

mutual
theorem emptyStructNames_plain (t : Ty) (h : TyOkN t = true) : ∀ n ∈ emptyStructNames t, Plain n := by
  match t with
  | .arith _ | .null | .enum _ _ _ => intro n hn; simp [emptyStructNames] at hn
  | .seq e =>
    simp only [TyOkN, isNull, TyOk, Bool.false_or] at h
    simp only [emptyStructNames]; exact emptyStructNames_plain e (TyOkN.of_tyOk h)
  | .tup es =>
    simp only [TyOkN, isNull, TyOk, Bool.false_or] at h
    simp only [emptyStructNames]
    exact emptyStructNamesList_plain es fun t ht => TyOkN.of_tyOk (tyOkList_forall h t ht)
  | .var es =>
    simp only [TyOkN, isNull, TyOk, Bool.false_or, Bool.and_eq_true] at h
    simp only [emptyStructNames]
    exact emptyStructNamesList_plain es (tyOkAlts_forall h.2)
  | .struct nm fs =>
    simp only [TyOkN, isNull, TyOk, Bool.false_or, Bool.and_eq_true] at h
    simp only [emptyStructNames]
    intro n hn
    rcases List.mem_append.1 hn with hn | hn
    · split at hn
      · simp at hn; subst hn; exact Plain.of_nameOk h.1
      · cases hn
    · exact emptyStructNamesFields_plain fs h.2 n hn
theorem emptyStructNamesList_plain (ts : List Ty) (h : ∀ t ∈ ts, TyOkN t = true) :
    ∀ n ∈ emptyStructNamesList ts, Plain n := by
  match ts with
  | [] => intro n hn; simp [emptyStructNamesList] at hn
  | t :: ts =>
    simp only [emptyStructNamesList]
    intro n hn
    rcases List.mem_append.1 hn with hn | hn
    · exact emptyStructNames_plain t (h t (by simp)) n hn
    · exact emptyStructNamesList_plain ts (fun x hx => h x (by simp [hx])) n hn
theorem emptyStructNamesFields_plain (fs : List (Bytes × Ty)) (h : TyOkFields fs = true) :
    ∀ n ∈ emptyStructNamesFields fs, Plain n := by
  match fs with
  | [] => intro n hn; simp [emptyStructNamesFields] at hn
  | (_, t) :: fs =>
    simp only [TyOkFields, Bool.and_eq_true] at h
    simp only [emptyStructNamesFields]
    intro n hn
    rcases List.mem_append.1 hn with hn | hn
    · exact emptyStructNames_plain t (TyOkN.of_tyOk h.1.2) n hn
    · exact emptyStructNamesFields_plain fs h.2 n hn
end

/-! ### the sufficient condition -/

/-- two plain strings followed by non-plain bytes: the strings and the bytes agree -/
theorem plain_sep {a b : Bytes} {x y : UInt8} {r r' : Bytes} (ha : Plain a) (hb : Plain b)
    (hx : charOk x = false) (hy : charOk y = false) (e : a ++ x :: r = b ++ y :: r') : a = b ∧ x = y := by
  induction a generalizing b with
  | nil =>
    cases b with
    | nil => simp at e; exact ⟨rfl, e.1⟩
    | cons c b =>
      simp at e
      have := hb c (by simp)
      rw [← e.1, hx] at this; cases this
  | cons c a ih =>
    cases b with
    | nil =>
      simp at e
      have := ha c (by simp)
      rw [e.1, hy] at this; cases this
    | cons d b =>
      simp only [List.cons_append, List.cons.injEq] at e
      obtain ⟨h1, h2⟩ := ih (fun z hz => ha z (by simp [hz])) (fun z hz => hb z (by simp [hz])) e.2
      exact ⟨by rw [e.1, h1], h2⟩

theorem noStructDef_of_names (tTop : Ty) (hTop : TyOkN tTop = true) (n : Bytes) (hn : Plain n)
    (hnot : n ∉ defNames tTop) : noStructDef (tag tTop) n = true := by
  simp only [noStructDef, Option.isNone_iff_eq_none]
  cases hfs : findSub (tag tTop) (cLBrace :: n ++ [cBacktick]) with
  | none => rfl
  | some p =>
    exfalso
    simp only [findSub, List.cons_append, List.isEmpty_cons, Bool.false_eq_true, if_false] at hfs
    obtain ⟨pre, post, e, _⟩ := findSub_go_some _ _ 0 p hfs
    have e' : tag tTop = pre ++ cLBrace :: (n ++ cBacktick :: post) := by rw [e]; simp
    obtain ⟨name, r, hp, h | h⟩ := brace_tag tTop hTop pre _ e'
    · have := (plain_sep hn hp (by decide) (by decide) h.2).1
      rw [this] at hnot
      exact hnot h.1
    · have := (plain_sep hn hp (by decide) (by decide) h).2
      exact absurd this (by decide)

/-- no zero-field struct of `t` has the name of a struct with fields occurring in `tTop` -/
theorem emptyStructsOk_of_names (tTop t : Ty) (hTop : TyOk tTop = true) (ht : TyOk t = true)
    (h : ∀ n ∈ emptyStructNames t, n ∉ defNames tTop) : EmptyStructsOk (tag tTop) t := by
  apply emptyStructsOk_of_noStructDef
  rw [List.all_eq_true]
  intro n hn
  exact noStructDef_of_names tTop (TyOkN.of_tyOk hTop) n
    (emptyStructNames_plain t (TyOkN.of_tyOk ht) n hn) (h n hn)

end BinlogVerif.Mser
