import BinlogVerif.Lemmas.Locks
/-
  The full-history race check implies the DJIT+ check (last write + last read per thread):
  every epoch the DJIT+ shadow remembers is a recorded access of the full history.
-/
namespace BinlogVerif.Locks

/-- The shadow only remembers recorded accesses. -/
def ShadowSub (s : St) (sh : Nat → Shadow) : Prop :=
  ∀ x, (∀ p, (sh x).w = some p → ⟨true, p.1, p.2⟩ ∈ s.acc x) ∧
       (∀ p, p ∈ (sh x).r → ⟨false, p.1, p.2⟩ ∈ s.acc x)

theorem shadowSub_step {s : St} {sh : Nat → Shadow} (e : Ev) (h : ShadowSub s sh) :
    ShadowSub (step s e) (djitStep s sh e) := by
  cases e with
  | rd t x =>
    intro y
    simp only [step, djitStep, upd_apply]
    split
    · subst_vars
      refine ⟨fun p hp => List.mem_cons_of_mem _ ((h y).1 p hp), fun p hp => ?_⟩
      rcases List.mem_cons.1 hp with hp | hp
      · subst hp; exact List.mem_cons_self
      · exact List.mem_cons_of_mem _ ((h y).2 p (List.mem_filter.1 hp).1)
    · exact h y
  | wr t x =>
    intro y
    simp only [step, djitStep, upd_apply]
    split
    · subst_vars
      refine ⟨fun p hp => ?_, fun p hp => List.mem_cons_of_mem _ ((h y).2 p hp)⟩
      simp only [Option.some.injEq] at hp
      subst hp; exact List.mem_cons_self
    · exact h y
  | acq t m => exact h
  | rel t m => exact h
  | fork t c => exact h
  | join t c => exact h

theorem djitNoRace_of_noRace {s : St} {sh : Nat → Shadow} {e : Ev} (h : ShadowSub s sh)
    (hn : noRace s e = true) : djitNoRace s sh e = true := by
  cases e with
  | rd t x =>
    simp only [noRace, List.all_eq_true] at hn
    simp only [djitNoRace]
    cases hw : (sh x).w with
    | none => rfl
    | some p =>
      have := hn _ ((h x).1 p hw)
      simpa [Acc.before, epochBefore] using this
  | wr t x =>
    simp only [noRace, List.all_eq_true] at hn
    simp only [djitNoRace, Bool.and_eq_true, List.all_eq_true]
    constructor
    · cases hw : (sh x).w with
      | none => rfl
      | some p =>
        have := hn _ ((h x).1 p hw)
        simpa [Acc.before, epochBefore] using this
    · intro p hp
      have := hn _ ((h x).2 p hp)
      simpa [Acc.before, epochBefore] using this
  | acq t m => rfl
  | rel t m => rfl
  | fork t c => rfl
  | join t c => rfl

theorem raceFreeDjitFrom_of_raceFreeFrom (tr : List Ev) (s : St) (sh : Nat → Shadow)
    (h : ShadowSub s sh) (hr : raceFreeFrom s tr = true) : raceFreeDjitFrom s sh tr = true := by
  induction tr generalizing s sh with
  | nil => rfl
  | cons e tr ih =>
    simp only [raceFreeFrom, Bool.and_eq_true] at hr
    simp only [raceFreeDjitFrom, Bool.and_eq_true]
    exact ⟨djitNoRace_of_noRace h hr.1, ih _ _ (shadowSub_step e h) hr.2⟩

/-- No race in the full-history sense ⇒ the DJIT+ detector reports no race. -/
theorem raceFreeDjit_of_raceFree (tr : List Ev) (h : raceFree tr = true) :
    raceFreeDjit tr = true :=
  raceFreeDjitFrom_of_raceFreeFrom tr init _
    (fun _ => ⟨fun _ hp => by simp at hp, fun _ hp => by simp at hp⟩) h

end BinlogVerif.Locks
