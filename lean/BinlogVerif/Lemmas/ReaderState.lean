import BinlogVerif.Lemmas.Reader
/-
  Helper lemmas: what one payload does to the reader state, in terms of three partial parsers
  (`asSource`, `asWriterProp`, `asClockSync`) that recognise *valid* metadata payloads.
-/
namespace BinlogVerif

/-- the payload is a valid event-source entry defining this source -/
def asSource (p : Bytes) : Option EventSource :=
  match readU 8 p with
  | .ok (tag, body) =>
    if tag = tagEventSource then
      match decSource body with
      | .ok (s, _) => some s
      | .error _ => none
    else none
  | .error _ => none

def asWriterProp (p : Bytes) : Option WriterProp :=
  match readU 8 p with
  | .ok (tag, body) =>
    if tag = tagWriterProp then
      match decWriterProp body with
      | .ok (w, _) => some w
      | .error _ => none
    else none
  | .error _ => none

def asClockSync (p : Bytes) : Option ClockSync :=
  match readU 8 p with
  | .ok (tag, body) =>
    if tag = tagClockSync then
      match decClockSync body with
      | .ok (c, _) => some c
      | .error _ => none
    else none
  | .error _ => none

/-- the state after a payload, written with the partial parsers -/
def metaUpdate (st : ReaderState) (p : Bytes) : ReaderState :=
  { sources := match asSource p with
      | some s => st.sources.emplace s.id s
      | none => st.sources
    writerProp := (asWriterProp p).getD st.writerProp
    clockSync := (asClockSync p).getD st.clockSync }

theorem special_tags :
    isSpecial tagEventSource = true ∧ isSpecial tagWriterProp = true ∧ isSpecial tagClockSync = true ∧
    tagEventSource ≠ tagWriterProp ∧ tagEventSource ≠ tagClockSync ∧ tagWriterProp ≠ tagClockSync := by
  decide

theorem processEntry_state (st : ReaderState) (p : Bytes) :
    (processEntry st p).2 = metaUpdate st p := by
  obtain ⟨s1, s2, s3, n12, n13, n23⟩ := special_tags
  unfold processEntry processEntryCore metaUpdate asSource asWriterProp asClockSync
  by_cases hE : p.isEmpty = true
  · have : p = [] := by simpa using hE
    subst this
    simp [readU, takeN, pure, Except.pure]
  · simp only [hE, Bool.false_eq_true, if_false]
    cases hr : readU 8 p with
    | error e => simp [bind, Except.bind]
    | ok tb =>
      obtain ⟨tag, body⟩ := tb
      simp only [bind, Except.bind, pure, Except.pure]
      by_cases h1 : tag = tagEventSource
      · subst h1
        simp only [s1, if_true, n12, n13, if_false]
        cases hd : decSource body with
        | error e => simp
        | ok sr => obtain ⟨s, r⟩ := sr; simp
      · by_cases h2 : tag = tagWriterProp
        · subst h2
          simp only [s2, if_true, h1, if_false, n23]
          cases hd : decWriterProp body with
          | error e => simp
          | ok sr => obtain ⟨s, r⟩ := sr; simp
        · by_cases h3 : tag = tagClockSync
          · subst h3
            simp only [s3, if_true, h1, h2, if_false]
            cases hd : decClockSync body with
            | error e => simp
            | ok sr => obtain ⟨s, r⟩ := sr; simp
          · simp only [h1, h2, h3, if_false]
            by_cases hs : isSpecial tag = true
            · simp [hs]
            · simp only [hs, Bool.false_eq_true, if_false]
              cases hf : st.sources.find tag with
              | none => simp [throw, throwThe, MonadExceptOf.throw]
              | some src =>
                simp only
                cases hc : readU 8 body with
                | error e => simp
                | ok ca => obtain ⟨c, a⟩ := ca; simp

/-- how an event payload is processed -/
theorem processEntry_event (st : ReaderState) (id : Nat) (rest : Bytes) (hid : id < 2^63) :
    processEntry st (le 8 id ++ rest) =
      match st.sources.find id with
      | none => (.error .invalidSource, st)
      | some src =>
        match readU 8 rest with
        | .error e => (.error e, st)
        | .ok (clock, args) => (.ok (.event ⟨src, clock, args⟩), st) := by
  have hne := le_append_isEmpty 8 id rest (by decide)
  have hsp : isSpecial id = false := by simp [isSpecial]; omega
  have hlt : id < 256 ^ 8 := by
    have : (2:Nat)^63 < 256^8 := by decide
    omega
  unfold processEntry processEntryCore
  simp only [hne, Bool.false_eq_true, if_false]
  rw [readU_le_append 8 id _ hlt]
  simp only [bind, Except.bind, hsp, Bool.false_eq_true, if_false]
  cases hf : st.sources.find id with
  | none => rfl
  | some src =>
    simp only
    cases hc : readU 8 rest with
    | error e => rfl
    | ok ca => obtain ⟨c, a⟩ := ca; rfl

theorem stepEntry_state {st st' : ReaderState} {p : Bytes} {items : List Item}
    (h : stepEntry st p = some (items, st')) : st' = metaUpdate st p := by
  rw [← processEntry_state]
  unfold stepEntry at h
  match hp : processEntry st p with
  | (.ok .stop, s) => rw [hp] at h; cases h
  | (.ok .skip, s) => rw [hp] at h; simp at h; simp [h.2]
  | (.ok (.event e), s) => rw [hp] at h; simp at h; simp [h.2]
  | (.error e, s) => rw [hp] at h; simp at h; simp [h.2]

theorem asSource_id_lt {p : Bytes} {s : EventSource} (h : asSource p = some s) : s.id < 2^64 := by
  unfold asSource at h
  cases hr : readU 8 p with
  | error e => simp [hr] at h
  | ok tb =>
    obtain ⟨tag, body⟩ := tb
    simp only [hr] at h
    split at h
    · cases hd : decSource body with
      | error e => simp [hd] at h
      | ok sr =>
        obtain ⟨s', r⟩ := sr
        simp only [hd] at h
        injection h with h
        subst h
        exact decSource_id_lt hd
    · cases h

/-- `sources` invariant is preserved by every payload -/
theorem metaUpdate_inv (st : ReaderState) (p : Bytes) (h : SegMap.Inv st.sources) :
    SegMap.Inv (metaUpdate st p).sources := by
  unfold metaUpdate
  simp only
  cases hs : asSource p with
  | none => exact h
  | some s => exact SegMap.inv_emplace _ _ _ h (asSource_id_lt hs)

theorem runState_inv (st : ReaderState) (ps : List Bytes) (h : SegMap.Inv st.sources) :
    SegMap.Inv (runState st ps).1.sources := by
  induction ps generalizing st with
  | nil => exact h
  | cons p ps ih =>
    simp only [runState]
    cases hp : stepEntry st p with
    | none => exact h
    | some r =>
      obtain ⟨items, st'⟩ := r
      simp only
      apply ih
      rw [stepEntry_state hp]
      exact metaUpdate_inv st p h

end BinlogVerif
