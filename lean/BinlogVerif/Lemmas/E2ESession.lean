import BinlogVerif.Lemmas.E2E
import BinlogVerif.Props.C11
/-
  End-to-end composition, session side: every entry of every output of a reachable session state is
  representable (`EntryWf`) when the operations' data are (`OpsWf`), source entries of the outputs are
  entries of `s.sources`, and the decomposition of `expectedItems` at an event entry.
-/
namespace BinlogVerif.E2E
open BinlogVerif BinlogVerif.Sess

/-! ### `expectedItems` at a position -/

/-- the source definitions after reading `es` (newest first) -/
def srcsAfter (srcs : List EventSource) : List Entry → List EventSource
  | [] => srcs
  | .source s :: es => srcsAfter (s :: srcs) es
  | _ :: es => srcsAfter srcs es

/-- the latest writer properties after reading `es` -/
def wpAfter (wp : WriterProp) : List Entry → WriterProp
  | [] => wp
  | .writerProp w :: es => wpAfter w es
  | _ :: es => wpAfter wp es

/-- the latest clock sync after reading `es` -/
def csAfter (cs : ClockSync) : List Entry → ClockSync
  | [] => cs
  | .clockSync c :: es => csAfter c es
  | _ :: es => csAfter cs es

theorem expectedItems_append (srcs : List EventSource) (wp : WriterProp) (cs : ClockSync) (a b : List Entry) :
    expectedItems srcs wp cs (a ++ b) =
      expectedItems srcs wp cs a ++ expectedItems (srcsAfter srcs a) (wpAfter wp a) (csAfter cs a) b := by
  induction a generalizing srcs wp cs with
  | nil => rfl
  | cons e es ih =>
    cases e with
    | source s => simp only [List.cons_append, expectedItems, srcsAfter, wpAfter, csAfter, ih]
    | writerProp w => simp only [List.cons_append, expectedItems, srcsAfter, wpAfter, csAfter, ih]
    | clockSync c => simp only [List.cons_append, expectedItems, srcsAfter, wpAfter, csAfter, ih]
    | event sid clock args => simp only [List.cons_append, expectedItems, srcsAfter, wpAfter, csAfter, ih]

theorem mem_srcsAfter (srcs : List EventSource) (es : List Entry) (x : EventSource) :
    x ∈ srcsAfter srcs es ↔ x ∈ srcs ∨ Entry.source x ∈ es := by
  induction es generalizing srcs with
  | nil => simp [srcsAfter]
  | cons e es ih =>
    cases e with
    | source s =>
      simp only [srcsAfter, ih, List.mem_cons, Entry.source.injEq]
      constructor
      · rintro ((h | h) | h)
        · exact .inr (.inl h)
        · exact .inl h
        · exact .inr (.inr h)
      · rintro (h | h | h)
        · exact .inl (.inr h)
        · exact .inl (.inl h)
        · exact .inr h
    | writerProp w => simp [srcsAfter, ih]
    | clockSync c => simp [srcsAfter, ih]
    | event sid clock args => simp [srcsAfter, ih]

theorem wpAfter_none (wp : WriterProp) (b : List Entry) (hb : ∀ w', Entry.writerProp w' ∉ b) : wpAfter wp b = wp := by
  induction b with
  | nil => rfl
  | cons e es ih =>
    have h' : ∀ w', Entry.writerProp w' ∉ es := fun w' hm => hb w' (List.mem_cons_of_mem _ hm)
    cases e with
    | writerProp w1 => exact absurd (List.mem_cons_self) (hb w1)
    | source s => exact ih h'
    | clockSync c => exact ih h'
    | event _ _ _ => exact ih h'

/-- "latest": the writer properties after `a ++ writerProp w :: b` with no writer properties in `b` are `w` -/
theorem wpAfter_last (wp w : WriterProp) (a b : List Entry) (hb : ∀ w', Entry.writerProp w' ∉ b) :
    wpAfter wp (a ++ Entry.writerProp w :: b) = w := by
  induction a generalizing wp with
  | nil => exact wpAfter_none w b hb
  | cons e es ih => cases e <;> exact ih _

theorem csAfter_none (cs : ClockSync) (b : List Entry) (hb : ∀ c', Entry.clockSync c' ∉ b) : csAfter cs b = cs := by
  induction b with
  | nil => rfl
  | cons e es ih =>
    have h' : ∀ c', Entry.clockSync c' ∉ es := fun c' hm => hb c' (List.mem_cons_of_mem _ hm)
    cases e with
    | clockSync c1 => exact absurd (List.mem_cons_self) (hb c1)
    | source s => exact ih h'
    | writerProp c => exact ih h'
    | event _ _ _ => exact ih h'

/-- "latest": the clock sync after `a ++ clockSync c :: b` with no clock sync in `b` is `c` -/
theorem csAfter_last (cs c : ClockSync) (a b : List Entry) (hb : ∀ c', Entry.clockSync c' ∉ b) :
    csAfter cs (a ++ Entry.clockSync c :: b) = c := by
  induction a generalizing cs with
  | nil => exact csAfter_none c b hb
  | cons e es ih => cases e <;> exact ih _

/-- the item of the event entry at a given position -/
theorem expectedItems_at (srcs : List EventSource) (wp : WriterProp) (cs : ClockSync)
    (pre post : List Entry) (sid clock : Nat) (args : Bytes) :
    expectedItems srcs wp cs (pre ++ Entry.event sid clock args :: post) =
      expectedItems srcs wp cs pre ++
        (match (srcsAfter srcs pre).find? (fun s => s.id == sid) with
         | some src => Item.event ⟨src, clock, args⟩ (wpAfter wp pre) (csAfter cs pre)
         | none => Item.error .invalidSource)
        :: expectedItems (srcsAfter srcs pre) (wpAfter wp pre) (csAfter cs pre) post := by
  rw [expectedItems_append]; rfl

/-- if every event is preceded by a definition of its source id, no item is an error -/
theorem expectedItems_noError (l : List Entry) (srcs : List EventSource) (wp : WriterProp) (cs : ClockSync)
    (h : ∀ pre post sid clock args, l = pre ++ Entry.event sid clock args :: post →
      ∃ src, (src ∈ srcs ∨ Entry.source src ∈ pre) ∧ src.id = sid) :
    ∀ it ∈ expectedItems srcs wp cs l, it.isError = false := by
  induction l generalizing srcs wp cs with
  | nil => intro it hit; simp [expectedItems] at hit
  | cons e es ih =>
    have hshift : ∀ pre post sid clock args, es = pre ++ Entry.event sid clock args :: post →
        ∃ src, (src ∈ srcs ∨ Entry.source src ∈ e :: pre) ∧ src.id = sid := by
      intro pre post sid clock args hl
      exact h (e :: pre) post sid clock args (by rw [hl]; rfl)
    cases e with
    | source s =>
      simp only [expectedItems]
      apply ih
      intro pre post sid clock args hl
      obtain ⟨src, hm, hid⟩ := hshift pre post sid clock args hl
      refine ⟨src, ?_, hid⟩
      rcases hm with hm | hm
      · exact .inl (List.mem_cons_of_mem _ hm)
      · simp only [List.mem_cons, Entry.source.injEq] at hm
        rcases hm with hm | hm
        · exact .inl (by rw [hm]; exact List.mem_cons_self)
        · exact .inr hm
    | writerProp w =>
      simp only [expectedItems]
      apply ih
      intro pre post sid clock args hl
      obtain ⟨src, hm, hid⟩ := hshift pre post sid clock args hl
      exact ⟨src, by simpa using hm, hid⟩
    | clockSync c =>
      simp only [expectedItems]
      apply ih
      intro pre post sid clock args hl
      obtain ⟨src, hm, hid⟩ := hshift pre post sid clock args hl
      exact ⟨src, by simpa using hm, hid⟩
    | event sid0 clock0 args0 =>
      intro it hit
      simp only [expectedItems, List.mem_cons] at hit
      rcases hit with hit | hit
      · obtain ⟨src, hm, hid⟩ := h [] es sid0 clock0 args0 rfl
        have hm' : src ∈ srcs := by simpa using hm
        cases hf : srcs.find? (fun s => s.id == sid0) with
        | none =>
          have := List.find?_eq_none.mp hf src hm'
          simp [hid] at this
        | some x => rw [hit, hf]; rfl
      · refine ih srcs wp cs ?_ it hit
        intro pre post sid clock args hl
        obtain ⟨src, hm, hid⟩ := hshift pre post sid clock args hl
        exact ⟨src, by simpa using hm, hid⟩

/-- in a list of source entries with pairwise distinct ids, the entry with a given id is unique -/
theorem source_unique (l : List Entry) (hnd : (srcIds l).Nodup) (a b : EventSource)
    (ha : Entry.source a ∈ l) (hb : Entry.source b ∈ l) (hid : a.id = b.id) : a = b := by
  induction l with
  | nil => simp at ha
  | cons e es ih =>
    have hmem : ∀ x : EventSource, Entry.source x ∈ es → x.id ∈ srcIds es := by
      intro x hx
      simp only [srcIds, List.mem_filterMap]
      exact ⟨_, hx, rfl⟩
    cases e with
    | source s =>
      have hnd' : s.id ∉ srcIds es ∧ (srcIds es).Nodup := by
        simpa [srcIds] using hnd
      simp only [List.mem_cons, Entry.source.injEq] at ha hb
      rcases ha with ha | ha <;> rcases hb with hb | hb
      · rw [ha, hb]
      · exact absurd (by rw [← ha, hid]; exact hmem b hb) hnd'.1
      · exact absurd (by rw [← hb, ← hid]; exact hmem a ha) hnd'.1
      · exact ih hnd'.2 ha hb
    | writerProp w =>
      have hnd' : (srcIds es).Nodup := by simpa [srcIds] using hnd
      exact ih hnd' (by simpa using ha) (by simpa using hb)
    | clockSync c =>
      have hnd' : (srcIds es).Nodup := by simpa [srcIds] using hnd
      exact ih hnd' (by simpa using ha) (by simpa using hb)
    | event _ _ _ =>
      have hnd' : (srcIds es).Nodup := by simpa [srcIds] using hnd
      exact ih hnd' (by simpa using ha) (by simpa using hb)

/-! ### representability of what the session writes -/

/-- the fields of an event source other than the id fit their machine types -/
def SrcOk (s : EventSource) : Prop :=
  s.severity < 2^16 ∧ s.category.length < 2^32 ∧ s.function.length < 2^32 ∧ s.file.length < 2^32 ∧
  s.line < 2^64 ∧ s.formatString.length < 2^32 ∧ s.argumentTags.length < 2^32

/-- writer id and name fit (the name together with the 28 fixed bytes of a writer-description payload
    fits the size prefix); `batchSize` is set by `consume` -/
def WpOk (w : WriterProp) : Prop := w.id < 2^64 ∧ w.name.length + 28 < 2^32

/-- representability relative to a bound `n` on source ids, leaving `batchSize` aside -/
def EntryOk (n : Nat) : Entry → Prop
  | .clockSync cs => cs.Wf ∧ PayloadOk (clockSyncPayload cs)
  | .source s => s.id < n ∧ SrcOk s ∧ PayloadOk (sourcePayload s)
  | .writerProp w => WpOk w
  | .event sid clock args => sid < n ∧ clock < 2^64 ∧ PayloadOk (eventPayload sid clock args)

theorem EntryOk.mono {n m : Nat} {e : Entry} (hnm : n ≤ m) (h : EntryOk n e) : EntryOk m e := by
  cases e with
  | clockSync cs => exact h
  | source s => exact ⟨Nat.lt_of_lt_of_le h.1 hnm, h.2⟩
  | writerProp w => exact h
  | event sid clock args => exact ⟨Nat.lt_of_lt_of_le h.1 hnm, h.2⟩

theorem writerPropPayload_length (w : WriterProp) : (writerPropPayload w).length = w.name.length + 28 := by
  simp [writerPropPayload, encWriterProp, encStr]; omega

theorem sourcePayload_length_id (s : EventSource) (k : Nat) :
    (sourcePayload { s with id := k }).length = (sourcePayload s).length := by
  simp [sourcePayload, encSource]

/-- with the id bound at most 2^63 and the batch size representable, `EntryOk` is `EntryWf` -/
theorem EntryOk.wf {n : Nat} {e : Entry} (hn : n ≤ 2^63) (h : EntryOk n e)
    (hb : ∀ w, e = Entry.writerProp w → w.batchSize < 2^64) : EntryWf e := by
  cases e with
  | clockSync cs => exact h
  | source s =>
    obtain ⟨h1, ⟨a, b, c, d, e, f, g⟩, h3⟩ := h
    exact ⟨⟨Nat.lt_of_lt_of_le h1 (Nat.le_trans hn (by decide)), a, b, c, d, e, f, g⟩, h3⟩
  | writerProp w =>
    refine ⟨⟨h.1, by have := h.2; omega, hb w rfl⟩, ?_⟩
    unfold PayloadOk
    rw [writerPropPayload_length]
    exact h.2
  | event sid clock args => exact ⟨Nat.lt_of_lt_of_le h.1 hn, h.2⟩

/-- the data of an operation are representable -/
def OpWf : Op → Prop
  | .createWriter _ id name => id < 2^64 ∧ name.length + 28 < 2^32
  | .setWriterId _ id => id < 2^64
  | .setWriterName _ name => name.length + 28 < 2^32
  | .addSource src => SrcOk src ∧ PayloadOk (sourcePayload src)
  | .log _ sid clock args _ => clock < 2^64 ∧ PayloadOk (eventPayload sid clock args)
  | .setClockSync cs => cs.Wf ∧ PayloadOk (clockSyncPayload cs)
  | _ => True

/-- the initial clock sync and the data of every operation are representable -/
def OpsWf (cs0 : ClockSync) (ops : List Op) : Prop :=
  (cs0.Wf ∧ PayloadOk (clockSyncPayload cs0)) ∧ ∀ op ∈ ops, OpWf op

def ChansWf (chs : List Chan) (n : Nat) : Prop := ∀ c ∈ chs, WpOk c.wp ∧ ∀ e ∈ c.entries, EntryOk n e

structure WfInv (s : Session) : Prop where
  css : ∀ e ∈ s.clockSyncs, EntryOk s.nextSourceId e
  srcs : ∀ e ∈ s.sources, EntryOk s.nextSourceId e
  chans : ChansWf s.channels s.nextSourceId
  outs : ∀ o ∈ s.outputs, ∀ w ∈ o, ∀ e ∈ w, EntryOk s.nextSourceId e ∧ (isSource e = true → e ∈ s.sources)

theorem wfInv_of_same {s s' : Session} (h : WfInv s)
    (h1 : s'.outputs = s.outputs) (h2 : s'.nextSourceId = s.nextSourceId) (h3 : s'.sources = s.sources)
    (h5 : s'.clockSyncs = s.clockSyncs) (hc : ChansWf s'.channels s'.nextSourceId) : WfInv s' :=
  ⟨by rw [h5, h2]; exact h.css, by rw [h3, h2]; exact h.srcs, hc, by rw [h1, h2, h3]; exact h.outs⟩

theorem chansWf_mono {chs : List Chan} {a b : Nat} (hab : a ≤ b) (h : ChansWf chs a) : ChansWf chs b :=
  fun c hc => ⟨(h c hc).1, fun e he => ((h c hc).2 e he).mono hab⟩

theorem chansWf_updChan (s : Session) (cid n : Nat) (f : Chan → Chan)
    (hf : ∀ c, WpOk c.wp → (∀ e ∈ c.entries, EntryOk n e) → WpOk (f c).wp ∧ ∀ e ∈ (f c).entries, EntryOk n e)
    (h : ChansWf s.channels n) : ChansWf (updChan s cid f).channels n := by
  intro c hc
  simp only [updChan, List.mem_map] at hc
  obtain ⟨c0, hc0, rfl⟩ := hc
  split
  · exact hf c0 (h c0 hc0).1 (h c0 hc0).2
  · exact h c0 hc0

theorem wfInv_updChan (s : Session) (cid : Nat) (f : Chan → Chan)
    (hf : ∀ c, WpOk c.wp → (∀ e ∈ c.entries, EntryOk s.nextSourceId e) →
      WpOk (f c).wp ∧ ∀ e ∈ (f c).entries, EntryOk s.nextSourceId e)
    (h : WfInv s) : WfInv (updChan s cid f) := by
  obtain ⟨a, b, c, _, e, _⟩ := updChan_fields s cid f
  refine wfInv_of_same h a b c e ?_
  rw [b]
  exact chansWf_updChan s cid _ f hf h.chans

theorem wfInv_setWriter (s : Session) (w : Nat) (c : Option Nat) (h : WfInv s) : WfInv (setWriter s w c) := by
  obtain ⟨a, b, c', _, e, _, k⟩ := setWriter_fields s w c
  refine wfInv_of_same h a b c' e ?_
  rw [k, b]; exact h.chans

theorem wfInv_newChan (s : Session) (w : Nat) (wp : WriterProp) (hwp : WpOk wp) (h : WfInv s) :
    WfInv (newChan s w wp).1 := by
  obtain ⟨a, b, c', _, e, _, k⟩ := newChan_fields s w wp
  refine wfInv_of_same h a b c' e ?_
  rw [k, b]
  intro c hc
  simp only [List.mem_append, List.mem_singleton] at hc
  rcases hc with hc | hc
  · exact h.chans c hc
  · subst hc; exact ⟨hwp, fun e he => by simp at he⟩

theorem wfInv_accepted (s : Session) (x : List (Nat × Entry)) (h : WfInv s) : WfInv { s with accepted := x } :=
  wfInv_of_same h rfl rfl rfl rfl h.chans

theorem wpOk_default : WpOk {} := by simp [WpOk]

/-! ### what `consume` writes -/

theorem mem_pieces (batch : List Entry) (k : Nat) (w : Write) (hw : w ∈ pieces batch k) : ∀ e ∈ w, e ∈ batch := by
  unfold pieces at hw
  simp only at hw
  split at hw
  · simp only [List.mem_singleton] at hw; subst hw; exact fun e he => he
  · simp only [List.mem_cons, List.not_mem_nil, or_false] at hw
    rcases hw with hw | hw
    · subst hw; exact fun e he => List.mem_of_mem_take he
    · subst hw; exact fun e he => List.mem_of_mem_drop he

theorem pollChan_writes_ok (c : Chan) (p : Poll) (n : Nat) (hwp : WpOk c.wp) (hes : ∀ e ∈ c.entries, EntryOk n e) :
    ∀ w ∈ (pollChan c p).writes, ∀ e ∈ w, EntryOk n e := by
  unfold pollChan
  generalize pollN c p = k
  by_cases h : (c.entries.take k).isEmpty = true
  · simp [h]
  · simp only [h, Bool.false_eq_true, if_false, List.mem_cons]
    intro w hw e he
    rcases hw with hw | hw
    · subst hw
      simp only [List.mem_singleton] at he
      subst he
      exact hwp
    · exact hes e (List.mem_of_mem_take (mem_pieces _ _ w hw e he))

theorem pollChan_chan_ok (c : Chan) (p : Poll) (n : Nat) (hwp : WpOk c.wp) (hes : ∀ e ∈ c.entries, EntryOk n e) :
    WpOk (pollChan c p).chan.wp ∧ ∀ e ∈ (pollChan c p).chan.entries, EntryOk n e := by
  refine ⟨?_, ?_⟩
  · unfold pollChan
    generalize pollN c p = k
    by_cases h : (c.entries.take k).isEmpty = true
    · simp [h, hwp]
    · simp only [h, Bool.false_eq_true, if_false]
      exact hwp
  · rw [pollChan_entries]
    exact fun e he => hes e (List.mem_of_mem_drop he)

theorem pollAll_writes_ok (L : List Chan) (P : List Poll) (n : Nat) (h : ChansWf L n) :
    ∀ w ∈ (pollAll L P).writes, ∀ e ∈ w, EntryOk n e := by
  induction L generalizing P with
  | nil => simp [pollAll]
  | cons c cs ih =>
    intro w hw
    simp only [pollAll, List.mem_append] at hw
    rcases hw with hw | hw
    · exact pollChan_writes_ok c _ n (h c (by simp)).1 (h c (by simp)).2 w hw
    · exact ih P.tail (fun c' hc' => h c' (by simp [hc'])) w hw

theorem pollAll_chans_ok (L : List Chan) (P : List Poll) (n : Nat) (h : ChansWf L n) :
    ChansWf (pollAll L P).chans n := by
  induction L generalizing P with
  | nil => intro c hc; simp [pollAll] at hc
  | cons c cs ih =>
    have ih' := ih P.tail (fun c' hc' => h c' (by simp [hc']))
    intro c' hc'
    simp only [pollAll] at hc'
    split at hc'
    · exact ih' c' hc'
    · simp only [List.mem_cons] at hc'
      rcases hc' with hc' | hc'
      · subst hc'; exact pollChan_chan_ok c _ n (h c (by simp)).1 (h c (by simp)).2
      · exact ih' c' hc'

theorem emitAll_outputs_mem (s : Session) (ws : List Write) :
    ∀ o ∈ (emitAll s ws).outputs, ∀ w ∈ o, (∃ o' ∈ s.outputs, w ∈ o') ∨ w ∈ ws := by
  unfold emitAll
  cases hr : s.outputs.reverse with
  | nil =>
    intro o ho w hw
    simp only [List.mem_singleton] at ho
    subst ho
    exact .inr hw
  | cons cur older =>
    have hout : s.outputs = older.reverse ++ [cur] := by
      have := congrArg List.reverse hr
      simpa using this
    intro o ho w hw
    simp only [List.mem_append, List.mem_reverse, List.mem_singleton] at ho
    rcases ho with ho | ho
    · exact .inl ⟨o, by rw [hout]; simp [ho], hw⟩
    · subst ho
      simp only [List.mem_append] at hw
      rcases hw with hw | hw
      · exact .inl ⟨cur, by rw [hout]; simp, hw⟩
      · exact .inr hw

/-- a state whose outputs are those of `s` plus `ws` appended by `emitAll`, everything else relevant kept -/
theorem wfInv_emit (s s1 : Session) (ws : List Write) (h : WfInv s)
    (e1 : ∀ o ∈ s1.outputs, ∀ w ∈ o, ∃ o' ∈ s.outputs, w ∈ o') (e2 : s1.clockSyncs = s.clockSyncs)
    (e4 : s1.sources = s.sources) (e6 : s1.nextSourceId = s.nextSourceId)
    (e7 : ChansWf s1.channels s.nextSourceId)
    (hws : ∀ w ∈ ws, ∀ e ∈ w, EntryOk s.nextSourceId e ∧ (isSource e = true → e ∈ s.sources)) :
    WfInv (emitAll s1 ws) := by
  obtain ⟨f1, f2, _, f4, _, f6, _⟩ := emitAll_fields s1 ws
  refine ⟨by rw [f2, f6, e2, e6]; exact h.css, by rw [f4, f6, e4, e6]; exact h.srcs,
    by rw [f1, f6, e6]; exact e7, ?_⟩
  rw [f4, f6, e4, e6]
  intro o ho w hw
  rcases emitAll_outputs_mem s1 ws o ho w hw with ⟨o', ho', hw'⟩ | hw'
  · obtain ⟨o'', ho'', hw''⟩ := e1 o' ho' w hw'
    exact h.outs o'' ho'' w hw''
  · exact hws w hw'

theorem isSource_false_of_cs {e : Entry} (h : ∃ cs, e = Entry.clockSync cs) : isSource e = false := by
  obtain ⟨cs, rfl⟩ := h; rfl

theorem wfInv_consume (s : Session) (polls : List Poll) (h : WfInv s) (hm : MetaInv s) :
    WfInv (consume s polls).1 := by
  unfold consume
  refine wfInv_emit s _ _ h (fun o ho w hw => ⟨o, ho, hw⟩) rfl rfl rfl
    (pollAll_chans_ok s.channels polls _ h.chans) ?_
  intro w hw e he
  unfold consumeWrites at hw
  simp only [List.mem_append, List.mem_singleton] at hw
  rcases hw with (hw | hw) | hw
  · split at hw
    · simp only [List.mem_singleton] at hw
      subst hw
      exact ⟨h.css e he, fun hs => by rw [isSource_false_of_cs (hm.css_are e he)] at hs; cases hs⟩
    · simp at hw
  · subst hw
    have := List.mem_of_mem_drop he
    exact ⟨h.srcs e this, fun _ => this⟩
  · refine ⟨pollAll_writes_ok s.channels polls _ h.chans w hw e he, ?_⟩
    intro hs
    have hfl : e ∈ (pollAll s.channels polls).writes.flatten := List.mem_flatten.mpr ⟨w, hw, he⟩
    rcases pollAll_writes_mem s.channels polls e hfl with ⟨wp, rfl⟩ | ⟨c, hc, hmem⟩
    · cases hs
    · obtain ⟨sid, clock, args, rfl, _⟩ := hm.chans c hc e hmem
      cases hs

theorem wfInv_rotate (s : Session) (h : WfInv s) (hm : MetaInv s) :
    WfInv (reconsumeMetadata { s with outputs := s.outputs ++ [[]] }).1 := by
  unfold reconsumeMetadata
  refine wfInv_emit s _ _ h ?_ rfl rfl rfl h.chans ?_
  · intro o ho w hw
    simp only [List.mem_append, List.mem_singleton] at ho
    rcases ho with ho | ho
    · exact ⟨o, ho, hw⟩
    · subst ho; simp at hw
  · intro w hw e he
    simp only [List.mem_cons, List.not_mem_nil, or_false] at hw
    rcases hw with hw | hw
    · subst hw
      exact ⟨h.css e he, fun hs => by rw [isSource_false_of_cs (hm.css_are e he)] at hs; cases hs⟩
    · subst hw
      have := List.mem_of_mem_take he
      exact ⟨h.srcs e this, fun _ => this⟩

theorem wfInv_log_append (s : Session) (cid sid clock : Nat) (args : Bytes)
    (he : EntryOk s.nextSourceId (Entry.event sid clock args)) (h : WfInv s) :
    WfInv (updChan s cid (fun c => { c with entries := c.entries ++ [Entry.event sid clock args] })) := by
  apply wfInv_updChan _ _ _ _ h
  intro c hwp hes
  refine ⟨hwp, ?_⟩
  intro e hmem
  simp only [List.mem_append, List.mem_singleton] at hmem
  rcases hmem with hmem | hmem
  · exact hes e hmem
  · subst hmem; exact he

/-- every step preserves the representability invariant -/
theorem wfInv_step (s : Session) (op : Op) (s' : Session) (h : WfInv s) (hm : MetaInv s) (hok : OpOk s op)
    (hwf : OpWf op) (hstep : step s op = some s') : WfInv s' := by
  cases op with
  | createWriter w id name =>
    simp only [step] at hstep
    injection hstep with hstep
    subst hstep
    have h1 := wfInv_setWriter _ w (some s.nextCid) (wfInv_newChan s w {} wpOk_default h)
    have hfid : ∀ (n : Nat) (c : Chan), WpOk c.wp → (∀ e ∈ c.entries, EntryOk n e) →
        WpOk ({ c with wp := { c.wp with id := id } } : Chan).wp ∧
          ∀ e ∈ ({ c with wp := { c.wp with id := id } } : Chan).entries, EntryOk n e :=
      fun _ c hwp hes => ⟨⟨hwf.1, hwp.2⟩, hes⟩
    have hfname : ∀ (n : Nat) (c : Chan), WpOk c.wp → (∀ e ∈ c.entries, EntryOk n e) →
        WpOk ({ c with wp := { c.wp with name := name } } : Chan).wp ∧
          ∀ e ∈ ({ c with wp := { c.wp with name := name } } : Chan).entries, EntryOk n e :=
      fun _ c hwp hes => ⟨⟨hwp.1, hwf.2⟩, hes⟩
    split
    · split
      · exact wfInv_updChan _ _ _ (hfname _) (wfInv_updChan _ _ _ (hfid _) h1)
      · exact wfInv_updChan _ _ _ (hfname _) h1
    · split
      · exact wfInv_updChan _ _ _ (hfid _) h1
      · exact h1
  | setWriterId w id =>
    simp only [step, Option.map_eq_some_iff] at hstep
    obtain ⟨cid, _, rfl⟩ := hstep
    exact wfInv_updChan _ _ _ (fun c hwp hes => ⟨⟨hwf, hwp.2⟩, hes⟩) h
  | setWriterName w name =>
    simp only [step, Option.map_eq_some_iff] at hstep
    obtain ⟨cid, _, rfl⟩ := hstep
    exact wfInv_updChan _ _ _ (fun c hwp hes => ⟨⟨hwp.1, hwf⟩, hes⟩) h
  | addSource src =>
    simp only [step] at hstep
    injection hstep with hstep
    subst hstep
    have hle : s.nextSourceId ≤ s.nextSourceId + 1 := Nat.le_succ _
    have hnew : EntryOk (s.nextSourceId + 1) (Entry.source { src with id := s.nextSourceId }) := by
      refine ⟨Nat.lt_succ_self _, hwf.1, ?_⟩
      unfold PayloadOk
      rw [sourcePayload_length_id]
      exact hwf.2
    refine ⟨fun e he => (h.css e he).mono hle, ?_, chansWf_mono hle h.chans, ?_⟩
    · intro e he
      simp only [List.mem_append, List.mem_singleton] at he
      rcases he with he | he
      · exact (h.srcs e he).mono hle
      · subst he; exact hnew
    · intro o ho w hw e he
      obtain ⟨a, b⟩ := h.outs o ho w hw e he
      exact ⟨a.mono hle, fun hs => List.mem_append_left _ (b hs)⟩
  | log w sid clock args fits =>
    simp only [step] at hstep
    have hev : EntryOk s.nextSourceId (Entry.event sid clock args) := ⟨hok.2, hwf.1, hwf.2⟩
    cases hl : lookupWriter s w with
    | none => simp [hl] at hstep
    | some cid =>
      simp only [hl] at hstep
      have hacc := wfInv_accepted s (s.accepted ++ [(w, Entry.event sid clock args)]) h
      split at hstep
      · injection hstep with hstep
        subst hstep
        exact wfInv_log_append _ cid sid clock args hev hacc
      · split at hstep
        · cases hstep
        · rename_i old hfind
          injection hstep with hstep
          subst hstep
          have hold : WpOk old.wp := (h.chans old (List.mem_of_find?_eq_some hfind)).1
          have h1 := wfInv_newChan _ w { id := old.wp.id, name := old.wp.name, batchSize := 0 } hold hacc
          have h2 := wfInv_updChan _ cid (fun c => { c with closed := true, sealed := true })
            (fun c hwp hes => ⟨hwp, hes⟩) h1
          have h3 := wfInv_setWriter _ w (some s.nextCid) h2
          exact wfInv_log_append _ _ sid clock args hev h3
  | destroyWriter w =>
    simp only [step, Option.map_eq_some_iff] at hstep
    obtain ⟨cid, _, rfl⟩ := hstep
    exact wfInv_setWriter _ _ _ (wfInv_updChan _ _ _ (fun c hwp hes => ⟨hwp, hes⟩) h)
  | setClockSync cs =>
    simp only [step] at hstep
    injection hstep with hstep
    subst hstep
    refine ⟨?_, h.srcs, h.chans, h.outs⟩
    intro e he
    simp only [List.mem_append, List.mem_singleton] at he
    rcases he with he | he
    · exact h.css e he
    · subst he; exact hwf
  | consume polls =>
    simp only [step] at hstep
    injection hstep with hstep
    subst hstep
    exact wfInv_consume s polls h hm
  | rotate =>
    simp only [step] at hstep
    injection hstep with hstep
    subst hstep
    exact wfInv_rotate s h hm

theorem wfInv_init (cs : ClockSync) (h : cs.Wf ∧ PayloadOk (clockSyncPayload cs)) : WfInv (init cs) := by
  refine ⟨?_, by simp [init], by intro c hc; simp [init] at hc, ?_⟩
  · intro e he
    simp only [init, List.mem_singleton] at he
    subst he; exact h
  · intro o ho w hw
    simp [init] at ho
    subst ho
    simp at hw

/-- both invariants hold in every reachable state -/
theorem invs_exec (s0 : Session) (ops : List Op) (s : Session) (hm0 : MetaInv s0) (hw0 : WfInv s0)
    (hok : TraceOk s0 ops) (hwf : ∀ op ∈ ops, OpWf op) (hrun : exec s0 ops = some s) : MetaInv s ∧ WfInv s := by
  induction ops generalizing s0 with
  | nil => simp [exec] at hrun; subst hrun; exact ⟨hm0, hw0⟩
  | cons op ops ih =>
    simp only [exec] at hrun
    cases hs : step s0 op with
    | none => simp [hs] at hrun
    | some s1 =>
      simp only [hs] at hrun
      exact ih s1 (metaInv_step s0 op s1 hm0 hok.1 hs) (wfInv_step s0 op s1 hw0 hm0 hok.1 (hwf op (by simp)) hs)
        (hok.2 s1 hs) (fun o ho => hwf o (by simp [ho])) hrun

end BinlogVerif.E2E
