import BinlogVerif.Lemmas.TimeArith
/-
  C17 instant: `clockToNs` is within one nanosecond of the exact rational instant.
-/
namespace BinlogVerif.Time

/-- Nat core: `S + N/f < B` from `f*S + N < f*B` -/
theorem add_div_lt_of (f S N B : Nat) (h : f * S + N < f * B) : S + N / f < B := by
  have h1 : f * (N / f) ≤ N := Nat.mul_div_le N f
  have h2 : f * (S + N / f) < f * B := by rw [Nat.mul_add]; omega
  exact Nat.lt_of_mul_lt_mul_left h2

theorem div_le_of (f S N : Nat) (hf : 0 < f) (h : N ≤ f * S) : N / f ≤ S := by
  have := Nat.div_le_div_right (c := f) h
  rwa [Nat.mul_div_cancel_left _ hf] at this

theorem lt_of_before (f S N Q B : Nat) (h : f * S < f * B + N) (b : N < f * (Q + 1)) :
    S < B + Q + 1 := by
  have e1 : f * (B + Q + 1) = f * B + f * (Q + 1) := by rw [Nat.add_assoc, Nat.mul_add]
  have h2 : f * S < f * (B + Q + 1) := by rw [e1]; omega
  exact Nat.lt_of_mul_lt_mul_left h2

theorem instant_main (cs : ClockSync) (clock : Nat)
    (hf1 : 1 ≤ cs.clockFrequency) (hf2 : cs.clockFrequency < 9200000000)
    (hclock : clock < 18446744073709551616) (hsc : cs.clockValue < 18446744073709551616)
    (hsn : cs.nsSinceEpoch < 9223372036854775808)
    (hT0 : 0 ≤ (cs.clockFrequency : Int) * cs.nsSinceEpoch
              + ((clock : Int) - cs.clockValue) * 1000000000)
    (hT1 : (cs.clockFrequency : Int) * cs.nsSinceEpoch
              + ((clock : Int) - cs.clockValue) * 1000000000
              < cs.clockFrequency * 9214646400000000000) :
    0 ≤ clockToNs cs clock ∧ clockToNs cs clock ≤ 9214646400000000000 ∧
    (cs.clockValue ≤ clock →
      (cs.clockFrequency : Int) * (clockToNs cs clock - cs.nsSinceEpoch)
          ≤ ((clock : Int) - cs.clockValue) * 1000000000 ∧
      ((clock : Int) - cs.clockValue) * 1000000000
          < (cs.clockFrequency : Int) * (clockToNs cs clock - cs.nsSinceEpoch + 1)) ∧
    (clock < cs.clockValue →
      (cs.clockFrequency : Int) * (clockToNs cs clock - cs.nsSinceEpoch - 1)
          < ((clock : Int) - cs.clockValue) * 1000000000 ∧
      ((clock : Int) - cs.clockValue) * 1000000000
          ≤ (cs.clockFrequency : Int) * (clockToNs cs clock - cs.nsSinceEpoch)) := by
  obtain ⟨cv, f, S, tzo, tzn⟩ := cs
  simp only at *
  have hf0 : 0 < f := by omega
  by_cases hle : cv ≤ clock
  · -- after the sync point
    have hD : ((clock : Int) - cv) * 1000000000 = (((clock - cv) * 1000000000 : Nat) : Int) := by
      rw [Int.natCast_mul, Int.natCast_sub hle]; rfl
    rw [hD] at hT1 hT0 ⊢
    generalize hN : (clock - cv) * 1000000000 = N at *
    have hT1' : f * S + N < f * 9214646400000000000 := by
      have : ((f * S + N : Nat) : Int) < ((f * 9214646400000000000 : Nat) : Int) := by
        rw [Int.natCast_add, Int.natCast_mul, Int.natCast_mul]; exact hT1
      exact Int.ofNat_lt.mp this
    have hQ := add_div_lt_of f S N _ hT1'
    have hr := clockToNs_after ⟨cv, f, S, tzo, tzn⟩ clock hle hclock hf0 hf2
      (show S + (clock - cv) * 1000000000 / f < 9223372036854775808 by rw [hN]; omega)
    simp only [hN] at hr
    rw [hr]
    have a : f * (N / f) ≤ N := Nat.mul_div_le N f
    have b : N < f * (N / f + 1) := Nat.lt_mul_div_succ N hf0
    generalize N / f = Q at *
    have e : ((S + Q : Nat) : Int) - (S : Int) = (Q : Int) := by omega
    refine ⟨by omega, by omega, fun _ => ?_, fun h => absurd hle (by omega)⟩
    rw [e]
    have e2 : (Q : Int) + 1 = ((Q + 1 : Nat) : Int) := by omega
    rw [e2, ← Int.natCast_mul, ← Int.natCast_mul]
    exact ⟨Int.ofNat_le.mpr a, Int.ofNat_lt.mpr b⟩
  · -- before the sync point
    have hlt : clock < cv := by omega
    have hD : ((clock : Int) - cv) * 1000000000 = -(((cv - clock) * 1000000000 : Nat) : Int) := by
      rw [Int.natCast_mul, Int.natCast_sub (by omega : clock ≤ cv), ← Int.neg_mul]
      congr 1; omega
    rw [hD] at hT1 hT0 ⊢
    generalize hN : (cv - clock) * 1000000000 = N at *
    have hT0' : N ≤ f * S := by
      have : (N : Int) ≤ ((f * S : Nat) : Int) := by rw [Int.natCast_mul]; omega
      exact_mod_cast this
    have hQ := div_le_of f S N hf0 hT0'
    have hr := clockToNs_before ⟨cv, f, S, tzo, tzn⟩ clock hlt hsc hf0 hf2 hsn
      (show (cv - clock) * 1000000000 / f < 9223372036854775808 by rw [hN]; omega)
    simp only [hN] at hr
    rw [hr]
    have a : f * (N / f) ≤ N := Nat.mul_div_le N f
    have b : N < f * (N / f + 1) := Nat.lt_mul_div_succ N hf0
    generalize N / f = Q at *
    have hB : S < 9214646400000000000 + Q + 1 := by
      have h1 : ((f * S : Nat) : Int) < ((f * 9214646400000000000 + N : Nat) : Int) := by
        rw [Int.natCast_add, Int.natCast_mul, Int.natCast_mul]; omega
      exact lt_of_before f S N Q _ (Int.ofNat_lt.mp h1) b
    have e : (S : Int) - (Q : Int) - (S : Int) = -(Q : Int) := by omega
    have e1 : (S : Int) - (Q : Int) - (S : Int) - 1 = -((Q + 1 : Nat) : Int) := by omega
    refine ⟨by omega, by omega, fun h => absurd h hle, fun _ => ?_⟩
    rw [e1, e, Int.mul_neg, Int.mul_neg, ← Int.natCast_mul, ← Int.natCast_mul]
    have a' := Int.ofNat_le.mpr a
    have b' := Int.ofNat_lt.mpr b
    exact ⟨by omega, by omega⟩

end BinlogVerif.Time
