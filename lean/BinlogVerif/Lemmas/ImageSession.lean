import BinlogVerif.Lemmas.ImageContent
import BinlogVerif.Props.C02
/-
  Lemmas for C08: a memory image relative to a state of the session model (Conc/Session.lean).
-/
namespace BinlogVerif.Sess
open BinlogVerif

/-- `addEventSource` only hands out larger ids -/
theorem step_nextSourceId (s : Session) (op : Op) (s' : Session) (h : step s op = some s') :
    s.nextSourceId ≤ s'.nextSourceId := by
  cases op with
  | createWriter w id name =>
    simp only [step] at h
    injection h with h
    subst h
    split <;> split <;> simp [updChan, setWriter, newChan]
  | setWriterId w id =>
    simp only [step, Option.map_eq_some_iff] at h
    obtain ⟨cid, _, rfl⟩ := h
    simp [updChan]
  | setWriterName w name =>
    simp only [step, Option.map_eq_some_iff] at h
    obtain ⟨cid, _, rfl⟩ := h
    simp [updChan]
  | addSource src =>
    simp only [step] at h
    injection h with h
    subst h
    simp
  | log w sid clock args fits =>
    simp only [step] at h
    cases hl : lookupWriter s w with
    | none => simp [hl] at h
    | some cid =>
      simp only [hl] at h
      split at h
      · injection h with h
        subst h
        simp [updChan]
      · split at h
        · cases h
        · injection h with h
          subst h
          simp [updChan, setWriter, newChan]
  | destroyWriter w =>
    simp only [step, Option.map_eq_some_iff] at h
    obtain ⟨cid, _, rfl⟩ := h
    simp [updChan, setWriter]
  | setClockSync cs =>
    simp only [step] at h
    injection h with h
    subst h
    simp
  | consume polls =>
    simp only [step] at h
    injection h with h
    subst h
    unfold consume
    simp only [(emitAll_fields _ _).2.2.2.2.2.1, Nat.le_refl]
  | rotate =>
    simp only [step] at h
    injection h with h
    subst h
    unfold reconsumeMetadata
    simp only [(emitAll_fields _ _).2.2.2.2.2.1, Nat.le_refl]

/-- every event ever accepted names a source id that `addEventSource` had returned -/
def AccValid (s : Session) : Prop :=
  ∀ x ∈ s.accepted, ∃ sid clock args, x.2 = Entry.event sid clock args ∧ 1 ≤ sid ∧ sid < s.nextSourceId

theorem accValid_step (s : Session) (op : Op) (s' : Session) (h : AccValid s) (hok : OpOk s op)
    (hstep : step s op = some s') : AccValid s' := by
  intro x hx
  rw [step_accepted s op s' hstep, List.mem_append] at hx
  have hmono := step_nextSourceId s op s' hstep
  cases hx with
  | inl hx =>
    obtain ⟨sid, clock, args, e, h1, h2⟩ := h x hx
    exact ⟨sid, clock, args, e, h1, by omega⟩
  | inr hx =>
    cases op with
    | log w sid clock args fits =>
      simp only [logCall, List.mem_singleton] at hx
      subst hx
      exact ⟨sid, clock, args, rfl, hok.1, by have := hok.2; omega⟩
    | _ => simp [logCall] at hx

theorem accValid_exec (cs : ClockSync) (ops : List Op) (s : Session) (hok : TraceOk (init cs) ops)
    (hrun : exec (init cs) ops = some s) : AccValid s :=
  exec_induction AccValid (init cs) ops s (by intro x hx; simp [init] at hx) hok
    (fun s op s1 h ho hs => accValid_step s op s1 h ho hs) hrun
end BinlogVerif.Sess

namespace BinlogVerif.Image
open BinlogVerif BinlogVerif.Recovery BinlogVerif.Sess

/-! ### an image relative to a state of the session model -/

/-- what a block of the image is, relative to an L1 state `s` -/
inductive Item where
  /-- a block of the clock-sync stream that carries the magic; `extra` = bytes behind the size field -/
  | clockSyncs (extra : Bytes)
  /-- a block of the event-source stream that carries the magic -/
  | sources (extra : Bytes)
  /-- the queue of channel `c`; `pre` = events the consumer has already written out but not
      released yet (the read index is advanced after the write) -/
  | chan (c : Chan) (pre : List Entry) (ci : ChanImage)
  /-- a block whose magic is zero -/
  | off (bytes : Bytes)

def Item.piece (s : Session) (sess : Nat) : Item → Piece
  | .clockSyncs extra => .metaOn sess (s.clockSyncs.map Entry.payload) extra
  | .sources extra => .metaOn sess (s.sources.map Entry.payload) extra
  | .chan _ _ ci => .chan sess ci
  | .off bs => .off bs

def Item.metaEntries (s : Session) : Item → List Entry
  | .clockSyncs _ => s.clockSyncs
  | .sources _ => s.sources
  | _ => []

def Item.chanEntries : Item → List Entry
  | .chan c pre ci => if ci.magicOn then pre ++ c.entries else []
  | _ => []

def toImage (s : Session) (sess : Nat) (items : List (Bytes × Item)) : List (Bytes × Piece) :=
  items.map fun x => (x.1, x.2.piece s sess)

/-- the log the recovery tool is to produce, as entries -/
def recoveredLog (s : Session) (items : List (Bytes × Item)) : List Entry :=
  items.flatMap (·.2.metaEntries s) ++ items.flatMap (·.2.chanEntries)

/-- The image holds the state `s`: each queue that carries the magic holds the unconsumed entries of
    its channel (possibly preceded by events its writer logged earlier and the consumer has not
    released yet; a queue of a channel the consumer has already removed holds nothing else); at
    least one block of each metadata stream carries the magic; every channel that has entries has
    a queue with the magic in the image. -/
structure Represents (s : Session) (items : List (Bytes × Item)) : Prop where
  chanOk : ∀ x ∈ items, ∀ c pre ci, x.2 = Item.chan c pre ci → ci.magicOn = true →
      (c ∈ s.channels ∨ c.entries = []) ∧ ci.pending = (pre ++ c.entries).map Entry.payload ∧
      ∀ e ∈ pre, (c.owner, e) ∈ s.accepted
  hasCS : ∃ x ∈ items, ∃ extra, x.2 = Item.clockSyncs extra
  hasSrc : ∃ x ∈ items, ∃ extra, x.2 = Item.sources extra
  allChans : ∀ c ∈ s.channels, c.entries ≠ [] → ∃ x ∈ items, ∃ pre ci, x.2 = Item.chan c pre ci ∧ ci.magicOn = true

theorem toImage_one_session (s : Session) (sess : Nat) (items : List (Bytes × Item)) :
    ∀ b ∈ expected (toImage s sess items), b.session = sess := by
  intro b hb
  simp only [expected, toImage, List.mem_filterMap, List.mem_map] at hb
  obtain ⟨_, ⟨x, _, rfl⟩, hr⟩ := hb
  obtain ⟨f, it⟩ := x
  cases it with
  | clockSyncs extra => simp [Item.piece, Piece.recovered] at hr; rw [← hr]
  | sources extra => simp [Item.piece, Piece.recovered] at hr; rw [← hr]
  | chan c pre ci =>
    simp only [Item.piece, Piece.recovered] at hr
    split at hr
    · injection hr with hr; rw [← hr]
    · cases hr
  | off bs => simp [Item.piece, Piece.recovered] at hr

theorem toImage_metaPayloads (s : Session) (sess : Nat) (items : List (Bytes × Item)) :
    metaPayloads (toImage s sess items) = (items.flatMap (·.2.metaEntries s)).map Entry.payload := by
  induction items with
  | nil => rfl
  | cons x rest ih =>
    obtain ⟨f, it⟩ := x
    simp only [metaPayloads, toImage] at ih
    simp only [metaPayloads, toImage, List.map_cons, List.flatMap_cons, List.map_append, ih]
    cases it <;> simp [Item.piece, Piece.metaPayloads, Item.metaEntries]

theorem toImage_chanPayloads (s : Session) (sess : Nat) (items : List (Bytes × Item))
    (h : ∀ x ∈ items, ∀ c pre ci, x.2 = Item.chan c pre ci → ci.magicOn = true →
      ci.pending = (pre ++ c.entries).map Entry.payload) :
    chanPayloads (toImage s sess items) = (items.flatMap (·.2.chanEntries)).map Entry.payload := by
  induction items with
  | nil => rfl
  | cons x rest ih =>
    obtain ⟨f, it⟩ := x
    have ih := ih (fun y hy => h y (by simp [hy]))
    simp only [chanPayloads, toImage] at ih
    simp only [chanPayloads, toImage, List.map_cons, List.flatMap_cons, List.map_append, ih]
    cases it with
    | chan c pre ci =>
      by_cases hm : ci.magicOn = true
      · have := h (f, .chan c pre ci) (by simp) c pre ci rfl hm
        simp [Item.piece, Piece.chanPayloads, Item.chanEntries, hm, this]
      · simp [Item.piece, Piece.chanPayloads, Item.chanEntries, hm]
    | _ => simp [Item.piece, Piece.chanPayloads, Item.chanEntries]

theorem mem_metaEntries (s : Session) (items : List (Bytes × Item)) (e : Entry)
    (h : e ∈ items.flatMap (·.2.metaEntries s)) : e ∈ s.clockSyncs ∨ e ∈ s.sources := by
  simp only [List.mem_flatMap] at h
  obtain ⟨x, _, hx⟩ := h
  obtain ⟨f, it⟩ := x
  cases it <;> simp [Item.metaEntries] at hx
  · exact .inl hx
  · exact .inr hx

theorem mem_chanEntries (items : List (Bytes × Item)) (e : Entry)
    (h : e ∈ items.flatMap (·.2.chanEntries)) :
    ∃ x ∈ items, ∃ c pre ci, x.2 = Item.chan c pre ci ∧ ci.magicOn = true ∧ (e ∈ pre ∨ e ∈ c.entries) := by
  simp only [List.mem_flatMap] at h
  obtain ⟨x, hx, he⟩ := h
  obtain ⟨f, it⟩ := x
  cases it with
  | chan c pre ci =>
    simp only [Item.chanEntries] at he
    split at he
    · rename_i hm
      exact ⟨_, hx, c, pre, ci, rfl, hm, List.mem_append.mp he⟩
    · simp at he
  | _ => simp [Item.chanEntries] at he

/-- every event of the recovered log names a source id that has been handed out -/
theorem chanEntries_valid (s : Session) (items : List (Bytes × Item)) (hm : MetaInv s) (ha : AccValid s)
    (hr : Represents s items) (e : Entry) (h : e ∈ items.flatMap (·.2.chanEntries)) :
    ∃ sid clock args, e = Entry.event sid clock args ∧ 1 ≤ sid ∧ sid < s.nextSourceId := by
  obtain ⟨x, hx, c, pre, ci, hit, hmag, he⟩ := mem_chanEntries items e h
  obtain ⟨hc, _, hpre⟩ := hr.chanOk x hx c pre ci hit hmag
  cases he with
  | inl he => exact ha (c.owner, e) (hpre e he)
  | inr he =>
    cases hc with
    | inl hc => exact hm.chans c hc e he
    | inr hc => rw [hc] at he; cases he

/-- **printable**: in the recovered log every event is preceded by the event source with its id and
    by a clock sync -/
theorem recoveredLog_selfContained (s : Session) (items : List (Bytes × Item)) (hm : MetaInv s) (ha : AccValid s)
    (hr : Represents s items) : SelfContained (recoveredLog s items) := by
  unfold SelfContained recoveredLog
  generalize hM : items.flatMap (·.2.metaEntries s) = M
  have hMmem : ∀ e ∈ M, e ∈ s.clockSyncs ∨ e ∈ s.sources := fun e he => mem_metaEntries s items e (by rw [hM]; exact he)
  have hne : noEvents M := by
    intro e he
    cases hMmem e he with
    | inl h => exact noEvents_of_css hm.css_are e h
    | inr h => exact noEvents_of_sources hm.srcs_are e h
  have hcsM : ∀ e ∈ s.clockSyncs, e ∈ M := by
    obtain ⟨x, hx, extra, hit⟩ := hr.hasCS
    intro e he
    rw [← hM, List.mem_flatMap]
    exact ⟨x, hx, by rw [hit]; exact he⟩
  have hsrcM : ∀ e ∈ s.sources, e ∈ M := by
    obtain ⟨x, hx, extra, hit⟩ := hr.hasSrc
    intro e he
    rw [← hM, List.mem_flatMap]
    exact ⟨x, hx, by rw [hit]; exact he⟩
  have hcs : hasCSIn M = true := by
    cases hcl : s.clockSyncs with
    | nil => exact absurd hcl hm.css_ne
    | cons e es =>
      have he : e ∈ s.clockSyncs := by rw [hcl]; simp
      obtain ⟨cs, rfl⟩ := hm.css_are e he
      unfold hasCSIn
      rw [List.any_eq_true]
      exact ⟨_, hcsM _ he, rfl⟩
  have hdef : ∀ sid, 1 ≤ sid → sid < s.nextSourceId → sid ∈ (srcIds M).reverse ++ ([] : List Nat) := by
    intro sid h1 h2
    have := mem_srcIds_range hm sid h1 h2
    simp only [srcIds, List.mem_filterMap] at this
    obtain ⟨e, he, hs⟩ := this
    simp only [List.append_nil, List.mem_reverse, srcIds, List.mem_filterMap]
    exact ⟨e, hsrcM e he, hs⟩
  rw [scan_append, scan_noEvents {} M hne]
  simp only [Option.bind_some]
  rw [scan_events _ _ (by simp [hcs])]
  · rfl
  · intro e he
    obtain ⟨sid, clock, args, rfl, h1, h2⟩ := chanEntries_valid s items hm ha hr e he
    exact hdef sid h1 h2

/-! ### completeness and order -/

theorem infix_flatMap {α β} (f : α → List β) (l : List α) (x : α) (h : x ∈ l) : f x <:+: l.flatMap f := by
  induction l with
  | nil => cases h
  | cons a l ih =>
    rw [List.flatMap_cons]
    cases h with
    | head => exact (List.prefix_append _ _).isInfix
    | tail _ h => exact (ih h).trans (List.suffix_append _ _).isInfix

/-- **order**: what is recovered from one queue is a contiguous run of the recovered log, in queue order -/
theorem chan_infix (s : Session) (items : List (Bytes × Item)) (x : Bytes × Item) (hx : x ∈ items)
    (c : Chan) (pre : List Entry) (ci : ChanImage) (hit : x.2 = Item.chan c pre ci) (hm : ci.magicOn = true) :
    (pre ++ c.entries) <:+: recoveredLog s items := by
  have h1 := infix_flatMap (fun y : Bytes × Item => y.2.chanEntries) items x hx
  simp only [hit, Item.chanEntries, hm, if_true] at h1
  exact h1.trans (List.suffix_append _ _).isInfix

/-- **complete**: the unconsumed entries of every channel are in the recovered log, contiguous and in order -/
theorem entries_infix (s : Session) (items : List (Bytes × Item)) (hr : Represents s items)
    (c : Chan) (hc : c ∈ s.channels) : c.entries <:+: recoveredLog s items := by
  by_cases hne : c.entries = []
  · rw [hne]; exact ⟨[], recoveredLog s items, by simp⟩
  · obtain ⟨x, hx, pre, ci, hit, hm⟩ := hr.allChans c hc hne
    exact (List.suffix_append pre c.entries).isInfix.trans (chan_infix s items x hx c pre ci hit hm)

theorem mem_pendingOf (w : Nat) (chs : List Chan) (e : Entry) (h : e ∈ pendingOf w chs) :
    ∃ c ∈ chs, c.owner = w ∧ e ∈ c.entries := by
  simp only [pendingOf, List.mem_flatMap, List.mem_filter] at h
  obtain ⟨c, ⟨hc, ho⟩, he⟩ := h
  exact ⟨c, hc, by simpa using ho, he⟩

/-- **complete (with C02)**: an event a writer's log call has handed over is either already
    delivered to the output or in the recovered log -/
theorem accepted_delivered_or_recovered (s : Session) (items : List (Bytes × Item)) (hr : Represents s items)
    (hord : ∀ w, ofW w s.accepted = ofW w s.delivered ++ pendingOf w s.channels) (w : Nat) (e : Entry)
    (h : e ∈ ofW w s.accepted) : e ∈ ofW w s.delivered ∨ e ∈ recoveredLog s items := by
  rw [hord w, List.mem_append] at h
  cases h with
  | inl h => exact .inl h
  | inr h =>
    obtain ⟨c, hc, _, he⟩ := mem_pendingOf w s.channels e h
    exact .inr ((entries_infix s items hr c hc).subset he)

/-! ### the metadata streams as `MetaState`s -/

/-- the items of a stream: `mk` for the blocks that carry the magic -/
def MetaState.items (mk : Bytes → Item) (sess : Nat) : MetaState → List Item
  | .stable _ slack => [mk slack]
  | .inserted _ extra => [mk extra]
  | .growingNoMagic _ slackOld n content => [mk slackOld, .off (metaBlock false sess n content)]
  | .growingBoth _ a b => [mk a, mk b]
  | .growingOldCleared es a b => [.off (metaBlock false sess (frames es).length (frames es ++ a)), mk b]

theorem MetaState.items_pieces (st : MetaState) (mk : Bytes → Item) (s : Session) (sess : Nat)
    (hmk : ∀ extra, (mk extra).piece s sess = .metaOn sess st.committed extra) :
    (st.items mk sess).map (Item.piece s sess) = st.pieces sess := by
  cases st <;> simp [MetaState.items, MetaState.pieces, MetaState.committed, Item.piece] at hmk ⊢ <;> simp [hmk]

theorem MetaState.items_live (st : MetaState) (mk : Bytes → Item) (sess : Nat) :
    ∃ extra, mk extra ∈ st.items mk sess := by
  cases st with
  | stable es a => exact ⟨a, by simp [MetaState.items]⟩
  | inserted es a => exact ⟨a, by simp [MetaState.items]⟩
  | growingNoMagic es a n c => exact ⟨a, by simp [MetaState.items]⟩
  | growingBoth es a b => exact ⟨a, by simp [MetaState.items]⟩
  | growingOldCleared es a b => exact ⟨b, by simp [MetaState.items]⟩

theorem MetaState.items_not_chan (st : MetaState) (mk : Bytes → Item) (sess : Nat)
    (hmk : ∀ extra c pre ci, mk extra ≠ Item.chan c pre ci) :
    ∀ it ∈ st.items mk sess, ∀ c pre ci, it ≠ Item.chan c pre ci := by
  intro it hit c pre ci
  cases st <;> simp [MetaState.items] at hit
  all_goals (first
    | (subst hit; exact hmk _ c pre ci)
    | (rcases hit with rfl | rfl <;> first | exact hmk _ c pre ci | (intro h; cases h)))

/-- An image whose blocks are, in any order, the blocks of the clock-sync stream in state `csSt`, of
    the event-source stream in state `srcSt`, and `others` (queues, blocks without magic) holds `s`. -/
theorem represents_of_states (s : Session) (sess : Nat) (csSt srcSt : MetaState) (others : List Item)
    (items : List (Bytes × Item))
    (hperm : (items.map (·.2)).Perm (csSt.items Item.clockSyncs sess ++ srcSt.items Item.sources sess ++ others))
    (hchan : ∀ c pre ci, Item.chan c pre ci ∈ others → ci.magicOn = true →
      (c ∈ s.channels ∨ c.entries = []) ∧ ci.pending = (pre ++ c.entries).map Entry.payload ∧
      ∀ e ∈ pre, (c.owner, e) ∈ s.accepted)
    (hall : ∀ c ∈ s.channels, c.entries ≠ [] → ∃ pre ci, Item.chan c pre ci ∈ others ∧ ci.magicOn = true) :
    Represents s items := by
  have hmem : ∀ it, (∃ x ∈ items, x.2 = it) ↔
      it ∈ csSt.items Item.clockSyncs sess ++ srcSt.items Item.sources sess ++ others := by
    intro it
    rw [← hperm.mem_iff, List.mem_map]
  refine ⟨?_, ?_, ?_, ?_⟩
  · intro x hx c pre ci hit hm
    have := (hmem (Item.chan c pre ci)).mp ⟨x, hx, hit⟩
    simp only [List.mem_append] at this
    rcases this with (h | h) | h
    · exact absurd rfl (MetaState.items_not_chan csSt _ sess (by intro _ _ _ _ h; cases h) _ h c pre ci)
    · exact absurd rfl (MetaState.items_not_chan srcSt _ sess (by intro _ _ _ _ h; cases h) _ h c pre ci)
    · exact hchan c pre ci h hm
  · obtain ⟨extra, h⟩ := MetaState.items_live csSt Item.clockSyncs sess
    obtain ⟨x, hx, hit⟩ := (hmem _).mpr (List.mem_append_left _ (List.mem_append_left _ h))
    exact ⟨x, hx, extra, hit⟩
  · obtain ⟨extra, h⟩ := MetaState.items_live srcSt Item.sources sess
    obtain ⟨x, hx, hit⟩ := (hmem _).mpr (List.mem_append_left _ (List.mem_append_right _ h))
    exact ⟨x, hx, extra, hit⟩
  · intro c hc hne
    obtain ⟨pre, ci, h, hm⟩ := hall c hc hne
    obtain ⟨x, hx, hit⟩ := (hmem _).mpr (List.mem_append_right _ h)
    exact ⟨x, hx, pre, ci, hit, hm⟩

/-- … and its memory blocks are exactly the blocks of the two streams and of `others` -/
theorem blocks_of_states (s : Session) (sess : Nat) (csSt srcSt : MetaState) (others : List Item)
    (items : List (Bytes × Item))
    (hperm : (items.map (·.2)).Perm (csSt.items Item.clockSyncs sess ++ srcSt.items Item.sources sess ++ others))
    (hcs : csSt.committed = s.clockSyncs.map Entry.payload) (hsrc : srcSt.committed = s.sources.map Entry.payload) :
    ((toImage s sess items).map (·.2.bytes)).Perm
      (csSt.blocks sess ++ srcSt.blocks sess ++ others.map (fun it => (it.piece s sess).bytes)) := by
  have h1 := MetaState.items_pieces csSt Item.clockSyncs s sess (by intro extra; rw [hcs]; rfl)
  have h2 := MetaState.items_pieces srcSt Item.sources s sess (by intro extra; rw [hsrc]; rfl)
  have := (hperm.map (fun it => (it.piece s sess).bytes))
  simp only [List.map_append, List.map_map] at this
  have e1 : List.map ((fun it => (Item.piece s sess it).bytes) ∘ fun x => x.2) items
      = List.map (fun x => x.2.bytes) (toImage s sess items) := by
    simp [toImage, List.map_map, Function.comp_def]
  rw [e1] at this
  unfold MetaState.blocks
  rw [← h1, ← h2, List.map_map, List.map_map]
  exact this

end BinlogVerif.Image
