import BinlogVerif.Lemmas.TagSingular
/-
  The enumerator lookup of `visit_enum` (`find("'" + hex + "`")` in the enum tag) agrees with
  `lookupEnumerator`; `integerToHex` produces only `0-9A-F-`.
-/
namespace BinlogVerif.Mser
open BinlogVerif BinlogVerif.Tag BinlogVerif.Visit

/-! ### hex text -/

theorem hexDigitsUpper_go_hex (fuel n : Nat) (acc : Bytes) (h : ∀ x ∈ acc, hexChar x = true) :
    ∀ x ∈ hexDigitsUpper.go fuel n acc, hexChar x = true := by
  induction fuel generalizing n acc with
  | zero => simpa [hexDigitsUpper.go] using h
  | succ f ih =>
    rw [hexDigitsUpper.go]
    split
    · exact h
    · apply ih
      intro x hx
      rcases List.mem_cons.1 hx with rfl | hx
      · have hd : n % 16 < 16 := Nat.mod_lt _ (by decide)
        split
        · simp [hexChar]; omega
        · simp [hexChar]; omega
      · exact h x hx

theorem hexDigitsUpper_hex (n : Nat) : ∀ x ∈ hexDigitsUpper n, hexChar x = true := by
  unfold hexDigitsUpper
  split
  · intro x hx; simp at hx; subst hx; decide
  · exact hexDigitsUpper_go_hex _ _ _ (by simp)

theorem integerToHex_hex (c : UInt8) (raw : Nat) (hc : c ≠ 121) : ∀ x ∈ integerToHex c raw, hexChar x = true := by
  unfold integerToHex
  split
  · simp
  · simp only [hc, if_false]
    split
    · simp
    · split
      · intro x hx
        rcases List.mem_cons.1 hx with rfl | hx
        · decide
        · exact hexDigitsUpper_hex _ x hx
      · exact hexDigitsUpper_hex _

theorem integerToHex_plain (c : UInt8) (raw : Nat) (hc : c ≠ 121) : Plain (integerToHex c raw) :=
  fun x hx => hexChar_charOk (integerToHex_hex c raw hc x hx)

/-! ### `find` -/

theorem findSub_go_skip (q : UInt8) (nd s r : Bytes) (i : Nat) (h : ∀ x ∈ s, x ≠ q) :
    findSub.go (q :: nd) (s ++ r) i = findSub.go (q :: nd) r (i + s.length) := by
  induction s generalizing i with
  | nil => simp
  | cons x s ih =>
    have hx : (q == x) = false := by
      have := h x (by simp)
      simp [Ne.symm this]
    rw [List.cons_append, findSub.go, List.isPrefixOf_cons_cons, hx]
    simp only [Bool.false_and, Bool.false_eq_true, if_false]
    rw [ih _ (fun y hy => h y (by simp [hy]))]
    simp only [List.length_cons]
    congr 1; omega

theorem isPrefixOf_sep (c : UInt8) (a b r : Bytes) (ha : c ∉ a) (hb : c ∉ b) :
    (a ++ [c]).isPrefixOf (b ++ c :: r) = decide (a = b) := by
  induction a generalizing b with
  | nil =>
    cases b with
    | nil => simp
    | cons y b =>
      have : ¬ c = y := by intro e; subst e; simp at hb
      rw [List.nil_append, List.cons_append, List.isPrefixOf_cons_cons]
      simp [this]
  | cons x a ih =>
    cases b with
    | nil =>
      have : ¬ x = c := by intro e; subst e; simp at ha
      rw [List.nil_append, List.cons_append, List.isPrefixOf_cons_cons]
      simp [this]
    | cons y b =>
      simp only [List.mem_cons, not_or] at ha hb
      simp only [List.cons_append, List.isPrefixOf_cons_cons, ih b ha.2 hb.2]
      by_cases e : x = y <;> simp [e]

/-- the dvalue search of `visit_enum`, started after an already scanned prefix `p` -/
theorem enum_find (hexv : Bytes) (hh : Plain hexv) (ens : List (Bytes × Bytes)) (hens : EnumsOk ens = true)
    (p : Bytes) :
    (match findSub.go (cQuote :: (hexv ++ [cBacktick])) (cQuote :: tagEnums ens) p.length with
      | some pos => (tagPopLabel ((p ++ cQuote :: tagEnums ens).drop (pos + (hexv.length + 2) - 1))).1
      | none => []) = lookupEnumerator hexv ens := by
  induction ens generalizing p with
  | nil =>
    have : (hexv ++ [cBacktick]).isPrefixOf [] = false := by
      cases hexv <;> simp
    simp [tagEnums_nil, findSub.go, this, lookupEnumerator]
  | cons a ens ih =>
    obtain ⟨h, n⟩ := a
    simp only [EnumsOk, Bool.and_eq_true] at hens
    have hph := Plain.of_hexOk hens.1.1
    have hpn := Plain.of_nameOk hens.1.2
    rw [tagEnums_cons, findSub.go, List.isPrefixOf_cons_cons,
      isPrefixOf_sep cBacktick hexv h _ hh.not_mem.1 hph.not_mem.1]
    simp only [beq_self_eq_true, Bool.true_and, decide_eq_true_eq, lookupEnumerator]
    by_cases e : hexv = h
    · subst e
      rw [if_pos rfl, if_pos rfl]
      dsimp only
      have : p.length + (hexv.length + 2) - 1 = p.length + (hexv.length + 1) := by omega
      rw [this, List.drop_append]
      have h2 : p.length + (hexv.length + 1) - p.length = hexv.length + 1 := by omega
      rw [List.drop_of_length_le (by omega), h2, List.nil_append, List.drop_succ_cons,
        List.drop_left]
      rw [tagPopLabel_label n _ hpn]
    · rw [if_neg e, if_neg (fun e' => e e'.symm)]
      have hs : ∀ x ∈ h ++ cBacktick :: n, x ≠ cQuote := by
        intro x hx
        rcases List.mem_append.1 hx with hx | hx
        · exact (charOk_ne (hph x hx)).2.2.2.2.2.2.2.2.2.2.2
        · rcases List.mem_cons.1 hx with rfl | hx
          · decide
          · exact (charOk_ne (hpn x hx)).2.2.2.2.2.2.2.2.2.2.2
      have := findSub_go_skip cQuote (hexv ++ [cBacktick]) (h ++ cBacktick :: n) (cQuote :: tagEnums ens)
        (p.length + 1) hs
      rw [List.append_assoc, List.cons_append] at this
      rw [this]
      have ih' := ih hens.2 (p ++ cQuote :: (h ++ cBacktick :: n))
      have hl : (p ++ cQuote :: (h ++ cBacktick :: n)).length = p.length + 1 + (h ++ cBacktick :: n).length := by
        simp only [List.length_append, List.length_cons]; omega
      rw [hl] at ih'
      rw [← ih']
      simp only [List.append_assoc, List.cons_append]

theorem findSub_cons (hay : Bytes) (q : UInt8) (nd : Bytes) :
    findSub hay (q :: nd) = findSub.go (q :: nd) hay 0 := by
  simp [findSub]

/-- the enumerator `visit_enum` finds in the tag of the enum -/
theorem enum_lookup (hexv : Bytes) (hh : Plain hexv) (ens : List (Bytes × Bytes)) (hens : EnumsOk ens = true) :
    (match findSub (cQuote :: tagEnums ens) ([cQuote] ++ hexv ++ [cBacktick]) with
      | some pos => (tagPopLabel ((cQuote :: tagEnums ens).drop
          (pos + ([cQuote] ++ hexv ++ [cBacktick]).length - 1))).1
      | none => []) = lookupEnumerator hexv ens := by
  have := enum_find hexv hh ens hens []
  simp only [List.length_nil, List.nil_append] at this
  rw [← this]
  simp only [List.cons_append, findSub_cons, List.length_cons, List.length_append,
    List.length_nil, List.nil_append, Nat.zero_add]
end BinlogVerif.Mser
