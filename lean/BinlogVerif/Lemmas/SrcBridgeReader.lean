import BinlogVerif.Generated.SrcReader
import BinlogVerif.Lemmas.SrcBridgeTactic
/- Bridge lemmas (see SrcBridgeTactic.lean): model = source for the Reader functions. -/
namespace BinlogVerif.SrcBridge
open BinlogVerif BinlogVerif.CSem BinlogVerif.Generated

/-! ### Range.hpp -/

/-- `throw_if_overflow(s)` throws iff fewer than `s` bytes are left -/
theorem rangeThrowIfOverflow_bridge (s b e : Nat) (hbe : b ≤ e) :
    (Src.rangeThrowIfOverflow s b e).throws = decide (e - b < s) := by
  bridge_unfold [Src.rangeThrowIfOverflow]
  bridge_arith []

/-- `view(size)`: checks first, then advances by exactly `size` and returns the old position -/
def viewRangeView (o : Src.rangeView.Out) := (o.effects, o.ret, o._begin)
theorem rangeView_bridge (size b e : Nat) :
    viewRangeView (Src.rangeView size b e) = ([("throw_if_overflow", [(size : Int)])], (b : Int), ((b + size : Nat) : Int)) := by
  bridge_unfold [Src.rangeView]
  bridge_arith [viewRangeView]

/-! ### OstreamBuffer.cpp — the 1024-byte print buffer is never overrun -/

/-- after `reserve(n)` (n ≤ 1024) there is room for `n` bytes: `_p + n ≤ 1024`; the position is kept
    or, after a flush, reset to the start -/
def viewReserve (o : Src.ostreamBufferReserve.Out) := (o._p, o.effects, o.ok, o.throws)
theorem ostreamBufferReserve_bridge (n p : Nat) (hn : n ≤ 1024) (hp : p ≤ 1024) :
    viewReserve (Src.ostreamBufferReserve n p) =
      if p + n ≤ 1024 then ((p : Int), [], true, false) else (0, [("flush", [])], true, false) := by
  bridge_unfold [Src.ostreamBufferReserve]
  bridge_arith [viewReserve]

theorem ostreamBufferReserve_room (n p : Nat) (hn : n ≤ 1024) (hp : p ≤ 1024) :
    0 ≤ (Src.ostreamBufferReserve n p)._p ∧ (Src.ostreamBufferReserve n p)._p + n ≤ 1024 := by
  have h := ostreamBufferReserve_bridge n p hn hp
  have h1 : (Src.ostreamBufferReserve n p)._p = (viewReserve (Src.ostreamBufferReserve n p)).1 := rfl
  rw [h1, h]
  split <;> simp <;> omega

/-- `flush()` hands `[0, _p)` to the stream and resets the position -/
def viewFlush (o : Src.ostreamBufferFlush.Out) := (o._p, o.effects)
theorem ostreamBufferFlush_bridge (p : Nat) :
    viewFlush (Src.ostreamBufferFlush p) = (0, [("_out.write", [0, (p : Int)])]) := by
  bridge_unfold [Src.ostreamBufferFlush]
  bridge_arith [viewFlush]

/-- `put(c)` reserves one byte FIRST and then stores at the position it finds afterwards, and
    advances by one: with `reserve`'s guarantee the store is inside the buffer.  (`put` is translated
    with `reserve` as an opaque call that may move `_p`; the position after `reserve` is the
    function's input `_p`.) -/
def viewPut (o : Src.ostreamBufferPut.Out) := (o.effects, o._p)
theorem ostreamBufferPut_bridge (c : Int) (p : Int) :
    viewPut (Src.ostreamBufferPut c p) = ([("reserve", [1]), ("store", [p, c])], p + 1) := by
  bridge_unfold [Src.ostreamBufferPut]
  bridge_arith [viewPut]


end BinlogVerif.SrcBridge
