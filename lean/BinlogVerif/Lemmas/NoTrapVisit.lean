import BinlogVerif.Lemmas.NoTrapBase
import BinlogVerif.Mser.Visit
/-
  C09 support: `singular` and `visit_impl` never trap, for ARBITRARY tags and input bytes, provided
  the visitor's callbacks do not trap.
-/
namespace BinlogVerif

open BinlogVerif.Tag BinlogVerif.Visit

/-! ### singular -/

theorem singular_tupLoop_noTrap (full : Bytes) (m : Nat)
    (ih : ∀ tag, NoTrap (singularImpl full m tag)) :
    ∀ f t, NoTrap (singularImpl.tupLoop full m f t) := by
  intro f
  induction f with
  | zero => intro t; unfold singularImpl.tupLoop; exact NoTrap.ok _
  | succ f ihf =>
    intro t
    unfold singularImpl.tupLoop
    no_trap_steps [exact ihf _, exact ih _]

theorem singular_fieldLoop_noTrap (full : Bytes) (m : Nat)
    (ih : ∀ tag, NoTrap (singularImpl full m tag)) :
    ∀ f t, NoTrap (singularImpl.fieldLoop full m f t) := by
  intro f
  induction f with
  | zero => intro t; unfold singularImpl.fieldLoop; exact NoTrap.ok _
  | succ f ihf =>
    intro t
    unfold singularImpl.fieldLoop
    no_trap_steps [exact ihf _, exact ih _]

theorem singularImpl_noTrap (full : Bytes) : ∀ m tag, NoTrap (singularImpl full m tag) := by
  intro m
  induction m with
  | zero => intro tag; unfold singularImpl; exact NoTrap.recursion
  | succ m ih =>
    intro tag
    unfold singularImpl
    no_trap_steps [exact singular_tupLoop_noTrap full m ih _ _,
      exact singular_fieldLoop_noTrap full m ih _ _]

theorem singular_noTrap (full tag : Bytes) (m : Nat) : NoTrap (singular full tag m) :=
  singularImpl_noTrap full m tag

/-! ### visit -/

/-- a visitor none of whose callbacks traps -/
def Visit.Visitor.NoTrap {σ : Type} (v : Visitor σ) : Prop :=
  ∀ st ev input, BinlogVerif.NoTrap (v.handle st ev input)

theorem loopN_noTrap {α : Type} (f : α → Outcome α) (hf : ∀ a, NoTrap (f a)) :
    ∀ n a, NoTrap (loopN f n a) := by
  intro n
  induction n with
  | zero => intro a; exact NoTrap.ok _
  | succ n ih =>
    intro a
    unfold loopN
    no_trap_steps [exact ih _, exact hf _]

theorem recorder_noTrap : (recorder).NoTrap := fun _ _ _ => NoTrap.ok _

section
variable {σ : Type} (v : Visitor σ) (full : Bytes)

theorem visitArith_noTrap (hv : v.NoTrap) (c : UInt8) (st : σ) (input : Bytes) :
    NoTrap (visitArith v c st input) := by
  unfold visitArith
  no_trap_steps [exact hv _ _ _, exact readU_noTrap _ _]

theorem visit_tupLoop_noTrap (m : Nat)
    (ih : ∀ tag st input, NoTrap (visitImpl v full m tag st input)) :
    ∀ f t st input, NoTrap (visitImpl.tupLoop v full m f t st input) := by
  intro f
  induction f with
  | zero => intro t st input; unfold visitImpl.tupLoop; exact NoTrap.ok _
  | succ f ihf =>
    intro t st input
    unfold visitImpl.tupLoop
    no_trap_steps [exact ihf _ _ _, exact ih _ _ _]

theorem visit_fieldLoop_noTrap (hv : v.NoTrap) (m : Nat)
    (ih : ∀ tag st input, NoTrap (visitImpl v full m tag st input)) :
    ∀ f t st input, NoTrap (visitImpl.fieldLoop v full m f t st input) := by
  intro f
  induction f with
  | zero => intro t st input; unfold visitImpl.fieldLoop; exact NoTrap.ok _
  | succ f ihf =>
    intro t st input
    unfold visitImpl.fieldLoop
    no_trap_steps [exact ihf _ _ _, exact ih _ _ _, exact hv _ _ _]

/-- `visit_impl` never traps, whatever the tag, the input and the recursion budget, if the
    visitor's callbacks do not -/
theorem visitImpl_noTrap (hv : v.NoTrap) :
    ∀ m tag st input, NoTrap (visitImpl v full m tag st input) := by
  intro m
  induction m with
  | zero => intro tag st input; unfold visitImpl; exact NoTrap.recursion
  | succ m ih =>
    intro tag st input
    unfold visitImpl
    no_trap_steps [exact hv _ _ _, exact readU_noTrap _ _, exact ih _ _ _,
      exact singular_noTrap _ _ _,
      exact loopN_noTrap _ (fun _ => ih _ _ _) _ _,
      exact visit_tupLoop_noTrap v full m ih _ _ _ _,
      exact visit_fieldLoop_noTrap v full hv m ih _ _ _ _,
      exact visitArith_noTrap v hv _ _ _]

theorem visit_noTrap (hv : v.NoTrap) (tag : Bytes) (st : σ) (input : Bytes) :
    NoTrap (visit v tag st input) :=
  visitImpl_noTrap v tag hv 2048 tag st input

end

end BinlogVerif
