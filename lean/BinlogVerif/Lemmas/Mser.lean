import BinlogVerif.Mser.Ty
/-
  Structural-induction lemmas about the codec model.
-/
namespace BinlogVerif.Mser
open BinlogVerif BinlogVerif.Visit

mutual
theorem size_eq (t : Ty) (v : Val) (h : hasTy t v = true) : size t v = (encode t v).length := by
  match t, v with
  | .arith c, .num raw => simp [size, encode]
  | .seq e, .seq vs =>
    simp only [hasTy, Bool.and_eq_true] at h
    have ih := sizeAll_eq e vs h.1
    cases e with
    | arith c =>
      simp only [size, encode, List.length_append, le_length]
      rw [← ih]
      congr 1
      exact (sizeAll_arith c vs h.1).symm
    | _ => simp only [size, encode, List.length_append, le_length, ih]
  | .tup es, .tup vs => simp only [hasTy] at h; simp only [size, encode]; exact sizeList_eq es vs h
  | .var alts, .alt i v =>
    simp only [hasTy, Bool.and_eq_true] at h
    simp only [size, encode, List.length_append, le_length]
    rw [sizeNth_eq alts i v h.2]
  | .null, .nul => simp [size, encode]
  | .enum u n es, .num raw => simp [size, encode]
  | .struct n fs, .tup vs => simp only [hasTy] at h; simp only [size, encode]; exact sizeFields_eq fs vs h
  | .arith _, .seq _ | .arith _, .tup _ | .arith _, .alt _ _ | .arith _, .nul => simp [hasTy] at h
  | .seq _, .num _ | .seq _, .tup _ | .seq _, .alt _ _ | .seq _, .nul => simp [hasTy] at h
  | .tup _, .num _ | .tup _, .seq _ | .tup _, .alt _ _ | .tup _, .nul => simp [hasTy] at h
  | .var _, .num _ | .var _, .seq _ | .var _, .tup _ | .var _, .nul => simp [hasTy] at h
  | .null, .num _ | .null, .seq _ | .null, .tup _ | .null, .alt _ _ => simp [hasTy] at h
  | .enum _ _ _, .seq _ | .enum _ _ _, .tup _ | .enum _ _ _, .alt _ _ | .enum _ _ _, .nul => simp [hasTy] at h
  | .struct _ _, .num _ | .struct _ _, .seq _ | .struct _ _, .alt _ _ | .struct _ _, .nul => simp [hasTy] at h
theorem sizeAll_eq (e : Ty) (vs : List Val) (h : hasTyAll e vs = true) :
    sizeAll e vs = (encodeAll e vs).length := by
  match vs with
  | [] => simp [sizeAll, encodeAll]
  | v :: vs =>
    simp only [hasTyAll, Bool.and_eq_true] at h
    simp only [sizeAll, encodeAll, List.length_append]
    rw [size_eq e v h.1, sizeAll_eq e vs h.2]
theorem sizeAll_arith (c : UInt8) (vs : List Val) (h : hasTyAll (.arith c) vs = true) :
    sizeAll (.arith c) vs = vs.length * (arithSize c).getD 0 := by
  match vs with
  | [] => simp [sizeAll]
  | v :: vs =>
    simp only [hasTyAll, Bool.and_eq_true] at h
    simp only [sizeAll, List.length_cons]
    rw [sizeAll_arith c vs h.2]
    cases v with
    | num raw => simp only [size]; rw [Nat.add_mul]; omega
    | _ => simp [hasTy] at h
theorem sizeList_eq (es : List Ty) (vs : List Val) (h : hasTyList es vs = true) :
    sizeList es vs = (encodeList es vs).length := by
  match es, vs with
  | [], [] => simp [sizeList, encodeList]
  | t :: ts, v :: vs =>
    simp only [hasTyList, Bool.and_eq_true] at h
    simp only [sizeList, encodeList, List.length_append]
    rw [size_eq t v h.1, sizeList_eq ts vs h.2]
  | [], _ :: _ => simp [hasTyList] at h
  | _ :: _, [] => simp [hasTyList] at h
theorem sizeFields_eq (fs : List (Bytes × Ty)) (vs : List Val) (h : hasTyFields fs vs = true) :
    sizeFields fs vs = (encodeFields fs vs).length := by
  match fs, vs with
  | [], [] => simp [sizeFields, encodeFields]
  | (n, t) :: fs, v :: vs =>
    simp only [hasTyFields, Bool.and_eq_true] at h
    simp only [sizeFields, encodeFields, List.length_append]
    rw [size_eq t v h.1, sizeFields_eq fs vs h.2]
  | [], _ :: _ => simp [hasTyFields] at h
  | _ :: _, [] => simp [hasTyFields] at h
theorem sizeNth_eq (alts : List Ty) (i : Nat) (v : Val) (h : hasTyNth alts i v = true) :
    sizeNth alts i v = (encodeNth alts i v).length := by
  match alts, i with
  | [], _ => simp [hasTyNth] at h
  | t :: _, 0 => simp only [hasTyNth] at h; simp only [sizeNth, encodeNth]; exact size_eq t v h
  | _ :: ts, i + 1 => simp only [hasTyNth] at h; simp only [sizeNth, encodeNth]; exact sizeNth_eq ts i v h
end

end BinlogVerif.Mser

namespace BinlogVerif.Mser
open BinlogVerif BinlogVerif.Visit

mutual
theorem decode_encode (t : Ty) (v : Val) (rest : Bytes) (h : hasTy t v = true) :
    decode t (encode t v ++ rest) = .ok (v, rest) := by
  match t, v with
  | .arith c, .num raw =>
    simp only [hasTy] at h
    cases hs : arithSize c with
    | none => simp [hs] at h
    | some sz =>
      simp only [hs, decide_eq_true_eq] at h
      simp only [decode, encode, hs, Option.getD_some]
      rw [readU_le_append sz raw rest h]
  | .seq e, .seq vs =>
    simp only [hasTy, Bool.and_eq_true, decide_eq_true_eq] at h
    simp only [decode, encode, List.append_assoc]
    rw [readU_le_append 4 vs.length _ (by simpa using h.2)]
    simp only
    rw [decodeN_encodeAll e vs rest h.1]
  | .tup es, .tup vs =>
    simp only [hasTy] at h
    simp only [decode, encode]
    rw [decodeList_encodeList es vs rest h]
  | .var alts, .alt i v =>
    simp only [hasTy, Bool.and_eq_true, decide_eq_true_eq] at h
    simp only [decode, encode, List.append_assoc]
    rw [readU_le_append 1 i _ (by simpa using h.1)]
    simp only
    rw [decodeNth_encodeNth alts i v rest h.2]
  | .null, .nul => simp [decode, encode]
  | .enum u n es, .num raw =>
    simp only [hasTy] at h
    cases hs : arithSize u with
    | none => simp [hs] at h
    | some sz =>
      simp only [hs, decide_eq_true_eq] at h
      simp only [decode, encode, hs, Option.getD_some]
      rw [readU_le_append sz raw rest h]
  | .struct n fs, .tup vs =>
    simp only [hasTy] at h
    simp only [decode, encode]
    rw [decodeFields_encodeFields fs vs rest h]
  | .arith _, .seq _ | .arith _, .tup _ | .arith _, .alt _ _ | .arith _, .nul => simp [hasTy] at h
  | .seq _, .num _ | .seq _, .tup _ | .seq _, .alt _ _ | .seq _, .nul => simp [hasTy] at h
  | .tup _, .num _ | .tup _, .seq _ | .tup _, .alt _ _ | .tup _, .nul => simp [hasTy] at h
  | .var _, .num _ | .var _, .seq _ | .var _, .tup _ | .var _, .nul => simp [hasTy] at h
  | .null, .num _ | .null, .seq _ | .null, .tup _ | .null, .alt _ _ => simp [hasTy] at h
  | .enum _ _ _, .seq _ | .enum _ _ _, .tup _ | .enum _ _ _, .alt _ _ | .enum _ _ _, .nul => simp [hasTy] at h
  | .struct _ _, .num _ | .struct _ _, .seq _ | .struct _ _, .alt _ _ | .struct _ _, .nul => simp [hasTy] at h
theorem decodeN_encodeAll (e : Ty) (vs : List Val) (rest : Bytes) (h : hasTyAll e vs = true) :
    decodeN e vs.length (encodeAll e vs ++ rest) = .ok (vs, rest) := by
  match vs with
  | [] => simp [decodeN, encodeAll]
  | v :: vs =>
    simp only [hasTyAll, Bool.and_eq_true] at h
    simp only [List.length_cons, decodeN, encodeAll, List.append_assoc]
    rw [decode_encode e v _ h.1]
    simp only
    rw [decodeN_encodeAll e vs rest h.2]
theorem decodeList_encodeList (es : List Ty) (vs : List Val) (rest : Bytes) (h : hasTyList es vs = true) :
    decodeList es (encodeList es vs ++ rest) = .ok (vs, rest) := by
  match es, vs with
  | [], [] => simp [decodeList, encodeList]
  | t :: ts, v :: vs =>
    simp only [hasTyList, Bool.and_eq_true] at h
    simp only [decodeList, encodeList, List.append_assoc]
    rw [decode_encode t v _ h.1]
    simp only
    rw [decodeList_encodeList ts vs rest h.2]
  | [], _ :: _ => simp [hasTyList] at h
  | _ :: _, [] => simp [hasTyList] at h
theorem decodeFields_encodeFields (fs : List (Bytes × Ty)) (vs : List Val) (rest : Bytes)
    (h : hasTyFields fs vs = true) :
    decodeFields fs (encodeFields fs vs ++ rest) = .ok (vs, rest) := by
  match fs, vs with
  | [], [] => simp [decodeFields, encodeFields]
  | (n, t) :: fs, v :: vs =>
    simp only [hasTyFields, Bool.and_eq_true] at h
    simp only [decodeFields, encodeFields, List.append_assoc]
    rw [decode_encode t v _ h.1]
    simp only
    rw [decodeFields_encodeFields fs vs rest h.2]
  | [], _ :: _ => simp [hasTyFields] at h
  | _ :: _, [] => simp [hasTyFields] at h
theorem decodeNth_encodeNth (alts : List Ty) (i : Nat) (v : Val) (rest : Bytes)
    (h : hasTyNth alts i v = true) :
    decodeNth alts i (encodeNth alts i v ++ rest) = .ok (v, rest) := by
  match alts, i with
  | [], _ => simp [hasTyNth] at h
  | t :: _, 0 => simp only [hasTyNth] at h; simp only [decodeNth, encodeNth]; exact decode_encode t v rest h
  | _ :: ts, i + 1 => simp only [hasTyNth] at h; simp only [decodeNth, encodeNth]; exact decodeNth_encodeNth ts i v rest h
end

end BinlogVerif.Mser

namespace BinlogVerif.Mser
open BinlogVerif BinlogVerif.Visit

/-- splitting `take` over an append whose first part is fully inside -/
theorem take_append_ge {α} (a b : List α) (n : Nat) (h : a.length ≤ n) :
    (a ++ b).take n = a ++ b.take (n - a.length) := by
  rw [List.take_append, List.take_of_length_le h]

theorem take_append_lt {α} (a b : List α) (n : Nat) (h : n < a.length) :
    (a ++ b).take n = a.take n := by
  rw [List.take_append_of_le_length (by omega)]

mutual
theorem decode_trunc (t : Ty) (v : Val) (h : hasTy t v = true) (n : Nat) (hn : n < (encode t v).length) :
    decode t ((encode t v).take n) = .error .overflow := by
  match t, v with
  | .arith c, .num raw =>
    simp only [hasTy] at h
    cases hs : arithSize c with
    | none => simp [hs] at h
    | some sz =>
      simp only [encode, hs, Option.getD_some, le_length] at hn
      simp only [decode, encode, hs, Option.getD_some]
      rw [readU_short sz _ (by simp; omega)]
  | .seq e, .seq vs =>
    simp only [hasTy, Bool.and_eq_true, decide_eq_true_eq] at h
    simp only [encode, List.length_append, le_length] at hn
    simp only [decode, encode]
    by_cases h4 : n < 4
    · rw [take_append_lt _ _ n (by simpa using h4)]
      rw [readU_short 4 _ (by simp; omega)]
    · rw [take_append_ge _ _ n (by simp; omega)]
      rw [readU_le_append 4 vs.length _ (by simpa using h.2)]
      simp only [le_length]
      rw [decodeN_trunc e vs h.1 (n - 4) (by omega)]
  | .tup es, .tup vs =>
    simp only [hasTy] at h
    simp only [encode] at hn
    simp only [decode, encode]
    rw [decodeList_trunc es vs h n hn]
  | .var alts, .alt i v =>
    simp only [hasTy, Bool.and_eq_true, decide_eq_true_eq] at h
    simp only [encode, List.length_append, le_length] at hn
    simp only [decode, encode]
    by_cases h1 : n < 1
    · rw [take_append_lt _ _ n (by simpa using h1)]
      rw [readU_short 1 _ (by simp; omega)]
    · rw [take_append_ge _ _ n (by simp; omega)]
      rw [readU_le_append 1 i _ (by simpa using h.1)]
      simp only [le_length]
      rw [decodeNth_trunc alts i v h.2 (n - 1) (by omega)]
  | .null, .nul => simp [encode] at hn
  | .enum u nm es, .num raw =>
    simp only [hasTy] at h
    cases hs : arithSize u with
    | none => simp [hs] at h
    | some sz =>
      simp only [encode, hs, Option.getD_some, le_length] at hn
      simp only [decode, encode, hs, Option.getD_some]
      rw [readU_short sz _ (by simp; omega)]
  | .struct nm fs, .tup vs =>
    simp only [hasTy] at h
    simp only [encode] at hn
    simp only [decode, encode]
    rw [decodeFields_trunc fs vs h n hn]
  | .arith _, .seq _ | .arith _, .tup _ | .arith _, .alt _ _ | .arith _, .nul => simp [hasTy] at h
  | .seq _, .num _ | .seq _, .tup _ | .seq _, .alt _ _ | .seq _, .nul => simp [hasTy] at h
  | .tup _, .num _ | .tup _, .seq _ | .tup _, .alt _ _ | .tup _, .nul => simp [hasTy] at h
  | .var _, .num _ | .var _, .seq _ | .var _, .tup _ | .var _, .nul => simp [hasTy] at h
  | .null, .num _ | .null, .seq _ | .null, .tup _ | .null, .alt _ _ => simp [hasTy] at h
  | .enum _ _ _, .seq _ | .enum _ _ _, .tup _ | .enum _ _ _, .alt _ _ | .enum _ _ _, .nul => simp [hasTy] at h
  | .struct _ _, .num _ | .struct _ _, .seq _ | .struct _ _, .alt _ _ | .struct _ _, .nul => simp [hasTy] at h
theorem decodeN_trunc (e : Ty) (vs : List Val) (h : hasTyAll e vs = true) (n : Nat)
    (hn : n < (encodeAll e vs).length) :
    decodeN e vs.length ((encodeAll e vs).take n) = .error .overflow := by
  match vs with
  | [] => simp [encodeAll] at hn
  | v :: vs =>
    simp only [hasTyAll, Bool.and_eq_true] at h
    simp only [encodeAll, List.length_append] at hn
    simp only [List.length_cons, decodeN, encodeAll]
    by_cases hlt : n < (encode e v).length
    · rw [take_append_lt _ _ n hlt, decode_trunc e v h.1 n hlt]
    · rw [take_append_ge _ _ n (by omega), decode_encode e v _ h.1]
      simp only
      rw [decodeN_trunc e vs h.2 _ (by omega)]
theorem decodeList_trunc (es : List Ty) (vs : List Val) (h : hasTyList es vs = true) (n : Nat)
    (hn : n < (encodeList es vs).length) :
    decodeList es ((encodeList es vs).take n) = .error .overflow := by
  match es, vs with
  | [], [] => simp [encodeList] at hn
  | t :: ts, v :: vs =>
    simp only [hasTyList, Bool.and_eq_true] at h
    simp only [encodeList, List.length_append] at hn
    simp only [decodeList, encodeList]
    by_cases hlt : n < (encode t v).length
    · rw [take_append_lt _ _ n hlt, decode_trunc t v h.1 n hlt]
    · rw [take_append_ge _ _ n (by omega), decode_encode t v _ h.1]
      simp only
      rw [decodeList_trunc ts vs h.2 _ (by omega)]
  | [], _ :: _ => simp [hasTyList] at h
  | _ :: _, [] => simp [hasTyList] at h
theorem decodeFields_trunc (fs : List (Bytes × Ty)) (vs : List Val) (h : hasTyFields fs vs = true) (n : Nat)
    (hn : n < (encodeFields fs vs).length) :
    decodeFields fs ((encodeFields fs vs).take n) = .error .overflow := by
  match fs, vs with
  | [], [] => simp [encodeFields] at hn
  | (nm, t) :: fs, v :: vs =>
    simp only [hasTyFields, Bool.and_eq_true] at h
    simp only [encodeFields, List.length_append] at hn
    simp only [decodeFields, encodeFields]
    by_cases hlt : n < (encode t v).length
    · rw [take_append_lt _ _ n hlt, decode_trunc t v h.1 n hlt]
    · rw [take_append_ge _ _ n (by omega), decode_encode t v _ h.1]
      simp only
      rw [decodeFields_trunc fs vs h.2 _ (by omega)]
  | [], _ :: _ => simp [hasTyFields] at h
  | _ :: _, [] => simp [hasTyFields] at h
theorem decodeNth_trunc (alts : List Ty) (i : Nat) (v : Val) (h : hasTyNth alts i v = true) (n : Nat)
    (hn : n < (encodeNth alts i v).length) :
    decodeNth alts i ((encodeNth alts i v).take n) = .error .overflow := by
  match alts, i with
  | [], _ => simp [hasTyNth] at h
  | t :: _, 0 =>
    simp only [hasTyNth] at h; simp only [encodeNth] at hn
    simp only [decodeNth, encodeNth]; exact decode_trunc t v h n hn
  | _ :: ts, i + 1 =>
    simp only [hasTyNth] at h; simp only [encodeNth] at hn
    simp only [decodeNth, encodeNth]; exact decodeNth_trunc ts i v h n hn
end

end BinlogVerif.Mser
