import BinlogVerif.Lemmas.TagParse
/-
  Label / struct-intro parsing, and `mserialize::singular` on the tag of a type.
-/
namespace BinlogVerif.Mser
open BinlogVerif BinlogVerif.Tag BinlogVerif.Visit

/-! ### `find_pos`, labels, struct intro -/

theorem findPos_append (s : Bytes) (c : UInt8) (h : c ∉ s) (rest : Bytes) :
    findPos (s ++ c :: rest) c = s.length := by
  induction s with
  | nil => simp [findPos]
  | cons x s ih =>
    simp only [List.mem_cons, not_or] at h
    have : ¬ x = c := fun e => h.1 e.symm
    simp [findPos, this, ih h.2]; omega

theorem findPos_notin (s : Bytes) (c : UInt8) (h : c ∉ s) : findPos s c = s.length := by
  induction s with
  | nil => simp [findPos]
  | cons x s ih =>
    simp only [List.mem_cons, not_or] at h
    have : ¬ x = c := fun e => h.1 e.symm
    simp [findPos, this, ih h.2]; omega

theorem Plain.not_mem {s : Bytes} (h : Plain s) :
    cBacktick ∉ s ∧ cQuote ∉ s ∧ cLBrace ∉ s ∧ cRBrace ∉ s := by
  refine ⟨?_, ?_, ?_, ?_⟩ <;> intro hm <;> have := charOk_ne (h _ hm) <;> simp at this

theorem tagPopLabel_label (n rest : Bytes) (h : Plain n) :
    tagPopLabel (cBacktick :: (n ++ cQuote :: rest)) = (n, rest) := by
  simp [tagPopLabel, findPos_append n cQuote h.not_mem.2.1 rest]

theorem tagPopLabel_nil : tagPopLabel [] = ([], []) := by simp [tagPopLabel, findPos]

theorem removeSuffix_snoc (s : Bytes) (x : UInt8) : removeSuffix (s ++ [x]) 1 = s := by
  simp [removeSuffix]

theorem removeSuffix_cons_snoc (a : UInt8) (s : Bytes) (x : UInt8) :
    removeSuffix (a :: (s ++ [x])) 1 = a :: s := by
  rw [← List.cons_append]; exact removeSuffix_snoc _ _

theorem length_le_tagList (es : List Ty) : es.length ≤ (tagList es).length := by
  induction es with
  | nil => simp
  | cons t ts ih =>
    rw [tagList_cons, List.length_append, List.length_cons]
    have := tag_length_pos t
    omega

theorem length_le_tagFields (fs : List (Bytes × Ty)) : fs.length ≤ (tagFields fs).length := by
  induction fs with
  | nil => simp
  | cons a fs ih =>
    obtain ⟨n, t⟩ := a
    rw [tagFields_cons]
    simp only [List.length_cons, List.length_append]
    omega

theorem tagFields_head (fs : List (Bytes × Ty)) : tagFields fs = [] ∨ ∃ r, tagFields fs = cBacktick :: r := by
  cases fs with
  | nil => left; exact tagFields_nil
  | cons a fs => obtain ⟨n, t⟩ := a; right; exact ⟨_, tagFields_cons n t fs⟩

theorem tagFields_eq_nil_iff (fs : List (Bytes × Ty)) : (tagFields fs).isEmpty = fs.isEmpty := by
  cases fs with
  | nil => simp [tagFields_nil]
  | cons a fs => obtain ⟨n, t⟩ := a; simp [tagFields_cons]

theorem removePrefixBefore_intro (n : Bytes) (fs : List (Bytes × Ty)) (h : Plain n) :
    removePrefixBefore (cLBrace :: (n ++ tagFields fs)) cBacktick = (cLBrace :: n, tagFields fs) := by
  have hb : cBacktick ∉ cLBrace :: n := by
    simp only [List.mem_cons, not_or]; exact ⟨by decide, h.not_mem.1⟩
  rcases tagFields_head fs with e | ⟨r, e⟩
  · rw [e, List.append_nil]
    simp only [removePrefixBefore, findPos_notin _ _ hb]
    simp
  · rw [e]
    have := findPos_append (cLBrace :: n) cBacktick hb r
    rw [List.cons_append] at this
    simp only [removePrefixBefore, this]
    simp

/-! ### singular types -/

mutual
theorem encode_singular (t : Ty) (v : Val) (h : singularTy t = true) : encode t v = [] := by
  match t, v with
  | .tup es, .tup vs => simp only [singularTy] at h; simp only [encode]; exact encodeList_singular es vs h
  | .struct n fs, .tup vs => simp only [singularTy] at h; simp only [encode]; exact encodeFields_singular fs vs h
  | .arith _, _ | .seq _, _ | .var _, _ | .null, _ | .enum _ _ _, _ => simp [singularTy] at h
  | .tup _, .num _ | .tup _, .seq _ | .tup _, .alt _ _ | .tup _, .nul => simp [encode]
  | .struct _ _, .num _ | .struct _ _, .seq _ | .struct _ _, .alt _ _ | .struct _ _, .nul => simp [encode]
theorem encodeList_singular (es : List Ty) (vs : List Val) (h : singularTys es = true) :
    encodeList es vs = [] := by
  match es, vs with
  | [], _ => simp [encodeList]
  | _ :: _, [] => simp [encodeList]
  | t :: ts, v :: vs =>
    simp only [singularTys, Bool.and_eq_true] at h
    simp only [encodeList, encode_singular t v h.1, encodeList_singular ts vs h.2, List.append_nil]
theorem encodeFields_singular (fs : List (Bytes × Ty)) (vs : List Val) (h : singularFields fs = true) :
    encodeFields fs vs = [] := by
  match fs, vs with
  | [], _ => simp [encodeFields]
  | _ :: _, [] => simp [encodeFields]
  | (n, t) :: fs, v :: vs =>
    simp only [singularFields, Bool.and_eq_true] at h
    simp only [encodeFields, encode_singular t v h.1, encodeFields_singular fs vs h.2, List.append_nil]
end

theorem encodeAll_singular (e : Ty) (vs : List Val) (h : singularTy e = true) : encodeAll e vs = [] := by
  induction vs with
  | nil => simp [encodeAll]
  | cons v vs ih => simp [encodeAll, encode_singular e v h, ih]

/-! ### `singular` computes `singularTy` -/

theorem depthList_cons (t : Ty) (ts : List Ty) : depthList (t :: ts) = max (depth t) (depthList ts) := by
  simp [depthList]
theorem depthFields_cons (n : Bytes) (t : Ty) (fs : List (Bytes × Ty)) :
    depthFields ((n, t) :: fs) = max (depth t) (depthFields fs) := by
  simp [depthFields]

/-- list form of `EmptyStructsOk` -/
def ESNames (full : Bytes) (ns : List Bytes) : Prop :=
  ∀ n ∈ ns, resolveRecursiveTag full (cLBrace :: n) = []

theorem ESNames.append_iff {full : Bytes} {a b : List Bytes} :
    ESNames full (a ++ b) ↔ ESNames full a ∧ ESNames full b := by
  simp only [ESNames, List.mem_append]
  constructor
  · intro h; exact ⟨fun n hn => h n (.inl hn), fun n hn => h n (.inr hn)⟩
  · intro h n hn; rcases hn with hn | hn; exact h.1 n hn; exact h.2 n hn

variable (full : Bytes)

mutual
theorem singular_tag (t : Ty) (m : Nat) (h : TyOkN t = true) (hd : depth t < m)
    (he : ESNames full (emptyStructNames t)) :
    singularImpl full m (tag t) = .ok (singularTy t) := by
  match m, t with
  | 0, _ => omega
  | m + 1, .arith x =>
    simp only [TyOkN, isNull, TyOk, Bool.false_or] at h
    have := charOk_ne (arith_charOk h).1
    simp [tag_arith, singularImpl, singularTy, this]
  | m + 1, .null => simp [tag_null, singularImpl, singularTy, cZero, cLParen, cLBrace]
  | m + 1, .seq e => simp [tag_seq, singularImpl, singularTy, cLBrack, cLParen, cLBrace]
  | m + 1, .var es => simp [tag_var, singularImpl, singularTy, cLt, cLParen, cLBrace]
  | m + 1, .enum u n ens => simp [tag_enum, singularImpl, singularTy, cSlash, cLParen, cLBrace]
  | m + 1, .tup es =>
    simp only [TyOkN, isNull, TyOk, Bool.false_or] at h
    simp only [depth] at hd
    simp only [emptyStructNames] at he
    rw [tag_tup]
    simp only [singularImpl, if_true, List.drop_succ_cons, List.drop_zero, removeSuffix_snoc, singularTy]
    exact singular_tupLoop es m _ (by have := length_le_tagList es; omega)
      (fun t ht => TyOkN.of_tyOk (tyOkList_forall h t ht)) (by omega) he
  | m + 1, .struct n fs =>
    simp only [TyOkN, isNull, TyOk, Bool.false_or, Bool.and_eq_true] at h
    simp only [depth] at hd
    simp only [emptyStructNames, ESNames.append_iff] at he
    rw [tag_struct]
    have hne : ¬ cLBrace = cLParen := by decide
    simp only [singularImpl, hne, if_false, if_true, removeSuffix_cons_snoc, singularTy]
    rw [removePrefixBefore_intro n fs (Plain.of_nameOk h.1)]
    simp only [tagFields_eq_nil_iff]
    cases fs with
    | nil =>
      have := he.1 n (by simp)
      simp [this, tagPopLabel_nil, singularFields]
    | cons a fs =>
      simp only [List.isEmpty_cons, Bool.false_eq_true, if_false]
      exact singular_fieldLoop (a :: fs) m _ (by have := length_le_tagFields (a :: fs); omega) h.2 (by omega) he.2
theorem singular_tupLoop (es : List Ty) (m f : Nat) (hf : es.length < f)
    (h : ∀ t ∈ es, TyOkN t = true) (hd : depthList es < m ∨ es = [])
    (he : ESNames full (emptyStructNamesList es)) :
    singularImpl.tupLoop full m f (tagList es) = .ok (singularTys es) := by
  match f, es with
  | 0, _ => omega
  | f + 1, [] => simp [singularImpl.tupLoop, tagList_nil, tagPop_nil, singularTys]
  | f + 1, t :: ts =>
    simp only [emptyStructNamesList, ESNames.append_iff] at he
    have hd' : depth t < m ∧ (depthList ts < m ∨ ts = []) := by
      rcases hd with hd | hd
      · rw [depthList_cons] at hd; omega
      · cases hd
    simp only [List.length_cons] at hf
    rw [tagList_cons, singularImpl.tupLoop, tagPop_tag t (h t (by simp))]
    have hne : (tag t).isEmpty = false := by
      cases ht : tag t with
      | nil => exact absurd ht (tag_ne_nil t)
      | cons _ _ => rfl
    simp only [hne, Bool.false_eq_true, if_false]
    rw [singular_tag t m (h t (by simp)) hd'.1 he.1]
    cases hs : singularTy t with
    | false => simp [singularTys, hs]
    | true =>
      simp only [singularTys, hs, Bool.true_and]
      exact singular_tupLoop ts m f (by omega) (fun x hx => h x (by simp [hx])) hd'.2 he.2
theorem singular_fieldLoop (fs : List (Bytes × Ty)) (m f : Nat) (hf : fs.length < f)
    (h : TyOkFields fs = true) (hd : depthFields fs < m ∨ fs = [])
    (he : ESNames full (emptyStructNamesFields fs)) :
    singularImpl.fieldLoop full m f (tagFields fs) = .ok (singularFields fs) := by
  match f, fs with
  | 0, _ => omega
  | f + 1, [] => simp [singularImpl.fieldLoop, tagFields_nil, singularFields]
  | f + 1, (n, t) :: fs =>
    simp only [emptyStructNamesFields, ESNames.append_iff] at he
    simp only [TyOkFields, Bool.and_eq_true] at h
    have hd' : depth t < m ∧ (depthFields fs < m ∨ fs = []) := by
      rcases hd with hd | hd
      · rw [depthFields_cons] at hd; omega
      · cases hd
    simp only [List.length_cons] at hf
    rw [tagFields_cons, singularImpl.fieldLoop]
    simp only [List.isEmpty_cons, Bool.false_eq_true, if_false]
    rw [tagPopLabel_label n _ (Plain.of_nameOk h.1.1)]
    simp only
    rw [tagPop_tag t (TyOkN.of_tyOk h.1.2)]
    simp only
    rw [singular_tag t m (TyOkN.of_tyOk h.1.2) hd'.1 he.1]
    cases hs : singularTy t with
    | false => simp [singularFields, hs]
    | true =>
      simp only [singularFields, hs, Bool.true_and]
      exact singular_fieldLoop fs m f (by omega) h.2 hd'.2 he.2
end

end BinlogVerif.Mser
