import BinlogVerif.Lemmas.VisitEnum
/-
  `visit_impl` on the tag of a type, for an ARBITRARY visitor: the tag parsing is resolved, what is
  left is the sequence of reads and visitor callbacks.
-/
namespace BinlogVerif.Mser
open BinlogVerif BinlogVerif.Tag BinlogVerif.Visit

variable {σ : Type} (v : Visitor σ) (full : Bytes)

theorem visitImpl_arith (m : Nat) (c : UInt8) (h : (arithSize c).isSome = true) (st : σ) (input : Bytes) :
    visitImpl v full (m + 1) (tag (.arith c)) st input = visitArith v c st input := by
  have := charOk_ne (arith_charOk h).1
  rw [tag_arith, visitImpl]
  simp [this]

/-- the loop part of `visit_sequence` -/
def seqBody (m : Nat) (e : Ty) (size : Nat) (st : σ) (input : Bytes) : Outcome (σ × Bytes) :=
  if size > repeatThreshold ∧ singularTy e = true then
    match v.handle st (.repeatBegin size (tag e)) input with
    | .error err => .error err
    | .ok (st, _, input) =>
      match visitImpl v full m (tag e) st input with
      | .error err => .error err
      | .ok (st, input) =>
        match v.handle st (.repeatEnd size (tag e)) input with
        | .error err => .error err
        | .ok (st, _, input) => .ok (st, input)
  else loopN (fun (p : σ × Bytes) => visitImpl v full m (tag e) p.1 p.2) size (st, input)

theorem visitImpl_seq (m : Nat) (e : Ty) (he : TyOk e = true) (hd : depth e < m)
    (hes : ESNames full (emptyStructNames e)) (st : σ) (input : Bytes) :
    visitImpl v full (m + 1) (tag (.seq e)) st input =
      match readU 4 input with
      | .error err => .error err
      | .ok (size, input) =>
        match v.handle st (.seqBegin size (tag e)) input with
        | .error err => .error err
        | .ok (st, skip, input) =>
          if skip then .ok (st, input) else
          match seqBody v full m e size st input with
          | .error err => .error err
          | .ok (st, input) =>
            match v.handle st .seqEnd input with
            | .error err => .error err
            | .ok (st, _, input) => .ok (st, input) := by
  rw [tag_seq, visitImpl]
  simp only [if_true, List.drop_succ_cons, List.drop_zero, tagPop_tag_nil e (TyOkN.of_tyOk he), singular,
    singular_tag full e m (TyOkN.of_tyOk he) hd hes, seqBody]
  cases readU 4 input with
  | error err => rfl
  | ok p =>
    obtain ⟨size, input⟩ := p
    dsimp only
    cases v.handle st (.seqBegin size (tag e)) input with
    | error err => rfl
    | ok q =>
      obtain ⟨st, skip, input⟩ := q
      dsimp only
      cases skip with
      | true => rfl
      | false =>
        simp only [Bool.false_eq_true, if_false]
        by_cases hsz : size > repeatThreshold
        · cases hs : singularTy e <;> simp [hsz] <;> rfl
        · simp [hsz]; rfl

theorem visitImpl_tup (m : Nat) (es : List Ty) (st : σ) (input : Bytes) :
    visitImpl v full (m + 1) (tag (.tup es)) st input =
      match v.handle st (.tupBegin (tagList es)) input with
      | .error err => .error err
      | .ok (st, skip, input) =>
        if skip then .ok (st, input) else
        match visitImpl.tupLoop v full m ((tagList es).length + 1) (tagList es) st input with
        | .error err => .error err
        | .ok (st, input) =>
          match v.handle st .tupEnd input with
          | .error err => .error err
          | .ok (st, _, input) => .ok (st, input) := by
  have h1 : ¬ cLParen = cLBrack := by decide
  rw [tag_tup, visitImpl]
  simp only [h1, if_false, if_true, List.drop_succ_cons, List.drop_zero, removeSuffix_snoc]
  rfl

theorem tupLoop_nil (m f : Nat) (st : σ) (input : Bytes) :
    visitImpl.tupLoop v full m f (tagList []) st input = .ok (st, input) := by
  cases f <;> simp [visitImpl.tupLoop, tagList_nil, tagPop_nil]

theorem tag_isEmpty (t : Ty) : (tag t).isEmpty = false := by
  cases ht : tag t with
  | nil => exact absurd ht (tag_ne_nil t)
  | cons _ _ => rfl

theorem tupLoop_cons (m f : Nat) (t : Ty) (ts : List Ty) (ht : TyOkN t = true) (st : σ) (input : Bytes) :
    visitImpl.tupLoop v full m (f + 1) (tagList (t :: ts)) st input =
      match visitImpl v full m (tag t) st input with
      | .error err => .error err
      | .ok (st, input) => visitImpl.tupLoop v full m f (tagList ts) st input := by
  rw [tagList_cons, visitImpl.tupLoop, tagPop_tag t ht]
  simp only [tag_isEmpty, Bool.false_eq_true, if_false]
  rfl

/-! ### variants -/

def nthTy : List Ty → Nat → Ty
  | [], _ => .null
  | t :: _, 0 => t
  | _ :: ts, i + 1 => nthTy ts i

theorem popN_tagList (l : List Nat) (alts : List Ty) (h : ∀ t ∈ alts, TyOkN t = true) :
    l.foldl (fun t _ => (tagPop t).2) (tagList alts) = tagList (alts.drop l.length) := by
  induction l generalizing alts with
  | nil => simp
  | cons x l ih =>
    cases alts with
    | nil =>
      have := ih [] (by simp)
      simp only [List.drop_nil] at this
      simp only [List.foldl_cons, tagList_nil, tagPop_nil, List.drop_nil]
      rw [← tagList_nil]; exact this
    | cons a alts =>
      simp only [List.foldl_cons, List.length_cons, List.drop_succ_cons]
      rw [tagList_cons, tagPop_tag a (h a (by simp))]
      exact ih alts (fun t ht => h t (by simp [ht]))

theorem optTag_nth (alts : List Ty) (i : Nat) (h : ∀ t ∈ alts, TyOkN t = true) (hi : i < alts.length) :
    (tagPop (tagList (alts.drop i))).1 = tag (nthTy alts i) := by
  induction alts generalizing i with
  | nil => simp at hi
  | cons a alts ih =>
    cases i with
    | zero => simp only [List.drop_zero, nthTy]; rw [tagList_cons, tagPop_tag a (h a (by simp))]
    | succ i =>
      simp only [List.drop_succ_cons, nthTy]
      exact ih i (fun t ht => h t (by simp [ht])) (by simpa using hi)

theorem visitImpl_var (m : Nat) (alts : List Ty) (h : ∀ t ∈ alts, TyOkN t = true) (st : σ) (input : Bytes) :
    visitImpl v full (m + 1) (tag (.var alts)) st input =
      match readU 1 input with
      | .error err => .error err
      | .ok (disc, input) =>
        match v.handle st (.varBegin disc (tagPop (tagList (alts.drop disc))).1) input with
        | .error err => .error err
        | .ok (st, skip, input) =>
          if skip then .ok (st, input) else
          match (if (tagPop (tagList (alts.drop disc))).1 = [cZero] then
              match v.handle st .null input with
              | .error err => .error err
              | .ok (st, _, input) => .ok (st, input)
            else visitImpl v full m (tagPop (tagList (alts.drop disc))).1 st input) with
          | .error err => .error err
          | .ok (st, input) =>
            match v.handle st .varEnd input with
            | .error err => .error err
            | .ok (st, _, input) => .ok (st, input) := by
  have h1 : ¬ cLt = cLBrack := by decide
  have h2 : ¬ cLt = cLParen := by decide
  rw [tag_var, visitImpl]
  simp only [h1, h2, if_false, if_true, List.drop_succ_cons, List.drop_zero, removeSuffix_snoc]
  cases readU 1 input with
  | error err => rfl
  | ok p =>
    obtain ⟨disc, input⟩ := p
    dsimp only
    have := popN_tagList (List.range disc) alts h
    rw [List.length_range] at this
    rw [this]
    rfl

/-! ### structs -/

theorem visitImpl_struct (m : Nat) (n : Bytes) (fs : List (Bytes × Ty)) (hn : NameOk n = true)
    (hes : fs = [] → resolveRecursiveTag full (cLBrace :: n) = []) (st : σ) (input : Bytes) :
    visitImpl v full (m + 1) (tag (.struct n fs)) st input =
      match v.handle st (.structBegin n (tagFields fs)) input with
      | .error err => .error err
      | .ok (st, skip, input) =>
        if skip then .ok (st, input) else
        match visitImpl.fieldLoop v full m ((tagFields fs).length + 1) (tagFields fs) st input with
        | .error err => .error err
        | .ok (st, input) =>
          match v.handle st .structEnd input with
          | .error err => .error err
          | .ok (st, _, input) => .ok (st, input) := by
  have h1 : ¬ cLBrace = cLBrack := by decide
  have h2 : ¬ cLBrace = cLParen := by decide
  have h3 : ¬ cLBrace = cLt := by decide
  rw [tag_struct, visitImpl]
  simp only [h1, h2, h3, if_false, if_true, removeSuffix_cons_snoc,
    removePrefixBefore_intro n fs (Plain.of_nameOk hn), List.drop_succ_cons, List.drop_zero]
  have : (if (tagFields fs).isEmpty = true then resolveRecursiveTag full (cLBrace :: n) else tagFields fs)
      = tagFields fs := by
    cases fs with
    | nil => simp [tagFields_nil, hes rfl]
    | cons a fs => obtain ⟨x, t⟩ := a; simp [tagFields_cons]
  rw [this]
  rfl

theorem fieldLoop_nil (m f : Nat) (st : σ) (input : Bytes) :
    visitImpl.fieldLoop v full m f (tagFields []) st input = .ok (st, input) := by
  cases f <;> simp [visitImpl.fieldLoop, tagFields_nil]

theorem fieldLoop_cons (m f : Nat) (n : Bytes) (t : Ty) (fs : List (Bytes × Ty)) (hn : NameOk n = true)
    (ht : TyOkN t = true) (st : σ) (input : Bytes) :
    visitImpl.fieldLoop v full m (f + 1) (tagFields ((n, t) :: fs)) st input =
      match v.handle st (.fieldBegin n (tag t)) input with
      | .error err => .error err
      | .ok (st, _, input) =>
        match visitImpl v full m (tag t) st input with
        | .error err => .error err
        | .ok (st, input) =>
          match v.handle st .fieldEnd input with
          | .error err => .error err
          | .ok (st, _, input) => visitImpl.fieldLoop v full m f (tagFields fs) st input := by
  rw [tagFields_cons, visitImpl.fieldLoop]
  simp only [List.isEmpty_cons, Bool.false_eq_true, if_false, tagPopLabel_label n _ (Plain.of_nameOk hn),
    tagPop_tag t ht]
  rfl

/-! ### enums -/

theorem visitImpl_enum (m : Nat) (u : UInt8) (n : Bytes) (ens : List (Bytes × Bytes)) (sz : Nat)
    (hu : arithSize u = some sz) (hn : NameOk n = true) (hens : EnumsOk ens = true) (hnb : u ≠ 121) (st : σ) (input : Bytes) :
    visitImpl v full (m + 1) (tag (.enum u n ens)) st input =
      match readU sz input with
      | .error err => .error err
      | .ok (raw, input) =>
        match v.handle st (.enum n (lookupEnumerator (integerToHex u raw) ens) u (integerToHex u raw)) input with
        | .error err => .error err
        | .ok (st, _, input) => .ok (st, input) := by
  have h1 : ¬ cSlash = cLBrack := by decide
  have h2 : ¬ cSlash = cLParen := by decide
  have h3 : ¬ cSlash = cLt := by decide
  have h4 : ¬ cSlash = cLBrace := by decide
  rw [tag_enum, visitImpl]
  simp only [h1, h2, h3, h4, if_false, if_true, List.drop_succ_cons, List.drop_zero, removeSuffix_snoc, hu]
  cases readU sz input with
  | error err => rfl
  | ok p =>
    obtain ⟨raw, input⟩ := p
    dsimp only
    have hq : cQuote ∉ n := (Plain.of_nameOk hn).not_mem.2.1
    have : removePrefixBefore (n ++ cQuote :: tagEnums ens) cQuote = (n, cQuote :: tagEnums ens) := by
      simp [removePrefixBefore, findPos_append n cQuote hq]
    rw [this]
    dsimp only
    have e := enum_lookup _ (integerToHex_plain u raw hnb) ens hens
    generalize findSub (cQuote :: tagEnums ens) ([cQuote] ++ integerToHex u raw ++ [cBacktick]) = r at e ⊢
    cases r with
    | none => dsimp only at e ⊢; rw [← e]; rfl
    | some pos => dsimp only at e ⊢; rw [← e]; rfl

end BinlogVerif.Mser
