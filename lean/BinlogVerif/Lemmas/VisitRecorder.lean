import BinlogVerif.Lemmas.VisitUnfold
/-
  The recording visitor sees exactly `events t v` and consumes exactly `encode t v`.
-/
namespace BinlogVerif.Mser
open BinlogVerif BinlogVerif.Tag BinlogVerif.Visit

theorem recorder_handle (st : List Ev) (ev : Ev) (input : Bytes) :
    recorder.handle st ev input = .ok (st ++ [ev], false, input) := rfl

theorem tag_ne_zero (t : Ty) (h : TyOk t = true) : tag t ≠ [cZero] := by
  cases t with
  | arith c =>
    simp only [TyOk] at h
    rw [tag_arith]; intro e
    simp only [List.cons.injEq, and_true] at e
    exact (arith_charOk h).2 e
  | null => simp [TyOk] at h
  | seq e => rw [tag_seq]; intro e; simp only [List.cons.injEq] at e; exact absurd e.1 (by decide)
  | tup es => rw [tag_tup]; intro e; simp only [List.cons.injEq] at e; exact absurd e.1 (by decide)
  | var es => rw [tag_var]; intro e; simp only [List.cons.injEq] at e; exact absurd e.1 (by decide)
  | enum u n ens => rw [tag_enum]; intro e; simp only [List.cons.injEq] at e; exact absurd e.1 (by decide)
  | struct n fs => rw [tag_struct]; intro e; simp only [List.cons.injEq] at e; exact absurd e.1 (by decide)

theorem hasTyNth_lt (alts : List Ty) (i : Nat) (v : Val) (h : hasTyNth alts i v = true) : i < alts.length := by
  induction alts generalizing i with
  | nil => simp [hasTyNth] at h
  | cons a alts ih =>
    cases i with
    | zero => simp
    | succ i => simp only [hasTyNth] at h; have := ih i h; simp; omega

theorem eventsNth_eq (alts : List Ty) (disc i : Nat) (v : Val) (h : i < alts.length) :
    eventsNth alts disc i v
      = [Ev.varBegin disc (tag (nthTy alts i))] ++ events (nthTy alts i) v ++ [Ev.varEnd] := by
  induction alts generalizing i with
  | nil => simp at h
  | cons a alts ih =>
    cases i with
    | zero => simp [eventsNth, nthTy]
    | succ i => simp only [eventsNth, nthTy]; exact ih i (by simpa using h)

theorem events_seq (e : Ty) (vs : List Val) :
    events (.seq e) (.seq vs) = [Ev.seqBegin vs.length (tag e)] ++
      (if vs.length > repeatThreshold ∧ singularTy e = true then
        (match vs with
         | v :: _ => [Ev.repeatBegin vs.length (tag e)] ++ events e v ++ [Ev.repeatEnd vs.length (tag e)]
         | [] => [])
       else eventsAll e vs) ++ [Ev.seqEnd] := by
  cases vs with
  | nil => simp [events, repeatThreshold]
  | cons v vs =>
    rw [events]
    by_cases hc : (v :: vs).length > repeatThreshold ∧ singularTy e = true
    · have hc' : (decide ((v :: vs).length > repeatThreshold) && singularTy e) = true := by
        rw [Bool.and_eq_true, decide_eq_true_eq]; exact hc
      rw [if_pos hc, if_pos hc']
    · have hc' : ¬ (decide ((v :: vs).length > repeatThreshold) && singularTy e) = true := by
        rw [Bool.and_eq_true, decide_eq_true_eq]; exact hc
      rw [if_neg hc, if_neg hc']

variable (full : Bytes)

mutual
theorem visit_tag (t : Ty) (v : Val) (m : Nat) (acc : List Ev) (rest : Bytes)
    (h : TyOk t = true) (hv : hasTy t v = true) (hd : depth t < m)
    (he : ESNames full (emptyStructNames t)) :
    visitImpl recorder full m (tag t) acc (encode t v ++ rest) = .ok (acc ++ events t v, rest) := by
  obtain ⟨m, rfl⟩ : ∃ k, m = k + 1 := ⟨m - 1, by omega⟩
  match t, v with
  | .arith c, .num raw =>
    simp only [TyOk] at h
    simp only [hasTy] at hv
    rw [visitImpl_arith _ _ _ _ h]
    cases hs : arithSize c with
    | none => simp [hs] at h
    | some sz =>
      simp only [hs, decide_eq_true_eq] at hv
      simp only [visitArith, encode, hs, Option.getD_some, readU_le_append sz raw rest hv, recorder_handle,
        events]
  | .seq e, .seq vs =>
    simp only [TyOk] at h
    simp only [hasTy, Bool.and_eq_true, decide_eq_true_eq] at hv
    simp only [depth] at hd
    simp only [emptyStructNames] at he
    rw [visitImpl_seq _ _ _ _ h (by omega) he]
    simp only [encode, List.append_assoc, readU_le_append 4 vs.length _ (by simpa using hv.2), recorder_handle,
      Bool.false_eq_true, if_false, seqBody, events_seq]
    by_cases hc : vs.length > repeatThreshold ∧ singularTy e = true
    · rw [if_pos hc, if_pos hc]
      match vs, hv, hc with
      | [], _, hc => simp [repeatThreshold] at hc
      | v0 :: vs', hv, hc =>
        simp only [hasTyAll, Bool.and_eq_true] at hv
        have hz : encodeAll e (v0 :: vs') = [] := encodeAll_singular e _ hc.2
        have h0 : encode e v0 = [] := encode_singular e v0 hc.2
        have ih := visit_tag e v0 m (acc ++ [Ev.seqBegin (v0 :: vs').length (tag e)]
          ++ [Ev.repeatBegin (v0 :: vs').length (tag e)]) rest h hv.1.1 (by omega) he
        rw [h0, List.nil_append] at ih
        simp only [List.append_assoc] at ih
        simp only [hz, List.nil_append, ih, List.append_assoc]
    · rw [if_neg hc, if_neg hc]
      rw [visit_all e vs m _ rest h hv.1 (by omega) he]
      simp only [List.append_assoc]
  | .tup es, .tup vs =>
    simp only [TyOk] at h
    simp only [hasTy] at hv
    simp only [depth] at hd
    simp only [emptyStructNames] at he
    rw [visitImpl_tup]
    simp only [recorder_handle, Bool.false_eq_true, if_false, encode]
    rw [visit_list es vs m _ _ rest (by have := length_le_tagList es; omega) h hv (by omega) he]
    simp only [events, List.append_assoc]
  | .var alts, .alt i v =>
    simp only [TyOk, Bool.and_eq_true, decide_eq_true_eq] at h
    simp only [hasTy, Bool.and_eq_true, decide_eq_true_eq] at hv
    simp only [depth] at hd
    simp only [emptyStructNames] at he
    have hi := hasTyNth_lt alts i v hv.2
    rw [visitImpl_var _ _ _ _ (tyOkAlts_forall h.2)]
    simp only [encode, List.append_assoc, readU_le_append 1 i _ (by simpa using hv.1), recorder_handle,
      Bool.false_eq_true, if_false, optTag_nth alts i (tyOkAlts_forall h.2) hi]
    have ih := visit_nth alts i v m (acc ++ [Ev.varBegin i (tag (nthTy alts i))]) rest
      (tyOkAlts_forall h.2) hv.2 (by omega) he
    simp only [List.append_assoc] at ih
    rw [ih]
    simp only [events, eventsNth_eq alts i i v hi, List.append_assoc]
  | .enum u n ens, .num raw =>
    simp only [TyOk, Bool.and_eq_true] at h
    simp only [hasTy] at hv
    cases hs : arithSize u with
    | none => simp [hs] at hv
    | some sz =>
      simp only [hs, decide_eq_true_eq] at hv
      rw [visitImpl_enum _ _ _ _ _ _ sz hs h.1.1.2 h.1.2 (by simpa using h.2)]
      simp only [encode, hs, Option.getD_some, readU_le_append sz raw rest hv, recorder_handle, events]
  | .struct n fs, .tup vs =>
    simp only [TyOk, Bool.and_eq_true] at h
    simp only [hasTy] at hv
    simp only [depth] at hd
    simp only [emptyStructNames, ESNames.append_iff] at he
    rw [visitImpl_struct _ _ _ _ _ h.1 (fun e => he.1 n (by simp [e]))]
    simp only [recorder_handle, Bool.false_eq_true, if_false, encode]
    rw [visit_fields fs vs m _ _ rest (by have := length_le_tagFields fs; omega) h.2 hv
      (by cases fs <;> first | exact .inr rfl | (left; omega)) he.2]
    simp only [events, List.append_assoc]
  | .null, _ => simp [TyOk] at h
  | .arith _, .seq _ | .arith _, .tup _ | .arith _, .alt _ _ | .arith _, .nul => simp [hasTy] at hv
  | .seq _, .num _ | .seq _, .tup _ | .seq _, .alt _ _ | .seq _, .nul => simp [hasTy] at hv
  | .tup _, .num _ | .tup _, .seq _ | .tup _, .alt _ _ | .tup _, .nul => simp [hasTy] at hv
  | .var _, .num _ | .var _, .seq _ | .var _, .tup _ | .var _, .nul => simp [hasTy] at hv
  | .enum _ _ _, .seq _ | .enum _ _ _, .tup _ | .enum _ _ _, .alt _ _ | .enum _ _ _, .nul => simp [hasTy] at hv
  | .struct _ _, .num _ | .struct _ _, .seq _ | .struct _ _, .alt _ _ | .struct _ _, .nul => simp [hasTy] at hv
termination_by (m, 0)
theorem visit_all (e : Ty) (vs : List Val) (m : Nat) (acc : List Ev) (rest : Bytes)
    (h : TyOk e = true) (hv : hasTyAll e vs = true) (hd : depth e < m)
    (he : ESNames full (emptyStructNames e)) :
    loopN (fun (p : List Ev × Bytes) => visitImpl recorder full m (tag e) p.1 p.2) vs.length
      (acc, encodeAll e vs ++ rest) = .ok (acc ++ eventsAll e vs, rest) := by
  match vs with
  | [] => simp [loopN, encodeAll, eventsAll]
  | v :: vs =>
    simp only [hasTyAll, Bool.and_eq_true] at hv
    simp only [List.length_cons, loopN, encodeAll, List.append_assoc]
    rw [visit_tag e v m acc _ h hv.1 hd he]
    dsimp only
    rw [visit_all e vs m _ rest h hv.2 hd he]
    simp only [eventsAll, List.append_assoc]
termination_by (m, vs.length + 1)
theorem visit_list (es : List Ty) (vs : List Val) (m f : Nat) (acc : List Ev) (rest : Bytes)
    (hf : es.length < f) (h : TyOkList es = true) (hv : hasTyList es vs = true)
    (hd : depthList es < m) (he : ESNames full (emptyStructNamesList es)) :
    visitImpl.tupLoop recorder full m f (tagList es) acc (encodeList es vs ++ rest)
      = .ok (acc ++ eventsList es vs, rest) := by
  obtain ⟨f, rfl⟩ : ∃ k, f = k + 1 := ⟨f - 1, by omega⟩
  match es, vs with
  | [], [] => simp [tupLoop_nil, encodeList, eventsList]
  | t :: ts, v :: vs =>
    simp only [TyOkList, Bool.and_eq_true] at h
    simp only [hasTyList, Bool.and_eq_true] at hv
    simp only [emptyStructNamesList, ESNames.append_iff] at he
    rw [depthList_cons] at hd
    simp only [List.length_cons] at hf
    rw [tupLoop_cons _ _ _ _ _ _ (TyOkN.of_tyOk h.1)]
    simp only [encodeList, List.append_assoc]
    rw [visit_tag t v m acc _ h.1 hv.1 (by omega) he.1]
    dsimp only
    rw [visit_list ts vs m f _ rest (by omega) h.2 hv.2 (by omega) he.2]
    simp only [eventsList, List.append_assoc]
  | [], _ :: _ => simp [hasTyList] at hv
  | _ :: _, [] => simp [hasTyList] at hv
termination_by (m, f)
theorem visit_fields (fs : List (Bytes × Ty)) (vs : List Val) (m f : Nat) (acc : List Ev) (rest : Bytes)
    (hf : fs.length < f) (h : TyOkFields fs = true) (hv : hasTyFields fs vs = true)
    (hd : depthFields fs < m ∨ fs = []) (he : ESNames full (emptyStructNamesFields fs)) :
    visitImpl.fieldLoop recorder full m f (tagFields fs) acc (encodeFields fs vs ++ rest)
      = .ok (acc ++ eventsFields fs vs, rest) := by
  obtain ⟨f, rfl⟩ : ∃ k, f = k + 1 := ⟨f - 1, by omega⟩
  match fs, vs with
  | [], [] => simp [fieldLoop_nil, encodeFields, eventsFields]
  | (n, t) :: fs, v :: vs =>
    simp only [TyOkFields, Bool.and_eq_true] at h
    simp only [hasTyFields, Bool.and_eq_true] at hv
    simp only [emptyStructNamesFields, ESNames.append_iff] at he
    have hd' : depth t < m ∧ (depthFields fs < m ∨ fs = []) := by
      rcases hd with hd | hd
      · rw [depthFields_cons] at hd; omega
      · cases hd
    simp only [List.length_cons] at hf
    rw [fieldLoop_cons _ _ _ _ _ _ _ h.1.1 (TyOkN.of_tyOk h.1.2)]
    simp only [encodeFields, List.append_assoc, recorder_handle]
    rw [visit_tag t v m _ _ h.1.2 hv.1 hd'.1 he.1]
    dsimp only
    rw [visit_fields fs vs m f _ rest (by omega) h.2 hv.2 hd'.2 he.2]
    simp only [eventsFields, List.append_assoc, List.cons_append, List.nil_append]
  | [], _ :: _ => simp [hasTyFields] at hv
  | _ :: _, [] => simp [hasTyFields] at hv
termination_by (m, f)
theorem visit_nth (alts : List Ty) (i : Nat) (v : Val) (m : Nat) (acc : List Ev) (rest : Bytes)
    (h : ∀ t ∈ alts, TyOkN t = true) (hv : hasTyNth alts i v = true)
    (hd : depthList alts < m) (he : ESNames full (emptyStructNamesList alts)) :
    (if tag (nthTy alts i) = [cZero] then (.ok (acc ++ [Ev.null], encodeNth alts i v ++ rest) : Outcome _)
      else visitImpl recorder full m (tag (nthTy alts i)) acc (encodeNth alts i v ++ rest))
      = .ok (acc ++ events (nthTy alts i) v, rest) := by
  match alts, i with
  | [], _ => simp [hasTyNth] at hv
  | t :: ts, 0 =>
    simp only [hasTyNth] at hv
    simp only [emptyStructNamesList, ESNames.append_iff] at he
    rw [depthList_cons] at hd
    simp only [nthTy, encodeNth]
    have ht := h t (by simp)
    simp only [TyOkN, Bool.or_eq_true] at ht
    by_cases hn : isNull t = true
    · cases t <;> simp [isNull] at hn
      cases v <;> simp [hasTy] at hv
      simp [tag_null, encode, events]
    · have ht' : TyOk t = true := by rcases ht with ht | ht; exact absurd ht hn; exact ht
      rw [if_neg (tag_ne_zero t ht')]
      exact visit_tag t v m acc rest ht' hv (by omega) he.1
  | t :: ts, i + 1 =>
    simp only [hasTyNth] at hv
    simp only [emptyStructNamesList, ESNames.append_iff] at he
    rw [depthList_cons] at hd
    simp only [nthTy, encodeNth]
    exact visit_nth ts i v m acc rest (fun x hx => h x (by simp [hx])) hv (by omega) he.2
termination_by (m, alts.length + 1)
end

end BinlogVerif.Mser
