import BinlogVerif.Lemmas.QueueMain
/-
  What a consumer poll returns, in terms of the commit log: the link between the L0 queue model and the
  abstract FIFO-of-whole-commits that the L1 session model (Conc/Session.lean) uses for a channel.
-/
namespace BinlogVerif.Q

theorem cReadCell_logs (s : St) (x : Nat) :
    (cReadCell s x).1.wHist = s.wHist ∧ (cReadCell s x).1.commits = s.commits ∧
    (cReadCell s x).1.delivered = s.delivered := by
  unfold cReadCell
  dsimp only
  split <;> simp [flag_fields]

theorem cReadRange_logs (n : Nat) : ∀ (s : St) (lo : Nat),
    (cReadRange s lo n).1.wHist = s.wHist ∧ (cReadRange s lo n).1.commits = s.commits ∧
    (cReadRange s lo n).1.delivered = s.delivered := by
  induction n with
  | zero => intro s lo; exact ⟨rfl, rfl, rfl⟩
  | succ n ih =>
    intro s lo
    have h1 := cReadCell_logs s lo
    have h2 := ih (cReadCell s lo).1 (lo + 1)
    simp only [cReadRange]
    exact ⟨h2.1.trans h1.1, h2.2.1.trans h1.2.1, h2.2.2.trans h1.2.2⟩

theorem cEndRead_logs (s : St) :
    (cEndRead s).wHist = s.wHist ∧ (cEndRead s).commits = s.commits ∧ (cEndRead s).delivered = s.delivered := by
  unfold cEndRead
  dsimp only
  split <;> simp [flag_fields]

theorem cView_logs (o : Orders) (s : St) (i : Nat) (m : Msg) :
    (cView o s i m).wHist = s.wHist ∧ (cView o s i m).commits = s.commits ∧ (cView o s i m).delivered = s.delivered :=
  ⟨rfl, rfl, rfl⟩

/-- `beginRead` changes neither index history nor the logs -/
theorem cBegin_logs (o : Orders) (s s' : St) (i : Nat) (e : step o s (Op.cBegin i) = some s') :
    s'.wHist = s.wHist ∧ s'.commits = s.commits ∧ s'.delivered = s.delivered := by
  obtain ⟨hc, m, hm⟩ := cBegin_guards o s s' i e
  rw [step_cBegin o s i m hc hm] at e
  dsimp only at e
  have v := cView_logs o s i m
  have r := cEndRead_logs (cView o s i m)
  repeat' split at e
  all_goals cases e
  · have a := cReadRange_logs (m.val - (cView o s i m).cR) (cView o s i m) (cView o s i m).cR
    exact ⟨a.1.trans v.1, a.2.1.trans v.2.1, a.2.2.trans v.2.2⟩
  · have f := flag_fields (cEndRead (cView o s i m)) RaceKind.endOverCap
    exact ⟨f.2.1.trans (r.1.trans v.1), f.2.2.2.2.1.trans (r.2.1.trans v.2.1), f.2.2.2.2.2.1.trans (r.2.2.trans v.2.2)⟩
  · have a := cReadRange_logs ((cEndRead (cView o s i m)).E - (cView o s i m).cR) (cEndRead (cView o s i m)) (cView o s i m).cR
    have b := cReadRange_logs m.val (cReadRange (cEndRead (cView o s i m)) (cView o s i m).cR ((cEndRead (cView o s i m)).E - (cView o s i m).cR)).1 0
    exact ⟨b.1.trans (a.1.trans (r.1.trans v.1)), b.2.1.trans (a.2.1.trans (r.2.1.trans v.2.1)), b.2.2.trans (a.2.2.trans (r.2.2.trans v.2.2))⟩
  · have a := cReadRange_logs m.val (cEndRead (cView o s i m)) 0
    exact ⟨a.1.trans (r.1.trans v.1), a.2.1.trans (r.2.1.trans v.2.1), a.2.2.trans (r.2.2.trans v.2.2)⟩

theorem range'_split (a b : Nat) (h1 : 1 ≤ a) (h2 : a ≤ b) :
    List.range' 1 (a - 1) ++ List.range' a (b - a) = List.range' 1 (b - 1) := by
  have := List.range'_append (s := 1) (m := a - 1) (n := b - a) (step := 1)
  rw [show 1 + 1 * (a - 1) = a by omega, show a - 1 + (b - a) = b - 1 by omega] at this
  exact this

/-- **what a poll returns**: after `beginRead` has read W message `i`, the bytes delivered before followed by the
    returned batch are exactly the first `i` commits -/
theorem cBegin_prefix (o : Orders) (ho : o.Sufficient) (s s' : St) (h : Inv s) (i : Nat)
    (e : step o s (Op.cBegin i) = some s') :
    s'.delivered.flatten ++ s'.batch = (s'.commits.take i).flatten := by
  obtain ⟨h', e1, e2, m, hm, e3, e4⟩ := cBegin_post o ho s s' h i e
  obtain ⟨l1, l2, l3⟩ := cBegin_logs o s s' i e
  have g4 := (h'.g4 i m (by rw [l1]; exact hm)).2
  have tokle : s'.cBase + s'.cR ≤ s'.rdBase + s'.readEnd := by
    gr [h'.geo, h'.g2a, h'.g2b, h'.g2c, h'.g2d]
  rw [h'.g7, h'.g9, g4, ← e3, ← e4]
  exact range'_split _ _ (by have := h'.g1c; omega) tokle

/-- `endRead` appends the batch to what was delivered (an empty batch adds nothing) and touches no commit -/
theorem cEnd_logs (o : Orders) (s s' : St) (e : step o s Op.cEnd = some s') :
    s'.delivered.flatten = s.delivered.flatten ++ s.batch ∧ s'.commits = s.commits ∧ s'.wHist = s.wHist := by
  simp only [step, Option.some.injEq] at e
  subst e
  refine ⟨?_, rfl, rfl⟩
  dsimp only
  split
  · rename_i hb
    have : s.batch = [] := by simpa using hb
    simp [this]
  · simp

end BinlogVerif.Q
