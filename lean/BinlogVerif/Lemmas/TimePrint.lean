import BinlogVerif.Lemmas.TimeArith
/-
  Printing lemmas for C17: decimal digits, `printTwoDigits`, `printNineDigits`,
  `printTimeZoneOffset`, `printTimeField`, `printTime`.
-/
deriving instance DecidableEq for Except

namespace BinlogVerif.Time
open BinlogVerif

/-! ### decimal digits -/

theorem natDigits_fuel (f1 : Nat) : ∀ (f2 n : Nat), n < f1 → n < f2 →
    natDigits f1 n = natDigits f2 n := by
  induction f1 with
  | zero => intro f2 n h; omega
  | succ f1 ih =>
    intro f2 n h1 h2
    cases f2 with
    | zero => omega
    | succ f2 =>
      simp only [natDigits]
      split
      · rfl
      · rw [ih f2 (n / 10) (by omega) (by omega)]

theorem decNat_lt10 (n : Nat) (h : n < 10) : decNat n = [UInt8.ofNat (48 + n)] := by
  simp [decNat, natDigits, h]

theorem decNat_step (n : Nat) (h : 10 ≤ n) :
    decNat n = decNat (n / 10) ++ [UInt8.ofNat (48 + n % 10)] := by
  have hn : ¬ n < 10 := by omega
  have e : natDigits (n + 1) n = natDigits n (n / 10) ++ [UInt8.ofNat (48 + n % 10)] := by
    simp [natDigits, hn]
  unfold decNat
  rw [e, natDigits_fuel n (n / 10 + 1) (n / 10) (by omega) (by omega)]

/-- `w` decimal digits of `n`, least significant last -/
def fixedDigits : Nat → Nat → Bytes
  | 0, _ => []
  | w + 1, n => fixedDigits w (n / 10) ++ [UInt8.ofNat (48 + n % 10)]

theorem fixedDigits_zero (w : Nat) : fixedDigits w 0 = List.replicate w (48 : UInt8) := by
  induction w with
  | zero => rfl
  | succ w ih =>
    simp only [fixedDigits, Nat.zero_div, ih, Nat.zero_mod, Nat.add_zero]
    rw [List.replicate_succ']
    rfl

theorem pad_decNat (w : Nat) : ∀ n, n < 10 ^ (w + 1) →
    List.replicate (w + 1 - (decNat n).length) (48 : UInt8) ++ decNat n = fixedDigits (w + 1) n := by
  induction w with
  | zero =>
    intro n h
    have h' : n < 10 := by simpa using h
    have : n % 10 = n := by omega
    simp [decNat_lt10 n h', fixedDigits, this]
  | succ w ih =>
    intro n h
    by_cases h10 : n < 10
    · have e1 : n / 10 = 0 := by omega
      have e2 : n % 10 = n := by omega
      rw [decNat_lt10 n h10]
      simp only [fixedDigits, e1, e2]
      have := fixedDigits_zero w
      simp only [List.length_singleton, Nat.add_sub_cancel]
      rw [List.replicate_succ']
      simp [fixedDigits_zero]
    · have hn : 10 ≤ n := by omega
      have hlt : n / 10 < 10 ^ (w + 1) := by
        rw [Nat.pow_succ] at h; omega
      rw [decNat_step n hn]
      have := ih (n / 10) hlt
      simp only [List.length_append, List.length_singleton, Nat.add_sub_add_right]
      rw [← List.append_assoc, this]
      rfl

theorem fixedDigits9 (n : Nat) : fixedDigits 9 n = dig9 n := by
  simp only [fixedDigits, dig9, List.nil_append, List.cons_append]
  have e1 : n / 10 / 10 = n / 100 := by omega
  have e2 : n / 100 / 10 = n / 1000 := by omega
  have e3 : n / 1000 / 10 = n / 10000 := by omega
  have e4 : n / 10000 / 10 = n / 100000 := by omega
  have e5 : n / 100000 / 10 = n / 1000000 := by omega
  have e6 : n / 1000000 / 10 = n / 10000000 := by omega
  have e7 : n / 10000000 / 10 = n / 100000000 := by omega
  simp only [e1, e2, e3, e4, e5, e6, e7]

theorem fmt9d_nat (n : Nat) (h : n < 1000000000) : fmt9d (n : Int) = dig9 n := by
  have hneg : ¬ ((n : Int) < 0) := by omega
  simp only [fmt9d, hneg, if_false, Int.natAbs_natCast]
  rw [pad_decNat 8 n (by simpa using h), fixedDigits9]
  rfl

theorem printNineDigits_nat (n : Nat) (h : n < 1000000000) :
    printNineDigits (n : Int) = .ok (dig9 n) := by
  simp only [printNineDigits, fmt9d_nat n h]
  rfl

theorem decNat_4 (n : Nat) (h0 : 1000 ≤ n) (h1 : n ≤ 9999) : decNat n = dig4 n := by
  rw [decNat_step n (by omega), decNat_step (n / 10) (by omega), decNat_step (n / 10 / 10) (by omega),
    decNat_lt10 (n / 10 / 10 / 10) (by omega)]
  have e1 : n / 10 / 10 = n / 100 := by omega
  have e2 : n / 100 / 10 = n / 1000 := by omega
  have e3 : n / 1000 = n / 1000 % 10 := by omega
  simp only [e1, e2, dig4, List.cons_append, List.nil_append]
  rw [← e3]

/-! ### printTwoDigits -/

theorem printTwoDigits_nat (n : Nat) (h : n < 100) : printTwoDigits (n : Int) = .ok (dig2 n) := by
  have h1 : (0 : Int) ≤ n ∧ (n : Int) < 100 := by omega
  simp only [printTwoDigits, h1, and_self, if_true, dig2, chr]
  rw [tmod_nonneg _ _ h1.1, tdiv_nonneg _ _ (by omega)]
  have e1 : ((48 + ((n : Int) - (n : Int) % 10) / 10) % 256).toNat = 48 + n / 10 % 10 := by omega
  have e2 : ((48 + (n : Int) % 10) % 256).toNat = 48 + n % 10 := by omega
  rw [e1, e2]

theorem printTwoDigits_ok (i : Int) (h0 : 0 ≤ i) (h1 : i < 100) :
    printTwoDigits i = .ok (dig2 i.toNat) := by
  have e : i = (i.toNat : Int) := by omega
  have := printTwoDigits_nat i.toNat (by omega)
  rw [← e] at this
  exact this

/-! ### printTimeZoneOffset -/

/-- `printTimeZoneOffset` never fails, whatever the `int` -/
theorem printTimeZoneOffset_total (s : Int) : ∃ h m : Nat,
    printTimeZoneOffset s = .ok ((if s ≥ 0 then 43 else 45) :: (dig2 h ++ dig2 m)) := by
  simp only [printTimeZoneOffset]
  generalize (if s ≥ 0 then (s % 4294967296).toNat
    else (4294967296 - (s % 4294967296).toNat) % 4294967296) = psecs
  generalize hm : (psecs / 60 + 4294967296 - 60 * (psecs / 3600) % 4294967296) % 4294967296 = mins
  refine ⟨if psecs / 3600 < 100 then psecs / 3600 else 0, if mins < 100 then mins else 0, ?_⟩
  have a : (if psecs / 3600 < 100 then ((psecs / 3600 : Nat) : Int) else 0)
      = ((if psecs / 3600 < 100 then psecs / 3600 else 0 : Nat) : Int) := by split <;> simp
  have b : (if mins < 100 then (mins : Int) else 0)
      = ((if mins < 100 then mins else 0 : Nat) : Int) := by split <;> simp
  rw [a, b, printTwoDigits_nat _ (by split <;> omega), printTwoDigits_nat _ (by split <;> omega)]
  rfl

theorem printTimeZoneOffset_small (s : Int) (h0 : -360000 < s) (h1 : s < 360000) :
    printTimeZoneOffset s = .ok ((if s ≥ 0 then 43 else 45) ::
      (dig2 (s.natAbs / 3600) ++ dig2 (s.natAbs / 60 % 60))) := by
  simp only [printTimeZoneOffset]
  have hp : (if s ≥ 0 then (s % 4294967296).toNat
      else (4294967296 - (s % 4294967296).toNat) % 4294967296) = s.natAbs := by
    split <;> omega
  rw [hp]
  have hpb : s.natAbs < 360000 := by omega
  generalize s.natAbs = p at *
  have hm : (p / 60 + 4294967296 - 60 * (p / 3600) % 4294967296) % 4294967296 = p / 60 % 60 := by
    omega
  rw [hm]
  have a : p / 3600 < 100 := by omega
  have b : p / 60 % 60 < 100 := by omega
  simp only [a, b, if_true]
  rw [printTwoDigits_nat _ a, printTwoDigits_nat _ b]
  rfl

/-! ### printTimeField -/

/-- `((tm_year % 100) + 100) % 100` with truncating `%` is always a valid two-digit argument and
    equals the floor remainder -/
theorem yy_arg (t : Int) : Int.tmod (Int.tmod t 100 + 100) 100 = t % 100 := by
  by_cases h : 0 ≤ t
  · rw [tmod_nonneg t 100 h, tmod_nonneg _ 100 (by omega)]; omega
  · rw [tmod_neg t 100 (by omega), tmod_nonneg _ 100 (by omega)]; omega

/-- fields small enough for `printTwoDigits` -/
def BDT.TwoDigit (b : BDT) : Prop :=
  b.mon < 100 ∧ b.mday < 100 ∧ b.hour < 100 ∧ b.min < 100 ∧ b.sec < 100

theorem brokenDown_twoDigit (ns : Int) : (brokenDown ns).TwoDigit := by
  obtain ⟨v, h, m, s⟩ := brokenDown_ranges ns
  obtain ⟨_, a, _, b⟩ := validDate_bounds _ _ _ v
  exact ⟨by omega, by omega, by omega, by omega, by omega⟩

/-- `printTimeField` never fails on a broken-down time with two-digit fields -/
theorem printTimeField_total (spec : Char) (b : BDT) (hb : b.TwoDigit) (tz : Int) (name : Bytes) :
    ∃ out, printTimeField spec b tz name = .ok out := by
  obtain ⟨h1, h2, h3, h4, h5⟩ := hb
  unfold printTimeField
  simp only []
  split
  · exact ⟨_, rfl⟩
  · rw [yy_arg]; exact ⟨_, printTwoDigits_ok _ (by omega) (by omega)⟩
  · exact ⟨_, printTwoDigits_nat _ h1⟩
  · exact ⟨_, printTwoDigits_nat _ h2⟩
  · exact ⟨_, printTwoDigits_nat _ h3⟩
  · exact ⟨_, printTwoDigits_nat _ h4⟩
  · exact ⟨_, printTwoDigits_nat _ h5⟩
  · obtain ⟨h, m, e⟩ := printTimeZoneOffset_total tz; exact ⟨_, e⟩
  · exact ⟨_, rfl⟩
  · exact ⟨_, rfl⟩
  · exact ⟨_, rfl⟩

/-! ### printTime -/

theorem printTime_nil (b : BDT) (tz : Int) (name : Bytes) : printTime [] b tz name = .ok [] := rfl

theorem printTime_single (c : UInt8) (b : BDT) (tz : Int) (name : Bytes) :
    printTime [c] b tz name = .ok [c] := rfl

theorem printTime_percent (spec : UInt8) (rest : Bytes) (b : BDT) (tz : Int) (name : Bytes) :
    printTime (37 :: spec :: rest) b tz name =
      (do let a ← printTimeField (Char.ofNat spec.toNat) b tz name
          let r ← printTime rest b tz name
          pure (a ++ r)) := by
  simp [printTime]

theorem printTime_literal (c : UInt8) (hc : c ≠ 37) (c2 : UInt8) (rest : Bytes) (b : BDT) (tz : Int)
    (name : Bytes) :
    printTime (c :: c2 :: rest) b tz name =
      (do let r ← printTime (c2 :: rest) b tz name
          pure (c :: r)) := by
  simp [printTime, hc]

/-- `printTime` never fails on a broken-down time with two-digit fields, whatever the format -/
theorem printTime_total (b : BDT) (hb : b.TwoDigit) (tz : Int) (name : Bytes) :
    ∀ (n : Nat) (fmt : Bytes), fmt.length ≤ n → ∃ out, printTime fmt b tz name = .ok out := by
  intro n
  induction n with
  | zero =>
    intro fmt h
    have : fmt = [] := List.length_eq_zero_iff.mp (by omega)
    subst this; exact ⟨_, rfl⟩
  | succ n ih =>
    intro fmt h
    match fmt, h with
    | [], _ => exact ⟨_, rfl⟩
    | [c], _ => exact ⟨_, rfl⟩
    | c :: spec :: rest, h =>
      simp only [List.length_cons] at h
      by_cases hc : c = 37
      · subst hc
        obtain ⟨a, ha⟩ := printTimeField_total (Char.ofNat spec.toNat) b hb tz name
        obtain ⟨r, hr⟩ := ih rest (by omega)
        exact ⟨a ++ r, by rw [printTime_percent, ha, hr]; rfl⟩
      · obtain ⟨r, hr⟩ := ih (spec :: rest) (by simp only [List.length_cons]; omega)
        exact ⟨c :: r, by rw [printTime_literal c hc, hr]; rfl⟩

end BinlogVerif.Time
