import BinlogVerif.Lemmas.Session
/-
  Preservation of the metadata invariant by every step.
-/
namespace BinlogVerif.Sess
open BinlogVerif

theorem updChan_fields (s : Session) (cid : Nat) (f : Chan → Chan) :
    (updChan s cid f).outputs = s.outputs ∧ (updChan s cid f).nextSourceId = s.nextSourceId ∧
    (updChan s cid f).sources = s.sources ∧ (updChan s cid f).sourcesConsumed = s.sourcesConsumed ∧
    (updChan s cid f).clockSyncs = s.clockSyncs ∧ (updChan s cid f).consumeClockSync = s.consumeClockSync := by
  simp [updChan]

theorem setWriter_fields (s : Session) (w : Nat) (c : Option Nat) :
    (setWriter s w c).outputs = s.outputs ∧ (setWriter s w c).nextSourceId = s.nextSourceId ∧
    (setWriter s w c).sources = s.sources ∧ (setWriter s w c).sourcesConsumed = s.sourcesConsumed ∧
    (setWriter s w c).clockSyncs = s.clockSyncs ∧ (setWriter s w c).consumeClockSync = s.consumeClockSync ∧
    (setWriter s w c).channels = s.channels := by
  simp [setWriter]

theorem newChan_fields (s : Session) (w : Nat) (wp : WriterProp) :
    (newChan s w wp).1.outputs = s.outputs ∧ (newChan s w wp).1.nextSourceId = s.nextSourceId ∧
    (newChan s w wp).1.sources = s.sources ∧ (newChan s w wp).1.sourcesConsumed = s.sourcesConsumed ∧
    (newChan s w wp).1.clockSyncs = s.clockSyncs ∧ (newChan s w wp).1.consumeClockSync = s.consumeClockSync ∧
    (newChan s w wp).1.channels = s.channels ++ [{ cid := s.nextCid, owner := w, wp := wp, entries := [], closed := false, sealed := false }] := by
  simp [newChan]

/-- `MetaInv` is preserved by changing channels only (entries kept or an OK event appended) -/
theorem metaInv_updChan_same (s : Session) (cid : Nat) (f : Chan → Chan) (hf : ∀ c, (f c).entries = c.entries)
    (h : MetaInv s) : MetaInv (updChan s cid f) := by
  obtain ⟨a, b, c, d, e, g⟩ := updChan_fields s cid f
  exact metaInv_of_same h a b c d e g (chanOk_updChan_same s cid f hf h.chans)

theorem metaInv_setWriter (s : Session) (w : Nat) (c : Option Nat) (h : MetaInv s) : MetaInv (setWriter s w c) := by
  obtain ⟨a, b, c', d, e, g, k⟩ := setWriter_fields s w c
  refine metaInv_of_same h a b c' d e g ?_
  rw [k, b]; exact h.chans

theorem metaInv_newChan (s : Session) (w : Nat) (wp : WriterProp) (h : MetaInv s) : MetaInv (newChan s w wp).1 := by
  obtain ⟨a, b, c', d, e, g, k⟩ := newChan_fields s w wp
  refine metaInv_of_same h a b c' d e g ?_
  rw [k, b]
  exact chanOk_append_empty _ rfl h.chans

theorem metaInv_log_append (s : Session) (cid sid clock : Nat) (args : Bytes)
    (hs : 1 ≤ sid ∧ sid < s.nextSourceId) (h : MetaInv s) :
    MetaInv (updChan s cid (fun c => { c with entries := c.entries ++ [Entry.event sid clock args] })) := by
  obtain ⟨a, b, c, d, e, g⟩ := updChan_fields s cid (fun c => { c with entries := c.entries ++ [Entry.event sid clock args] })
  refine metaInv_of_same h a b c d e g ?_
  rw [b]
  exact chanOk_updChan_append s cid sid clock args hs h.chans

theorem metaInv_accepted (s : Session) (x : List (Nat × Entry)) (h : MetaInv s) : MetaInv { s with accepted := x } :=
  metaInv_of_same h rfl rfl rfl rfl rfl rfl h.chans

end BinlogVerif.Sess

namespace BinlogVerif.Sess
open BinlogVerif

theorem filter_isSource_pollWrites (L : List Chan) (P : List Poll) (n : Nat) (h : ChanOk L n) :
    ((pollAll L P).writes.flatten).filter isSource = [] := by
  rw [List.filter_eq_nil_iff]
  intro e he
  cases pollAll_writes_mem L P e he with
  | inl h' => obtain ⟨wp, rfl⟩ := h'; simp [isSource]
  | inr h' =>
    obtain ⟨c, hc, hm⟩ := h'
    obtain ⟨sid, clock, args, rfl, _, _⟩ := h c hc e hm
    simp [isSource]

theorem srcIds_take_drop (l : List Entry) (n : Nat) : srcIds (l.take n) ++ srcIds (l.drop n) = srcIds l := by
  rw [← srcIds_append, List.take_append_drop]

/-- core of the consume step, for any state `s1` that agrees with the fields `consume` sets -/
theorem metaInv_consume_core (s s1 : Session) (polls : List Poll) (r : PollAll) (h : MetaInv s)
    (hr : pollAll s.channels polls = r)
    (e1 : s1.outputs = s.outputs) (e2 : s1.clockSyncs = s.clockSyncs) (e3 : s1.consumeClockSync = false)
    (e4 : s1.sources = s.sources) (e5 : s1.sourcesConsumed = s.sources.length)
    (e6 : s1.nextSourceId = s.nextSourceId) (e7 : s1.channels = r.chans) :
    MetaInv (emitAll s1 (consumeWrites s polls)) := by
  have hne1 : s1.outputs ≠ [] := by rw [e1]; exact h.outs_ne
  obtain ⟨f1, f2, f3, f4, f5, f6, _⟩ := emitAll_fields s1 (consumeWrites s polls)
  have hcur : curEntries (emitAll s1 (consumeWrites s polls)) = curEntries s ++ (consumeWrites s polls).flatten := by
    rw [emitAll_cur s1 _ hne1]; simp [curEntries, e1]
  have hflat : (consumeWrites s polls).flatten =
      (if s.consumeClockSync then s.clockSyncs else []) ++ (s.sources.drop s.sourcesConsumed ++ r.writes.flatten) := by
    unfold consumeWrites
    rw [hr]
    cases s.consumeClockSync <;> simp
  have hchans : ChanOk r.chans s.nextSourceId := by
    intro c hc e he
    rw [← hr] at hc
    obtain ⟨c0, hc0, hm⟩ := pollAll_chans_mem s.channels polls c hc
    exact h.chans c0 hc0 e (hm e he)
  obtain ⟨st0, hscan0, hdef0, hcs0⟩ := h.cur
  -- scanning the three parts
  let A : List Entry := if s.consumeClockSync then s.clockSyncs else []
  let B : List Entry := s.sources.drop s.sourcesConsumed
  let C : List Entry := r.writes.flatten
  have hAcss : ∀ e ∈ A, ∃ cs, e = Entry.clockSync cs := by
    intro e he
    simp only [A] at he
    split at he
    · exact h.css_are e he
    · simp at he
  have hBsrc : ∀ e ∈ B, isSource e = true := fun e he => h.srcs_are e (List.mem_of_mem_drop he)
  have hscanA := scan_noEvents st0 A (noEvents_of_css hAcss)
  rw [srcIds_css hAcss] at hscanA
  have hcsA : (st0.hasCS || hasCSIn A) = true := by
    cases hc : s.consumeClockSync with
    | true =>
      have : hasCSIn A = true := by
        simp only [A, hc, if_true]
        exact hasCSIn_of_css h.css_are h.css_ne
      simp [this]
    | false => simp [hcs0 hc]
  have hscanB := scan_noEvents { defined := [].reverse ++ st0.defined, hasCS := st0.hasCS || hasCSIn A } B (noEvents_of_sources hBsrc)
  simp only [List.reverse_nil, List.nil_append, hcsA, Bool.true_or] at hscanB hscanA
  have hdefB : ∀ id, id ∈ (srcIds B).reverse ++ st0.defined ↔ id ∈ srcIds s.sources := by
    intro id
    rw [List.mem_append, List.mem_reverse, hdef0 id, ← srcIds_take_drop s.sources s.sourcesConsumed, List.mem_append]
    exact Or.comm
  have hscanC : scan { defined := (srcIds B).reverse ++ st0.defined, hasCS := true } C
      = some { defined := (srcIds B).reverse ++ st0.defined, hasCS := true } := by
    apply scan_events _ _ rfl
    intro e he
    have he' : e ∈ (pollAll s.channels polls).writes.flatten := by rw [hr]; exact he
    cases pollAll_writes_mem s.channels polls e he' with
    | inl h' => obtain ⟨wp, rfl⟩ := h'; trivial
    | inr h' =>
      obtain ⟨c, hc, hm⟩ := h'
      obtain ⟨sid, clock, args, rfl, h1, h2⟩ := h.chans c hc e hm
      simp only
      exact (hdefB sid).mpr (mem_srcIds_range h sid h1 h2)
  have hscan : scan {} (curEntries s ++ (A ++ (B ++ C))) = some { defined := (srcIds B).reverse ++ st0.defined, hasCS := true } := by
    rw [scan_append, hscan0]
    simp only [Option.bind_some]
    rw [scan_append, hscanA]
    simp only [Option.bind_some]
    rw [scan_append, hscanB]
    simp only [Option.bind_some]
    exact hscanC
  have hdl := emitAll_dropLast s1 (consumeWrites s polls) hne1
  refine ⟨emitAll_outputs_ne _ _, by rw [f6, e6]; exact h.next_pos, by rw [f4, e4]; exact h.srcs_are,
    by rw [f4, f6, e4, e6]; exact h.src_ids, by rw [f4, f5, e4, e5]; exact Nat.le_refl _, by rw [f2, e2]; exact h.css_are,
    by rw [f2, e2]; exact h.css_ne,
    by rw [f1, f6, e6, e7]; exact hchans, by rw [hdl, e1]; exact h.older, ?_, ?_⟩
  · refine ⟨_, by rw [hcur, hflat]; exact hscan, ?_, fun _ => rfl⟩
    intro id
    rw [f4, f5, e4, e5]
    show id ∈ (srcIds B).reverse ++ st0.defined ↔ id ∈ srcIds (List.take s.sources.length s.sources)
    rw [List.take_length]
    exact hdefB id
  · rw [hcur, hflat, f4, f5, e4, e5, List.take_length]
    simp only [List.filter_append]
    rw [h.once, filter_isSource_css hAcss, filter_isSource_sources hBsrc]
    have : List.filter isSource r.writes.flatten = [] := by
      rw [← hr]; exact filter_isSource_pollWrites s.channels polls _ h.chans
    rw [this]
    simp [B, List.take_append_drop]

/-- `consume` preserves the metadata invariant -/
theorem metaInv_consume (s : Session) (polls : List Poll) (h : MetaInv s) : MetaInv (consume s polls).1 := by
  unfold consume
  exact metaInv_consume_core s _ polls _ h rfl rfl rfl rfl rfl rfl rfl rfl

end BinlogVerif.Sess

namespace BinlogVerif.Sess
open BinlogVerif

theorem curEntries_rotated (s : Session) : curEntries { s with outputs := s.outputs ++ [[]] } = [] := by
  simp [curEntries]

/-- core of the rotation step -/
theorem metaInv_rotate_core (s s1 : Session) (h : MetaInv s)
    (e1 : s1.outputs = s.outputs ++ [[]]) (e2 : s1.clockSyncs = s.clockSyncs)
    (e3 : s1.consumeClockSync = s.consumeClockSync) (e4 : s1.sources = s.sources)
    (e5 : s1.sourcesConsumed = s.sourcesConsumed) (e6 : s1.nextSourceId = s.nextSourceId)
    (e7 : s1.channels = s.channels) :
    MetaInv (emitAll s1 [s.clockSyncs, s.sources.take s.sourcesConsumed]) := by
  have hne1 : s1.outputs ≠ [] := by rw [e1]; simp
  obtain ⟨f1, f2, f3, f4, f5, f6, _⟩ := emitAll_fields s1 [s.clockSyncs, s.sources.take s.sourcesConsumed]
  have hcur : curEntries (emitAll s1 [s.clockSyncs, s.sources.take s.sourcesConsumed])
      = s.clockSyncs ++ s.sources.take s.sourcesConsumed := by
    rw [emitAll_cur s1 _ hne1]
    simp [curEntries, e1]
  have hTsrc : ∀ e ∈ s.sources.take s.sourcesConsumed, isSource e = true := fun e he => h.srcs_are e (List.mem_of_mem_take he)
  have hscanA := scan_noEvents {} s.clockSyncs (noEvents_of_css h.css_are)
  rw [srcIds_css h.css_are, hasCSIn_of_css h.css_are h.css_ne] at hscanA
  have hscanB := scan_noEvents { defined := [], hasCS := true } (s.sources.take s.sourcesConsumed) (noEvents_of_sources hTsrc)
  have hdl := emitAll_dropLast s1 [s.clockSyncs, s.sources.take s.sourcesConsumed] hne1
  refine ⟨emitAll_outputs_ne _ _, by rw [f6, e6]; exact h.next_pos, by rw [f4, e4]; exact h.srcs_are,
    by rw [f4, f6, e4, e6]; exact h.src_ids, by rw [f4, f5, e4, e5]; exact h.consumed_le, by rw [f2, e2]; exact h.css_are,
    by rw [f2, e2]; exact h.css_ne, by rw [f1, f6, e6, e7]; exact h.chans, ?_, ?_, ?_⟩
  · rw [hdl, e1]
    simp only [List.dropLast_concat]
    intro o ho
    -- an older output, or the one that was current until now
    by_cases hlast : o ∈ s.outputs.dropLast
    · exact h.older o hlast
    · have : s.outputs.getLast? = some o := by
        have hne := h.outs_ne
        have hsplit := List.dropLast_concat_getLast hne
        rw [← hsplit] at ho
        simp only [List.mem_append, List.mem_singleton] at ho
        cases ho with
        | inl h' => exact absurd h' hlast
        | inr h' => rw [h']; exact List.getLast?_eq_some_getLast hne
      obtain ⟨st, hst, _, _⟩ := h.cur
      unfold SelfContained
      have : curEntries s = o.flatten := by simp [curEntries, this]
      rw [← this, hst]; rfl
  · refine ⟨{ defined := (srcIds (s.sources.take s.sourcesConsumed)).reverse ++ [], hasCS := true || hasCSIn (s.sources.take s.sourcesConsumed) }, ?_, ?_, fun _ => rfl⟩
    · rw [hcur, scan_append, hscanA]
      simp only [List.reverse_nil, List.nil_append, Bool.false_or, Option.bind_some]
      exact hscanB
    · intro id
      rw [f4, f5, e4, e5]
      simp
  · rw [hcur, f4, f5, e4, e5, List.filter_append, filter_isSource_css h.css_are, filter_isSource_sources hTsrc]
    simp

/-- rotation (new output + `reconsumeMetadata`) preserves the invariant -/
theorem metaInv_rotate (s : Session) (h : MetaInv s) :
    MetaInv (reconsumeMetadata { s with outputs := s.outputs ++ [[]] }).1 := by
  unfold reconsumeMetadata
  exact metaInv_rotate_core s _ h rfl rfl rfl rfl rfl rfl rfl

/-- every step preserves the metadata invariant -/
theorem metaInv_step (s : Session) (op : Op) (s' : Session) (h : MetaInv s) (hok : OpOk s op)
    (hstep : step s op = some s') : MetaInv s' := by
  cases op with
  | createWriter w id name =>
    simp only [step] at hstep
    injection hstep with hstep
    subst hstep
    have h1 := metaInv_setWriter _ w (some s.nextCid) (metaInv_newChan s w {} h)
    split
    · split
      · exact metaInv_updChan_same _ _ _ (fun _ => rfl) (metaInv_updChan_same _ _ _ (fun _ => rfl) h1)
      · exact metaInv_updChan_same _ _ _ (fun _ => rfl) h1
    · split
      · exact metaInv_updChan_same _ _ _ (fun _ => rfl) h1
      · exact h1
  | setWriterId w id =>
    simp only [step, Option.map_eq_some_iff] at hstep
    obtain ⟨cid, _, rfl⟩ := hstep
    exact metaInv_updChan_same _ _ _ (fun _ => rfl) h
  | setWriterName w name =>
    simp only [step, Option.map_eq_some_iff] at hstep
    obtain ⟨cid, _, rfl⟩ := hstep
    exact metaInv_updChan_same _ _ _ (fun _ => rfl) h
  | addSource src =>
    simp only [step] at hstep
    injection hstep with hstep
    subst hstep
    have hnp := h.next_pos
    have hcur : curEntries { s with sources := s.sources ++ [Entry.source { src with id := s.nextSourceId }], nextSourceId := s.nextSourceId + 1 } = curEntries s := rfl
    have htake : List.take s.sourcesConsumed (s.sources ++ [Entry.source { src with id := s.nextSourceId }]) = List.take s.sourcesConsumed s.sources :=
      List.take_append_of_le_length h.consumed_le
    refine ⟨h.outs_ne, by simp, ?_, ?_, ?_, h.css_are, h.css_ne, chanOk_mono (Nat.le_succ _) h.chans, h.older, ?_, ?_⟩
    · intro e he
      simp only [List.mem_append, List.mem_singleton] at he
      cases he with
      | inl he => exact h.srcs_are e he
      | inr he => subst he; rfl
    · show srcIds (s.sources ++ [Entry.source { src with id := s.nextSourceId }]) = List.range' 1 (s.nextSourceId + 1 - 1)
      rw [srcIds_append, h.src_ids]
      have h1 : srcIds [Entry.source { src with id := s.nextSourceId }] = [s.nextSourceId] := rfl
      rw [h1, Nat.add_sub_cancel]
      obtain ⟨k, hk⟩ : ∃ k, s.nextSourceId = k + 1 := ⟨s.nextSourceId - 1, by omega⟩
      rw [hk, Nat.add_sub_cancel, List.range'_concat]
      simp [Nat.add_comm]
    · simp only [List.length_append, List.length_singleton]
      have := h.consumed_le
      omega
    · rw [hcur]
      simp only [htake]
      exact h.cur
    · rw [hcur]
      simp only [htake]
      exact h.once
  | log w sid clock args fits =>
    simp only [step] at hstep
    cases hl : lookupWriter s w with
    | none => simp [hl] at hstep
    | some cid =>
      simp only [hl] at hstep
      have hacc := metaInv_accepted s (s.accepted ++ [(w, Entry.event sid clock args)]) h
      split at hstep
      · injection hstep with hstep
        subst hstep
        exact metaInv_log_append _ cid sid clock args hok hacc
      · split at hstep
        · cases hstep
        · rename_i old _
          injection hstep with hstep
          subst hstep
          have h1 := metaInv_newChan _ w { id := old.wp.id, name := old.wp.name, batchSize := 0 } hacc
          have h2 := metaInv_updChan_same _ cid (fun c => { c with closed := true, sealed := true }) (fun _ => rfl) h1
          have h3 := metaInv_setWriter _ w (some s.nextCid) h2
          exact metaInv_log_append _ _ sid clock args hok h3
  | destroyWriter w =>
    simp only [step, Option.map_eq_some_iff] at hstep
    obtain ⟨cid, _, rfl⟩ := hstep
    exact metaInv_setWriter _ _ _ (metaInv_updChan_same _ _ _ (fun _ => rfl) h)
  | setClockSync cs =>
    simp only [step] at hstep
    injection hstep with hstep
    subst hstep
    obtain ⟨st, hst, hdef, _⟩ := h.cur
    refine ⟨h.outs_ne, h.next_pos, h.srcs_are, h.src_ids, h.consumed_le, ?_, by simp, h.chans, h.older,
      ⟨st, hst, hdef, by simp⟩, h.once⟩
    intro e he
    simp only [List.mem_append, List.mem_singleton] at he
    cases he with
    | inl he => exact h.css_are e he
    | inr he => exact ⟨cs, he⟩
  | consume polls =>
    simp only [step] at hstep
    injection hstep with hstep
    subst hstep
    exact metaInv_consume s polls h
  | rotate =>
    simp only [step] at hstep
    injection hstep with hstep
    subst hstep
    exact metaInv_rotate s h

/-- the invariant holds in every reachable state -/
theorem metaInv_exec (cs : ClockSync) (ops : List Op) (s : Session) (hok : TraceOk (init cs) ops)
    (hrun : exec (init cs) ops = some s) : MetaInv s :=
  exec_induction MetaInv (init cs) ops s (metaInv_init cs) hok
    (fun s op s1 h ho hs => metaInv_step s op s1 h ho hs) hrun

end BinlogVerif.Sess
