import BinlogVerif.Lemmas.ImageSort
import BinlogVerif.Lemmas.E2ESession
/-
  Lemmas for C08 with SEVERAL live sessions in one memory image:
   * the stable sort of `brecovery` by (session, type) keeps the buffers of every session together
     (`mergeSort_partition`), so the output is one segment per session, in increasing session order,
     each segment being what the one-session theorems describe;
   * a self-contained log read after any other log yields the items it yields when read alone
     (`expectedItems_after`): the event source ids of different sessions overlap (each session
     counts from 1); what decides is that the definitions of a session precede its events and
     follow those of the sessions before it.
-/
namespace BinlogVerif.Image
open BinlogVerif BinlogVerif.Recovery BinlogVerif.Sess BinlogVerif.E2E

/-! ### the stable sort and lower sets -/
theorem split_unique {α : Type} (q : α → Bool) (x1 y1 x2 y2 : List α) (h : x1 ++ y1 = x2 ++ y2)
    (hx1 : ∀ b ∈ x1, q b = false) (hy1 : ∀ b ∈ y1, q b = true)
    (hx2 : ∀ b ∈ x2, q b = false) (hy2 : ∀ b ∈ y2, q b = true) : x1 = x2 ∧ y1 = y2 := by
  induction x1 generalizing x2 with
  | nil =>
    cases x2 with
    | nil => exact ⟨rfl, by simpa using h⟩
    | cons b x2' =>
      exfalso
      simp only [List.nil_append, List.cons_append] at h
      have h1 := hy1 b (by rw [h]; simp)
      have h2 := hx2 b (by simp)
      rw [h1] at h2; cases h2
  | cons a x1' ih =>
    cases x2 with
    | nil =>
      exfalso
      simp only [List.nil_append, List.cons_append] at h
      have h1 := hy2 a (by rw [← h]; simp)
      have h2 := hx1 a (by simp)
      rw [h1] at h2; cases h2
    | cons b x2' =>
      simp only [List.cons_append, List.cons.injEq] at h
      obtain ⟨hab, ht⟩ := h
      obtain ⟨e1, e2⟩ := ih x2' ht (fun c hc => hx1 c (by simp [hc])) (fun c hc => hx2 c (by simp [hc]))
      exact ⟨by rw [hab, e1], e2⟩

/-- the parts of `mergeSort (a :: l)` around `a` -/
theorem mergeSort_cons_split (a : Recovered) (l : List Recovered) :
    ∃ l1 l2, (a :: l).mergeSort bufLe = l1 ++ a :: l2 ∧ l.mergeSort bufLe = l1 ++ l2 ∧
      (∀ b ∈ l1, bufLe a b = false) ∧ (∀ b ∈ l2, bufLe a b = true) := by
  obtain ⟨l1, l2, e1, e2, hl1⟩ := List.mergeSort_cons (le := bufLe) bufLe_trans bufLe_total a l
  have hpw := List.pairwise_mergeSort (le := bufLe) bufLe_trans bufLe_total (a :: l)
  rw [e1, List.pairwise_append] at hpw
  refine ⟨l1, l2, e1, e2, ?_, (List.pairwise_cons.mp hpw.2.1).1⟩
  intro b hb
  have := hl1 b hb
  simpa using this

/-- **The stable sort keeps a lower set together.**  If every buffer satisfying `p` sorts strictly
    before every buffer that does not, sorting the whole list is sorting the two parts. -/
theorem mergeSort_partition (p : Recovered → Bool)
    (hp : ∀ a b, p a = true → p b = false → bufLe a b = true ∧ bufLe b a = false) (l : List Recovered) :
    l.mergeSort bufLe = (l.filter p).mergeSort bufLe ++ (l.filter (fun b => !p b)).mergeSort bufLe := by
  induction l with
  | nil => simp
  | cons a l ih =>
    obtain ⟨l1, l2, e1, e2, hl1, hl2⟩ := mergeSort_cons_split a l
    rw [e1]
    rw [e2] at ih
    have memP : ∀ b ∈ (l.filter p).mergeSort bufLe, p b = true := fun b hb =>
      (List.mem_filter.mp (List.mem_mergeSort.mp hb)).2
    have memN : ∀ b ∈ (l.filter (fun b => !p b)).mergeSort bufLe, p b = false := fun b hb => by
      have := (List.mem_filter.mp (List.mem_mergeSort.mp hb)).2
      simpa using this
    cases hA : p a with
    | true =>
      obtain ⟨m1, m2, f1, f2, hm1, hm2⟩ := mergeSort_cons_split a (l.filter p)
      have hfp : (a :: l).filter p = a :: l.filter p := by simp [hA]
      have hfn : (a :: l).filter (fun b => !p b) = l.filter (fun b => !p b) := by simp [hA]
      rw [hfp, hfn, f1]
      rw [f2] at ih memP
      have := split_unique (fun b => bufLe a b) l1 l2 m1 (m2 ++ (l.filter (fun b => !p b)).mergeSort bufLe)
        (by rw [ih]; simp) hl1 hl2 hm1
        (by
          intro b hb
          rcases List.mem_append.mp hb with hb | hb
          · exact hm2 b hb
          · exact (hp a b hA (memN b hb)).1)
      rw [this.1, this.2]
      simp
    | false =>
      obtain ⟨n1, n2, f1, f2, hn1, hn2⟩ := mergeSort_cons_split a (l.filter (fun b => !p b))
      have hfp : (a :: l).filter p = l.filter p := by simp [hA]
      have hfn : (a :: l).filter (fun b => !p b) = a :: l.filter (fun b => !p b) := by simp [hA]
      rw [hfp, hfn, f1]
      rw [f2] at ih
      have := split_unique (fun b => bufLe a b) l1 l2 ((l.filter p).mergeSort bufLe ++ n1) n2
        (by rw [ih]; simp) hl1 hl2
        (by
          intro b hb
          rcases List.mem_append.mp hb with hb | hb
          · exact (hp b a (memP b hb) hA).2
          · exact hn1 b hb)
        hn2
      rw [this.1, this.2]
      simp

/-! ### reading a self-contained log after another log -/

theorem find_own (own older : List EventSource) (sid : Nat) (h : sid ∈ own.map (·.id)) :
    (own ++ older).find? (fun s => s.id == sid) = own.find? (fun s => s.id == sid) := by
  rw [List.find?_append]
  cases hf : own.find? (fun s => s.id == sid) with
  | some x => rfl
  | none =>
    exfalso
    obtain ⟨x, hx, hid⟩ := List.mem_map.mp h
    have := List.find?_eq_none.mp hf x hx
    simp [hid] at this

/-- with the sources `own` (newest first) of the ids `st.defined` known, a log that scans from `st`
    yields the same items whatever older definitions `older` are also known, and whatever the clock
    syncs in force were before its own first one (`c`, `c'`: equal once it has seen one) -/
theorem expectedItems_scan (l : List Entry) (st st' : ScanSt) (own older : List EventSource)
    (wp : WriterProp) (c c' : ClockSync)
    (hscan : Sess.scan st l = some st') (hown : own.map (·.id) = st.defined)
    (hcs : st.hasCS = true → c = c') :
    expectedItems (own ++ older) wp c l = expectedItems own wp c' l := by
  induction l generalizing st own wp c c' with
  | nil => rfl
  | cons e es ih =>
    simp only [Sess.scan] at hscan
    cases e with
    | source s =>
      simp only [scanStep] at hscan
      simp only [expectedItems]
      have := ih { st with defined := s.id :: st.defined } (s :: own) wp c c' hscan (by simp [hown]) hcs
      simpa using this
    | writerProp w =>
      simp only [scanStep] at hscan
      simp only [expectedItems]
      exact ih st own w c c' hscan hown hcs
    | clockSync k =>
      simp only [scanStep] at hscan
      simp only [expectedItems]
      exact ih { st with hasCS := true } own wp k k hscan hown (fun _ => rfl)
    | event sid clock args =>
      by_cases hd : sid ∈ st.defined ∧ st.hasCS = true
      · simp only [scanStep, if_pos hd] at hscan
        have hc : c = c' := hcs hd.2
        subst hc
        simp only [expectedItems]
        rw [find_own own older sid (by rw [hown]; exact hd.1), ih st own wp c c hscan hown (fun _ => rfl)]
      · simp only [scanStep, if_neg hd] at hscan
        cases hscan

/-- **A self-contained log reads the same after any other log.**  Reading `a ++ b` yields the items
    of `a` followed by the items `b` yields when read on its own (from the empty reader state; only
    the writer description in force at the end of `a` is carried over, until `b` has its own). -/
theorem expectedItems_after (a b : List Entry) (hb : SelfContained b)
    (srcs : List EventSource) (wp : WriterProp) (cs : ClockSync) :
    expectedItems srcs wp cs (a ++ b) =
      expectedItems srcs wp cs a ++ expectedItems [] (wpAfter wp a) {} b := by
  rw [expectedItems_append]
  congr 1
  unfold SelfContained at hb
  cases hs : Sess.scan {} b with
  | none => rw [hs] at hb; simp at hb
  | some st' =>
    have := expectedItems_scan b {} st' [] (srcsAfter srcs a) (wpAfter wp a) (csAfter cs a) {} hs rfl (by simp)
    simpa using this

end BinlogVerif.Image
