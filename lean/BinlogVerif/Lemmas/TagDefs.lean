import BinlogVerif.Mser.Spec
/-
  Side conditions of C06: which types have a tag string that the tag utilities parse back
  unambiguously (`TyOk`), nesting depth, zero-field struct names.
-/
namespace BinlogVerif.Mser
open BinlogVerif BinlogVerif.Tag BinlogVerif.Visit

/-- a byte that is none of `( ) < > { } [ ] / \ ` '` -/
def charOk (c : UInt8) : Bool :=
  c != 40 && c != 41 && c != 60 && c != 62 && c != 123 && c != 125 && c != 91 && c != 93
    && c != 47 && c != 92 && c != 96 && c != 39

/-- STRICT name condition: the name contains none of the bytes `( ) < > { } [ ] / \ ` '`.
    Names with balanced brackets (template-ids such as `std::pair<int,int>`, which real adapted
    structs do have) are NOT covered by the C06 proofs. -/
def NameOk (n : Bytes) : Bool := n.all charOk

/-- `0-9 A-F -` -/
def hexChar (c : UInt8) : Bool :=
  (48 ≤ c.toNat && c.toNat ≤ 57) || (65 ≤ c.toNat && c.toNat ≤ 70) || c.toNat == 45

/-- enumerator value strings: non-empty, over `0-9A-F-` -/
def HexOk (h : Bytes) : Bool := !h.isEmpty && h.all hexChar

def EnumsOk : List (Bytes × Bytes) → Bool
  | [] => true
  | (h, n) :: es => HexOk h && NameOk n && EnumsOk es

def isNull : Ty → Bool
  | .null => true
  | _ => false

/- `TyOk t`: every struct/field/enum/enumerator name is `NameOk`, every arithmetic tag char
   (leaf or enum underlying type) is one of the 13 valid ones, enumerator hex strings are `HexOk`,
   every variant has at most 255 alternatives, `null` occurs only directly as an alternative of a
   variant. -/
mutual
def TyOk : Ty → Bool
  | .arith c => (arithSize c).isSome
  | .seq e => TyOk e
  | .tup es => TyOkList es
  | .var alts => decide (alts.length ≤ 255) && TyOkAlts alts
  | .null => false
  | .enum u name ens => (arithSize u).isSome && NameOk name && EnumsOk ens && (u != 121)   -- documented grammar: the underlying type is an integer, not bool
  | .struct name fs => NameOk name && TyOkFields fs
def TyOkList : List Ty → Bool
  | [] => true
  | t :: ts => TyOk t && TyOkList ts
def TyOkAlts : List Ty → Bool
  | [] => true
  | t :: ts => (isNull t || TyOk t) && TyOkAlts ts
def TyOkFields : List (Bytes × Ty) → Bool
  | [] => true
  | (n, t) :: fs => NameOk n && TyOk t && TyOkFields fs
end

/-- `TyOk`, or the `null` alternative itself (the tag utilities handle `0` like an arithmetic) -/
def TyOkN (t : Ty) : Bool := isNull t || TyOk t

/- nesting depth: leaves 0, every bracket level +1 -/
mutual
def depth : Ty → Nat
  | .seq e => depth e + 1
  | .tup es => depthList es + 1
  | .var alts => depthList alts + 1
  | .struct _ fs => depthFields fs + 1
  | _ => 0
def depthList : List Ty → Nat
  | [] => 0
  | t :: ts => max (depth t) (depthList ts)
def depthFields : List (Bytes × Ty) → Nat
  | [] => 0
  | (_, t) :: fs => max (depth t) (depthFields fs)
end

/- names of the zero-field structs occurring in a type -/
mutual
def emptyStructNames : Ty → List Bytes
  | .seq e => emptyStructNames e
  | .tup es => emptyStructNamesList es
  | .var alts => emptyStructNamesList alts
  | .struct name fs => (if fs.isEmpty then [name] else []) ++ emptyStructNamesFields fs
  | _ => []
def emptyStructNamesList : List Ty → List Bytes
  | [] => []
  | t :: ts => emptyStructNames t ++ emptyStructNamesList ts
def emptyStructNamesFields : List (Bytes × Ty) → List Bytes
  | [] => []
  | (_, t) :: fs => emptyStructNames t ++ emptyStructNamesFields fs
end

/-- For a struct with zero fields `visit` and `singular` consult the full tag
    (`resolve_recursive_tag(full_tag, "{" + name)`), as they do for a recursive reference.
    The visitation agrees with the value only if that lookup finds nothing. -/
def EmptyStructsOk (full : Bytes) (t : Ty) : Prop :=
  ∀ n ∈ emptyStructNames t, resolveRecursiveTag full (cLBrace :: n) = []

def NoEmptyStruct (t : Ty) : Prop := emptyStructNames t = []

theorem EmptyStructsOk.of_noEmptyStruct (full : Bytes) (t : Ty) (h : NoEmptyStruct t) :
    EmptyStructsOk full t := by
  intro n hn; rw [h] at hn; cases hn

end BinlogVerif.Mser
