import BinlogVerif.Lemmas.ImageContent
/-
  Lemmas for C08 under the weakest filler condition (`Inert`): the image may contain stale magic
  numbers as long as the tool rejects the candidate behind each of them.

  `Exp r out` describes a run of the scan from `r` relationally: at a position where the tool
  accepts nothing (`InertAt`) it moves on (by one byte, or by eight after a rejected candidate);
  at a position where a magic number is followed by a block it accepts, it collects the buffer and
  resumes behind the block.  The crux (`exp_jump_meta`/`exp_jump_data`): after a rejection the scan
  resumes eight bytes later, and none of the seven positions it jumps over can be the start of a
  magic number — the last byte 0xFE of a magic number occurs in neither magic number at positions
  0..6 — so no block is skipped.
-/
namespace BinlogVerif.Image
open BinlogVerif BinlogVerif.Recovery

inductive Exp : Bytes → List Recovered → Prop where
  | nil : Exp [] []
  | step (b : UInt8) (r : Bytes) (out : List Recovered) (h : InertAt (b :: r)) (h' : Exp r out) : Exp (b :: r) out
  | mblock (r body : Bytes) (b : Recovered) (n : Nat) (out : List Recovered) (hr : r = metadataMagic ++ body)
      (hb : readMetadata body = some (b, n)) (h' : Exp (body.drop n) out) : Exp r (b :: out)
  | dblock (r body : Bytes) (b : Recovered) (n : Nat) (out : List Recovered) (hr : r = dataMagic ++ body)
      (hb : readData body = .ok (some (b, n))) (h' : Exp (body.drop n) out) : Exp r (b :: out)

theorem take8_metaMagic_append (body : Bytes) : (metadataMagic ++ body).take 8 = metadataMagic :=
  List.take_left' (by decide)

theorem take8_dataMagic_append (body : Bytes) : (dataMagic ++ body).take 8 = dataMagic :=
  List.take_left' (by decide)

/-- a position where no magic number starts is passed by one byte -/
theorem exp_peel {c : UInt8} {r : Bytes} {out : List Recovered} (h : Exp (c :: r) out)
    (h1 : (c :: r).take 8 ≠ metadataMagic) (h2 : (c :: r).take 8 ≠ dataMagic) : Exp r out := by
  cases h with
  | step _ _ _ _ h' => exact h'
  | mblock _ body b n out hr hb h' => exact absurd (by rw [hr]; exact take8_metaMagic_append body) h1
  | dblock _ body b n out hr hb h' => exact absurd (by rw [hr]; exact take8_dataMagic_append body) h2

/-- **no block is jumped over (metadata magic).**  None of the 7 positions behind the first byte of a
    metadata magic number starts a magic number. -/
theorem exp_jump_meta (rest : Bytes) (out : List Recovered)
    (h : Exp ([0xBD, 0x35, 0x6E, 0x72, 0x4F, 0x21, 0xFE] ++ rest) out) : Exp rest out := by
  have h := exp_peel h (by simp [metadataMagic_eq]) (by simp [dataMagic_eq])
  have h := exp_peel h (by simp [metadataMagic_eq]) (by simp [dataMagic_eq])
  have h := exp_peel h (by simp [metadataMagic_eq]) (by simp [dataMagic_eq])
  have h := exp_peel h (by simp [metadataMagic_eq]) (by simp [dataMagic_eq])
  have h := exp_peel h (by simp [metadataMagic_eq]) (by simp [dataMagic_eq])
  have h := exp_peel h (by simp [metadataMagic_eq]) (by simp [dataMagic_eq])
  exact exp_peel h (by simp [metadataMagic_eq]) (by simp [dataMagic_eq])

/-- **no block is jumped over (data magic)** -/
theorem exp_jump_data (rest : Bytes) (out : List Recovered)
    (h : Exp ([0xBC, 0x34, 0x6D, 0x71, 0x3F, 0x21, 0xFE] ++ rest) out) : Exp rest out := by
  have h := exp_peel h (by simp [metadataMagic_eq]) (by simp [dataMagic_eq])
  have h := exp_peel h (by simp [metadataMagic_eq]) (by simp [dataMagic_eq])
  have h := exp_peel h (by simp [metadataMagic_eq]) (by simp [dataMagic_eq])
  have h := exp_peel h (by simp [metadataMagic_eq]) (by simp [dataMagic_eq])
  have h := exp_peel h (by simp [metadataMagic_eq]) (by simp [dataMagic_eq])
  have h := exp_peel h (by simp [metadataMagic_eq]) (by simp [dataMagic_eq])
  exact exp_peel h (by simp [metadataMagic_eq]) (by simp [dataMagic_eq])

theorem exp_short {r : Bytes} {out : List Recovered} (h : Exp r out) (hl : r.length < 8) : out = [] := by
  induction h with
  | nil => rfl
  | step b r out _ _ ih => exact ih (by simp at hl; omega)
  | mblock r body b n out hr _ _ _ => rw [hr, metadataMagic_eq] at hl; simp at hl; omega
  | dblock r body b n out hr _ _ _ => rw [hr, dataMagic_eq] at hl; simp at hl; omega

/-- **the scan follows the description** -/
theorem scanAll_of_exp (r : Bytes) (out : List Recovered) (h : Exp r out) : scanAll r = .ok out := by
  obtain ⟨k, hk⟩ : ∃ k, r.length = k := ⟨_, rfl⟩
  induction k using Nat.strongRecOn generalizing r out with
  | _ k ih =>
    cases h with
    | nil => exact scanAll_short [] (by simp)
    | mblock _ body b n out' hr hb h' =>
      subst hr
      rw [scanAll_metaMagic, hb]
      simp only
      rw [ih (body.drop n).length (by rw [← hk, metadataMagic_eq]; simp; omega) _ _ h' rfl]
      rfl
    | dblock _ body b n out' hr hb h' =>
      subst hr
      rw [scanAll_dataMagic, hb]
      simp only
      rw [ih (body.drop n).length (by rw [← hk, dataMagic_eq]; simp; omega) _ _ h' rfl]
      rfl
    | step b r' _ hin h' =>
      have hlt : r'.length < k := by rw [← hk]; simp
      by_cases hb : b = firstMagicByte
      · subst hb
        by_cases hl : (firstMagicByte :: r').length < 8
        · rw [scanAll_short _ hl, exp_short h' (by simp at hl; omega)]
        · have hsplit := (List.take_append_drop 8 (firstMagicByte :: r')).symm
          have hdl : ((firstMagicByte :: r').drop 8).length < k := by rw [← hk]; simp; omega
          by_cases hm : (firstMagicByte :: r').take 8 = metadataMagic
          · have hnone := hin.1 hm
            rw [hm] at hsplit
            have hr' : r' = [0xBD, 0x35, 0x6E, 0x72, 0x4F, 0x21, 0xFE] ++ (firstMagicByte :: r').drop 8 := by
              rw [metadataMagic_eq] at hsplit
              simp at hsplit
              simpa using hsplit.2
            have hexp := exp_jump_meta _ _ (by rw [← hr']; exact h')
            rw [hsplit, scanAll_metaMagic, hnone]
            exact ih _ hdl _ _ hexp rfl
          · by_cases hd : (firstMagicByte :: r').take 8 = dataMagic
            · have hnone := hin.2 hd
              rw [hd] at hsplit
              have hr' : r' = [0xBC, 0x34, 0x6D, 0x71, 0x3F, 0x21, 0xFE] ++ (firstMagicByte :: r').drop 8 := by
                rw [dataMagic_eq] at hsplit
                simp at hsplit
                simpa using hsplit.2
              have hexp := exp_jump_data _ _ (by rw [← hr']; exact h')
              rw [hsplit, scanAll_dataMagic, hnone]
              exact ih _ hdl _ _ hexp rfl
            · rw [scanAll_bc_skip r' (fun hs => hs.elim hm hd)]
              exact ih _ hlt _ _ h' rfl
      · rw [scanAll_cons_ne _ _ hb]
        exact ih _ hlt _ _ h' rfl

/-- an inert region in front of a described run -/
theorem exp_inert_append (f rest : Bytes) (out : List Recovered) (hf : Inert f rest) (h : Exp rest out) :
    Exp (f ++ rest) out := by
  induction f with
  | nil => exact h
  | cons b f ih =>
    obtain ⟨h1, h2⟩ := (inert_cons b f rest).mp hf
    exact Exp.step b (f ++ rest) out h1 (ih h2)

theorem exp_piece (p : Piece) (rest : Bytes) (out : List Recovered) (hp : p.OkI rest) (h : Exp rest out) :
    Exp (p.bytes ++ rest) (p.recovered.toList ++ out) := by
  cases p with
  | metaOn s es extra =>
    obtain ⟨hs, hl, hok, hextra⟩ := hp
    refine Exp.mblock _ _ ⟨.metadata, s, frames es⟩ _ out (metaOn_bytes_append s es extra rest)
      (readMetadata_block s es _ hs hl hok) ?_
    rw [drop_metaBody s _ _ _ rfl]
    exact exp_inert_append _ _ _ hextra h
  | chan s c =>
    simp only [Piece.OkI] at hp
    by_cases hm : c.magicOn = true
    · rw [if_pos hm] at hp
      obtain ⟨hs, hcap, hlen, hw, he, hr, hread, hok⟩ := hp
      have hrec : (Piece.chan s c).recovered.toList = [⟨.data, s, frames c.pending⟩] := by
        simp [Piece.recovered, hm]
      rw [hrec]
      refine Exp.dblock _ _ ⟨.data, s, frames c.pending⟩ (48 + c.cap) out (chanOn_bytes_append s c rest hm)
        (readData_block s c.w c.e c.cap c.ptr c.r c.buf rest c.pending hs hcap hlen hw he hr hread hok) ?_
      have hd : List.drop (48 + c.cap) (le 8 s ++ (le 8 c.w ++ (le 8 c.e ++ (le 8 c.cap ++ (le 8 c.ptr ++ (le 8 c.r ++ (c.buf ++ rest)))))))
          = rest := by
        have l8 : ∀ v, (le 8 v).length = 8 := fun v => le_length 8 v
        rw [show 48 + c.cap = 8 + (8 + (8 + (8 + (8 + (8 + c.cap))))) by omega]
        repeat rw [drop_add_left _ _ 8 _ (l8 _)]
        exact List.drop_left' hlen
      rw [hd]
      exact h
    · rw [if_neg hm] at hp
      have hrec : (Piece.chan s c).recovered.toList = [] := by simp [Piece.recovered, hm]
      rw [hrec]
      exact exp_inert_append _ _ _ hp h
  | off bs => exact exp_inert_append _ _ _ hp h

theorem exp_of_imageOkI (img : List (Bytes × Piece)) (t : Bytes) (h : ImageOkI img t) :
    Exp (flat img t) (expected img) := by
  induction img with
  | nil =>
    have := exp_inert_append t [] [] h Exp.nil
    rwa [List.append_nil] at this
  | cons x rest ih =>
    obtain ⟨f, p⟩ := x
    have h' : Inert f (p.bytes ++ flat rest t) ∧ p.OkI (flat rest t) ∧ ImageOkI rest t := h
    obtain ⟨h1, h2, h3⟩ := h'
    have e1 : flat ((f, p) :: rest) t = f ++ (p.bytes ++ flat rest t) := by simp [flat, List.append_assoc]
    have e2 : expected ((f, p) :: rest) = p.recovered.toList ++ expected rest := by
      simp only [expected, List.filterMap_cons]
      cases p.recovered <;> rfl
    rw [e1, e2]
    exact exp_inert_append _ _ _ h1 (exp_piece p _ _ h2 (ih h3))

/-- **the scan over an image with rejected junk magic numbers** -/
theorem scanAll_image_inert (img : List (Bytes × Piece)) (t : Bytes) (h : ImageOkI img t) :
    scanAll (flat img t) = .ok (expected img) :=
  scanAll_of_exp _ _ (exp_of_imageOkI img t h)

/-! ### a decision procedure for `Inert` (for concrete images) -/

def inertAtB (r : Bytes) : Bool :=
  (if r.take 8 = metadataMagic then (readMetadata (r.drop 8)).isNone else true) &&
  (if r.take 8 = dataMagic then (match readData (r.drop 8) with | .ok none => true | _ => false) else true)

def inertB : Bytes → Bytes → Bool
  | [], _ => true
  | b :: f, rest => inertAtB (b :: (f ++ rest)) && inertB f rest

theorem inertAt_of_inertAtB {r : Bytes} (h : inertAtB r = true) : InertAt r := by
  unfold inertAtB at h
  rw [Bool.and_eq_true] at h
  refine ⟨fun e => ?_, fun e => ?_⟩
  · have := h.1
    rw [if_pos e] at this
    exact Option.isNone_iff_eq_none.mp this
  · have := h.2
    rw [if_pos e] at this
    split at this
    · assumption
    · cases this

theorem inert_of_inertB {f rest : Bytes} (h : inertB f rest = true) : Inert f rest := by
  induction f with
  | nil => trivial
  | cons b f ih =>
    have h' : (inertAtB (b :: (f ++ rest)) && inertB f rest) = true := h
    rw [Bool.and_eq_true] at h'
    exact (inert_cons b f rest).mpr ⟨inertAt_of_inertAtB h'.1, ih h'.2⟩

/-! ### payloads (the side conditions on blocks do not involve the fillers) -/

theorem payloads_ok_inert (img : List (Bytes × Piece)) (t : Bytes) (h : ImageOkI img t) :
    ∀ p, p ∈ metaPayloads img ∨ p ∈ chanPayloads img → PayloadOk p := by
  induction img with
  | nil => intro p hp; simp [metaPayloads, chanPayloads] at hp
  | cons x rest ih =>
    obtain ⟨f, pc⟩ := x
    have h' : Inert f (pc.bytes ++ flat rest t) ∧ pc.OkI (flat rest t) ∧ ImageOkI rest t := h
    obtain ⟨_, h2, h3⟩ := h'
    intro p hp
    simp only [metaPayloads, chanPayloads, List.flatMap_cons, List.mem_append] at hp
    have ih := ih h3 p
    simp only [metaPayloads, chanPayloads] at ih
    rcases hp with (hp | hp) | (hp | hp)
    · cases pc with
      | metaOn s es extra => exact h2.2.2.1 p hp
      | chan s c => simp [Piece.metaPayloads] at hp
      | off bs => simp [Piece.metaPayloads] at hp
    · exact ih (.inl hp)
    · cases pc with
      | metaOn s es extra => simp [Piece.chanPayloads] at hp
      | chan s c =>
        by_cases hm : c.magicOn = true
        · simp only [Piece.chanPayloads, hm, if_true] at hp
          simp only [Piece.OkI, hm, if_true] at h2
          exact h2.2.2.2.2.2.2.2 p hp
        · simp [Piece.chanPayloads, hm] at hp
      | off bs => simp [Piece.chanPayloads] at hp
    · exact ih (.inr hp)

/-- every buffer to be found is the framing of payloads the image holds (no condition on fillers) -/
theorem expected_payloads' (img : List (Bytes × Piece)) :
    ∀ b ∈ expected img, ∃ ps, b.buffer = frames ps ∧ ∀ p ∈ ps, p ∈ metaPayloads img ∨ p ∈ chanPayloads img := by
  induction img with
  | nil => intro b hb; simp [expected] at hb
  | cons x rest ih =>
    obtain ⟨f, p⟩ := x
    have hm : metaPayloads ((f, p) :: rest) = p.metaPayloads ++ metaPayloads rest := by simp [metaPayloads]
    have hc : chanPayloads ((f, p) :: rest) = p.chanPayloads ++ chanPayloads rest := by simp [chanPayloads]
    intro b hb
    simp only [expected, List.filterMap_cons] at hb
    have htail : b ∈ expected rest → ∃ ps, b.buffer = frames ps ∧
        ∀ q ∈ ps, q ∈ metaPayloads ((f, p) :: rest) ∨ q ∈ chanPayloads ((f, p) :: rest) := by
      intro hb
      obtain ⟨ps, e, m⟩ := ih b hb
      refine ⟨ps, e, fun q hq => ?_⟩
      rw [hm, hc]
      cases m q hq with
      | inl h => exact .inl (List.mem_append_right _ h)
      | inr h => exact .inr (List.mem_append_right _ h)
    cases p with
    | metaOn s es extra =>
      simp only [Piece.recovered, List.mem_cons] at hb
      cases hb with
      | inr hb => exact htail hb
      | inl hb =>
        subst hb
        exact ⟨es, rfl, fun q hq => .inl (by rw [hm]; exact List.mem_append_left _ hq)⟩
    | chan s c =>
      by_cases hmg : c.magicOn = true
      · simp only [Piece.recovered, hmg, if_true, List.mem_cons] at hb
        cases hb with
        | inr hb => exact htail hb
        | inl hb =>
          subst hb
          refine ⟨c.pending, rfl, fun q hq => .inr ?_⟩
          rw [hc]
          exact List.mem_append_left _ (by simp [Piece.chanPayloads, hmg, hq])
      · simp only [Piece.recovered, hmg] at hb
        exact htail hb
    | off bs => exact htail hb

theorem expected_payloads_inert (img : List (Bytes × Piece)) (t : Bytes) (h : ImageOkI img t) :
    ∀ b ∈ expected img, ∃ ps, b.buffer = frames ps ∧ (∀ p ∈ ps, PayloadOk p) ∧
      ∀ p ∈ ps, p ∈ metaPayloads img ∨ p ∈ chanPayloads img := by
  intro b hb
  obtain ⟨ps, e, m⟩ := expected_payloads' img b hb
  exact ⟨ps, e, fun p hp => payloads_ok_inert img t h p (m p hp), m⟩

end BinlogVerif.Image
