import BinlogVerif.Lemmas.QueueBasic
/-
  The inductive invariant of the queue model.

  A *position* is a pair (lap, offset).  Positions are ordered lexicographically (`ple`).
  `btw E l1 p1 l2 p2 x` : cell `x` lies between position (l1,p1) (inclusive) and (l2,p2)
  (exclusive), where the two positions are at most one lap apart and the earlier lap ended at
  offset `E` (the value of dataEnd).  Both are local *notations* that expand to plain linear
  arithmetic, so that `omega`/`grind` see through them.

  Ghost bookkeeping: W message `i` lies on lap `lap` (number of wrap-arounds so far); all cells of
  a lap hold consecutive tokens, cell `x` holds `base + x`; so message `i` sits at token
  `base + val`, and commits `1..i` concatenate to the tokens `1 .. base+val-1` (`g4`).

  Chain of positions kept by the invariant:
     k  ≤  R_j (j ≥ pRidx)  ≤  c  ≤  rd  ≤  W_i (i ≥ cWidx)  ≤  h
  with k = (kLap,kVal) the R message the producer read last, c = (cLap,cR) the consumer
  position, rd = (rdLap,readEnd), h = (hl,pW) the newest W message; and h is less than one lap
  ahead of k (`b1`, `b2`: the one-cell gap).
-/
namespace BinlogVerif.Q

local notation "ple " l1:max p1:max l2:max p2:max => (l1 < l2 ∨ (l1 = l2 ∧ p1 ≤ p2))

local notation "btw " E:max l1:max p1:max l2:max p2:max x:max =>
  ((l1 = l2 ∧ p1 ≤ x ∧ x < p2) ∨ (l1 + 1 = l2 ∧ ((p1 ≤ x ∧ x < E) ∨ x < p2)))

/-- first uncommitted cell of the current write -/
def St.start (s : St) : Nat := if s.wrapP then 0 else s.pW

structure Inv (s : St) : Prop where
  -- A. bookkeeping
  a1p : s.pEpoch = s.wHist.length
  a1c : s.cEpoch = s.rHist.length
  a2p : s.pRidx < s.rHist.length
  a2c : s.cWidx < s.wHist.length
  a3p : s.pRidx ≤ s.pSees
  a3c : s.cWidx ≤ s.cSees
  a4 : ∀ (i : Nat) (mi : Msg), s.wHist[i]? = some mi → mi.pub = i
  a5 : ∀ (j : Nat) (mj : Msg), s.rHist[j]? = some mj → mj.pub = j
  a7d : s.data.length = s.cap
  a7w : s.wEp.length = s.cap
  a7r : s.rEp.length = s.cap
  a7e : s.we ≤ s.cap
  a7p : s.pW ≤ s.cap
  a8 : ∀ (j : Nat) (mj : Msg), s.rHist[j]? = some mj → mj.val ≤ s.cap
  a9 : s.readEnd ≤ s.cap
  a10 : ∀ (i : Nat) (mi : Msg), s.wHist[i]? = some mi → mi.val ≤ s.cap
  -- P. positions
  p1 : ple s.kLap s.kVal s.cLap s.cR
  p2 : ple s.cLap s.cR s.rdLap s.readEnd
  p3 : ple s.rdLap s.readEnd s.hl s.pW
  p4 : ∀ (j : Nat) (mj : Msg), s.pRidx ≤ j → s.rHist[j]? = some mj →
        ple s.kLap s.kVal mj.lap mj.val ∧ ple mj.lap mj.val s.cLap s.cR
  p5 : ∀ (j j' : Nat) (mj mj' : Msg), s.pRidx ≤ j → j ≤ j' → s.rHist[j]? = some mj → s.rHist[j']? = some mj' →
        ple mj.lap mj.val mj'.lap mj'.val
  p6 : ∀ (i : Nat) (mi : Msg), s.cWidx ≤ i → s.wHist[i]? = some mi →
        ple s.rdLap s.readEnd mi.lap mi.val ∧ ple mi.lap mi.val s.hl s.pW
  p7 : ∀ (i i' : Nat) (mi mi' : Msg), s.cWidx ≤ i → i ≤ i' → s.wHist[i]? = some mi → s.wHist[i']? = some mi' →
        ple mi.lap mi.val mi'.lap mi'.val
  -- B. at most two laps, one-cell gap
  b1 : s.hl ≤ s.kLap + 1
  b2 : s.hl = s.kLap + 1 → s.pW < s.kVal
  b3 : s.cLap + 1 = s.hl → s.cR ≤ s.E
  b4 : s.rdLap + 1 = s.hl → s.readEnd ≤ s.E
  b5 : ∀ (i : Nat) (mi : Msg), s.cWidx ≤ i → s.wHist[i]? = some mi → mi.lap + 1 = s.hl → mi.val ≤ s.E
  -- C. window
  c1 : s.wrapP = true → s.hl = s.kLap ∧ s.we + 1 ≤ s.kVal ∧ s.E = s.pW ∧ s.wp ≤ s.we
  c2 : s.wrapP = false → s.pW ≤ s.wp ∧ s.wp ≤ s.we ∧ (s.hl = s.kLap + 1 → s.we + 1 ≤ s.kVal)
  -- D. dataEnd
  d1 : s.hl = s.kLap + 1 → s.E ≤ s.cap
  d2 : s.eWEp ≤ s.pEpoch
  d3 : ∀ (i : Nat) (mi : Msg), s.cWidx ≤ i → s.wHist[i]? = some mi → mi.lap = s.cLap + 1 → s.eWEp ≤ i
  d4 : ∀ (j : Nat) (mj : Msg), s.pRidx ≤ j → s.rHist[j]? = some mj → j < s.eREp → mj.lap < s.hl
  d5 : s.eREp ≤ s.cEpoch
  -- F. cells
  f1 : ∀ (x j : Nat) (mj : Msg), s.pRidx ≤ j → s.rHist[j]? = some mj → j < s.rEp.getD x 0 →
        btw s.E mj.lap mj.val s.hl s.pW x
  f1' : ∀ x, s.rEp.getD x 0 ≤ s.cEpoch
  f2 : ∀ (x i : Nat) (mi : Msg), s.cWidx ≤ i → s.wHist[i]? = some mi → btw s.E s.cLap s.cR mi.lap mi.val x →
        s.wEp.getD x 0 ≤ i
  f2h : ∀ x, btw s.E s.cLap s.cR s.hl s.pW x → s.wEp.getD x 0 < s.pEpoch
  f3 : ∀ x, s.start ≤ x → x < s.wp →
        s.wEp.getD x 0 = s.pEpoch ∧ s.data.getD x 0 + s.start = s.hBase + s.pW + x
  f4lo : ∀ x, s.cLap + 1 = s.hl → s.cR ≤ x → x < s.E → s.data.getD x 0 = s.cBase + x
  f4hi : ∀ x, (s.cLap = s.hl ∧ s.cR ≤ x ∧ x < s.pW) ∨ (s.cLap + 1 = s.hl ∧ x < s.pW) →
        s.data.getD x 0 = s.hBase + x
  -- G. tokens (ghost)
  g1h : 1 ≤ s.hBase
  g1c : 1 ≤ s.cBase
  g2a : s.cLap = s.hl → s.cBase = s.hBase
  g2b : s.cLap + 1 = s.hl → s.hBase = s.cBase + s.E
  g2c : s.rdLap = s.hl → s.rdBase = s.hBase
  g2d : s.rdLap = s.cLap → s.rdBase = s.cBase
  g3 : ∀ (i : Nat) (mi : Msg), s.cWidx ≤ i → s.wHist[i]? = some mi →
        (mi.lap = s.hl → mi.base = s.hBase) ∧ (mi.lap = s.cLap → mi.base = s.cBase)
  g4 : ∀ (i : Nat) (mi : Msg), s.wHist[i]? = some mi →
        1 ≤ mi.base ∧ (s.commits.take i).flatten = List.range' 1 (mi.base + mi.val - 1)
  g4h : s.commits.flatten = List.range' 1 (s.hBase + s.pW - 1)
  g5 : s.commits.length + 1 = s.wHist.length
  g6a : s.nextTok = s.hBase + s.pW + s.pending.length
  g6b : s.pending = List.range' (s.hBase + s.pW) (s.wp - s.start)
  g7 : s.delivered.flatten = List.range' 1 (s.cBase + s.cR - 1)
  g8 : ∀ d, ∃ c, c ≤ s.commits.length ∧ (s.delivered.take d).flatten = (s.commits.take c).flatten
  g9 : s.batch = List.range' (s.cBase + s.cR) (s.rdBase + s.readEnd - (s.cBase + s.cR))
  g10 : ∃ c, c ≤ s.commits.length ∧ (s.commits.take c).flatten = List.range' 1 (s.rdBase + s.readEnd - 1)
  g11 : ∃ c, c ≤ s.commits.length ∧ (s.commits.take c).flatten = List.range' 1 (s.hBase - 1)
  g12 : ∀ p, ∃ c, c ≤ s.commits.length ∧
        (s.commits.take c).flatten = s.delivered.flatten ++ (s.pieces.take p).flatten
  g13 : s.batch = s.pieces.flatten
  g14 : s.pieces.length ≤ 2
  -- no race so far
  nr : s.race = none

theorem getElem?_singleton_some {α} (a m : α) (i : Nat) (h : [a][i]? = some m) : i = 0 ∧ m = a := by
  cases i with
  | zero => simp at h; exact ⟨rfl, h.symm⟩
  | succ i => simp at h

open Lean in
/-- `om [t1, t2, …]` : add the listed facts to the context and call `omega` -/
macro "om" "[" ts:term,* "]" : tactic => do
  let mut tacs : Array (TSyntax `tactic) := #[]
  for t in ts.getElems do
    tacs := tacs.push (← `(tactic| have := $t))
  tacs := tacs.push (← `(tactic| omega))
  `(tactic| ($[$tacs];*))

open Lean in
/-- `gr [t1, t2, …]` : add the listed facts to the context and call `grind` -/
macro "gr" "[" ts:term,* "]" : tactic => do
  let mut tacs : Array (TSyntax `tactic) := #[]
  for t in ts.getElems do
    tacs := tacs.push (← `(tactic| have := $t))
  tacs := tacs.push (← `(tactic| grind (splits := 40)))
  `(tactic| ($[$tacs];*))

/-- the unquantified position facts -/
theorem Inv.geo {s : St} (h : Inv s) :
    (ple s.kLap s.kVal s.cLap s.cR) ∧ (ple s.cLap s.cR s.rdLap s.readEnd) ∧
    (ple s.rdLap s.readEnd s.hl s.pW) ∧ s.hl ≤ s.kLap + 1 ∧ (s.hl = s.kLap + 1 → s.pW < s.kVal) ∧
    (s.cLap + 1 = s.hl → s.cR ≤ s.E) ∧ (s.rdLap + 1 = s.hl → s.readEnd ≤ s.E) :=
  ⟨h.p1, h.p2, h.p3, h.b1, h.b2, h.b3, h.b4⟩

/-- the four possible lap configurations of the chain k ≤ c ≤ rd ≤ h -/
theorem Inv.cfg {s : St} (h : Inv s) :
    (s.kLap = s.cLap ∧ s.cLap = s.rdLap ∧ s.rdLap = s.hl ∧ s.kVal ≤ s.cR ∧ s.cR ≤ s.readEnd ∧ s.readEnd ≤ s.pW) ∨
    (s.kLap = s.cLap ∧ s.cLap = s.rdLap ∧ s.rdLap + 1 = s.hl ∧ s.kVal ≤ s.cR ∧ s.cR ≤ s.readEnd ∧ s.readEnd ≤ s.E ∧ s.pW < s.kVal) ∨
    (s.kLap = s.cLap ∧ s.cLap + 1 = s.rdLap ∧ s.rdLap = s.hl ∧ s.kVal ≤ s.cR ∧ s.cR ≤ s.E ∧ s.readEnd ≤ s.pW ∧ s.pW < s.kVal) ∨
    (s.kLap + 1 = s.cLap ∧ s.cLap = s.rdLap ∧ s.rdLap = s.hl ∧ s.cR ≤ s.readEnd ∧ s.readEnd ≤ s.pW ∧ s.pW < s.kVal) := by
  gr [h.geo]

/-- the write window is disjoint from everything between the producer's view of R and W -/
theorem Inv.window {s : St} (h : Inv s) (y : Nat) (h1 : s.wp ≤ y) (h2 : y < s.we) :
    ¬ (btw s.E s.kLap s.kVal s.hl s.pW y) := by
  cases hw : s.wrapP
  · gr [h.c2 hw, h.b1, h.b2]
  · gr [h.c1 hw]

theorem Inv.start_le {s : St} (h : Inv s) : s.start ≤ s.wp := by
  unfold St.start
  cases hw : s.wrapP
  · simp only [Bool.false_eq_true, if_false]; exact (h.c2 hw).1
  · simp only [if_true]; omega

theorem getElem?_append_singleton_some {α} (l : List α) (m x : α) (i : Nat)
    (h : (l ++ [m])[i]? = some x) : (i < l.length ∧ l[i]? = some x) ∨ (i = l.length ∧ x = m) := by
  by_cases c : i < l.length
  · rw [List.getElem?_append_left c] at h; exact Or.inl ⟨c, h⟩
  · rw [List.getElem?_append_right (by omega)] at h
    obtain ⟨h1, h2⟩ := getElem?_singleton_some _ _ _ h
    exact Or.inr ⟨by omega, h2⟩

theorem getElem?_lt_length {α} (l : List α) (x : α) (i : Nat) (h : l[i]? = some x) : i < l.length := by
  by_cases c : i < l.length
  · exact c
  · rw [List.getElem?_eq_none (by omega)] at h; cases h

/-- every cell of the write window was last read in a consumer epoch the producer has seen -/
theorem Inv.window_rEp {s : St} (h : Inv s) (y : Nat) (h1 : s.wp ≤ y) (h2 : y < s.we) :
    s.rEp.getD y 0 ≤ s.pRidx := by
  apply Nat.le_of_not_lt
  intro hlt
  have hlen := h.a2p
  obtain ⟨mk, hmk⟩ : ∃ mk, s.rHist[s.pRidx]? = some mk := ⟨s.rHist[s.pRidx], List.getElem?_eq_getElem hlen⟩
  have hb := h.f1 y s.pRidx mk (Nat.le_refl _) hmk hlt
  have M := h.p4 s.pRidx mk (Nat.le_refl _) hmk
  exact h.window y h1 h2 (by gr [h.geo, h.window y h1 h2])

theorem inv_init (cap : Nat) : Inv (init cap) := by
  constructor <;> simp only [init, St.start, List.length_replicate, List.length_singleton,
      getD_replicate_zero, List.take_nil, List.flatten_nil, List.length_nil] <;> try omega
  all_goals try (intros; omega)
  all_goals try (simp; done)
  all_goals try (intro i mi h; obtain ⟨rfl, rfl⟩ := getElem?_singleton_some _ _ _ h; simp; done)
  all_goals try (intro i mi _ h; obtain ⟨rfl, rfl⟩ := getElem?_singleton_some _ _ _ h; simp; done)
  all_goals try (intro i i' mi mi' _ _ h h'; obtain ⟨rfl, rfl⟩ := getElem?_singleton_some _ _ _ h;
                 obtain ⟨rfl, rfl⟩ := getElem?_singleton_some _ _ _ h'; simp; done)
  all_goals trace_state

end BinlogVerif.Q
