import BinlogVerif.Lemmas.QueueInv
/-
  Preservation of the invariant by the consumer operations.
-/
namespace BinlogVerif.Q

theorem range'_isEmpty (a n : Nat) : (List.range' a n).isEmpty = true ↔ n = 0 := by
  cases n <;> simp [List.range'_succ]

theorem inv_cEnd (o : Orders) (ho : o.Sufficient) (s s' : St) (h : Inv s)
    (e : step o s Op.cEnd = some s') : Inv s' := by
  obtain ⟨-, -, ho3, -⟩ := ho
  simp only [step, ho3, if_true, Option.some.injEq] at e
  subst e
  have tokle : s.cBase + s.cR ≤ s.rdBase + s.readEnd := by
    gr [h.geo, h.g2a, h.g2b, h.g2c, h.g2d]
  have hdel : (if s.batch.isEmpty then s.delivered else s.delivered ++ [s.batch]).flatten
      = List.range' 1 (s.rdBase + s.readEnd - 1) := by
    have hb := h.g9
    split
    · rename_i he
      rw [hb, range'_isEmpty] at he
      rw [h.g7]; congr 1; omega
    · rw [List.flatten_append, h.g7, hb]
      simp only [List.flatten_cons, List.flatten_nil, List.append_nil]
      rw [range'_one_append _ _ (by om [h.g1c])]
      congr 1; om [h.g1c]
  constructor <;> dsimp only [St.start]
  case a1p => exact h.a1p
  case a1c => simp only [List.length_append, List.length_singleton]; om [h.a1c]
  case a2p => simp only [List.length_append, List.length_singleton]; om [h.a2p]
  case a2c => exact h.a2c
  case a3p => exact h.a3p
  case a3c => exact h.a3c
  case a4 => exact h.a4
  case a5 =>
    intro j mj hj
    rcases getElem?_append_singleton_some _ _ _ _ hj with ⟨_, hj'⟩ | ⟨hjl, rfl⟩
    · exact h.a5 j mj hj'
    · dsimp only; om [h.a1c]
  case a7d => exact h.a7d
  case a7w => exact h.a7w
  case a7r => exact h.a7r
  case a7e => exact h.a7e
  case a7p => exact h.a7p
  case a8 =>
    intro j mj hj
    rcases getElem?_append_singleton_some _ _ _ _ hj with ⟨_, hj'⟩ | ⟨hjl, rfl⟩
    · exact h.a8 j mj hj'
    · exact h.a9
  case a9 => exact h.a9
  case a10 => exact h.a10
  case p1 => gr [h.geo]
  case p2 => gr []
  case p3 => exact h.p3
  case p4 =>
    intro j mj hp hj
    rcases getElem?_append_singleton_some _ _ _ _ hj with ⟨_, hj'⟩ | ⟨hjl, rfl⟩
    · gr [h.p4 j mj hp hj', h.geo]
    · gr [h.geo]
  case p5 =>
    intro j j' mj mj' hp hjj hj hj2
    rcases getElem?_append_singleton_some _ _ _ _ hj with ⟨_, hj'⟩ | ⟨hjl, rfl⟩
    · rcases getElem?_append_singleton_some _ _ _ _ hj2 with ⟨_, hj2'⟩ | ⟨hj2l, rfl⟩
      · exact h.p5 j j' mj mj' hp hjj hj' hj2'
      · gr [h.p4 j mj hp hj', h.geo]
    · rcases getElem?_append_singleton_some _ _ _ _ hj2 with ⟨_, hj2'⟩ | ⟨hj2l, rfl⟩
      · omega
      · gr []
  case p6 => exact h.p6
  case p7 => exact h.p7
  case b1 => exact h.b1
  case b2 => exact h.b2
  case b3 => exact h.b4
  case b4 => exact h.b4
  case b5 => exact h.b5
  case c1 => exact h.c1
  case c2 => exact h.c2
  case d1 => exact h.d1
  case d2 => exact h.d2
  case d3 => intro i mi hc hi hl; gr [h.d3 i mi hc hi, h.p6 i mi hc hi, h.geo]
  case d4 =>
    intro j mj hp hj hlt
    rcases getElem?_append_singleton_some _ _ _ _ hj with ⟨_, hj'⟩ | ⟨hjl, rfl⟩
    · exact h.d4 j mj hp hj' hlt
    · om [h.d5, h.a1c]
  case d5 => om [h.d5]
  case f1 =>
    intro x j mj hp hj hlt
    rcases getElem?_append_singleton_some _ _ _ _ hj with ⟨_, hj'⟩ | ⟨hjl, rfl⟩
    · exact h.f1 x j mj hp hj' hlt
    · om [h.f1' x, h.a1c]
  case f1' => intro x; om [h.f1' x]
  case f2 => intro x i mi hc hi hb; gr [h.f2 x i mi hc hi, h.p6 i mi hc hi, h.geo]
  case f2h => intro x hb; gr [h.f2h x, h.geo]
  case f3 => exact h.f3
  case f4lo => intro x h1 h2 h3; gr [h.f4lo x, h.geo, h.g2d]
  case f4hi => intro x hx; gr [h.f4hi x, h.geo]
  case g1h => exact h.g1h
  case g1c => gr [h.geo, h.g2c, h.g2d, h.g1h, h.g1c]
  case g2a => exact h.g2c
  case g2b => gr [h.geo, h.g2b, h.g2d]
  case g2c => exact h.g2c
  case g2d => intro _; rfl
  case g3 => intro i mi hc hi; gr [h.g3 i mi hc hi, h.geo, h.g2c, h.g2d]
  case g4 => exact h.g4
  case g4h => exact h.g4h
  case g5 => exact h.g5
  case g6a => exact h.g6a
  case g6b => exact h.g6b
  case g7 => exact hdel
  case g8 =>
    intro d
    split
    · exact h.g8 d
    · by_cases hd : d ≤ s.delivered.length
      · rw [List.take_append_of_le_length hd]; exact h.g8 d
      · rw [List.take_of_length_le (by simp only [List.length_append, List.length_singleton]; omega)]
        obtain ⟨c, hcl, hc⟩ := h.g10
        refine ⟨c, hcl, ?_⟩
        rw [hc, List.flatten_append, h.g7, h.g9]
        simp only [List.flatten_cons, List.flatten_nil, List.append_nil]
        rw [range'_one_append _ _ (by om [h.g1c])]
        congr 1; om [h.g1c]
  case g9 => simp
  case g10 => exact h.g10
  case g11 => exact h.g11
  case g12 =>
    intro p
    obtain ⟨c, hcl, hc⟩ := h.g10
    refine ⟨c, hcl, ?_⟩
    rw [hc, hdel]; simp
  case g13 => rfl
  case g14 => simp
  case nr => exact h.nr


theorem Inv.whole_upto {s : St} (h : Inv s) (i : Nat) (m : Msg) (hi : s.wHist[i]? = some m)
    (hle : s.cBase + s.cR ≤ m.base + m.val) :
    ∃ c, c ≤ s.commits.length ∧ (s.commits.take c).flatten =
      s.delivered.flatten ++ List.range' (s.cBase + s.cR) (m.base + m.val - (s.cBase + s.cR)) := by
  refine ⟨i, by have := getElem?_lt_length _ _ _ hi; om [h.g5], ?_⟩
  rw [(h.g4 i m hi).2, h.g7, range'_one_append _ _ (by om [h.g1c])]
  congr 1; om [h.g1c]

theorem pieces_one {s : St} (h : Inv s) (b : List Nat)
    (hb : ∃ c, c ≤ s.commits.length ∧ (s.commits.take c).flatten = s.delivered.flatten ++ b) :
    ∀ p, ∃ c, c ≤ s.commits.length ∧
      (s.commits.take c).flatten = s.delivered.flatten ++ (([b] : List (List Nat)).take p).flatten := by
  intro p
  cases p with
  | zero =>
    obtain ⟨c, hcl, hc⟩ := h.g8 s.delivered.length
    rw [List.take_length] at hc
    exact ⟨c, hcl, by simp [hc]⟩
  | succ p => simpa using hb

theorem pieces_two {s : St} (h : Inv s) (b1 b2 : List Nat)
    (h1 : ∃ c, c ≤ s.commits.length ∧ (s.commits.take c).flatten = s.delivered.flatten ++ b1)
    (h2 : ∃ c, c ≤ s.commits.length ∧ (s.commits.take c).flatten = s.delivered.flatten ++ (b1 ++ b2)) :
    ∀ p, ∃ c, c ≤ s.commits.length ∧
      (s.commits.take c).flatten = s.delivered.flatten ++ (([b1, b2] : List (List Nat)).take p).flatten := by
  intro p
  cases p with
  | zero =>
    obtain ⟨c, hcl, hc⟩ := h.g8 s.delivered.length
    rw [List.take_length] at hc
    exact ⟨c, hcl, by simp [hc]⟩
  | succ p =>
    cases p with
    | zero => simpa using h1
    | succ p => simpa using h2

/-- the consumer-side update, given an abstract description of the cells read -/
theorem inv_cBegin_core (s : St) (h : Inv s) (i : Nat) (m : Msg)
    (hc : s.cWidx ≤ i) (hi : s.wHist[i]? = some m) (cs : Nat) (hcs : s.cSees ≤ cs ∧ i ≤ cs)
    (r : List Nat) (hrl : r.length = s.rEp.length)
    (hrv : ∀ x, r.getD x 0 =
      if ((s.cLap = m.lap ∧ s.cR ≤ x ∧ x < m.val) ∨ (s.cLap + 1 = m.lap ∧ ((s.cR ≤ x ∧ x < s.E) ∨ x < m.val)))
      then s.cEpoch else s.rEp.getD x 0)
    (er : Nat) (her : er = s.eREp ∨ (er = s.cEpoch ∧ m.lap = s.cLap + 1))
    (b : List Nat) (hb : b = List.range' (s.cBase + s.cR) (m.base + m.val - (s.cBase + s.cR)))
    (ps : List (List Nat))
    (hps : ps = [b] ∨ ∃ b1 b2, ps = [b1, b2] ∧ b = b1 ++ b2 ∧
      b1 = List.range' (s.cBase + s.cR) (s.E - s.cR) ∧ s.cLap + 1 = s.hl ∧ s.cR ≤ s.E) :
    Inv { s with cWidx := i, cSees := cs, readEnd := m.val, rdLap := m.lap, rdBase := m.base,
                 rEp := r, eREp := er, batch := b, pieces := ps } := by
  have P := h.p6 i m hc hi
  constructor <;> dsimp only [St.start]
  case a1p => exact h.a1p
  case a1c => exact h.a1c
  case a2p => exact h.a2p
  case a2c => exact getElem?_lt_length _ _ _ hi
  case a3p => exact h.a3p
  case a3c => exact hcs.2
  case a4 => exact h.a4
  case a5 => exact h.a5
  case a7d => exact h.a7d
  case a7w => exact h.a7w
  case a7r => rw [hrl]; exact h.a7r
  case a7e => exact h.a7e
  case a7p => exact h.a7p
  case a8 => exact h.a8
  case a9 => exact h.a10 i m hi
  case a10 => exact h.a10
  case p1 => exact h.p1
  case p2 => gr [h.geo, P]
  case p3 => exact P.2
  case p4 => exact h.p4
  case p5 => exact h.p5
  case p6 => intro i' mi' hc' hi'; exact ⟨h.p7 i i' m mi' hc hc' hi hi', (h.p6 i' mi' (by omega) hi').2⟩
  case p7 => intro i1 i2 m1 m2 h1 h12 hi1 hi2; exact h.p7 i1 i2 m1 m2 (by omega) h12 hi1 hi2
  case b1 => exact h.b1
  case b2 => exact h.b2
  case b3 => exact h.b3
  case b4 => exact h.b5 i m hc hi
  case b5 => intro i' mi' hc' hi'; exact h.b5 i' mi' (by omega) hi'
  case c1 => exact h.c1
  case c2 => exact h.c2
  case d1 => exact h.d1
  case d2 => exact h.d2
  case d3 => intro i' mi' hc' hi'; exact h.d3 i' mi' (by omega) hi'
  case d4 =>
    intro j mj hp hj hlt
    rcases her with rfl | ⟨rfl, hm⟩
    · exact h.d4 j mj hp hj hlt
    · gr [h.p4 j mj hp hj, P, h.geo]
  case d5 =>
    rcases her with rfl | ⟨rfl, hm⟩
    · exact h.d5
    · exact Nat.le_refl _
  case f1 =>
    intro x j mj hp hj hlt
    rw [hrv x] at hlt
    split at hlt
    · rename_i hb
      gr [h.p4 j mj hp hj, P, h.geo, h.b5 i m hc hi, hb]
    · exact h.f1 x j mj hp hj hlt
  case f1' =>
    intro x
    rw [hrv x]
    split
    · exact Nat.le_refl _
    · exact h.f1' x
  case f2 => intro x i' mi' hc' hi' hb; exact h.f2 x i' mi' (by omega) hi' hb
  case f2h => exact h.f2h
  case f3 => exact h.f3
  case f4lo => exact h.f4lo
  case f4hi => exact h.f4hi
  case g1h => exact h.g1h
  case g1c => exact h.g1c
  case g2a => exact h.g2a
  case g2b => exact h.g2b
  case g2c => exact (h.g3 i m hc hi).1
  case g2d => exact (h.g3 i m hc hi).2
  case g3 => intro i' mi' hc' hi'; exact h.g3 i' mi' (by omega) hi'
  case g4 => exact h.g4
  case g4h => exact h.g4h
  case g5 => exact h.g5
  case g6a => exact h.g6a
  case g6b => exact h.g6b
  case g7 => exact h.g7
  case g8 => exact h.g8
  case g9 => exact hb
  case g10 => exact ⟨i, by have := getElem?_lt_length _ _ _ hi; om [h.g5], (h.g4 i m hi).2⟩
  case g11 => exact h.g11
  case g12 =>
    intro p
    have hle : s.cBase + s.cR ≤ m.base + m.val := by
      gr [P, h.geo, h.g3 i m hc hi, h.g2a, h.g2b, h.b5 i m hc hi]
    have hw := h.whole_upto i m hi hle
    rw [← hb] at hw
    rcases hps with rfl | ⟨b1, b2, rfl, hbb, hb1, hl1, hl2⟩
    · exact pieces_one h b hw p
    · refine pieces_two h b1 b2 ?_ (by rw [← hbb]; exact hw) p
      obtain ⟨c, hcl, hc⟩ := h.g11
      refine ⟨c, hcl, ?_⟩
      rw [hc, h.g7, hb1, range'_one_append _ _ (by om [h.g1c])]
      congr 1; om [h.g2b hl1, h.g1c]
  case g13 =>
    rcases hps with rfl | ⟨b1, b2, rfl, hbb, hb1, hl1, hl2⟩
    · simp
    · simp [hbb]
  case g14 =>
    rcases hps with rfl | ⟨b1, b2, rfl, hbb, hb1, hl1, hl2⟩
    · simp
    · simp
  case nr => exact h.nr



/-! ### cBegin : named pieces of the step -/

/-- state after the (acquire) load of W-message `m` at index `i` -/
def cView (o : Orders) (s : St) (i : Nat) (m : Msg) : St :=
  { s with cWidx := i,
           cSees := if o.wLoadC = MOrd.acquire then max s.cSees m.pub else s.cSees,
           readEnd := m.val, rdLap := m.lap, rdBase := m.base }

/-- the non-atomic read of dataEnd -/
def cEndRead (s1 : St) : St :=
  let s := if s1.eWEp > s1.cSees then flag s1 RaceKind.cReadEnd else s1
  { s with eREp := s.cEpoch }

theorem step_cBegin (o : Orders) (s : St) (i : Nat) (m : Msg)
    (hc : ¬ i < s.cWidx) (hi : s.wHist[i]? = some m) :
    step o s (Op.cBegin i) =
      (let s1 := cView o s i m
       if s1.cR ≤ m.val then
         let p := cReadRange s1 s1.cR (m.val - s1.cR)
         some { p.1 with batch := p.2, pieces := [p.2] }
       else
         let s2 := cEndRead s1
         if s1.cR < s2.E then
           if s2.E > s2.cap then some (flag s2 RaceKind.endOverCap)
           else
             let p1 := cReadRange s2 s1.cR (s2.E - s1.cR)
             let p2 := cReadRange p1.1 0 m.val
             some { p2.1 with batch := p1.2 ++ p2.2, pieces := [p1.2, p2.2] }
         else
           let p := cReadRange s2 0 m.val
           some { p.1 with batch := p.2, pieces := [p.2] }) := by
  simp only [step, hc, hi, if_false]; rfl

/-- effect of `cBegin` on a state satisfying the invariant -/
theorem cBegin_post (o : Orders) (ho : o.Sufficient) (s s' : St) (h : Inv s) (i : Nat)
    (e : step o s (Op.cBegin i) = some s') :
    Inv s' ∧ s'.cR = s.cR ∧ s'.cBase = s.cBase ∧
      ∃ m, s.wHist[i]? = some m ∧ s'.readEnd = m.val ∧ s'.rdBase = m.base := by
  obtain ⟨-, ho2, -, -⟩ := ho
  by_cases hc : i < s.cWidx
  · simp only [step, hc, if_true] at e; cases e
  cases hi : s.wHist[i]? with
  | none => simp only [step, hc, hi, if_false] at e; cases e
  | some m =>
  rw [step_cBegin o s i m hc hi] at e
  have hc : s.cWidx ≤ i := by omega
  have P := h.p6 i m hc hi
  have hpub := h.a4 i m hi
  have hcs : s.cSees ≤ max s.cSees m.pub ∧ i ≤ max s.cSees m.pub := by omega
  have hview : cView o s i m = { s with cWidx := i, cSees := (max s.cSees m.pub), readEnd := m.val, rdLap := m.lap, rdBase := m.base } := by
    simp only [cView, ho2, if_true]
  have G3 := h.g3 i m hc hi
  have B5 := h.b5 i m hc hi
  dsimp only at e
  split at e
  · -- same lap: read [cR, m.val)
    rename_i hle
    have hle : s.cR ≤ m.val := hle
    have hlap : m.lap = s.cLap := by gr [P, h.geo]
    have hnr : ∀ y, s.cR ≤ y → y < s.cR + (m.val - s.cR) → s.wEp.getD y 0 ≤ max s.cSees m.pub := by
      intro y h1 h2
      have := h.f2 y i m hc hi (by gr [])
      omega
    obtain ⟨r, er, hrl, hrv⟩ := cReadRange_spec (m.val - s.cR) (cView o s i m) s.cR (by rw [hview]; exact hnr)
    have ecr : (cView o s i m).cR = s.cR := rfl
    rw [ecr, er] at e
    simp only [Option.some.injEq] at e
    subst e
    rw [hview]
    refine ⟨?_, rfl, rfl, m, rfl, rfl, rfl⟩
    refine inv_cBegin_core s h i m hc hi _ hcs r hrl ?_ s.eREp (Or.inl rfl) _ ?_ _ (Or.inl rfl)
    · intro x
      rw [hrv x]
      have : (cView o s i m).rEp = s.rEp := rfl
      have : (cView o s i m).cEpoch = s.cEpoch := rfl
      have := h.a7r
      have := h.a10 i m hi
      split <;> split <;> first | rfl | (exfalso; grind (splits := 40))
    · have hd : ∀ y, s.cR ≤ y → y < s.cR + (m.val - s.cR) → s.data.getD y 0 = s.cBase + y := by
        intro y h1 h2
        have := h.f4lo y
        have := h.f4hi y
        gr [h.geo, h.g2a, P]
      have := map_getD_range' s.data s.cBase (m.val - s.cR) s.cR hd
      dsimp only
      rw [this]
      congr 1; om [G3.2 hlap]
  · -- next lap: read dataEnd, then the cells
    rename_i hgt
    have hgt : m.val < s.cR := by have : (cView o s i m).cR = s.cR := rfl; omega
    have hlap : m.lap = s.cLap + 1 ∧ s.hl = s.cLap + 1 ∧ s.kLap = s.cLap := by gr [P, h.geo]
    have hE : s.E ≤ s.cap := h.d1 (by omega)
    have hnre : ¬ ((cView o s i m).eWEp > (cView o s i m).cSees) := by
      rw [hview]
      have := h.d3 i m hc hi hlap.1
      dsimp only; omega
    have hs2 : cEndRead (cView o s i m) = { s with cWidx := i, cSees := (max s.cSees m.pub), readEnd := m.val, rdLap := m.lap, rdBase := m.base, eREp := s.cEpoch } := by
      simp only [cEndRead, hnre, if_false]; rw [hview]
    rw [hs2] at e
    simp only [show (cView o s i m).cR = s.cR from rfl] at e
    have hcRE : s.cR ≤ s.E := h.b3 (by omega)
    have hbase : m.base = s.hBase ∧ s.hBase = s.cBase + s.E := ⟨G3.1 (by omega), h.g2b (by omega)⟩
    have hmv : m.val ≤ s.pW := by gr [P, hlap]
    have hnr0 : ∀ y, 0 ≤ y → y < 0 + m.val → s.wEp.getD y 0 ≤ max s.cSees m.pub := by
      intro y h1 h2
      have := h.f2 y i m hc hi (by gr [hlap])
      omega
    have hd0 : ∀ y, 0 ≤ y → y < 0 + m.val → s.data.getD y 0 = s.hBase + y := by
      intro y h1 h2
      exact h.f4hi y (Or.inr ⟨by omega, by omega⟩)
    split at e
    · rename_i hlt
      split at e
      · omega
      have hnr1 : ∀ y, s.cR ≤ y → y < s.cR + (s.E - s.cR) → s.wEp.getD y 0 ≤ max s.cSees m.pub := by
        intro y h1 h2
        have := h.f2 y i m hc hi (by gr [hlap])
        omega
      obtain ⟨r1, er1, hrl1, hrv1⟩ := cReadRange_spec (s.E - s.cR) { s with cWidx := i, cSees := (max s.cSees m.pub), readEnd := m.val, rdLap := m.lap, rdBase := m.base, eREp := s.cEpoch } s.cR hnr1
      rw [er1] at e
      dsimp only at e
      obtain ⟨r2, er2, hrl2, hrv2⟩ := cReadRange_spec m.val
        { s with cWidx := i, cSees := (max s.cSees m.pub), readEnd := m.val, rdLap := m.lap, rdBase := m.base, eREp := s.cEpoch, rEp := r1 } 0 hnr0
      rw [er2] at e
      simp only [Option.some.injEq] at e
      subst e
      refine ⟨?_, rfl, rfl, m, rfl, rfl, rfl⟩
      have hd1 : ∀ y, s.cR ≤ y → y < s.cR + (s.E - s.cR) → s.data.getD y 0 = s.cBase + y := by
        intro y h1 h2
        exact h.f4lo y (by omega) h1 (by omega)
      refine inv_cBegin_core s h i m hc hi _ hcs r2 (by rw [hrl2]; exact hrl1) ?_ s.cEpoch
        (Or.inr ⟨rfl, hlap.1⟩) _ ?_ _
        (Or.inr ⟨_, _, rfl, rfl, map_getD_range' s.data s.cBase (s.E - s.cR) s.cR hd1, by omega, hcRE⟩)
      · intro x
        rw [hrv2 x]
        dsimp only
        have := hrv1 x
        dsimp only at this
        have := h.a7r
        have := h.a10 i m hi
        split <;> split <;> first | rfl | (exfalso; grind (splits := 40)) | grind (splits := 40)
      · rw [map_getD_range' s.data s.cBase (s.E - s.cR) s.cR hd1,
            map_getD_range' s.data s.hBase m.val 0 hd0]
        have e1 : s.hBase + 0 = s.cBase + s.cR + (s.E - s.cR) := by omega
        rw [e1, range'_append_range']
        congr 1; omega
    · rename_i hnlt
      obtain ⟨r, er, hrl, hrv⟩ := cReadRange_spec m.val { s with cWidx := i, cSees := (max s.cSees m.pub), readEnd := m.val, rdLap := m.lap, rdBase := m.base, eREp := s.cEpoch } 0 hnr0
      rw [er] at e
      simp only [Option.some.injEq] at e
      subst e
      refine ⟨?_, rfl, rfl, m, rfl, rfl, rfl⟩
      refine inv_cBegin_core s h i m hc hi _ hcs r hrl ?_ s.cEpoch (Or.inr ⟨rfl, hlap.1⟩) _ ?_ _ (Or.inl rfl)
      · intro x
        rw [hrv x]
        dsimp only
        have := h.a7r
        have := h.a10 i m hi
        split <;> split <;> first | rfl | (exfalso; grind (splits := 40))
      · rw [map_getD_range' s.data s.hBase m.val 0 hd0]
        have e1 : s.hBase + 0 = s.cBase + s.cR := by omega
        rw [e1]
        congr 1; omega

theorem inv_cBegin (o : Orders) (ho : o.Sufficient) (s s' : St) (h : Inv s) (i : Nat)
    (e : step o s (Op.cBegin i) = some s') : Inv s' :=
  (cBegin_post o ho s s' h i e).1

end BinlogVerif.Q
