import BinlogVerif.Lemmas.Classify
import BinlogVerif.Lemmas.SessionMeta
import BinlogVerif.Props.C12
import BinlogVerif.Reader.Bread
/-
  Reading back what the session wrote: the reference reader on STRUCTURED entries (`expectedItems`) and
  the proof that `bread`'s item stream over the written bytes is exactly that (`read_back`).
-/
namespace BinlogVerif.E2E
open BinlogVerif BinlogVerif.Sess

/-- what reading a list of structured entries yields: each event entry becomes an item carrying the LATEST
    source defined with its id before it (`srcs`: the definitions so far, newest first), the latest writer
    properties and the latest clock sync; an event whose id has no definition before it is an
    `invalidSource` error item -/
def expectedItems (srcs : List EventSource) (wp : WriterProp) (cs : ClockSync) : List Entry → List Item
  | [] => []
  | .source s :: es => expectedItems (s :: srcs) wp cs es
  | .writerProp w :: es => expectedItems srcs w cs es
  | .clockSync c :: es => expectedItems srcs wp c es
  | .event sid clock args :: es =>
    (match srcs.find? (fun s => s.id == sid) with
     | some src => Item.event ⟨src, clock, args⟩ wp cs
     | none => Item.error .invalidSource) :: expectedItems srcs wp cs es

/-- representability of an entry: every field fits its machine type, the payload fits the 32-bit size
    prefix, and the source id of an event is not a special tag (top bit clear) -/
def EntryWf : Entry → Prop
  | .clockSync cs => cs.Wf ∧ PayloadOk (clockSyncPayload cs)
  | .source s => s.Wf ∧ PayloadOk (sourcePayload s)
  | .writerProp w => w.Wf ∧ PayloadOk (writerPropPayload w)
  | .event sid clock args => sid < 2^63 ∧ clock < 2^64 ∧ PayloadOk (eventPayload sid clock args)

theorem EntryWf.payloadOk {e : Entry} (h : EntryWf e) : PayloadOk e.payload := by
  cases e with
  | clockSync cs => exact h.2
  | source s => exact h.2
  | writerProp w => exact h.2
  | event sid clock args => exact h.2.2

/-- no entry has an empty payload (so the reader never takes an entry for the end of the stream) -/
theorem payload_ne_nil (e : Entry) : e.payload.isEmpty = false := by
  cases e <;> exact le_append_isEmpty 8 _ _ (by decide)

/-! ### one payload -/

theorem classify_source (s : EventSource) (h : s.Wf) : classify (sourcePayload s) = .source s := by
  have hd := decSource_encSource s [] h
  rw [List.append_nil] at hd
  unfold classify sourcePayload
  rw [le_append_isEmpty 8 _ _ (by decide), readU_le_append 8 _ _ (by decide)]
  simp [hd]

theorem classify_writerProp (w : WriterProp) (h : w.Wf) : classify (writerPropPayload w) = .writerProp w := by
  have hd := decWriterProp_enc w [] h
  rw [List.append_nil] at hd
  obtain ⟨_, _, _, n12, _, _⟩ := special_tags
  unfold classify writerPropPayload
  rw [le_append_isEmpty 8 _ _ (by decide), readU_le_append 8 _ _ (by decide)]
  simp [hd, Ne.symm n12]

theorem classify_clockSync (c : ClockSync) (h : c.Wf) : classify (clockSyncPayload c) = .clockSync c := by
  have hd := decClockSync_enc c [] h
  rw [List.append_nil] at hd
  obtain ⟨_, _, _, _, n13, n23⟩ := special_tags
  unfold classify clockSyncPayload
  rw [le_append_isEmpty 8 _ _ (by decide), readU_le_append 8 _ _ (by decide)]
  simp [hd, Ne.symm n13, Ne.symm n23]

theorem stepEntry_source (st : ReaderState) (s : EventSource) (h : s.Wf) :
    stepEntry st (sourcePayload s) = some ([], { st with sources := st.sources.emplace s.id s }) := by
  simp [stepEntry, processEntry_eq_spec, classify_source s h, processSpec]

theorem stepEntry_writerProp (st : ReaderState) (w : WriterProp) (h : w.Wf) :
    stepEntry st (writerPropPayload w) = some ([], { st with writerProp := w }) := by
  simp [stepEntry, processEntry_eq_spec, classify_writerProp w h, processSpec]

theorem stepEntry_clockSync (st : ReaderState) (c : ClockSync) (h : c.Wf) :
    stepEntry st (clockSyncPayload c) = some ([], { st with clockSync := c }) := by
  simp [stepEntry, processEntry_eq_spec, classify_clockSync c h, processSpec]

theorem stepEntry_event (st : ReaderState) (sid clock : Nat) (args : Bytes) (hs : sid < 2^63) (hc : clock < 2^64) :
    stepEntry st (eventPayload sid clock args) =
      some ([match st.sources.find sid with
             | some src => Item.event ⟨src, clock, args⟩ st.writerProp st.clockSync
             | none => Item.error .invalidSource], st) := by
  have hcl : clock < 256 ^ 8 := by simpa using hc
  unfold stepEntry eventPayload
  rw [List.append_assoc, processEntry_event st sid _ hs]
  cases hf : st.sources.find sid with
  | none => rfl
  | some src => simp only; rw [readU_le_append 8 clock _ hcl]

/-! ### the simulation between the reader state and the abstract `(srcs, wp, cs)` -/

structure Sim (st : ReaderState) (srcs : List EventSource) (wp : WriterProp) (cs : ClockSync) : Prop where
  inv : SegMap.Inv st.sources
  find : ∀ id, id < 2^64 → st.sources.find id = srcs.find? (fun s => s.id == id)
  wp : st.writerProp = wp
  cs : st.clockSync = cs

theorem sim_init : Sim {} [] {} {} :=
  ⟨SegMap.inv_empty, fun id _ => by simp [SegMap.find_empty], rfl, rfl⟩

theorem sim_source {st srcs wp cs} (h : Sim st srcs wp cs) (s : EventSource) (hs : s.id < 2^64) :
    Sim { st with sources := st.sources.emplace s.id s } (s :: srcs) wp cs := by
  refine ⟨SegMap.inv_emplace _ _ _ h.inv hs, ?_, h.wp, h.cs⟩
  intro id hid
  show SegMap.find (SegMap.emplace st.sources s.id s) id = _
  rw [SegMap.find_emplace _ _ _ _ h.inv hs hid, List.find?_cons]
  by_cases hi : id = s.id
  · subst hi; simp
  · have : (s.id == id) = false := by simp; exact fun e => hi e.symm
    rw [if_neg hi, this, h.find id hid]

theorem readAll_expected (es : List Entry) (hwf : ∀ e ∈ es, EntryWf e)
    (st : ReaderState) (srcs : List EventSource) (wp : WriterProp) (cs : ClockSync) (hsim : Sim st srcs wp cs) :
    readAll st (es.map Entry.payload) = expectedItems srcs wp cs es := by
  induction es generalizing st srcs wp cs with
  | nil => rfl
  | cons e es ih =>
    have he := hwf e (by simp)
    have hes : ∀ x ∈ es, EntryWf x := fun x hx => hwf x (by simp [hx])
    cases e with
    | source s =>
      simp only [List.map_cons, Entry.payload, readAll, stepEntry_source st s he.1, expectedItems, List.nil_append]
      exact ih hes _ _ _ _ (sim_source hsim s he.1.1)
    | writerProp w =>
      simp only [List.map_cons, Entry.payload, readAll, stepEntry_writerProp st w he.1, expectedItems, List.nil_append]
      exact ih hes _ _ _ _ ⟨hsim.inv, hsim.find, rfl, hsim.cs⟩
    | clockSync c =>
      simp only [List.map_cons, Entry.payload, readAll, stepEntry_clockSync st c he.1, expectedItems, List.nil_append]
      exact ih hes _ _ _ _ ⟨hsim.inv, hsim.find, hsim.wp, rfl⟩
    | event sid clock args =>
      have h64 : sid < 2^64 := Nat.lt_trans he.1 (by decide)
      simp only [List.map_cons, Entry.payload, readAll, stepEntry_event st sid clock args he.1 he.2.1, expectedItems,
        List.singleton_append, hsim.find sid h64, hsim.wp, hsim.cs]
      rw [ih hes _ _ _ _ hsim]

/-- **reading back**: the items `bread` obtains from the bytes of a list of well-formed entries are the
    expected items of the structured entries, and there is no stream error -/
theorem read_back (es : List Entry) (hwf : ∀ e ∈ es, EntryWf e) :
    Bread.itemsOf (writeBytes es) = expectedItems [] {} {} es := by
  have hsplit := C12.splitEntries_frames (es.map Entry.payload) (by
    intro p hp
    simp only [List.mem_map] at hp
    obtain ⟨e, he, rfl⟩ := hp
    exact (hwf e he).payloadOk)
  unfold Bread.itemsOf writeBytes
  rw [hsplit]
  simp only [readAll_expected es hwf {} [] {} {} sim_init]
  split <;> rfl

end BinlogVerif.E2E
