import BinlogVerif.Generated.SrcRecovery
import BinlogVerif.Lemmas.SrcBridgeTactic
/- Bridge lemmas (see SrcBridgeTactic.lean): model = source for the Recovery functions. -/
namespace BinlogVerif.SrcBridge
open BinlogVerif BinlogVerif.CSem BinlogVerif.Generated

/-! ### brecovery.cpp -/

/-- `checkQueueInvariants`: exactly the model's rejection test of `Recovery.readData` -/
theorem checkQueueInvariants_bridge (w e rd cap : Nat) :
    (Src.checkQueueInvariants w e rd cap).ret = decide (¬ (w > cap ∨ e > cap ∨ rd > cap)) := by
  bridge_unfold [Src.checkQueueInvariants]
  bridge_arith []


end BinlogVerif.SrcBridge
