import BinlogVerif.Conc.Queue
/-
  Basic facts about the queue model: list cell updates, the two range loops, `exec`.
-/
namespace BinlogVerif.Q

/-- the `Nat` wrap test used by `step` is the `int64` test of the C++ code -/
theorem wrap_cond_int (cap w r : Nat) :
    ((cap : Int) - (w : Int) ≥ (r : Int) - 1) ↔ r + w ≤ cap + 1 := by omega

theorem getD_set (l : List Nat) (i j a : Nat) :
    (l.set i a).getD j 0 = if i = j ∧ i < l.length then a else l.getD j 0 := by
  simp only [List.getD_eq_getElem?_getD, List.getElem?_set]
  by_cases h : i = j
  · subst h
    by_cases h2 : i < l.length
    · simp [h2]
    · simp [h2]
  · simp [h]

theorem getD_replicate_zero (n x : Nat) : (List.replicate n 0).getD x 0 = 0 := by
  simp only [List.getD_eq_getElem?_getD, List.getElem?_replicate]
  split <;> rfl

theorem getD_of_length_le (l : List Nat) (x : Nat) (h : l.length ≤ x) : l.getD x 0 = 0 := by
  simp [List.getD_eq_getElem?_getD, List.getElem?_eq_none h]

/-! ### flag -/

theorem flag_race_none_iff (s : St) (k : RaceKind) : (flag s k).race ≠ none := by
  unfold flag
  split
  · rename_i h; intro h2; rw [h2] at h; simp at h
  · simp

/-! ### writeCells -/

theorem writeCells_spec (k : Nat) : ∀ (s : St) (x : Nat),
    (∀ y, x ≤ y → y < x + k → s.rEp.getD y 0 ≤ s.pSees) →
    ∃ d w, writeCells s x k = { s with data := d, wEp := w, nextTok := s.nextTok + k } ∧
      d.length = s.data.length ∧ w.length = s.wEp.length ∧
      (∀ y, d.getD y 0 = if x ≤ y ∧ y < x + k ∧ y < s.data.length then s.nextTok + (y - x) else s.data.getD y 0) ∧
      (∀ y, w.getD y 0 = if x ≤ y ∧ y < x + k ∧ y < s.wEp.length then s.pEpoch else s.wEp.getD y 0) := by
  induction k with
  | zero =>
    intro s x _
    refine ⟨s.data, s.wEp, rfl, rfl, rfl, ?_, ?_⟩ <;> intro y <;> simp <;> omega
  | succ k ih =>
    intro s x h
    have hx : ¬ (s.rEp.getD x 0 > s.pSees) := by have := h x (Nat.le_refl _) (by omega); omega
    have e1 : pWriteCell { s with nextTok := s.nextTok + 1 } x s.nextTok
        = { s with nextTok := s.nextTok + 1, data := s.data.set x s.nextTok, wEp := s.wEp.set x s.pEpoch } := by
      simp only [pWriteCell, hx, if_false]
    obtain ⟨d, w, e, hd, hw, hdv, hwv⟩ := ih
      { s with nextTok := s.nextTok + 1, data := s.data.set x s.nextTok, wEp := s.wEp.set x s.pEpoch } (x+1)
      (by intro y h1 h2; exact h y (by omega) (by omega))
    refine ⟨d, w, ?_, ?_, ?_, ?_, ?_⟩
    · simp only [writeCells, e1, e]
      have : s.nextTok + 1 + k = s.nextTok + (k + 1) := by omega
      simp only [this]
    · simpa using hd
    · simpa using hw
    · intro y
      rw [hdv y]
      simp only [List.length_set, getD_set]
      by_cases c1 : x + 1 ≤ y ∧ y < x + 1 + k ∧ y < s.data.length
      · rw [if_pos c1, if_pos (by omega)]; omega
      · rw [if_neg c1]
        by_cases c2 : x = y ∧ x < s.data.length
        · rw [if_pos c2, if_pos (by omega)]; omega
        · rw [if_neg c2, if_neg (by omega)]
    · intro y
      rw [hwv y]
      simp only [List.length_set, getD_set]
      by_cases c1 : x + 1 ≤ y ∧ y < x + 1 + k ∧ y < s.wEp.length
      · rw [if_pos c1, if_pos (by omega)]
      · rw [if_neg c1]
        by_cases c2 : x = y ∧ x < s.wEp.length
        · rw [if_pos c2, if_pos (by omega)]
        · rw [if_neg c2, if_neg (by omega)]

/-! ### cReadRange -/

theorem cReadRange_spec (n : Nat) : ∀ (s : St) (lo : Nat),
    (∀ y, lo ≤ y → y < lo + n → s.wEp.getD y 0 ≤ s.cSees) →
    ∃ r, cReadRange s lo n = ({ s with rEp := r }, (List.range' lo n).map (fun y => s.data.getD y 0)) ∧
      r.length = s.rEp.length ∧
      (∀ y, r.getD y 0 = if lo ≤ y ∧ y < lo + n ∧ y < s.rEp.length then s.cEpoch else s.rEp.getD y 0) := by
  induction n with
  | zero =>
    intro s lo _
    refine ⟨s.rEp, rfl, rfl, ?_⟩
    intro y; simp; omega
  | succ n ih =>
    intro s lo h
    have hx : ¬ (s.wEp.getD lo 0 > s.cSees) := by have := h lo (Nat.le_refl _) (by omega); omega
    have e1 : cReadCell s lo = ({ s with rEp := s.rEp.set lo s.cEpoch }, s.data.getD lo 0) := by
      simp only [cReadCell, hx, if_false]
    obtain ⟨r, e, hr, hrv⟩ := ih { s with rEp := s.rEp.set lo s.cEpoch } (lo+1)
      (by intro y h1 h2; exact h y (by omega) (by omega))
    refine ⟨r, ?_, ?_, ?_⟩
    · simp only [cReadRange, e1, e, List.range'_succ, List.map_cons]
    · simpa using hr
    · intro y
      rw [hrv y]
      simp only [List.length_set, getD_set]
      by_cases c1 : lo + 1 ≤ y ∧ y < lo + 1 + n ∧ y < s.rEp.length
      · rw [if_pos c1, if_pos (by omega)]
      · rw [if_neg c1]
        by_cases c2 : lo = y ∧ lo < s.rEp.length
        · rw [if_pos c2, if_pos (by omega)]
        · rw [if_neg c2, if_neg (by omega)]

/-- reading consecutive cells that hold consecutive tokens yields a token range -/
theorem map_getD_range' (data : List Nat) (b : Nat) (n : Nat) : ∀ (lo : Nat),
    (∀ y, lo ≤ y → y < lo + n → data.getD y 0 = b + y) →
    (List.range' lo n).map (fun y => data.getD y 0) = List.range' (b + lo) n := by
  induction n with
  | zero => intro lo _; rfl
  | succ n ih =>
    intro lo h
    simp only [List.range'_succ, List.map_cons]
    rw [h lo (Nat.le_refl _) (by omega), ih (lo+1) (by intro y h1 h2; exact h y (by omega) (by omega))]
    rfl

theorem range'_append_range' (a m n : Nat) :
    List.range' a m ++ List.range' (a + m) n = List.range' a (m + n) := by
  simp

theorem range'_one_append (a n : Nat) (ha : 1 ≤ a) :
    List.range' 1 (a - 1) ++ List.range' a n = List.range' 1 (a - 1 + n) := by
  have := range'_append_range' 1 (a - 1) n
  rw [show 1 + (a - 1) = a by omega] at this
  exact this

/-! ### exec -/

theorem exec_append (o : Orders) : ∀ (tr : List Op) (s : St) (op : Op),
    exec o s (tr ++ [op]) = (exec o s tr).bind (fun s' => step o s' op) := by
  intro tr
  induction tr with
  | nil => intro s op; simp [exec]
  | cons a tr ih =>
    intro s op
    simp only [List.cons_append, exec]
    cases h : step o s a with
    | none => rfl
    | some s1 => simp only [Option.bind_some]; exact ih s1 op

/-- `exec` is the monadic left fold of `step` -/
theorem exec_eq_foldlM (o : Orders) : ∀ (tr : List Op) (s : St), exec o s tr = tr.foldlM (step o) s := by
  intro tr
  induction tr with
  | nil => intro s; rfl
  | cons a tr ih =>
    intro s
    simp only [exec, List.foldlM_cons]
    cases step o s a with
    | none => rfl
    | some s1 => exact ih s1

/-- an invariant of `step` that holds initially holds after every run -/
theorem exec_invariant (o : Orders) (P : St → Prop)
    (hstep : ∀ s op s', P s → step o s op = some s' → P s') :
    ∀ (tr : List Op) (s s' : St), P s → exec o s tr = some s' → P s' := by
  intro tr
  induction tr with
  | nil => intro s s' h e; simp only [exec, Option.some.injEq] at e; exact e ▸ h
  | cons a tr ih =>
    intro s s' h e
    simp only [exec] at e
    cases h1 : step o s a with
    | none => rw [h1] at e; simp at e
    | some s1 =>
      rw [h1] at e
      exact ih s1 s' (hstep s a s1 h h1) e

end BinlogVerif.Q
