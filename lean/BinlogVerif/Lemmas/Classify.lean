import BinlogVerif.Lemmas.ReaderState
import BinlogVerif.Reader.Filter
/-
  A payload is of exactly one kind; both the reader and the filter are characterised per kind.
  This removes all repeated case analysis from the property proofs.
-/
namespace BinlogVerif

inductive PayloadKind where
  | empty
  | short                                  -- 1..7 bytes: no tag
  | source (s : EventSource)
  | badSource (e : Err)
  | writerProp (w : WriterProp)
  | badWriterProp (e : Err)
  | clockSync (c : ClockSync)
  | badClockSync (e : Err)
  | unknownSpecial (tag : Nat)
  | event (id : Nat) (rest : Bytes)        -- non-special tag, rest = clock + arguments (maybe short)
deriving Repr

def classify (p : Bytes) : PayloadKind :=
  if p.isEmpty then .empty else
  match readU 8 p with
  | .error _ => .short
  | .ok (tag, body) =>
    if tag = tagEventSource then
      match decSource body with
      | .ok (s, _) => .source s
      | .error e => .badSource e
    else if tag = tagWriterProp then
      match decWriterProp body with
      | .ok (w, _) => .writerProp w
      | .error e => .badWriterProp e
    else if tag = tagClockSync then
      match decClockSync body with
      | .ok (c, _) => .clockSync c
      | .error e => .badClockSync e
    else if isSpecial tag then .unknownSpecial tag
    else .event tag body

/-- what the reader does for a payload of each kind -/
def processSpec (st : ReaderState) : PayloadKind → Outcome EntryResult × ReaderState
  | .empty => (.ok .stop, st)
  | .short => (.error .overflow, st)
  | .source s => (.ok .skip, { st with sources := st.sources.emplace s.id s })
  | .badSource e => (.error e, st)
  | .writerProp w => (.ok .skip, { st with writerProp := w })
  | .badWriterProp e => (.error e, st)
  | .clockSync c => (.ok .skip, { st with clockSync := c })
  | .badClockSync e => (.error e, st)
  | .unknownSpecial _ => (.ok .skip, st)
  | .event id rest =>
    match st.sources.find id with
    | none => (.error .invalidSource, st)
    | some src =>
      match readU 8 rest with
      | .error e => (.error e, st)
      | .ok (clock, args) => (.ok (.event ⟨src, clock, args⟩), st)

theorem readU_error_overflow {n : Nat} {r : Bytes} {e : Err} (h : readU n r = .error e) : e = .overflow := by
  unfold readU takeN at h
  by_cases hle : n ≤ r.length
  · simp [hle] at h
  · simp [hle] at h; exact h.symm

theorem processEntry_eq_spec (st : ReaderState) (p : Bytes) :
    processEntry st p = processSpec st (classify p) := by
  obtain ⟨s1, s2, s3, n12, n13, n23⟩ := special_tags
  unfold processEntry processEntryCore classify
  by_cases hE : p.isEmpty = true
  · simp [hE, processSpec, pure, Except.pure]
  · simp only [hE, Bool.false_eq_true, if_false]
    cases hr : readU 8 p with
    | error e =>
      have := readU_error_overflow hr
      subst this
      simp [bind, Except.bind, processSpec]
    | ok tb =>
      obtain ⟨tag, body⟩ := tb
      simp only [bind, Except.bind, pure, Except.pure]
      by_cases h1 : tag = tagEventSource
      · subst h1
        simp only [s1, if_true]
        cases hd : decSource body with
        | error e => simp [processSpec]
        | ok sr => obtain ⟨s, r⟩ := sr; simp [processSpec]
      · by_cases h2 : tag = tagWriterProp
        · subst h2
          simp only [s2, if_true, h1, if_false]
          cases hd : decWriterProp body with
          | error e => simp [processSpec]
          | ok sr => obtain ⟨s, r⟩ := sr; simp [processSpec]
        · by_cases h3 : tag = tagClockSync
          · subst h3
            simp only [s3, if_true, h1, h2, if_false]
            cases hd : decClockSync body with
            | error e => simp [processSpec]
            | ok sr => obtain ⟨s, r⟩ := sr; simp [processSpec]
          · simp only [h1, h2, h3, if_false]
            by_cases hs : isSpecial tag = true
            · simp [hs, processSpec]
            · simp only [hs, Bool.false_eq_true, if_false, processSpec]
              cases hf : st.sources.find tag with
              | none => simp [throw, throwThe, MonadExceptOf.throw]
              | some src =>
                simp only
                cases hc : readU 8 body with
                | error e => simp
                | ok ca => obtain ⟨c, a⟩ := ca; simp

/-- what the filter does for a payload of each kind -/
def filterSpec (pred : EventSource → Bool) (allowed : IdSet) : PayloadKind → Outcome (Bool × IdSet)
  | .empty => .error .overflow
  | .short => .error .overflow
  | .source s => .ok (true, allowed.set s.id (pred s))
  | .badSource e => .error e
  | .writerProp _ => .ok (true, allowed)
  | .badWriterProp _ => .ok (true, allowed)
  | .clockSync _ => .ok (true, allowed)
  | .badClockSync _ => .ok (true, allowed)
  | .unknownSpecial _ => .ok (true, allowed)
  | .event id _ => .ok (allowed id, allowed)

theorem filterEntry_eq_spec (pred : EventSource → Bool) (allowed : IdSet) (p : Bytes) :
    filterEntry pred allowed p = filterSpec pred allowed (classify p) := by
  obtain ⟨s1, s2, s3, n12, n13, n23⟩ := special_tags
  unfold filterEntry classify
  by_cases hE : p.isEmpty = true
  · have : p = [] := by simpa using hE
    subst this
    simp [filterSpec, readU, takeN, bind, Except.bind]
  · simp only [hE, Bool.false_eq_true, if_false]
    cases hr : readU 8 p with
    | error e =>
      have := readU_error_overflow hr
      subst this
      simp [bind, Except.bind, filterSpec]
    | ok tb =>
      obtain ⟨tag, body⟩ := tb
      simp only [bind, Except.bind, pure, Except.pure]
      by_cases h1 : tag = tagEventSource
      · subst h1
        simp only [s1, if_true]
        cases hd : decSource body with
        | error e => simp [filterSpec]
        | ok sr => obtain ⟨s, r⟩ := sr; simp [filterSpec]
      · by_cases h2 : tag = tagWriterProp
        · subst h2
          simp only [s2, if_true, h1, if_false]
          cases hd : decWriterProp body <;> simp [filterSpec]
        · by_cases h3 : tag = tagClockSync
          · subst h3
            simp only [s3, if_true, h1, h2, if_false]
            cases hd : decClockSync body <;> simp [filterSpec]
          · simp only [h1, h2, h3, if_false]
            by_cases hs : isSpecial tag = true
            · simp [hs, filterSpec]
            · simp [hs, filterSpec]

/-- ids of classified sources and events fit in 64 bits -/
theorem classify_source_id_lt {p : Bytes} {s : EventSource} (h : classify p = .source s) : s.id < 2^64 := by
  unfold classify at h
  split at h
  · cases h
  · split at h
    · cases h
    · rename_i tag body hr
      split at h
      · cases hd : decSource body with
        | error e => simp [hd] at h
        | ok sr =>
          obtain ⟨s', r⟩ := sr
          simp only [hd] at h
          injection h with h
          subst h
          exact decSource_id_lt hd
      · split at h
        · split at h <;> cases h
        · split at h
          · split at h <;> cases h
          · split at h <;> cases h

theorem classify_event_id_lt {p : Bytes} {id : Nat} {rest : Bytes} (h : classify p = .event id rest) :
    id < 2^64 := by
  unfold classify at h
  split at h
  · cases h
  · split at h
    · cases h
    · rename_i tag body hr
      have hlt := readU_lt hr
      split at h
      · split at h <;> cases h
      · split at h
        · split at h <;> cases h
        · split at h
          · split at h <;> cases h
          · split at h
            · cases h
            · injection h with h1 h2
              subst h1
              simpa using hlt

end BinlogVerif
