import BinlogVerif.Generated.SrcTime
import BinlogVerif.Lemmas.SrcBridgeTactic
import BinlogVerif.Reader.Time
import BinlogVerif.Lemmas.TimeArith
/- Bridge lemmas (see SrcBridgeTactic.lean): model = source for the Time functions. -/
namespace BinlogVerif.SrcBridge
open BinlogVerif BinlogVerif.CSem BinlogVerif.Generated

/-! ### PrettyPrinter.cpp helpers -/

/-- `printTwoDigits(i)`: the assert is `0 ≤ i < 100` … -/
theorem printTwoDigits_ok (i : Int) : (Src.printTwoDigits i).ok = decide (0 ≤ i ∧ i < 100) := by
  bridge_unfold [Src.printTwoDigits]

/-- … and for such `i` the two digit values handed to the output are `i / 10` and `i % 10` -/
theorem printTwoDigits_digits (i : Int) (h0 : 0 ≤ i) (h1 : i < 100) :
    (Src.printTwoDigits i).effects = [("digit", [i / 10]), ("digit", [i % 10]), ("out.write", [2])] := by
  have e1 : Int.tmod i 10 = i % 10 := Int.tmod_eq_emod_of_nonneg h0
  have e2 : i32 (i % 10) = i % 10 := i32_of_range (by omega) (by omega)
  have e3 : i32 (i - i % 10) = i - i % 10 := i32_of_range (by omega) (by omega)
  have e4 : Int.tdiv (i - i % 10) 10 = (i - i % 10) / 10 := Int.tdiv_eq_ediv_of_nonneg (by omega)
  have e5 : i32 ((i - i % 10) / 10) = i / 10 := by rw [i32_of_range (by omega) (by omega)]; omega
  simp only [Src.printTwoDigits, e1, e2, e3, e4, e5]

/-- the model's `printTwoDigits` is the source's: same assert, same digits -/
theorem printTwoDigits_model (i : Int) (h0 : 0 ≤ i) (h1 : i < 100) :
    Time.printTwoDigits i = .ok [Time.chr (48 + i / 10), Time.chr (48 + i % 10)] := by
  have e1 : Int.tmod i 10 = i % 10 := Int.tmod_eq_emod_of_nonneg h0
  have e4 : Int.tdiv (i - i % 10) 10 = i / 10 := by rw [Int.tdiv_eq_ediv_of_nonneg (by omega)]; omega
  simp only [Time.printTwoDigits, h0, h1, and_self, if_true, e1, e4]

/-- `printTimeZoneOffset(seconds)` for every `int` value: sign character, then hours and minutes of
    the magnitude (`|INT_MIN|` = 2^31 in `unsigned` arithmetic), each replaced by 0 if it has more
    than two digits — so `printTwoDigits` is only ever called inside its asserted range -/
theorem printTimeZoneOffset_spec (seconds : Int) (h : -2147483648 ≤ seconds ∧ seconds < 2147483648) :
    let a : Int := if seconds ≥ 0 then seconds else -seconds
    (Src.printTimeZoneOffset seconds).effects =
      [("out.put", [if seconds ≥ 0 then 43 else 45]),
       ("printTwoDigits", [if a / 3600 < 100 then a / 3600 else 0]),
       ("printTwoDigits", [a / 60 % 60])] := by
  intro a
  unfold Src.printTimeZoneOffset
  dsimp only
  have hps : (if seconds ≥ 0 then u32 seconds else u32 (0 - u32 seconds)) = a := by
    unfold u32; split <;> simp only [a, *, if_true, if_false] <;> omega
  rw [hps]
  have ha : 0 ≤ a ∧ a ≤ 2147483648 := by simp only [a]; split <;> omega
  rw [Int.tdiv_eq_ediv_of_nonneg ha.1, Int.tdiv_eq_ediv_of_nonneg ha.1]
  have e1 : u32 (a / 3600) = a / 3600 := u32_of_range (by omega) (by omega)
  have e2 : u32 (a / 60) = a / 60 := u32_of_range (by omega) (by omega)
  have e3 : u32 (60 * (a / 3600)) = 60 * (a / 3600) := u32_of_range (by omega) (by omega)
  have e4 : u32 (a / 60 - 60 * (a / 3600)) = a / 60 % 60 := by rw [u32_of_range (by omega) (by omega)]; omega
  have e5 : i32 (a / 3600) = a / 3600 := i32_of_range (by omega) (by omega)
  have e6 : i32 (a / 60 % 60) = a / 60 % 60 := i32_of_range (by omega) (by omega)
  have e7 : a / 60 % 60 < 100 := by omega
  have e8 : i32 (if seconds ≥ 0 then 43 else 45) = (if seconds ≥ 0 then 43 else 45) := by split <;> rfl
  simp only [e1, e2, e3, e4, e5, e6, e7, e8, if_true]

/-! ### Time.cpp -/

theorem wrap64_eq_i64 (x : Int) : Time.wrap64 x = i64 x := rfl
theorem wrap32_eq_i32 (x : Int) : Time.wrap32 x = i32 x := rfl

theorem u64_natCast (n : Nat) : u64 (n : Int) = ((n % 18446744073709551616 : Nat) : Int) := by
  unfold u64; omega
theorem natCast_tdiv (a b : Nat) : Int.tdiv (a : Int) (b : Int) = ((a / b : Nat) : Int) := by
  rw [Int.tdiv_eq_ediv_of_nonneg (by omega)]; rfl
theorem natCast_tmod (a b : Nat) : Int.tmod (a : Int) (b : Int) = ((a % b : Nat) : Int) := by
  rw [Int.tmod_eq_emod_of_nonneg (by omega)]; rfl
theorem u64_sub_of_le (a b : Nat) (h : b ≤ a) (_ha : a < 18446744073709551616) :
    u64 ((a : Int) - (b : Int)) = (((a - b) % 18446744073709551616 : Nat) : Int) := by
  unfold u64; omega

theorem mod_div_mod (t f : Nat) : t % 18446744073709551616 / f % 18446744073709551616 = t % 18446744073709551616 / f :=
  Nat.mod_eq_of_lt (Nat.lt_of_le_of_lt (Nat.div_le_self _ _) (Nat.mod_lt _ (by decide)))
theorem mod_mod_mod (t f : Nat) : t % 18446744073709551616 % f % 18446744073709551616 = t % 18446744073709551616 % f :=
  Nat.mod_eq_of_lt (Nat.lt_of_le_of_lt (Nat.mod_le _ _) (Nat.mod_lt _ (by decide)))

/-- `clockToNsSinceEpoch`: the model function of Reader/Time.lean is the source's computation -/
theorem clockToNsSinceEpoch_bridge (cs : ClockSync) (clock : Nat)
    (h1 : cs.clockValue < 18446744073709551616) (h4 : clock < 18446744073709551616) :
    (Src.clockToNsSinceEpoch cs.clockValue cs.clockFrequency cs.nsSinceEpoch clock).ret = Time.clockToNs cs clock := by
  unfold Src.clockToNsSinceEpoch Time.clockToNs
  simp only [wrap64_eq_i64, Time.nsPerSec]
  have e : ∀ a : Nat, ((a : Int) * 1000000000) = ((a * 1000000000 : Nat) : Int) := by intro a; omega
  have e2 : ∀ a b : Nat, ((a : Int) + (b : Int)) = ((a + b : Nat) : Int) := by intro a b; omega
  by_cases h : clock ≥ cs.clockValue
  · have hi : (clock : Int) ≥ (cs.clockValue : Int) := by omega
    simp only [h, hi, decide_true, if_true]
    rw [u64_sub_of_le _ _ h h4]
    simp only [natCast_tdiv, natCast_tmod, u64_natCast, e, e2, mod_div_mod, mod_mod_mod]
  · have hi : ¬ (clock : Int) ≥ (cs.clockValue : Int) := by omega
    simp only [h, hi, decide_false, if_false, Bool.false_eq_true]
    rw [u64_sub_of_le _ _ (by omega) h1]
    simp only [natCast_tdiv, natCast_tmod, u64_natCast, e, e2, mod_div_mod, mod_mod_mod]

theorem tdiv_1e9 (x : Int) : Int.tdiv x 1000000000 = if 0 ≤ x then x / 1000000000 else -((-x) / 1000000000) := by
  split
  · exact Int.tdiv_eq_ediv_of_nonneg ‹_›
  · rw [← Int.neg_neg x, Int.neg_tdiv, Int.tdiv_eq_ediv_of_nonneg (by omega)]; simp

def viewSeconds (o : Src.nsSinceEpochToSeconds.Out) := (o.effects, o.tm_nsec, o.ok, o.throws)

/-- the chrono part of `nsSinceEpochToBrokenDownTimeUTC`: for every instant the printing path can produce, the
    `time_t` handed to `gmtime_r` is the FLOOR of the seconds and the nanosecond field is the non-negative remainder -/
theorem nsSinceEpochToSeconds_spec (ns nsec0 : Int) (h : -9223372036000000000 ≤ ns ∧ ns < 9223372036854775808) :
    viewSeconds (Src.nsSinceEpochToSeconds ns nsec0) = ([("gmtime_r", [ns / 1000000000])], ns % 1000000000, true, false) := by
  unfold Src.nsSinceEpochToSeconds
  simp only [tdiv_1e9]
  have hq : -9223372036 ≤ ns / 1000000000 ∧ ns / 1000000000 ≤ 9223372036 := by omega
  by_cases h0 : 0 ≤ ns
  · have e1 : i64 (ns / 1000000000) = ns / 1000000000 := i64_of_range (by omega) (by omega)
    have e2 : i64 (ns / 1000000000 * 1000000000) = ns / 1000000000 * 1000000000 := i64_of_range (by omega) (by omega)
    have c : ¬ ns / 1000000000 * 1000000000 > ns := by omega
    have e3 : i64 (ns - ns / 1000000000 * 1000000000) = ns % 1000000000 := by rw [i64_of_range (by omega) (by omega)]; omega
    have e4 : i32 (ns % 1000000000) = ns % 1000000000 := i32_of_range (by omega) (by omega)
    have e5 : (if 0 ≤ ns / 1000000000 * 1000000000 then ns / 1000000000 * 1000000000 / 1000000000 else -(-(ns / 1000000000 * 1000000000) / 1000000000)) = ns / 1000000000 := by
      rw [if_pos (by omega)]; omega
    simp only [h0, if_true, e1, e2, c, if_false, e3, e4, e5, viewSeconds]
  · have hn : ns < 0 := by omega
    by_cases hm : ns % 1000000000 = 0
    · have t : -(-ns / 1000000000) = ns / 1000000000 := by omega
      have e1 : i64 (ns / 1000000000) = ns / 1000000000 := i64_of_range (by omega) (by omega)
      have e2 : i64 (ns / 1000000000 * 1000000000) = ns / 1000000000 * 1000000000 := i64_of_range (by omega) (by omega)
      have c : ¬ ns / 1000000000 * 1000000000 > ns := by omega
      have e3 : i64 (ns - ns / 1000000000 * 1000000000) = ns % 1000000000 := by rw [i64_of_range (by omega) (by omega)]; omega
      have e4 : i32 (ns % 1000000000) = ns % 1000000000 := i32_of_range (by omega) (by omega)
      have e5 : (if 0 ≤ ns / 1000000000 * 1000000000 then ns / 1000000000 * 1000000000 / 1000000000 else -(-(ns / 1000000000 * 1000000000) / 1000000000)) = ns / 1000000000 := by
        split <;> omega
      simp only [h0, if_false, t, e1, e2, c, e3, e4, e5, viewSeconds]
    · have t : -(-ns / 1000000000) = ns / 1000000000 + 1 := by omega
      have e1 : i64 (ns / 1000000000 + 1) = ns / 1000000000 + 1 := i64_of_range (by omega) (by omega)
      have e2 : i64 ((ns / 1000000000 + 1) * 1000000000) = (ns / 1000000000 + 1) * 1000000000 := i64_of_range (by omega) (by omega)
      have c : (ns / 1000000000 + 1) * 1000000000 > ns := by omega
      have e6 : i64 (ns / 1000000000 + 1 - 1) = ns / 1000000000 := by rw [i64_of_range (by omega) (by omega)]; omega
      have e2' : i64 (ns / 1000000000 * 1000000000) = ns / 1000000000 * 1000000000 := i64_of_range (by omega) (by omega)
      have e3 : i64 (ns - ns / 1000000000 * 1000000000) = ns % 1000000000 := by rw [i64_of_range (by omega) (by omega)]; omega
      have e4 : i32 (ns % 1000000000) = ns % 1000000000 := i32_of_range (by omega) (by omega)
      have e5 : (if 0 ≤ ns / 1000000000 * 1000000000 then ns / 1000000000 * 1000000000 / 1000000000 else -(-(ns / 1000000000 * 1000000000) / 1000000000)) = ns / 1000000000 := by
        split <;> omega
      have e7 : i64 (ns / 1000000000) = ns / 1000000000 := i64_of_range (by omega) (by omega)
      simp only [h0, if_false, t, e1, e2, c, if_true, e6, e2', e3, e4, e5, e7, viewSeconds]

/-- …which is what the model's `brokenDown` does (`Time.brokenDown_eq`): model = source -/
theorem nsSinceEpochToSeconds_bridge (ns nsec0 : Int) (h0 : -9223372036000000000 ≤ ns) (h1 : ns < 9223372036854775808) :
    ∃ tt nsec, viewSeconds (Src.nsSinceEpochToSeconds ns nsec0) = ([("gmtime_r", [tt])], nsec, true, false) ∧
      Time.brokenDown ns = { Time.gmtime tt with nsec := nsec } :=
  ⟨_, _, nsSinceEpochToSeconds_spec ns nsec0 ⟨h0, h1⟩, Time.brokenDown_eq ns h0 h1⟩

end BinlogVerif.SrcBridge
