import BinlogVerif.Conc.Session
/-
  Helper definitions and lemmas for the session-level properties (C02, C03, C11, C13).
-/
namespace BinlogVerif.Sess
open BinlogVerif

/-! ### traces -/

/-- side conditions on an operation in a state: a log statement uses a source id that
    `addEventSource` has returned, writers are created once, operations name live writers -/
def OpOk (s : Session) : Op → Prop
  | .log _ sid _ _ _ => 1 ≤ sid ∧ sid < s.nextSourceId
  | .createWriter w _ _ => lookupWriter s w = none ∧ ∀ c ∈ s.channels, c.owner ≠ w
  | _ => True

/-- every operation of the trace satisfies its side condition in the state where it runs -/
def TraceOk : Session → List Op → Prop
  | _, [] => True
  | s, op :: ops => OpOk s op ∧ ∀ s', step s op = some s' → TraceOk s' ops

/-- induction principle over executions -/
theorem exec_induction (P : Session → Prop) (s : Session) (ops : List Op) (s' : Session)
    (h0 : P s) (hok : TraceOk s ops)
    (hstep : ∀ s op s1, P s → OpOk s op → step s op = some s1 → P s1)
    (hrun : exec s ops = some s') : P s' := by
  induction ops generalizing s with
  | nil => simp [exec] at hrun; subst hrun; exact h0
  | cons op ops ih =>
    simp only [exec] at hrun
    cases hs : step s op with
    | none => simp [hs] at hrun
    | some s1 =>
      simp only [hs] at hrun
      exact ih s1 (hstep s op s1 h0 hok.1 hs) (hok.2 s1 hs) hrun

/-! ### the current output -/

/-- the entries of the newest output, in the order they were written -/
def curEntries (s : Session) : List Entry := ((s.outputs.getLast?).getD []).flatten

theorem emitAll_cur (s : Session) (ws : List Write) (h : s.outputs ≠ []) :
    curEntries (emitAll s ws) = curEntries s ++ ws.flatten := by
  unfold emitAll curEntries
  cases hr : s.outputs.reverse with
  | nil => simp at hr; exact absurd hr h
  | cons cur older =>
    have : s.outputs = older.reverse ++ [cur] := by
      have := congrArg List.reverse hr
      simpa using this
    simp [this]

theorem emitAll_dropLast (s : Session) (ws : List Write) (h : s.outputs ≠ []) :
    (emitAll s ws).outputs.dropLast = s.outputs.dropLast := by
  unfold emitAll
  cases hr : s.outputs.reverse with
  | nil => simp at hr; exact absurd hr h
  | cons cur older =>
    have : s.outputs = older.reverse ++ [cur] := by
      have := congrArg List.reverse hr
      simpa using this
    simp [this]

theorem emitAll_outputs_ne (s : Session) (ws : List Write) : (emitAll s ws).outputs ≠ [] := by
  unfold emitAll
  cases hr : s.outputs.reverse with
  | nil => simp
  | cons cur older => simp

theorem emitAll_fields (s : Session) (ws : List Write) :
    (emitAll s ws).channels = s.channels ∧ (emitAll s ws).clockSyncs = s.clockSyncs ∧
    (emitAll s ws).consumeClockSync = s.consumeClockSync ∧ (emitAll s ws).sources = s.sources ∧
    (emitAll s ws).sourcesConsumed = s.sourcesConsumed ∧ (emitAll s ws).nextSourceId = s.nextSourceId ∧
    (emitAll s ws).accepted = s.accepted ∧ (emitAll s ws).delivered = s.delivered ∧
    (emitAll s ws).lost = s.lost ∧ (emitAll s ws).writerChan = s.writerChan ∧
    (emitAll s ws).totalConsumed = s.totalConsumed := by
  unfold emitAll
  cases s.outputs.reverse <;> simp

/-! ### scanning an output: is it self-contained? -/

structure ScanSt where
  defined : List Nat := []
  hasCS : Bool := false
deriving Repr, DecidableEq

/-- one entry of an output: sources define their id, clock syncs are noted, an event requires its
    source id to be defined and a clock sync to have been seen -/
def scanStep (st : ScanSt) : Entry → Option ScanSt
  | .source src => some { st with defined := src.id :: st.defined }
  | .clockSync _ => some { st with hasCS := true }
  | .writerProp _ => some st
  | .event sid _ _ => if sid ∈ st.defined ∧ st.hasCS = true then some st else none

def scan : ScanSt → List Entry → Option ScanSt
  | st, [] => some st
  | st, e :: es => match scanStep st e with
    | some st' => scan st' es
    | none => none

/-- an output is self-contained: every event is preceded, within the output, by the source entry
    with its id and by a clock sync -/
def SelfContained (l : List Entry) : Prop := (scan {} l).isSome = true

theorem scan_append (st : ScanSt) (a b : List Entry) :
    scan st (a ++ b) = (scan st a).bind (fun st' => scan st' b) := by
  induction a generalizing st with
  | nil => simp [scan]
  | cons e es ih =>
    simp only [List.cons_append, scan]
    cases scanStep st e with
    | none => simp
    | some st' => simp [ih]

/-- entries that are not events never fail and only grow the state -/
def noEvents (l : List Entry) : Prop := ∀ e ∈ l, e.isEvent = false

def srcIds (l : List Entry) : List Nat := l.filterMap fun e => match e with | .source src => some src.id | _ => none
def hasCSIn (l : List Entry) : Bool := l.any fun e => match e with | .clockSync _ => true | _ => false

theorem scan_noEvents (st : ScanSt) (l : List Entry) (h : noEvents l) :
    scan st l = some { defined := (srcIds l).reverse ++ st.defined, hasCS := st.hasCS || hasCSIn l } := by
  induction l generalizing st with
  | nil => simp [scan, srcIds, hasCSIn]
  | cons e es ih =>
    have he := h e (by simp)
    have hes : noEvents es := fun x hx => h x (by simp [hx])
    cases e with
    | event a b c => simp [Entry.isEvent] at he
    | source src => simp [scan, scanStep, ih _ hes, srcIds, hasCSIn]
    | clockSync cs => simp [scan, scanStep, ih _ hes, srcIds, hasCSIn]
    | writerProp wp => simp [scan, scanStep, ih _ hes, srcIds, hasCSIn]

/-- a run of writer descriptions and events whose source ids are all defined passes unchanged -/
theorem scan_events (st : ScanSt) (l : List Entry) (hcs : st.hasCS = true)
    (h : ∀ e ∈ l, match e with
      | .event sid _ _ => sid ∈ st.defined
      | .writerProp _ => True
      | _ => False) :
    scan st l = some st := by
  induction l with
  | nil => rfl
  | cons e es ih =>
    have he := h e (by simp)
    have hes : ∀ x ∈ es, match x with
      | .event sid _ _ => sid ∈ st.defined
      | .writerProp _ => True
      | _ => False := fun x hx => h x (List.mem_cons_of_mem _ hx)
    cases e with
    | event a b c => simp only at he; simp [scan, scanStep, he, hcs, ih hes]
    | writerProp wp => simp [scan, scanStep, ih hes]
    | source src => simp at he
    | clockSync cs => simp at he

end BinlogVerif.Sess

namespace BinlogVerif.Sess
open BinlogVerif

/-! ### what `pollAll` writes -/

def isSource : Entry → Bool
  | .source _ => true
  | _ => false

theorem take_isEmpty_drop {α} (l : List α) (n : Nat) (h : (l.take n).isEmpty = true) : l.drop n = l := by
  cases l with
  | nil => simp
  | cons a b =>
    cases n with
    | zero => simp
    | succ n => simp at h

theorem pieces_flatten (batch : List Entry) (k : Nat) : (pieces batch k).flatten = batch := by
  unfold pieces
  simp only
  split
  · simp
  · simp [List.take_append_drop]

theorem pollChan_batch (c : Chan) (p : Poll) : (pollChan c p).batch = c.entries.take (pollN c p) := by
  unfold pollChan
  generalize pollN c p = n
  by_cases h : (c.entries.take n).isEmpty = true
  · have h' : List.take n c.entries = [] := by simpa using h
    simp [h, h']
  · simp [h]

theorem pollChan_entries (c : Chan) (p : Poll) : (pollChan c p).chan.entries = c.entries.drop (pollN c p) := by
  unfold pollChan
  generalize pollN c p = n
  by_cases h : (c.entries.take n).isEmpty = true
  · simp [h, take_isEmpty_drop _ _ h]
  · simp [h]

theorem pollChan_owner (c : Chan) (p : Poll) : (pollChan c p).chan.owner = c.owner ∧
    (pollChan c p).chan.sealed = c.sealed ∧ (pollChan c p).chan.closed = c.closed ∧ (pollChan c p).chan.cid = c.cid := by
  unfold pollChan
  generalize pollN c p = n
  by_cases h : (c.entries.take n).isEmpty = true <;> simp [h]

theorem pollChan_removed (c : Chan) (p : Poll) : (pollChan c p).removed = (p.sawClosed && c.closed) := by
  unfold pollChan
  generalize pollN c p = n
  by_cases h : (c.entries.take n).isEmpty = true <;> simp [h]

theorem pollChan_dropped (c : Chan) (p : Poll) :
    (pollChan c p).dropped = if (p.sawClosed && c.closed) = true then c.entries.drop (pollN c p) else [] := by
  unfold pollChan
  generalize pollN c p = n
  by_cases h : (c.entries.take n).isEmpty = true <;> simp [h]

/-- the entries written for one channel: nothing, or a writer description followed by the batch -/
theorem pollChan_writes_flat (c : Chan) (p : Poll) :
    (pollChan c p).writes.flatten =
      if (c.entries.take (pollN c p)).isEmpty then []
      else Entry.writerProp { c.wp with batchSize := (writeBytes (c.entries.take (pollN c p))).length }
            :: c.entries.take (pollN c p) := by
  unfold pollChan
  generalize pollN c p = n
  by_cases h : (c.entries.take n).isEmpty = true
  · simp [h]
  · simp [h, pieces_flatten]

/-- the entries written while polling channels are writer descriptions and entries of the channels -/
theorem pollAll_writes_mem (L : List Chan) (P : List Poll) :
    ∀ e ∈ (pollAll L P).writes.flatten, (∃ wp, e = .writerProp wp) ∨ ∃ c ∈ L, e ∈ c.entries := by
  induction L generalizing P with
  | nil => simp [pollAll]
  | cons c cs ih =>
    intro e he
    simp only [pollAll, List.flatten_append, List.mem_append] at he
    cases he with
    | inr h =>
      cases ih P.tail e h with
      | inl h => exact .inl h
      | inr h => obtain ⟨c', hc', hm⟩ := h; exact .inr ⟨c', by simp [hc'], hm⟩
    | inl h =>
      rw [pollChan_writes_flat] at h
      split at h
      · simp at h
      · simp only [List.mem_cons] at h
        cases h with
        | inl h => exact .inl ⟨_, h⟩
        | inr h => exact .inr ⟨c, by simp, List.mem_of_mem_take h⟩

/-- channels after polling hold sub-lists of the entries they held before -/
theorem pollAll_chans_mem (L : List Chan) (P : List Poll) :
    ∀ c' ∈ (pollAll L P).chans, ∃ c ∈ L, ∀ e ∈ c'.entries, e ∈ c.entries := by
  induction L generalizing P with
  | nil => simp [pollAll]
  | cons c cs ih =>
    intro c' hc'
    simp only [pollAll] at hc'
    have hrest : c' ∈ (pollAll cs P.tail).chans → ∃ c0 ∈ c :: cs, ∀ e ∈ c'.entries, e ∈ c0.entries := by
      intro h
      obtain ⟨c0, h0, hm⟩ := ih P.tail c' h
      exact ⟨c0, by simp [h0], hm⟩
    split at hc'
    · exact hrest hc'
    · simp only [List.mem_cons] at hc'
      cases hc' with
      | inr h => exact hrest h
      | inl h =>
        refine ⟨c, by simp, ?_⟩
        subst h
        rw [pollChan_entries]
        intro e he; exact List.mem_of_mem_drop he

/-! ### the metadata invariant -/

structure MetaInv (s : Session) : Prop where
  outs_ne : s.outputs ≠ []
  next_pos : 1 ≤ s.nextSourceId
  srcs_are : ∀ e ∈ s.sources, isSource e = true
  src_ids : srcIds s.sources = List.range' 1 (s.nextSourceId - 1)
  consumed_le : s.sourcesConsumed ≤ s.sources.length
  css_are : ∀ e ∈ s.clockSyncs, ∃ cs, e = .clockSync cs
  css_ne : s.clockSyncs ≠ []
  chans : ∀ c ∈ s.channels, ∀ e ∈ c.entries, ∃ sid clock args, e = .event sid clock args ∧ 1 ≤ sid ∧ sid < s.nextSourceId
  older : ∀ o ∈ s.outputs.dropLast, SelfContained o.flatten
  cur : ∃ st, scan {} (curEntries s) = some st ∧
        (∀ id, id ∈ st.defined ↔ id ∈ srcIds (s.sources.take s.sourcesConsumed)) ∧
        (s.consumeClockSync = false → st.hasCS = true)
  once : (curEntries s).filter isSource = s.sources.take s.sourcesConsumed

theorem noEvents_of_sources {l : List Entry} (h : ∀ e ∈ l, isSource e = true) : noEvents l := by
  intro e he
  have := h e he
  cases e <;> simp_all [isSource, Entry.isEvent]

theorem noEvents_of_css {l : List Entry} (h : ∀ e ∈ l, ∃ cs, e = .clockSync cs) : noEvents l := by
  intro e he
  obtain ⟨cs, rfl⟩ := h e he
  rfl

theorem hasCSIn_of_css {l : List Entry} (h : ∀ e ∈ l, ∃ cs, e = .clockSync cs) (hne : l ≠ []) : hasCSIn l = true := by
  cases l with
  | nil => exact absurd rfl hne
  | cons e es =>
    obtain ⟨cs, rfl⟩ := h e (by simp)
    simp [hasCSIn]

theorem srcIds_css {l : List Entry} (h : ∀ e ∈ l, ∃ cs, e = .clockSync cs) : srcIds l = [] := by
  induction l with
  | nil => rfl
  | cons e es ih =>
    obtain ⟨cs, rfl⟩ := h e (by simp)
    simp only [srcIds, List.filterMap_cons]
    exact ih (fun x hx => h x (by simp [hx]))

theorem filter_isSource_css {l : List Entry} (h : ∀ e ∈ l, ∃ cs, e = .clockSync cs) : l.filter isSource = [] := by
  rw [List.filter_eq_nil_iff]
  intro e he
  obtain ⟨cs, rfl⟩ := h e he
  simp [isSource]

theorem filter_isSource_sources {l : List Entry} (h : ∀ e ∈ l, isSource e = true) : l.filter isSource = l := by
  rw [List.filter_eq_self]
  exact h

theorem srcIds_append (a b : List Entry) : srcIds (a ++ b) = srcIds a ++ srcIds b := by
  simp [srcIds, List.filterMap_append]

theorem mem_srcIds_range {s : Session} (h : MetaInv s) (sid : Nat) (h1 : 1 ≤ sid) (h2 : sid < s.nextSourceId) :
    sid ∈ srcIds s.sources := by
  rw [h.src_ids, List.mem_range'_1]
  have := h.next_pos
  omega

/-- the initial state satisfies the invariant -/
theorem metaInv_init (cs : ClockSync) : MetaInv (init cs) := by
  refine ⟨by simp [init], by simp [init], by simp [init], by simp [init, srcIds], by simp [init],
    by simp [init], by simp [init], by simp [init], ?_, ?_, by simp [init, curEntries]⟩
  · intro o ho
    simp [init] at ho
  · refine ⟨{}, by simp [init, curEntries, scan], by simp [init, srcIds], by simp [init]⟩

end BinlogVerif.Sess

namespace BinlogVerif.Sess
open BinlogVerif

/-- the channel clause of the invariant -/
def ChanOk (chs : List Chan) (next : Nat) : Prop :=
  ∀ c ∈ chs, ∀ e ∈ c.entries, ∃ sid clock args, e = Entry.event sid clock args ∧ 1 ≤ sid ∧ sid < next

/-- a state that differs from an invariant state only in channels / writers / ghost logs -/
theorem metaInv_of_same {s s' : Session} (h : MetaInv s)
    (h1 : s'.outputs = s.outputs) (h2 : s'.nextSourceId = s.nextSourceId) (h3 : s'.sources = s.sources)
    (h4 : s'.sourcesConsumed = s.sourcesConsumed) (h5 : s'.clockSyncs = s.clockSyncs)
    (h6 : s'.consumeClockSync = s.consumeClockSync) (hc : ChanOk s'.channels s'.nextSourceId) : MetaInv s' := by
  have hcur : curEntries s' = curEntries s := by simp [curEntries, h1]
  exact ⟨by rw [h1]; exact h.outs_ne, by rw [h2]; exact h.next_pos, by rw [h3]; exact h.srcs_are,
    by rw [h3, h2]; exact h.src_ids, by rw [h3, h4]; exact h.consumed_le, by rw [h5]; exact h.css_are,
    by rw [h5]; exact h.css_ne, hc, by rw [h1]; exact h.older,
    by rw [hcur, h3, h4, h6]; exact h.cur, by rw [hcur, h3, h4]; exact h.once⟩

theorem chanOk_updChan_same (s : Session) (cid : Nat) (f : Chan → Chan) (hf : ∀ c, (f c).entries = c.entries)
    (h : ChanOk s.channels s.nextSourceId) : ChanOk (updChan s cid f).channels (updChan s cid f).nextSourceId := by
  intro c hc e he
  simp only [updChan, List.mem_map] at hc
  obtain ⟨c0, hc0, rfl⟩ := hc
  split at he
  · rw [hf] at he; exact h c0 hc0 e he
  · exact h c0 hc0 e he

theorem chanOk_updChan_append (s : Session) (cid : Nat) (sid clock : Nat) (args : Bytes)
    (hs : 1 ≤ sid ∧ sid < s.nextSourceId) (h : ChanOk s.channels s.nextSourceId) :
    ChanOk (updChan s cid (fun c => { c with entries := c.entries ++ [Entry.event sid clock args] })).channels s.nextSourceId := by
  intro c hc e he
  simp only [updChan, List.mem_map] at hc
  obtain ⟨c0, hc0, rfl⟩ := hc
  split at he
  · simp only [List.mem_append, List.mem_singleton] at he
    cases he with
    | inl he => exact h c0 hc0 e he
    | inr he => exact ⟨sid, clock, args, he, hs.1, hs.2⟩
  · exact h c0 hc0 e he

theorem chanOk_mono {chs : List Chan} {a b : Nat} (hab : a ≤ b) (h : ChanOk chs a) : ChanOk chs b := by
  intro c hc e he
  obtain ⟨sid, clock, args, h1, h2, h3⟩ := h c hc e he
  exact ⟨sid, clock, args, h1, h2, by omega⟩

theorem chanOk_append_empty {chs : List Chan} {n : Nat} (c : Chan) (hc : c.entries = []) (h : ChanOk chs n) :
    ChanOk (chs ++ [c]) n := by
  intro c' hc' e he
  simp only [List.mem_append, List.mem_singleton] at hc'
  cases hc' with
  | inl h' => exact h c' h' e he
  | inr h' => subst h'; rw [hc] at he; simp at he

end BinlogVerif.Sess
