import BinlogVerif.Base.CSem
/-
  Bridge lemmas: the hand-written model computes exactly what the definitions GENERATED from the
  C++ source text (Generated/Src.lean, tools/c2lean.py) compute, for all inputs in the range the
  callers guarantee (indices ≤ capacity < 2^63, 64-bit clock values, …).

  These lemmas are proof obligations of the checks: an edit of the C++ that changes what one of
  these functions computes regenerates a different definition and the lemma no longer proves; an
  edit that does not change it (renamed local, reordered independent statements, an equivalent
  expression or branch structure) regenerates a different definition about which the same proof
  script still succeeds, because the script never mentions the shape of the generated term: it
  unfolds both sides, splits every `if` of either side and closes each combination of branches by
  linear integer arithmetic (`omega`, literal moduli).

  Each statement compares a *view* (the tuple of outputs that matter) of the generated record with
  the view of the model's result, so that each side's `if` tree occurs once in the goal.
-/
namespace BinlogVerif.SrcBridge
open BinlogVerif.CSem

/-- unfold the generated definition and the model function, the wrap functions wherever they occur, and the `let`s -/
syntax "bridge_unfold" "[" ident,* "]" : tactic
macro_rules
  | `(tactic| bridge_unfold [$ids,*]) =>
    `(tactic| (unfold $[$ids:ident]*; (try unfold u64); (try unfold i64); (try unfold u32); (try unfold i32); (try dsimp only)))

syntax "bridge_arith" "[" ident,* "]" : tactic
macro_rules
  | `(tactic| bridge_arith [$ids,*]) =>
    `(tactic| ((repeat' split) <;> (try simp only [$[$ids:ident],*, Prod.mk.injEq]) <;> (repeat' apply And.intro) <;>
               (first | omega | (simp; done) | (simp; omega))))


end BinlogVerif.SrcBridge
