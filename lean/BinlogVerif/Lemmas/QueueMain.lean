import BinlogVerif.Lemmas.QueueProd
import BinlogVerif.Lemmas.QueueCons
/-
  The invariant holds in every reachable state; consequences used by Props/C01.lean.
-/
namespace BinlogVerif.Q

theorem inv_step (o : Orders) (ho : o.Sufficient) (s : St) (op : Op) (s' : St)
    (h : Inv s) (e : step o s op = some s') : Inv s' := by
  cases op with
  | pBegin n j => exact inv_pBegin o ho s s' h n j e
  | pWrite k => exact inv_pWrite o s s' h k e
  | pEnd => exact inv_pEnd o ho s s' h e
  | cBegin i => exact inv_cBegin o ho s s' h i e
  | cEnd => exact inv_cEnd o ho s s' h e

theorem inv_exec (o : Orders) (ho : o.Sufficient) (cap : Nat) (tr : List Op) (s : St)
    (run : exec o (init cap) tr = some s) : Inv s :=
  exec_invariant o Inv (fun s op s' h e => inv_step o ho s op s' h e) tr (init cap) s (inv_init cap) run

/-! ### consequences -/

theorem flatten_take_prefix {α} (l : List (List α)) (c : Nat) :
    (l.take c).flatten <+: l.flatten := by
  refine ⟨(l.drop c).flatten, ?_⟩
  rw [← List.flatten_append, List.take_append_drop]

/-- flattened deliveries are a prefix of flattened commits; batch boundaries are commit boundaries -/
theorem Inv.fifo {s : St} (h : Inv s) :
    s.delivered.flatten <+: s.commits.flatten ∧
    (∀ d, ∃ c, (s.delivered.take d).flatten = (s.commits.take c).flatten) ∧
    s.commits.flatten.Nodup := by
  refine ⟨?_, ?_, ?_⟩
  · obtain ⟨c, _, hc⟩ := h.g8 s.delivered.length
    rw [List.take_length] at hc
    rw [hc]; exact flatten_take_prefix _ _
  · intro d; obtain ⟨c, _, hc⟩ := h.g8 d; exact ⟨c, hc⟩
  · rw [h.g4h]; exact List.nodup_range'

/-- each piece returned by beginRead ends on a commit boundary -/
theorem Inv.pieces_whole {s : St} (h : Inv s) :
    s.batch = s.pieces.flatten ∧ s.pieces.length ≤ 2 ∧
    (∀ p, ∃ k, s.delivered.flatten ++ (s.pieces.take p).flatten = (s.commits.take k).flatten) ∧
    (∀ b1 b2, s.pieces = [b1, b2] →
      ∃ k1 k2, s.delivered.flatten ++ b1 = (s.commits.take k1).flatten ∧
               s.delivered.flatten ++ b1 ++ b2 = (s.commits.take k2).flatten) := by
  refine ⟨h.g13, h.g14, ?_, ?_⟩
  · intro p; obtain ⟨c, _, hc⟩ := h.g12 p; exact ⟨c, hc.symm⟩
  · intro b1 b2 hp
    obtain ⟨k1, _, h1⟩ := h.g12 1
    obtain ⟨k2, _, h2⟩ := h.g12 2
    rw [hp] at h1 h2
    refine ⟨k1, k2, ?_, ?_⟩
    · rw [h1]; simp
    · rw [h2]; simp

/-- geometric window disjointness in terms of the real indices -/
theorem Inv.window_real {s : St} (h : Inv s) (x : Nat) (h1 : s.wp ≤ x) (h2 : x < s.we) :
    ¬ (if s.cR ≤ s.pW then s.cR ≤ x ∧ x < s.pW else s.cR ≤ x ∨ x < s.pW) := by
  cases hw : s.wrapP
  · have := h.c2 hw
    have := h.geo
    split <;> grind (splits := 40)
  · have := h.c1 hw
    have := h.geo
    split <;> grind (splits := 40)

/-! ### field preservation of pBegin -/

theorem flag_fields (s : St) (k : RaceKind) :
    (flag s k).cWidx = s.cWidx ∧ (flag s k).wHist = s.wHist ∧ (flag s k).cR = s.cR ∧
    (flag s k).cBase = s.cBase ∧ (flag s k).commits = s.commits ∧ (flag s k).delivered = s.delivered ∧
    (flag s k).data = s.data ∧ (flag s k).pending = s.pending ∧ (flag s k).rHist = s.rHist ∧
    (flag s k).pW = s.pW := by
  unfold flag; split <;> simp

theorem pBegin_fields (o : Orders) (s s2 : St) (n j : Nat)
    (e : step o s (Op.pBegin n j) = some s2) :
    s2.cWidx = s.cWidx ∧ s2.wHist = s.wHist ∧ s2.cR = s.cR ∧ s2.cBase = s.cBase ∧
    s2.commits = s.commits ∧ s2.delivered = s.delivered ∧ s2.data = s.data ∧
    s2.pending = s.pending ∧ s2.rHist = s.rHist ∧ s2.pW = s.pW := by
  simp only [step] at e
  repeat' split at e
  all_goals (cases e; try simp [flag_fields])

/-- `cBegin` is enabled exactly when its guards hold -/
theorem cBegin_enabled (o : Orders) (s : St) (i : Nat) (m : Msg)
    (hc : ¬ i < s.cWidx) (hi : s.wHist[i]? = some m) : ∃ sc, step o s (Op.cBegin i) = some sc := by
  rw [step_cBegin o s i m hc hi]
  dsimp only
  repeat' split
  all_goals exact ⟨_, rfl⟩

theorem cBegin_guards (o : Orders) (s sc : St) (i : Nat) (e : step o s (Op.cBegin i) = some sc) :
    ¬ i < s.cWidx ∧ ∃ m, s.wHist[i]? = some m := by
  simp only [step] at e
  split at e
  · cases e
  rename_i hc
  refine ⟨hc, ?_⟩
  split at e
  · cases e
  · rename_i m hm; exact ⟨m, hm⟩

end BinlogVerif.Q
