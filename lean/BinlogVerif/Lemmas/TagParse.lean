import BinlogVerif.Lemmas.TagDefs
/-
  Parsing lemmas: the tag string of a `TyOk` type is self-delimiting for the tag utilities
  (`tag_first_size`, `tag_pop`, `tag_pop_label`, `remove_prefix_before`).
-/
namespace BinlogVerif.Mser
open BinlogVerif BinlogVerif.Tag BinlogVerif.Visit

/-! ### character classes -/

theorem arith_mem {c : UInt8} (h : (arithSize c).isSome = true) :
    c ∈ ([121,99,98,115,105,108,66,83,73,76,102,100,68] : List UInt8) := by
  apply Classical.byContradiction; intro hn
  simp only [List.mem_cons, not_or, List.not_mem_nil, not_false_eq_true, and_true] at hn
  simp [arithSize, hn] at h

theorem arith_charOk {c : UInt8} (h : (arithSize c).isSome = true) : charOk c = true ∧ c ≠ cZero := by
  have := arith_mem h
  simp only [List.mem_cons, List.not_mem_nil, or_false] at this
  rcases this with h|h|h|h|h|h|h|h|h|h|h|h|h <;> subst h <;> decide

theorem charOk_ne {c : UInt8} (h : charOk c = true) :
    c ≠ cLParen ∧ c ≠ cRParen ∧ c ≠ cLt ∧ c ≠ cGt ∧ c ≠ cLBrace ∧ c ≠ cRBrace ∧ c ≠ cLBrack ∧ c ≠ 93
      ∧ c ≠ cSlash ∧ c ≠ cBackslash ∧ c ≠ cBacktick ∧ c ≠ cQuote := by
  simpa [charOk, cLParen, cRParen, cLt, cGt, cLBrace, cRBrace, cLBrack, cSlash, cBackslash,
    cBacktick, cQuote, and_assoc] using h

theorem hexChar_charOk {c : UInt8} (h : hexChar c = true) : charOk c = true := by
  simp only [hexChar, Bool.or_eq_true, Bool.and_eq_true, decide_eq_true_eq, beq_iff_eq] at h
  simp only [charOk, Bool.and_eq_true, bne_iff_ne, ne_eq, ← UInt8.toNat_inj]
  simp
  omega

/-- all bytes are `charOk` -/
def Plain (s : Bytes) : Prop := ∀ x ∈ s, charOk x = true

theorem Plain.of_nameOk {n : Bytes} (h : NameOk n = true) : Plain n := by
  simp only [NameOk, List.all_eq_true] at h
  exact h

theorem Plain.of_hexOk {n : Bytes} (h : HexOk n = true) : Plain n := by
  simp only [HexOk, Bool.and_eq_true, List.all_eq_true] at h
  intro x hx; exact hexChar_charOk (h.2 x hx)

theorem HexOk.ne_nil {n : Bytes} (h : HexOk n = true) : n ≠ [] := by
  intro e; subst e; simp [HexOk] at h

/-! ### `balancedGo` -/

/-- the four bracket pairs of `tag_first_size` -/
def IsPair (o c : UInt8) : Prop :=
  (o = cLParen ∧ c = cRParen) ∨ (o = cLt ∧ c = cGt) ∨ (o = cLBrace ∧ c = cRBrace)
    ∨ (o = cSlash ∧ c = cBackslash)

theorem IsPair.ne_of_charOk {o c x : UInt8} (hp : IsPair o c) (hx : charOk x = true) :
    x ≠ o ∧ x ≠ c := by
  have := charOk_ne hx
  rcases hp with ⟨rfl, rfl⟩ | ⟨rfl, rfl⟩ | ⟨rfl, rfl⟩ | ⟨rfl, rfl⟩ <;> simp [this]

/-- scanning `s` with a positive counter ends with the same counter (and never stops inside) -/
def Neutral (o c : UInt8) (s : Bytes) : Prop :=
  ∀ rest cnt i, 1 ≤ cnt → balancedGo o c (s ++ rest) cnt i = balancedGo o c rest cnt (i + s.length)

theorem Neutral.nil {o c : UInt8} : Neutral o c [] := by
  intro rest cnt i _; simp

theorem Neutral.append {o c : UInt8} {a b : Bytes} (h1 : Neutral o c a) (h2 : Neutral o c b) :
    Neutral o c (a ++ b) := by
  intro rest cnt i h
  rw [List.append_assoc, h1 _ _ _ h, h2 _ _ _ h, List.length_append, Nat.add_assoc]

theorem Neutral.single {o c x : UInt8} (h1 : x ≠ o) (h2 : x ≠ c) : Neutral o c [x] := by
  intro rest cnt i _; simp [balancedGo, h1, h2]

theorem Neutral.cons {o c x : UInt8} {s : Bytes} (h1 : x ≠ o) (h2 : x ≠ c) (hs : Neutral o c s) :
    Neutral o c (x :: s) := (Neutral.single h1 h2).append hs

theorem Neutral.of_forall {o c : UInt8} {s : Bytes} (h : ∀ x ∈ s, x ≠ o ∧ x ≠ c) : Neutral o c s := by
  induction s with
  | nil => exact Neutral.nil
  | cons x s ih =>
    exact Neutral.cons (h x (by simp)).1 (h x (by simp)).2 (ih fun y hy => h y (by simp [hy]))

theorem Neutral.plain {o c : UInt8} {s : Bytes} (hp : IsPair o c) (h : Plain s) : Neutral o c s :=
  Neutral.of_forall fun x hx => hp.ne_of_charOk (h x hx)

theorem Neutral.wrap {o c : UInt8} {s : Bytes} (hoc : o ≠ c) (hs : Neutral o c s) :
    Neutral o c (o :: (s ++ [c])) := by
  intro rest cnt i h
  simp only [List.cons_append, List.append_assoc, balancedGo, if_true]
  rw [hs _ _ _ (by omega)]
  have : cnt + 1 - 1 = cnt := by omega
  have h0 : ¬ cnt = 0 := by omega
  simp [balancedGo, hoc.symm, this, h0]
  congr 1; omega

theorem Neutral.bracket {o c o' c' : UInt8} {s : Bytes} (hp : IsPair o c) (hp' : IsPair o' c')
    (hs : Neutral o c s) : Neutral o c (o' :: (s ++ [c'])) := by
  rcases hp with ⟨rfl, rfl⟩ | ⟨rfl, rfl⟩ | ⟨rfl, rfl⟩ | ⟨rfl, rfl⟩ <;>
  rcases hp' with ⟨rfl, rfl⟩ | ⟨rfl, rfl⟩ | ⟨rfl, rfl⟩ | ⟨rfl, rfl⟩ <;>
  first
  | exact Neutral.wrap (by decide) hs
  | exact Neutral.cons (by decide) (by decide) (hs.append (Neutral.single (by decide) (by decide)))

theorem IsPair.ne_misc {o c : UInt8} (hp : IsPair o c) :
    (cBacktick ≠ o ∧ cBacktick ≠ c) ∧ (cQuote ≠ o ∧ cQuote ≠ c) ∧ (cLBrack ≠ o ∧ cLBrack ≠ c)
      ∧ (cZero ≠ o ∧ cZero ≠ c) := by
  rcases hp with ⟨rfl, rfl⟩ | ⟨rfl, rfl⟩ | ⟨rfl, rfl⟩ | ⟨rfl, rfl⟩ <;> decide

/-! ### normal forms of `tag` -/

theorem tag_arith (c : UInt8) : tag (.arith c) = [c] := by simp [tag]
theorem tag_null : tag .null = [cZero] := by simp [tag]
theorem tag_seq (e : Ty) : tag (.seq e) = cLBrack :: tag e := by simp [tag]
theorem tag_tup (es : List Ty) : tag (.tup es) = cLParen :: (tagList es ++ [cRParen]) := by simp [tag]
theorem tag_var (es : List Ty) : tag (.var es) = cLt :: (tagList es ++ [cGt]) := by simp [tag]
theorem tag_struct (n : Bytes) (fs : List (Bytes × Ty)) :
    tag (.struct n fs) = cLBrace :: ((n ++ tagFields fs) ++ [cRBrace]) := by simp [tag]
theorem tag_enum (u : UInt8) (n : Bytes) (ens : List (Bytes × Bytes)) :
    tag (.enum u n ens) = cSlash :: ((u :: cBacktick :: (n ++ cQuote :: tagEnums ens)) ++ [cBackslash]) := by
  simp [tag]
theorem tagList_cons (t : Ty) (ts : List Ty) : tagList (t :: ts) = tag t ++ tagList ts := by simp [tagList]
theorem tagList_nil : tagList [] = [] := by simp [tagList]
theorem tagFields_cons (n : Bytes) (t : Ty) (fs : List (Bytes × Ty)) :
    tagFields ((n, t) :: fs) = cBacktick :: (n ++ cQuote :: (tag t ++ tagFields fs)) := by simp [tagFields]
theorem tagFields_nil : tagFields [] = [] := by simp [tagFields]
theorem tagEnums_cons (h n : Bytes) (es : List (Bytes × Bytes)) :
    tagEnums ((h, n) :: es) = h ++ cBacktick :: (n ++ cQuote :: tagEnums es) := by simp [tagEnums]
theorem tagEnums_nil : tagEnums [] = [] := by simp [tagEnums]

/-! ### list forms of the side conditions -/

theorem TyOkN.of_tyOk {t : Ty} (h : TyOk t = true) : TyOkN t = true := by simp [TyOkN, h]

theorem tyOkList_forall {ts : List Ty} (h : TyOkList ts = true) : ∀ t ∈ ts, TyOk t = true := by
  induction ts with
  | nil => intro t ht; cases ht
  | cons a ts ih =>
    simp only [TyOkList, Bool.and_eq_true] at h
    intro t ht
    rcases List.mem_cons.1 ht with rfl | ht
    · exact h.1
    · exact ih h.2 t ht

theorem tyOkAlts_forall {ts : List Ty} (h : TyOkAlts ts = true) : ∀ t ∈ ts, TyOkN t = true := by
  induction ts with
  | nil => intro t ht; cases ht
  | cons a ts ih =>
    simp only [TyOkAlts, Bool.and_eq_true] at h
    intro t ht
    rcases List.mem_cons.1 ht with rfl | ht
    · exact h.1
    · exact ih h.2 t ht

theorem enums_noPair {o c : UInt8} (hp : IsPair o c) (ens : List (Bytes × Bytes)) (h : EnumsOk ens = true) :
    Neutral o c (tagEnums ens) := by
  induction ens with
  | nil => rw [tagEnums_nil]; exact Neutral.nil
  | cons a ens ih =>
    obtain ⟨hx, n⟩ := a
    simp only [EnumsOk, Bool.and_eq_true] at h
    rw [tagEnums_cons]
    have m := hp.ne_misc
    exact (Neutral.plain hp (Plain.of_hexOk h.1.1)).append
      (Neutral.cons m.1.1 m.1.2 ((Neutral.plain hp (Plain.of_nameOk h.1.2)).append
        (Neutral.cons m.2.1.1 m.2.1.2 (ih h.2))))

mutual
theorem tag_neutral {o c : UInt8} (hp : IsPair o c) (t : Ty) (h : TyOkN t = true) :
    Neutral o c (tag t) := by
  match t with
  | .arith x =>
    simp only [TyOkN, isNull, TyOk, Bool.false_or] at h
    rw [tag_arith]
    exact Neutral.plain hp (fun y hy => by simp at hy; subst hy; exact (arith_charOk h).1)
  | .null => rw [tag_null]; exact Neutral.single hp.ne_misc.2.2.2.1 hp.ne_misc.2.2.2.2
  | .seq e =>
    simp only [TyOkN, isNull, TyOk, Bool.false_or] at h
    rw [tag_seq]
    exact Neutral.cons hp.ne_misc.2.2.1.1 hp.ne_misc.2.2.1.2 (tag_neutral hp e (TyOkN.of_tyOk h))
  | .tup es =>
    simp only [TyOkN, isNull, TyOk, Bool.false_or] at h
    rw [tag_tup]
    exact Neutral.bracket hp (.inl ⟨rfl, rfl⟩)
      (tagList_neutral hp es fun t ht => TyOkN.of_tyOk (tyOkList_forall h t ht))
  | .var es =>
    simp only [TyOkN, isNull, TyOk, Bool.false_or, Bool.and_eq_true] at h
    rw [tag_var]
    exact Neutral.bracket hp (.inr (.inl ⟨rfl, rfl⟩)) (tagList_neutral hp es (tyOkAlts_forall h.2))
  | .enum u n ens =>
    simp only [TyOkN, isNull, TyOk, Bool.false_or, Bool.and_eq_true] at h
    replace h := h.1
    rw [tag_enum]
    have m := hp.ne_misc
    have hu := hp.ne_of_charOk (arith_charOk h.1.1).1
    exact Neutral.bracket hp (.inr (.inr (.inr ⟨rfl, rfl⟩)))
      (Neutral.cons hu.1 hu.2 (Neutral.cons m.1.1 m.1.2
        ((Neutral.plain hp (Plain.of_nameOk h.1.2)).append
          (Neutral.cons m.2.1.1 m.2.1.2 (enums_noPair hp ens h.2)))))
  | .struct n fs =>
    simp only [TyOkN, isNull, TyOk, Bool.false_or, Bool.and_eq_true] at h
    rw [tag_struct]
    exact Neutral.bracket hp (.inr (.inr (.inl ⟨rfl, rfl⟩)))
      ((Neutral.plain hp (Plain.of_nameOk h.1)).append (tagFields_neutral hp fs h.2))
theorem tagList_neutral {o c : UInt8} (hp : IsPair o c) (ts : List Ty) (h : ∀ t ∈ ts, TyOkN t = true) :
    Neutral o c (tagList ts) := by
  match ts with
  | [] => rw [tagList_nil]; exact Neutral.nil
  | t :: ts =>
    rw [tagList_cons]
    exact (tag_neutral hp t (h t (by simp))).append
      (tagList_neutral hp ts fun x hx => h x (by simp [hx]))
theorem tagFields_neutral {o c : UInt8} (hp : IsPair o c) (fs : List (Bytes × Ty)) (h : TyOkFields fs = true) :
    Neutral o c (tagFields fs) := by
  match fs with
  | [] => rw [tagFields_nil]; exact Neutral.nil
  | (n, t) :: fs =>
    simp only [TyOkFields, Bool.and_eq_true] at h
    rw [tagFields_cons]
    have m := hp.ne_misc
    exact Neutral.cons m.1.1 m.1.2 ((Neutral.plain hp (Plain.of_nameOk h.1.1)).append
      (Neutral.cons m.2.1.1 m.2.1.2 ((tag_neutral hp t (TyOkN.of_tyOk h.1.2)).append
        (tagFields_neutral hp fs h.2))))
end

/-! ### `tag_first_size` / `tag_pop` -/

theorem tagFirstSize_lbrack (s : Bytes) : tagFirstSize (cLBrack :: s) = tagFirstSize s + 1 := by
  simp only [tagFirstSize, countLeading, if_true]
  rw [Nat.add_comm 1, List.drop_succ_cons]
  cases List.drop (countLeading cLBrack s) s with
  | nil => rfl
  | cons x xs =>
    simp only
    repeat' split
    all_goals omega

theorem tagFirstSize_pair {o c : UInt8} {s : Bytes} (hp : IsPair o c) (hs : Neutral o c s) (rest : Bytes) :
    tagFirstSize (o :: (s ++ c :: rest)) = s.length + 2 := by
  have key : sizeBetweenBalanced (o :: (s ++ c :: rest)) o c = s.length + 2 := by
    simp only [sizeBetweenBalanced, List.drop_succ_cons, List.drop_zero]
    rw [hs _ _ _ (Nat.le_refl 1)]
    have hoc : c ≠ o := by
      rcases hp with ⟨rfl, rfl⟩ | ⟨rfl, rfl⟩ | ⟨rfl, rfl⟩ | ⟨rfl, rfl⟩ <;> decide
    simp [balancedGo, hoc]
    omega
  rcases hp with ⟨rfl, rfl⟩ | ⟨rfl, rfl⟩ | ⟨rfl, rfl⟩ | ⟨rfl, rfl⟩ <;>
    simp [tagFirstSize, countLeading, cLParen, cLBrack, cLt, cLBrace, cSlash] <;>
    simpa [cLParen, cRParen, cLt, cGt, cLBrace, cRBrace, cSlash, cBackslash] using key

theorem tagFirstSize_other (x : UInt8) (rest : Bytes)
    (h : x ≠ cLBrack ∧ x ≠ cLParen ∧ x ≠ cLt ∧ x ≠ cLBrace ∧ x ≠ cSlash) :
    tagFirstSize (x :: rest) = 1 := by
  simp [tagFirstSize, countLeading, h]

theorem tagFirstSize_tag (t : Ty) (h : TyOkN t = true) (rest : Bytes) :
    tagFirstSize (tag t ++ rest) = (tag t).length := by
  match t with
  | .arith x =>
    simp only [TyOkN, isNull, TyOk, Bool.false_or] at h
    have := charOk_ne (arith_charOk h).1
    rw [tag_arith]
    exact tagFirstSize_other x rest ⟨this.2.2.2.2.2.2.1, this.1, this.2.2.1, this.2.2.2.2.1, this.2.2.2.2.2.2.2.2.1⟩
  | .null => rw [tag_null]; exact tagFirstSize_other _ rest (by decide)
  | .seq e =>
    simp only [TyOkN, isNull, TyOk, Bool.false_or] at h
    rw [tag_seq, List.cons_append, tagFirstSize_lbrack, tagFirstSize_tag e (TyOkN.of_tyOk h) rest]
    rfl
  | .tup es =>
    have hp : IsPair cLParen cRParen := .inl ⟨rfl, rfl⟩
    have hn := tag_neutral hp _ h
    simp only [TyOkN, isNull, TyOk, Bool.false_or] at h
    rw [tag_tup, List.cons_append, List.append_assoc, List.singleton_append,
      tagFirstSize_pair hp (tagList_neutral hp es fun t ht => TyOkN.of_tyOk (tyOkList_forall h t ht))]
    simp
  | .var es =>
    have hp : IsPair cLt cGt := .inr (.inl ⟨rfl, rfl⟩)
    simp only [TyOkN, isNull, TyOk, Bool.false_or, Bool.and_eq_true] at h
    rw [tag_var, List.cons_append, List.append_assoc, List.singleton_append,
      tagFirstSize_pair hp (tagList_neutral hp es (tyOkAlts_forall h.2))]
    simp
  | .enum u n ens =>
    have hp : IsPair cSlash cBackslash := .inr (.inr (.inr ⟨rfl, rfl⟩))
    simp only [TyOkN, isNull, TyOk, Bool.false_or, Bool.and_eq_true] at h
    replace h := h.1
    have m := hp.ne_misc
    have hu := hp.ne_of_charOk (arith_charOk h.1.1).1
    rw [tag_enum, List.cons_append, List.append_assoc, List.singleton_append,
      tagFirstSize_pair hp (Neutral.cons hu.1 hu.2 (Neutral.cons m.1.1 m.1.2
        ((Neutral.plain hp (Plain.of_nameOk h.1.2)).append
          (Neutral.cons m.2.1.1 m.2.1.2 (enums_noPair hp ens h.2)))))]
    simp; omega
  | .struct n fs =>
    have hp : IsPair cLBrace cRBrace := .inr (.inr (.inl ⟨rfl, rfl⟩))
    simp only [TyOkN, isNull, TyOk, Bool.false_or, Bool.and_eq_true] at h
    rw [tag_struct, List.cons_append, List.append_assoc, List.singleton_append,
      tagFirstSize_pair hp ((Neutral.plain hp (Plain.of_nameOk h.1)).append (tagFields_neutral hp fs h.2))]
    simp; omega

theorem tagPop_tag (t : Ty) (h : TyOkN t = true) (rest : Bytes) :
    tagPop (tag t ++ rest) = (tag t, rest) := by
  simp [tagPop, tagFirstSize_tag t h rest]

theorem tagPop_tag_nil (t : Ty) (h : TyOkN t = true) : tagPop (tag t) = (tag t, []) := by
  have := tagPop_tag t h []
  rwa [List.append_nil] at this

theorem tagPop_nil : tagPop [] = ([], []) := by simp [tagPop, tagFirstSize, countLeading]

theorem tag_ne_nil (t : Ty) : tag t ≠ [] := by
  cases t <;> simp [tag]

theorem tag_length_pos (t : Ty) : 0 < (tag t).length :=
  List.length_pos_iff.2 (tag_ne_nil t)

end BinlogVerif.Mser
