import BinlogVerif.Conc.Locks
/-
  Lock / ownership discipline ⇒ no data race (vector-clock model of `Conc/Locks.lean`).

  Invariant (`Inv`): whoever holds `m` — or, if `m` is free, the clock stored at `m`'s last
  release — has every earlier lock-protected access in its clock (`Cov`).
-/
namespace BinlogVerif.Locks

@[simp] theorem upd_same {α : Type} (f : Nat → α) (i : Nat) (v : α) : upd f i v i = v := by
  simp [upd]

theorem upd_ne {α : Type} (f : Nat → α) {i j : Nat} (v : α) (h : j ≠ i) : upd f i v j = f j := by
  simp [upd, h]

theorem upd_apply {α : Type} (f : Nat → α) (i j : Nat) (v : α) :
    upd f i v j = if j = i then v else f j := rfl

theorem join_left (a b : VC) (i : Nat) : a i ≤ VC.join a b i := Nat.le_max_left _ _
theorem join_right (a b : VC) (i : Nat) : b i ≤ VC.join a b i := Nat.le_max_right _ _
theorem inc_le (t : Nat) (a : VC) (i : Nat) : a i ≤ VC.inc t a i := by
  unfold VC.inc; split <;> omega

/-- Thread clocks only grow. -/
theorem clk_mono (s : St) (e : Ev) (u i : Nat) : s.clk u i ≤ (step s e).clk u i := by
  cases e <;> simp only [step, upd_apply] <;> repeat' split
  all_goals first
    | exact Nat.le_refl _
    | (subst_vars; first | exact join_left _ _ _ | exact inc_le _ _ _ | exact join_right _ _ _)

/-- The access `a` is covered by mutex `m`: the holder of `m` has `a` in its clock; if `m` is
    free, the clock of `m`'s last release has it. -/
def Cov (s : St) (m : Nat) (a : Acc) : Prop :=
  match s.own m with
  | some h => a.k ≤ s.clk h a.t
  | none => a.k ≤ s.lck m a.t

/-- Coverage is preserved by every enabled step. -/
theorem cov_step {s : St} {e : Ev} {m : Nat} {a : Acc} (he : enabled s e = true)
    (hc : Cov s m a) : Cov (step s e) m a := by
  have hm := clk_mono s e
  cases e with
  | acq t m' =>
    simp only [enabled, beq_iff_eq] at he
    unfold Cov at hc ⊢
    by_cases hmm : m = m'
    · subst hmm
      rw [he] at hc
      simp only [step, upd_same]
      exact Nat.le_trans hc (join_right _ _ _)
    · have ho : (step s (.acq t m')).own m = s.own m := by simp [step, upd_ne _ _ hmm]
      have hl : (step s (.acq t m')).lck m = s.lck m := rfl
      rw [ho, hl]
      cases hown : s.own m with
      | none => simpa [hown] using hc
      | some h => rw [hown] at hc; exact Nat.le_trans hc (hm _ _)
  | rel t m' =>
    simp only [enabled, beq_iff_eq] at he
    unfold Cov at hc ⊢
    by_cases hmm : m = m'
    · subst hmm
      rw [he] at hc
      simp only [step, upd_same]
      exact hc
    · have ho : (step s (.rel t m')).own m = s.own m := by simp [step, upd_ne _ _ hmm]
      have hl : (step s (.rel t m')).lck m = s.lck m := by simp [step, upd_ne _ _ hmm]
      rw [ho, hl]
      cases hown : s.own m with
      | none => simpa [hown] using hc
      | some h => rw [hown] at hc; exact Nat.le_trans hc (hm _ _)
  | rd t x => exact hc
  | wr t x => exact hc
  | fork t c =>
    unfold Cov at hc ⊢
    have ho : (step s (.fork t c)).own m = s.own m := rfl
    have hl : (step s (.fork t c)).lck m = s.lck m := rfl
    rw [ho, hl]
    cases hown : s.own m with
    | none => simpa [hown] using hc
    | some h => rw [hown] at hc; exact Nat.le_trans hc (hm _ _)
  | join t c =>
    unfold Cov at hc ⊢
    have ho : (step s (.join t c)).own m = s.own m := rfl
    have hl : (step s (.join t c)).lck m = s.lck m := rfl
    rw [ho, hl]
    cases hown : s.own m with
    | none => simpa [hown] using hc
    | some h => rw [hown] at hc; exact Nat.le_trans hc (hm _ _)

/-- An access made by the holder of `m` is covered by `m`. -/
theorem cov_of_held {s : St} {m t : Nat} {w : Bool} (h : s.held t m = true) :
    Cov s m ⟨w, t, s.clk t t⟩ := by
  simp only [St.held, beq_iff_eq] at h
  simp [Cov, h]

/-- A covered access happens-before every event of the holder. -/
theorem before_of_cov {s : St} {m t : Nat} {a : Acc} (h : s.held t m = true) (hc : Cov s m a) :
    a.before t (s.clk t) = true := by
  simp only [St.held, beq_iff_eq] at h
  simp only [Cov, h] at hc
  simp [Acc.before, hc]

theorem before_of_same {t : Nat} {a : Acc} (c : VC) (h : a.t = t) : a.before t c = true := by
  simp [Acc.before, h]

/-- The invariant on a recorded access of a location with discipline `d`. -/
def AccInv (s : St) (d : Disc) (a : Acc) : Prop :=
  match d with
  | .guarded m => Cov s m a
  | .ownerWrites o m => (a.w = true → a.t = o) ∧ ((a.w = false ∧ a.t = o) ∨ Cov s m a)
  | .threadLocal o => a.t = o

/-- Invariant of the fold. -/
def Inv (disc : Nat → Disc) (s : St) : Prop := ∀ x a, a ∈ s.acc x → AccInv s (disc x) a

theorem inv_init (disc : Nat → Disc) : Inv disc init := by
  intro x a h; simp [init] at h

theorem accInv_step {s : St} {e : Ev} {d : Disc} {a : Acc} (he : enabled s e = true)
    (h : AccInv s d a) : AccInv (step s e) d a := by
  cases d with
  | guarded m => exact cov_step he h
  | ownerWrites o m =>
    refine ⟨h.1, ?_⟩
    rcases h.2 with h2 | h2
    · exact Or.inl h2
    · exact Or.inr (cov_step he h2)
  | threadLocal o => exact h

/-- Accesses recorded after a step: the old ones, plus the new one if the step is an access. -/
theorem mem_acc_step {s : St} {e : Ev} {x : Nat} {a : Acc} (h : a ∈ (step s e).acc x) :
    a ∈ s.acc x ∨ (e = .rd a.t x ∧ a = ⟨false, a.t, s.clk a.t a.t⟩) ∨
      (e = .wr a.t x ∧ a = ⟨true, a.t, s.clk a.t a.t⟩) := by
  cases e with
  | rd t y =>
    simp only [step, upd_apply] at h
    split at h
    · subst_vars
      rcases List.mem_cons.1 h with h | h
      · subst h; exact Or.inr (Or.inl ⟨rfl, rfl⟩)
      · exact Or.inl h
    · exact Or.inl h
  | wr t y =>
    simp only [step, upd_apply] at h
    split at h
    · subst_vars
      rcases List.mem_cons.1 h with h | h
      · subst h; exact Or.inr (Or.inr ⟨rfl, rfl⟩)
      · exact Or.inl h
    · exact Or.inl h
  | acq t m => exact Or.inl h
  | rel t m => exact Or.inl h
  | fork t c => exact Or.inl h
  | join t c => exact Or.inl h

theorem inv_step {disc : Nat → Disc} {s : St} {e : Ev} (hi : Inv disc s)
    (he : enabled s e = true) (ho : obeysEv disc s.held e = true) : Inv disc (step s e) := by
  intro x a hmem
  rcases mem_acc_step hmem with h | ⟨rfl, ha⟩ | ⟨rfl, ha⟩
  · exact accInv_step he (hi x a h)
  · -- new read
    apply accInv_step he
    rw [ha]
    simp only [obeysEv] at ho
    cases hd : disc x with
    | guarded m => rw [hd] at ho; exact cov_of_held ho
    | ownerWrites o m =>
      rw [hd] at ho
      simp only [Bool.or_eq_true, beq_iff_eq] at ho
      refine ⟨by simp, ?_⟩
      rcases ho with ho | ho
      · exact Or.inl ⟨rfl, ho⟩
      · exact Or.inr (cov_of_held ho)
    | threadLocal o => rw [hd] at ho; simpa [AccInv] using ho
  · -- new write
    apply accInv_step he
    rw [ha]
    simp only [obeysEv] at ho
    cases hd : disc x with
    | guarded m => rw [hd] at ho; exact cov_of_held ho
    | ownerWrites o m =>
      rw [hd] at ho
      simp only [Bool.and_eq_true, beq_iff_eq] at ho
      exact ⟨fun _ => ho.1, Or.inr (cov_of_held ho.2)⟩
    | threadLocal o => rw [hd] at ho; simpa [AccInv] using ho

/-- Under the invariant, an access that obeys its discipline does not race. -/
theorem inv_noRace {disc : Nat → Disc} {s : St} {e : Ev} (hi : Inv disc s)
    (ho : obeysEv disc s.held e = true) : noRace s e = true := by
  cases e with
  | rd t x =>
    simp only [noRace, List.all_eq_true]
    intro a ha
    have hA := hi x a ha
    simp only [obeysEv] at ho
    cases hw : a.w with
    | false => rfl
    | true =>
      simp only [Bool.not_true, Bool.false_or]
      cases hd : disc x with
      | guarded m => rw [hd] at ho hA; exact before_of_cov ho hA
      | ownerWrites o m =>
        rw [hd] at ho hA
        simp only [Bool.or_eq_true, beq_iff_eq] at ho
        rcases ho with ho | ho
        · exact before_of_same _ ((hA.1 hw).trans ho.symm)
        · rcases hA.2 with h2 | h2
          · rw [hw] at h2; exact absurd h2.1 (by simp)
          · exact before_of_cov ho h2
      | threadLocal o =>
        rw [hd] at ho hA
        simp only [beq_iff_eq] at ho
        exact before_of_same _ (hA.trans ho.symm)
  | wr t x =>
    simp only [noRace, List.all_eq_true]
    intro a ha
    have hA := hi x a ha
    simp only [obeysEv] at ho
    cases hd : disc x with
    | guarded m => rw [hd] at ho hA; exact before_of_cov ho hA
    | ownerWrites o m =>
      rw [hd] at ho hA
      simp only [Bool.and_eq_true, beq_iff_eq] at ho
      rcases hA.2 with h2 | h2
      · exact before_of_same _ (h2.2.trans ho.1.symm)
      · exact before_of_cov ho.2 h2
    | threadLocal o =>
      rw [hd] at ho hA
      simp only [beq_iff_eq] at ho
      exact before_of_same _ (hA.trans ho.symm)
  | acq t m => rfl
  | rel t m => rfl
  | fork t c => rfl
  | join t c => rfl

/-- Discipline ⇒ race freedom, from any state satisfying the invariant. -/
theorem raceFreeFrom_of_obeys {disc : Nat → Disc} (tr : List Ev) (s : St) (hi : Inv disc s)
    (hw : wellFormedFrom s tr = true) (ho : obeysFrom disc s tr = true) :
    raceFreeFrom s tr = true := by
  induction tr generalizing s with
  | nil => rfl
  | cons e tr ih =>
    simp only [wellFormedFrom, obeysFrom, Bool.and_eq_true] at hw ho
    simp only [raceFreeFrom, Bool.and_eq_true]
    exact ⟨inv_noRace hi ho.1, ih _ (inv_step hi hw.1 ho.1) hw.2 ho.2⟩

/-! ## `Obeys` / `WellFormed` in terms of prefixes and `holds` -/

theorem run_append (s : St) (a b : List Ev) : run s (a ++ b) = run (run s a) b := by
  induction a generalizing s with
  | nil => rfl
  | cons e a ih => exact ih _

theorem obeysFrom_iff_prefix (disc : Nat → Disc) (s : St) (tr : List Ev) :
    obeysFrom disc s tr = true ↔
      ∀ pre e post, tr = pre ++ e :: post → obeysEv disc (run s pre).held e = true := by
  induction tr generalizing s with
  | nil =>
    simp only [obeysFrom, true_iff]
    intro pre e post h
    cases pre <;> simp at h
  | cons e' tr ih =>
    simp only [obeysFrom, Bool.and_eq_true, ih]
    constructor
    · rintro ⟨h1, h2⟩ pre e post h
      cases pre with
      | nil =>
        simp only [List.nil_append, List.cons.injEq] at h
        rw [← h.1]; exact h1
      | cons p pre =>
        simp only [List.cons_append, List.cons.injEq] at h
        rw [← h.1]
        exact h2 pre e post h.2
    · intro h
      exact ⟨h [] e' tr rfl, fun pre e post hh => h (e' :: pre) e post (by rw [hh]; rfl)⟩

theorem holds_eq (tr : List Ev) : holds tr = (run init tr).held := rfl

/-- `Obeys`, unfolded: each event satisfies the discipline of its location, "holds" being
    evaluated on the prefix of the trace before the event. -/
theorem obeys_iff_prefix (disc : Nat → Disc) (tr : List Ev) :
    Obeys disc tr ↔ ∀ pre e post, tr = pre ++ e :: post → obeysEv disc (holds pre) e = true := by
  simp only [Obeys, obeysFrom_iff_prefix, holds_eq]

theorem wellFormedFrom_iff_prefix (s : St) (tr : List Ev) :
    wellFormedFrom s tr = true ↔
      ∀ pre e post, tr = pre ++ e :: post → enabled (run s pre) e = true := by
  induction tr generalizing s with
  | nil =>
    simp only [wellFormedFrom, true_iff]
    intro pre e post h
    cases pre <;> simp at h
  | cons e' tr ih =>
    simp only [wellFormedFrom, Bool.and_eq_true, ih]
    constructor
    · rintro ⟨h1, h2⟩ pre e post h
      cases pre with
      | nil =>
        simp only [List.nil_append, List.cons.injEq] at h
        rw [← h.1]; exact h1
      | cons p pre =>
        simp only [List.cons_append, List.cons.injEq] at h
        rw [← h.1]
        exact h2 pre e post h.2
    · intro h
      exact ⟨h [] e' tr rfl, fun pre e post hh => h (e' :: pre) e post (by rw [hh]; rfl)⟩

/-- `WellFormed`, unfolded: `acq t m` only when nobody holds `m` after the prefix, `rel t m`
    only when `t` holds `m` after the prefix. -/
theorem wellFormed_iff_prefix (tr : List Ev) :
    WellFormed tr ↔ ∀ pre e post, tr = pre ++ e :: post →
      match e with
      | .acq _ m => ∀ u, holds pre u m = false
      | .rel t m => holds pre t m = true
      | _ => True := by
  simp only [WellFormed, wellFormedFrom_iff_prefix]
  constructor
  · intro h pre e post heq
    have := h pre e post heq
    cases e <;> simp_all [enabled, holds]
  · intro h pre e post heq
    have := h pre e post heq
    cases e with
    | acq t m =>
      simp only [holds, beq_eq_false_iff_ne, ne_eq] at this
      simp only [enabled, beq_iff_eq]
      cases ho : (run init pre).own m with
      | none => rfl
      | some u => exact absurd ho (this u)
    | rel t m => simpa [enabled, holds] using this
    | _ => rfl

end BinlogVerif.Locks
