import BinlogVerif.Reader.Entries
/-
  C09 support: the `NoTrap` predicate on outcomes, its closure rules, and the checked readers
  (`takeN`, `readU`, `decStr`, `decSource`, …) which fail only with `Range overflow`.
-/
namespace BinlogVerif

/-- an outcome that is not a trap: a value, or one of the exceptions thrown on purpose -/
def NoTrap {α : Type} (o : Outcome α) : Prop := ∀ w, o ≠ .error (.trap w)

namespace NoTrap

theorem ok {α : Type} (a : α) : NoTrap (.ok a : Outcome α) := fun _ h => by cases h

theorem pure {α : Type} (a : α) : NoTrap (Pure.pure a : Outcome α) := fun _ h => by cases h

theorem overflow {α : Type} : NoTrap (.error .overflow : Outcome α) := fun _ h => by cases h
theorem invalidSource {α : Type} : NoTrap (.error .invalidSource : Outcome α) := fun _ h => by cases h
theorem truncSize {α : Type} : NoTrap (.error .truncSize : Outcome α) := fun _ h => by cases h
theorem truncPayload {α : Type} : NoTrap (.error .truncPayload : Outcome α) := fun _ h => by cases h
theorem recursion {α : Type} : NoTrap (.error .recursion : Outcome α) := fun _ h => by cases h
theorem invalidTag {α : Type} : NoTrap (.error .invalidTag : Outcome α) := fun _ h => by cases h
theorem sizeMismatch {α : Type} : NoTrap (.error .sizeMismatch : Outcome α) := fun _ h => by cases h

theorem throw_invalidSource {α : Type} : NoTrap (throw Err.invalidSource : Outcome α) :=
  fun _ h => by cases h

/-- an error re-thrown from a computation that does not trap is not a trap -/
theorem of_eq {α β : Type} {o : Outcome α} {e : Err} (h : o = .error e) (ho : NoTrap o) :
    NoTrap (.error e : Outcome β) := by
  intro w hw
  cases hw
  exact ho w h

/-- `NoTrap` in `isTrap` form -/
theorem iff_isTrap {α : Type} (o : Outcome α) :
    NoTrap o ↔ ∀ e, o = .error e → e.isTrap = false := by
  constructor
  · intro h e he
    cases e with
    | trap w => exact absurd he (h w)
    | _ => rfl
  · intro h w hw
    have := h _ hw
    simp [Err.isTrap] at this

theorem bind {α β : Type} {o : Outcome α} {f : α → Outcome β} (ho : NoTrap o)
    (hf : ∀ a, NoTrap (f a)) : NoTrap (o >>= f) := by
  cases o with
  | error e =>
    intro w hw
    exact ho w (by simpa [Bind.bind, Except.bind] using hw)
  | ok a => exact hf a

theorem ite {α : Type} {c : Prop} [Decidable c] {a b : Outcome α} (ha : c → NoTrap a)
    (hb : ¬c → NoTrap b) : NoTrap (if c then a else b) := by
  by_cases h : c
  · rw [if_pos h]; exact ha h
  · rw [if_neg h]; exact hb h

/-- a total computation does not trap -/
theorem of_total {α : Type} {o : Outcome α} (h : ∃ a, o = .ok a) : NoTrap o := by
  obtain ⟨a, rfl⟩ := h
  exact ok a

end NoTrap

/--
  Goal-directed decomposition of `NoTrap (…)` goals: values and purpose-made exceptions are closed
  directly, re-thrown errors `.error e` are traced back (through the equation `split` leaves in the
  context) to the computation they came from, and `match`/`if` are split.  Extra closing tactics
  (the facts about the sub-computations) are supplied by the caller.
-/
syntax "no_trap_steps" (" [" tactic,* "]")? : tactic
macro_rules
  | `(tactic| no_trap_steps) => `(tactic| no_trap_steps [fail])
  | `(tactic| no_trap_steps [$ts,*]) => do
    let alts : Array (Lean.TSyntax `tactic) := ts.getElems
    `(tactic|
      repeat' first
        | with_reducible exact NoTrap.ok _
        | with_reducible exact NoTrap.pure _
        | with_reducible exact NoTrap.overflow
        | with_reducible exact NoTrap.invalidSource
        | with_reducible exact NoTrap.throw_invalidSource
        | with_reducible exact NoTrap.recursion
        | with_reducible exact NoTrap.invalidTag
        | with_reducible exact NoTrap.sizeMismatch
        | with_reducible assumption
        | (with_reducible refine NoTrap.ite ?_ ?_) <;> intro _
        | (first $[| ($alts:tactic)]*)
        | with_reducible apply NoTrap.of_eq (by assumption)
        | (with_reducible apply NoTrap.bind) <;> intros
        | dsimp only
        | split)

/-! ### checked readers -/

theorem takeN_noTrap (n : Nat) (r : Bytes) : NoTrap (takeN n r) := by
  unfold takeN
  no_trap_steps

theorem readU_noTrap (n : Nat) (r : Bytes) : NoTrap (readU n r) := by
  unfold readU
  no_trap_steps [exact takeN_noTrap _ _]

theorem decStr_noTrap (r : Bytes) : NoTrap (decStr r) := by
  unfold decStr
  no_trap_steps [exact takeN_noTrap _ _, exact readU_noTrap _ _]

theorem decSource_noTrap (r : Bytes) : NoTrap (decSource r) := by
  unfold decSource
  no_trap_steps [exact decStr_noTrap _, exact readU_noTrap _ _]

theorem decWriterProp_noTrap (r : Bytes) : NoTrap (decWriterProp r) := by
  unfold decWriterProp
  no_trap_steps [exact decStr_noTrap _, exact readU_noTrap _ _]

theorem decClockSync_noTrap (r : Bytes) : NoTrap (decClockSync r) := by
  unfold decClockSync
  no_trap_steps [exact decStr_noTrap _, exact readU_noTrap _ _]

end BinlogVerif
