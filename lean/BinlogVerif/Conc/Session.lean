import BinlogVerif.Reader.EventStream
/-
  L1 model of include/binlog/Session.hpp and SessionWriter.hpp.

  Every operation that runs under `Session::_mutex` (createChannel, setChannelWriterId/Name,
  addEventSource, setClockSync, consume, reconsumeMetadata) is one atomic step.  Buffers are kept
  as lists of entry PAYLOADS; the bytes handed to `OutputStream::write` are `frames` of them.
  Each channel's lock-free queue is replaced by what C01 proves it to be: a FIFO of whole commits,
  of which a consumer poll observes SOME prefix (`seen`, the release/acquire staleness) and all of
  it when the poll happens-after the last commit, delivered in one or two pieces that are split on
  a commit boundary.  The remaining lock-free accesses are explicit oracle inputs of `consume`:
    * `sawClosed` – what the load of `use_count()` reported (may be a stale "open"),
    * `seen`      – how many committed entries of the channel `beginRead` observed,
    * `split`     – where the (possibly wrapped) data is split into the two `write` calls.
  A channel that was replaced (`sealed`) was closed after `createChannel`, i.e. under the mutex:
  every later `consume` happens-after all commits to it, so it is always seen completely.
  The theorems quantify over ALL oracle values; the correspondence harness supplies the values
  the real code produced.
-/
namespace BinlogVerif.Sess
open BinlogVerif

/-- a structured entry; `payload` gives the bytes that are framed and written -/
inductive Entry where
  | clockSync (cs : ClockSync)
  | source (src : EventSource)
  | writerProp (wp : WriterProp)
  | event (sourceId clock : Nat) (args : Bytes)
deriving Repr, DecidableEq, Inhabited

def Entry.payload : Entry → Bytes
  | .clockSync cs => clockSyncPayload cs
  | .source src => sourcePayload src
  | .writerProp wp => writerPropPayload wp
  | .event sid clock args => eventPayload sid clock args

def Entry.isEvent : Entry → Bool
  | .event .. => true
  | _ => false

structure Chan where
  cid : Nat                   -- ghost: unique id (creation index)
  owner : Nat                 -- ghost: the writer that created it
  wp : WriterProp
  entries : List Entry        -- committed and unconsumed event entries, oldest first
  closed : Bool               -- the writer has dropped its reference
  sealed : Bool               -- closed by replaceChannel (ordered before every later consume by the mutex)
deriving Repr, Inhabited

/-- one `OutputStream::write` call: the whole entries it carries;
    the bytes written are the framed payloads -/
abbrev Write := List Entry

def writeBytes (w : Write) : Bytes := frames (w.map Entry.payload)

structure Session where
  channels : List Chan := []            -- `_channels`, in creation order
  clockSyncs : List Entry := []         -- `_clockSync` buffer: every clock sync ever set
  consumeClockSync : Bool := true
  sources : List Entry := []            -- `_sources` buffer: event-source entries
  sourcesConsumed : Nat := 0            -- `_sourcesConsumePos`, as a number of entries
  nextSourceId : Nat := 1
  totalConsumed : Nat := 0
  nextCid : Nat := 0
  writerChan : List (Nat × Nat) := []   -- writer ↦ cid of its current channel
  /- ghost -/
  outputs : List (List Write) := [[]]   -- all outputs so far (rotation starts a new one); newest LAST
  accepted : List (Nat × Entry) := []   -- (writer, event) in acceptance order
  delivered : List (Nat × Entry) := []  -- (writer, event) in delivery order
  lost : List (Nat × Entry) := []       -- entries dropped with their channel
deriving Repr, Inhabited

structure Poll where
  sawClosed : Bool
  seen : Nat
  split : Nat
deriving Repr, Inhabited

inductive Op where
  | createWriter (w : Nat) (id : Nat) (name : Bytes)
  | setWriterId (w : Nat) (id : Nat)
  | setWriterName (w : Nat) (name : Bytes)
  | addSource (src : EventSource)
  | log (w : Nat) (sourceId clock : Nat) (args : Bytes) (fits : Bool)
  | destroyWriter (w : Nat)
  | setClockSync (cs : ClockSync)
  | consume (polls : List Poll)
  | rotate                                   -- switch to a new output and call reconsumeMetadata on it
deriving Repr, Inhabited

def lookupWriter (s : Session) (w : Nat) : Option Nat := (s.writerChan.find? (·.1 == w)).map (·.2)

def setWriter (s : Session) (w : Nat) (cid : Option Nat) : Session :=
  let rest := s.writerChan.filter (·.1 != w)
  { s with writerChan := match cid with | some c => rest ++ [(w, c)] | none => rest }

def updChan (s : Session) (cid : Nat) (f : Chan → Chan) : Session :=
  { s with channels := s.channels.map fun c => if c.cid == cid then f c else c }

/-- append write calls to the current (newest) output -/
def emitAll (s : Session) (ws : List Write) : Session :=
  match s.outputs.reverse with
  | [] => { s with outputs := [ws] }
  | cur :: older => { s with outputs := older.reverse ++ [cur ++ ws] }

/-- what polling one channel does -/
structure PollResult where
  writes : List Write
  bytes : Nat
  chan : Chan
  removed : Bool
  batch : List Entry
  dropped : List Entry

/-- how many entries a poll of channel `c` takes: everything if the channel was sealed under the
    mutex, otherwise what the (possibly stale) acquire load of the write index shows -/
def pollN (c : Chan) (p : Poll) : Nat := if c.sealed then c.entries.length else min p.seen c.entries.length

/-- the two `write` calls for a batch: split at entry `k` if `0 < k < |batch|` -/
def pieces (batch : List Entry) (split : Nat) : List Write :=
  let k := min split batch.length
  if k = 0 ∨ k = batch.length then [batch] else [batch.take k, batch.drop k]

def pollChan (c : Chan) (p : Poll) : PollResult :=
  let n := pollN c p
  let batch := c.entries.take n
  let rest := c.entries.drop n
  let isClosed := p.sawClosed && c.closed
  if batch.isEmpty then ⟨[], 0, c, isClosed, [], if isClosed then rest else []⟩
  else
    let size := (writeBytes batch).length
    let wp := { c.wp with batchSize := size }
    let wpw : Write := [.writerProp wp]
    ⟨wpw :: pieces batch p.split, (writeBytes wpw).length + size, { c with wp := wp, entries := rest }, isClosed, batch,
      if isClosed then rest else []⟩

structure PollAll where
  writes : List Write := []
  bytes : Nat := 0
  chans : List Chan := []
  removed : Nat := 0
  delivered : List (Nat × Entry) := []
  lost : List (Nat × Entry) := []

/-- the channel loop of `consume` (order-preserving erase of the removed channels) -/
def pollAll : List Chan → List Poll → PollAll
  | [], _ => {}
  | c :: cs, ps =>
    let r := pollChan c (ps.headD ⟨false, 0, 0⟩)
    let rs := pollAll cs ps.tail
    { writes := r.writes ++ rs.writes, bytes := r.bytes + rs.bytes,
      chans := if r.removed then rs.chans else r.chan :: rs.chans,
      removed := (if r.removed then 1 else 0) + rs.removed,
      delivered := r.batch.map (fun e => (c.owner, e)) ++ rs.delivered,
      lost := r.dropped.map (fun e => (c.owner, e)) ++ rs.lost }

structure ConsumeResult where
  bytesConsumed : Nat
  totalBytesConsumed : Nat
  channelsPolled : Nat
  channelsRemoved : Nat
deriving Repr, Inhabited, DecidableEq

/-- the write calls of one `consume` -/
def consumeWrites (s : Session) (polls : List Poll) : List Write :=
  (if s.consumeClockSync then [s.clockSyncs] else []) ++ [s.sources.drop s.sourcesConsumed]
    ++ (pollAll s.channels polls).writes

/-- `Session::consume` -/
def consume (s : Session) (polls : List Poll) : Session × ConsumeResult :=
  let csBytes := if s.consumeClockSync then (writeBytes s.clockSyncs).length else 0
  let srcWrite : Write := s.sources.drop s.sourcesConsumed
  let r := pollAll s.channels polls
  let bytes := csBytes + (writeBytes srcWrite).length + r.bytes
  let s' := { s with consumeClockSync := false, sourcesConsumed := s.sources.length,
                      channels := r.chans, totalConsumed := s.totalConsumed + bytes,
                      delivered := s.delivered ++ r.delivered, lost := s.lost ++ r.lost }
  (emitAll s' (consumeWrites s polls), ⟨bytes, s.totalConsumed + bytes, s.channels.length, r.removed⟩)

/-- `Session::reconsumeMetadata` -/
def reconsumeMetadata (s : Session) : Session × ConsumeResult :=
  let w1 : Write := s.clockSyncs
  let w2 : Write := s.sources.take s.sourcesConsumed
  let bytes := (writeBytes w1).length + (writeBytes w2).length
  let s' := { s with totalConsumed := s.totalConsumed + bytes }
  (emitAll s' [w1, w2], ⟨bytes, s.totalConsumed + bytes, 0, 0⟩)

def newChan (s : Session) (owner : Nat) (wp : WriterProp) : Session × Nat :=
  let c : Chan := { cid := s.nextCid, owner := owner, wp := wp, entries := [], closed := false, sealed := false }
  ({ s with channels := s.channels ++ [c], nextCid := s.nextCid + 1 }, s.nextCid)

/-- one step; `none` = the operation is not applicable (unknown writer) -/
def step (s : Session) : Op → Option Session
  | .createWriter w id name =>
    let (s, cid) := newChan s w {}
    let s := setWriter s w (some cid)
    let s := if id != 0 then updChan s cid (fun c => { c with wp := { c.wp with id := id } }) else s
    let s := if !name.isEmpty then updChan s cid (fun c => { c with wp := { c.wp with name := name } }) else s
    some s
  | .setWriterId w id =>
    (lookupWriter s w).map fun cid => updChan s cid (fun c => { c with wp := { c.wp with id := id } })
  | .setWriterName w name =>
    (lookupWriter s w).map fun cid => updChan s cid (fun c => { c with wp := { c.wp with name := name } })
  | .addSource src =>
    let src := { src with id := s.nextSourceId }
    some { s with sources := s.sources ++ [.source src], nextSourceId := s.nextSourceId + 1 }
  | .log w sid clock args fits =>
    match lookupWriter s w with
    | none => none
    | some cid =>
      let e := Entry.event sid clock args
      let s := { s with accepted := s.accepted ++ [(w, e)] }
      if fits then some (updChan s cid (fun c => { c with entries := c.entries ++ [e] }))
      else
        -- replaceChannel: the new channel is created first (under the mutex), then the old reference is dropped
        match s.channels.find? (·.cid == cid) with
        | none => none
        | some old =>
          let (s, ncid) := newChan s w { id := old.wp.id, name := old.wp.name, batchSize := 0 }
          let s := updChan s cid (fun c => { c with closed := true, sealed := true })
          let s := setWriter s w (some ncid)
          some (updChan s ncid (fun c => { c with entries := c.entries ++ [e] }))
  | .destroyWriter w =>
    (lookupWriter s w).map fun cid => setWriter (updChan s cid (fun c => { c with closed := true })) w none
  | .setClockSync cs =>
    some { s with clockSyncs := s.clockSyncs ++ [.clockSync cs], consumeClockSync := true }
  | .consume polls => some (consume s polls).1
  | .rotate =>
    let s := { s with outputs := s.outputs ++ [[]] }
    some (reconsumeMetadata s).1

def exec : Session → List Op → Option Session
  | s, [] => some s
  | s, op :: ops => match step s op with
    | some s' => exec s' ops
    | none => none

/-- the session right after construction: the constructor serialises the system clock sync -/
def init (cs : ClockSync) : Session := { clockSyncs := [.clockSync cs] }

end BinlogVerif.Sess
