import BinlogVerif.Reader.Recovery
/-
  The memory blocks of the library as bytes, and what a memory image of the process looks like to
  `brecovery` (Reader/Recovery.lean).

  Two kinds of block carry a magic number:
    * a `RecoverableVectorOutputStream` block  `[magic | session(8) | size(8) | bytes(capacity)]`
      (`metaBlock`): the session's clock-sync buffer and its event-source buffer;
    * a `detail::Queue` header followed by its buffer
      `[magic | session(8) | W(8) | E(8) | capacity(8) | buffer ptr(8) | R(8) | buffer(capacity)]`
      (`chanBlock`).
  A block whose construction or destruction is in progress has eight zero bytes where the magic
  number goes.

  `MetaState` lists the states a recoverable metadata stream can be in AT ANY INSTANT (not only
  between calls), after the two fixes recorded for C08:
    * an entry is appended by ONE write call: its bytes are placed behind the current end first,
      then the size field is updated (`inserted`: the size field still counts the old entries only);
    * growing builds the new block with a zero magic, sets the magic when the copy is complete,
      then clears the magic of the old block, then frees it.
  `ChanImage` is a queue at any instant; its hypothesis `Ok` is what C01 + C04 provide: the region
  `beginRead` returns for the indices currently in memory is a run of whole framed entries, the
  committed-but-unreleased ones (`pending`).

  An image is a sequence of blocks in any order, separated by other memory (`filler`).  TRUSTED BASE:
  the model cannot exclude that other process memory (stale heap contents, a string constant, an
  event argument that happens to equal a magic number followed by a plausible header) contains the
  magic numbers; the theorems assume it does not (`NoMagicIn`, implied by `FillerOk`: no byte 0xBC).
  The same assumption is needed for every part of a block the scan looks INTO rather than jumps
  over: the unused capacity behind a metadata buffer's size field (`extra`, which holds the bytes
  of an entry being inserted), and blocks whose magic is zero.
-/
namespace BinlogVerif.Image
open BinlogVerif

def metaBlock (magicOn : Bool) (session sizeField : Nat) (content : Bytes) : Bytes :=
  (if magicOn then Recovery.metadataMagic else List.replicate 8 0) ++ le 8 session ++ le 8 sizeField ++ content

def chanBlock (magicOn : Bool) (session w e cap ptr r : Nat) (buf : Bytes) : Bytes :=
  (if magicOn then Recovery.dataMagic else List.replicate 8 0) ++ le 8 session ++ le 8 w ++ le 8 e ++ le 8 cap
    ++ le 8 ptr ++ le 8 r ++ buf

/-! ### filler -/

/-- memory that does not contain the first magic byte -/
def FillerOk (f : Bytes) : Prop := ∀ b ∈ f, b ≠ Recovery.firstMagicByte

instance (f : Bytes) : Decidable (FillerOk f) := by unfold FillerOk; infer_instance

/-- the bytes start with one of the two magic numbers -/
def StartsMagic (r : Bytes) : Prop := r.take 8 = Recovery.metadataMagic ∨ r.take 8 = Recovery.dataMagic

/-- No magic number starts at any position of `f`, when `f` is followed by `rest` (a magic number
    could straddle the boundary).  This is the weakest hypothesis under which the scan passes over
    `f`; `FillerOk f` implies it for every `rest`. -/
def NoMagicIn : Bytes → Bytes → Prop
  | [], _ => True
  | b :: f, rest => ¬ StartsMagic (b :: f ++ rest) ∧ NoMagicIn f rest

/-- the recovery tool accepts no block at the start of `r`: either no magic number starts there, or
    the candidate that follows the magic number is rejected -/
def InertAt (r : Bytes) : Prop :=
  (r.take 8 = Recovery.metadataMagic → Recovery.readMetadata (r.drop 8) = none) ∧
  (r.take 8 = Recovery.dataMagic → Recovery.readData (r.drop 8) = .ok none)

/-- At no position of `f` (followed by `rest`) does the recovery tool accept a block: either no magic
    number starts there, or the candidate that follows the magic number is rejected
    (`readMetadata … = none`, `readData … = .ok none`).  Real images contain stale copies of the
    magic numbers (a local variable in a dead stack frame, …) followed by garbage; this is the
    condition that covers them. -/
def Inert : Bytes → Bytes → Prop
  | [], _ => True
  | b :: f, rest =>
      ((b :: f ++ rest).take 8 = Recovery.metadataMagic → Recovery.readMetadata ((b :: f ++ rest).drop 8) = none) ∧
      ((b :: f ++ rest).take 8 = Recovery.dataMagic → Recovery.readData ((b :: f ++ rest).drop 8) = .ok none) ∧
      Inert f rest

theorem inert_cons (b : UInt8) (f rest : Bytes) :
    Inert (b :: f) rest ↔ InertAt (b :: (f ++ rest)) ∧ Inert f rest :=
  ⟨fun h => ⟨⟨h.1, h.2.1⟩, h.2.2⟩, fun h => ⟨h.1.1, h.1.2, h.2⟩⟩

theorem inert_of_noMagicIn {f rest : Bytes} (h : NoMagicIn f rest) : Inert f rest := by
  induction f with
  | nil => trivial
  | cons b f ih =>
    have h' : ¬ StartsMagic (b :: (f ++ rest)) ∧ NoMagicIn f rest := h
    exact ⟨fun e => absurd (.inl e) h'.1, fun e => absurd (.inr e) h'.1, ih h'.2⟩

/-- At the start of `r` the tool accepts no block, or it accepts one whose buffer is EMPTY and which
    ends within the next `room` bytes (e.g. a stale metadata magic number followed by a pointer —
    taken as session id — and eight zero bytes: size 0). -/
def InertEAt (r : Bytes) (room : Nat) : Prop :=
  (r.take 8 = Recovery.metadataMagic → Recovery.readMetadata (r.drop 8) = none ∨
      ∃ b n, Recovery.readMetadata (r.drop 8) = some (b, n) ∧ b.buffer = [] ∧ 8 + n ≤ room) ∧
  (r.take 8 = Recovery.dataMagic → Recovery.readData (r.drop 8) = .ok none ∨
      ∃ b n, Recovery.readData (r.drop 8) = .ok (some (b, n)) ∧ b.buffer = [] ∧ 8 + n ≤ room)

/-- Like `Inert`, but a candidate may also be ACCEPTED provided the recovered buffer is empty and the
    accepted junk block lies entirely inside `f` (the scan resumes within `f`).  Such buffers carry
    arbitrary session ids and add nothing to the output. -/
def InertE : Bytes → Bytes → Prop
  | [], _ => True
  | b :: f, rest => InertEAt (b :: (f ++ rest)) (f.length + 1) ∧ InertE f rest

theorem inertE_of_inert {f rest : Bytes} (h : Inert f rest) : InertE f rest := by
  induction f with
  | nil => trivial
  | cons b f ih =>
    obtain ⟨h1, h2⟩ := (inert_cons b f rest).mp h
    exact ⟨⟨fun e => .inl (h1.1 e), fun e => .inl (h1.2 e)⟩, ih h2⟩

/-! ### a metadata stream at any instant -/

inductive MetaState where
  /-- between calls: `entries` counted by the size field, `slack` = the unused capacity -/
  | stable (entries : List Bytes) (slack : Bytes)
  /-- an append in flight: the bytes of the new entry (a prefix of them, or all) are already behind
      the end (`extra` = those bytes and the remaining capacity), the size field is not updated yet -/
  | inserted (entries : List Bytes) (extra : Bytes)
  /-- growing: the new block is being filled or complete (`newSize`, `newContent`: whatever it holds),
      its magic is still zero; the old block is untouched -/
  | growingNoMagic (entries : List Bytes) (slackOld : Bytes) (newSize : Nat) (newContent : Bytes)
  /-- growing: the new block is complete and carries the magic; the old one still does too -/
  | growingBoth (entries : List Bytes) (slackOld slackNew : Bytes)
  /-- growing: the magic of the old block is cleared (then it is freed) -/
  | growingOldCleared (entries : List Bytes) (slackOld slackNew : Bytes)

/-- the payloads counted by the size field of the block(s) that carry the magic -/
def MetaState.committed : MetaState → List Bytes
  | .stable es _ | .inserted es _ | .growingNoMagic es _ _ _ | .growingBoth es _ _ | .growingOldCleared es _ _ => es

/-- the side conditions on a stream: payloads fit a 32-bit size field, the buffer a 64-bit one -/
def MetaState.Ok (st : MetaState) : Prop :=
  (∀ p ∈ st.committed, PayloadOk p) ∧ (frames st.committed).length < 2 ^ 64

/-! ### a queue at any instant -/

structure ChanImage where
  magicOn : Bool
  w : Nat
  e : Nat
  r : Nat
  cap : Nat
  ptr : Nat := 0            -- the buffer pointer: not used by the recovery tool
  buf : Bytes
  /-- payloads of the committed entries the consumer has not released yet, oldest first -/
  pending : List Bytes

/-- what C01 + C04 provide for the indices and buffer currently in memory -/
def ChanImage.Ok (c : ChanImage) : Prop :=
  c.buf.length = c.cap ∧ c.w ≤ c.cap ∧ c.e ≤ c.cap ∧ c.r ≤ c.cap ∧
  Recovery.beginReadCopy c.buf c.w c.e c.r = .ok (frames c.pending) ∧ ∀ p ∈ c.pending, PayloadOk p

def ChanImage.block (c : ChanImage) (session : Nat) : Bytes :=
  chanBlock c.magicOn session c.w c.e c.cap c.ptr c.r c.buf

/-! ### the blocks of an image -/

inductive Piece where
  /-- a metadata block that carries the magic: size field = `|frames entries|`, followed by `extra` -/
  | metaOn (session : Nat) (entries : List Bytes) (extra : Bytes)
  /-- a queue (with or without the magic, `c.magicOn`) -/
  | chan (session : Nat) (c : ChanImage)
  /-- any block whose magic is zero -/
  | off (bytes : Bytes)

def Piece.bytes : Piece → Bytes
  | .metaOn s es extra => metaBlock true s (frames es).length (frames es ++ extra)
  | .chan s c => c.block s
  | .off bs => bs

/-- what the recovery tool is to collect from the block -/
def Piece.recovered : Piece → Option Recovery.Recovered
  | .metaOn s es _ => some ⟨.metadata, s, frames es⟩
  | .chan s c => if c.magicOn then some ⟨.data, s, frames c.pending⟩ else none
  | .off _ => none

/-- Side conditions of a block that is followed by `rest` in the image.  Fields are 64-bit; the
    parts the scan looks into contain no magic number. -/
def Piece.Ok (rest : Bytes) : Piece → Prop
  | .metaOn s es extra => s < 2 ^ 64 ∧ (frames es).length < 2 ^ 64 ∧ (∀ p ∈ es, PayloadOk p) ∧ NoMagicIn extra rest
  | .chan s c => if c.magicOn then s < 2 ^ 64 ∧ c.cap < 2 ^ 64 ∧ c.Ok else NoMagicIn (c.block s) rest
  | .off bs => NoMagicIn bs rest

/-- the same with the rest-independent filler condition -/
def Piece.OkF : Piece → Prop
  | .metaOn s es extra => s < 2 ^ 64 ∧ (frames es).length < 2 ^ 64 ∧ (∀ p ∈ es, PayloadOk p) ∧ FillerOk extra
  | .chan s c => if c.magicOn then s < 2 ^ 64 ∧ c.cap < 2 ^ 64 ∧ c.Ok else FillerOk (c.block s)
  | .off bs => FillerOk bs

/-- the pieces of a metadata stream of session `s` -/
def MetaState.pieces (s : Nat) : MetaState → List Piece
  | .stable es slack => [.metaOn s es slack]
  | .inserted es extra => [.metaOn s es extra]
  | .growingNoMagic es slackOld newSize newContent => [.metaOn s es slackOld, .off (metaBlock false s newSize newContent)]
  | .growingBoth es slackOld slackNew => [.metaOn s es slackOld, .metaOn s es slackNew]
  | .growingOldCleared es slackOld slackNew =>
    [.off (metaBlock false s (frames es).length (frames es ++ slackOld)), .metaOn s es slackNew]

/-- the memory blocks of the stream -/
def MetaState.blocks (st : MetaState) (s : Nat) : List Bytes := (st.pieces s).map Piece.bytes

/-- number of blocks of the stream that carry the magic -/
def MetaState.live : MetaState → Nat
  | .growingBoth .. => 2
  | _ => 1

/-! ### images -/

/-- an image: `(filler, block)` pairs in memory order, then trailing filler -/
def flat : List (Bytes × Piece) → Bytes → Bytes
  | [], t => t
  | (f, p) :: rest, t => f ++ p.bytes ++ flat rest t

/-- side conditions of an image, finest form: no magic number anywhere except at the start of the
    blocks that carry one -/
def ImageOk : List (Bytes × Piece) → Bytes → Prop
  | [], t => NoMagicIn t []
  | (f, p) :: rest, t => NoMagicIn f (p.bytes ++ flat rest t) ∧ p.Ok (flat rest t) ∧ ImageOk rest t

/-- Side conditions of a block followed by `rest`, weakest form: the parts the scan looks into may
    contain magic numbers, provided the tool rejects the candidate behind each of them. -/
def Piece.OkI (rest : Bytes) : Piece → Prop
  | .metaOn s es extra => s < 2 ^ 64 ∧ (frames es).length < 2 ^ 64 ∧ (∀ p ∈ es, PayloadOk p) ∧ Inert extra rest
  | .chan s c => if c.magicOn then s < 2 ^ 64 ∧ c.cap < 2 ^ 64 ∧ c.Ok else Inert (c.block s) rest
  | .off bs => Inert bs rest

/-- Side conditions of an image, weakest form: at no position outside the blocks that carry a magic
    (and outside the buffers the tool jumps over) does the tool accept a block.  No separate
    "no straddling" condition is needed: after a rejection the scan resumes 8 bytes later, and a
    rejected magic number cannot end inside the magic number of a following block (the last magic
    byte 0xFE occurs in neither magic number at positions 0..6), see `Lemmas/ImageInert.lean`. -/
def ImageOkI : List (Bytes × Piece) → Bytes → Prop
  | [], t => Inert t []
  | (f, p) :: rest, t => Inert f (p.bytes ++ flat rest t) ∧ p.OkI (flat rest t) ∧ ImageOkI rest t

theorem Piece.okI_of_ok {p : Piece} {rest : Bytes} (h : p.Ok rest) : p.OkI rest := by
  cases p with
  | metaOn s es extra => exact ⟨h.1, h.2.1, h.2.2.1, inert_of_noMagicIn h.2.2.2⟩
  | chan s c =>
    simp only [Piece.Ok] at h
    simp only [Piece.OkI]
    by_cases hm : c.magicOn = true
    · rw [if_pos hm] at h ⊢; exact h
    · rw [if_neg hm] at h ⊢; exact inert_of_noMagicIn h
  | off bs => exact inert_of_noMagicIn h

theorem imageOkI_of_imageOk {img : List (Bytes × Piece)} {t : Bytes} (h : ImageOk img t) : ImageOkI img t := by
  induction img with
  | nil => exact inert_of_noMagicIn h
  | cons x rest ih =>
    obtain ⟨f, p⟩ := x
    have h' : NoMagicIn f (p.bytes ++ flat rest t) ∧ p.Ok (flat rest t) ∧ ImageOk rest t := h
    exact ⟨inert_of_noMagicIn h'.1, Piece.okI_of_ok h'.2.1, ih h'.2.2⟩

/-- `Piece.OkI` with `InertE` for the parts the scan looks into -/
def Piece.OkE (rest : Bytes) : Piece → Prop
  | .metaOn s es extra => s < 2 ^ 64 ∧ (frames es).length < 2 ^ 64 ∧ (∀ p ∈ es, PayloadOk p) ∧ InertE extra rest
  | .chan s c => if c.magicOn then s < 2 ^ 64 ∧ c.cap < 2 ^ 64 ∧ c.Ok else InertE (c.block s) rest
  | .off bs => InertE bs rest

/-- Side conditions of an image that may also contain junk magic numbers behind which the tool
    accepts an EMPTY buffer (`InertE`). -/
def ImageOkE : List (Bytes × Piece) → Bytes → Prop
  | [], t => InertE t []
  | (f, p) :: rest, t => InertE f (p.bytes ++ flat rest t) ∧ p.OkE (flat rest t) ∧ ImageOkE rest t

theorem Piece.okE_of_okI {p : Piece} {rest : Bytes} (h : p.OkI rest) : p.OkE rest := by
  cases p with
  | metaOn s es extra => exact ⟨h.1, h.2.1, h.2.2.1, inertE_of_inert h.2.2.2⟩
  | chan s c =>
    simp only [Piece.OkI] at h
    simp only [Piece.OkE]
    by_cases hm : c.magicOn = true
    · rw [if_pos hm] at h ⊢; exact h
    · rw [if_neg hm] at h ⊢; exact inertE_of_inert h
  | off bs => exact inertE_of_inert h

theorem imageOkE_of_imageOkI {img : List (Bytes × Piece)} {t : Bytes} (h : ImageOkI img t) : ImageOkE img t := by
  induction img with
  | nil => exact inertE_of_inert h
  | cons x rest ih =>
    obtain ⟨f, p⟩ := x
    have h' : Inert f (p.bytes ++ flat rest t) ∧ p.OkI (flat rest t) ∧ ImageOkI rest t := h
    exact ⟨inertE_of_inert h'.1, Piece.okE_of_okI h'.2.1, ih h'.2.2⟩

/-- side conditions of an image, simple form: fillers, unused capacity and blocks without a magic
    number do not contain the byte 0xBC -/
def ImageOkF (img : List (Bytes × Piece)) (t : Bytes) : Prop :=
  (∀ x ∈ img, FillerOk x.1 ∧ x.2.OkF) ∧ FillerOk t

/-- the buffers the recovery tool is to find, in image order -/
def expected (img : List (Bytes × Piece)) : List Recovery.Recovered := img.filterMap (·.2.recovered)

end BinlogVerif.Image
