import BinlogVerif.Reader.Recovery
/-
  The memory blocks of the library as bytes, and what a memory image of the process looks like to
  `brecovery` (Reader/Recovery.lean).

  Two kinds of block carry a magic number:
    * a `RecoverableVectorOutputStream` block  `[magic | session(8) | size(8) | bytes(capacity)]`
      (`metaBlock`): the session's clock-sync buffer and its event-source buffer;
    * a `detail::Queue` header followed by its buffer
      `[magic | session(8) | W(8) | E(8) | capacity(8) | buffer ptr(8) | R(8) | buffer(capacity)]`
      (`chanBlock`).
  A block whose construction or destruction is in progress has eight zero bytes where the magic
  number goes.

  `MetaState` lists the states a recoverable metadata stream can be in AT ANY INSTANT (not only
  between calls), after the two fixes recorded for C08:
    * an entry is appended by ONE write call: its bytes are placed behind the current end first,
      then the size field is updated (`inserted`: the size field still counts the old entries only);
    * growing builds the new block with a zero magic, sets the magic when the copy is complete,
      then clears the magic of the old block, then frees it.
  `ChanImage` is a queue at any instant; its hypothesis `Ok` is what C01 + C04 provide: the region
  `beginRead` returns for the indices currently in memory is a run of whole framed entries, the
  committed-but-unreleased ones (`pending`).

  An image is a sequence of blocks in any order, separated by other memory (`filler`).  TRUSTED BASE:
  the model cannot exclude that other process memory (stale heap contents, a string constant, an
  event argument that happens to equal a magic number followed by a plausible header) contains the
  magic numbers; the theorems assume it does not (`NoMagicIn`, implied by `FillerOk`: no byte 0xBC).
  The same assumption is needed for every part of a block the scan looks INTO rather than jumps
  over: the unused capacity behind a metadata buffer's size field (`extra`, which holds the bytes
  of an entry being inserted), and blocks whose magic is zero.
-/
namespace BinlogVerif.Image
open BinlogVerif

def metaBlock (magicOn : Bool) (session sizeField : Nat) (content : Bytes) : Bytes :=
  (if magicOn then Recovery.metadataMagic else List.replicate 8 0) ++ le 8 session ++ le 8 sizeField ++ content

def chanBlock (magicOn : Bool) (session w e cap ptr r : Nat) (buf : Bytes) : Bytes :=
  (if magicOn then Recovery.dataMagic else List.replicate 8 0) ++ le 8 session ++ le 8 w ++ le 8 e ++ le 8 cap
    ++ le 8 ptr ++ le 8 r ++ buf

/-! ### filler -/

/-- memory that does not contain the first magic byte -/
def FillerOk (f : Bytes) : Prop := ∀ b ∈ f, b ≠ Recovery.firstMagicByte

instance (f : Bytes) : Decidable (FillerOk f) := by unfold FillerOk; infer_instance

/-- the bytes start with one of the two magic numbers -/
def StartsMagic (r : Bytes) : Prop := r.take 8 = Recovery.metadataMagic ∨ r.take 8 = Recovery.dataMagic

/-- No magic number starts at any position of `f`, when `f` is followed by `rest` (a magic number
    could straddle the boundary).  This is the weakest hypothesis under which the scan passes over
    `f`; `FillerOk f` implies it for every `rest`. -/
def NoMagicIn : Bytes → Bytes → Prop
  | [], _ => True
  | b :: f, rest => ¬ StartsMagic (b :: f ++ rest) ∧ NoMagicIn f rest

/-! ### a metadata stream at any instant -/

inductive MetaState where
  /-- between calls: `entries` counted by the size field, `slack` = the unused capacity -/
  | stable (entries : List Bytes) (slack : Bytes)
  /-- an append in flight: the bytes of the new entry (a prefix of them, or all) are already behind
      the end (`extra` = those bytes and the remaining capacity), the size field is not updated yet -/
  | inserted (entries : List Bytes) (extra : Bytes)
  /-- growing: the new block is being filled or complete (`newSize`, `newContent`: whatever it holds),
      its magic is still zero; the old block is untouched -/
  | growingNoMagic (entries : List Bytes) (slackOld : Bytes) (newSize : Nat) (newContent : Bytes)
  /-- growing: the new block is complete and carries the magic; the old one still does too -/
  | growingBoth (entries : List Bytes) (slackOld slackNew : Bytes)
  /-- growing: the magic of the old block is cleared (then it is freed) -/
  | growingOldCleared (entries : List Bytes) (slackOld slackNew : Bytes)

/-- the payloads counted by the size field of the block(s) that carry the magic -/
def MetaState.committed : MetaState → List Bytes
  | .stable es _ | .inserted es _ | .growingNoMagic es _ _ _ | .growingBoth es _ _ | .growingOldCleared es _ _ => es

/-- the side conditions on a stream: payloads fit a 32-bit size field, the buffer a 64-bit one -/
def MetaState.Ok (st : MetaState) : Prop :=
  (∀ p ∈ st.committed, PayloadOk p) ∧ (frames st.committed).length < 2 ^ 64

/-! ### a queue at any instant -/

structure ChanImage where
  magicOn : Bool
  w : Nat
  e : Nat
  r : Nat
  cap : Nat
  ptr : Nat := 0            -- the buffer pointer: not used by the recovery tool
  buf : Bytes
  /-- payloads of the committed entries the consumer has not released yet, oldest first -/
  pending : List Bytes

/-- what C01 + C04 provide for the indices and buffer currently in memory -/
def ChanImage.Ok (c : ChanImage) : Prop :=
  c.buf.length = c.cap ∧ c.w ≤ c.cap ∧ c.e ≤ c.cap ∧ c.r ≤ c.cap ∧
  Recovery.beginReadCopy c.buf c.w c.e c.r = .ok (frames c.pending) ∧ ∀ p ∈ c.pending, PayloadOk p

def ChanImage.block (c : ChanImage) (session : Nat) : Bytes :=
  chanBlock c.magicOn session c.w c.e c.cap c.ptr c.r c.buf

/-! ### the blocks of an image -/

inductive Piece where
  /-- a metadata block that carries the magic: size field = `|frames entries|`, followed by `extra` -/
  | metaOn (session : Nat) (entries : List Bytes) (extra : Bytes)
  /-- a queue (with or without the magic, `c.magicOn`) -/
  | chan (session : Nat) (c : ChanImage)
  /-- any block whose magic is zero -/
  | off (bytes : Bytes)

def Piece.bytes : Piece → Bytes
  | .metaOn s es extra => metaBlock true s (frames es).length (frames es ++ extra)
  | .chan s c => c.block s
  | .off bs => bs

/-- what the recovery tool is to collect from the block -/
def Piece.recovered : Piece → Option Recovery.Recovered
  | .metaOn s es _ => some ⟨.metadata, s, frames es⟩
  | .chan s c => if c.magicOn then some ⟨.data, s, frames c.pending⟩ else none
  | .off _ => none

/-- Side conditions of a block that is followed by `rest` in the image.  Fields are 64-bit; the
    parts the scan looks into contain no magic number. -/
def Piece.Ok (rest : Bytes) : Piece → Prop
  | .metaOn s es extra => s < 2 ^ 64 ∧ (frames es).length < 2 ^ 64 ∧ (∀ p ∈ es, PayloadOk p) ∧ NoMagicIn extra rest
  | .chan s c => if c.magicOn then s < 2 ^ 64 ∧ c.cap < 2 ^ 64 ∧ c.Ok else NoMagicIn (c.block s) rest
  | .off bs => NoMagicIn bs rest

/-- the same with the rest-independent filler condition -/
def Piece.OkF : Piece → Prop
  | .metaOn s es extra => s < 2 ^ 64 ∧ (frames es).length < 2 ^ 64 ∧ (∀ p ∈ es, PayloadOk p) ∧ FillerOk extra
  | .chan s c => if c.magicOn then s < 2 ^ 64 ∧ c.cap < 2 ^ 64 ∧ c.Ok else FillerOk (c.block s)
  | .off bs => FillerOk bs

/-- the pieces of a metadata stream of session `s` -/
def MetaState.pieces (s : Nat) : MetaState → List Piece
  | .stable es slack => [.metaOn s es slack]
  | .inserted es extra => [.metaOn s es extra]
  | .growingNoMagic es slackOld newSize newContent => [.metaOn s es slackOld, .off (metaBlock false s newSize newContent)]
  | .growingBoth es slackOld slackNew => [.metaOn s es slackOld, .metaOn s es slackNew]
  | .growingOldCleared es slackOld slackNew =>
    [.off (metaBlock false s (frames es).length (frames es ++ slackOld)), .metaOn s es slackNew]

/-- the memory blocks of the stream -/
def MetaState.blocks (st : MetaState) (s : Nat) : List Bytes := (st.pieces s).map Piece.bytes

/-- number of blocks of the stream that carry the magic -/
def MetaState.live : MetaState → Nat
  | .growingBoth .. => 2
  | _ => 1

/-! ### images -/

/-- an image: `(filler, block)` pairs in memory order, then trailing filler -/
def flat : List (Bytes × Piece) → Bytes → Bytes
  | [], t => t
  | (f, p) :: rest, t => f ++ p.bytes ++ flat rest t

/-- side conditions of an image, finest form: no magic number anywhere except at the start of the
    blocks that carry one -/
def ImageOk : List (Bytes × Piece) → Bytes → Prop
  | [], t => NoMagicIn t []
  | (f, p) :: rest, t => NoMagicIn f (p.bytes ++ flat rest t) ∧ p.Ok (flat rest t) ∧ ImageOk rest t

/-- side conditions of an image, simple form: fillers, unused capacity and blocks without a magic
    number do not contain the byte 0xBC -/
def ImageOkF (img : List (Bytes × Piece)) (t : Bytes) : Prop :=
  (∀ x ∈ img, FillerOk x.1 ∧ x.2.OkF) ∧ FillerOk t

/-- the buffers the recovery tool is to find, in image order -/
def expected (img : List (Bytes × Piece)) : List Recovery.Recovered := img.filterMap (·.2.recovered)

end BinlogVerif.Image
