/-
  Executable model of binlog's lock-free single-producer/single-consumer byte queue
  (include/binlog/detail/{Queue,QueueWriter,QueueReader}.hpp) under the C++11 release/acquire
  memory model, as a view-based operational semantics.

  * Each atomic location (`writeIndex` = W, `readIndex` = R) is a *history* of messages in
    modification order (oldest first).  A load by the other thread may read ANY message at or
    after the last one that thread has read (coherence), not necessarily the newest; the choice is
    a parameter of the operation (`pBegin n j` reads R-message `j`, `cBegin i` reads W-message `i`).
    A thread always knows its own last store (`pW`, `cR`), as the relaxed loads of the own index
    in the C++ code do.
  * Non-atomic locations (every buffer cell and the plain field `dataEnd`) carry the *epoch* of
    the last producer write and of the last consumer read.  A thread's epoch is bumped by each of
    its index stores; a release store publishes the storing thread's current epoch in the message
    (`pub`); an acquire load raises the loader's view (`pSees`/`cSees`) to `pub`.  A non-atomic
    access is a data race iff the conflicting last access of the other thread carries an epoch
    above the accessor's view (no happens-before).  The first race is latched in `race`.
  * Written bytes are fresh tokens `1, 2, 3, …`; `commits`/`delivered` are ghost logs of the
    committed (endWrite) and consumed (beginRead … endRead) batches.

  Ghost fields (marked below) never influence a non-ghost field; they exist for the invariant
  of Lemmas/Queue*.lean.  The theorems of Props/C01.lean mention only non-ghost fields and the
  logs `race`, `commits`, `delivered`.

  Deviations from the design-round probe (all behaviour preserving):
    - cells/histories are `List`s (kernel reducible) instead of `Array`s;
    - `race : Option RaceKind` instead of `Option String`;
    - `pBegin` that needs a reload is *guarded* by `pending = []` (the real writer calls
      beginWrite, write…, endWrite; it never re-begins over uncommitted bytes), where the probe
      silently dropped the pending bytes;
    - the `int64` comparison `rightSize >= leftSize` is stated in `Nat` as `r + w ≤ cap + 1`
      (equivalent, see `Q.wrap_cond_int` in Lemmas/QueueBasic.lean), and `leftSize` as `r - 1`;
    - the two range loops are structural recursions (`writeCells`, `cReadRange`).
-/
namespace BinlogVerif.Q

inductive MOrd where | relaxed | acquire | release
deriving DecidableEq, Repr

/-- The four memory orders used on the two indices.  Defaults = the C++ code. -/
structure Orders where
  wStore : MOrd := MOrd.release   -- QueueWriter::endWrite, writeIndex.store
  wLoadC : MOrd := MOrd.acquire   -- QueueReader::beginRead, writeIndex.load
  rStore : MOrd := MOrd.release   -- QueueReader::endRead, readIndex.store
  rLoadP : MOrd := MOrd.acquire   -- QueueWriter::maximizeWriteCapacity, readIndex.load
deriving DecidableEq, Repr

/-- Orders under which the theorems hold: both stores release, both cross-thread loads acquire. -/
def Orders.Sufficient (o : Orders) : Prop :=
  o.wStore = MOrd.release ∧ o.wLoadC = MOrd.acquire ∧ o.rStore = MOrd.release ∧ o.rLoadP = MOrd.acquire

instance (o : Orders) : Decidable o.Sufficient := by unfold Orders.Sufficient; exact inferInstance

inductive RaceKind where
  | pWriteCell   -- producer writes a cell whose last consumer read it has not synchronised with
  | cReadCell    -- consumer reads a cell whose last producer write it has not synchronised with
  | pWriteEnd    -- producer writes dataEnd, racing with a consumer read of dataEnd
  | cReadEnd     -- consumer reads dataEnd, racing with a producer write of dataEnd
  | endOverCap   -- consumer observed dataEnd > capacity (would read out of bounds)
deriving DecidableEq, Repr

structure Msg where
  val : Nat          -- the index value stored
  pub : Nat          -- epoch published by this message (0 if the store was relaxed)
  lap : Nat := 0     -- ghost: number of wrap-arounds of W before this value
  base : Nat := 1    -- ghost: token held by cell 0 of that lap (cell x holds base + x)
deriving DecidableEq, Repr

structure St where
  cap : Nat
  data : List Nat              -- cell contents: one token per byte
  wEp : List Nat               -- per cell: producer epoch of last write
  rEp : List Nat               -- per cell: consumer epoch of last read
  E : Nat := 0                 -- dataEnd
  eWEp : Nat := 0              -- producer epoch of last write of dataEnd
  eREp : Nat := 0              -- consumer epoch of last read of dataEnd
  wHist : List Msg := [⟨0, 0, 0, 1⟩]   -- writeIndex history, oldest first
  rHist : List Msg := [⟨0, 0, 0, 1⟩]   -- readIndex history, oldest first
  -- producer private
  wp : Nat := 0                -- _writePos (offset)
  we : Nat := 0                -- _writeEnd (offset)
  pW : Nat := 0                -- producer's own (relaxed) view of W = last value it stored
  pRidx : Nat := 0             -- coherence: index of last R message read
  pSees : Nat := 0             -- consumer epochs the producer has synchronised with
  pEpoch : Nat := 1            -- current producer epoch, bumped at each W store
  pending : List Nat := []     -- tokens written since last commit
  -- consumer private
  cR : Nat := 0                -- consumer's own view of R = last value it stored
  cWidx : Nat := 0             -- coherence: index of last W message read
  cSees : Nat := 0             -- producer epochs the consumer has synchronised with
  cEpoch : Nat := 1            -- current consumer epoch, bumped at each R store
  readEnd : Nat := 0           -- _readEnd
  batch : List Nat := []       -- bytes returned by the last beginRead
  -- logs
  nextTok : Nat := 1
  commits : List (List Nat) := []     -- newest last
  delivered : List (List Nat) := []   -- newest last
  race : Option RaceKind := none
  -- ghost (proof only)
  hl : Nat := 0                -- lap of the newest W message
  hBase : Nat := 1             -- base token of lap hl
  wrapP : Bool := false        -- a wrap has been decided (dataEnd written) but not yet committed
  kLap : Nat := 0              -- lap / value of the R message the producer read last
  kVal : Nat := 0
  cLap : Nat := 0              -- lap / base of the consumer position cR
  cBase : Nat := 1
  rdLap : Nat := 0             -- lap / base of readEnd
  rdBase : Nat := 1
  pieces : List (List Nat) := []   -- the contiguous pieces of `batch` as returned by beginRead:
                                   -- `[b]` (buffer1 only) or `[b1, b2]` (wrapped: buffer1 = cells
                                   -- [r, dataEnd), buffer2 = cells [0, w)); `[]` after endRead
deriving Repr

def init (cap : Nat) : St :=
  { cap, data := List.replicate cap 0, wEp := List.replicate cap 0, rEp := List.replicate cap 0 }

inductive Op where
  | pBegin (n : Nat) (j : Nat)   -- beginWrite(n); reads R-message j if a load happens
  | pWrite (k : Nat)             -- writeBuffer of k bytes
  | pEnd                         -- endWrite
  | cBegin (i : Nat)             -- beginRead reading W-message i (and consuming the result)
  | cEnd                         -- endRead
deriving DecidableEq, Repr

def flag (s : St) (k : RaceKind) : St := if s.race.isSome then s else { s with race := some k }

def pWriteCell (s : St) (x tok : Nat) : St :=
  let s := if s.rEp.getD x 0 > s.pSees then flag s RaceKind.pWriteCell else s
  { s with data := s.data.set x tok, wEp := s.wEp.set x s.pEpoch }

/-- write fresh tokens `nextTok, nextTok+1, …` to cells `x, x+1, …` (k of them) -/
def writeCells (s : St) (x : Nat) : Nat → St
  | 0 => s
  | k+1 => writeCells (pWriteCell { s with nextTok := s.nextTok + 1 } x s.nextTok) (x+1) k

def cReadCell (s : St) (x : Nat) : St × Nat :=
  let s := if s.wEp.getD x 0 > s.cSees then flag s RaceKind.cReadCell else s
  ({ s with rEp := s.rEp.set x s.cEpoch }, s.data.getD x 0)

/-- read cells `lo, lo+1, …` (n of them) in order -/
def cReadRange (s : St) (lo : Nat) : Nat → St × List Nat
  | 0 => (s, [])
  | n+1 =>
    let p := cReadCell s lo
    let q := cReadRange p.1 (lo+1) n
    (q.1, p.2 :: q.2)

def step (o : Orders) (s : St) : Op → Option St
  | .pBegin n j =>
    if n ≤ s.we - s.wp then some s                       -- size <= writeCapacity(): no load
    else if s.pending ≠ [] then none                      -- guard: no re-begin over uncommitted bytes
    else if j < s.pRidx then none
    else match s.rHist[j]? with
      | none => none
      | some m =>
        let s := { s with pRidx := j,
                          pSees := if o.rLoadP = MOrd.acquire then max s.pSees m.pub else s.pSees,
                          kLap := m.lap, kVal := m.val, wrapP := false }
        let w : Nat := s.pW
        let r : Nat := m.val
        if w < r then some { s with wp := w, we := r - 1 }
        else if r + w ≤ s.cap + 1 then some { s with wp := w, we := s.cap }   -- rightSize >= leftSize
        else
          -- non-atomic write of dataEnd
          let s := if s.eREp > s.pSees then flag s RaceKind.pWriteEnd else s
          some { s with E := w, eWEp := s.pEpoch, wp := 0, we := r - 1, wrapP := true }
  | .pWrite k =>
    if k > s.we - s.wp then none
    else
      let s1 := writeCells s s.wp k
      some { s1 with wp := s.wp + k, pending := s.pending ++ List.range' s.nextTok k }
  | .pEnd =>
    let pub := if o.wStore = MOrd.release then s.pEpoch else 0
    let nl := if s.wrapP then s.hl + 1 else s.hl
    let nb := if s.wrapP then s.hBase + s.pW else s.hBase
    some { s with pW := s.wp, wHist := s.wHist ++ [⟨s.wp, pub, nl, nb⟩], pEpoch := s.pEpoch + 1,
                  commits := s.commits ++ [s.pending], pending := [],
                  hl := nl, hBase := nb, wrapP := false }
  | .cBegin i =>
    if i < s.cWidx then none
    else match s.wHist[i]? with
      | none => none
      | some m =>
        let s := { s with cWidx := i,
                          cSees := if o.wLoadC = MOrd.acquire then max s.cSees m.pub else s.cSees,
                          readEnd := m.val, rdLap := m.lap, rdBase := m.base }
        let w := m.val
        let r := s.cR
        if r ≤ w then
          let p := cReadRange s r (w - r)
          some { p.1 with batch := p.2, pieces := [p.2] }
        else
          -- non-atomic read of dataEnd
          let s := if s.eWEp > s.cSees then flag s RaceKind.cReadEnd else s
          let s := { s with eREp := s.cEpoch }
          if r < s.E then
            if s.E > s.cap then some (flag s RaceKind.endOverCap)
            else
              let p1 := cReadRange s r (s.E - r)
              let p2 := cReadRange p1.1 0 w
              some { p2.1 with batch := p1.2 ++ p2.2, pieces := [p1.2, p2.2] }
          else
            let p := cReadRange s 0 w
            some { p.1 with batch := p.2, pieces := [p.2] }
  | .cEnd =>
    let pub := if o.rStore = MOrd.release then s.cEpoch else 0
    some { s with cR := s.readEnd, rHist := s.rHist ++ [⟨s.readEnd, pub, s.rdLap, s.rdBase⟩],
                  cEpoch := s.cEpoch + 1,
                  delivered := if s.batch.isEmpty then s.delivered else s.delivered ++ [s.batch],
                  batch := [], cLap := s.rdLap, cBase := s.rdBase, pieces := [] }

/-- run a list of operations; `none` if some operation is not enabled -/
def exec (o : Orders) (s : St) : List Op → Option St
  | [] => some s
  | op :: ops => (step o s op).bind (fun s' => exec o s' ops)

end BinlogVerif.Q
