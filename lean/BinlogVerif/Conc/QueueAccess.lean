import BinlogVerif.Conc.Queue
/-
  The atomic accesses the model's steps perform, per C++ function, in program order.  The extractor
  regenerates the same table from the sources (`Generated/Orders.lean`) and `decide` compares them,
  so adding, removing, reordering or re-ordering (memory order) an atomic access of the queue
  breaks a proof obligation.
-/
namespace BinlogVerif.Q

def modelAccesses : List (String × String × String × String) := [
  -- unreadWriteSize: own index relaxed, other index acquire (not a step of the model: it only reads)
  ("QueueWriter::unreadWriteSize", "writeIndex", "load", "relaxed"),
  ("QueueWriter::unreadWriteSize", "readIndex", "load", "acquire"),
  -- pEnd
  ("QueueWriter::endWrite", "writeIndex", "store", "release"),
  -- pBegin (reload branch): own W relaxed (`pW`), then R with `rLoadP`
  ("QueueWriter::maximizeWriteCapacity", "writeIndex", "load", "relaxed"),
  ("QueueWriter::maximizeWriteCapacity", "readIndex", "load", "acquire"),
  -- cBegin: W with `wLoadC`, then own R relaxed (`cR`)
  ("QueueReader::beginRead", "writeIndex", "load", "acquire"),
  ("QueueReader::beginRead", "readIndex", "load", "relaxed"),
  -- cEnd
  ("QueueReader::endRead", "readIndex", "store", "release")
]

/-- The functions that access the NON-ATOMIC `dataEnd`.  The model's consumer step (`cBegin`) reads `E` only when the indices
    it loaded satisfy `r > w` (wrapped data): then the write of `E` that it can see happened before the release store of the
    `W` it acquired.  With `r ≤ w` nothing orders the read against the producer's NEXT wrap, which is why an unconditional
    read is a data race (C10).  The producer's own read (`unreadWriteSize`) and write (`maximizeWriteCapacity`, wrap branch)
    are on the producer thread.  That the code reads/writes under exactly these conditions is proved from the translated
    source: `SrcBridge.beginRead_dataEnd`, `unreadWriteSize_dataEnd`, `maximizeWriteCapacity_dataEnd`. -/
def modelPlainAccesses : List (String × String × String) := [
  ("QueueWriter::unreadWriteSize", "dataEnd", "read"),
  ("QueueWriter::maximizeWriteCapacity", "dataEnd", "write"),
  ("QueueReader::beginRead", "dataEnd", "read")
]

end BinlogVerif.Q
