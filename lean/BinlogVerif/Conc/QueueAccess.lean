import BinlogVerif.Conc.Queue
/-
  The atomic accesses the model's steps perform, per C++ function, in program order.  The extractor
  regenerates the same table from the sources (`Generated/Orders.lean`) and `decide` compares them,
  so adding, removing, reordering or re-ordering (memory order) an atomic access of the queue
  breaks a proof obligation.
-/
namespace BinlogVerif.Q

def modelAccesses : List (String × String × String × String) := [
  -- unreadWriteSize: own index relaxed, other index acquire (not a step of the model: it only reads)
  ("QueueWriter::unreadWriteSize", "writeIndex", "load", "relaxed"),
  ("QueueWriter::unreadWriteSize", "readIndex", "load", "acquire"),
  -- pEnd
  ("QueueWriter::endWrite", "writeIndex", "store", "release"),
  -- pBegin (reload branch): own W relaxed (`pW`), then R with `rLoadP`
  ("QueueWriter::maximizeWriteCapacity", "writeIndex", "load", "relaxed"),
  ("QueueWriter::maximizeWriteCapacity", "readIndex", "load", "acquire"),
  -- cBegin: W with `wLoadC`, then own R relaxed (`cR`)
  ("QueueReader::beginRead", "writeIndex", "load", "acquire"),
  ("QueueReader::beginRead", "readIndex", "load", "relaxed"),
  -- cEnd
  ("QueueReader::endRead", "readIndex", "store", "release")
]

end BinlogVerif.Q
