import BinlogVerif.Conc.Session
/-
  What the L1 session model assumes about locking: the operations below are atomic steps because
  the corresponding `Session` methods hold `_mutex` for their whole body.  `minSeverity`,
  `setMinSeverity` are lock-free (one atomic access each); `consumeSpecialEntry` is private and only
  called from `consume` (under the lock).  The extractor regenerates the list from the source.
-/
namespace BinlogVerif.Sess

def modelLockedMethods : List String :=
  ["createChannel", "setChannelWriterId", "setChannelWriterName", "addEventSource", "setClockSync", "consume",
   "reconsumeMetadata"]

end BinlogVerif.Sess
