import BinlogVerif.Reader.Entries
/-
  Model of the log macros (include/binlog/{basic,advanced}_log_macros.hpp,
  create_source_and_event_if.hpp, create_source_and_event.hpp) for severity control (C19).

  Every macro of the 24 (`BINLOG_<SEV>`, `_W`, `_C`, `_WC`) expands to
      do { if (severity >= writer.session().minSeverity()) { CREATE_SOURCE_AND_EVENT(...) } } while (false)
  (the expansion table is extracted from the preprocessor output, `Generated/Macros.lean`).
  `CREATE_SOURCE_AND_EVENT`: load the per-call-site id; if 0, register the source and store the
  id (the registration passes the arguments to `concatenated_tags`, evaluating them once more);
  then `addEvent` — which evaluates each argument expression once.
  Argument expressions are modelled as effects: evaluating the arguments of a statement with `n`
  effectful arguments adds `n` to the counter `evals`.
-/
namespace BinlogVerif.Macro
open BinlogVerif

structure Stmt where
  site : Nat            -- the call site (owns the static source id)
  session : Nat         -- which session the writer belongs to
  severity : Nat
  nargs : Nat           -- number of (effectful) argument expressions
deriving Repr, DecidableEq

structure St where
  minSeverity : List (Nat × Nat) := []     -- session ↦ minimum severity (default: trace = 32)
  registered : List Nat := []              -- call sites whose static id is non-zero
  events : Nat := 0                        -- events produced so far
  sources : Nat := 0                       -- event sources registered so far
  evals : Nat := 0                         -- argument expressions evaluated so far
deriving Repr, DecidableEq

def St.minOf (s : St) (session : Nat) : Nat := ((s.minSeverity.find? (·.1 == session)).map (·.2)).getD 32

inductive Op where
  | setMin (session sev : Nat)
  | stmt (st : Stmt)
deriving Repr

def step (s : St) : Op → St
  | .setMin session sev => { s with minSeverity := (session, sev) :: s.minSeverity.filter (·.1 != session) }
  | .stmt st =>
    if st.severity ≥ s.minOf st.session then
      let first := !s.registered.contains st.site
      { s with registered := if first then st.site :: s.registered else s.registered,
               sources := s.sources + (if first then 1 else 0),
               events := s.events + 1,
               -- the first execution evaluates the argument expressions twice: once for
               -- `concatenated_tags(__VA_ARGS__)` while registering the source, once for `addEvent`
               evals := s.evals + (if first then 2 * st.nargs else st.nargs) }
    else s

def exec (s : St) (ops : List Op) : St := ops.foldl step s

/-- the 24 macros: (name, severity, takes a writer argument, takes a category argument) -/
def macroTable : List (String × Nat × Bool × Bool) :=
  let sevs := [("TRACE", 32), ("DEBUG", 64), ("INFO", 128), ("WARN", 256), ("ERROR", 512), ("CRITICAL", 1024)]
  sevs.flatMap fun (n, v) =>
    [("BINLOG_" ++ n, v, false, false), ("BINLOG_" ++ n ++ "_W", v, true, false),
     ("BINLOG_" ++ n ++ "_C", v, false, true), ("BINLOG_" ++ n ++ "_WC", v, true, true)]

end BinlogVerif.Macro
