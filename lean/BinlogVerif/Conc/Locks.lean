/-
  Operational happens-before model for lock / ownership disciplines (property C10).

  Threads, mutexes and memory locations are `Nat`s.  A trace is a `List Ev` in program (global
  interleaving) order, oldest event first.  Happens-before is computed by VECTOR CLOCKS with a
  fold over the trace (the DJIT+ / FastTrack operational definition, without the epoch
  optimisation):

    * every thread `t` has a clock `clk t : Nat → Nat`, initially `clk t t = 1`, `0` elsewhere;
    * every mutex `m` stores the clock of its last release, `lck m`, initially all `0`;
    * `acq t m`   : `clk t := clk t ⊔ lck m`;
    * `rel t m`   : `lck m := clk t`, then `clk t t += 1`;
    * `fork t c`  : `clk c := clk c ⊔ clk t`, then `clk t t += 1`  (thread creation);
    * `join t c`  : `clk t := clk t ⊔ clk c`, then `clk c c += 1`  (`std::thread::join`);
    * `rd t x` / `wr t x` : the access is recorded for `x` with its EPOCH `(t, clk t t)`.

  An earlier access with epoch `(u, k)` happens-before the current event of thread `t` iff
  `u = t` (program order) or `k ≤ clk t u`.  An access RACES iff some earlier CONFLICTING access
  to the same location (write–write, write–read, read–write) does not happen-before it.

  Deliberate simplification (makes the definition of "race" self-evident): a location remembers
  the epochs of ALL its earlier accesses, not only the last write and the last read per thread.
  Since clocks only grow, the last-write / last-read-per-thread epochs are among the recorded ones
  and dominate the older ones of the same thread, so the check below is at least as strict as the
  DJIT+ check (it reports a race whenever DJIT+ does).  The DJIT+ shadow state itself is
  `raceFreeDjit` at the end of this file; `raceFree tr = true → raceFreeDjit tr = true` is proved
  in `Lemmas/LocksDjit.lean`.

  `WellFormed` is mutex semantics only (`acq` of a free mutex, `rel` by the holder).  `fork` /
  `join` are not constrained: they are pure synchronisation edges; a trace where a child acts
  before its fork is simply not a C++ execution, and leaving it in makes the theorems stronger.

  Everything is executable and core only.
-/
namespace BinlogVerif.Locks

/-- Events.  `t` is the acting thread. -/
inductive Ev where
  | acq (t m : Nat)
  | rel (t m : Nat)
  | rd (t x : Nat)
  | wr (t x : Nat)
  | fork (t child : Nat)
  | join (t child : Nat)
  deriving DecidableEq, Repr

/-- Vector clock. -/
abbrev VC := Nat → Nat

/-- Point update of a function on `Nat`. -/
def upd {α : Type} (f : Nat → α) (i : Nat) (v : α) : Nat → α := fun j => if j = i then v else f j

/-- Pointwise maximum. -/
def VC.join (a b : VC) : VC := fun i => max (a i) (b i)

/-- Bump component `t`. -/
def VC.inc (t : Nat) (a : VC) : VC := fun i => if i = t then a i + 1 else a i

/-- A recorded access: read or write, by thread `t`, at `t`'s local time `k` (its epoch). -/
structure Acc where
  w : Bool
  t : Nat
  k : Nat
  deriving DecidableEq, Repr

/-- State of the fold. -/
structure St where
  /-- thread clocks -/
  clk : Nat → VC
  /-- per mutex: clock of the last release -/
  lck : Nat → VC
  /-- per mutex: current holder -/
  own : Nat → Option Nat
  /-- per location: the recorded earlier accesses, newest first -/
  acc : Nat → List Acc

/-- Initial state: nobody holds anything, nothing accessed, thread `t` is at its own time 1. -/
def init : St where
  clk := fun t i => if i = t then 1 else 0
  lck := fun _ _ => 0
  own := fun _ => none
  acc := fun _ => []

/-- State transition. -/
def step (s : St) : Ev → St
  | .acq t m => { s with clk := upd s.clk t (VC.join (s.clk t) (s.lck m)), own := upd s.own m (some t) }
  | .rel t m => { s with lck := upd s.lck m (s.clk t), clk := upd s.clk t (VC.inc t (s.clk t)),
                         own := upd s.own m none }
  | .rd t x => { s with acc := upd s.acc x (⟨false, t, s.clk t t⟩ :: s.acc x) }
  | .wr t x => { s with acc := upd s.acc x (⟨true, t, s.clk t t⟩ :: s.acc x) }
  | .fork t c => { s with clk := upd (upd s.clk c (VC.join (s.clk c) (s.clk t))) t (VC.inc t (s.clk t)) }
  | .join t c => { s with clk := upd (upd s.clk t (VC.join (s.clk t) (s.clk c))) c (VC.inc c (s.clk c)) }

/-- State after a trace. -/
def run (s : St) : List Ev → St
  | [] => s
  | e :: tr => run (step s e) tr

/-- Mutex semantics: is `e` enabled in `s`? -/
def enabled (s : St) : Ev → Bool
  | .acq _ m => s.own m == none
  | .rel t m => s.own m == some t
  | _ => true

def wellFormedFrom (s : St) : List Ev → Bool
  | [] => true
  | e :: tr => enabled s e && wellFormedFrom (step s e) tr

/-- `acq t m` only when no thread holds `m`; `rel t m` only by the holder. -/
def WellFormed (tr : List Ev) : Prop := wellFormedFrom init tr = true

instance (tr : List Ev) : Decidable (WellFormed tr) := by unfold WellFormed; infer_instance

/-- Thread `t` holds mutex `m` after the trace (prefix) `tr`. -/
def holds (tr : List Ev) (t m : Nat) : Bool := (run init tr).own m == some t

theorem holds_nil (t m : Nat) : holds [] t m = false := rfl

/-- The recorded access `a` happens-before the current event of thread `t` whose clock is `c`. -/
def Acc.before (a : Acc) (t : Nat) (c : VC) : Bool := a.t == t || decide (a.k ≤ c a.t)

/-- The event does not race with any earlier access. -/
def noRace (s : St) : Ev → Bool
  | .rd t x => (s.acc x).all fun a => !a.w || a.before t (s.clk t)
  | .wr t x => (s.acc x).all fun a => a.before t (s.clk t)
  | _ => true

def raceFreeFrom (s : St) : List Ev → Bool
  | [] => true
  | e :: tr => noRace s e && raceFreeFrom (step s e) tr

/-- No access of the trace races with an earlier one. -/
def raceFree (tr : List Ev) : Bool := raceFreeFrom init tr

def firstRaceFrom (s : St) (i : Nat) : List Ev → Option Nat
  | [] => none
  | e :: tr => if noRace s e then firstRaceFrom (step s e) (i + 1) tr else some i

/-- Index of the first racing event, if any. -/
def firstRace (tr : List Ev) : Option Nat := firstRaceFrom init 0 tr

theorem firstRaceFrom_isNone (s : St) (i : Nat) (tr : List Ev) :
    (firstRaceFrom s i tr).isNone = raceFreeFrom s tr := by
  induction tr generalizing s i with
  | nil => rfl
  | cons e tr ih =>
    simp only [firstRaceFrom, raceFreeFrom]
    cases h : noRace s e <;> simp [ih]

theorem firstRace_isNone (tr : List Ev) : (firstRace tr).isNone = raceFree tr :=
  firstRaceFrom_isNone init 0 tr

/-! ## Location disciplines -/

/-- The discipline a location is subject to. -/
inductive Disc where
  /-- every access (read or write) is made while the accessing thread holds mutex `m` -/
  | guarded (m : Nat)
  /-- every write is made by thread `t` while holding `m`; every read is made by `t` (with or
      without the mutex) or by any thread while holding `m` -/
  | ownerWrites (t m : Nat)
  /-- only thread `t` accesses the location -/
  | threadLocal (t : Nat)
  deriving DecidableEq, Repr

/-- Does the event satisfy the discipline of its location, given who holds which mutex
    (`held t m` = thread `t` holds `m` just before the event)? -/
def obeysEv (disc : Nat → Disc) (held : Nat → Nat → Bool) : Ev → Bool
  | .rd t x =>
    match disc x with
    | .guarded m => held t m
    | .ownerWrites o m => t == o || held t m
    | .threadLocal o => t == o
  | .wr t x =>
    match disc x with
    | .guarded m => held t m
    | .ownerWrites o m => t == o && held t m
    | .threadLocal o => t == o
  | _ => true

/-- `s.held t m` = thread `t` holds `m` in state `s`. -/
def St.held (s : St) (t m : Nat) : Bool := s.own m == some t

def obeysFrom (disc : Nat → Disc) (s : St) : List Ev → Bool
  | [] => true
  | e :: tr => obeysEv disc s.held e && obeysFrom disc (step s e) tr

/-- Every access event of the trace satisfies the discipline of its location, where "holds" is
    evaluated on the prefix before the event (see `obeys_iff_prefix`). -/
def Obeys (disc : Nat → Disc) (tr : List Ev) : Prop := obeysFrom disc init tr = true

instance (disc : Nat → Disc) (tr : List Ev) : Decidable (Obeys disc tr) := by
  unfold Obeys; infer_instance

/-! ## The DJIT+ shadow state (last write, last read per thread)

  The same clocks, but a location only remembers the epoch of its LAST write and, per thread, of
  its last read.  `raceFree tr = true → raceFreeDjit tr = true` is `raceFreeDjit_of_raceFree`
  (`Lemmas/LocksDjit.lean`): whatever the DJIT+ detector checks, the full-history check above
  checks too. -/

/-- An epoch: thread and its local time. -/
abbrev Epoch := Nat × Nat

/-- DJIT+ shadow of one location. -/
structure Shadow where
  /-- epoch of the last write -/
  w : Option Epoch
  /-- per thread, the epoch of its last read (at most one entry per thread) -/
  r : List Epoch

/-- The epoch `p` happens-before the current event of thread `t` whose clock is `c`. -/
def epochBefore (p : Epoch) (t : Nat) (c : VC) : Bool := p.1 == t || decide (p.2 ≤ c p.1)

def djitNoRace (s : St) (sh : Nat → Shadow) : Ev → Bool
  | .rd t x => match (sh x).w with
    | none => true
    | some p => epochBefore p t (s.clk t)
  | .wr t x => (match (sh x).w with
    | none => true
    | some p => epochBefore p t (s.clk t)) && (sh x).r.all fun p => epochBefore p t (s.clk t)
  | _ => true

def djitStep (s : St) (sh : Nat → Shadow) : Ev → Nat → Shadow
  | .rd t x => upd sh x { sh x with r := (t, s.clk t t) :: (sh x).r.filter (fun p => p.1 != t) }
  | .wr t x => upd sh x { sh x with w := some (t, s.clk t t) }
  | _ => sh

def raceFreeDjitFrom (s : St) (sh : Nat → Shadow) : List Ev → Bool
  | [] => true
  | e :: tr => djitNoRace s sh e && raceFreeDjitFrom (step s e) (djitStep s sh e) tr

/-- The DJIT+ detector reports no race. -/
def raceFreeDjit (tr : List Ev) : Bool := raceFreeDjitFrom init (fun _ => ⟨none, []⟩) tr

end BinlogVerif.Locks
