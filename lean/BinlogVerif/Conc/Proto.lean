import BinlogVerif.Conc.Queue
import BinlogVerif.Conc.Session
/-
  Line-protocol glue for the concurrent core (queue scripts; session scripts).
-/
namespace BinlogVerif.ConcProto
open BinlogVerif

def tokHex (l : List Nat) : String := Bytes.toHex (l.map (fun t => UInt8.ofNat (t % 256)))

def showQ (s : Q.St) : String := s!"W={s.pW} R={s.cR} E={s.E} cap={s.we - s.wp}"

/-- one queue op token: `b<n>:<j>` `w<k>` `e` `r<i>` `d` -/
def parseQOp (t : String) : Option Q.Op :=
  let c := t.front
  let body := (t.drop 1).toString
  if c == 'b' then
    match body.splitOn ":" with
    | [n, j] => do pure (.pBegin (← n.toNat?) (← j.toNat?))
    | _ => none
  else if c == 'w' then body.toNat?.map .pWrite
  else if c == 'e' then some .pEnd
  else if c == 'r' then body.toNat?.map .cBegin
  else if c == 'd' then some .cEnd
  else none

/-- `queue <cap> <op> <op> …` with the code's memory orders -/
def cmdQueue (toks : List String) : String :=
  match toks with
  | [] => "bad-op"
  | capS :: ops =>
    match capS.toNat? with
    | none => "bad-op"
    | some cap =>
      let step (acc : Q.St × List String) (t : String) : Q.St × List String :=
        let (s, outs) := acc
        match parseQOp t with
        | none => (s, outs ++ ["bad-op"])
        | some op =>
          match Q.step {} s op with
          | none => (s, outs ++ ["disabled"])
          | some s' =>
            let seg := match op with
              | .pBegin n _ => s!"b ok={if n ≤ s'.we - s'.wp then 1 else 0} {showQ s'}"
              | .pWrite _ => s!"w {showQ s'}"
              | .pEnd => s!"e {showQ s'}"
              | .cBegin _ =>
                let p1 := s'.pieces.headD []
                let p2 := (s'.pieces.drop 1).headD []
                s!"r p1={tokHex p1} p2={tokHex p2} {showQ s'}"
              | .cEnd => s!"d {showQ s'}"
            (s', outs ++ [seg])
      let (s, outs) := ops.foldl step (Q.init cap, [])
      ";".intercalate outs ++ s!" race={match s.race with | some _ => "1" | none => "0"}"

def parseOrd (s : String) : Option Q.MOrd :=
  if s == "relaxed" then some .relaxed else if s == "acquire" then some .acquire
  else if s == "release" then some .release else none

def showQOp : Q.Op → String
  | .pBegin n j => s!"b{n}:{j}"
  | .pWrite k => s!"w{k}"
  | .pEnd => "e"
  | .cBegin i => s!"r{i}"
  | .cEnd => "d"

/-- the property on a model state: no race, delivered bytes a prefix of the committed bytes -/
def qBad (s : Q.St) : Option String :=
  if s.race.isSome then some "race"
  else if !(s.delivered.flatten.isPrefixOf s.commits.flatten) then some "fifo"
  else none

def qOps (s : Q.St) : List Q.Op :=
  let ns := [0, 1, 2, s.cap - 1, s.cap, s.cap + 1].eraseDups
  let js := (List.range s.rHist.length).filter (· ≥ s.pRidx)
  let is := (List.range s.wHist.length).filter (· ≥ s.cWidx)
  (ns.flatMap fun n => js.map fun j => Q.Op.pBegin n j)
    ++ [Q.Op.pWrite 1, Q.Op.pWrite 2, Q.Op.pWrite (s.we - s.wp), Q.Op.pEnd]
    ++ is.map Q.Op.cBegin ++ [Q.Op.cEnd]

/-- bounded depth-first search for a state violating the property; returns the trace -/
partial def qSearch (o : Q.Orders) (depth : Nat) (s : Q.St) (trace : List Q.Op) (count : Nat) :
    Except (String × List Q.Op) Nat :=
  match qBad s with
  | some what => .error (what, trace.reverse)
  | none =>
    if depth = 0 then .ok (count + 1) else
    (qOps s).foldlM (fun c op =>
      match Q.step o s op with
      | none => .ok c
      | some s' => qSearch o (depth - 1) s' (op :: trace) c) (count + 1)

/-- `qexplore <cap> <depth> <wStore> <wLoadC> <rStore> <rLoadP>` -/
def cmdQExplore (toks : List String) : String :=
  match toks with
  | [cap, depth, a, b, c, d] =>
    match cap.toNat?, depth.toNat?, parseOrd a, parseOrd b, parseOrd c, parseOrd d with
    | some cap, some depth, some a, some b, some c, some d =>
      match qSearch { wStore := a, wLoadC := b, rStore := c, rLoadP := d } depth (Q.init cap) [] 0 with
      | .ok n => s!"clean states={n}"
      | .error (what, tr) => s!"found {what} trace={" ".intercalate (tr.map showQOp)}"
    | _, _, _, _, _, _ => "bad-op"
  | _ => "bad-op"

end BinlogVerif.ConcProto
