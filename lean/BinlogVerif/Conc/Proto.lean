import BinlogVerif.Conc.Queue
import BinlogVerif.Conc.Session
import BinlogVerif.Conc.Macro
/-
  Line-protocol glue for the concurrent core (queue scripts; session scripts).
-/
namespace BinlogVerif.ConcProto
open BinlogVerif

def tokHex (l : List Nat) : String := Bytes.toHex (l.map (fun t => UInt8.ofNat (t % 256)))

def showQ (s : Q.St) : String := s!"W={s.pW} R={s.cR} E={s.E} cap={s.we - s.wp}"

/-- one queue op token: `b<n>:<j>` `w<k>` `e` `r<i>` `d` -/
def parseQOp (t : String) : Option Q.Op :=
  let c := t.front
  let body := (t.drop 1).toString
  if c == 'b' then
    match body.splitOn ":" with
    | [n, j] => do pure (.pBegin (← n.toNat?) (← j.toNat?))
    | _ => none
  else if c == 'w' then body.toNat?.map .pWrite
  else if c == 'e' then some .pEnd
  else if c == 'r' then body.toNat?.map .cBegin
  else if c == 'd' then some .cEnd
  else none

/-- `queue <cap> <op> <op> …` with the code's memory orders -/
def cmdQueue (toks : List String) : String :=
  match toks with
  | [] => "bad-op"
  | capS :: ops =>
    match capS.toNat? with
    | none => "bad-op"
    | some cap =>
      -- `n`: the consumer continues with a NEWLY CONSTRUCTED QueueReader (as Session::consume does for every poll): the
      -- reader object's private `_readEnd` starts at 0 and is refreshed by the next beginRead; an endRead before that is a
      -- misuse of the API and is not part of any script ("disabled").  The model's consumer state does not change.
      let step (acc : Q.St × Bool × List String) (t : String) : Q.St × Bool × List String :=
        let (s, fresh, outs) := acc
        if t == "n" then (s, true, outs ++ ["n"]) else
        match parseQOp t with
        | none => (s, fresh, outs ++ ["bad-op"])
        | some op =>
          if fresh && (match op with | .cEnd => true | _ => false) then (s, fresh, outs ++ ["disabled"]) else
          match Q.step {} s op with
          | none => (s, fresh, outs ++ ["disabled"])
          | some s' =>
            let seg := match op with
              | .pBegin n _ => s!"b ok={if n ≤ s'.we - s'.wp then 1 else 0} {showQ s'}"
              | .pWrite _ => s!"w {showQ s'}"
              | .pEnd => s!"e {showQ s'}"
              | .cBegin _ =>
                let p1 := s'.pieces.headD []
                let p2 := (s'.pieces.drop 1).headD []
                s!"r p1={tokHex p1} p2={tokHex p2} {showQ s'}"
              | .cEnd => s!"d {showQ s'}"
            (s', (match op with | .cBegin _ => false | _ => fresh), outs ++ [seg])
      let (s, _, outs) := ops.foldl step (Q.init cap, false, [])
      ";".intercalate outs ++ s!" race={match s.race with | some _ => "1" | none => "0"}"

def parseOrd (s : String) : Option Q.MOrd :=
  if s == "relaxed" then some .relaxed else if s == "acquire" then some .acquire
  else if s == "release" then some .release else none

def showQOp : Q.Op → String
  | .pBegin n j => s!"b{n}:{j}"
  | .pWrite k => s!"w{k}"
  | .pEnd => "e"
  | .cBegin i => s!"r{i}"
  | .cEnd => "d"

/-- the property on a model state: no race, delivered bytes a prefix of the committed bytes -/
def qBad (s : Q.St) : Option String :=
  if s.race.isSome then some "race"
  else if !(s.delivered.flatten.isPrefixOf s.commits.flatten) then some "fifo"
  else none

def qOps (s : Q.St) : List Q.Op :=
  let ns := [0, 1, 2, s.cap - 1, s.cap, s.cap + 1].eraseDups
  let js := (List.range s.rHist.length).filter (· ≥ s.pRidx)
  let is := (List.range s.wHist.length).filter (· ≥ s.cWidx)
  (ns.flatMap fun n => js.map fun j => Q.Op.pBegin n j)
    ++ [Q.Op.pWrite 1, Q.Op.pWrite 2, Q.Op.pWrite (s.we - s.wp), Q.Op.pEnd]
    ++ is.map Q.Op.cBegin ++ [Q.Op.cEnd]

/-- bounded depth-first search for a state violating the property; returns the trace -/
partial def qSearch (o : Q.Orders) (depth : Nat) (s : Q.St) (trace : List Q.Op) (count : Nat) :
    Except (String × List Q.Op) Nat :=
  match qBad s with
  | some what => .error (what, trace.reverse)
  | none =>
    if depth = 0 then .ok (count + 1) else
    (qOps s).foldlM (fun c op =>
      match Q.step o s op with
      | none => .ok c
      | some s' => qSearch o (depth - 1) s' (op :: trace) c) (count + 1)

/-- `qexplore <cap> <depth> <wStore> <wLoadC> <rStore> <rLoadP>` -/
def cmdQExplore (toks : List String) : String :=
  match toks with
  | [cap, depth, a, b, c, d] =>
    match cap.toNat?, depth.toNat?, parseOrd a, parseOrd b, parseOrd c, parseOrd d with
    | some cap, some depth, some a, some b, some c, some d =>
      match qSearch { wStore := a, wLoadC := b, rStore := c, rLoadP := d } depth (Q.init cap) [] 0 with
      | .ok n => s!"clean states={n}"
      | .error (what, tr) => s!"found {what} trace={" ".intercalate (tr.map showQOp)}"
    | _, _, _, _, _, _ => "bad-op"
  | _ => "bad-op"

/-! ### session scripts (sequential): Session L1 model + one sequential queue model per channel -/

open Sess in
structure SessDrv where
  sess : Sess.Session
  queues : List (Nat × Q.St) := []        -- cid ↦ queue model (sequential: newest messages are read)
  caps : List (Nat × Nat) := []           -- writer ↦ capacity requested at creation

def SessDrv.queue (d : SessDrv) (cid : Nat) : Option Q.St := (d.queues.find? (·.1 == cid)).map (·.2)
def SessDrv.setQueue (d : SessDrv) (cid : Nat) (q : Q.St) : SessDrv :=
  { d with queues := d.queues.filter (·.1 != cid) ++ [(cid, q)] }

/-- sequential beginWrite(n) + write n + endWrite on a queue model; `none` = does not fit -/
def qCommit (q : Q.St) (n : Nat) : Option Q.St := do
  let q1 ← Q.step {} q (.pBegin n (q.rHist.length - 1))
  if n ≤ q1.we - q1.wp then
    let q2 ← Q.step {} q1 (.pWrite n)
    Q.step {} q2 .pEnd
  else none

/-- the state after a failed beginWrite (the window may have been re-chosen) -/
def qFailedBegin (q : Q.St) (n : Nat) : Q.St :=
  match Q.step {} q (.pBegin n (q.rHist.length - 1)) with
  | some q1 => q1
  | none => q

def entrySize (e : Sess.Entry) : Nat := 4 + e.payload.length

/-- number of leading entries whose framed sizes add up to exactly `bytes` -/
def countPrefix : List Sess.Entry → Nat → Nat
  | [], _ => 0
  | e :: es, bytes => if bytes = 0 then 0 else if entrySize e ≤ bytes then 1 + countPrefix es (bytes - entrySize e) else 0

def showWrites (ws : List Sess.Write) : String := ",".intercalate (ws.map fun w => (Sess.writeBytes w).toHex)

def showResult (r : Sess.ConsumeResult) : String :=
  s!"bytes={r.bytesConsumed} total={r.totalBytesConsumed} polled={r.channelsPolled} removed={r.channelsRemoved}"

def hexArg' (s : String) : Option Bytes := if s == "-" || s == "" then some [] else Bytes.ofHex s

/-- run one op of a session script; returns the new driver state and the canonical segment -/
def sessOp (d : SessDrv) (toks : List String) : SessDrv × String :=
  match toks with
  | ["cw", w, cap, id, name] =>
    match w.toNat?, cap.toNat?, id.toNat?, hexArg' name with
    | some w, some cap, some id, some name =>
      let cid := d.sess.nextCid
      match Sess.step d.sess (.createWriter w id name) with
      | some s' => ({ d with sess := s', caps := d.caps ++ [(w, cap)] }.setQueue cid (Q.init cap), "cw")
      | none => (d, "disabled")
    | _, _, _, _ => (d, "bad-op")
  | ["sid", w, id] =>
    match w.toNat?, id.toNat? with
    | some w, some id => match Sess.step d.sess (.setWriterId w id) with
      | some s' => ({ d with sess := s' }, "sid") | none => (d, "disabled")
    | _, _ => (d, "bad-op")
  | ["sname", w, name] =>
    match w.toNat?, hexArg' name with
    | some w, some name => match Sess.step d.sess (.setWriterName w name) with
      | some s' => ({ d with sess := s' }, "sname") | none => (d, "disabled")
    | _, _ => (d, "bad-op")
  | ["src", sev, cat, fn, file, line, fmt, tags] =>
    match sev.toNat?, hexArg' cat, hexArg' fn, hexArg' file, line.toNat?, hexArg' fmt, hexArg' tags with
    | some sev, some cat, some fn, some file, some line, some fmt, some tags =>
      let id := d.sess.nextSourceId
      match Sess.step d.sess (.addSource { severity := sev, category := cat, function := fn, file := file, line := line,
                                           formatString := fmt, argumentTags := tags }) with
      | some s' => ({ d with sess := s' }, s!"src id={id}")
      | none => (d, "disabled")
    | _, _, _, _, _, _, _ => (d, "bad-op")
  | ["log", w, sid, clock, args] =>
    match w.toNat?, sid.toNat?, clock.toNat?, hexArg' args with
    | some w, some sid, some clock, some args =>
      match Sess.lookupWriter d.sess w with
      | none => (d, "disabled")
      | some cid =>
        let total := 4 + 16 + args.length
        match d.queue cid with
        | none => (d, "disabled")
        | some q =>
          match qCommit q total with
          | some q' =>
            match Sess.step d.sess (.log w sid clock args true) with
            | some s' => ({ d with sess := s' }.setQueue cid q', "log ok=1")
            | none => (d, "disabled")
          | none =>
            -- replaceChannel: capacity max(old capacity, 2 * totalSize)
            let ncap := max q.cap (2 * total)
            let ncid := d.sess.nextCid
            match Sess.step d.sess (.log w sid clock args false), qCommit (Q.init ncap) total with
            | some s', some nq =>
              (({ d with sess := s' }.setQueue cid (qFailedBegin q total)).setQueue ncid nq, "log ok=1")
            | _, _ => (d, "disabled")
    | _, _, _, _ => (d, "bad-op")
  | ["logf", w, sid, clock, args] =>
    -- addEvent while every array allocation fails: an event that fits is logged as usual; one that does not fit makes
    -- replaceChannel fail (createChannel throws), addEvent retries beginWrite on the old queue and returns false; the writer
    -- keeps its channel and the session is unchanged
    match w.toNat?, sid.toNat?, clock.toNat?, hexArg' args with
    | some w, some sid, some clock, some args =>
      match Sess.lookupWriter d.sess w with
      | none => (d, "disabled")
      | some cid =>
        let total := 4 + 16 + args.length
        match d.queue cid with
        | none => (d, "disabled")
        | some q =>
          match qCommit q total with
          | some q' =>
            match Sess.step d.sess (.log w sid clock args true) with
            | some s' => ({ d with sess := s' }.setQueue cid q', "log ok=1 af=0")
            | none => (d, "disabled")
          | none => (d.setQueue cid (qFailedBegin (qFailedBegin q total) total), "log ok=0 af=1")
    | _, _, _, _ => (d, "bad-op")
  | ["dw", w] =>
    match w.toNat? with
    | some w => match Sess.step d.sess (.destroyWriter w) with
      | some s' => ({ d with sess := s' }, "dw") | none => (d, "disabled")
    | none => (d, "bad-op")
  | ["cs", a, b, c, e, f] =>
    match a.toNat?, b.toNat?, c.toNat?, e.toNat?, hexArg' f with
    | some a, some b, some c, some e, some f =>
      match Sess.step d.sess (.setClockSync { clockValue := a, clockFrequency := b, nsSinceEpoch := c, tzOffset := e, tzName := f }) with
      | some s' => ({ d with sess := s' }, "cs") | none => (d, "disabled")
    | _, _, _, _, _ => (d, "bad-op")
  | "consume" :: rest =>
    -- without an argument: sequential (every channel is seen completely).  With `polls=c28,o0,…` (what the real
    -- consume observed per channel under the release/acquire shim: closed?/bytes seen) those observations are the oracle.
    let given : List (Bool × Nat) :=
      match rest with
      | [tok] =>
        if tok.startsWith "polls=" then
          ((tok.drop 6).toString.splitOn ",").filterMap fun t =>
            if t.isEmpty then none else (t.drop 1).toString.toNat?.map fun n => (t.front == 'c', n)
        else []
      | _ => []
    let useGiven := !rest.isEmpty
    let step (acc : SessDrv × List Sess.Poll × Nat) (c : Sess.Chan) : SessDrv × List Sess.Poll × Nat :=
      let (d, polls, idx) := acc
      let (sawClosed, seen) : Bool × Nat :=
        if useGiven then
          match given[idx]? with
          | some (cl, bytes) => (cl, countPrefix c.entries bytes)
          | none => (false, 0)
        else (true, c.entries.length)
      match d.queue c.cid with
      | none => (d, polls ++ [⟨sawClosed, seen, 0⟩], idx + 1)
      | some q =>
        let consumed := q.wHist.length - 1 - c.entries.length
        let n := if c.sealed then c.entries.length else min seen c.entries.length
        match Q.step {} q (.cBegin (consumed + n)) with
        | none => (d, polls ++ [⟨sawClosed, seen, 0⟩], idx + 1)
        | some q1 =>
          let p1 := (q1.pieces.headD []).length
          let split := if q1.pieces.length = 2 then countPrefix c.entries p1 else 0
          let q2 := if q1.batch.isEmpty then q1 else (Q.step {} q1 .cEnd).getD q1
          (d.setQueue c.cid q2, polls ++ [⟨sawClosed, seen, split⟩], idx + 1)
    let (d, polls, _) := d.sess.channels.foldl step (d, [], 0)
    let ws := Sess.consumeWrites d.sess polls
    let (s', r) := Sess.consume d.sess polls
    let lostNote := if s'.lost.length > d.sess.lost.length then s!" LOST={s'.lost.length - d.sess.lost.length}" else ""
    ({ d with sess := s' }, s!"consume writes={showWrites ws} {showResult r}{lostNote}")
  | ["rotate"] =>
    let s0 := { d.sess with outputs := d.sess.outputs ++ [[]] }
    let (s', r) := Sess.reconsumeMetadata s0
    let ws := (s'.outputs.getLast?).getD []
    ({ d with sess := s' }, s!"rotate writes={showWrites ws} {showResult r}")
  | _ => (d, "bad-op")

def splitOnTok (sep : String) : List String → List (List String)
  | [] => [[]]
  | t :: ts =>
    match splitOnTok sep ts with
    | [] => [[t]]
    | g :: gs => if t == sep then [] :: g :: gs else (t :: g) :: gs

/-- `session <clock,freq,ns,tz,tzname of the initial clock sync> | op | op | …` -/
def cmdSession (toks : List String) : String :=
  let groups := (splitOnTok "|" toks).filter (! ·.isEmpty)
  match groups with
  | [] => "bad-op"
  | initG :: opGs =>
    match initG with
    | [a, b, c, e, f] =>
      match a.toNat?, b.toNat?, c.toNat?, e.toNat?, hexArg' f with
      | some a, some b, some c, some e, some f =>
        let d0 : SessDrv := { sess := Sess.init { clockValue := a, clockFrequency := b, nsSinceEpoch := c, tzOffset := e, tzName := f } }
        let (_, outs) := opGs.foldl (fun (acc : SessDrv × List String) g =>
          let (d', seg) := sessOp acc.1 g
          (d', acc.2 ++ [seg])) (d0, [])
        ";".intercalate outs
      | _, _, _, _, _ => "bad-op"
    | _ => "bad-op"

/-- the 48 call sites of harness/macro_harness.cpp: site = 2 * (macro index) + (0 args | 2 args); macros ordered as
    `Macro.macroTable` -/
def macroSite (site : Nat) : Option Macro.Stmt :=
  match Macro.macroTable[site / 2]? with
  | some (_, sev, usesWriter, _) => some ⟨site, if usesWriter then 1 else 0, sev, if site % 2 = 0 then 0 else 2⟩
  | none => none

/-- `macro min <session> <sev> stmt <site> reseat …`; `reseat` = the thread's default writer is re-seated onto session 1
    (`default_thread_local_writer() = SessionWriter(session1)`): from then on the statements of the basic families, which log
    through that writer, belong to session 1 -/
def cmdMacro (toks : List String) : String :=
  let rec go (s : Macro.St) (reseated : Bool) (toks : List String) (outs : List String) (fuel : Nat) : List String :=
    match fuel with
    | 0 => outs
    | fuel + 1 =>
      match toks with
      | "min" :: a :: b :: rest =>
        match a.toNat?, b.toNat? with
        | some a, some b => go (Macro.step s (.setMin a b)) reseated rest (outs ++ ["min"]) fuel
        | _, _ => outs ++ ["bad-op"]
      | "reseat" :: rest => go s true rest (outs ++ ["reseat"]) fuel
      | "stmt" :: a :: rest =>
        match a.toNat?.bind macroSite with
        | some st =>
          let st := if reseated then { st with session := 1 } else st
          let s' := Macro.step s (.stmt st)
          go s' reseated rest (outs ++ [s!"stmt events={s'.events - s.events} sources={s'.sources - s.sources} evals={s'.evals - s.evals}"]) fuel
        | none => outs ++ ["bad-op"]
      | [] => outs
      | _ => outs ++ ["bad-op"]
  ";".intercalate (go {} false toks [] (toks.length + 1))

end BinlogVerif.ConcProto
