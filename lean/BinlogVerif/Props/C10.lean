import BinlogVerif.Lemmas.Locks
import BinlogVerif.Lemmas.LocksDjit
/-
  C10 — "Using one session concurrently from any number of threads … never constitutes a data
  race" (C++11 happens-before).

  The code's argument is a LOCK / OWNERSHIP DISCIPLINE.  This file proves, once and generically,
  that the discipline implies data-race freedom in the operational happens-before model of
  `Conc/Locks.lean` (vector clocks; mutex acquire/release, thread fork/join), and gives a
  decidable checker for an access table (the table is extracted from the C++ sources by a
  separate tool).

  What is proved here is the implication  discipline ⇒ no race.  That the C++ code follows the
  table (each access of each method is an instance of a table row) is the extraction tool's
  obligation, stated below as the decidable hypothesis `Conforms`.
-/
namespace BinlogVerif.C10
open BinlogVerif BinlogVerif.Locks

/-! ## 1. Discipline ⇒ data-race freedom -/

/-- **C10 (generic part).**  For every well-formed trace (mutex semantics) and every assignment
    of disciplines `guarded m` / `ownerWrites t m` / `threadLocal t` to locations such that each
    access event satisfies the discipline of its location, no access races with an earlier one:
    every two conflicting accesses by different threads are ordered by happens-before. -/
theorem c10_lockset_race_free (disc : Nat → Disc) (tr : List Ev)
    (hwf : WellFormed tr) (hob : Obeys disc tr) : raceFree tr = true :=
  raceFreeFrom_of_obeys tr init (inv_init disc) hwf hob

/-- Same, with `WellFormed` and `Obeys` spelled out over prefixes with `holds`. -/
theorem c10_lockset_race_free_prefix (disc : Nat → Disc) (tr : List Ev)
    (hwf : ∀ pre e post, tr = pre ++ e :: post →
      match e with
      | .acq _ m => ∀ u, holds pre u m = false
      | .rel t m => holds pre t m = true
      | _ => True)
    (hob : ∀ pre e post, tr = pre ++ e :: post → obeysEv disc (holds pre) e = true) :
    raceFree tr = true :=
  c10_lockset_race_free disc tr ((wellFormed_iff_prefix tr).2 hwf) ((obeys_iff_prefix disc tr).2 hob)

/-- Same conclusion for the DJIT+ detector (a location remembers only its last write and, per
    thread, its last read): it reports no race either. -/
theorem c10_lockset_race_free_djit (disc : Nat → Disc) (tr : List Ev)
    (hwf : WellFormed tr) (hob : Obeys disc tr) : raceFreeDjit tr = true :=
  raceFreeDjit_of_raceFree tr (c10_lockset_race_free disc tr hwf hob)

/-! ## 2. Access table checker -/

/-- One row of the access table: `method` accesses the location named `loc`; it is a write or a
    read; it is made with the location's mutex held or not; it is only ever executed by the
    location's owner thread or by any thread.  (`method` is documentation only.) -/
structure Access where
  method : String
  loc : String
  write : Bool
  underLock : Bool
  byOwnerOnly : Bool
  deriving DecidableEq, Repr

/-- The rows of location `l`. -/
def rowsOf (table : List Access) (l : String) : List Access := table.filter (·.loc == l)

/-- All accesses under the lock. -/
def allLocked (rows : List Access) : Bool := rows.all (·.underLock)

/-- All writes under the lock and by the owner; every access made without the lock is a read by
    the owner. -/
def ownerWritesOk (rows : List Access) : Bool :=
  rows.all fun r => if r.write then r.underLock && r.byOwnerOnly else r.underLock || r.byOwnerOnly

/-- All accesses by the owner (thread-local). -/
def allOwner (rows : List Access) : Bool := rows.all (·.byOwnerOnly)

/-- All accesses by the owner and none under the lock (the literal "thread-local" pattern). -/
def allOwnerNoLock (rows : List Access) : Bool := rows.all fun r => r.byOwnerOnly && !r.underLock

/-- The table checker: every location of the table follows one of the three patterns. -/
def Disciplined (table : List Access) : Bool :=
  table.all fun r =>
    let rows := rowsOf table r.loc
    allLocked rows || ownerWritesOk rows || allOwner rows

/-- The literal variant (thread-local = by the owner and with no lock at all); it implies
    `Disciplined` (`disciplined_of_strict`). -/
def DisciplinedStrict (table : List Access) : Bool :=
  table.all fun r =>
    let rows := rowsOf table r.loc
    allLocked rows || ownerWritesOk rows || allOwnerNoLock rows

/-- How memory locations map to the table: the table name of location `x` (several locations may
    share a name: the same field of different writers), its owner thread, its mutex. -/
structure Layout where
  name : Nat → String
  owner : Nat → Nat
  lock : Nat → Nat

/-- **Instance of a table row**: an access (`w` = write) by thread `t` to location `x` is an
    instance of row `r` iff `r` is a row of `x`'s name with the same read/write kind, the lock
    of `x` is held by `t` if the row says `underLock`, and `t` is the owner of `x` if the row
    says `byOwnerOnly`.  (Only these implications are required; the converses — lock NOT held if
    not `underLock`, NOT the owner if not `byOwnerOnly` — would be a stronger hypothesis.) -/
def isInstance (L : Layout) (held : Nat → Nat → Bool) (r : Access) (w : Bool) (t x : Nat) : Bool :=
  r.loc == L.name x && r.write == w && (!r.underLock || held t (L.lock x)) &&
    (!r.byOwnerOnly || t == L.owner x)

/-- The access event is an instance of some row of the table. -/
def conformsEv (L : Layout) (table : List Access) (held : Nat → Nat → Bool) : Ev → Bool
  | .rd t x => table.any fun r => isInstance L held r false t x
  | .wr t x => table.any fun r => isInstance L held r true t x
  | _ => true

def conformsFrom (L : Layout) (table : List Access) (s : St) : List Ev → Bool
  | [] => true
  | e :: tr => conformsEv L table s.held e && conformsFrom L table (step s e) tr

/-- Every access event of the trace is an instance of a table row ("holds" evaluated on the
    prefix before the event). -/
def Conforms (L : Layout) (table : List Access) (tr : List Ev) : Prop :=
  conformsFrom L table init tr = true

instance (L : Layout) (table : List Access) (tr : List Ev) : Decidable (Conforms L table tr) := by
  unfold Conforms; infer_instance

/-- The discipline assignment derived from the table. -/
def discOf (L : Layout) (table : List Access) (x : Nat) : Disc :=
  let rows := rowsOf table (L.name x)
  if allLocked rows then .guarded (L.lock x)
  else if ownerWritesOk rows then .ownerWrites (L.owner x) (L.lock x)
  else .threadLocal (L.owner x)

theorem conforms_obeysEv {L : Layout} {table : List Access} {held : Nat → Nat → Bool} {e : Ev}
    (hd : Disciplined table = true) (hc : conformsEv L table held e = true) :
    obeysEv (discOf L table) held e = true := by
  have key : ∀ (w : Bool) (t x : Nat), (table.any fun r => isInstance L held r w t x) = true →
      ∃ r, r ∈ rowsOf table (L.name x) ∧ r.write = w ∧ (r.underLock = true → held t (L.lock x) = true) ∧
        (r.byOwnerOnly = true → t = L.owner x) ∧
        (allLocked (rowsOf table (L.name x)) || ownerWritesOk (rowsOf table (L.name x)) ||
          allOwner (rowsOf table (L.name x))) = true := by
    intro w t x h
    obtain ⟨r, hr, hi⟩ := List.any_eq_true.1 h
    simp only [isInstance, Bool.and_eq_true, beq_iff_eq, Bool.or_eq_true, Bool.not_eq_true'] at hi
    obtain ⟨⟨⟨hloc, hw⟩, hlk⟩, hown⟩ := hi
    have hdr := List.all_eq_true.1 hd r hr
    simp only [hloc] at hdr
    refine ⟨r, ?_, hw, ?_, ?_, hdr⟩
    · simp [rowsOf, List.mem_filter, hr, hloc]
    · intro h; rcases hlk with h' | h'
      · rw [h] at h'; cases h'
      · exact h'
    · intro h; rcases hown with h' | h'
      · rw [h] at h'; cases h'
      · exact h'
  cases e with
  | rd t x =>
    obtain ⟨r, hrow, hw, hlk, hown, hdr⟩ := key false t x hc
    simp only [obeysEv, discOf]
    by_cases h1 : allLocked (rowsOf table (L.name x)) = true
    · simp only [h1, if_true]
      exact hlk (by simpa using List.all_eq_true.1 h1 r hrow)
    · by_cases h2 : ownerWritesOk (rowsOf table (L.name x)) = true
      · simp only [h1, h2, if_true, if_false, Bool.false_eq_true]
        have := List.all_eq_true.1 h2 r hrow
        simp only [hw, Bool.false_eq_true, if_false, Bool.or_eq_true] at this
        simp only [Bool.or_eq_true, beq_iff_eq]
        rcases this with h | h
        · exact Or.inr (hlk h)
        · exact Or.inl (hown h)
      · simp only [h1, h2, Bool.false_eq_true, if_false]
        simp only [h1, h2, Bool.or_eq_true, Bool.false_eq_true, false_or] at hdr
        simp only [beq_iff_eq]
        exact hown (by simpa using List.all_eq_true.1 hdr r hrow)
  | wr t x =>
    obtain ⟨r, hrow, hw, hlk, hown, hdr⟩ := key true t x hc
    simp only [obeysEv, discOf]
    by_cases h1 : allLocked (rowsOf table (L.name x)) = true
    · simp only [h1, if_true]
      exact hlk (by simpa using List.all_eq_true.1 h1 r hrow)
    · by_cases h2 : ownerWritesOk (rowsOf table (L.name x)) = true
      · simp only [h1, h2, if_true, if_false, Bool.false_eq_true]
        have := List.all_eq_true.1 h2 r hrow
        simp only [hw, if_true, Bool.and_eq_true] at this
        simp only [Bool.and_eq_true, beq_iff_eq]
        exact ⟨hown this.2, hlk this.1⟩
      · simp only [h1, h2, Bool.false_eq_true, if_false]
        simp only [h1, h2, Bool.or_eq_true, Bool.false_eq_true, false_or] at hdr
        simp only [beq_iff_eq]
        exact hown (by simpa using List.all_eq_true.1 hdr r hrow)
  | acq t m => rfl
  | rel t m => rfl
  | fork t c => rfl
  | join t c => rfl

theorem conformsFrom_obeysFrom {L : Layout} {table : List Access} (hd : Disciplined table = true)
    (tr : List Ev) (s : St) (hc : conformsFrom L table s tr = true) :
    obeysFrom (discOf L table) s tr = true := by
  induction tr generalizing s with
  | nil => rfl
  | cons e tr ih =>
    simp only [conformsFrom, Bool.and_eq_true] at hc
    simp only [obeysFrom, Bool.and_eq_true]
    exact ⟨conforms_obeysEv hd hc.1, ih _ hc.2⟩

/-- A trace whose access events are instances of rows of a disciplined table obeys the discipline
    assignment derived from the table. -/
theorem c10_table_obeys (L : Layout) (table : List Access) (tr : List Ev)
    (hd : Disciplined table = true) (hc : Conforms L table tr) : Obeys (discOf L table) tr :=
  conformsFrom_obeysFrom hd tr init hc

/-- **C10 (table part).**  If the access table passes the checker, then every well-formed trace
    whose access events are instances of table rows is free of data races. -/
theorem c10_table_sound (L : Layout) (table : List Access) (tr : List Ev)
    (hd : Disciplined table = true) (hwf : WellFormed tr) (hc : Conforms L table tr) :
    raceFree tr = true :=
  c10_lockset_race_free (discOf L table) tr hwf (c10_table_obeys L table tr hd hc)

theorem disciplined_of_strict (table : List Access) (h : DisciplinedStrict table = true) :
    Disciplined table = true := by
  simp only [Disciplined, DisciplinedStrict, List.all_eq_true] at h ⊢
  intro r hr
  have := h r hr
  simp only [Bool.or_eq_true] at this ⊢
  rcases this with h' | h'
  · exact Or.inl h'
  · refine Or.inr ?_
    simp only [allOwnerNoLock, allOwner, List.all_eq_true, Bool.and_eq_true] at h' ⊢
    exact fun a ha => (h' a ha).1

theorem c10_table_sound_strict (L : Layout) (table : List Access) (tr : List Ev)
    (hd : DisciplinedStrict table = true) (hwf : WellFormed tr) (hc : Conforms L table tr) :
    raceFree tr = true :=
  c10_table_sound L table tr (disciplined_of_strict table hd) hwf hc

/-! ### Annotated traces: each event carries its row -/

/-- An event annotated with the table row it instantiates (`none` for synchronisation events). -/
abbrev AEv := Ev × Option Access

def annOk (L : Layout) (table : List Access) (held : Nat → Nat → Bool) : AEv → Bool
  | (.rd t x, some r) => table.contains r && isInstance L held r false t x
  | (.wr t x, some r) => table.contains r && isInstance L held r true t x
  | (.rd _ _, none) => false
  | (.wr _ _, none) => false
  | _ => true

def annFrom (L : Layout) (table : List Access) (s : St) : List AEv → Bool
  | [] => true
  | a :: tr => annOk L table s.held a && annFrom L table (step s a.1) tr

/-- Every access event is annotated with a row of the table of which it is an instance. -/
def ConformsAnn (L : Layout) (table : List Access) (atr : List AEv) : Prop :=
  annFrom L table init atr = true

instance (L : Layout) (table : List Access) (atr : List AEv) :
    Decidable (ConformsAnn L table atr) := by unfold ConformsAnn; infer_instance

theorem annOk_conformsEv {L : Layout} {table : List Access} {held : Nat → Nat → Bool} {a : AEv}
    (h : annOk L table held a = true) : conformsEv L table held a.1 = true := by
  obtain ⟨e, o⟩ := a
  cases e <;> cases o <;> simp only [annOk, conformsEv, Bool.and_eq_true, List.contains_iff_mem,
    List.any_eq_true, Bool.false_eq_true] at h ⊢
  all_goals exact ⟨_, h.1, h.2⟩

theorem annFrom_conformsFrom {L : Layout} {table : List Access} (atr : List AEv) (s : St)
    (h : annFrom L table s atr = true) : conformsFrom L table s (atr.map (·.1)) = true := by
  induction atr generalizing s with
  | nil => rfl
  | cons a atr ih =>
    simp only [annFrom, Bool.and_eq_true] at h
    simp only [List.map_cons, conformsFrom, Bool.and_eq_true]
    exact ⟨annOk_conformsEv h.1, ih _ h.2⟩

/-- `c10_table_sound` for a trace in which each event is annotated with its row. -/
theorem c10_table_sound_annotated (L : Layout) (table : List Access) (atr : List AEv)
    (hd : Disciplined table = true) (hwf : WellFormed (atr.map (·.1)))
    (hc : ConformsAnn L table atr) : raceFree (atr.map (·.1)) = true :=
  c10_table_sound L table _ hd hwf (annFrom_conformsFrom atr init hc)

/-! ## 3. Non-vacuity -/

section Examples

/-- Two threads write `x = 7`, thread 1 under mutex 0, thread 2 without it. -/
def racy : List Ev := [.acq 1 0, .wr 1 7, .rel 1 0, .wr 2 7]

/-- The model CAN exhibit a race: a well-formed 4-event trace is reported racy, at event 3. -/
example : WellFormed racy := by decide
example : raceFree racy = false := by decide
example : firstRace racy = some 3 := by decide
example : raceFreeDjit racy = false := by decide
example : ¬ Obeys (fun _ => .guarded 0) racy := by decide
/-- The same two writes, both under the mutex: no race. -/
example : raceFree [.acq 1 0, .wr 1 7, .rel 1 0, .acq 2 0, .wr 2 7, .rel 2 0] = true := by decide
/-- A lock that is a DIFFERENT mutex does not help. -/
example : raceFree [.acq 1 0, .wr 1 7, .rel 1 0, .acq 2 1, .wr 2 7, .rel 2 1] = false := by decide
/-- Read–read is not a conflict; write–read and read–write are. -/
example : raceFree [.rd 1 7, .rd 2 7] = true := by decide
example : raceFree [.wr 1 7, .rd 2 7] = false := by decide
example : raceFree [.rd 1 7, .wr 2 7] = false := by decide
/-- Happens-before is transitive through a third thread's critical section. -/
example : raceFree [.wr 1 7, .acq 1 0, .rel 1 0, .acq 3 0, .rel 3 0, .acq 3 1, .rel 3 1,
    .acq 2 1, .rd 2 7] = true := by decide
/-- … but not backwards: an acquire that precedes the release gives nothing. -/
example : raceFree [.acq 2 0, .rel 2 0, .wr 1 7, .acq 1 0, .rel 1 0, .rd 2 7] = false := by decide
/-- Thread creation and join order accesses; without them the same accesses race. -/
example : raceFree [.wr 0 7, .fork 0 1, .rd 1 7, .wr 1 7, .join 0 1, .wr 0 7] = true := by decide
example : raceFree [.wr 0 7, .rd 1 7] = false := by decide
example : raceFree [.fork 0 1, .wr 0 7, .rd 1 7] = false := by decide
example : raceFree [.wr 1 7, .wr 0 7, .join 0 1] = false := by decide
/-- `WellFormed` rejects a double acquire and a release by a non-holder. -/
example : ¬ WellFormed [.acq 1 0, .acq 2 0] := by decide
example : ¬ WellFormed [.acq 1 0, .rel 2 0] := by decide

/-- Location 5 is written by its owner (thread 0) under mutex 0, location 6 is guarded by mutex 0,
    every other location belongs to thread 2. -/
def exDisc : Nat → Disc := fun x =>
  if x = 5 then .ownerWrites 0 0 else if x = 6 then .guarded 0 else .threadLocal 2

/-- Three threads, one mutex: the owner (0) writes 5 under the lock and reads it lock-free; the
    threads 1 and 2 read 5 under the lock; everybody touches 6 under the lock; 2 uses 9 alone. -/
def disciplined : List Ev :=
  [.acq 0 0, .wr 0 5, .wr 0 6, .rel 0 0, .rd 0 5,
   .acq 1 0, .rd 1 5, .rd 1 6, .rel 1 0, .wr 2 9,
   .rd 0 5, .acq 2 0, .rd 2 5, .wr 2 6, .rel 2 0, .rd 2 9,
   .acq 0 0, .wr 0 5, .rd 0 6, .rel 0 0, .rd 0 5]

example : WellFormed disciplined := by decide
example : Obeys exDisc disciplined := by decide
example : raceFree disciplined = true := by decide
example : raceFreeDjit disciplined = true := by decide
/-- … and the theorem applies to it. -/
example : raceFree disciplined = true :=
  c10_lockset_race_free exDisc disciplined (by decide) (by decide)

/-- The conditions of `ownerWrites` are tight: a lock-free read by a NON-owner races with the
    owner's locked write; a lock-free WRITE by the owner races with a locked read. -/
example : raceFree [.acq 0 0, .wr 0 5, .rel 0 0, .rd 1 5] = false := by decide
example : ¬ Obeys exDisc [.acq 0 0, .wr 0 5, .rel 0 0, .rd 1 5] := by decide
example : raceFree [.acq 1 0, .rd 1 5, .rel 1 0, .wr 0 5] = false := by decide
example : ¬ Obeys exDisc [.acq 1 0, .rd 1 5, .rel 1 0, .wr 0 5] := by decide

/-- A table in the shape the extraction tool produces. -/
def exTable : List Access :=
  [ ⟨"SessionWriter::setId", "writerProp.id", true, true, true⟩,
    ⟨"SessionWriter::addEvent", "writerProp.id", false, false, true⟩,
    ⟨"Session::consume", "writerProp.id", false, true, false⟩,
    ⟨"Session::addEventSource", "sources", true, true, false⟩,
    ⟨"Session::consume", "sources", false, true, false⟩,
    ⟨"SessionWriter::addEvent", "writer.buffer", true, false, true⟩,
    ⟨"SessionWriter::addEvent", "writer.buffer", false, false, true⟩ ]

def exLayout : Layout where
  name := fun x => if x = 5 then "writerProp.id" else if x = 6 then "sources" else "writer.buffer"
  owner := fun x => if x = 5 then 0 else 2
  lock := fun _ => 0

example : Disciplined exTable = true := by decide
example : DisciplinedStrict exTable = true := by decide
example : Conforms exLayout exTable disciplined := by decide
example : discOf exLayout exTable 5 = .ownerWrites 0 0 := by decide
example : discOf exLayout exTable 6 = .guarded 0 := by decide
example : discOf exLayout exTable 9 = .threadLocal 2 := by decide
example : raceFree disciplined = true :=
  c10_table_sound exLayout exTable disciplined (by decide) (by decide) (by decide)

/-- The checker rejects: a lock-free write next to a locked read; a lock-free read by a
    non-owner; a lock-free write by a non-owner. -/
example : Disciplined [⟨"f", "a", true, false, true⟩, ⟨"g", "a", false, true, false⟩] = false := by
  decide
example : Disciplined [⟨"f", "a", true, true, true⟩, ⟨"g", "a", false, false, false⟩] = false := by
  decide
example : Disciplined [⟨"f", "a", true, false, false⟩] = false := by decide
/-- … and a trace that is not an instance of the table is rejected by `Conforms`. -/
example : ¬ Conforms exLayout exTable [.acq 0 0, .wr 0 5, .rel 0 0, .rd 1 5] := by decide

end Examples

end BinlogVerif.C10
