import BinlogVerif.Reader.Recovery
import BinlogVerif.Props.C12
/-
  C20 — Recovery tool robustness: arbitrary image in, whole entries (or nothing) out.
-/
namespace BinlogVerif.C20
open BinlogVerif BinlogVerif.Recovery

theorem slice_ok (buf : Bytes) (lo hi : Nat) (h1 : lo ≤ hi) (h2 : hi ≤ buf.length) :
    slice buf lo hi = .ok ((buf.drop lo).take (hi - lo)) := by
  simp [slice, h1, h2]

/-- **In bounds.**  With `W, E, R ≤ capacity` every slice `beginRead` takes lies inside the copied
    buffer, in all three branches. -/
theorem c20_in_bounds (buf : Bytes) (w e r : Nat) (hw : w ≤ buf.length) (he : e ≤ buf.length)
    (_hr : r ≤ buf.length) : ∃ data, beginReadCopy buf w e r = .ok data := by
  unfold beginReadCopy
  by_cases h1 : r ≤ w
  · simp only [h1, if_true]
    exact ⟨_, slice_ok buf r w h1 hw⟩
  · simp only [h1, if_false]
    by_cases h2 : r < e
    · simp only [h2, if_true]
      rw [slice_ok buf r e (by omega) he, slice_ok buf 0 w (by omega) hw]
      exact ⟨_, rfl⟩
    · simp only [h2, if_false]
      exact ⟨_, slice_ok buf 0 w (by omega) hw⟩

theorem readData_no_error (r : Bytes) : ∃ res, readData r = .ok res := by
  unfold readData
  by_cases h0 : r.length < 48
  · exact ⟨none, by simp [h0]⟩
  · simp only [h0, if_false]
    by_cases h1 : unle (List.take 8 (List.drop 8 r)) > unle (List.take 8 (List.drop 16 (List.drop 8 r))) ∨
        unle (List.take 8 (List.drop 8 (List.drop 8 r))) > unle (List.take 8 (List.drop 16 (List.drop 8 r))) ∨
        unle (List.take 8 (List.drop 32 (List.drop 8 r))) > unle (List.take 8 (List.drop 16 (List.drop 8 r)))
    · exact ⟨none, by simp only [h1, if_true]⟩
    · simp only [h1, if_false]
      by_cases h2 : unle (List.take 8 (List.drop 16 (List.drop 8 r))) > (List.drop 48 r).length
      · exact ⟨none, by simp only [h2, if_true]⟩
      · simp only [h2, if_false]
        have hlen : (List.take (unle (List.take 8 (List.drop 16 (List.drop 8 r)))) (List.drop 48 r)).length
            = unle (List.take 8 (List.drop 16 (List.drop 8 r))) := by
          rw [List.length_take]; omega
        obtain ⟨data, hd⟩ := c20_in_bounds
          (List.take (unle (List.take 8 (List.drop 16 (List.drop 8 r)))) (List.drop 48 r))
          (unle (List.take 8 (List.drop 8 r))) (unle (List.take 8 (List.drop 8 (List.drop 8 r))))
          (unle (List.take 8 (List.drop 32 (List.drop 8 r)))) (by rw [hlen]; omega) (by rw [hlen]; omega) (by rw [hlen]; omega)
        rw [hd]
        simp only
        split <;> exact ⟨_, rfl⟩

/-- every buffer the scan collects passed `checkEntryBuffer` -/
theorem readMetadata_checked (r : Bytes) (b : Recovered) (n : Nat) (h : readMetadata r = some (b, n)) :
    checkEntryBuffer b.buffer = true := by
  unfold readMetadata at h
  split at h
  · cases h
  · simp only at h
    split at h
    · cases h
    · split at h
      · rename_i hc
        injection h with h
        injection h with h1 h2
        subst h1
        exact hc
      · cases h

theorem readData_checked (r : Bytes) (b : Recovered) (n : Nat) (h : readData r = .ok (some (b, n))) :
    checkEntryBuffer b.buffer = true := by
  unfold readData at h
  split at h
  · cases h
  · simp only at h
    split at h
    · cases h
    · split at h
      · cases h
      · split at h
        · cases h
        · rename_i data hd
          split at h
          · rename_i hc
            injection h with h
            injection h with h
            injection h with h1 h2
            subst h1
            exact hc
          · cases h

theorem scan_spec (fuel : Nat) (r : Bytes) :
    ∃ bufs, scan fuel r = .ok bufs ∧ ∀ b ∈ bufs, checkEntryBuffer b.buffer = true := by
  induction fuel generalizing r with
  | zero => exact ⟨[], rfl, by simp⟩
  | succ fuel ih =>
    unfold scan
    simp only
    split
    · exact ⟨[], rfl, by simp⟩
    · rename_i x after _
      by_cases hl : after.length < 7
      · exact ⟨[], by simp [hl], by simp⟩
      · simp only [hl, if_false]
        by_cases hm : firstMagicByte :: List.take 7 after = metadataMagic
        · simp only [hm, if_true]
          cases hr : readMetadata (List.drop 7 after) with
          | none => exact ih _
          | some bn =>
            obtain ⟨b, n⟩ := bn
            obtain ⟨bufs, h1, h2⟩ := ih (List.drop n (List.drop 7 after))
            refine ⟨b :: bufs, by simp only [h1]; rfl, ?_⟩
            intro b' hb'
            cases hb' with
            | head => exact readMetadata_checked _ _ _ hr
            | tail _ h => exact h2 b' h
        · simp only [hm, if_false]
          by_cases hd : firstMagicByte :: List.take 7 after = dataMagic
          · simp only [hd, if_true]
            obtain ⟨res, hres⟩ := readData_no_error (List.drop 7 after)
            rw [hres]
            cases res with
            | none => exact ih _
            | some bn =>
              obtain ⟨b, n⟩ := bn
              obtain ⟨bufs, h1, h2⟩ := ih (List.drop n (List.drop 7 after))
              refine ⟨b :: bufs, by simp only [h1]; rfl, ?_⟩
              intro b' hb'
              cases hb' with
              | head => exact readData_checked _ _ _ hres
              | tail _ h => exact h2 b' h
          · simp only [hd, if_false]
            exact ih _

/-- **No crash, no out-of-bounds read**: for arbitrary input bytes the tool terminates (the model is
    a total function with fuel |image|+1, one loop iteration per consumed byte at least) and never
    takes a slice outside a copied buffer. -/
theorem c20_no_trap (image : Bytes) : ∃ out, recover image = .ok out := by
  unfold recover
  obtain ⟨bufs, h, _⟩ := scan_spec (image.length + 1) image
  rw [h]
  exact ⟨_, rfl⟩

theorem checked_is_frames (b : Bytes) (h : checkEntryBuffer b = true) :
    ∃ ps, b = frames ps ∧ ∀ p ∈ ps, PayloadOk p := by
  unfold checkEntryBuffer at h
  obtain ⟨h1, h2, h3, h4⟩ := C12.c12_position b
  rcases hs : splitEntries b with ⟨ps, n, t⟩
  rw [hs] at h h1 h2 h3 h4
  simp only at h1 h2 h3 h4
  cases t with
  | truncSize => simp at h
  | truncPayload => simp at h
  | clean =>
  have hn : n = b.length := h4.mp rfl
  refine ⟨ps, ?_, h3⟩
  rw [hn, List.drop_length, List.append_nil] at h1
  exact h1

theorem frames_flatten (l : List (List Bytes)) : (l.map frames).flatten = frames l.flatten := by
  induction l with
  | nil => rfl
  | cons a as ih => simp [frames, List.map_append] at ih ⊢; rw [ih]

/-- **Whatever it writes is a sequence of complete entries.** -/
theorem c20_whole_entries (image : Bytes) (out : Bytes) (h : recover image = .ok out) :
    ∃ ps, out = frames ps ∧ ∀ p ∈ ps, PayloadOk p := by
  unfold recover at h
  obtain ⟨bufs, hs, hc⟩ := scan_spec (image.length + 1) image
  rw [hs] at h
  simp only at h
  injection h with h
  subst h
  -- every buffer, also after sorting, is a list of frames
  have hall : ∀ b ∈ bufs.mergeSort bufLe, ∃ ps, b.buffer = frames ps ∧ ∀ p ∈ ps, PayloadOk p := by
    intro b hb
    exact checked_is_frames _ (hc b ((List.mem_mergeSort).mp hb))
  generalize bufs.mergeSort bufLe = sorted at hall
  induction sorted with
  | nil => exact ⟨[], rfl, by simp⟩
  | cons b bs ih =>
    obtain ⟨ps1, e1, o1⟩ := hall b (by simp)
    obtain ⟨ps2, e2, o2⟩ := ih (fun x hx => hall x (by simp [hx]))
    refine ⟨ps1 ++ ps2, ?_, ?_⟩
    · simp only [List.map_cons, List.flatten_cons, e1, e2]
      simp [frames]
    · intro p hp
      simp only [List.mem_append] at hp
      cases hp with
      | inl h => exact o1 p h
      | inr h => exact o2 p h

/-- **A queue whose indices are inconsistent with its capacity contributes nothing.** -/
theorem c20_inconsistent_queue_emits_nothing (r : Bytes) (h48 : 48 ≤ r.length)
    (hbad : unle ((r.drop 8).take 8) > unle ((r.drop 24).take 8) ∨
            unle ((r.drop 16).take 8) > unle ((r.drop 24).take 8) ∨
            unle ((r.drop 40).take 8) > unle ((r.drop 24).take 8)) :
    readData r = .ok none := by
  unfold readData
  have h0 : ¬ r.length < 48 := by omega
  simp only [h0, if_false, List.drop_drop]
  simp only [show 8 + 8 = 16 by rfl, show 16 + 8 = 24 by rfl, show 32 + 8 = 40 by rfl] at *
  simp [hbad]

/-! Non-vacuity: an image holding one metadata buffer and one wrapped queue. -/
def exImage : Bytes :=
  [1, 2, 3] ++ metadataMagic ++ le 8 77 ++ le 8 5 ++ frame [9] ++ [0xBC, 0, 0] ++
  dataMagic ++ le 8 77 ++ le 8 5 ++ le 8 11 ++ le 8 12 ++ le 8 0 ++ le 8 6 ++
    ([1, 0, 0, 0, 42] ++ [0] ++ [1, 0, 0, 0, 41] ++ [0])
example : (scan (exImage.length + 1) exImage).toOption.map (·.map (·.buffer)) = some [frame [9], frame [41] ++ frame [42]] := by
  decide

end BinlogVerif.C20
