import BinlogVerif.Lemmas.Split
import BinlogVerif.Lemmas.Reader
import BinlogVerif.Reader.Bread
/-
  C12 — Truncated logs: every whole entry before the cut is read, then a clean error.

  `splitEntries` is the entry stream on *arbitrary* bytes: payloads of the whole entries, the
  stream position after them (`consumed`; the istream version rewinds to it on error), and how
  the input ends.  Reading = `readAll`/`readUntilError` over those payloads (C14's model).
-/
namespace BinlogVerif.C12
open BinlogVerif

/-- number of entries of `ps` that lie entirely inside the first `n` bytes of `frames ps` -/
def wholeCount : List Bytes → Nat → Nat
  | [], _ => 0
  | p :: ps, n => if 4 + p.length ≤ n then 1 + wholeCount ps (n - (4 + p.length)) else 0

/-- **Position / soundness on arbitrary input.**  Whatever the bytes are, the entries returned are
    a prefix of the input in framed form, and `consumed` — where the stream stands after an
    error — is the start offset of the first incomplete entry. -/
theorem c12_position (a : Bytes) :
    let r := splitEntries a
    a = frames r.1 ++ a.drop r.2.1 ∧ r.2.1 = (frames r.1).length ∧ (∀ p ∈ r.1, PayloadOk p) ∧
    (r.2.2 = .clean ↔ r.2.1 = a.length) := by
  obtain ⟨n, hn⟩ : ∃ n, a.length = n := ⟨_, rfl⟩
  induction n using Nat.strongRecOn generalizing a with
  | _ n ih =>
    rw [splitEntries_unfold]
    cases hne : nextEntry a with
    | none =>
      unfold nextEntry at hne
      by_cases hE : a.isEmpty = true
      · have : a = [] := by simpa using hE
        subst this; simp [frames]
      · rw [if_neg hE] at hne
        by_cases h4 : a.length < 4 <;> simp [h4] at hne
        split at hne <;> cases hne
    | some res =>
      cases res with
      | error t =>
        simp only [frames, List.map_nil, List.flatten_nil, List.nil_append, List.drop_zero,
          List.length_nil, List.not_mem_nil, false_imp_iff, implies_true, true_and]
        unfold nextEntry at hne
        by_cases hE : a.isEmpty = true
        · rw [if_pos hE] at hne; cases hne
        · rw [if_neg hE] at hne
          have hpos : 0 < a.length := by
            cases a with
            | nil => simp at hE
            | cons x y => simp
          by_cases h4 : a.length < 4
          · rw [if_pos h4] at hne
            injection hne with hne; injection hne with hne; subst hne
            constructor
            · intro h; cases h
            · intro h; omega
          · rw [if_neg h4] at hne
            simp only [] at hne
            split at hne
            · cases hne
            · injection hne with hne; injection hne with hne; subst hne
              constructor
              · intro h; cases h
              · intro h; omega
      | ok pr =>
        obtain ⟨p, rest⟩ := pr
        obtain ⟨ha, hp⟩ := nextEntry_ok_shape hne
        have hl : rest.length < n := by
          rw [← hn, ha]; simp [frame_length]; omega
        obtain ⟨i1, i2, i3, i4⟩ := ih rest.length hl rest rfl
        rcases hsr : splitEntries rest with ⟨qs, c, t⟩
        rw [hsr] at i1 i2 i3 i4
        simp only at i1 i2 i3 i4
        simp only [hsr]
        have hfr : frames (p :: qs) = frame p ++ frames qs := by simp [frames]
        refine ⟨?_, ?_, ?_, ?_⟩
        · rw [hfr, List.append_assoc]
          conv => lhs; rw [ha]
          congr 1
          have : List.drop (4 + p.length + c) a = List.drop c rest := by
            conv => lhs; rw [ha]
            exact drop_frame_append p rest c
          rw [this]; exact i1
        · rw [hfr, List.length_append, frame_length, i2]
        · intro q hq
          cases hq with
          | head => exact hp
          | tail _ h => exact i3 q h
        · rw [i4]
          have : a.length = 4 + p.length + rest.length := by
            conv => lhs; rw [ha]
            rw [List.length_append, frame_length]
          omega

/-- `splitEntries` of a whole well-formed log returns all its payloads and ends clean. -/
theorem splitEntries_frames (ps : List Bytes) (hok : ∀ p ∈ ps, PayloadOk p) :
    splitEntries (frames ps) = (ps, (frames ps).length, .clean) := by
  induction ps with
  | nil =>
    rw [splitEntries_unfold]; simp [frames, nextEntry]
  | cons p ps ih =>
    have hfr : frames (p :: ps) = frame p ++ frames ps := by simp [frames]
    rw [splitEntries_unfold, hfr, nextEntry_frame p _ (hok p (by simp))]
    simp only
    rw [ih (fun q hq => hok q (by simp [hq]))]
    simp [frame_length] <;> omega

/-- **Resume.**  For arbitrary bytes `a` followed later by `b`: the entries of `a ++ b` are the
    entries already read from `a`, followed by what reading yields when it continues at the
    position the stream was rewound to (`a.drop consumed`) once `b` has arrived. -/
theorem c12_resume_step (a b : Bytes) :
    let r := splitEntries a
    let r' := splitEntries (a.drop r.2.1 ++ b)
    splitEntries (a ++ b) = (r.1 ++ r'.1, r.2.1 + r'.2.1, r'.2.2) := by
  obtain ⟨n, hn⟩ : ∃ n, a.length = n := ⟨_, rfl⟩
  induction n using Nat.strongRecOn generalizing a with
  | _ n ih =>
    rw [splitEntries_unfold a]
    cases hne : nextEntry a with
    | none => simp
    | some res =>
      cases res with
      | error t => simp
      | ok pr =>
        obtain ⟨p, rest⟩ := pr
        obtain ⟨ha, hp⟩ := nextEntry_ok_shape hne
        have hl : rest.length < n := by
          rw [← hn, ha]; simp [frame_length]; omega
        have ih' := ih rest.length hl rest rfl
        simp only at ih' ⊢
        rw [splitEntries_unfold (a ++ b), nextEntry_ok_append b hne]
        simp only
        rw [ih']
        rcases hsr : splitEntries rest with ⟨qs, c, t⟩
        simp only
        have : List.drop (4 + p.length + c) a = List.drop c rest := by
          conv => lhs; rw [ha]
          exact drop_frame_append p rest c
        rw [this]
        rcases hsr' : splitEntries (List.drop c rest ++ b) with ⟨qs', c', t'⟩
        simp <;> omega

/-- **C12 (prefix).**  For every well-formed log `frames ps` and every cut offset `n`: the entry
    stream yields exactly the entries that lie entirely inside the first `n` bytes, in order, is
    positioned at the start of the incomplete entry, and ends clean iff the cut is on an entry
    boundary (otherwise `truncSize`/`truncPayload`, which the reader reports as an error). -/
theorem c12_prefix (ps : List Bytes) (hok : ∀ p ∈ ps, PayloadOk p) (n : Nat) (hn : n ≤ (frames ps).length) :
    let r := splitEntries ((frames ps).take n)
    r.1 = ps.take (wholeCount ps n) ∧
    r.2.1 = (frames (ps.take (wholeCount ps n))).length ∧
    (r.2.2 = .clean ↔ n = (frames (ps.take (wholeCount ps n))).length) := by
  induction ps generalizing n with
  | nil =>
    simp [frames, wholeCount] at hn ⊢
    subst hn
    rw [splitEntries_unfold]; simp [nextEntry]
  | cons p ps ih =>
    have hp := hok p (by simp)
    have hfr : frames (p :: ps) = frame p ++ frames ps := by simp [frames]
    rw [hfr] at hn ⊢
    simp only [wholeCount]
    by_cases hw : 4 + p.length ≤ n
    · -- the first entry is whole
      rw [if_pos hw]
      have htk : List.take n (frame p ++ frames ps) = frame p ++ List.take (n - (4 + p.length)) (frames ps) := by
        rw [List.take_append, frame_length]
        rw [List.take_of_length_le (by rw [frame_length]; exact hw)]
      rw [htk, splitEntries_unfold, nextEntry_frame p _ hp]
      have hn' : n - (4 + p.length) ≤ (frames ps).length := by
        rw [List.length_append, frame_length] at hn; omega
      obtain ⟨i1, i2, i3⟩ := ih (fun q hq => hok q (by simp [hq])) (n - (4 + p.length)) hn'
      rcases hsr : splitEntries (List.take (n - (4 + p.length)) (frames ps)) with ⟨qs, c, t⟩
      rw [hsr] at i1 i2 i3
      simp only at i1 i2 i3
      simp only [hsr]
      have : 1 + wholeCount ps (n - (4 + p.length)) = (wholeCount ps (n - (4 + p.length))) + 1 := by omega
      rw [this, List.take_succ_cons]
      have hfr' : ∀ l, frames (p :: l) = frame p ++ frames l := by intro l; simp [frames]
      refine ⟨by rw [i1], ?_, ?_⟩
      · rw [hfr', List.length_append, frame_length, i2]
      · rw [i3, hfr', List.length_append, frame_length]; omega
    · -- the cut is inside the first entry
      rw [if_neg hw]
      have hf0 : frames ([] : List Bytes) = [] := rfl
      simp only [List.take_zero, hf0, List.length_nil]
      have hlen : (List.take n (frame p ++ frames ps)).length = n := by
        rw [List.length_take]; exact Nat.min_eq_left hn
      have hpos := c12_position (List.take n (frame p ++ frames ps))
      simp only at hpos
      obtain ⟨q1, q2, q3, q4⟩ := hpos
      -- no whole entry can be found in fewer than 4 + |p| bytes of this input
      have hnil : (splitEntries (List.take n (frame p ++ frames ps))).1 = [] := by
        rw [splitEntries_unfold]
        cases hne : nextEntry (List.take n (frame p ++ frames ps)) with
        | none => rfl
        | some res =>
          cases res with
          | error t => rfl
          | ok pr =>
            exfalso
            obtain ⟨p', rest⟩ := pr
            obtain ⟨ha, hp'⟩ := nextEntry_ok_shape hne
            -- first four bytes agree, hence p'.length = p.length, hence 4 + |p| ≤ n
            have hlen' : n = 4 + p'.length + rest.length := by
              rw [← hlen, ha, List.length_append, frame_length]
            have h4 : 4 ≤ n := by omega
            have e1 : List.take 4 (List.take n (frame p ++ frames ps)) = le 4 p.length := by
              rw [List.take_take, Nat.min_eq_left h4]
              unfold frame
              rw [List.append_assoc, List.take_append_of_le_length (by simp)]
              rw [List.take_of_length_le (by simp)]
            have e2 : List.take 4 (List.take n (frame p ++ frames ps)) = le 4 p'.length := by
              rw [ha]
              unfold frame
              rw [List.append_assoc, List.take_append_of_le_length (by simp)]
              rw [List.take_of_length_le (by simp)]
            have e3 : unle (le 4 p.length) = unle (le 4 p'.length) := by rw [← e1, ← e2]
            rw [unle_le_of_lt 4 _ (by simpa [PayloadOk] using hp),
                unle_le_of_lt 4 _ (by simpa [PayloadOk] using hp')] at e3
            omega
      rw [hnil] at q2
      simp only [hf0, List.length_nil] at q2
      refine ⟨hnil, q2, ?_⟩
      rw [q4, q2, hlen]
      omega

/-- Reading a prefix with `bread`'s loop: exactly the items of the whole entries inside the cut
    (events in order), followed by the stream error iff the cut is not on an entry boundary. -/
theorem c12_prefix_events (ps : List Bytes) (hok : ∀ p ∈ ps, PayloadOk p) (n : Nat)
    (hn : n ≤ (frames ps).length) (st : ReaderState) :
    readAll st (splitEntries ((frames ps).take n)).1 = readAll st (ps.take (wholeCount ps n)) := by
  rw [(c12_prefix ps hok n hn).1]

/-- **C12 for `TextOutputStream`** (an output that parses what it receives): handing it a prefix of a well-formed log
    that is cut anywhere leaves on the output exactly what handing it the whole entries before the cut leaves there — every
    event that lies entirely inside the prefix is printed, with the same reader state afterwards — and, unless an earlier
    entry already made the call throw (or a null entry ended it), the call throws iff the cut is not on an entry boundary. -/
theorem c12_textout_prefix (fmt dateFmt : Bytes) (ps : List Bytes) (hok : ∀ p ∈ ps, PayloadOk p) (n : Nat)
    (hn : n ≤ (frames ps).length) (st : ReaderState) (out : Bytes) :
    let whole := ps.take (wholeCount ps n)
    let r := Bread.textOutWrite fmt dateFmt st out ((frames ps).take n)
    let w := Bread.textOutEntries fmt dateFmt st whole out
    r.1 = w.1 ∧ r.2.1 = w.2.1 ∧
    (w.2.2.1 = none → w.2.2.2 = false →
      (r.2.2 = none ↔ n = (frames whole).length)) := by
  obtain ⟨h1, h2, h3⟩ := c12_prefix ps hok n hn
  simp only [Bread.textOutWrite]
  rcases hsr : splitEntries (List.take n (frames ps)) with ⟨qs, c, t⟩
  rw [hsr] at h1 h2 h3
  simp only at h1 h2 h3
  subst h1
  rcases hw : Bread.textOutEntries fmt dateFmt st (List.take (wholeCount ps n) ps) out with ⟨s', o', e', stp⟩
  simp only
  refine ⟨trivial, trivial, ?_⟩
  intro he hs
  subst he; subst hs
  simp only [Bool.false_eq_true, if_false]
  rw [← h3]
  cases t <;> simp

/-! Non-vacuity: a two-entry log cut in the size field, in the payload, and on a boundary. -/
def l2 : List Bytes := [[1,2,3,4,5,6,7,8], [9,9,9,9,9,9,9,9,9]]
example : (frames l2).length = 25 := by decide
example : wholeCount l2 11 = 0 ∧ wholeCount l2 12 = 1 ∧ wholeCount l2 14 = 1 ∧ wholeCount l2 24 = 1 ∧ wholeCount l2 25 = 2 := by decide
example : splitEntries ((frames l2).take 14) = ([[1,2,3,4,5,6,7,8]], 12, .truncSize) := by decide
example : splitEntries ((frames l2).take 20) = ([[1,2,3,4,5,6,7,8]], 12, .truncPayload) := by decide
example : splitEntries ((frames l2).take 12) = ([[1,2,3,4,5,6,7,8]], 12, .clean) := by decide

end BinlogVerif.C12
