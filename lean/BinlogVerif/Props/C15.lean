import BinlogVerif.Lemmas.Classify
/-
  C15 — Forward compatibility: unknown metadata entries and trailing fields are ignored.
-/
namespace BinlogVerif.C15
open BinlogVerif

/-- the payload is an unknown special entry: top bit of the tag set, not one of the three -/
def isUnknownSpecial (p : Bytes) : Bool :=
  match classify p with
  | .unknownSpecial _ => true
  | _ => false

/-- the definition above is exactly "any tag with the top bit set other than the three defined" -/
theorem isUnknownSpecial_iff (tag : Nat) (body : Bytes) (ht : tag < 2^64) :
    isUnknownSpecial (le 8 tag ++ body) = true ↔
      (isSpecial tag = true ∧ tag ≠ tagEventSource ∧ tag ≠ tagWriterProp ∧ tag ≠ tagClockSync) := by
  have hne := le_append_isEmpty 8 tag body (by decide)
  have hlt : tag < 256 ^ 8 := by simpa using ht
  unfold isUnknownSpecial classify
  simp only [hne, Bool.false_eq_true, if_false]
  rw [readU_le_append 8 tag _ hlt]
  simp only
  obtain ⟨s1, s2, s3, n12, n13, n23⟩ := special_tags
  by_cases h1 : tag = tagEventSource
  · subst h1; simp only [if_true]; cases decSource body <;> simp
  · by_cases h2 : tag = tagWriterProp
    · subst h2; simp only [h1, if_true, if_false]; cases decWriterProp body <;> simp
    · by_cases h3 : tag = tagClockSync
      · subst h3; simp only [h1, h2, if_true, if_false]; cases decClockSync body <;> simp
      · by_cases hs : isSpecial tag = true <;> simp [h1, h2, h3, hs]

/-- an unknown special entry is a no-op for the reader -/
theorem unknown_is_noop (st : ReaderState) (p : Bytes) (h : isUnknownSpecial p = true) :
    stepEntry st p = some ([], st) := by
  unfold isUnknownSpecial at h
  unfold stepEntry
  rw [processEntry_eq_spec]
  cases hk : classify p <;> simp [hk] at h
  simp [processSpec]

/-- **C15 (unknown specials).**  Removing — equivalently inserting — unknown special entries at
    any set of positions, with any payloads, changes nothing the reader reports: same events with
    the same sources, writer descriptions, clock syncs, clocks and arguments, same errors. -/
theorem c15_unknown_specials (st : ReaderState) (ps : List Bytes) :
    readAll st (ps.filter (fun p => !isUnknownSpecial p)) = readAll st ps := by
  induction ps generalizing st with
  | nil => rfl
  | cons p ps ih =>
    by_cases h : isUnknownSpecial p = true
    · simp only [List.filter_cons, h, Bool.not_true, Bool.false_eq_true, if_false]
      rw [ih]
      simp [readAll, unknown_is_noop st p h]
    · simp only [Bool.not_eq_true] at h
      simp only [List.filter_cons, h, Bool.not_false, if_true, readAll]
      cases stepEntry st p with
      | none => rfl
      | some r => obtain ⟨items, st'⟩ := r; simp [ih]

/-- inserting one unknown special entry anywhere -/
theorem c15_insert_unknown (st : ReaderState) (a b : List Bytes) (u : Bytes)
    (hu : isUnknownSpecial u = true) :
    readAll st (a ++ u :: b) = readAll st (a ++ b) := by
  rw [← c15_unknown_specials st (a ++ u :: b), ← c15_unknown_specials st (a ++ b)]
  simp [List.filter_append, hu]

/-! ### trailing bytes after the last known field -/

theorem readU8_append {p x : Bytes} {tag : Nat} {body : Bytes} (h : readU 8 p = .ok (tag, body)) :
    readU 8 (p ++ x) = .ok (tag, body ++ x) := readU_append_right x h

/-- valid metadata kinds: a source, writer description or clock sync that deserialised -/
def isValidMeta : PayloadKind → Bool
  | .source _ => true
  | .writerProp _ => true
  | .clockSync _ => true
  | _ => false

/-- Appending bytes to a *valid* metadata payload (source, writer description, clock sync) — with
    the size prefix adjusted, which `frame` does — leaves its kind and decoded value unchanged. -/
theorem c15_trailing_metadata (p x : Bytes) (h : isValidMeta (classify p) = true) :
    classify (p ++ x) = classify p := by
  obtain ⟨s1, s2, s3, n12, n13, n23⟩ := special_tags
  unfold classify at h ⊢
  by_cases hE : p.isEmpty = true
  · simp [hE, isValidMeta] at h
  · have hE' : (p ++ x).isEmpty = false := by
      cases p with
      | nil => simp at hE
      | cons a b => simp
    simp only [hE, Bool.false_eq_true, if_false] at h ⊢
    simp only [hE', Bool.false_eq_true, if_false]
    cases hr : readU 8 p with
    | error e => simp [hr, isValidMeta] at h
    | ok tb =>
      obtain ⟨tag, body⟩ := tb
      simp only [hr] at h ⊢
      rw [readU8_append hr]
      simp only
      by_cases h1 : tag = tagEventSource
      · subst h1
        simp only [if_true] at h ⊢
        cases hd : decSource body with
        | error e => simp [hd, isValidMeta] at h
        | ok sr => obtain ⟨s, r⟩ := sr; rw [decSource_append_right x hd]
      · by_cases h2 : tag = tagWriterProp
        · subst h2
          simp only [Ne.symm n12, if_true, if_false] at h ⊢
          cases hd : decWriterProp body with
          | error e => simp [hd, isValidMeta] at h
          | ok sr => obtain ⟨s, r⟩ := sr; rw [decWriterProp_append_right x hd]
        · by_cases h3 : tag = tagClockSync
          · subst h3
            simp only [Ne.symm n13, Ne.symm n23, if_true, if_false] at h ⊢
            cases hd : decClockSync body with
            | error e => simp [hd, isValidMeta] at h
            | ok sr => obtain ⟨s, r⟩ := sr; rw [decClockSync_append_right x hd]
          · simp only [h1, h2, h3, if_false] at h
            by_cases hs : isSpecial tag = true <;> simp [hs, isValidMeta] at h

/-- hence the reader does exactly the same on the padded entry as on the original one -/
theorem c15_trailing_metadata_state (st : ReaderState) (p x : Bytes)
    (hvalid : isValidMeta (classify p) = true) :
    processEntry st (p ++ x) = processEntry st p := by
  rw [processEntry_eq_spec, processEntry_eq_spec, c15_trailing_metadata p x hvalid]

/-- Appending bytes to a valid event payload yields the same event (same source, same clock) whose
    argument range is extended by exactly those bytes.  That the *text* is unchanged follows from
    the visitor consuming exactly the bytes the argument tags describe (`C06`/`Visit` model). -/
theorem c15_trailing_event (st : ReaderState) (p x : Bytes) (ev : Event)
    (h : (processEntry st p).1 = .ok (.event ev)) :
    (processEntry st (p ++ x)).1 = .ok (.event { ev with arguments := ev.arguments ++ x }) := by
  obtain ⟨s1, s2, s3, n12, n13, n23⟩ := special_tags
  rw [processEntry_eq_spec] at h ⊢
  unfold classify at h ⊢
  by_cases hE : p.isEmpty = true
  · simp [hE, processSpec] at h
  · have hE' : (p ++ x).isEmpty = false := by
      cases p with
      | nil => simp at hE
      | cons a b => simp
    simp only [hE, Bool.false_eq_true, if_false] at h
    simp only [hE', Bool.false_eq_true, if_false]
    cases hr : readU 8 p with
    | error e => simp [hr, processSpec] at h
    | ok tb =>
      obtain ⟨tag, body⟩ := tb
      simp only [hr] at h
      rw [readU8_append hr]
      simp only
      by_cases h1 : tag = tagEventSource
      · subst h1; simp only [if_true] at h; cases hd : decSource body <;> simp [hd, processSpec] at h
      · by_cases h2 : tag = tagWriterProp
        · subst h2; simp only [Ne.symm n12, if_true, if_false] at h; cases hd : decWriterProp body <;> simp [hd, processSpec] at h
        · by_cases h3 : tag = tagClockSync
          · subst h3; simp only [Ne.symm n13, Ne.symm n23, if_true, if_false] at h; cases hd : decClockSync body <;> simp [hd, processSpec] at h
          · by_cases hs : isSpecial tag = true
            · simp [h1, h2, h3, hs, processSpec] at h
            · simp only [h1, h2, h3, hs, if_false, Bool.false_eq_true, processSpec] at h ⊢
              cases hf : st.sources.find tag with
              | none => simp [hf] at h
              | some src =>
                simp only [hf] at h ⊢
                cases hc : readU 8 body with
                | error e => simp [hc] at h
                | ok ca =>
                  obtain ⟨clock, args⟩ := ca
                  simp only [hc] at h
                  rw [readU8_append hc]
                  injection h with h
                  injection h with h
                  subst h
                  rfl

/-! Non-vacuity: tag `2^64 - 7` with a junk payload is unknown-special and is ignored between a
    source and its event; a source padded with two bytes defines the same source. -/
def src1 : Bytes := sourcePayload { id := 1, formatString := [104, 105] }
def junk : Bytes := le 8 (2^64 - 7) ++ [1, 2, 3]
example : isUnknownSpecial junk = true := by decide
example : readAll {} [src1, junk, eventPayload 1 9 [], junk] = readAll {} [src1, eventPayload 1 9 []] := by decide
example : readAll {} [src1 ++ [7, 7], eventPayload 1 9 []] = readAll {} [src1, eventPayload 1 9 []] := by decide

end BinlogVerif.C15
