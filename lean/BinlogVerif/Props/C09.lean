import BinlogVerif.Reader.Bread
/-
  C09 — Reader robustness.  (theorems under construction)
-/
namespace BinlogVerif.C09
end BinlogVerif.C09
