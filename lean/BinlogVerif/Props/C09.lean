import BinlogVerif.Reader.Bread
import BinlogVerif.Lemmas.NoTrapBread
/-
  C09 — Reader robustness.

  `Bread.run sorted fmt dateFmt file` models `bread [-s] -f fmt -d dateFmt file` on ARBITRARY file
  bytes, ARBITRARY event format strings and ARBITRARY date format strings (entry stream → event
  stream → `PrettyPrinter`/`ToStringVisitor` → `mserialize::visit` → time printing).  In the model
  an out-of-bounds access or a failed `assert` is the error `Err.trap _`; every other error is a
  C++ exception thrown on purpose, which `bread` catches as `std::exception`.

  * No assertion failure, no out-of-bounds read: `c09_no_trap`, `c09_text_output_stream_no_trap`.
  * Errors are reported only as standard exceptions: `c09_error_is_std`.
  * Termination: by construction.  Every model function is a total Lean function — structural
    recursion on a list or on explicit fuel (`splitEntriesFuel`, `visitImpl`'s `maxRec`, the tuple
    and field loops, `printEventMessage.go`, `resolveRecursiveTag.go`, …); nothing is `partial`, so
    `Bread.run` yields a result for every input.  The recursion of the tag-driven visitation is
    bounded by the C++ counter `max_recursion = 2048`: `c09_recursion_bounded`.

  The proofs are in `Lemmas/NoTrapBase.lean` (checked readers), `Lemmas/NoTrapVisit.lean`
  (`singular`, `visit_impl` for an arbitrary non-trapping visitor) and `Lemmas/NoTrapBread.lean`
  (time printers, `ToStringVisitor`, `PrettyPrinter`, event stream, print loop).
-/
namespace BinlogVerif.C09
open BinlogVerif

/-- **C09 (errors are standard exceptions).**  Whatever the input file, the event format and the
    date format, an error that ends a `bread` run is never a trap (`isTrap = false`): it is one of
    `overflow`, `invalidSource`, `truncSize`, `truncPayload`, `recursion`, `invalidTag`,
    `sizeMismatch` — the exceptions derived from `std::exception` that `bread` catches and reports
    with exit status 3. -/
theorem c09_error_is_std (sorted : Bool) (fmt dateFmt file : Bytes) (e : Err)
    (h : (Bread.run sorted fmt dateFmt file).2 = some e) : e.isTrap = false := by
  rw [run_error_eq] at h
  exact printUntilError_noTrap fmt dateFmt _ (itemsOf_noTrap file) e h

/-- **C09 (no trap).**  For every input file, event format and date format — sorted or not — the
    reader never trips an assertion and never reads out of bounds. -/
theorem c09_no_trap (sorted : Bool) (fmt dateFmt file : Bytes) (w : String) :
    (Bread.run sorted fmt dateFmt file).2 ≠ some (.trap w) := by
  intro h
  have := c09_error_is_std sorted fmt dateFmt file _ h
  simp [Err.isTrap] at this

/-- **C09 (per-event renderer).**  The text of one event, as a `TextOutputStream` produces it,
    never traps: any event (any source, format string, argument tags and argument bytes), any
    writer properties, any clock sync, any event format and date format. -/
theorem c09_text_output_stream_no_trap (fmt dateFmt : Bytes) (ev : Event) (wp : WriterProp)
    (cs : ClockSync) (w : String) : Bread.renderEvent fmt dateFmt ev wp cs ≠ .error (.trap w) :=
  renderEvent_noTrap fmt dateFmt ev wp cs w

/-- **C09 (visitation never traps).**  `mserialize::visit` on an arbitrary tag and arbitrary input
    bytes fails only with the visitor's own errors, `Range overflow`, `invalidTag` or the recursion
    limit — for ANY visitor whose callbacks do not trap, and any recursion budget. -/
theorem c09_visit_no_trap {σ : Type} (v : Visit.Visitor σ) (hv : v.NoTrap) (full : Bytes)
    (maxRec : Nat) (tag : Bytes) (st : σ) (input : Bytes) (w : String) :
    Visit.visitImpl v full maxRec tag st input ≠ .error (.trap w) :=
  visitImpl_noTrap v full hv maxRec tag st input w

/-- **C09 (bounded recursion).**  `visit` starts `visit_impl` with the budget 2048; every nested
    call gets one less (see `Visit.visitImpl`), and with budget 0 `visit_impl` throws the
    `recursion` exception whatever the tag and the input: the nesting depth is at most 2048. -/
theorem c09_recursion_bounded :
    (∀ {σ : Type} (v : Visit.Visitor σ) (tag : Bytes) (st : σ) (input : Bytes),
      Visit.visit v tag st input = Visit.visitImpl v tag 2048 tag st input) ∧
    (∀ {σ : Type} (v : Visit.Visitor σ) (full tag : Bytes) (st : σ) (input : Bytes),
      Visit.visitImpl v full 0 tag st input = .error .recursion) ∧
    (∀ (full tag : Bytes), Tag.singularImpl full 0 tag = .error .recursion) := by
  refine ⟨fun _ _ _ _ => rfl, fun v full tag st input => ?_, fun full tag => ?_⟩
  · unfold Visit.visitImpl; rfl
  · unfold Tag.singularImpl; rfl

/-! ### non-vacuity: the error channel is really exercised (kernel evaluation of the model) -/

section Examples

/-- the trap is expressible: the model of `assert(0 <= i && i < 100)` fails for 100 -/
example : Time.printTwoDigits 100 = .error (.trap "assert") := by decide

/-- two bytes: "Failed to read entry size" -/
example : (Bread.run false [37, 109] [] [1, 0]).2 = some .truncSize := by decide
/-- size field 1, no payload -/
example : (Bread.run false [37, 109] [] [1, 0, 0, 0]).2 = some .truncPayload := by decide
/-- one-byte payload: the tag read overflows the range -/
example : (Bread.run true [37, 109] [] [1, 0, 0, 0, 7]).2 = some .overflow := by decide
/-- an event of the unknown source 7 -/
example : (Bread.run true [37, 109] [] [8, 0, 0, 0, 7, 0, 0, 0, 0, 0, 0, 0]).2
    = some .invalidSource := by decide

end Examples

end BinlogVerif.C09
