import BinlogVerif.Lemmas.Mser
/-
  C05 — Serialize/deserialize round trip; truncation fails with an exception.

  `decode` is deserialisation by tag: two C++ types with the same tag decode the same bytes the
  same way, so "tag-compatible destination" is the same `Ty` here; that each concrete destination
  (list for vector, pair for 2-tuple, set for sorted vector, unique_ptr for optional, …) behaves
  like `decode` is the correspondence part of the check (generated programs, every truncation
  point under ASan).
-/
namespace BinlogVerif.C05
open BinlogVerif BinlogVerif.Mser

/-- **Round trip**, with arbitrary bytes following the value. -/
theorem c05_roundtrip (t : Ty) (v : Val) (rest : Bytes) (h : hasTy t v = true) :
    decode t (encode t v ++ rest) = .ok (v, rest) :=
  decode_encode t v rest h

/-- **Every truncation point fails with an exception** (`Range overflow`), never a value. -/
theorem c05_truncation (t : Ty) (v : Val) (h : hasTy t v = true) (n : Nat)
    (hn : n < (encode t v).length) :
    decode t ((encode t v).take n) = .error .overflow :=
  decode_trunc t v h n hn

/-- **No over-read**: the decoder's result on `bytes ++ extra` never depends on `extra` beyond
    returning it: it consumed exactly the value's bytes. -/
theorem c05_no_overread (t : Ty) (v : Val) (extra₁ extra₂ : Bytes) (h : hasTy t v = true) :
    (decode t (encode t v ++ extra₁)).map (·.1) = (decode t (encode t v ++ extra₂)).map (·.1) := by
  rw [c05_roundtrip t v extra₁ h, c05_roundtrip t v extra₂ h]
  rfl

/-! Non-vacuity -/
def exTy : Ty := .tup [.seq (.tup [.arith 105, .arith 121]), .var [.null, .seq (.arith 99)]]
def exVal : Val := .tup [.seq [.tup [.num 7, .num 1]], .alt 1 (.seq [.num 104, .num 105])]
theorem exTyped : hasTy exTy exVal = true := by
  simp [exTy, exVal, hasTy, hasTyList, hasTyAll, hasTyNth, Visit.arithSize]
theorem exLen : (encode exTy exVal).length = 16 := by
  simp [exTy, exVal, encode, encodeList, encodeAll, encodeNth, Visit.arithSize]
example : decode exTy ((encode exTy exVal).take 15) = .error .overflow :=
  c05_truncation exTy exVal exTyped 15 (by rw [exLen]; decide)

end BinlogVerif.C05
