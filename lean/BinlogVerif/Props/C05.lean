import BinlogVerif.Lemmas.Mser
import BinlogVerif.Lemmas.Dest
/-
  C05 — Serialize/deserialize round trip; truncation fails with an exception.

  `decode` is deserialisation by tag: two C++ types with the same tag decode the same bytes the
  same way, so "tag-compatible destination" is the same `Ty` here; that each concrete destination
  (list for vector, pair for 2-tuple, set for sorted vector, unique_ptr for optional, …) behaves
  like `decode` is the correspondence part of the check (generated programs, every truncation
  point under ASan).
-/
namespace BinlogVerif.C05
open BinlogVerif BinlogVerif.Mser

/-- **Round trip**, with arbitrary bytes following the value. -/
theorem c05_roundtrip (t : Ty) (v : Val) (rest : Bytes) (h : hasTy t v = true) :
    decode t (encode t v ++ rest) = .ok (v, rest) :=
  decode_encode t v rest h

/-- **Every truncation point fails with an exception** (`Range overflow`), never a value. -/
theorem c05_truncation (t : Ty) (v : Val) (h : hasTy t v = true) (n : Nat)
    (hn : n < (encode t v).length) :
    decode t ((encode t v).take n) = .error .overflow :=
  decode_trunc t v h n hn

/-- **No over-read**: the decoder's result on `bytes ++ extra` never depends on `extra` beyond
    returning it: it consumed exactly the value's bytes. -/
theorem c05_no_overread (t : Ty) (v : Val) (extra₁ extra₂ : Bytes) (h : hasTy t v = true) :
    (decode t (encode t v ++ extra₁)).map (·.1) = (decode t (encode t v ++ extra₂)).map (·.1) := by
  rw [c05_roundtrip t v extra₁ h, c05_roundtrip t v extra₂ h]
  rfl

/-! Non-vacuity -/
def exTy : Ty := .tup [.seq (.tup [.arith 105, .arith 121]), .var [.null, .seq (.arith 99)]]
def exVal : Val := .tup [.seq [.tup [.num 7, .num 1]], .alt 1 (.seq [.num 104, .num 105])]
theorem exTyped : hasTy exTy exVal = true := by
  simp [exTy, exVal, hasTy, hasTyList, hasTyAll, hasTyNth, Visit.arithSize]
theorem exLen : (encode exTy exVal).length = 16 := by
  simp [exTy, exVal, encode, encodeList, encodeAll, encodeNth, Visit.arithSize]
example : decode exTy ((encode exTy exVal).take 15) = .error .overflow :=
  c05_truncation exTy exVal exTyped 15 (by rw [exLen]; decide)

end BinlogVerif.C05

/-
  Deserialisation INTO a destination (`Mser/Dest.lean`): a destination may be of fixed size at some
  sequence nodes (`std::array<T,N>`, `T[N]`, ranges without `resize`); there the encoded element
  count is compared with the size of the destination BEFORE any element is read.
-/
namespace BinlogVerif.C05
open BinlogVerif BinlogVerif.Mser

/-- a value that fits the destination round-trips, whatever follows it -/
theorem c05_into_roundtrip (d : Dst) (v : Val) (rest : Bytes) (h : hasTy d.ty v = true)
    (hf : fits d v = true) :
    decodeInto d (encode d.ty v ++ rest) = .ok (v, rest) :=
  decodeInto_encode d v rest h hf

/-- **a fixed-size destination that does not match the encoded size fails with the size-mismatch
    exception**, whatever follows the value (in particular it does not go on to read the following
    bytes as elements) -/
theorem c05_into_mismatch (d : Dst) (v : Val) (rest : Bytes) (h : hasTy d.ty v = true)
    (hf : fits d v = false) :
    decodeInto d (encode d.ty v ++ rest) = .error .sizeMismatch :=
  decodeInto_mismatch d v rest h hf

/-! Non-vacuity: an `std::array<std::string,3>` followed by an int, fed two strings -/
def exDst : Dst := .tup [.seq (some 3) (.seq none (.arith 99)), .arith 105]
def exTwo : Val := .tup [.seq [.seq [.num 104, .num 105], .seq [.num 33]], .num 7]
def exThree : Val := .tup [.seq [.seq [.num 104, .num 105], .seq [.num 33], .seq []], .num 7]
theorem exTwoTyped : hasTy exDst.ty exTwo = true := by
  simp [exDst, exTwo, Dst.ty, Dst.tys, hasTy, hasTyList, hasTyAll, Visit.arithSize]
theorem exTwoNoFit : fits exDst exTwo = false := by
  simp [exDst, exTwo, fits, fitsList, fitsAll]
example (rest : Bytes) : decodeInto exDst (encode exDst.ty exTwo ++ rest) = .error .sizeMismatch :=
  c05_into_mismatch exDst exTwo rest exTwoTyped exTwoNoFit
/-- the same by evaluation, with nothing following: a decoder that skipped the check would take
    the int `7` that follows the two strings for the length of a third string -/
example : decodeInto exDst (encode exDst.ty exTwo) = .error .sizeMismatch := by
  simp [exDst, exTwo, Dst.ty, Dst.tys, encode, encodeList, encodeAll, decodeInto, decodeIntoList,
    Visit.arithSize, readU, takeN, le, unle]
/-- …and the three-string value fits and round-trips -/
example (rest : Bytes) : decodeInto exDst (encode exDst.ty exThree ++ rest) = .ok (exThree, rest) :=
  c05_into_roundtrip exDst exThree rest
    (by simp [exDst, exThree, Dst.ty, Dst.tys, hasTy, hasTyList, hasTyAll, Visit.arithSize])
    (by simp [exDst, exThree, fits, fitsList, fitsAll])

/-- without fixed-size nodes `decodeInto` is `decode` (so C05's other theorems apply to it) -/
theorem c05_into_eq_decode (d : Dst) (hnf : noFixed d = true) (r : Bytes) :
    decodeInto d r = decode d.ty r :=
  decodeInto_eq_decode d hnf r

/-- every truncation point of the encoding fails with an exception (overflow or size mismatch),
    never a value -/
theorem c05_into_truncation (d : Dst) (v : Val) (h : hasTy d.ty v = true) (n : Nat)
    (hn : n < (encode d.ty v).length) :
    ∃ e, decodeInto d ((encode d.ty v).take n) = .error e ∧ (e = .overflow ∨ e = .sizeMismatch) :=
  decodeInto_trunc d v h n hn

end BinlogVerif.C05
