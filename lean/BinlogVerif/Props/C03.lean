import BinlogVerif.Lemmas.SessionMeta
/-
  C03 — Metadata precedes the data that references it.

  Model: `Conc/Session.lean` (L1).  Operations that hold `Session::_mutex` are atomic steps; a log
  statement is "register the source if this call site has no id yet (`addSource`), then `log`" —
  `TraceOk` only demands that a `log` uses an id that some `addSource` has already returned,
  which is what the per-call-site atomic id guarantees in any interleaving (an id can be read from
  the static only after the store that follows registration).  Two threads hitting the same
  statement for the first time are two `addSource` steps returning two distinct ids.
  `consume` may run at any point of the trace with any oracle values (stale reads included).
-/
namespace BinlogVerif.C03
open BinlogVerif BinlogVerif.Sess

/-- what `SelfContained` means, in plain terms: an event at any position of the output is preceded
    by the source entry with its id and by a clock sync -/
theorem selfContained_spec_aux (st st' : ScanSt) (l : List Entry) (h : scan st l = some st')
    (pre post : List Entry) (sid clock : Nat) (args : Bytes) (hl : l = pre ++ Entry.event sid clock args :: post) :
    (sid ∈ st.defined ∨ sid ∈ srcIds pre) ∧ (st.hasCS = true ∨ hasCSIn pre = true) := by
  induction pre generalizing st l with
  | nil =>
    subst hl
    simp only [List.nil_append, scan, scanStep] at h
    by_cases hc : sid ∈ st.defined ∧ st.hasCS = true
    · exact ⟨.inl hc.1, .inl hc.2⟩
    · simp [hc] at h
  | cons e es ih =>
    subst hl
    simp only [List.cons_append, scan] at h
    cases hs : scanStep st e with
    | none => simp [hs] at h
    | some st1 =>
      simp only [hs] at h
      have := ih st1 _ h rfl
      cases e with
      | source src =>
        simp only [scanStep] at hs
        injection hs with hs; subst hs
        simp only [List.mem_cons] at this
        refine ⟨?_, ?_⟩
        · rcases this.1 with (h1 | h1) | h1
          · right; simp [srcIds, h1]
          · exact .inl h1
          · right; simp only [srcIds, List.filterMap_cons]; exact List.mem_cons_of_mem _ h1
        · rcases this.2 with h1 | h1
          · exact .inl h1
          · right; simpa [hasCSIn] using h1
      | clockSync cs =>
        simp only [scanStep] at hs
        injection hs with hs; subst hs
        exact ⟨by simpa [srcIds] using this.1, .inr (by simp [hasCSIn])⟩
      | writerProp wp =>
        simp only [scanStep] at hs
        injection hs with hs; subst hs
        exact ⟨by simpa [srcIds] using this.1, by simpa [hasCSIn] using this.2⟩
      | event a b c =>
        simp only [scanStep] at hs
        split at hs
        · injection hs with hs; subst hs
          exact ⟨by simpa [srcIds] using this.1, by simpa [hasCSIn] using this.2⟩
        · cases hs

theorem selfContained_spec (l : List Entry) (h : SelfContained l)
    (pre post : List Entry) (sid clock : Nat) (args : Bytes) (hl : l = pre ++ Entry.event sid clock args :: post) :
    (∃ src, Entry.source src ∈ pre ∧ src.id = sid) ∧ (∃ cs, Entry.clockSync cs ∈ pre) := by
  unfold SelfContained at h
  cases hs : scan {} l with
  | none => simp [hs] at h
  | some st' =>
    obtain ⟨h1, h2⟩ := selfContained_spec_aux {} st' l hs pre post sid clock args hl
    constructor
    · rcases h1 with h1 | h1
      · simp at h1
      · simp only [srcIds, List.mem_filterMap] at h1
        obtain ⟨e, he, hm⟩ := h1
        cases e <;> simp at hm
        rename_i src
        exact ⟨src, he, hm⟩
    · rcases h2 with h2 | h2
      · simp at h2
      · simp only [hasCSIn, List.any_eq_true] at h2
        obtain ⟨e, he, hm⟩ := h2
        cases e <;> simp at hm
        rename_i cs
        exact ⟨cs, he⟩

/-- **C03 — every event is preceded by its source entry and by a clock sync**, in every output
    (the first one and every one created by a rotation), in every reachable state, for every
    interleaving of registrations, log calls and consumes and every consume oracle. -/
theorem c03_source_before_event (cs : ClockSync) (ops : List Op) (s : Session)
    (hok : TraceOk (init cs) ops) (hrun : exec (init cs) ops = some s) :
    ∀ o ∈ s.outputs, ∀ pre post sid clock args, o.flatten = pre ++ Entry.event sid clock args :: post →
      (∃ src, Entry.source src ∈ pre ∧ src.id = sid) ∧ (∃ c, Entry.clockSync c ∈ pre) := by
  have h := metaInv_exec cs ops s hok hrun
  intro o ho pre post sid clock args hl
  have hsc : SelfContained o.flatten := by
    by_cases hlast : o ∈ s.outputs.dropLast
    · exact h.older o hlast
    · have hne := h.outs_ne
      have hsplit := List.dropLast_concat_getLast hne
      rw [← hsplit] at ho
      simp only [List.mem_append, List.mem_singleton] at ho
      cases ho with
      | inl h' => exact absurd h' hlast
      | inr h' =>
        obtain ⟨st, hst, _, _⟩ := h.cur
        unfold SelfContained
        have : curEntries s = o.flatten := by
          simp [curEntries, List.getLast?_eq_some_getLast hne, h']
        rw [← this, hst]; rfl
  exact selfContained_spec _ hsc pre post sid clock args hl

/-- **Source ids handed out by one session are pairwise distinct** (and are 1, 2, 3, …). -/
theorem c03_ids_distinct (cs : ClockSync) (ops : List Op) (s : Session)
    (hok : TraceOk (init cs) ops) (hrun : exec (init cs) ops = some s) :
    (srcIds s.sources).Nodup ∧ srcIds s.sources = List.range' 1 (s.nextSourceId - 1) := by
  have h := metaInv_exec cs ops s hok hrun
  refine ⟨?_, h.src_ids⟩
  rw [h.src_ids]
  exact List.nodup_range'

/-- **Each source is written once per output**: the source entries of the current output are
    exactly the consumed prefix of the registered sources, in registration order, each once. -/
theorem c03_each_source_once (cs : ClockSync) (ops : List Op) (s : Session)
    (hok : TraceOk (init cs) ops) (hrun : exec (init cs) ops = some s) :
    (curEntries s).filter isSource = s.sources.take s.sourcesConsumed ∧
    (srcIds ((curEntries s).filter isSource)).Nodup := by
  have h := metaInv_exec cs ops s hok hrun
  refine ⟨h.once, ?_⟩
  rw [h.once]
  have hd := (c03_ids_distinct cs ops s hok hrun).1
  rw [← srcIds_take_drop s.sources s.sourcesConsumed] at hd
  exact (List.nodup_append.mp hd).1

/-! Non-vacuity: two threads register the same statement twice (ids 1 and 2), both log, a consume
    runs in between and sees only part of the second writer's queue. -/
def exOps : List Op := [.createWriter 1 0 [], .createWriter 2 0 [], .addSource {}, .addSource {},
  .log 1 1 10 [] true, .consume [⟨false, 1, 0⟩, ⟨false, 0, 0⟩], .log 2 2 11 [] true, .log 2 1 12 [] true,
  .consume [⟨false, 5, 0⟩, ⟨false, 1, 0⟩], .rotate, .consume [⟨false, 5, 0⟩, ⟨false, 5, 0⟩]]

example : TraceOk (init {}) exOps := by
  simp [exOps, TraceOk, OpOk, step, init, lookupWriter, newChan, setWriter, updChan, consume, reconsumeMetadata, emitAll]

example : (exec (init {}) exOps).isSome = true := by decide

end BinlogVerif.C03
