import BinlogVerif.Lemmas.VisitRecorder
import BinlogVerif.Lemmas.TagResolve
import BinlogVerif.Lemmas.TagOccur
import BinlogVerif.Lemmas.SpecSingular
/-
  C06 — Type tag and visitation agree with serialization.

  For every type `t` of the universe `Ty` whose names are "plain" (`TyOk`, see
  `Lemmas/TagDefs.lean`) the tag string `tag t` is self-delimiting for the tag utilities of
  `mserialize` (`tag_first_size`/`tag_pop`), the argument tag of a log statement splits back into the
  tags of the arguments, and `mserialize::visit` driven by that tag string over the documented
  encoding of a value `v : t` makes exactly the callbacks `events t v` and consumes exactly
  `encode t v`.

  Side conditions (all decidable except `EmptyStructsOk`, which has the decidable sufficient
  condition `noStructDef`):
   * `NameOk`: STRICT — a name contains none of `( ) < > { } [ ] / \ ` '`.  Names with balanced
     brackets (template-ids like `Foo<int>`) are NOT covered by these proofs.
   * `TyOk`: names `NameOk`, arithmetic tag chars valid, enumerator values non-empty over `0-9A-F-`,
     at most 255 alternatives, `null` only directly below a variant.
   * `depth t < maxRec` (the C++ recursion budget, 2048 at top level).
   * `EmptyStructsOk full t`: a struct with zero fields has the tag `{name}`, which the C++ cannot
     distinguish from a recursive REFERENCE to a struct `name`; it looks the name up in the full tag.
     If the full tag contains a definition `{name`field'...}` the empty struct is visited (and
     reported singular or not) as if it were that struct.  See PROGRESS.md for the counterexample.
-/
namespace BinlogVerif.C06
open BinlogVerif BinlogVerif.Tag BinlogVerif.Visit BinlogVerif.Mser

/-! ### 1. the tag of a type is self-delimiting -/

theorem c06_tag_first_size (t : Ty) (rest : Bytes) (h : TyOk t = true) (_ht : t ≠ .null ∨ true) :
    Tag.tagFirstSize (tag t ++ rest) = (tag t).length :=
  tagFirstSize_tag t (TyOkN.of_tyOk h) rest

/-- also for the `null` alternative (tag `0`) -/
theorem c06_tag_first_size_null (rest : Bytes) :
    Tag.tagFirstSize (tag .null ++ rest) = (tag .null).length :=
  tagFirstSize_tag .null rfl rest

theorem c06_tag_pop (t : Ty) (rest : Bytes) (h : TyOk t = true) :
    Tag.tagPop (tag t ++ rest) = (tag t, rest) :=
  tagPop_tag t (TyOkN.of_tyOk h) rest

/-! ### 2. the argument tags of a log statement split into the tags of the arguments -/

/-- pop tags until the string is empty (or the fuel runs out): the popped tags and what is left -/
def splitAll : Nat → Bytes → List Bytes × Bytes
  | 0, s => ([], s)
  | fuel + 1, s =>
    if s.isEmpty then ([], s) else
    let (a, r) := Tag.tagPop s
    let (as, r') := splitAll fuel r
    (a :: as, r')

theorem c06_split_args (ts : List Ty) (h : ∀ t ∈ ts, TyOk t = true) (fuel : Nat) (hf : ts.length < fuel) :
    splitAll fuel (tagList ts) = (ts.map tag, []) := by
  induction ts generalizing fuel with
  | nil =>
    cases fuel with
    | zero => omega
    | succ f => simp [splitAll, tagList_nil]
  | cons t ts ih =>
    cases fuel with
    | zero => omega
    | succ f =>
      have hne : (tag t ++ tagList ts).isEmpty = false := by
        have := tag_ne_nil t
        cases ht : tag t with
        | nil => exact absurd ht this
        | cons _ _ => rfl
      rw [tagList_cons, splitAll, hne]
      simp only [Bool.false_eq_true, if_false, tagPop_tag t (TyOkN.of_tyOk (h t (by simp))),
        ih (fun x hx => h x (by simp [hx])) f (by simpa using hf), List.map_cons]

/-! ### 3. visitation agrees with the value -/

/-- `visit_impl` with the recording visitor, any full tag for which the empty structs of `t` do not
    resolve, any accumulated events, any trailing input -/
theorem c06_visit_agrees (full : Bytes) (t : Ty) (v : Val) (rest : Bytes) (maxRec : Nat)
    (hok : TyOk t = true) (hv : hasTy t v = true) (hd : depth t < maxRec)
    (hes : EmptyStructsOk full t) (acc : List Ev) :
    Visit.visitImpl recorder full maxRec (tag t) acc (encode t v ++ rest)
      = .ok (acc ++ events t v, rest) :=
  visit_tag full t v maxRec acc rest hok hv hd hes

/-- top level: `mserialize::visit(tag, recorder, encode(v))` -/
theorem c06_visit_top (t : Ty) (v : Val) (rest : Bytes)
    (hok : TyOk t = true) (hv : hasTy t v = true) (hd : depth t < 2048)
    (hes : EmptyStructsOk (tag t) t) :
    Visit.visit recorder (tag t) [] (encode t v ++ rest) = .ok (events t v, rest) := by
  have := c06_visit_agrees (tag t) t v rest 2048 hok hv hd hes []
  simpa [Visit.visit] using this

/-- `singular(full, tag e, maxRec)` decides `singularTy`, singular types are encoded in 0 bytes -/
theorem c06_singular (full : Bytes) (t : Ty) (maxRec : Nat) (hok : TyOk t = true) (hd : depth t < maxRec)
    (hes : EmptyStructsOk full t) :
    Tag.singular full (tag t) maxRec = .ok (singularTy t) :=
  singular_tag full t maxRec (TyOkN.of_tyOk hok) hd hes

theorem c06_singular_encode (t : Ty) (v : Val) (h : singularTy t = true) : encode t v = [] :=
  encode_singular t v h

/-- all values of a singular type demand the same callbacks: visiting one element of a repeated
    singular element (as `visit_sequence` does, and as `events` specifies with the first element) is
    right for every element -/
theorem c06_singular_events_const (t : Ty) (v v' : Val) (hs : singularTy t = true)
    (hv : hasTy t v = true) (hv' : hasTy t v' = true) : events t v = events t v' :=
  events_singular t v v' hs hv hv'

/-! ### 4. exactly the encoding is consumed -/

theorem c06_consumes_exactly (t : Ty) (v : Val) (rest : Bytes)
    (hok : TyOk t = true) (hv : hasTy t v = true) (hd : depth t < 2048)
    (hes : EmptyStructsOk (tag t) t) :
    (Visit.visit recorder (tag t) [] (encode t v ++ rest)).map (·.2) = .ok rest := by
  rw [c06_visit_top t v rest hok hv hd hes]; rfl

/-! ### `EmptyStructsOk`: sufficient conditions -/

/-- no zero-field struct at all -/
theorem c06_emptyStructsOk_of_none (full : Bytes) (t : Ty) (h : NoEmptyStruct t) : EmptyStructsOk full t :=
  EmptyStructsOk.of_noEmptyStruct full t h

/-- the full tag contains no DEFINITION `{n`…` for the names `n` of the zero-field structs of `t` -/
theorem c06_emptyStructsOk_of_noStructDef (full : Bytes) (t : Ty)
    (h : (emptyStructNames t).all (noStructDef full) = true) : EmptyStructsOk full t :=
  emptyStructsOk_of_noStructDef full t h

/-- at the level of types: no zero-field struct of `t` has the name of a struct WITH fields occurring in
    the type `tTop` whose tag is the full tag (`defNames`).  (A struct name that is a proper prefix of
    another struct name is harmless: the lookup continues.) -/
theorem c06_emptyStructsOk_of_names (tTop t : Ty) (hTop : TyOk tTop = true) (ht : TyOk t = true)
    (h : ∀ n ∈ emptyStructNames t, n ∉ defNames tTop) : EmptyStructsOk (tag tTop) t :=
  emptyStructsOk_of_names tTop t hTop ht h

/-- top level, with decidable hypotheses only -/
theorem c06_visit_top' (t : Ty) (v : Val) (rest : Bytes)
    (hok : TyOk t = true) (hv : hasTy t v = true) (hd : depth t < 2048)
    (hnames : ∀ n ∈ emptyStructNames t, n ∉ defNames t) :
    Visit.visit recorder (tag t) [] (encode t v ++ rest) = .ok (events t v, rest) :=
  c06_visit_top t v rest hok hv hd (c06_emptyStructsOk_of_names t t hok hok hnames)

/-! ### the hypotheses are satisfiable -/

/-- `struct S { xs: [i]; o: <0 l>; e: enum E:i {A=0,B=1}; m: struct Em {}; r: [()] }` -/
def exT : Ty :=
  .struct [83] [
    ([120, 115], .seq (.arith 105)),
    ([111], .var [.null, .arith 108]),
    ([101], .enum 105 [69] [([48], [65]), ([49], [66])]),
    ([109], .struct [69, 109] []),
    ([114], .seq (.tup []))]

/-- `S{ xs = [1,2], o = 5, e = B, m = Em{}, r = 40 × () }` (the last field takes the repeat branch) -/
def exV : Val :=
  .tup [.seq [.num 1, .num 2], .alt 1 (.num 5), .num 1, .tup [], .seq (List.replicate 40 (.tup []))]

example : TyOk exT = true := by decide
example : depth exT < 2048 := by decide
example : hasTy exT exV = true := by
  simp [exT, exV, hasTy, hasTyFields, hasTyAll, hasTyNth, hasTyList, arithSize, List.replicate]
example : emptyStructNames exT = [[69, 109]] := by decide
example : EmptyStructsOk (tag exT) exT := c06_emptyStructsOk_of_noStructDef _ _ (by decide)
example : EmptyStructsOk (tag exT) exT := c06_emptyStructsOk_of_names exT exT (by decide) (by decide) (by decide)

example : Visit.visit recorder (tag exT) [] (encode exT exV) = .ok (events exT exV, []) := by
  have := c06_visit_top exT exV [] (by decide)
    (by simp [exT, exV, hasTy, hasTyFields, hasTyAll, hasTyNth, hasTyList, arithSize, List.replicate])
    (by decide) (c06_emptyStructsOk_of_noStructDef _ _ (by decide))
  simpa using this

/-- the argument tags `i [c {Em}` of a three-argument log statement split into the three tags -/
example : splitAll 4 (tagList [.arith 105, .seq (.arith 99), .struct [69, 109] []])
    = ([[105], [91, 99], [123, 69, 109, 125]], []) := by
  have := c06_split_args [.arith 105, .seq (.arith 99), .struct [69, 109] []]
    (by intro t ht; simp only [List.mem_cons, List.not_mem_nil, or_false] at ht
        rcases ht with rfl | rfl | rfl <;> decide) 4 (by decide)
  rw [this]; decide

end BinlogVerif.C06
