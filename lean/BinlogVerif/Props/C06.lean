import BinlogVerif.Mser.Spec
/-
  C06 — Type tag and visitation agree with serialization.  (theorems under construction)
-/
namespace BinlogVerif.C06
open BinlogVerif BinlogVerif.Mser

end BinlogVerif.C06
