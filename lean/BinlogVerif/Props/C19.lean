import BinlogVerif.Conc.Macro
/-
  C19 — Severity control: disabled statements produce nothing and evaluate nothing.
-/
namespace BinlogVerif.C19
open BinlogVerif BinlogVerif.Macro

/-- **Disabled**: a statement below the session's current minimum produces no event, registers no
    source and evaluates none of its arguments — the whole state is unchanged. -/
theorem c19_disabled (s : St) (st : Stmt) (h : st.severity < s.minOf st.session) : step s (.stmt st) = s := by
  have : ¬ st.severity ≥ s.minOf st.session := by omega
  simp [step, this]

/-- **Enabled**: a statement at or above the minimum produces exactly one event, evaluates each
    argument (once; twice on the first execution of the call site, which also computes the argument
    tags from them), and registers its source iff this call site has not been registered. -/
theorem c19_enabled (s : St) (st : Stmt) (h : st.severity ≥ s.minOf st.session) :
    (step s (.stmt st)).events = s.events + 1 ∧
    (step s (.stmt st)).evals = s.evals + (if s.registered.contains st.site then st.nargs else 2 * st.nargs) ∧
    (step s (.stmt st)).sources = s.sources + (if s.registered.contains st.site then 0 else 1) ∧
    (step s (.stmt st)).registered.contains st.site = true := by
  simp only [step, h, if_true]
  cases hc : s.registered.contains st.site
  · simp
  · have : st.site ∈ s.registered := by simpa using hc
    simp [this]

/-- **A change of the minimum takes effect for every later statement** of that session and leaves
    other sessions alone. -/
theorem c19_takes_effect (s : St) (session sev : Nat) :
    (step s (.setMin session sev)).minOf session = sev ∧
    ∀ other, other ≠ session → (step s (.setMin session sev)).minOf other = s.minOf other := by
  constructor
  · simp [step, St.minOf]
  · intro other ho
    simp only [step, St.minOf, List.find?_cons]
    have h1 : ((session == other) = false) := by simp; exact fun h => ho h.symm
    simp only [h1]
    congr 2
    induction s.minSeverity with
    | nil => rfl
    | cons a as ih =>
      simp only [List.filter_cons]
      by_cases ha : a.1 = session
      · have hf : (a.1 == other) = false := by rw [ha]; exact h1
        simp only [bne_iff_ne, ne_eq, ha, not_true_eq_false, if_false, List.find?_cons]
        rw [ha] at hf
        simp only [hf]
        exact ih
      · simp only [bne_iff_ne, ne_eq, ha, not_false_eq_true, if_true, List.find?_cons]
        cases a.1 == other <;> simp [ih]

/-- number of statements of a history that are enabled when they run -/
def enabledCount : St → List Op → Nat
  | _, [] => 0
  | s, op :: ops =>
    (match op with
      | .stmt st => if st.severity ≥ s.minOf st.session then 1 else 0
      | _ => 0) + enabledCount (step s op) ops

/-- **Over a whole history** of minimum-severity changes and statements of any severity, family and
    writer: the number of events produced is exactly the number of statements that were at or
    above the minimum in force when they ran. -/
theorem c19_history (s : St) (ops : List Op) : (exec s ops).events = s.events + enabledCount s ops := by
  induction ops generalizing s with
  | nil => simp [exec, enabledCount]
  | cons op ops ih =>
    have hexec : exec s (op :: ops) = exec (step s op) ops := by simp [exec]
    rw [hexec, ih]
    cases op with
    | setMin a b => simp [step, enabledCount]
    | stmt st =>
      by_cases h : st.severity ≥ s.minOf st.session
      · have := (c19_enabled s st h).1
        simp only [enabledCount, h, if_true]
        omega
      · have h' : st.severity < s.minOf st.session := by omega
        rw [c19_disabled s st h']
        simp only [enabledCount, h, if_false]
        rw [c19_disabled s st h']
        omega

/-- the 24 macro names, four families for each of the six severities -/
theorem c19_families : macroTable.length = 24 ∧
    (macroTable.map (·.2.1)).eraseDups = [32, 64, 128, 256, 512, 1024] := by decide

/-! Non-vacuity -/
example : (exec {} [.stmt ⟨1, 0, 128, 2⟩, .setMin 0 512, .stmt ⟨1, 0, 128, 2⟩, .stmt ⟨2, 0, 512, 1⟩, .stmt ⟨3, 1, 32, 3⟩]) =
    { minSeverity := [(0, 512)], registered := [3, 2, 1], events := 3, sources := 3, evals := 12 } := by decide

end BinlogVerif.C19
