import BinlogVerif.Lemmas.ImageSession
import BinlogVerif.Lemmas.ImageInert
import BinlogVerif.Lemmas.ImageJunk
import BinlogVerif.Lemmas.ImageSessions
/-
  C08 — Crash recovery.

  "From a memory image of the process taken at any instant, the recovery tool produces a well-formed
  log which, together with what had already been written to the output, contains every event whose
  add/log call had completed, each printable (its event source and a clock sync precede it in the
  recovered log).  The recovered log contains no event that was never committed or only partially
  written, and events recovered from one queue keep their order."

  Models.  The tool: `Recovery.recover` (Reader/Recovery.lean), the executable model of
  bin/brecovery.cpp on arbitrary bytes.  The image: Conc/Image.lean — `(filler, block)` pairs in
  memory order plus trailing filler (`Image.flat`); a block (`Image.Piece`) is a metadata block that
  carries the magic (`metaOn`), a queue (`chan`, with or without magic), or any block whose magic is
  zero (`off`).  `MetaState` enumerates what a `RecoverableVectorOutputStream` looks like at ANY
  instant (append in flight, growth in flight, after the two fixes recorded for C08); `ChanImage.Ok`
  is what C01 + C04 give for a queue at any instant.  The session: Conc/Session.lean (L1), whose
  states are the instants between linearisation points: `addEventSource`/`setClockSync` linearise at
  the store to the size field of the stream, `log` at the store to the queue's write index,
  `consume` at the write to the output.  An image taken while such a call is in flight shows the
  state before its linearisation point (metadata: `MetaState.inserted`) or, for a consume that has
  written but not yet released, the state after it with the released-late events still in the
  queue (`pre` of `Image.Item.chan`).

  HYPOTHESES that had to be added (each is stated where it is used):
   H1 `ImageOk` / `ImageOkF` — no magic number starts anywhere in the image except at the start of a
      block that carries one.  It is needed for (i) fillers, (ii) blocks whose magic is zero (their
      eight zero bytes are harmless, the rest of such a block is ordinary log data), (iii) the
      bytes behind the size field of a metadata block (`extra`): the tool continues scanning right
      behind the `size` bytes it consumed, i.e. INSIDE the unused capacity, where the bytes of an
      entry being inserted live.  Finest form `NoMagicIn` (no position starts a magic number, also
      not straddling into what follows); simple form `FillerOk` (no byte 0xBC).  TRUSTED BASE: the
      model cannot exclude that process memory or logged data contains a magic number followed by a
      plausible header; if it does, the tool collects a spurious buffer (C20 still guarantees that
      it consists of whole entries).  A queue's buffer and the counted part of a metadata buffer need
      NO such hypothesis: the tool jumps over them.
      WEAKEST FORM (theorems `…_inert`, hypothesis `ImageOkI`): real images DO contain stale copies of
      the magic numbers (a local variable in a dead stack frame, …) followed by garbage; the tool
      copes because it rejects the candidate and resumes behind the 8 magic bytes.  `Inert f rest`:
      at every position of `f` either no magic number starts or the candidate behind it is rejected
      (`readMetadata … = none` / `readData … = .ok none`).  All theorems hold under `ImageOkI`; the
      `ImageOk` versions are corollaries.  No "no straddling" side condition is needed: a rejected
      magic number cannot run into the magic number of a following block (`exp_jump_meta/data`).
   H2 64-bit fields: session id, metadata size, queue capacity `< 2^64`; payloads `< 2^32` (`PayloadOk`).
   H3 `ChanImage.Ok` — C01 + C04 for the queue indices/buffer in the image.
   H4 theorems 2 (explicit form) and 4 are for one session id (`std::sort` on buffers of one session
      is a stable partition by type; with > 16 buffers `std::sort` is not stable — the model's
      `mergeSort` is, see Recovery.lean).
      Theorems 5 and 6 lift this for the explicit form: with any number of live sessions the output is one
      segment per session in increasing session order (`c08_sessions_sorted`), and — the event source ids
      of different sessions overlap, each counts from 1 — every segment reads as it reads alone
      (`c08_two_sessions`, `Image.expectedItems_after`).
   H5 theorem 4: `Represents` — at least one block of each metadata stream carries the magic
      (true in every `MetaState`: `represents_of_states`), every channel that holds entries has its
      queue (with magic) in the image, queues hold `pre ++ entries` with `pre` accepted earlier.
-/
namespace BinlogVerif.C08
open BinlogVerif BinlogVerif.Recovery BinlogVerif.Image BinlogVerif.Sess BinlogVerif.E2E

/-! ### 1. the scan finds exactly the blocks that carry a magic -/

/-- **C08.1 (weakest hypothesis: junk magic numbers allowed).**  On an image made of fillers and
    blocks in which the tool accepts no block at any position outside the blocks that carry a magic
    (stale magic numbers followed by a rejected candidate may occur anywhere in fillers, unused
    capacity and blocks without magic), the scan returns exactly, in image order, one buffer per
    block that carries a magic.  In particular no block is skipped when the scan resumes 8 bytes
    behind a rejected magic number. -/
theorem c08_scan_blocks_inert (img : List (Bytes × Piece)) (t : Bytes) (h : ImageOkI img t)
    (fuel : Nat) (hf : (flat img t).length < fuel) :
    scan fuel (flat img t) = .ok (img.filterMap (·.2.recovered)) := by
  rw [scan_eq_scanAll fuel _ hf]
  exact scanAll_image_inert img t h

/-- **C08.1 (finest hypothesis).**  On an image made of fillers and blocks, with no magic number
    anywhere but at the start of the blocks that carry one, the scan (with any fuel exceeding the
    image length — `recover` uses length + 1) returns exactly, in image order, one buffer per block
    that carries a magic: `⟨metadata, session, frames committed⟩` for a metadata block,
    `⟨data, session, frames pending⟩` for a queue (`Image.expected`, `Piece.recovered`). -/
theorem c08_scan_blocks (img : List (Bytes × Piece)) (t : Bytes) (h : ImageOk img t)
    (fuel : Nat) (hf : (flat img t).length < fuel) :
    scan fuel (flat img t) = .ok (img.filterMap (·.2.recovered)) :=
  c08_scan_blocks_inert img t (imageOkI_of_imageOk h) fuel hf

/-- **C08.1 (simple hypothesis).**  The same when fillers, the bytes behind the size field of
    metadata blocks, and blocks without magic do not contain the byte 0xBC. -/
theorem c08_scan_blocks_filler (img : List (Bytes × Piece)) (t : Bytes) (h : ImageOkF img t)
    (fuel : Nat) (hf : (flat img t).length < fuel) :
    scan fuel (flat img t) = .ok (img.filterMap (·.2.recovered)) :=
  c08_scan_blocks img t (imageOk_of_okF img t h) fuel hf

/-- what the blocks of a metadata stream contribute, in every state: one buffer with the committed
    entries per block that carries the magic — BOTH blocks while growing with both magics set -/
theorem c08_meta_state_buffers (st : MetaState) (sess : Nat) :
    (st.pieces sess).filterMap Piece.recovered
      = List.replicate st.live ⟨.metadata, sess, frames st.committed⟩ := by
  cases st <;> rfl

/-- the blocks of a stream, spelled out -/
theorem c08_meta_state_blocks (st : MetaState) (sess : Nat) :
    st.blocks sess = match st with
      | .stable es slack => [metaBlock true sess (frames es).length (frames es ++ slack)]
      | .inserted es extra => [metaBlock true sess (frames es).length (frames es ++ extra)]
      | .growingNoMagic es slackOld n c =>
        [metaBlock true sess (frames es).length (frames es ++ slackOld), metaBlock false sess n c]
      | .growingBoth es a b =>
        [metaBlock true sess (frames es).length (frames es ++ a), metaBlock true sess (frames es).length (frames es ++ b)]
      | .growingOldCleared es a b =>
        [metaBlock false sess (frames es).length (frames es ++ a), metaBlock true sess (frames es).length (frames es ++ b)] := by
  cases st <;> rfl

/-- the pieces of a stream satisfy the side conditions of C08.1 when the stream is `Ok`, the session
    id is 64-bit, and the looked-into parts (unused capacity, blocks without magic) have no 0xBC -/
theorem c08_meta_state_ok (st : MetaState) (sess : Nat) (hst : st.Ok) (hs : sess < 2 ^ 64)
    (hfill : ∀ p ∈ st.pieces sess, match p with
      | .metaOn _ _ extra => FillerOk extra
      | .off bs => FillerOk bs
      | .chan _ _ => True) :
    ∀ p ∈ st.pieces sess, p.OkF := by
  intro p hp
  have hf := hfill p hp
  cases st <;> simp only [MetaState.pieces, List.mem_cons, List.not_mem_nil, or_false] at hp
  all_goals (first
    | (subst hp; exact ⟨hs, hst.2, hst.1, hf⟩)
    | (rcases hp with rfl | rfl <;> first | exact ⟨hs, hst.2, hst.1, hf⟩ | exact hf))

/-! ### 2. what the tool writes -/

/-- **C08.2 (any sessions, junk magic numbers allowed).**  The tool does not fail and writes the
    expected buffers, sorted by (session, type), concatenated. -/
theorem c08_recovered_sorted_inert (img : List (Bytes × Piece)) (t : Bytes) (h : ImageOkI img t) :
    recover (flat img t) = .ok (((expected img).mergeSort bufLe).map (·.buffer)).flatten := by
  unfold recover
  rw [c08_scan_blocks_inert img t h _ (Nat.lt_succ_self _)]
  rfl

/-- **C08.2 (one session, junk magic numbers allowed).**  The tool writes: the committed entries of
    every metadata block that carries the magic (blocks in image order), then the
    committed-but-unreleased entries of every queue that carries the magic (queues in image order)
    — as one well-formed stream of entries. -/
theorem c08_recovered_content_inert (img : List (Bytes × Piece)) (t : Bytes) (h : ImageOkI img t)
    (sess : Nat) (hone : ∀ b ∈ expected img, b.session = sess) :
    recover (flat img t) = .ok (frames (metaPayloads img ++ chanPayloads img)) := by
  rw [c08_recovered_sorted_inert img t h, mergeSort_one_session _ sess hone, List.map_append, List.flatten_append,
    meta_buffers, chan_buffers, frames_append]

/-- **C08.2 (any sessions)**, hypothesis `ImageOk` -/
theorem c08_recovered_sorted (img : List (Bytes × Piece)) (t : Bytes) (h : ImageOk img t) :
    recover (flat img t) = .ok (((expected img).mergeSort bufLe).map (·.buffer)).flatten :=
  c08_recovered_sorted_inert img t (imageOkI_of_imageOk h)

/-- **C08.2 (one session)**, hypothesis `ImageOk` -/
theorem c08_recovered_content (img : List (Bytes × Piece)) (t : Bytes) (h : ImageOk img t)
    (sess : Nat) (hone : ∀ b ∈ expected img, b.session = sess) :
    recover (flat img t) = .ok (frames (metaPayloads img ++ chanPayloads img)) :=
  c08_recovered_content_inert img t (imageOkI_of_imageOk h) sess hone

/-- **C08.2 with accepted empty junk.**  Real images also contain junk magic numbers behind which the
    tool ACCEPTS a block with an EMPTY buffer (a stale metadata magic number followed by a pointer
    and eight zero bytes: size 0).  Under `ImageOkE` (`InertE`: such junk lies inside fillers, unused
    capacity or blocks without magic) the scan returns the expected buffers interleaved with empty
    ones — which carry arbitrary session ids and sit anywhere in the sorted list — and the bytes
    written are exactly those of C08.2: the stable sort commutes with dropping empty buffers
    (`mergeSort_filter`). -/
theorem c08_recovered_output_junk (img : List (Bytes × Piece)) (t : Bytes) (h : ImageOkE img t) :
    ∃ bufs, Recovery.scan ((flat img t).length + 1) (flat img t) = .ok bufs ∧
      bufs.filter (fun b => !b.buffer.isEmpty) = (expected img).filter (fun b => !b.buffer.isEmpty) ∧
      recover (flat img t) = .ok (((expected img).mergeSort bufLe).map (·.buffer)).flatten := by
  obtain ⟨out, hE, hfil⟩ := exp_of_imageOkE img t h
  have hscan : scan ((flat img t).length + 1) (flat img t) = .ok out := scanAll_of_exp _ _ hE
  refine ⟨out, hscan, hfil, ?_⟩
  unfold recover
  rw [hscan]
  simp only
  rw [sorted_output_congr out (expected img) hfil]

/-- consequently C08.3 also holds with accepted empty junk -/
theorem c08_no_uncommitted_junk (img : List (Bytes × Piece)) (t : Bytes) (h : ImageOkE img t) (out : Bytes)
    (hout : recover (flat img t) = .ok out) :
    ∃ ps, out = frames ps ∧ ∀ p ∈ ps, p ∈ metaPayloads img ∨ p ∈ chanPayloads img := by
  rw [(c08_recovered_output_junk img t h).choose_spec.2.2] at hout
  injection hout with hout
  subst hout
  have hall : ∀ b ∈ (expected img).mergeSort bufLe, ∃ ps, b.buffer = frames ps ∧
      ∀ p ∈ ps, p ∈ metaPayloads img ∨ p ∈ chanPayloads img :=
    fun b hb => expected_payloads' img b (List.mem_mergeSort.mp hb)
  generalize (expected img).mergeSort bufLe = sorted at hall
  induction sorted with
  | nil => exact ⟨[], rfl, by simp⟩
  | cons b bs ih =>
    obtain ⟨ps1, e1, m1⟩ := hall b (by simp)
    obtain ⟨ps2, e2, m2⟩ := ih (fun x hx => hall x (by simp [hx]))
    refine ⟨ps1 ++ ps2, by rw [List.map_cons, List.flatten_cons, e1, e2, frames_append], ?_⟩
    intro p hp
    cases List.mem_append.mp hp with
    | inl h => exact m1 p h
    | inr h => exact m2 p h

/-! ### 3. nothing torn, nothing uncommitted -/

/-- **C08.3.**  Whatever the sessions: the output is a whole number of entries (`clean`), and every
    entry in it is an entry counted by the size field of a metadata block that carries the magic,
    or a committed, unreleased entry of a queue that carries the magic.  In particular the bytes of
    an entry being inserted (`MetaState.inserted … extra`), a block under construction, and the
    part of a queue buffer outside `[R, W)` contribute nothing. -/
theorem c08_no_uncommitted_inert (img : List (Bytes × Piece)) (t : Bytes) (h : ImageOkI img t) (out : Bytes)
    (hout : recover (flat img t) = .ok out) :
    (splitEntries out).2.2 = .clean ∧
    ∀ p ∈ (splitEntries out).1, p ∈ metaPayloads img ∨ p ∈ chanPayloads img := by
  rw [c08_recovered_sorted_inert img t h] at hout
  injection hout with hout
  subst hout
  have hall : ∀ b ∈ (expected img).mergeSort bufLe, ∃ ps, b.buffer = frames ps ∧ (∀ p ∈ ps, PayloadOk p) ∧
      ∀ p ∈ ps, p ∈ metaPayloads img ∨ p ∈ chanPayloads img :=
    fun b hb => expected_payloads_inert img t h b (List.mem_mergeSort.mp hb)
  generalize (expected img).mergeSort bufLe = sorted at hall
  have key : ∃ ps, (sorted.map (·.buffer)).flatten = frames ps ∧ (∀ p ∈ ps, PayloadOk p) ∧
      ∀ p ∈ ps, p ∈ metaPayloads img ∨ p ∈ chanPayloads img := by
    induction sorted with
    | nil => exact ⟨[], rfl, by simp, by simp⟩
    | cons b bs ih =>
      obtain ⟨ps1, e1, o1, m1⟩ := hall b (by simp)
      obtain ⟨ps2, e2, o2, m2⟩ := ih (fun x hx => hall x (by simp [hx]))
      refine ⟨ps1 ++ ps2, ?_, ?_, ?_⟩
      · rw [List.map_cons, List.flatten_cons, e1, e2, frames_append]
      · intro p hp
        cases List.mem_append.mp hp with
        | inl h => exact o1 p h
        | inr h => exact o2 p h
      · intro p hp
        cases List.mem_append.mp hp with
        | inl h => exact m1 p h
        | inr h => exact m2 p h
  obtain ⟨ps, e, o, m⟩ := key
  rw [e, C12.splitEntries_frames ps o]
  exact ⟨rfl, m⟩

/-- **C08.3**, hypothesis `ImageOk` -/
theorem c08_no_uncommitted (img : List (Bytes × Piece)) (t : Bytes) (h : ImageOk img t) (out : Bytes)
    (hout : recover (flat img t) = .ok out) :
    (splitEntries out).2.2 = .clean ∧
    ∀ p ∈ (splitEntries out).1, p ∈ metaPayloads img ∨ p ∈ chanPayloads img :=
  c08_no_uncommitted_inert img t (imageOkI_of_imageOk h) out hout

/-- C08.3 for one session, explicit: the entries of the output are exactly these, in this order -/
theorem c08_recovered_entries_inert (img : List (Bytes × Piece)) (t : Bytes) (h : ImageOkI img t)
    (sess : Nat) (hone : ∀ b ∈ expected img, b.session = sess) :
    ∃ out, recover (flat img t) = .ok out ∧
      splitEntries out = (metaPayloads img ++ chanPayloads img, out.length, .clean) := by
  refine ⟨_, c08_recovered_content_inert img t h sess hone, ?_⟩
  apply C12.splitEntries_frames
  intro p hp
  exact payloads_ok_inert img t h p (List.mem_append.mp hp)

theorem c08_recovered_entries (img : List (Bytes × Piece)) (t : Bytes) (h : ImageOk img t)
    (sess : Nat) (hone : ∀ b ∈ expected img, b.session = sess) :
    ∃ out, recover (flat img t) = .ok out ∧
      splitEntries out = (metaPayloads img ++ chanPayloads img, out.length, .clean) :=
  c08_recovered_entries_inert img t (imageOkI_of_imageOk h) sess hone

/-! ### 4. complete and printable, relative to the session model -/

/-- **C08.4.**  Let `s` be a reachable state of the session model (any interleaving of operations,
    any stale reads of the consumer; `SyncTrace` as in C02), and let the image hold `s`
    (`Represents`; blocks in any order, any fillers, metadata streams in any `MetaState` — see
    `c08_complete_and_printable_states`).  Then the tool writes the serialisation of the entry list
    `recoveredLog s items`, which
     (b) is self-contained: every event in it is preceded by the event source with its id and by a
         clock sync — it is printable by `bread` (C09/C14);
     (c) contains, for every queue with the magic, its `pre ++ entries` as one contiguous run in
         queue order;
     (a) contains the unconsumed entries of every channel (contiguous, in order); hence, with C02,
         every event whose log call has completed is either already delivered to the output or in
         the recovered log. -/
theorem c08_complete_and_printable_inert (cs : ClockSync) (ops : List Op) (s : Session)
    (hok : SyncTrace (init cs) ops) (hrun : exec (init cs) ops = some s)
    (sess : Nat) (items : List (Bytes × Image.Item)) (t : Bytes)
    (himg : ImageOkI (toImage s sess items) t) (hrep : Represents s items) :
    recover (flat (toImage s sess items) t) = .ok (writeBytes (recoveredLog s items)) ∧
    SelfContained (recoveredLog s items) ∧
    (∀ x ∈ items, ∀ c pre ci, x.2 = Image.Item.chan c pre ci → ci.magicOn = true →
        (pre ++ c.entries) <:+: recoveredLog s items) ∧
    (∀ c ∈ s.channels, c.entries <:+: recoveredLog s items) ∧
    (∀ w e, e ∈ ofW w s.accepted → e ∈ ofW w s.delivered ∨ e ∈ recoveredLog s items) := by
  have hm := metaInv_exec cs ops s hok.traceOk hrun
  have ha := accValid_exec cs ops s hok.traceOk hrun
  have hc02 := (C02.c02_exactly_once_in_order cs ops s hok hrun).1
  refine ⟨?_, recoveredLog_selfContained s items hm ha hrep, ?_, ?_, ?_⟩
  · rw [c08_recovered_content_inert _ t himg sess (toImage_one_session s sess items), toImage_metaPayloads,
      toImage_chanPayloads s sess items (fun x hx c pre ci hit hmg => (hrep.chanOk x hx c pre ci hit hmg).2.1)]
    simp [writeBytes, recoveredLog]
  · intro x hx c pre ci hit hmg
    exact chan_infix s items x hx c pre ci hit hmg
  · intro c hc
    exact entries_infix s items hrep c hc
  · intro w e he
    exact accepted_delivered_or_recovered s items hrep hc02 w e he

/-- **C08.4**, hypothesis `ImageOk` -/
theorem c08_complete_and_printable (cs : ClockSync) (ops : List Op) (s : Session)
    (hok : SyncTrace (init cs) ops) (hrun : exec (init cs) ops = some s)
    (sess : Nat) (items : List (Bytes × Image.Item)) (t : Bytes)
    (himg : ImageOk (toImage s sess items) t) (hrep : Represents s items) :
    recover (flat (toImage s sess items) t) = .ok (writeBytes (recoveredLog s items)) ∧
    SelfContained (recoveredLog s items) ∧
    (∀ x ∈ items, ∀ c pre ci, x.2 = Image.Item.chan c pre ci → ci.magicOn = true →
        (pre ++ c.entries) <:+: recoveredLog s items) ∧
    (∀ c ∈ s.channels, c.entries <:+: recoveredLog s items) ∧
    (∀ w e, e ∈ ofW w s.accepted → e ∈ ofW w s.delivered ∨ e ∈ recoveredLog s items) :=
  c08_complete_and_printable_inert cs ops s hok hrun sess items t (imageOkI_of_imageOk himg) hrep

/-- **C08.4 with the metadata streams as `MetaState`s.**  The clock-sync stream is in ANY state
    `csSt` and the event-source stream in ANY state `srcSt` whose committed entries are those of `s`;
    the image consists, in any order, of their blocks and of `others` (queues, blocks without
    magic).  Its blocks are exactly `csSt.blocks ++ srcSt.blocks ++ others` (first conjunct) and all
    conclusions of C08.4 hold. -/
theorem c08_complete_and_printable_states_inert (cs : ClockSync) (ops : List Op) (s : Session)
    (hok : SyncTrace (init cs) ops) (hrun : exec (init cs) ops = some s)
    (sess : Nat) (csSt srcSt : MetaState) (others : List Image.Item) (items : List (Bytes × Image.Item)) (t : Bytes)
    (hcs : csSt.committed = s.clockSyncs.map Entry.payload) (hsrc : srcSt.committed = s.sources.map Entry.payload)
    (hperm : (items.map (·.2)).Perm (csSt.items Image.Item.clockSyncs sess ++ srcSt.items Image.Item.sources sess ++ others))
    (hchan : ∀ c pre ci, Image.Item.chan c pre ci ∈ others → ci.magicOn = true →
      (c ∈ s.channels ∨ c.entries = []) ∧ ci.pending = (pre ++ c.entries).map Entry.payload ∧
      ∀ e ∈ pre, (c.owner, e) ∈ s.accepted)
    (hall : ∀ c ∈ s.channels, c.entries ≠ [] → ∃ pre ci, Image.Item.chan c pre ci ∈ others ∧ ci.magicOn = true)
    (himg : ImageOkI (toImage s sess items) t) :
    ((toImage s sess items).map (·.2.bytes)).Perm
      (csSt.blocks sess ++ srcSt.blocks sess ++ others.map (fun it => (it.piece s sess).bytes)) ∧
    recover (flat (toImage s sess items) t) = .ok (writeBytes (recoveredLog s items)) ∧
    SelfContained (recoveredLog s items) ∧
    (∀ c ∈ s.channels, c.entries <:+: recoveredLog s items) ∧
    (∀ w e, e ∈ ofW w s.accepted → e ∈ ofW w s.delivered ∨ e ∈ recoveredLog s items) := by
  have hrep := represents_of_states s sess csSt srcSt others items hperm hchan hall
  obtain ⟨h1, h2, _, h4, h5⟩ := c08_complete_and_printable_inert cs ops s hok hrun sess items t himg hrep
  exact ⟨blocks_of_states s sess csSt srcSt others items hperm hcs hsrc, h1, h2, h4, h5⟩

/-- the same with hypothesis `ImageOk` -/
theorem c08_complete_and_printable_states (cs : ClockSync) (ops : List Op) (s : Session)
    (hok : SyncTrace (init cs) ops) (hrun : exec (init cs) ops = some s)
    (sess : Nat) (csSt srcSt : MetaState) (others : List Image.Item) (items : List (Bytes × Image.Item)) (t : Bytes)
    (hcs : csSt.committed = s.clockSyncs.map Entry.payload) (hsrc : srcSt.committed = s.sources.map Entry.payload)
    (hperm : (items.map (·.2)).Perm (csSt.items Image.Item.clockSyncs sess ++ srcSt.items Image.Item.sources sess ++ others))
    (hchan : ∀ c pre ci, Image.Item.chan c pre ci ∈ others → ci.magicOn = true →
      (c ∈ s.channels ∨ c.entries = []) ∧ ci.pending = (pre ++ c.entries).map Entry.payload ∧
      ∀ e ∈ pre, (c.owner, e) ∈ s.accepted)
    (hall : ∀ c ∈ s.channels, c.entries ≠ [] → ∃ pre ci, Image.Item.chan c pre ci ∈ others ∧ ci.magicOn = true)
    (himg : ImageOk (toImage s sess items) t) :
    ((toImage s sess items).map (·.2.bytes)).Perm
      (csSt.blocks sess ++ srcSt.blocks sess ++ others.map (fun it => (it.piece s sess).bytes)) ∧
    recover (flat (toImage s sess items) t) = .ok (writeBytes (recoveredLog s items)) ∧
    SelfContained (recoveredLog s items) ∧
    (∀ c ∈ s.channels, c.entries <:+: recoveredLog s items) ∧
    (∀ w e, e ∈ ofW w s.accepted → e ∈ ofW w s.delivered ∨ e ∈ recoveredLog s items) :=
  c08_complete_and_printable_states_inert cs ops s hok hrun sess csSt srcSt others items t hcs hsrc hperm hchan hall
    (imageOkI_of_imageOk himg)

/-! ### non-vacuity (theorems 1–3) -/

/-- a wrapped queue: `[R, E) = frame [41]`, `[0, W) = frame [42]` -/
def exChan : ChanImage :=
  { magicOn := true, w := 5, e := 11, r := 6, cap := 12, ptr := 0xBC00,
    buf := [1, 0, 0, 0, 42] ++ [0] ++ [1, 0, 0, 0, 41] ++ [0], pending := [[41], [42]] }

theorem exChan_ok : exChan.Ok := by
  refine ⟨by decide, by decide, by decide, by decide, by rfl, ?_⟩
  intro p hp
  simp only [exChan, List.mem_cons, List.not_mem_nil, or_false] at hp
  rcases hp with rfl | rfl <;> simp [PayloadOk]

/-- filler, a metadata stream growing with both magics set (two blocks, the first with unused
    capacity), a wrapped queue between them, a block without magic, trailing filler -/
def exImg : List (Bytes × Piece) :=
  [([1, 2, 3], .metaOn 77 [[9]] [0, 0]),
   ([5], .chan 77 exChan),
   ([], .off (metaBlock false 77 5 (frame [9]))),
   ([4, 4], .metaOn 77 [[9]] [])]

/-- the two metadata blocks are the blocks of one stream in state `growingBoth` -/
example : (MetaState.growingBoth [[9]] [0, 0] []).pieces 77 = [.metaOn 77 [[9]] [0, 0], .metaOn 77 [[9]] []] := rfl

theorem exImg_ok : ImageOkF exImg [7, 7] := by
  refine ⟨?_, by decide⟩
  intro x hx
  simp only [exImg, List.mem_cons, List.not_mem_nil, or_false] at hx
  rcases hx with rfl | rfl | rfl | rfl
  · exact ⟨by decide, by decide, by decide, by simp [PayloadOk], by decide⟩
  · refine ⟨by decide, ?_⟩
    show (if exChan.magicOn = true then (77 < 2 ^ 64 ∧ exChan.cap < 2 ^ 64 ∧ exChan.Ok) else FillerOk (exChan.block 77))
    rw [if_pos (show exChan.magicOn = true from rfl)]
    exact ⟨by decide, by decide, exChan_ok⟩
  · exact ⟨by decide, (by decide : FillerOk (metaBlock false 77 5 (frame [9])))⟩
  · exact ⟨by decide, by decide, by decide, by simp [PayloadOk], by decide⟩

/-- the theorem applies … -/
example : recover (flat exImg [7, 7]) = .ok (frames [[9], [9], [41], [42]]) :=
  c08_recovered_content exImg [7, 7] (imageOk_of_okF _ _ exImg_ok) 77 (by decide)

set_option maxRecDepth 100000 in
/-- … and agrees with running the model of the tool's scan on the bytes -/
example : (scan ((flat exImg [7, 7]).length + 1) (flat exImg [7, 7])).toOption.map (·.map (·.buffer))
    = some [frame [9], frame [41] ++ frame [42], frame [9]] := by decide



/-- **H1 is necessary.**  If the bytes behind the size field of a metadata block (here: an entry being
    inserted whose content is a magic number and a plausible header) are not free of magic numbers,
    the tool collects a buffer that was never committed. -/
def exBad : List (Bytes × Piece) :=
  [([], .metaOn 77 [[9]] (frame (metadataMagic ++ le 8 77 ++ le 8 5 ++ frame [66])))]

set_option maxRecDepth 100000 in
example : (scan ((flat exBad []).length + 1) (flat exBad [])).toOption.map (·.map (·.buffer))
    = some [frame [9], frame [66]] := by decide

example : [66] ∉ metaPayloads exBad ++ chanPayloads exBad := by decide

/-! ### non-vacuity (theorem 4) -/

/-! One writer, one source, two events in a wrapped queue; the event-source
    stream has an append in flight (`inserted`: garbage-free extra bytes behind the size field). -/
def exOps : List Op := [.createWriter 1 0 [], .addSource {}, .log 1 1 10 [] true, .log 1 1 11 [] true]

def exS : Session := (exec (init {}) exOps).get (by decide)

theorem exS_run : exec (init {}) exOps = some exS := by simp [exS]

theorem exOps_ok : SyncTrace (init {}) exOps := by
  simp [exOps, SyncTrace, OpOk, SyncOk, step, init, lookupWriter, newChan, setWriter, updChan]

def exC : Chan :=
  { cid := 0, owner := 1, wp := {}, entries := [.event 1 10 [], .event 1 11 []], closed := false, sealed := false }

theorem exS_channels : exS.channels = [exC] := by rfl

/-- the queue of the channel, wrapped: `[R, E)` holds the first event, `[0, W)` the second -/
def exCi : ChanImage :=
  { magicOn := true, w := 20, e := 44, r := 24, cap := 48, ptr := 0,
    buf := frame (eventPayload 1 11 []) ++ [0, 0, 0, 0] ++ frame (eventPayload 1 10 []) ++ [0, 0, 0, 0],
    pending := [eventPayload 1 10 [], eventPayload 1 11 []] }

theorem exCi_ok : exCi.Ok := by
  refine ⟨by decide, by decide, by decide, by decide, by rfl, ?_⟩
  intro p hp
  simp only [exCi, List.mem_cons, List.not_mem_nil, or_false] at hp
  rcases hp with rfl | rfl <;> (unfold PayloadOk; decide)

def exItems : List (Bytes × Image.Item) :=
  [([1, 2, 3], .sources [0, 0]), ([], .clockSyncs []), ([5], .chan exC [] exCi)]

theorem exItems_rep : Represents exS exItems := by
  refine ⟨?_, ⟨([], .clockSyncs []), by simp [exItems], [], rfl⟩, ⟨([1, 2, 3], .sources [0, 0]), by simp [exItems], [0, 0], rfl⟩, ?_⟩
  · intro x hx c pre ci hit hm
    simp only [exItems, List.mem_cons, List.not_mem_nil, or_false] at hx
    rcases hx with rfl | rfl | rfl
    · cases hit
    · cases hit
    · injection hit with h1 h2 h3
      subst h1 h2 h3
      exact ⟨.inl (by rw [exS_channels]; simp), rfl, by simp⟩
  · intro c hc _
    rw [exS_channels, List.mem_singleton] at hc
    subst hc
    exact ⟨([5], .chan exC [] exCi), by simp [exItems], [], exCi, rfl, rfl⟩

theorem exItems_ok : ImageOkF (toImage exS 77 exItems) [7] := by
  refine ⟨?_, by decide⟩
  intro x hx
  simp only [toImage, exItems, List.map_cons, List.map_nil, List.mem_cons, List.not_mem_nil, or_false] at hx
  rcases hx with rfl | rfl | rfl
  · refine ⟨by decide, by decide, by decide, ?_, by decide⟩
    intro p hp
    have : exS.sources.map Entry.payload = [sourcePayload { id := 1 }] := by rfl
    rw [this, List.mem_singleton] at hp
    subst hp; unfold PayloadOk; decide
  · refine ⟨by decide, by decide, by decide, ?_, by decide⟩
    intro p hp
    have : exS.clockSyncs.map Entry.payload = [clockSyncPayload {}] := by rfl
    rw [this, List.mem_singleton] at hp
    subst hp; unfold PayloadOk; decide
  · refine ⟨by decide, ?_⟩
    show (if exCi.magicOn = true then (77 < 2 ^ 64 ∧ exCi.cap < 2 ^ 64 ∧ exCi.Ok) else FillerOk (exCi.block 77))
    rw [if_pos (show exCi.magicOn = true from rfl)]
    exact ⟨by decide, by decide, exCi_ok⟩

/-- the recovered log: the source, the clock sync, the two events in queue order -/
example : recoveredLog exS exItems =
    [.source { id := 1 }, .clockSync {}, .event 1 10 [], .event 1 11 []] := by rfl

/-- C08.4 applies to the example -/
example : recover (flat (toImage exS 77 exItems) [7]) = .ok (writeBytes (recoveredLog exS exItems)) ∧
    SelfContained (recoveredLog exS exItems) :=
  let h := c08_complete_and_printable {} exOps exS exOps_ok exS_run 77 exItems [7]
    (imageOk_of_okF _ _ exItems_ok) exItems_rep
  ⟨h.1, h.2.1⟩


/-- … and so does the `MetaState` form: clock-sync stream `stable`, event-source stream with an append
    in flight, blocks in another order than listed -/
example : SelfContained (recoveredLog exS exItems) :=
  (c08_complete_and_printable_states {} exOps exS exOps_ok exS_run 77
    (.stable (exS.clockSyncs.map Entry.payload) []) (.inserted (exS.sources.map Entry.payload) [0, 0])
    [.chan exC [] exCi] exItems [7] rfl rfl (List.Perm.swap _ _ _)
    (by
      intro c pre ci h hm
      simp only [List.mem_singleton] at h
      injection h with h1 h2 h3
      subst h1 h2 h3
      exact ⟨.inl (by rw [exS_channels]; simp), rfl, by simp⟩)
    (by
      intro c hc _
      rw [exS_channels, List.mem_singleton] at hc
      subst hc
      exact ⟨[], exCi, by simp, rfl⟩)
    (imageOk_of_okF _ _ exItems_ok)).2.2.1

/-! ### non-vacuity (junk magic numbers) -/

/-- a stale metadata magic number followed by a pointer and a huge size field -/
def junkMeta : Bytes := metadataMagic ++ le 8 0x7FFD12345678 ++ le 8 0xFFFFFFFFFFFF
/-- a stale data magic number followed by a header with `W = 100 > capacity = 10` -/
def junkData : Bytes := dataMagic ++ le 8 5 ++ le 8 100 ++ le 8 0 ++ le 8 10 ++ le 8 0 ++ le 8 0
/-- a stale metadata magic number followed by a pointer and eight zero bytes: ACCEPTED, size 0 -/
def junkEmpty : Bytes := metadataMagic ++ le 8 0x7FFD12345678 ++ le 8 0

/-- junk inside fillers, a junk data magic in the unused capacity of the metadata block, a bare
    metadata magic number directly in front of the queue's magic number (the rejected candidate
    is the queue's own header; the scan resumes exactly at the queue's magic), and as trailing
    filler a magic number cut off by the end of the image -/
def exJunk : List (Bytes × Piece) :=
  [([1, 2] ++ junkMeta ++ [3], .metaOn 77 [[9]] (dataMagic ++ [0, 0])),
   (junkData ++ [4] ++ junkMeta ++ metadataMagic, .chan 77 exChan)]

set_option maxRecDepth 100000 in
theorem exJunk_ok : ImageOkI exJunk metadataMagic := by
  refine ⟨inert_of_inertB (by decide), ⟨by decide, by decide, by simp [PayloadOk], inert_of_inertB (by decide)⟩,
    inert_of_inertB (by decide), ?_, inert_of_inertB (by decide)⟩
  show (if exChan.magicOn = true then (77 < 2 ^ 64 ∧ exChan.cap < 2 ^ 64 ∧ exChan.Ok)
    else Inert (exChan.block 77) (flat [] metadataMagic))
  rw [if_pos (show exChan.magicOn = true from rfl)]
  exact ⟨by decide, by decide, exChan_ok⟩

/-- the image does not satisfy the stronger hypothesis H1 -/
example : ¬ ImageOk exJunk metadataMagic := by
  intro h
  have h' : NoMagicIn ([1, 2] ++ junkMeta ++ [3]) _ ∧ _ := h
  have h1 := h'.1
  simp [junkMeta, metadataMagic_eq, NoMagicIn, StartsMagic] at h1

example : recover (flat exJunk metadataMagic) = .ok (frames [[9], [41], [42]]) :=
  c08_recovered_content_inert exJunk _ exJunk_ok 77 (by decide)

set_option maxRecDepth 100000 in
/-- running the model of the tool's scan on the bytes: the junk candidates are rejected, no block is skipped -/
example : (scan ((flat exJunk metadataMagic).length + 1) (flat exJunk metadataMagic)).toOption.map (·.map (·.buffer))
    = some [frame [9], frame [41] ++ frame [42]] := by decide

/-- accepted empty junk in a filler -/
def exJunkE : List (Bytes × Piece) :=
  [([1] ++ junkEmpty ++ junkMeta ++ [3], .metaOn 77 [[9]] []), (junkEmpty, .chan 77 exChan)]

set_option maxRecDepth 100000 in
theorem exJunkE_ok : ImageOkE exJunkE [] := by
  refine ⟨inertE_of_inertEB (by decide), ⟨by decide, by decide, by simp [PayloadOk], trivial⟩,
    inertE_of_inertEB (by decide), ?_, trivial⟩
  show (if exChan.magicOn = true then (77 < 2 ^ 64 ∧ exChan.cap < 2 ^ 64 ∧ exChan.Ok)
    else InertE (exChan.block 77) (flat [] []))
  rw [if_pos (show exChan.magicOn = true from rfl)]
  exact ⟨by decide, by decide, exChan_ok⟩

set_option maxRecDepth 100000 in
/-- the scan collects two empty buffers with the junk session id … -/
example : (scan ((flat exJunkE []).length + 1) (flat exJunkE [])).toOption.map (·.map (fun b => (b.session, b.buffer)))
    = some [(0x7FFD12345678, []), (77, frame [9]), (0x7FFD12345678, []), (77, frame [41] ++ frame [42])] := by decide

/-- … and the output is that of the image without them -/
example : recover (flat exJunkE []) = .ok (((expected exJunkE).mergeSort bufLe).map (·.buffer)).flatten :=
  (c08_recovered_output_junk exJunkE [] exJunkE_ok).choose_spec.2.2

/-! ### 5. several live sessions in one image -/

/-- what the tool writes for the buffers whose session id satisfies `q` -/
def sessionSeg (img : List (Bytes × Piece)) (q : Nat → Bool) : Bytes :=
  ((((expected img).filter (fun b => q b.session)).mergeSort bufLe).map (·.buffer)).flatten

theorem bufLe_lower (k : Nat) (a b : Recovered) (ha : decide (a.session < k) = true) (hb : decide (b.session < k) = false) :
    bufLe a b = true ∧ bufLe b a = false := by
  simp only [decide_eq_true_eq, decide_eq_false_iff_not] at ha hb
  unfold bufLe
  have h1 : ¬ a.session = b.session := by omega
  have h2 : ¬ b.session = a.session := by omega
  simp only [h1, h2, if_false, decide_eq_true_eq, decide_eq_false_iff_not]
  omega

/-- **C08.5 (any number of sessions).**  For every session id `k` the output is: what the tool
    writes for the sessions below `k`, then the buffers of session `k` — its metadata buffers in
    image order, then its data buffers in image order, exactly the segment C08.2 describes for an
    image of that session alone —, then what it writes for the sessions above `k`.  No buffer of
    another session lies between the metadata and the data of a session. -/
theorem c08_sessions_sorted (img : List (Bytes × Piece)) (t : Bytes) (h : ImageOkI img t) (k : Nat) :
    recover (flat img t) = .ok (sessionSeg img (fun s => decide (s < k)) ++
      ((((expected img).filter (fun b => b.session == k && isMeta b)).map (·.buffer)).flatten ++
       (((expected img).filter (fun b => b.session == k && isData b)).map (·.buffer)).flatten) ++
      sessionSeg img (fun s => decide (k < s))) := by
  rw [c08_recovered_sorted_inert img t h]
  congr 1
  have p1 := mergeSort_partition (fun b => decide (b.session < k)) (bufLe_lower k) (expected img)
  have p2 := mergeSort_partition (fun b => decide (b.session < k + 1)) (bufLe_lower (k + 1))
    ((expected img).filter (fun b => !decide (b.session < k)))
  rw [p1, p2]
  simp only [List.filter_filter]
  have e1 : (expected img).filter (fun b => decide (b.session < k + 1) && !decide (b.session < k)) =
      (expected img).filter (fun b => b.session == k) := by
    apply List.filter_congr
    intro b _
    by_cases hb : b.session = k
    · simp [hb]
    · have : (b.session == k) = false := by simpa using hb
      rw [this]
      by_cases h2 : b.session < k
      · simp [h2]
      · have : ¬ b.session < k + 1 := by omega
        simp [this]
  have e2 : (expected img).filter (fun b => (!decide (b.session < k + 1)) && !decide (b.session < k)) =
      (expected img).filter (fun b => decide (k < b.session)) := by
    apply List.filter_congr
    intro b _
    by_cases h2 : k < b.session
    · have a1 : ¬ b.session < k + 1 := by omega
      have a2 : ¬ b.session < k := by omega
      simp [h2, a1, a2]
    · by_cases h3 : b.session < k
      · simp [h2, h3]
      · have : b.session < k + 1 := by omega
        simp [h2, this]
  rw [e1, e2]
  have hone : ∀ b ∈ (expected img).filter (fun b => b.session == k), b.session = k := fun b hb => by
    simpa using (List.mem_filter.mp hb).2
  rw [mergeSort_one_session _ k hone]
  simp only [sessionSeg, List.map_append, List.flatten_append, List.filter_filter, List.append_assoc]
  congr 2
  · congr 2
    apply List.filter_congr; intro b _; exact Bool.and_comm _ _
  · congr 1
    congr 2
    apply List.filter_congr; intro b _; exact Bool.and_comm _ _

/-- the bytes the tool writes for the blocks of ONE session are the serialisation of that session's
    recovered log -/
theorem toImage_sorted_buffers (s : Session) (sess : Nat) (items : List (Bytes × Image.Item)) (hrep : Represents s items) :
    (((expected (toImage s sess items)).mergeSort bufLe).map (·.buffer)).flatten = writeBytes (recoveredLog s items) := by
  rw [mergeSort_one_session _ sess (toImage_one_session s sess items), List.map_append, List.flatten_append,
    meta_buffers, chan_buffers, ← frames_append, toImage_metaPayloads,
    toImage_chanPayloads s sess items (fun x hx c pre ci hit hmg => (hrep.chanOk x hx c pre ci hit hmg).2.1)]
  simp [writeBytes, recoveredLog]

/-- **C08.6 (two live sessions).**  The image holds, interleaved in any order and among any inert
    junk, the blocks of two sessions (`s1` at the lower address): the blocks with a magic number of
    session `sess_i`, in image order, are those of an image of `s_i` (hypotheses `h1`, `h2`; each
    `s_i` reachable, each represented as in C08.4).  Then
     (a) the tool writes the recovered log of `s1` followed by the recovered log of `s2`;
     (b) both logs are self-contained, and reading the concatenation yields the items of the first
         log followed by the items the second log yields WHEN READ ALONE: every event of `s2` is
         interpreted with the event source `s2` registered under its id and with `s2`'s clock sync,
         although `s1` registered other sources under the same ids;
     (c) no item is an `invalid source` error;
     (d) every accepted event of either session is delivered or in the recovered log. -/
theorem c08_two_sessions (cs1 cs2 : ClockSync) (ops1 ops2 : List Op) (s1 s2 : Session)
    (hok1 : SyncTrace (init cs1) ops1) (hrun1 : exec (init cs1) ops1 = some s1)
    (hok2 : SyncTrace (init cs2) ops2) (hrun2 : exec (init cs2) ops2 = some s2)
    (sess1 sess2 : Nat) (hlt : sess1 < sess2)
    (items1 items2 : List (Bytes × Image.Item)) (hrep1 : Represents s1 items1) (hrep2 : Represents s2 items2)
    (img : List (Bytes × Piece)) (t : Bytes) (himg : ImageOkI img t)
    (h1 : (expected img).filter (fun b => b.session == sess1) = expected (toImage s1 sess1 items1))
    (h2 : (expected img).filter (fun b => b.session == sess2) = expected (toImage s2 sess2 items2))
    (hall : ∀ b ∈ expected img, b.session = sess1 ∨ b.session = sess2) :
    recover (flat img t) = .ok (writeBytes (recoveredLog s1 items1 ++ recoveredLog s2 items2)) ∧
    SelfContained (recoveredLog s1 items1) ∧ SelfContained (recoveredLog s2 items2) ∧
    expectedItems [] {} {} (recoveredLog s1 items1 ++ recoveredLog s2 items2) =
      expectedItems [] {} {} (recoveredLog s1 items1) ++
      expectedItems [] (wpAfter {} (recoveredLog s1 items1)) {} (recoveredLog s2 items2) ∧
    (∀ w e, e ∈ ofW w s1.accepted → e ∈ ofW w s1.delivered ∨ e ∈ recoveredLog s1 items1) ∧
    (∀ w e, e ∈ ofW w s2.accepted → e ∈ ofW w s2.delivered ∨ e ∈ recoveredLog s2 items2) := by
  have hm1 := metaInv_exec cs1 ops1 s1 hok1.traceOk hrun1
  have ha1 := accValid_exec cs1 ops1 s1 hok1.traceOk hrun1
  have hm2 := metaInv_exec cs2 ops2 s2 hok2.traceOk hrun2
  have ha2 := accValid_exec cs2 ops2 s2 hok2.traceOk hrun2
  have hc1 := (C02.c02_exactly_once_in_order cs1 ops1 s1 hok1 hrun1).1
  have hc2 := (C02.c02_exactly_once_in_order cs2 ops2 s2 hok2 hrun2).1
  have sc1 := recoveredLog_selfContained s1 items1 hm1 ha1 hrep1
  have sc2 := recoveredLog_selfContained s2 items2 hm2 ha2 hrep2
  refine ⟨?_, sc1, sc2, expectedItems_after _ _ sc2 [] {} {}, ?_, ?_⟩
  · rw [c08_recovered_sorted_inert img t himg]
    congr 1
    rw [mergeSort_partition (fun b => decide (b.session < sess2)) (bufLe_lower sess2) (expected img)]
    have e1 : (expected img).filter (fun b => decide (b.session < sess2)) = expected (toImage s1 sess1 items1) := by
      rw [← h1]
      apply List.filter_congr
      intro b hb
      rcases hall b hb with h | h
      · have : b.session < sess2 := by omega
        simp [h, hlt]
      · have a1 : ¬ b.session < sess2 := by omega
        have a2 : ¬ b.session = sess1 := by omega
        simp [a1, a2]
    have e2 : (expected img).filter (fun b => !decide (b.session < sess2)) = expected (toImage s2 sess2 items2) := by
      rw [← h2]
      apply List.filter_congr
      intro b hb
      rcases hall b hb with h | h
      · have a1 : b.session < sess2 := by omega
        have a2 : ¬ b.session = sess2 := by omega
        simp [a1, a2]
      · simp [h]
    rw [e1, e2, List.map_append, List.flatten_append, toImage_sorted_buffers s1 sess1 items1 hrep1,
      toImage_sorted_buffers s2 sess2 items2 hrep2]
    simp [writeBytes, frames_append]
  · intro w e he
    exact accepted_delivered_or_recovered s1 items1 hrep1 hc1 w e he
  · intro w e he
    exact accepted_delivered_or_recovered s2 items2 hrep2 hc2 w e he

/-! ### non-vacuity (theorems 5, 6): two sessions in one image, the one at the higher address first -/

theorem exItems_okS (sess : Nat) (hs : sess = 77 ∨ sess = 99) (x : Bytes × Piece) (hx : x ∈ toImage exS sess exItems) :
    FillerOk x.1 ∧ x.2.OkF := by
  simp only [toImage, exItems, List.map_cons, List.map_nil, List.mem_cons, List.not_mem_nil, or_false] at hx
  rcases hs with rfl | rfl
  · exact exItems_ok.1 x (by simpa [toImage, exItems] using hx)
  · rcases hx with rfl | rfl | rfl
    · refine ⟨by decide, by decide, by decide, ?_, by decide⟩
      intro p hp
      have : exS.sources.map Entry.payload = [sourcePayload { id := 1 }] := by rfl
      rw [this, List.mem_singleton] at hp
      subst hp; unfold PayloadOk; decide
    · refine ⟨by decide, by decide, by decide, ?_, by decide⟩
      intro p hp
      have : exS.clockSyncs.map Entry.payload = [clockSyncPayload {}] := by rfl
      rw [this, List.mem_singleton] at hp
      subst hp; unfold PayloadOk; decide
    · refine ⟨by decide, ?_⟩
      show (if exCi.magicOn = true then (99 < 2 ^ 64 ∧ exCi.cap < 2 ^ 64 ∧ exCi.Ok) else FillerOk (exCi.block 99))
      rw [if_pos (show exCi.magicOn = true from rfl)]
      exact ⟨by decide, by decide, exCi_ok⟩

def exImg2 : List (Bytes × Piece) := toImage exS 99 exItems ++ toImage exS 77 exItems

theorem exImg2_ok : ImageOkI exImg2 [7] := by
  apply imageOkI_of_imageOk
  apply imageOk_of_okF
  refine ⟨?_, by decide⟩
  intro x hx
  rcases List.mem_append.mp hx with h | h
  · exact exItems_okS 99 (.inr rfl) x h
  · exact exItems_okS 77 (.inl rfl) x h

theorem expected_append (a b : List (Bytes × Piece)) : expected (a ++ b) = expected a ++ expected b := by
  simp [expected, List.filterMap_append]

theorem exImg2_filter (k other : Nat) (hne : other ≠ k) (a b : List (Bytes × Piece))
    (ha : ∀ x ∈ expected a, x.session = other) (hb : ∀ x ∈ expected b, x.session = k) :
    (expected (a ++ b)).filter (fun x => x.session == k) = expected b ∧
    (expected (b ++ a)).filter (fun x => x.session == k) = expected b := by
  have fa : (expected a).filter (fun x => x.session == k) = [] :=
    List.filter_eq_nil_iff.mpr (fun x hx => by simp [ha x hx, hne])
  have fb : (expected b).filter (fun x => x.session == k) = expected b :=
    List.filter_eq_self.mpr (fun x hx => by simp [hb x hx])
  constructor <;> rw [expected_append, List.filter_append, fa, fb] <;> simp

/-- C08.6 applies: the tool writes session 77's log, then session 99's (which lies FIRST in memory),
    and both read as they read alone -/
example : recover (flat exImg2 [7]) = .ok (writeBytes (recoveredLog exS exItems ++ recoveredLog exS exItems)) ∧
    expectedItems [] {} {} (recoveredLog exS exItems ++ recoveredLog exS exItems) =
      expectedItems [] {} {} (recoveredLog exS exItems) ++
      expectedItems [] (wpAfter {} (recoveredLog exS exItems)) {} (recoveredLog exS exItems) :=
  let h := c08_two_sessions {} {} exOps exOps exS exS exOps_ok exS_run exOps_ok exS_run 77 99 (by decide)
    exItems exItems exItems_rep exItems_rep exImg2 [7] exImg2_ok
    (exImg2_filter 77 99 (by decide) _ _ (toImage_one_session exS 99 exItems) (toImage_one_session exS 77 exItems)).1
    (exImg2_filter 99 77 (by decide) _ _ (toImage_one_session exS 77 exItems) (toImage_one_session exS 99 exItems)).2
    (by
      intro b hb
      rw [exImg2, expected_append] at hb
      rcases List.mem_append.mp hb with h | h
      · exact .inr (toImage_one_session exS 99 exItems b h)
      · exact .inl (toImage_one_session exS 77 exItems b h))
  ⟨h.1, h.2.2.2.1⟩

/-- the four recovered events are printed with a source and a clock sync: no error item -/
example : (expectedItems [] {} {} (recoveredLog exS exItems ++ recoveredLog exS exItems)).length = 4 ∧
    ∀ it ∈ expectedItems [] {} {} (recoveredLog exS exItems ++ recoveredLog exS exItems), it.isError = false := by
  decide


end BinlogVerif.C08
