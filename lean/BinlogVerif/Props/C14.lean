import BinlogVerif.Lemmas.ReaderState
/-
  C14 — Reader state: latest definition wins; an invalid entry affects nothing else.

  Property theorems only (helper lemmas live in `Lemmas/`).
-/
namespace BinlogVerif.C14
open BinlogVerif

/-- **SegmentedMap refines a function map** for all 2^64 keys (re-export). -/
theorem c14_segmap_is_map {V} (m : SegMap V) (k k' : Nat) (v : V)
    (h : SegMap.Inv m) (hk : k < 2^64) (hk' : k' < 2^64) :
    SegMap.find (SegMap.emplace m k v) k' = if k' = k then some v else SegMap.find m k' :=
  SegMap.find_emplace m k k' v h hk hk'

theorem c14_segmap_inv {V} : SegMap.Inv (SegMap.empty : SegMap V) ∧
    ∀ (m : SegMap V) k v, SegMap.Inv m → k < 2^64 → SegMap.Inv (SegMap.emplace m k v) :=
  ⟨SegMap.inv_empty, fun m k v h hk => SegMap.inv_emplace m k v h hk⟩

/-- the most recent valid definition of `id` among the payloads `pre` -/
def lastDef (pre : List Bytes) (id : Nat) : Option EventSource :=
  (pre.filterMap asSource).reverse.find? (fun s => s.id == id)

/-- the most recent valid writer description / clock sync among `pre` -/
def lastWriterProp (pre : List Bytes) : Option WriterProp := (pre.filterMap asWriterProp).reverse.head?
def lastClockSync (pre : List Bytes) : Option ClockSync := (pre.filterMap asClockSync).reverse.head?

/-- **Latest definition wins (state).**  After any sequence of payloads (arbitrary ids, order,
    redefinitions, invalid entries anywhere) the reader's source table maps every 64-bit id to the
    most recent valid definition, and holds the most recent valid writer description and clock sync. -/
theorem c14_state_is_latest (st : ReaderState) (pre : List Bytes)
    (hinv : SegMap.Inv st.sources) (hns : (runState st pre).2 = false) :
    (∀ id, id < 2^64 →
      (runState st pre).1.sources.find id = ((lastDef pre id).or (st.sources.find id))) ∧
    (runState st pre).1.writerProp = (lastWriterProp pre).getD st.writerProp ∧
    (runState st pre).1.clockSync = (lastClockSync pre).getD st.clockSync := by
  induction pre generalizing st with
  | nil => simp [runState, lastDef, lastWriterProp, lastClockSync]
  | cons p ps ih =>
    simp only [runState] at hns ⊢
    cases hp : stepEntry st p with
    | none => rw [hp] at hns; simp at hns
    | some r =>
      obtain ⟨items, st'⟩ := r
      rw [hp] at hns
      simp only at hns ⊢
      have hst := stepEntry_state hp
      have hinv' : SegMap.Inv st'.sources := by rw [hst]; exact metaUpdate_inv st p hinv
      obtain ⟨ih1, ih2, ih3⟩ := ih st' hinv' hns
      refine ⟨?_, ?_, ?_⟩
      · intro id hid
        rw [ih1 id hid]
        simp only [lastDef, List.filterMap_cons]
        cases hs : asSource p with
        | none =>
          simp only [hst, metaUpdate, hs]
        | some s =>
          simp only [List.reverse_cons, List.find?_append]
          have hsl := asSource_id_lt hs
          have hfind : st'.sources.find id = if id = s.id then some s else st.sources.find id := by
            rw [hst]; simp only [metaUpdate, hs]
            exact SegMap.find_emplace _ _ _ _ hinv hsl hid
          rw [hfind]
          cases hf : List.find? (fun s => s.id == id) (List.filterMap asSource ps).reverse with
          | some x => simp
          | none =>
            by_cases hid' : id = s.id
            · subst hid'; simp
            · have : (s.id == id) = false := by simp; exact fun h => hid' h.symm
              simp [hid', this]
      · rw [ih2]
        simp only [lastWriterProp, List.filterMap_cons]
        cases hs : asWriterProp p with
        | none => simp [hst, metaUpdate, hs]
        | some w =>
          simp only [List.reverse_cons, hst, metaUpdate, hs, Option.getD_some]
          cases hl : (List.filterMap asWriterProp ps).reverse with
          | nil => simp
          | cons a b => simp
      · rw [ih3]
        simp only [lastClockSync, List.filterMap_cons]
        cases hs : asClockSync p with
        | none => simp [hst, metaUpdate, hs]
        | some w =>
          simp only [List.reverse_cons, hst, metaUpdate, hs, Option.getD_some]
          cases hl : (List.filterMap asClockSync ps).reverse with
          | nil => simp
          | cons a b => simp

/-- **Latest definition wins (events).**  An event payload (non-special tag `id`, 8-byte clock,
    arguments) read after `pre` is interpreted with the most recent valid definition of `id`, and
    reported with the most recent writer description and clock sync; with no definition it is an
    `invalid source` error. -/
theorem c14_latest_wins (pre : List Bytes) (id clock : Nat) (args : Bytes)
    (hns : (runState {} pre).2 = false) (hid : id < 2^63) (hclock : clock < 2^64) :
    readAll {} (pre ++ [eventPayload id clock args]) = readAll {} pre ++
      [match lastDef pre id with
       | some src => Item.event ⟨src, clock, args⟩
            ((lastWriterProp pre).getD {}) ((lastClockSync pre).getD {})
       | none => Item.error .invalidSource] := by
  have hinv0 : SegMap.Inv ({} : ReaderState).sources := SegMap.inv_empty
  obtain ⟨h1, h2, h3⟩ := c14_state_is_latest {} pre hinv0 hns
  rw [readAll_append _ _ _ hns]
  refine congrArg (readAll {} pre ++ ·) ?_
  have hid64 : id < 2^64 := Nat.lt_trans hid (by decide)
  have hfind := h1 id hid64
  rw [SegMap.find_empty] at hfind
  simp only [Option.or_none] at hfind
  generalize (runState {} pre).1 = st at *
  have hcl : clock < 256 ^ 8 := by simpa using hclock
  simp only [readAll, stepEntry, eventPayload, List.append_assoc]
  rw [processEntry_event st id _ hid, hfind]
  cases hl : lastDef pre id with
  | none => rfl
  | some src =>
    simp only
    rw [readU_le_append 8 clock _ hcl]
    simp [h2, h3]

/-- **An invalid entry is local.**  If payload `p` is reported as an error in the state reached
    after `es₁`, then the whole read is: items of `es₁`, that one error, then exactly the items
    that `es₂` produces when `p` is absent. -/
theorem c14_invalid_local (st : ReaderState) (es₁ es₂ : List Bytes) (p : Bytes) (e : Err)
    (hns : (runState st es₁).2 = false)
    (herr : (processEntry (runState st es₁).1 p).1 = .error e) :
    readAll st (es₁ ++ p :: es₂) = readAll st es₁ ++ Item.error e :: readAll (runState st es₁).1 es₂ ∧
    readAll st (es₁ ++ es₂) = readAll st es₁ ++ readAll (runState st es₁).1 es₂ := by
  refine ⟨?_, readAll_append st es₁ es₂ hns⟩
  rw [readAll_append st es₁ _ hns]
  refine congrArg (readAll st es₁ ++ ·) ?_
  have hs := processEntry_error_state _ p e herr
  generalize (runState st es₁).1 = st1 at *
  simp only [readAll, stepEntry]
  match hp : processEntry st1 p with
  | (.ok r, s) => rw [hp] at herr; cases herr
  | (.error e', s) =>
    rw [hp] at herr hs
    simp only at herr hs
    injection herr with herr
    subst herr; subst hs
    rfl

/-! The invalid kinds the property lists are all reported as errors. -/

/-- payload shorter than a tag -/
theorem c14_invalid_short_tag (st : ReaderState) (p : Bytes) (h0 : p ≠ []) (h : p.length < 8) :
    (processEntry st p).1 = .error .overflow := by
  have hE : p.isEmpty = false := by cases p <;> simp_all
  simp only [processEntry, processEntryCore, hE, Bool.false_eq_true, if_false]
  rw [readU_short 8 p h]
  rfl

/-- event with an unknown source id -/
theorem c14_invalid_unknown_id (st : ReaderState) (id : Nat) (rest : Bytes) (hid : id < 2^63)
    (hunk : st.sources.find id = none) :
    (processEntry st (le 8 id ++ rest)).1 = .error .invalidSource := by
  rw [processEntry_event st id rest hid, hunk]

/-- event too short to hold a clock -/
theorem c14_invalid_short_clock (st : ReaderState) (id : Nat) (rest : Bytes) (src : EventSource)
    (hid : id < 2^63) (hk : st.sources.find id = some src) (hshort : rest.length < 8) :
    (processEntry st (le 8 id ++ rest)).1 = .error .overflow := by
  rw [processEntry_event st id rest hid, hk]
  simp only
  rw [readU_short 8 rest hshort]

/-- truncated metadata payload: a known special tag whose body does not deserialise -/
theorem c14_invalid_metadata (st : ReaderState) (body : Bytes) :
    (∀ e, decSource body = .error e → (processEntry st (le 8 tagEventSource ++ body)).1 = .error e) ∧
    (∀ e, decWriterProp body = .error e → (processEntry st (le 8 tagWriterProp ++ body)).1 = .error e) ∧
    (∀ e, decClockSync body = .error e → (processEntry st (le 8 tagClockSync ++ body)).1 = .error e) := by
  obtain ⟨s1, s2, s3, n12, n13, n23⟩ := special_tags
  have hne : ∀ t, (le 8 t ++ body).isEmpty = false := by
    intro t
    exact le_append_isEmpty 8 t body (by decide)
  refine ⟨?_, ?_, ?_⟩
  · intro e he
    simp only [processEntry, processEntryCore, hne, Bool.false_eq_true, if_false]
    rw [readU_le_append 8 _ _ (by decide)]
    simp [bind, Except.bind, s1, he]
  · intro e he
    simp only [processEntry, processEntryCore, hne, Bool.false_eq_true, if_false]
    rw [readU_le_append 8 _ _ (by decide)]
    simp [bind, Except.bind, s2, he, Ne.symm n12]
  · intro e he
    simp only [processEntry, processEntryCore, hne, Bool.false_eq_true, if_false]
    rw [readU_le_append 8 _ _ (by decide)]
    simp [bind, Except.bind, s3, he, Ne.symm n13, Ne.symm n23]

/-! Non-vacuity: a concrete log with a redefinition, an invalid entry in the middle, and events
    before and after. -/
def exSrc (id : Nat) (fmt : Bytes) : Bytes :=
  sourcePayload { id := id, formatString := fmt }

example :
    readAll {} [exSrc 5 [97], eventPayload 5 1 [], eventPayload 9 2 [], exSrc 5 [98], eventPayload 5 3 []]
      = [ Item.event ⟨{ id := 5, formatString := [97] }, 1, []⟩ {} {},
          Item.error .invalidSource,
          Item.event ⟨{ id := 5, formatString := [98] }, 3, []⟩ {} {} ] := by
  decide

end BinlogVerif.C14
