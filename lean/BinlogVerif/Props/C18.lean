import BinlogVerif.Reader.Filter
/-
  C18 — Sorted reading is a stable reordering of unsorted reading.

  `printUnsorted`/`printSorted` model the two loops of bin/printers.cpp over the items the
  reader produces (events, or the exception that ends the read); `std::stable_sort` is modelled by
  core's `List.mergeSort`, whose stability is a theorem of Lean core, not an assumption.
-/
namespace BinlogVerif.C18
open BinlogVerif List

def byClock {T} : Line T → Line T → Bool := fun a b => decide (a.1 ≤ b.1)

theorem byClock_trans {T} : ∀ (a b c : Line T), byClock a b → byClock b c → byClock a c := by
  intro a b c h1 h2; simp [byClock] at *; omega

theorem byClock_total {T} : ∀ (a b : Line T), byClock a b || byClock b a := by
  intro a b; simp [byClock]; omega

/-- **C18.**  For every item sequence a read produces (events, possibly ended by an invalid or
    truncated entry): the sorted printer prints a permutation of exactly the lines the unsorted
    printer prints (same multiset — no readable event disappears), in non-decreasing clock order,
    with lines of equal clock in their file order; both report the same error (if any). -/
theorem c18_perm_stable {T} (render : Event → WriterProp → ClockSync → T) (items : List Item) :
    let u := printUnsorted render items
    let s := printSorted render items
    s.2 = u.2 ∧
    s.1 ~ u.1 ∧
    s.1.Pairwise (fun a b => a.1 ≤ b.1) ∧
    ∀ c, s.1.filter (fun l => l.1 == c) = u.1.filter (fun l => l.1 == c) := by
  simp only [printSorted]
  generalize (printUnsorted render items) = u
  obtain ⟨ls, err⟩ := u
  simp only
  have hperm : ls.mergeSort (fun a b => decide (a.1 ≤ b.1)) ~ ls := mergeSort_perm ls _
  refine ⟨trivial, hperm, ?_, ?_⟩
  · have := pairwise_mergeSort (le := byClock) byClock_trans byClock_total ls
    exact this.imp (by intro a b h; simpa [byClock] using h)
  · intro c
    -- the lines of clock `c` form a sorted sublist of the input, hence survive in order
    have hsub : ls.filter (fun l => l.1 == c) <+ ls := filter_sublist
    have hpw : (ls.filter (fun l => l.1 == c)).Pairwise (fun a b => byClock a b) := by
      apply pairwise_of_forall_mem_list
      intro a ha b hb
      simp only [mem_filter, beq_iff_eq] at ha hb
      simp [byClock, ha.2, hb.2]
    have h1 := sublist_mergeSort (le := byClock) byClock_trans byClock_total hpw hsub
    have h2 : (ls.filter (fun l => l.1 == c)).filter (fun l => l.1 == c)
        <+ (ls.mergeSort byClock).filter (fun l => l.1 == c) := h1.filter _
    rw [filter_filter] at h2
    simp only [Bool.and_self] at h2
    have hlen : ((ls.mergeSort byClock).filter (fun l => l.1 == c)).length
        = (ls.filter (fun l => l.1 == c)).length := (hperm.filter _).length_eq
    exact (h2.eq_of_length hlen.symm).symm

/-- the unsorted printer prints the events before the first error, in order -/
theorem c18_unsorted_is_prefix {T} (render : Event → WriterProp → ClockSync → T) (items : List Item) :
    (printUnsorted render items).1 =
      (items.takeWhile (fun it => !it.isError)).filterMap (fun it => match it with
        | .event ev wp cs => some (ev.clockValue, render ev wp cs)
        | .error _ => none) := by
  induction items with
  | nil => simp [printUnsorted]
  | cons it rest ih =>
    cases it with
    | error e => simp [printUnsorted, Item.isError]
    | event ev wp cs => simp [printUnsorted, Item.isError, ih]

/-! Non-vacuity (the theorem has no hypotheses); a concrete unsorted run with out-of-order
    clocks, a tie and a trailing error. -/
def ev (c : Nat) : Item := .event ⟨{}, c, []⟩ {} {}
example :
    (printUnsorted (fun e _ _ => e.clockValue) [ev 5, ev 3, ev 5, ev 1, .error .truncPayload]) =
      ([(5,5),(3,3),(5,5),(1,1)], some .truncPayload) := by
  decide

end BinlogVerif.C18
