import BinlogVerif.Lemmas.SessionMeta
import BinlogVerif.Props.C12
/-
  C11 — Consumed stream framing: whole entries per write, exact batches, right writer.

  In the L1 model a `write` call carries a list of entries by construction; what makes that the
  truth about the code is (i) C01's `c01_pieces_whole_commits` (each of the two pieces `beginRead`
  returns is a run of whole commits; a commit of `addEvent` is one framed entry, C04) and (ii) the
  correspondence harness, which records every real `OutputStream::write` call with its boundaries
  and compares it with the model's.  The theorems below are the byte-level consequences.
-/
namespace BinlogVerif.C11
open BinlogVerif BinlogVerif.Sess

theorem frames_append (a b : List Bytes) : frames (a ++ b) = frames a ++ frames b := by
  simp [frames]

theorem writeBytes_append (a b : Write) : writeBytes (a ++ b) = writeBytes a ++ writeBytes b := by
  simp [writeBytes, frames_append]

/-- **A parsing output never sees a partial entry.**  If every entry of a write has a payload
    below 2^32 bytes, parsing the bytes of that single write call (entry stream of C12) yields
    exactly its entries and ends on an entry boundary. -/
theorem c11_whole_entries (w : Write) (hok : ∀ e ∈ w, PayloadOk e.payload) :
    splitEntries (writeBytes w) = (w.map Entry.payload, (writeBytes w).length, Tail.clean) := by
  unfold writeBytes
  apply C12.splitEntries_frames
  intro p hp
  simp only [List.mem_map] at hp
  obtain ⟨e, he, rfl⟩ := hp
  exact hok e he

/-- **Each run of events is immediately preceded by its writer description.**  The write calls
    for one polled channel are: nothing, or a writer-description entry carrying the channel's
    writer id and name and `batchSize` = the byte length of the run, followed by one or two
    pieces whose concatenation is exactly the run; all events of the run come from that channel. -/
theorem c11_writer_prop (c : Chan) (p : Poll) :
    let batch := c.entries.take (pollN c p)
    (pollChan c p).batch = batch ∧
    (pollChan c p).writes.flatten =
      (if batch.isEmpty then [] else
        Entry.writerProp { id := c.wp.id, name := c.wp.name, batchSize := (writeBytes batch).length } :: batch) ∧
    ((pollChan c p).writes.length ≤ 3) := by
  refine ⟨pollChan_batch c p, pollChan_writes_flat c p, ?_⟩
  unfold pollChan
  generalize pollN c p = n
  by_cases h : (c.entries.take n).isEmpty = true
  · simp [h]
  · simp only [h, Bool.false_eq_true, if_false, List.length_cons]
    unfold pieces
    simp only
    split <;> simp

theorem sum_pieces (batch : List Entry) (k : Nat) :
    ((pieces batch k).map (fun w => (writeBytes w).length)).sum = (writeBytes batch).length := by
  unfold pieces
  simp only
  split
  · simp
  · simp only [List.map_cons, List.map_nil, List.sum_cons, List.sum_nil, Nat.add_zero]
    rw [← List.length_append, ← writeBytes_append, List.take_append_drop]

theorem pollChan_bytes (c : Chan) (p : Poll) :
    (pollChan c p).bytes = ((pollChan c p).writes.map (fun w => (writeBytes w).length)).sum := by
  unfold pollChan
  generalize pollN c p = n
  by_cases h : (c.entries.take n).isEmpty = true
  · simp [h]
  · simp only [h, Bool.false_eq_true, if_false, List.map_cons, List.sum_cons, sum_pieces]

theorem pollAll_bytes (L : List Chan) (P : List Poll) :
    (pollAll L P).bytes = ((pollAll L P).writes.map (fun w => (writeBytes w).length)).sum := by
  induction L generalizing P with
  | nil => simp [pollAll]
  | cons c cs ih =>
    simp only [pollAll, List.map_append, List.sum_append]
    rw [pollChan_bytes, ih]

/-- **The byte counts `consume` reports equal the bytes it wrote**: `bytesConsumed` is the sum of
    the lengths of this call's writes and `totalBytesConsumed` accumulates them. -/
theorem c11_byte_counts (s : Session) (polls : List Poll) :
    (consume s polls).2.bytesConsumed = ((consumeWrites s polls).map (fun w => (writeBytes w).length)).sum ∧
    (consume s polls).2.totalBytesConsumed = s.totalConsumed + (consume s polls).2.bytesConsumed ∧
    (consume s polls).1.totalConsumed = (consume s polls).2.totalBytesConsumed := by
  unfold consume consumeWrites
  simp only
  obtain ⟨_, _, _, _, _, _, _, _, _, _, ht⟩ := emitAll_fields
    { s with consumeClockSync := false, sourcesConsumed := s.sources.length,
             channels := (pollAll s.channels polls).chans,
             totalConsumed := s.totalConsumed + ((if s.consumeClockSync then (writeBytes s.clockSyncs).length else 0)
                + (writeBytes (s.sources.drop s.sourcesConsumed)).length + (pollAll s.channels polls).bytes),
             delivered := s.delivered ++ (pollAll s.channels polls).delivered,
             lost := s.lost ++ (pollAll s.channels polls).lost }
    ((if s.consumeClockSync then [s.clockSyncs] else []) ++ [s.sources.drop s.sourcesConsumed]
      ++ (pollAll s.channels polls).writes)
  refine ⟨?_, by first | rfl | trivial, ht⟩
  rw [pollAll_bytes]
  cases s.consumeClockSync <;> simp [Nat.add_assoc]

theorem c11_byte_counts_reconsume (s : Session) :
    (reconsumeMetadata s).2.bytesConsumed =
      (writeBytes s.clockSyncs).length + (writeBytes (s.sources.take s.sourcesConsumed)).length ∧
    (reconsumeMetadata s).2.totalBytesConsumed = s.totalConsumed + (reconsumeMetadata s).2.bytesConsumed := by
  simp [reconsumeMetadata]

/-- **The whole byte stream of one consume**: clock syncs (if requested), the new sources, then per
    polled channel a writer description and its run of events — nothing else. -/
theorem c11_consume_stream (s : Session) (polls : List Poll) :
    (consumeWrites s polls).flatten =
      (if s.consumeClockSync then s.clockSyncs else []) ++ s.sources.drop s.sourcesConsumed ++
      (pollAll s.channels polls).writes.flatten := by
  unfold consumeWrites
  cases s.consumeClockSync <;> simp

/-! Non-vacuity: a wrapped batch delivered in two pieces. -/
example :
    (pollChan { cid := 0, owner := 1, wp := { id := 7, name := [97] }, closed := false, sealed := false,
                entries := [.event 1 10 [1], .event 1 11 [2], .event 1 12 [3]] } ⟨false, 3, 2⟩).writes
      = [[.writerProp { id := 7, name := [97], batchSize := 63 }],
         [.event 1 10 [1], .event 1 11 [2]], [.event 1 12 [3]]] := by
  decide

end BinlogVerif.C11
