import BinlogVerif.Lemmas.TimePrint
import BinlogVerif.Lemmas.TimeInstant
/-
  C17 — Timestamps: the printed time denotes syncTime + (clock − syncClock)/frequency.

  Model: `BinlogVerif/Reader/Time.lean` (assumptions A1–A6 listed there: two's complement wrap for
  signed overflow, libstdc++ chrono representation, `gmtime_r` = proleptic Gregorian calendar,
  `snprintf` decimal output, asserts enabled).  Helper lemmas: `BinlogVerif/Lemmas/Time*.lean`.
  Core Lean only.
-/
namespace BinlogVerif.C17
open BinlogVerif BinlogVerif.Time

/-! ### the calendar contract: `civilFromDays` ⇄ `daysFromCivil` -/

/-- `civilFromDays` (the contract assumed for `gmtime_r`) and the independent specification
    `daysFromCivil` (leap-year rule + cumulative month lengths) are inverse to each other on valid
    dates of the proleptic Gregorian calendar, for every day number. -/
theorem c17_calendar :
    (∀ z : Int, ValidDate (civilFromDays z).1 (civilFromDays z).2.1 (civilFromDays z).2.2 ∧
        daysFromCivil (civilFromDays z).1 (civilFromDays z).2.1 (civilFromDays z).2.2 = z) ∧
    (∀ (y : Int) (m d : Nat), ValidDate y m d → civilFromDays (daysFromCivil y m d) = (y, m, d)) :=
  ⟨civil_spec, civilFromDays_daysFromCivil⟩

/-! ### the instant -/

/-- **C17 (instant).**  Let `f = clockFrequency ∈ [1, 9.2·10⁹)`, all fields 64-bit values,
    `syncNs < 2⁶³`, and let `T = syncNs + (clock − syncClock)·10⁹ / f` be the exact rational
    instant in nanoseconds.  If `0 ≤ T < 9214646400·10⁹` (1970-01-01 … 2262-01-01) then the
    computed `r = clockToNs cs clock` satisfies `|r − T| < 1`:
    with `D = (clock − syncClock)·10⁹` (an exact integer, so `T − syncNs = D / f`) and
    `d = r − syncNs`, after the sync point `f·d ≤ D < f·(d+1)` (floor), before it
    `f·(d−1) < D ≤ f·d` (truncation toward zero).  No bound on the tick distance is assumed. -/
theorem c17_instant (cs : ClockSync) (clock : Nat)
    (hf1 : 1 ≤ cs.clockFrequency) (hf2 : cs.clockFrequency < 9200000000)
    (hclock : clock < 2 ^ 64) (hsc : cs.clockValue < 2 ^ 64) (hsn : cs.nsSinceEpoch < 2 ^ 63)
    (hT0 : 0 ≤ (cs.clockFrequency : Int) * cs.nsSinceEpoch + ((clock : Int) - cs.clockValue) * 10 ^ 9)
    (hT1 : (cs.clockFrequency : Int) * cs.nsSinceEpoch + ((clock : Int) - cs.clockValue) * 10 ^ 9
              < cs.clockFrequency * (9214646400 * 10 ^ 9)) :
    let f : Int := cs.clockFrequency
    let D : Int := ((clock : Int) - cs.clockValue) * 10 ^ 9
    let d : Int := clockToNs cs clock - cs.nsSinceEpoch
    (0 ≤ clockToNs cs clock ∧ clockToNs cs clock ≤ 9214646400 * 10 ^ 9) ∧
    (cs.clockValue ≤ clock → f * d ≤ D ∧ D < f * (d + 1)) ∧
    (clock < cs.clockValue → f * (d - 1) < D ∧ D ≤ f * d) := by
  have e9 : (10 : Int) ^ 9 = 1000000000 := by decide
  have eB : (9214646400 : Int) * 1000000000 = 9214646400000000000 := by decide
  rw [e9] at hT0 hT1
  rw [eB] at hT1
  simp only [e9, eB]
  obtain ⟨a, b, c, d⟩ := instant_main cs clock hf1 hf2 hclock hsc hsn hT0 hT1
  exact ⟨⟨a, b⟩, c, d⟩

/-! ### the broken-down time -/

/-- **C17 (fields).**  For every `int64` nanosecond count `ns` (negative zone-shifted values
    included; excluded are only the 854775808 values below `-9223372036·10⁹`, i.e. the last
    0.85 s above `INT64_MIN`, where `seconds·10⁹` overflows — see `c17_fields_int64_min`), the
    broken-down time has `0 ≤ nsec < 10⁹`, `hour < 24`, `min < 60`, `sec < 60`, a valid
    proleptic-Gregorian date, and denotes exactly `ns`. -/
theorem c17_fields (ns : Int) (h0 : -9223372036000000000 ≤ ns) (h1 : ns < 2 ^ 63) :
    let b := brokenDown ns
    0 ≤ b.nsec ∧ b.nsec < 10 ^ 9 ∧ b.hour < 24 ∧ b.min < 60 ∧ b.sec < 60 ∧
    ValidDate b.year b.mon b.mday ∧
    ((((daysFromCivil b.year b.mon b.mday) * 24 + b.hour) * 60 + b.min) * 60 + b.sec) * 10 ^ 9
      + b.nsec = ns := by
  have e9 : (10 : Int) ^ 9 = 1000000000 := by decide
  simp only [e9]
  rw [brokenDown_eq ns h0 h1]
  obtain ⟨v, h, m, s, e⟩ := gmtime_fields (ns / 1000000000)
  refine ⟨by simp only; omega, by simp only; omega, h, m, s, v, ?_⟩
  simp only
  rw [e]
  omega

/-! ### the printed fields -/

/-- every `int64` nanosecond count in the range of `c17_fields` falls in the years 1677..2262,
    so the year hypothesis of `c17_printed_fields` is always met by `%d`/`%u` -/
theorem c17_year_range (ns : Int) (h0 : -9223372036000000000 ≤ ns) (h1 : ns < 2 ^ 63) :
    1677 ≤ (brokenDown ns).year ∧ (brokenDown ns).year ≤ 2262 :=
  brokenDown_year_range ns h0 h1

/-- **C17 (printed fields).**  For every `int64` `ns` (range as in `c17_fields`) whose year is in
    `0..9999`, each conversion specifier prints (never traps) the zero-padded decimal digits of
    the corresponding field of `brokenDown ns`: `%Y` the year in decimal (four digits from year
    1000 on), `%y` `year mod 100`, `%m %d %H %M %S` two digits, `%N` nine digits, `%Z` the zone
    name up to its first NUL; `%z` prints (never traps, whatever the offset) a sign and two
    two-digit groups, which for `|offset| < 360000` s (100 h) are the hours and minutes of the
    offset.  (43 = `+`, 45 = `-`.)  The year hypothesis always holds: `c17_year_range`. -/
theorem c17_printed_fields (ns : Int) (h0 : -9223372036000000000 ≤ ns) (h1 : ns < 2 ^ 63)
    (hy0 : 0 ≤ (brokenDown ns).year) (hy1 : (brokenDown ns).year ≤ 9999) (tz : Int) (name : Bytes) :
    let b := brokenDown ns
    printTimeField 'Y' b tz name = .ok (decInt b.year) ∧
    (1000 ≤ b.year → printTimeField 'Y' b tz name = .ok (dig4 b.year.toNat)) ∧
    printTimeField 'y' b tz name = .ok (dig2 (b.year % 100).toNat) ∧
    printTimeField 'm' b tz name = .ok (dig2 b.mon) ∧
    printTimeField 'd' b tz name = .ok (dig2 b.mday) ∧
    printTimeField 'H' b tz name = .ok (dig2 b.hour) ∧
    printTimeField 'M' b tz name = .ok (dig2 b.min) ∧
    printTimeField 'S' b tz name = .ok (dig2 b.sec) ∧
    printTimeField 'N' b tz name = .ok (dig9 b.nsec.toNat) ∧
    printTimeField 'Z' b tz name = .ok (cstr name) ∧
    (∃ h m : Nat, printTimeField 'z' b tz name
        = .ok ((if tz ≥ 0 then 43 else 45) :: (dig2 h ++ dig2 m))) ∧
    (-360000 < tz → tz < 360000 → printTimeField 'z' b tz name
        = .ok ((if tz ≥ 0 then 43 else 45) :: (dig2 (tz.natAbs / 3600) ++ dig2 (tz.natAbs / 60 % 60)))) := by
  obtain ⟨n0, n1, _⟩ := c17_fields ns h0 h1
  obtain ⟨t1, t2, t3, t4, t5⟩ := brokenDown_twoDigit ns
  generalize brokenDown ns = b at *
  have e9 : (10 : Int) ^ 9 = 1000000000 := by decide
  rw [e9] at n1
  have hY : printTimeField 'Y' b tz name = .ok (decInt b.year) := by
    simp only [printTimeField]
    rw [wrap32_id (b.year - 1900) (by omega) (by omega), wrap32_id _ (by omega) (by omega)]
    congr 2; omega
  refine ⟨hY, ?_, ?_, printTwoDigits_nat _ t1, printTwoDigits_nat _ t2, printTwoDigits_nat _ t3,
    printTwoDigits_nat _ t4, printTwoDigits_nat _ t5, ?_, rfl, printTimeZoneOffset_total _,
    printTimeZoneOffset_small _⟩
  · intro hk
    rw [hY]
    have hn : ¬ b.year < 0 := by omega
    simp only [decInt, hn, if_false]
    rw [decNat_4 _ (by omega) (by omega)]
    congr 2; omega
  · simp only [printTimeField]
    rw [wrap32_id (b.year - 1900) (by omega) (by omega), yy_arg,
      printTwoDigits_ok _ (by omega) (by omega)]
    congr 3; omega
  · have e : b.nsec = (b.nsec.toNat : Int) := by omega
    have := printNineDigits_nat b.nsec.toNat (by omega)
    rw [← e] at this
    exact this

/-- **C17 (`%z`).**  For every 32-bit zone offset `%z` prints (never traps) a sign and two
    two-digit groups; for `|offset| < 360000` s (100 h) these are the hours and minutes of the
    offset.  (Formerly `abs(INT_MIN)` / hours ≥ 100 failed the `printTwoDigits` assertion.) -/
theorem c17_printed_zone (b : BDT) (raw : Nat) (name : Bytes) :
    let tz := toI32 raw
    (∃ h m : Nat, printTimeField 'z' b tz name
        = .ok ((if tz ≥ 0 then 43 else 45) :: (dig2 h ++ dig2 m))) ∧
    (-360000 < tz → tz < 360000 → printTimeField 'z' b tz name
        = .ok ((if tz ≥ 0 then 43 else 45) :: (dig2 (tz.natAbs / 3600) ++ dig2 (tz.natAbs / 60 % 60)))) :=
  ⟨printTimeZoneOffset_total _, printTimeZoneOffset_small _⟩

/-- **C17 (format).**  `printTime` on every date format string: a `%` followed by a char prints
    that field and continues after the char; a `%` at the very end is printed as is; any other
    char is copied. -/
theorem c17_format (b : BDT) (tz : Int) (name : Bytes) :
    printTime [] b tz name = .ok [] ∧
    (∀ c, printTime [c] b tz name = .ok [c]) ∧
    (∀ spec rest, printTime (37 :: spec :: rest) b tz name =
      (do let a ← printTimeField (Char.ofNat spec.toNat) b tz name
          let r ← printTime rest b tz name
          pure (a ++ r))) ∧
    (∀ c c2 rest, c ≠ 37 → printTime (c :: c2 :: rest) b tz name =
      (do let r ← printTime (c2 :: rest) b tz name
          pure (c :: r))) :=
  ⟨rfl, fun _ => rfl, fun s r => printTime_percent s r b tz name,
    fun c c2 r hc => printTime_literal c hc c2 r b tz name⟩

/-- **C17 (what is printed).**  With a usable clock sync, `%u` prints the fields of
    `brokenDown (clockToNs cs clock)` with offset 0 and name `UTC`; `%d` prints the fields of
    the instant shifted by the zone offset, with the offset and name of the clock sync.
    If the shifted instant is an `int64` the shift is exact. -/
theorem c17_printed_instant (fmt : Bytes) (cs : ClockSync) (clock : Nat)
    (hf : 0 < wrap64 (cs.clockFrequency : Int)) :
    printUTC fmt cs clock = printTime fmt (brokenDown (clockToNs cs clock)) 0 utcName ∧
    ∃ shifted : Int,
      printLocal fmt cs clock = printTime fmt (brokenDown shifted) (toI32 cs.tzOffset) cs.tzName ∧
      -2 ^ 63 ≤ shifted ∧ shifted < 2 ^ 63 ∧
      (-2 ^ 63 ≤ clockToNs cs clock + toI32 cs.tzOffset * 10 ^ 9 →
        clockToNs cs clock + toI32 cs.tzOffset * 10 ^ 9 < 2 ^ 63 →
        shifted = clockToNs cs clock + toI32 cs.tzOffset * 10 ^ 9) := by
  have e9 : (10 : Int) ^ 9 = 1000000000 := by decide
  have e63 : (2 : Int) ^ 63 = 9223372036854775808 := by decide
  have hf' : wrap64 (cs.clockFrequency : Int) > 0 := hf
  simp only [printUTC, printLocal, hf', if_true, e9, e63]
  refine ⟨trivial, _, rfl, (wrap64_range _).1, (wrap64_range _).2, fun a b => ?_⟩
  have := toI32_range cs.tzOffset
  rw [wrap64_id (toI32 cs.tzOffset * 1000000000) (by omega) (by omega), wrap64_id _ a b]

/-! ### no clock sync, no trap -/

/-- **C17 (no sync).**  If the frequency, read as `int64`, is not positive (`f = 0` or
    `f ≥ 2⁶³`), both `%d` and `%u` print the placeholder `no_clock_sync?`, for every format. -/
theorem c17_no_sync (fmt : Bytes) (cs : ClockSync) (clock : Nat)
    (hf : wrap64 (cs.clockFrequency : Int) ≤ 0) :
    printLocal fmt cs clock = .ok noClockSync ∧ printUTC fmt cs clock = .ok noClockSync := by
  have hf' : ¬ wrap64 (cs.clockFrequency : Int) > 0 := by omega
  simp [printLocal, printUTC, hf']

/-- `wrap64 f ≤ 0` for a 64-bit `f` means `f = 0` or `f ≥ 2⁶³` -/
theorem c17_no_sync_iff (f : Nat) (h : f < 2 ^ 64) :
    wrap64 (f : Int) ≤ 0 ↔ (f = 0 ∨ 2 ^ 63 ≤ f) := by
  have h' : f < 18446744073709551616 := h
  have e63 : (2 : Nat) ^ 63 = 9223372036854775808 := by decide
  rw [e63]
  unfold wrap64; omega

/-- **C17 (no trap).**  `%d` and `%u` never trap — in fact never fail — for ANY clock sync (well
    formed or not), clock value and date format: the `gmtime` model is total and every
    `printTwoDigits` argument is in `0..99` (including `%y` before year 0/1900 and `%z` for
    `INT_MIN`). -/
theorem c17_no_trap (fmt : Bytes) (cs : ClockSync) (clock : Nat) :
    (∃ out, printLocal fmt cs clock = .ok out) ∧ (∃ out, printUTC fmt cs clock = .ok out) ∧
    (∀ w, printLocal fmt cs clock ≠ .error (.trap w)) ∧
    (∀ w, printUTC fmt cs clock ≠ .error (.trap w)) := by
  have hl : ∃ out, printLocal fmt cs clock = .ok out := by
    unfold printLocal
    split
    · exact printTime_total _ (brokenDown_twoDigit _) _ _ _ fmt (Nat.le_refl _)
    · exact ⟨_, rfl⟩
  have hu : ∃ out, printUTC fmt cs clock = .ok out := by
    unfold printUTC
    split
    · exact printTime_total _ (brokenDown_twoDigit _) _ _ _ fmt (Nat.le_refl _)
    · exact ⟨_, rfl⟩
  refine ⟨hl, hu, fun w h => ?_, fun w h => ?_⟩
  · obtain ⟨o, ho⟩ := hl; rw [ho] at h; cases h
  · obtain ⟨o, ho⟩ := hu; rw [ho] at h; cases h

/-! ### non-vacuity: concrete witnesses (kernel evaluation of the model) -/

section Examples

example : ascii "no_clock_sync?" = noClockSync ∧ ascii "UTC" = utcName := by decide

/-- former failing input (F-C17a): sync (clock 0, 1 GHz, ns 0, zone −3600 s), clock 1800.5 s -/
def syncA : ClockSync :=
  { clockValue := 0, clockFrequency := 1000000000, nsSinceEpoch := 0, tzOffset := 2 ^ 32 - 3600,
    tzName := ascii "CET" }

example : toI32 syncA.tzOffset = -3600 := by decide
example : clockToNs syncA 1800500000000 = 1800500000000 := by decide
example : brokenDown (1800500000000 + -3600 * 1000000000)
    = { year := 1969, mon := 12, mday := 31, hour := 23, min := 30, sec := 0, nsec := 500000000 } := by
  decide +kernel
example : printLocal (ascii "%Y-%m-%d %H:%M:%S.%N %z %Z") syncA 1800500000000
    = .ok (ascii "1969-12-31 23:30:00.500000000 -0100 CET") := by decide +kernel
example : printUTC (ascii "%Y-%m-%d %H:%M:%S.%N %z %Z") syncA 1800500000000
    = .ok (ascii "1970-01-01 00:30:00.500000000 +0000 UTC") := by decide +kernel

/-- former failing input (F-C17b): sync (0, 4 GHz, 0, 0), clock 1.2·10¹⁹ ≥ 2⁶³ ticks away -/
def syncB : ClockSync :=
  { clockValue := 0, clockFrequency := 4000000000, nsSinceEpoch := 0, tzOffset := 0, tzName := [] }

example : clockToNs syncB 12000000000000000000 = 3000000000 * 10 ^ 9 := by decide
example : brokenDown (clockToNs syncB 12000000000000000000)
    = { year := 2065, mon := 1, mday := 24, hour := 5, min := 20, sec := 0, nsec := 0 } := by
  decide +kernel
example : printLocal (ascii "%Y-%m-%d %H:%M:%S") syncB 12000000000000000000
    = .ok (ascii "2065-01-24 05:20:00") := by decide +kernel
/-- the hypotheses of `c17_instant` are satisfiable (here: by the F-C17b input) -/
example := c17_instant syncB 12000000000000000000 (by decide) (by decide) (by decide) (by decide)
  (by decide) (by decide) (by decide)
/-- … and before the sync point, with a sub-nanosecond tick period (9.19 GHz) -/
example := c17_instant
  { clockValue := 2 ^ 64 - 1, clockFrequency := 9190000000, nsSinceEpoch := 2 ^ 62 } 123456789
  (by decide) (by decide) (by decide) (by decide) (by decide) (by decide) (by decide)

/-! calendar boundaries -/
example : brokenDown 0
    = { year := 1970, mon := 1, mday := 1, hour := 0, min := 0, sec := 0, nsec := 0 } := by
  decide +kernel
example : brokenDown (-1)
    = { year := 1969, mon := 12, mday := 31, hour := 23, min := 59, sec := 59, nsec := 999999999 } := by
  decide +kernel
/-- leap day 2024-02-29 (first and last nanosecond) and the day after -/
example : brokenDown (1709164800 * 10 ^ 9)
    = { year := 2024, mon := 2, mday := 29, hour := 0, min := 0, sec := 0, nsec := 0 } := by
  decide +kernel
example : brokenDown (1709251200 * 10 ^ 9 - 1)
    = { year := 2024, mon := 2, mday := 29, hour := 23, min := 59, sec := 59, nsec := 999999999 } := by
  decide +kernel
example : brokenDown (1709251200 * 10 ^ 9)
    = { year := 2024, mon := 3, mday := 1, hour := 0, min := 0, sec := 0, nsec := 0 } := by
  decide +kernel
/-- 2100 is not a leap year: 2100-02-28 23:59:59 is followed by 2100-03-01 00:00:00 -/
example : brokenDown (4107542400 * 10 ^ 9 - 1)
    = { year := 2100, mon := 2, mday := 28, hour := 23, min := 59, sec := 59, nsec := 999999999 } := by
  decide +kernel
example : brokenDown (4107542400 * 10 ^ 9)
    = { year := 2100, mon := 3, mday := 1, hour := 0, min := 0, sec := 0, nsec := 0 } := by
  decide +kernel
/-- 2000 is a leap year -/
example : brokenDown (951782400 * 10 ^ 9)
    = { year := 2000, mon := 2, mday := 29, hour := 0, min := 0, sec := 0, nsec := 0 } := by
  decide +kernel
example : daysFromCivil 1970 1 1 = 0 ∧ daysFromCivil 2024 2 29 = 19782 ∧
    daysFromCivil 2262 1 1 * 86400 = 9214646400 ∧ daysBeforeYear 1970 = 719162 := by decide
example : ValidDate 2024 2 29 ∧ ¬ ValidDate 2100 2 29 ∧ ValidDate 2000 2 29 ∧ ¬ ValidDate 2023 2 29 := by
  simp [ValidDate, daysInMonth, isLeap]

/-! format strings: `%` as last char, unknown specifier, `%%` -/
example : printUTC (ascii "100%") syncA 0 = .ok (ascii "100%") := by decide +kernel
example : printUTC (ascii "%q|%%|%") syncA 0 = .ok (ascii "%q|%%|%") := by decide +kernel
example : printUTC (ascii "%y%m%d") syncA 0 = .ok (ascii "700101") := by decide +kernel

/-! no usable clock sync: frequency 0 and frequency 2⁶³ -/
example : printLocal (ascii "%Y") { clockFrequency := 0 } 5 = .ok (ascii "no_clock_sync?") := by
  decide +kernel
example : printUTC (ascii "%Y") { clockFrequency := 2 ^ 63 } 5 = .ok (ascii "no_clock_sync?") := by
  decide +kernel

/-! `%z` for `INT_MIN` (formerly `abs(INT_MIN)`, assertion failure) and for 100 h -/
example : printTimeField 'z' (brokenDown 0) (toI32 (2 ^ 31)) [] = .ok (ascii "-0014") := by
  decide +kernel
example : printTimeField 'z' (brokenDown 0) 360000 [] = .ok (ascii "+0000") := by decide +kernel
example : printTimeField 'z' (brokenDown 0) 20700 [] = .ok (ascii "+0545") := by decide +kernel
/-! `%y` before year 1900 and before year 0 of `tm_year` (1677: `tm_year = -223`) -/
example : printTimeField 'y' (brokenDown (-9223372036000000000)) 0 [] = .ok (ascii "77") := by
  decide +kernel

/-- RESIDUAL (outside C17's 1970–2262 range, reachable only with a crafted clock sync): in the
    last 0.85 s above `INT64_MIN` the conversion `seconds → nanoseconds` after the floor
    decrement overflows `int64` (undefined behaviour).  Under assumption A1 (wrap; this is what
    an unoptimised build does) the date printed is in 2262 instead of 1677; optimised builds
    fold the `* 10⁹ / 10⁹` round trip and print 1677.  `c17_fields` therefore excludes
    `ns < -9223372036·10⁹`, and the bound is tight. -/
theorem c17_fields_int64_min :
    (brokenDown (-2 ^ 63)).year = 2262 ∧ (brokenDown (-9223372036000000001)).year = 2262 ∧
    (brokenDown (-9223372036000000000)).year = 1677 := by decide +kernel

end Examples

end BinlogVerif.C17
