import BinlogVerif.Lemmas.Mser
import BinlogVerif.Reader.Entries
/-
  C04 — Encoded size is exact and the wire format is the documented one.

  `encode` IS the documented encoding (arithmetic/enum as the object bytes, sequence as 32-bit
  count then elements, tuple/struct as members in order, optional/pointer/variant as one
  discriminator byte then the alternative), written over the tag-level type universe `Ty`;
  `size` is computed the way the code computes it (count × sizeof for arithmetic sequences, sums
  otherwise).  That every C++ realisation of a `Ty` (vector/list/set/string/…, pair/tuple,
  optional/pointers/variant, adapted enum/struct) produces exactly `tag`/`size`/`encode` is the
  correspondence part of the check (generated programs over the real templates).
-/
namespace BinlogVerif.C04
open BinlogVerif BinlogVerif.Mser

/-- **The reported size is the number of bytes written**, for every type and every value. -/
theorem c04_size_exact (t : Ty) (v : Val) (h : hasTy t v = true) : size t v = (encode t v).length :=
  size_eq t v h

/-- sizes / encodings of an argument list (`addEvent`'s pack expansion) -/
def sizeArgs : List (Ty × Val) → Nat
  | [] => 0
  | (t, v) :: r => size t v + sizeArgs r
def encodeArgs : List (Ty × Val) → Bytes
  | [] => []
  | (t, v) :: r => encode t v ++ encodeArgs r

theorem sizeArgs_exact (args : List (Ty × Val)) (h : ∀ a ∈ args, hasTy a.1 a.2 = true) :
    sizeArgs args = (encodeArgs args).length := by
  induction args with
  | nil => rfl
  | cons a r ih =>
    obtain ⟨t, v⟩ := a
    simp only [sizeArgs, encodeArgs, List.length_append]
    rw [c04_size_exact t v (h (t, v) (by simp)), ih (fun a ha => h a (by simp [ha]))]

/-- what `SessionWriter::addEvent` reserves (`totalSize`) and what it then writes -/
def addEventReserve (args : List (Ty × Val)) : Nat := (8 + 8 + sizeArgs args) + 4
def addEventWrites (sid clock : Nat) (args : List (Ty × Val)) : Bytes :=
  le 4 (8 + 8 + sizeArgs args) ++ le 8 sid ++ le 8 clock ++ encodeArgs args

/-- **An event never writes outside the space reserved for it**: it writes exactly
    `totalSize` bytes. -/
theorem c04_event_fits (sid clock : Nat) (args : List (Ty × Val))
    (h : ∀ a ∈ args, hasTy a.1 a.2 = true) :
    (addEventWrites sid clock args).length = addEventReserve args := by
  simp only [addEventWrites, addEventReserve, List.length_append, le_length]
  rw [sizeArgs_exact args h]
  omega

/-- **The entry's size prefix equals its payload length**: what `addEvent` writes is the framed
    event payload (source id, clock, arguments), when the payload is below 2^32 bytes. -/
theorem c04_entry_prefix (sid clock : Nat) (args : List (Ty × Val))
    (h : ∀ a ∈ args, hasTy a.1 a.2 = true) :
    addEventWrites sid clock args = frame (eventPayload sid clock (encodeArgs args)) := by
  simp only [addEventWrites, frame, eventPayload, List.length_append, le_length, List.append_assoc]
  rw [sizeArgs_exact args h, Nat.add_assoc]

/-! Non-vacuity: a struct with a sequence, an optional and an enum. -/
def exTy : Ty := .struct [83] [([97], .seq (.arith 105)), ([98], .var [.null, .arith 100]), ([99], .enum 66 [69] [([49], [120])])]
def exVal : Val := .tup [.seq [.num 1, .num 2], .alt 1 (.num 0), .num 1]
theorem exTyped : hasTy exTy exVal = true := by
  simp [exTy, exVal, hasTy, hasTyList, hasTyAll, hasTyNth, hasTyFields, Visit.arithSize]
example : size exTy exVal = 22 ∧ (encode exTy exVal).length = 22 := by
  simp [exTy, exVal, size, sizeFields, sizeAll, sizeNth, encode, encodeFields, encodeAll, encodeNth, Visit.arithSize]

end BinlogVerif.C04
