import BinlogVerif.Props.C03
/-
  C13 — Log rotation: each output is self-contained after reconsumeMetadata.

  `Op.rotate` = the application switches to a new output and calls `reconsumeMetadata` on it before
  the next consume.  Histories are arbitrary op lists (first-time and repeated log statements of
  several writers, consumes with any oracle, clock-sync changes, rotations — twice in a row,
  before any consume, with unconsumed events and unconsumed sources pending).
-/
namespace BinlogVerif.C13
open BinlogVerif BinlogVerif.Sess

/-- **Every output is self-contained**: in each output — the first one and each one created by a
    rotation — every event is preceded, within that output, by the event source with its id and by
    a clock sync, so it reads without the older files. -/
theorem c13_self_contained (cs : ClockSync) (ops : List Op) (s : Session)
    (hok : TraceOk (init cs) ops) (hrun : exec (init cs) ops = some s) :
    ∀ o ∈ s.outputs, ∀ pre post sid clock args, o.flatten = pre ++ Entry.event sid clock args :: post →
      (∃ src, Entry.source src ∈ pre ∧ src.id = sid) ∧ (∃ c, Entry.clockSync c ∈ pre) :=
  C03.c03_source_before_event cs ops s hok hrun

/-- **A rotation re-writes exactly the metadata consumed so far**: the new output starts with every
    clock sync ever set followed by every source already consumed; sources not yet consumed are
    written by the next consume (before any event), so nothing is missing and nothing is doubled. -/
theorem c13_rotation_writes_metadata (s : Session) (h : s.outputs ≠ []) :
    curEntries (step s .rotate |>.getD s) = s.clockSyncs ++ s.sources.take s.sourcesConsumed := by
  simp only [step, Option.getD_some, reconsumeMetadata]
  rw [emitAll_cur _ _ (by simp)]
  simp [curEntries]

/-! Non-vacuity: rotate twice in a row before any consume, with events and sources pending. -/
def exOps : List Op := [.createWriter 1 0 [], .addSource {}, .log 1 1 10 [] true, .rotate, .rotate,
  .consume [⟨false, 5, 0⟩], .addSource {}, .log 1 2 11 [] true, .rotate, .consume [⟨false, 5, 0⟩]]

example : TraceOk (init {}) exOps := by
  simp [exOps, TraceOk, OpOk, step, init, lookupWriter, newChan, setWriter, updChan, consume, reconsumeMetadata, emitAll]

example : ((exec (init {}) exOps).map (·.outputs.length)) = some 4 := by decide

end BinlogVerif.C13
