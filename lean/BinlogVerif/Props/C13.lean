import BinlogVerif.Props.C03
import BinlogVerif.Lemmas.SessionDeliver
/-
  C13 — Log rotation: each output is self-contained after reconsumeMetadata.

  `Op.rotate` = the application switches to a new output and calls `reconsumeMetadata` on it before
  the next consume.  Histories are arbitrary op lists (first-time and repeated log statements of
  several writers, consumes with any oracle, clock-sync changes, rotations — twice in a row,
  before any consume, with unconsumed events and unconsumed sources pending).
-/
namespace BinlogVerif.C13
open BinlogVerif BinlogVerif.Sess

/-- **Every output is self-contained**: in each output — the first one and each one created by a
    rotation — every event is preceded, within that output, by the event source with its id and by
    a clock sync, so it reads without the older files. -/
theorem c13_self_contained (cs : ClockSync) (ops : List Op) (s : Session)
    (hok : TraceOk (init cs) ops) (hrun : exec (init cs) ops = some s) :
    ∀ o ∈ s.outputs, ∀ pre post sid clock args, o.flatten = pre ++ Entry.event sid clock args :: post →
      (∃ src, Entry.source src ∈ pre ∧ src.id = sid) ∧ (∃ c, Entry.clockSync c ∈ pre) :=
  C03.c03_source_before_event cs ops s hok hrun

/-- **A rotation re-writes exactly the metadata consumed so far**: the new output starts with every
    clock sync ever set followed by every source already consumed; sources not yet consumed are
    written by the next consume (before any event), so nothing is missing and nothing is doubled. -/
theorem c13_rotation_writes_metadata (s : Session) (h : s.outputs ≠ []) :
    curEntries (step s .rotate |>.getD s) = s.clockSyncs ++ s.sources.take s.sourcesConsumed := by
  simp only [step, Option.getD_some, reconsumeMetadata]
  rw [emitAll_cur _ _ (by simp)]
  simp [curEntries]

/-- **C13 — the event entries of all outputs, concatenated in output order and write order, are
    exactly the delivered events**, in delivery order, each once: a rotation neither drops nor
    repeats an event (the metadata `reconsumeMetadata` repeats contains no events), and every
    event goes to exactly one output.  Holds for every trace (`TraceOk`) and every consume oracle. -/
theorem c13_partition (cs : ClockSync) (ops : List Op) (s : Session)
    (hok : TraceOk (init cs) ops) (hrun : exec (init cs) ops = some s) :
    (s.outputs.flatten.flatten).filter Entry.isEvent = s.delivered.map (·.2) :=
  outInv_exec cs ops s hok hrun

/-- the same under the C02 trace condition -/
theorem c13_partition_sync (cs : ClockSync) (ops : List Op) (s : Session)
    (hok : SyncTrace (init cs) ops) (hrun : exec (init cs) ops = some s) :
    (s.outputs.flatten.flatten).filter Entry.isEvent = s.delivered.map (·.2) :=
  c13_partition cs ops s hok.traceOk hrun

/-- **With C02: every event accepted from writer `w` is, exactly once and in order, either among
    the events of the outputs (attributed to `w` by the delivery log) or still queued**; nothing
    is lost.  `s.delivered` is both the per-writer decomposition of C02 and, projected to the
    events, the content of the outputs. -/
theorem c13_no_loss_no_dup (cs : ClockSync) (ops : List Op) (s : Session)
    (hok : SyncTrace (init cs) ops) (hrun : exec (init cs) ops = some s) :
    (s.outputs.flatten.flatten).filter Entry.isEvent = s.delivered.map (·.2) ∧
    (∀ w, ofW w (logCalls ops) = ofW w s.delivered ++ pendingOf w s.channels) ∧ s.lost = [] := by
  have h := delivInv_exec cs ops s hok hrun
  have ha := exec_accepted (init cs) ops s hrun
  refine ⟨c13_partition_sync cs ops s hok hrun, ?_, h.nolost⟩
  intro w
  rw [← h.order w, ha]
  simp [init]

/-! Non-vacuity: rotate twice in a row before any consume, with events and sources pending. -/
def exOps : List Op := [.createWriter 1 0 [], .addSource {}, .log 1 1 10 [] true, .rotate, .rotate,
  .consume [⟨false, 5, 0⟩], .addSource {}, .log 1 2 11 [] true, .rotate, .consume [⟨false, 5, 0⟩]]

example : TraceOk (init {}) exOps := by
  simp [exOps, TraceOk, OpOk, step, init, lookupWriter, newChan, setWriter, updChan, consume, reconsumeMetadata, emitAll]

example : ((exec (init {}) exOps).map (·.outputs.length)) = some 4 := by decide

/-! Non-vacuity: events before and after a rotation; the outputs are a partition of them. -/
def exOpsPartition : List Op :=
  [.createWriter 1 0 [], .addSource {}, .log 1 1 10 [] true, .log 1 1 11 [] true,
   .consume [⟨false, 1, 0⟩], .rotate, .log 1 1 12 [] false, .consume [⟨true, 9, 1⟩, ⟨false, 9, 0⟩]]

example : TraceOk (init {}) exOpsPartition := by
  simp [exOpsPartition, TraceOk, OpOk, step, init, lookupWriter, newChan, setWriter, updChan, consume, reconsumeMetadata,
    emitAll, pollAll, pollChan, pollN]

example : (exec (init {}) exOpsPartition).map (fun s => s.outputs.map (fun o => o.flatten.filter Entry.isEvent)) =
    some [[.event 1 10 []], [.event 1 11 [], .event 1 12 []]] := by decide


end BinlogVerif.C13
