import BinlogVerif.Lemmas.Classify
/-
  C16 — Event filter: filtering then reading equals reading then filtering.
-/
namespace BinlogVerif.C16
open BinlogVerif

/-- which items survive "read, then filter by the predicate on the resolved source" -/
def keep (pred : EventSource → Bool) : Item → Bool
  | .event e _ _ => pred e.source
  | .error _ => true

/-- a well-formed stream: reading it meets no null/empty payload and reports no error -/
def WellFormed (st : ReaderState) (ps : List Bytes) : Prop :=
  (runState st ps).2 = false ∧ ∀ it ∈ readAll st ps, it.isError = false

/-- the filter's id set agrees with "the most recent definition of the id satisfies the predicate" -/
def AllowedOk (pred : EventSource → Bool) (allowed : IdSet) (st : ReaderState) : Prop :=
  ∀ id, id < 2^64 → allowed id = match st.sources.find id with
    | some s => pred s
    | none => false

theorem allowedOk_init (pred : EventSource → Bool) : AllowedOk pred IdSet.empty {} := by
  intro id _
  simp [IdSet.empty, SegMap.find_empty]

/-- **Filter/read commutation**, from any reader state whose table the id set agrees with. -/
theorem c16_commutes_from (pred : EventSource → Bool) (st : ReaderState) (allowed : IdSet)
    (ps : List Bytes) (hinv : SegMap.Inv st.sources) (hok : AllowedOk pred allowed st)
    (hwf : WellFormed st ps) :
    readAll st (filterAll pred allowed ps).1 = (readAll st ps).filter (keep pred) := by
  induction ps generalizing st allowed with
  | nil => simp [filterAll, readAll]
  | cons p ps ih =>
    obtain ⟨hns, hne⟩ := hwf
    simp only [runState, readAll, stepEntry, processEntry_eq_spec] at hns hne
    simp only [filterAll, filterEntry_eq_spec, readAll, stepEntry, processEntry_eq_spec]
    cases hk : classify p with
    | empty => simp [hk, processSpec] at hns
    | short => simp [hk, processSpec, Item.isError] at hne
    | badSource e => simp [hk, processSpec, Item.isError] at hne
    | badWriterProp e => simp [hk, processSpec, Item.isError] at hne
    | badClockSync e => simp [hk, processSpec, Item.isError] at hne
    | source s =>
      simp only [hk, processSpec, filterSpec, List.nil_append] at hns hne ⊢
      simp only [if_true, readAll, stepEntry, processEntry_eq_spec, hk, processSpec, List.nil_append]
      have hsl := classify_source_id_lt hk
      apply ih
      · exact SegMap.inv_emplace _ _ _ hinv hsl
      · intro id hid
        simp only [IdSet.set]
        rw [SegMap.find_emplace _ _ _ _ hinv hsl hid]
        by_cases h : id = s.id
        · simp [h]
        · simp [h, hok id hid]
      · exact ⟨hns, hne⟩
    | writerProp w =>
      simp only [hk, processSpec, filterSpec, List.nil_append] at hns hne ⊢
      simp only [if_true, readAll, stepEntry, processEntry_eq_spec, hk, processSpec, List.nil_append]
      exact ih _ _ hinv hok ⟨hns, hne⟩
    | clockSync c =>
      simp only [hk, processSpec, filterSpec, List.nil_append] at hns hne ⊢
      simp only [if_true, readAll, stepEntry, processEntry_eq_spec, hk, processSpec, List.nil_append]
      exact ih _ _ hinv hok ⟨hns, hne⟩
    | unknownSpecial t =>
      simp only [hk, processSpec, filterSpec, List.nil_append] at hns hne ⊢
      simp only [if_true, readAll, stepEntry, processEntry_eq_spec, hk, processSpec, List.nil_append]
      exact ih _ _ hinv hok ⟨hns, hne⟩
    | event id rest =>
      have hidl := classify_event_id_lt hk
      have hal := hok id hidl
      simp only [hk, processSpec, filterSpec] at hns hne ⊢
      cases hf : st.sources.find id with
      | none => simp [hf, Item.isError] at hne
      | some src =>
        rw [hf] at hal
        simp only [hf] at hns hne ⊢
        cases hc : readU 8 rest with
        | error e => simp [hc, Item.isError] at hne
        | ok ca =>
          obtain ⟨clock, args⟩ := ca
          simp only [hc] at hns hne ⊢
          have hne' : ∀ it ∈ readAll st ps, it.isError = false := by
            intro it hit
            exact hne it (by simp [hit])
          have ih' := ih st allowed hinv hok ⟨hns, hne'⟩
          simp only [hal] at ih' ⊢
          by_cases hp : pred src = true
          · simp only [hp, if_true, readAll, stepEntry, processEntry_eq_spec, hk, processSpec, hf, hc]
            simp [keep, hp, ih']
          · simp only [hp, Bool.false_eq_true, if_false]
            simp [keep, hp, ih']

/-- **C16 (payload level).**  For every well-formed stream (ids may be defined again with
    different properties), every predicate: reading the filter's output gives exactly the events
    of the unfiltered read whose source — the most recent definition of their id — satisfies the
    predicate, each with identical source, writer description, clock sync, clock and arguments
    (hence identical text for any renderer). -/
theorem c16_commutes (pred : EventSource → Bool) (ps : List Bytes) (hwf : WellFormed {} ps) :
    readAll {} (filterAll pred IdSet.empty ps).1 = (readAll {} ps).filter (keep pred) :=
  c16_commutes_from pred {} IdSet.empty ps SegMap.inv_empty (allowedOk_init pred) hwf

/-! ### byte level: `writeAllowed` on whole-entry buffers, chunking, byte count -/

theorem readU4_frame (p rest : Bytes) (h : PayloadOk p) :
    readU 4 (frame p ++ rest) = .ok (p.length, p ++ rest) := by
  have h' : p.length < 256 ^ 4 := by simpa [PayloadOk] using h
  unfold frame
  rw [List.append_assoc, readU_le_append 4 _ _ h']

/-- on a buffer of whole entries none of which makes the filter throw, `writeAllowed` writes the
    frames of exactly the payloads `filterAll` selects, returns their total size, and no error -/
theorem writeAllowed_frames (pred : EventSource → Bool) (allowed : IdSet) (ps : List Bytes)
    (hok : ∀ p ∈ ps, PayloadOk p)
    (hne : ∀ a p, (filterSpec pred a (classify p)).isOk = true ∨ p ∉ ps) (fuel : Nat)
    (hfuel : (frames ps).length < fuel) :
    writeAllowedFuel pred fuel allowed (frames ps) =
      (frames (filterAll pred allowed ps).1, (filterAll pred allowed ps).2,
       (frames (filterAll pred allowed ps).1).length, none) := by
  induction ps generalizing allowed fuel with
  | nil =>
    cases fuel with
    | zero => simp [frames] at hfuel
    | succ f => simp [frames, writeAllowedFuel, filterAll]
  | cons p ps ih =>
    cases fuel with
    | zero => simp at hfuel
    | succ f =>
      have hp := hok p (by simp)
      have hfr : frames (p :: ps) = frame p ++ frames ps := by simp [frames]
      rw [hfr] at hfuel ⊢
      have hne0 : (frame p ++ frames ps).isEmpty = false := by
        unfold frame
        rw [List.append_assoc]
        exact le_append_isEmpty 4 _ _ (by decide)
      simp only [writeAllowedFuel, hne0, Bool.false_eq_true, if_false]
      rw [readU4_frame p _ hp]
      simp only
      rw [takeN_append p.length p _ rfl]
      simp only [filterAll, filterEntry_eq_spec]
      have hsp := hne allowed p
      cases hfs : filterSpec pred allowed (classify p) with
      | error e => rw [hfs] at hsp; simp [Except.isOk, Except.toBool] at hsp
      | ok r =>
        obtain ⟨pass, a'⟩ := r
        simp only
        have hlen : (frames ps).length < f := by
          simp [frame] at hfuel; omega
        rw [ih a' (fun q hq => hok q (by simp [hq]))
          (fun a q => by
            cases hne a q with
            | inl h => exact .inl h
            | inr h => exact .inr (by intro hq; exact h (by simp [hq]))) f hlen]
        have htake : List.take (4 + p.length) (frame p ++ frames ps) = frame p := by
          rw [List.take_append_of_le_length (by simp [frame])]
          rw [List.take_of_length_le (by simp [frame])]
        cases pass with
        | true =>
          simp only [if_true, htake]
          simp [frames, frame]
          omega
        | false => simp

/-- `filterAll` over a concatenation = running it chunk by chunk with the id set carried over
    (any split of the stream into whole-entry chunks) -/
theorem filterAll_append (pred : EventSource → Bool) (allowed : IdSet) (a b : List Bytes)
    (hne : ∀ al p, p ∈ a → (filterEntry pred al p).isOk = true) :
    filterAll pred allowed (a ++ b) =
      ((filterAll pred allowed a).1 ++ (filterAll pred (filterAll pred allowed a).2 b).1,
       (filterAll pred (filterAll pred allowed a).2 b).2) := by
  induction a generalizing allowed with
  | nil => simp [filterAll]
  | cons p ps ih =>
    simp only [List.cons_append, filterAll]
    have := hne allowed p (by simp)
    cases hf : filterEntry pred allowed p with
    | error e => rw [hf] at this; simp [Except.isOk, Except.toBool] at this
    | ok r =>
      obtain ⟨pass, a'⟩ := r
      simp only
      rw [ih a' (fun al q hq => hne al q (by simp [hq]))]
      cases pass <;> simp

/-- `isSpecialPayload p`: the payload carries a tag with the top bit set -/
def isSpecialPayload (p : Bytes) : Bool :=
  match readU 8 p with
  | .ok (tag, _) => isSpecial tag
  | .error _ => false

/-- **All metadata entries pass through unchanged and in order.** -/
theorem c16_metadata_passes (pred : EventSource → Bool) (allowed : IdSet) (ps : List Bytes)
    (hne : ∀ al p, p ∈ ps → (filterEntry pred al p).isOk = true) :
    (filterAll pred allowed ps).1.filter isSpecialPayload = ps.filter isSpecialPayload := by
  induction ps generalizing allowed with
  | nil => simp [filterAll]
  | cons p ps ih =>
    simp only [filterAll]
    have := hne allowed p (by simp)
    cases hf : filterEntry pred allowed p with
    | error e => rw [hf] at this; simp [Except.isOk, Except.toBool] at this
    | ok r =>
      obtain ⟨pass, a'⟩ := r
      have ih' := ih a' (fun al q hq => hne al q (by simp [hq]))
      simp only
      -- a dropped payload is never special
      unfold filterEntry at hf
      cases hr : readU 8 p with
      | error e => simp [hr, bind, Except.bind] at hf
      | ok tb =>
        obtain ⟨tag, body⟩ := tb
        simp only [hr, bind, Except.bind, pure, Except.pure] at hf
        by_cases hs : isSpecial tag = true
        · have hpass : pass = true := by
            simp only [hs, if_true] at hf
            split at hf
            · cases hd : decSource body with
              | error e => simp [hd] at hf
              | ok sr => simp [hd] at hf; exact hf.1
            · simp at hf; exact hf.1
          subst hpass
          simp [isSpecialPayload, hr, hs, ih']
        · cases pass <;> simp [isSpecialPayload, hr, hs, ih']

/-- **C16 (byte level, one call).**  The bytes written are the frames of the selected payloads and
    the returned count equals the number of bytes written. -/
theorem c16_count (pred : EventSource → Bool) (allowed : IdSet) (ps : List Bytes)
    (hok : ∀ p ∈ ps, PayloadOk p)
    (hne : ∀ a p, (filterSpec pred a (classify p)).isOk = true ∨ p ∉ ps) :
    let r := writeAllowed pred allowed (frames ps)
    r.1 = frames (filterAll pred allowed ps).1 ∧ r.2.2.1 = r.1.length ∧ r.2.2.2 = none := by
  simp only [writeAllowed]
  rw [writeAllowed_frames pred allowed ps hok hne _ (by omega)]
  simp

/-! Non-vacuity and the witness that motivated the `fix:` commit: id 5 is first defined with an
    allowed source, then re-defined with a rejected one; events after the re-definition must be
    filtered out. -/
def srcP (id sev : Nat) : Bytes := sourcePayload { id := id, severity := sev }
def errorsOnly : EventSource → Bool := fun s => s.severity ≥ 512

def witness : List Bytes := [srcP 5 512, eventPayload 5 1 [], srcP 5 128, eventPayload 5 2 []]

example : (readAll {} witness).length = 2 ∧ (readAll {} (filterAll errorsOnly IdSet.empty witness).1).length = 1 := by
  decide

example : WellFormed {} witness := by
  refine ⟨by decide, ?_⟩
  decide

end BinlogVerif.C16
