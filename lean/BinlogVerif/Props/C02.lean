import BinlogVerif.Lemmas.SessionDeliver
/-
  C02 — Every accepted event is delivered exactly once, unmodified, in writer order.

  Model: `Conc/Session.lean` (L1).  `accepted` is the ghost log of (writer, event) pairs in the
  order the `log` calls were accepted (`c02_accepted_is_what_was_logged`), `delivered` the ghost log
  of what `consume` took out of the channels (C13 proves it is exactly the event content of the
  outputs), `lost` what was dropped together with a removed channel.  `ofW w l` is the sub-sequence
  of writer `w`; `pendingOf w chs` the events of `w` still queued (channels in creation order).

  Interleavings: any trace of operations.  Stale reads: every `consume` takes arbitrary oracle
  values (`sawClosed`, `seen`, `split`) per channel.  The one restriction is `SyncOnClose`: a poll
  that observes "closed" on a closed channel sees all of that channel's commits, i.e. observing
  the dropped reference synchronises with the writer's last commit.  Without it the property is
  false: `c02_loss_without_sync`.
-/
namespace BinlogVerif.C02
open BinlogVerif BinlogVerif.Sess

/-- **The ghost log `accepted` is exactly the sequence of log calls that were executed**, each
    recorded as (writer, the event it passed), in trace order. -/
theorem c02_accepted_is_what_was_logged (cs : ClockSync) (ops : List Op) (s : Session)
    (hrun : exec (init cs) ops = some s) : s.accepted = logCalls ops := by
  have := exec_accepted (init cs) ops s hrun
  simpa [init] using this

/-- **C02 — exactly once, unmodified, in order, nothing lost.**  In every reachable state, for every
    writer `w`: the events `w` had accepted are the events delivered for `w` followed by the events
    still queued for `w`.  So the delivered events of `w` are a prefix of its accepted events — no
    loss, duplication, reordering or modification — and what is not delivered yet is still queued.
    Covers queue replacement (`fits = false`, any event size), moved writers (a writer is its
    identity `w`) and writers destroyed right after logging. -/
theorem c02_exactly_once_in_order (cs : ClockSync) (ops : List Op) (s : Session)
    (hok : SyncTrace (init cs) ops) (hrun : exec (init cs) ops = some s) :
    (∀ w, ofW w s.accepted = ofW w s.delivered ++ pendingOf w s.channels) ∧ s.lost = [] := by
  have h := delivInv_exec cs ops s hok hrun
  exact ⟨h.order, h.nolost⟩

/-- corollary: what was delivered for a writer is a prefix of what it logged -/
theorem c02_delivered_prefix (cs : ClockSync) (ops : List Op) (s : Session)
    (hok : SyncTrace (init cs) ops) (hrun : exec (init cs) ops = some s) (w : Nat) :
    ofW w s.delivered <+: ofW w (logCalls ops) := by
  rw [← c02_accepted_is_what_was_logged cs ops s hrun, (c02_exactly_once_in_order cs ops s hok hrun).1 w]
  exact List.prefix_append _ _

/-- **C02 — delivered at the latest by the first consume that starts after the writer's last call
    returned.**  If the trace ends with a consume that runs in state `s0` and whose polls see all
    commits of every channel of `w` (`SeesAll`: the consume happens-after the writer's last call),
    then afterwards nothing of `w` is queued and everything `w` logged has been delivered. -/
theorem c02_delivered_by_next_consume (cs : ClockSync) (ops : List Op) (polls : List Poll) (s0 s : Session)
    (hok : SyncTrace (init cs) (ops ++ [.consume polls]))
    (hrun0 : exec (init cs) ops = some s0)
    (hrun : exec (init cs) (ops ++ [.consume polls]) = some s)
    (w : Nat) (hsees : SeesAll w s0.channels polls) :
    pendingOf w s.channels = [] ∧ ofW w s.delivered = ofW w s.accepted := by
  have hpend : pendingOf w s.channels = [] := by
    rw [exec_append, hrun0] at hrun
    simp only [Option.bind_some, exec, step] at hrun
    injection hrun with hrun
    subst hrun
    unfold consume
    rw [(emitAll_fields _ _).1]
    exact pollAll_seesAll w s0.channels polls hsees
  refine ⟨hpend, ?_⟩
  rw [(c02_exactly_once_in_order cs _ s hok hrun).1 w, hpend, List.append_nil]

/-! ### the hypothesis is necessary -/

/-- a writer logs one event and is destroyed; the consumer observes the dropped reference but a
    stale (empty) queue -/
def lossOps : List Op :=
  [.createWriter 1 0 [], .addSource {}, .log 1 1 10 [] true, .destroyWriter 1, .consume [⟨true, 0, 0⟩]]

/-- **Without `SyncOnClose` events are lost**: a trace satisfying every other side condition
    (`TraceOk`) whose final state has a non-empty `lost`. -/
theorem c02_loss_without_sync :
    ∃ ops s, TraceOk (init {}) ops ∧ exec (init {}) ops = some s ∧ s.lost ≠ [] ∧
      ofW 1 s.delivered ++ pendingOf 1 s.channels ≠ ofW 1 s.accepted := by
  refine ⟨lossOps, ((exec (init {}) lossOps).get (by decide)), ?_, by simp, by decide, by decide⟩
  simp [lossOps, TraceOk, OpOk, step, init, lookupWriter, newChan, setWriter, updChan]

/-- the witness violates exactly `SyncOnClose` -/
example : ¬ SyncTrace (init {}) lossOps := by
  simp [lossOps, SyncTrace, OpOk, SyncOk, SyncOnClose, pollN, step, init, lookupWriter, newChan, setWriter, updChan]

/-! ### non-vacuity

  Two writers; writer 1's queue is replaced (`fits = false`); writer 2 is destroyed right after
  logging; the first consume has a stale `seen = 0` on writer 1's open channel; the second consume
  removes the sealed and the destroyed channel (seeing all of both); a rotation; a final consume. -/
def exOps : List Op :=
  [.createWriter 1 0 [], .createWriter 2 7 [], .addSource {},
   .log 1 1 10 [] true, .log 2 1 11 [] true,
   .consume [⟨false, 0, 0⟩, ⟨false, 1, 0⟩],
   .log 1 1 12 [] false,
   .log 2 1 13 [] true, .destroyWriter 2,
   .consume [⟨true, 0, 0⟩, ⟨true, 1, 0⟩, ⟨false, 0, 0⟩],
   .rotate,
   .consume [⟨false, 5, 0⟩]]

example : SyncTrace (init {}) exOps := by
  simp [exOps, SyncTrace, OpOk, SyncOk, SyncOnClose, pollN, step, init, lookupWriter, newChan, setWriter, updChan,
    consume, reconsumeMetadata, emitAll, pollAll, pollChan]

example : (exec (init {}) exOps).map (fun s => s.delivered) =
    some [(2, .event 1 11 []), (1, .event 1 10 []), (2, .event 1 13 []), (1, .event 1 12 [])] := by decide

example : (exec (init {}) exOps).map (fun s => (s.lost, s.channels.map (·.cid), s.outputs.length)) =
    some ([], [2], 2) := by decide

/-- the stale consume really left an event queued (the run is not trivially "everything seen") -/
example : (exec (init {}) (exOps.take 6)).map (fun s => (pendingOf 1 s.channels, ofW 1 s.delivered)) =
    some ([.event 1 10 []], []) := by decide

end BinlogVerif.C02
