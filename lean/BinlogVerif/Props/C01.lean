import BinlogVerif.Lemmas.QueueMain
import BinlogVerif.Lemmas.QueueRefine
/-
  C01 — The lock-free SPSC byte queue (Queue / QueueWriter / QueueReader) is correct under the
  C++11 release/acquire memory model.

  Model: `BinlogVerif/Conc/Queue.lean` (view-based operational semantics; every cross-thread load
  may read any coherent message, the choice is part of the operation list).  The theorems below
  hold for EVERY capacity, EVERY finite list of operations and EVERY reads-from choice, provided
  the four memory orders are at least the ones the code uses (`Orders.Sufficient`; the default
  `{}` is exactly the code).  They mention only non-ghost fields of the state and the logs
  `race`, `commits`, `delivered`; the inductive invariant behind them is `Q.Inv`
  (Lemmas/QueueInv.lean), preserved by each operation (Lemmas/QueueProd.lean, QueueCons.lean).

  The examples at the end show the statements are not vacuous: the model does run (and delivers,
  also across a wrap-around), and weakening any one of the four orders to `relaxed` lets the same
  model exhibit a data race within a few steps.
-/
namespace BinlogVerif.C01
open BinlogVerif

/-- **C01.1 — no data race.**  No non-atomic access (buffer cell or the plain field `dataEnd`)
    ever conflicts with an access of the other thread that does not happen-before it; and the
    consumer never observes `dataEnd > capacity`. -/
theorem c01_race_free (o : Q.Orders) (h : o.Sufficient) (cap : Nat) (tr : List Q.Op) (s : Q.St)
    (run : Q.exec o (Q.init cap) tr = some s) : s.race = none :=
  (Q.inv_exec o h cap tr s run).nr

/-- **C01.2 — FIFO, exactly once, whole commits.**  The bytes delivered so far (all batches
    concatenated) are a prefix of the bytes committed so far (all commits concatenated); every
    batch boundary is a commit boundary (each prefix of the delivered batches concatenates to a
    whole number of commits); committed bytes are pairwise distinct tokens, so "prefix" means each
    byte is delivered at most once, in order, with nothing skipped. -/
theorem c01_fifo_exactly_once (o : Q.Orders) (h : o.Sufficient) (cap : Nat) (tr : List Q.Op) (s : Q.St)
    (run : Q.exec o (Q.init cap) tr = some s) :
    s.delivered.flatten <+: s.commits.flatten ∧
    (∀ d, ∃ c, (s.delivered.take d).flatten = (s.commits.take c).flatten) ∧
    s.commits.flatten.Nodup :=
  (Q.inv_exec o h cap tr s run).fifo

/-- **C01.2b — each contiguous piece is a run of whole commits.**  `beginRead` returns one piece
    (`pieces = [b]`) or, when the readable data wraps, two (`pieces = [b1, b2]`: cells
    `[r, dataEnd)` and cells `[0, w)`); `batch` is their concatenation.  Every piece ends on a
    commit boundary: what was delivered before, followed by any number of leading pieces, is the
    concatenation of a whole number of commits.  In particular the split point of a wrapped read
    is a commit boundary — no commit is ever split across the wrap.  (This relies on the writer
    protocol built into the model: the window is only re-chosen — `pBegin` with a reload — when
    there are no uncommitted bytes, so each commit is written contiguously between a `pBegin`
    and its `pEnd`.) -/
theorem c01_pieces_whole_commits (o : Q.Orders) (h : o.Sufficient) (cap : Nat) (tr : List Q.Op) (s : Q.St)
    (run : Q.exec o (Q.init cap) tr = some s) :
    s.batch = s.pieces.flatten ∧ s.pieces.length ≤ 2 ∧
    (∀ p, ∃ k, s.delivered.flatten ++ (s.pieces.take p).flatten = (s.commits.take k).flatten) ∧
    (∀ b1 b2, s.pieces = [b1, b2] →
      ∃ k₁ k₂, s.delivered.flatten ++ b1 = (s.commits.take k₁).flatten ∧
               s.delivered.flatten ++ b1 ++ b2 = (s.commits.take k₂).flatten) :=
  (Q.inv_exec o h cap tr s run).pieces_whole

/-- cells holding committed bytes the consumer has not released yet, in terms of the real
    indices: `cR` = the value of `readIndex` (the consumer's last store), `pW` = the value of
    `writeIndex` (the producer's last store).  If `cR ≤ pW` these are `[cR, pW)`; otherwise the
    data wraps and they are (a subset of) `[cR, cap) ∪ [0, pW)`. -/
def unreleased (s : Q.St) (x : Nat) : Prop :=
  if s.cR ≤ s.pW then s.cR ≤ x ∧ x < s.pW else s.cR ≤ x ∨ x < s.pW

/-- **C01.3 — the write window is the producer's alone.**  The window `[wp, we)` handed out by
    `beginWrite` lies inside the buffer; none of its cells holds unreleased data (w.r.t. the
    consumer's actual `readIndex`, not the possibly stale value the producer loaded); and each
    of its cells was last read in a consumer epoch that is both finished (`< cEpoch`, i.e. not
    part of a batch the consumer may still be looking at) and visible to the producer
    (`≤ pSees`). -/
theorem c01_window_disjoint (o : Q.Orders) (h : o.Sufficient) (cap : Nat) (tr : List Q.Op) (s : Q.St)
    (run : Q.exec o (Q.init cap) tr = some s) :
    s.we ≤ s.cap ∧
    ∀ x, s.wp ≤ x → x < s.we →
      ¬ unreleased s x ∧ s.rEp.getD x 0 < s.cEpoch ∧ s.rEp.getD x 0 ≤ s.pSees := by
  have hi := Q.inv_exec o h cap tr s run
  refine ⟨hi.a7e, ?_⟩
  intro x h1 h2
  have hr := hi.window_rEp x h1 h2
  have := hi.a2p; have := hi.a1c; have := hi.a3p
  exact ⟨hi.window_real x h1 h2, by omega, by omega⟩

/-- **C01.4 — a failed space request loses nothing.**  From any reachable state, a `beginWrite`
    (`pBegin n j`, any size, any reads-from choice) that returns `false` leaves the committed
    data intact: the commit/delivery logs, the W history, the cell contents and the pending
    bytes are unchanged, no race is flagged (in particular not by the write of `dataEnd` a failed
    request may perform), and every `beginRead` the consumer could do before (`cBegin i`, any
    readable message `i`) it can still do, and it returns the same bytes.
    (The premise `hfail` is not used: the same holds for a successful request.) -/
theorem c01_failed_begin_loses_nothing (o : Q.Orders) (h : o.Sufficient) (cap : Nat) (tr : List Q.Op)
    (s : Q.St) (run : Q.exec o (Q.init cap) tr = some s)
    (n j : Nat) (s2 : Q.St) (hstep : Q.step o s (Q.Op.pBegin n j) = some s2)
    (_hfail : ¬ n ≤ s2.we - s2.wp) :
    s2.commits = s.commits ∧ s2.delivered = s.delivered ∧ s2.wHist = s.wHist ∧
    s2.data = s.data ∧ s2.pending = s.pending ∧ s2.race = none ∧
    ∀ i sc, Q.step o s (Q.Op.cBegin i) = some sc →
      ∃ sc2, Q.step o s2 (Q.Op.cBegin i) = some sc2 ∧ sc2.batch = sc.batch ∧ sc2.race = none := by
  have hi := Q.inv_exec o h cap tr s run
  have hi2 := Q.inv_pBegin o h s s2 hi n j hstep
  obtain ⟨f1, f2, f3, f4, f5, f6, f7, f8, -, -⟩ := Q.pBegin_fields o s s2 n j hstep
  refine ⟨f5, f6, f2, f7, f8, hi2.nr, ?_⟩
  intro i sc hsc
  obtain ⟨hc, m, hm⟩ := Q.cBegin_guards o s sc i hsc
  obtain ⟨sc2, hsc2⟩ := Q.cBegin_enabled o s2 i m (by rw [f1]; exact hc) (by rw [f2]; exact hm)
  obtain ⟨hisc, a1, a2, m1, hm1, a3, a4⟩ := Q.cBegin_post o h s sc hi i hsc
  obtain ⟨hisc2, b1, b2, m2, hm2, b3, b4⟩ := Q.cBegin_post o h s2 sc2 hi2 i hsc2
  have e1 : m1 = m := by rw [hm] at hm1; exact (Option.some.inj hm1).symm
  have e2 : m2 = m := by rw [f2, hm] at hm2; exact (Option.some.inj hm2).symm
  subst e1; subst e2
  refine ⟨sc2, hsc2, ?_, hisc2.nr⟩
  rw [hisc.g9, hisc2.g9, a1, a2, a3, a4, b1, b2, b3, b4, f3, f4]

/-- **C01.5 — a poll returns exactly the commits up to the message it read** (the refinement the session layer
    uses: a channel is a FIFO of whole commits of which a poll observes a prefix).  From any reachable state, a
    `beginRead` that reads W message `i` (any `i` coherence allows: `cWidx ≤ i ≤ commits.length`) leaves the logs alone
    and returns the batch that, appended to everything delivered before, is the concatenation of the FIRST `i` COMMITS —
    whatever was released earlier, however stale `i` is, across wrap-arounds. -/
theorem c01_poll_is_commit_prefix (o : Q.Orders) (h : o.Sufficient) (cap : Nat) (tr : List Q.Op) (s : Q.St)
    (run : Q.exec o (Q.init cap) tr = some s) (i : Nat) (sc : Q.St)
    (hstep : Q.step o s (Q.Op.cBegin i) = some sc) :
    s.cWidx ≤ i ∧ i ≤ s.commits.length ∧ sc.commits = s.commits ∧ sc.delivered = s.delivered ∧
    s.delivered.flatten ++ sc.batch = (s.commits.take i).flatten := by
  have hi := Q.inv_exec o h cap tr s run
  obtain ⟨hc, m, hm⟩ := Q.cBegin_guards o s sc i hstep
  obtain ⟨l1, l2, l3⟩ := Q.cBegin_logs o s sc i hstep
  have hlen := Q.getElem?_lt_length _ _ _ hm
  have := hi.g5
  refine ⟨by omega, by omega, l2, l3, ?_⟩
  have := Q.cBegin_prefix o h s sc hi i hstep
  rwa [l2, l3] at this

/-- **C01.6 — a poll with a fresh view gets everything.**  If the consumer's acquire load reads the NEWEST
    writeIndex message (which it does whenever the poll happens-after the producer's last commit), the batch is
    everything committed and not delivered yet: nothing stays behind in the queue. -/
theorem c01_fresh_poll_gets_all (o : Q.Orders) (h : o.Sufficient) (cap : Nat) (tr : List Q.Op) (s : Q.St)
    (run : Q.exec o (Q.init cap) tr = some s) (sc : Q.St)
    (hstep : Q.step o s (Q.Op.cBegin s.commits.length) = some sc) :
    s.delivered.flatten ++ sc.batch = s.commits.flatten := by
  have := (c01_poll_is_commit_prefix o h cap tr s run _ sc hstep).2.2.2.2
  rwa [List.take_length] at this

/-- …and such a poll is always possible (the newest message is coherent for every view) -/
theorem c01_fresh_poll_enabled (o : Q.Orders) (h : o.Sufficient) (cap : Nat) (tr : List Q.Op) (s : Q.St)
    (run : Q.exec o (Q.init cap) tr = some s) : ∃ sc, Q.step o s (Q.Op.cBegin s.commits.length) = some sc := by
  have hi := Q.inv_exec o h cap tr s run
  have h5 := hi.g5
  have h2 := hi.a2c
  have hl : s.commits.length < s.wHist.length := by omega
  exact Q.cBegin_enabled o s _ s.wHist[s.commits.length] (by omega) (List.getElem?_eq_getElem hl)

/-- **C01.7 — release.**  `endRead` after that poll makes the delivered bytes exactly the first `i` commits. -/
theorem c01_release_is_commit_prefix (o : Q.Orders) (h : o.Sufficient) (cap : Nat) (tr : List Q.Op) (s : Q.St)
    (run : Q.exec o (Q.init cap) tr = some s) (i : Nat) (sc sd : Q.St)
    (hstep : Q.step o s (Q.Op.cBegin i) = some sc) (hend : Q.step o sc Q.Op.cEnd = some sd) :
    sd.delivered.flatten = (sd.commits.take i).flatten ∧ sd.commits = s.commits := by
  obtain ⟨-, -, c1, c2, c3⟩ := c01_poll_is_commit_prefix o h cap tr s run i sc hstep
  obtain ⟨d1, d2, -⟩ := Q.cEnd_logs o sc sd hend
  rw [d1, d2, c1, c2]
  exact ⟨c3, rfl⟩

/-! ### Non-vacuity -/

/-- the model runs: one commit of 4 bytes, consumed in one batch (default orders = the code) -/
example : ∃ s, Q.exec {} (Q.init 4) [.pBegin 4 0, .pWrite 4, .pEnd, .cBegin 1, .cEnd] = some s ∧
    s.commits = [[1, 2, 3, 4]] ∧ s.delivered = [[1, 2, 3, 4]] ∧ s.race = none :=
  ⟨(Q.exec {} (Q.init 4) [.pBegin 4 0, .pWrite 4, .pEnd, .cBegin 1, .cEnd]).get (by decide),
   (Option.some_get _).symm, by decide⟩

/-- … also across a wrap-around (capacity 6: 4 bytes, consumed; then 3 bytes do not fit on the
    right, `dataEnd := 4`, written at the start; the stale read `cBegin 1` sees nothing new) -/
example : ∃ s, Q.exec {} (Q.init 6)
      [.pBegin 4 0, .pWrite 4, .pEnd, .cBegin 1, .cEnd, .pBegin 3 1, .pWrite 3, .pEnd,
       .cBegin 1, .cEnd, .cBegin 2, .cEnd] = some s ∧
    s.E = 4 ∧ s.delivered = [[1, 2, 3, 4], [5, 6, 7]] ∧ s.race = none :=
  ⟨(Q.exec {} (Q.init 6)
      [.pBegin 4 0, .pWrite 4, .pEnd, .cBegin 1, .cEnd, .pBegin 3 1, .pWrite 3, .pEnd,
       .cBegin 1, .cEnd, .cBegin 2, .cEnd]).get (by decide),
   (Option.some_get _).symm, by decide⟩

/-- a wrapped read really returns two pieces (capacity 6: commit 4, consume; commit 1 at cell 4;
    3 bytes do not fit on the right: `dataEnd := 5`, commit 3 at the start; one `beginRead` then
    returns cells [4,5) and [0,3)) -/
example : ∃ s, Q.exec {} (Q.init 6)
      [.pBegin 4 0, .pWrite 4, .pEnd, .cBegin 1, .cEnd, .pBegin 1 1, .pWrite 1, .pEnd,
       .pBegin 3 1, .pWrite 3, .pEnd, .cBegin 3] = some s ∧
    s.E = 5 ∧ s.pieces = [[5], [6, 7, 8]] ∧ s.commits = [[1, 2, 3, 4], [5], [6, 7, 8]] ∧ s.race = none :=
  ⟨(Q.exec {} (Q.init 6)
      [.pBegin 4 0, .pWrite 4, .pEnd, .cBegin 1, .cEnd, .pBegin 1 1, .pWrite 1, .pEnd,
       .pBegin 3 1, .pWrite 3, .pEnd, .cBegin 3]).get (by decide),
   (Option.some_get _).symm, by decide⟩

/-- writeIndex store relaxed: the consumer reads a cell whose write it has not synchronised with -/
example : ∃ tr s, Q.exec {wStore := .relaxed} (Q.init 4) tr = some s ∧ s.race ≠ none :=
  ⟨[.pBegin 1 0, .pWrite 1, .pEnd, .cBegin 1],
   (Q.exec {wStore := .relaxed} (Q.init 4) [.pBegin 1 0, .pWrite 1, .pEnd, .cBegin 1]).get (by decide),
   (Option.some_get _).symm, by decide⟩

/-- producer's load of readIndex relaxed: the producer overwrites a cell whose read it has not
    synchronised with -/
example : ∃ tr s, Q.exec {rLoadP := .relaxed} (Q.init 4) tr = some s ∧ s.race ≠ none :=
  ⟨[.pBegin 1 0, .pWrite 4, .pEnd, .cBegin 1, .cEnd, .pBegin 1 1, .pWrite 1],
   (Q.exec {rLoadP := .relaxed} (Q.init 4)
      [.pBegin 1 0, .pWrite 4, .pEnd, .cBegin 1, .cEnd, .pBegin 1 1, .pWrite 1]).get (by decide),
   (Option.some_get _).symm, by decide⟩

/-- consumer's load of writeIndex relaxed -/
example : ∃ tr s, Q.exec {wLoadC := .relaxed} (Q.init 4) tr = some s ∧ s.race ≠ none :=
  ⟨[.pBegin 1 0, .pWrite 1, .pEnd, .cBegin 1],
   (Q.exec {wLoadC := .relaxed} (Q.init 4) [.pBegin 1 0, .pWrite 1, .pEnd, .cBegin 1]).get (by decide),
   (Option.some_get _).symm, by decide⟩

/-- readIndex store relaxed -/
example : ∃ tr s, Q.exec {rStore := .relaxed} (Q.init 4) tr = some s ∧ s.race ≠ none :=
  ⟨[.pBegin 1 0, .pWrite 4, .pEnd, .cBegin 1, .cEnd, .pBegin 1 1, .pWrite 1],
   (Q.exec {rStore := .relaxed} (Q.init 4)
      [.pBegin 1 0, .pWrite 4, .pEnd, .cBegin 1, .cEnd, .pBegin 1 1, .pWrite 1]).get (by decide),
   (Option.some_get _).symm, by decide⟩

/-- the default orders are the code's, and they are sufficient -/
example : ({} : Q.Orders).Sufficient := by decide

end BinlogVerif.C01
