import BinlogVerif.Lemmas.VisitRender
import BinlogVerif.Props.C06
/-
  C07 (part "render refines") — the text `ToStringVisitor` prints, when `mserialize::visit` drives it
  with the tag of a type over the encoding of a value, is the documented rendering `render t v`.

  Scope: the visitor without a pretty printer (`tp = none`, i.e. `_pp == nullptr`: no special
  rendering of time points, durations, paths, addresses), types under the same side conditions as
  C06 (`TyOk`, `depth t < maxRec`, `EmptyStructsOk full t`).

  The invariant on the visitor state `(state, seqDepth, emptyStruct)` is `Mser.Rend`:
   * the value is preceded by `", "` exactly if `state = seq` ("inside a bracket and a sibling was
     already printed"); `seqBegin` = "inside a bracket, nothing printed yet"; `normal` = top level
     or directly after a field name;
   * `seqDepth` and `emptyStruct = false` are restored;
   * afterwards: inside a bracket (`state ≠ normal`, `seqDepth ≠ 0`) the state is `seq`; at top level
     (`normal`, depth 0) it is `normal` again.  (After a field name — `normal` at depth > 0 — the state
     afterwards is either, `visitFieldEnd` overwrites it.)
  Precondition on the start state: `0 ≤ seqDepth` (the C++ field is an `int`; with a negative depth a
  nested bracket could return to depth 0 and reset the state to `normal`) and `emptyStruct = false`.
-/
namespace BinlogVerif.C07
open BinlogVerif BinlogVerif.Tag BinlogVerif.Visit BinlogVerif.Mser BinlogVerif.Pretty

/-- the separator `ToStringVisitor::comma` prints in a state -/
abbrev separator (st : TsState) : Bytes := sepOf st

example : separator .seq = [44, 32] ∧ separator .seqBegin = [] ∧ separator .normal = [] := ⟨rfl, rfl, rfl⟩

theorem c07_render_refines (full : Bytes) (t : Ty) (v : Val) (rest : Bytes) (maxRec : Nat)
    (hok : TyOk t = true) (hv : hasTy t v = true) (hd : depth t < maxRec)
    (hes : EmptyStructsOk full t) (s : Ts) (h0 : 0 ≤ s.seqDepth) (hf : s.emptyStruct = false) :
    ∃ s', Visit.visitImpl (toStringVisitor none) full maxRec (tag t) s (encode t v ++ rest) = .ok (s', rest)
      ∧ s'.out = s.out ++ separator s.state ++ render t v
      ∧ s'.seqDepth = s.seqDepth ∧ s'.emptyStruct = false
      ∧ (s.state ≠ .normal → s.seqDepth ≠ 0 → s'.state = .seq)
      ∧ (s.state = .normal → s.seqDepth = 0 → s'.state = .normal) :=
  render_tag full t v maxRec s rest hok hv hd hes h0 hf

/-- top level: from the initial visitor state the output is exactly `render t v`, the input is
    consumed exactly, and the visitor is back in its initial state (so the next `{}` argument of the
    same event is rendered the same way) -/
theorem c07_render_top (t : Ty) (v : Val) (rest : Bytes)
    (hok : TyOk t = true) (hv : hasTy t v = true) (hd : depth t < 2048)
    (hes : EmptyStructsOk (tag t) t) :
    Visit.visit (toStringVisitor none) (tag t) {} (encode t v ++ rest)
      = .ok ({ state := .normal, seqDepth := 0, emptyStruct := false, out := render t v }, rest) := by
  obtain ⟨s', e, o, d, f, _, st⟩ :=
    c07_render_refines (tag t) t v rest 2048 hok hv hd hes {} (by decide) rfl
  have hst := st rfl rfl
  rw [Visit.visit, e]
  cases s' with
  | mk state seqDepth emptyStruct out =>
    simp only at o d f hst
    subst o d f hst
    simp [sepOf]

/-- the same with decidable hypotheses only (see `C06.c06_emptyStructsOk_of_names`) -/
theorem c07_render_top' (t : Ty) (v : Val) (rest : Bytes)
    (hok : TyOk t = true) (hv : hasTy t v = true) (hd : depth t < 2048)
    (hnames : ∀ n ∈ emptyStructNames t, n ∉ defNames t) :
    Visit.visit (toStringVisitor none) (tag t) {} (encode t v ++ rest)
      = .ok ({ state := .normal, seqDepth := 0, emptyStruct := false, out := render t v }, rest) :=
  c07_render_top t v rest hok hv hd (C06.c06_emptyStructsOk_of_names t t hok hok hnames)

/-- with an accumulated output (several arguments of one event): the text is appended -/
theorem c07_render_append (t : Ty) (v : Val) (rest : Bytes) (pre : Bytes)
    (hok : TyOk t = true) (hv : hasTy t v = true) (hd : depth t < 2048)
    (hes : EmptyStructsOk (tag t) t) :
    Visit.visit (toStringVisitor none) (tag t) { out := pre } (encode t v ++ rest)
      = .ok ({ out := pre ++ render t v }, rest) := by
  obtain ⟨s', e, o, d, f, _, st⟩ :=
    c07_render_refines (tag t) t v rest 2048 hok hv hd hes { out := pre } (Int.le_refl 0) rfl
  have hst := st rfl rfl
  rw [Visit.visit, e]
  cases s' with
  | mk state seqDepth emptyStruct out =>
    simp only at o d f hst
    subst o d f hst
    simp [sepOf]

/-- all values of a singular type render the same: `x ... <repeats N times>` is right for every element -/
theorem c07_singular_render_const (t : Ty) (v v' : Val) (hs : singularTy t = true)
    (hv : hasTy t v = true) (hv' : hasTy t v' = true) : render t v = render t v' :=
  render_singular t v v' hs hv hv'

/-- the hypotheses are satisfiable: the example type of C06 (struct with a sequence, an optional,
    an enum, an empty struct and a repeated sequence) -/
example : Visit.visit (toStringVisitor none) (tag C06.exT) {} (encode C06.exT C06.exV)
    = .ok ({ out := render C06.exT C06.exV }, []) := by
  have := c07_render_top C06.exT C06.exV [] (by decide)
    (by simp [C06.exT, C06.exV, hasTy, hasTyFields, hasTyAll, hasTyNth, hasTyList, arithSize, List.replicate])
    (by decide) (C06.c06_emptyStructsOk_of_noStructDef _ _ (by decide))
  simpa using this

end BinlogVerif.C07
